(* C05 - bundle C (C05_Defs.InvC) is inductive: numPending counts the live goroutines until the channel is closed;
   a returning queueTargetAsync has handed out the build task; a Pending target's task is on its way; Stop without a
   failure happens only when nothing is left to do. *)
From PlzV Require Import Base.Harness Model.Sched Proof.Sched_Base Proof.Sched_Inv Proof.Sched_Deps Proof.C04 Proof.Sched_Measure Proof.C05 Proof.C05_Defs Proof.C05_Pkg Proof.C05_Resolve.
From Coq Require Import Lia Arith.

(* ---- sums ---- *)
Lemma sumn_ext : forall n f f', (forall x, x < n -> f x = f' x) -> sumn n f = sumn n f'.
Proof.
  induction n as [|n IH]; intros f f' H; cbn; [reflexivity|].
  rewrite (IH f f') by (intros; apply H; lia). rewrite (H n) by lia. reflexivity.
Qed.

Lemma sumn_zero_all : forall n f, sumn n f = 0 -> forall t, t < n -> f t = 0.
Proof.
  induction n as [|n IH]; intros f H t Ht; [lia|]. cbn in H.
  destruct (Nat.eq_dec t n) as [->|Hne]; [lia | apply IH; lia].
Qed.

Lemma sumn_const0 : forall n f, (forall x, x < n -> f x = 0) -> sumn n f = 0.
Proof.
  induction n as [|n IH]; intros f H; cbn; [reflexivity|]. rewrite IH by (intros; apply H; lia). rewrite H by lia. reflexivity.
Qed.

Lemma sum_upd : forall A (f : A -> nat) (a : nat -> A) t v n, t < n ->
  sumn n (fun x => f (upd a t v x)) + f (a t) = sumn n (fun x => f (a x)) + f v.
Proof.
  intros A f a t v. induction n as [|n IH]; intros Ht; [lia|]. cbn. destruct (Nat.eq_dec t n) as [->|Hne].
  - rewrite upd_same. rewrite (sumn_ext n (fun x => f (upd a n v x)) (fun x => f (a x))) by (intros; rewrite upd_other by lia; reflexivity). lia.
  - rewrite (upd_other _ a t v n) by (intro; apply Hne; congruence). specialize (IH ltac:(lia)). lia.
Qed.

Lemma asum_upd_same : forall (a : nat -> astate) t v n, t < n -> a_cnt (a t) = a_cnt v ->
  sumn n (fun x => a_cnt (upd a t v x)) = sumn n (fun x => a_cnt (a x)).
Proof. intros a t v n Ht E. pose proof (sum_upd _ a_cnt a t v n Ht). lia. Qed.

Lemma asum_qr : forall g s d n, J s d -> d < n ->
  sumn n (fun x => a_cnt (asy (queue_resolved g s d) x)) = sumn n (fun x => a_cnt (asy s x)) + (if qr_ok s d then 1 else 0).
Proof.
  intros g s d n (HA & _) Hd. rewrite queue_resolved_eq. destruct (qr_ok s d) eqn:Q; [|lia].
  unfold qr_state. sproj. pose proof (sum_upd _ a_cnt (asy s) d (AQueue (g_deps g d)) n Hd) as E.
  unfold qr_ok in Q. apply N.ltb_lt in Q. apply HA in Q. rewrite Q in E. cbn in E. lia.
Qed.

Lemma asy_qr_live : forall g s d t, J s d -> asy s t <> ANone -> asy (queue_resolved g s d) t = asy s t.
Proof.
  intros g s d t (HA & _) H. rewrite asy_qr. destruct (qr_ok s d) eqn:Q; [|reflexivity]. cbn.
  destruct (Nat.eqb_spec t d); [subst|reflexivity]. unfold qr_ok in Q. apply N.ltb_lt in Q. apply HA in Q. contradiction.
Qed.

(* ---- every step keeps numPending - count (until the channel is closed) ---- *)
Ltac norm := unfold count; repeat (progress (autorewrite with proj; rewrite ?numPending_qr; sproj)); cbn [length].
Ltac ltn := unfold lt_n in *; repeat match goal with H : (_ <? _) = true |- _ => apply Nat.ltb_lt in H end.

Lemma delta : forall g s l, wf g -> (forall t, J s t) -> InvP g s -> enabled g s l = true -> closed s = false ->
  (numPending (apply g s l) - Z.of_nat (count g (apply g s l)) = numPending s - Z.of_nat (count g s))%Z.
Proof.
  intros g s l Hwf HJ HP He Hc. destruct Hwf as (Hw & _).
  destruct l; unfold enabled in He; cbv beta iota in He; cbn [apply]; btrue; ltn.
  - (* LInitRequest *) destruct (initq s) as [|h r]; [discriminate|]. norm. lia.
  - (* LInitDone *) norm. match goal with H : initdone s = false |- _ => rewrite H end. cbn. lia.
  - (* LParseActivate *) sproj. destruct (ex s l); norm; len_rm; [|lia].
    rewrite asum_qr by (try exact (HJ l); assumption). sproj. destruct (qr_ok _ _); lia.
  - (* LParseClaim *) norm. len_rm. lia.
  - (* LAddTarget *) destruct (Nat.eqb t l); norm; [|lia].
    rewrite asum_qr by (try exact (HJ t); assumption). sproj. destruct (qr_ok _ _); lia.
  - (* LParseOk *) sproj. destruct (ex s l); norm; len_rm; [|lia].
    rewrite asum_qr by (try exact (HJ l); assumption). sproj. destruct (qr_ok _ _); lia.
  - (* LParseFail *) norm. len_rm. lia.
  - (* LMarkSemi *) destruct (cas cas_noneed (ts s t)); norm; lia.
  - (* LSemiDone *) norm. len_rm. lia.
  - (* LAsyncQueueDep *) dasy s t Ea. dlist todo.
    assert (Ht : t < g_n g) by assumption.
    assert (Hd : d < g_n g) by (apply (Hw t), (p_todoq g s HP t _ Ea); left; reflexivity).
    assert (Hlive : asy s t <> ANone) by (rewrite Ea; discriminate).
    destruct (ex s d); [|destruct (pst_eqb (pk s (g_pkg g d)) PParsed)]; norm.
    + rewrite asum_upd_same; [|exact Ht | rewrite asy_qr_live by auto; rewrite Ea; reflexivity].
      rewrite asum_qr by auto. destruct (qr_ok s d); lia.
    + rewrite asum_upd_same; [|exact Ht | rewrite Ea; reflexivity]. lia.
    + rewrite asum_upd_same; [|exact Ht | rewrite Ea; reflexivity]. lia.
  - (* LAsyncBeginResolve *) dasy s t Ea. dlist todo. norm.
    rewrite asum_upd_same; [|assumption | rewrite Ea; reflexivity]. lia.
  - (* LAsyncResolveDep *) dasy s t Ea. btrue.
    assert (Ht : t < g_n g) by assumption.
    assert (Hd : d < g_n g) by (apply (Hw t), (p_todor g s HP t _ _ Ea), mem_In; assumption).
    assert (Hlive : asy s t <> ANone) by (rewrite Ea; discriminate).
    destruct (ex s d); norm.
    + rewrite asum_upd_same; [|exact Ht | rewrite asy_qr_live by auto; rewrite Ea; reflexivity].
      rewrite asum_qr by auto. destruct (qr_ok s d); lia.
    + rewrite asum_upd_same; [|exact Ht | rewrite Ea; reflexivity]. lia.
  - (* LAsyncBeginWait *) dasy s t Ea. dlist todo. destruct err; norm;
      (rewrite asum_upd_same; [|assumption | rewrite Ea; reflexivity]); lia.
  - (* LWaitDep *) dasy s t Ea. dlist todo. norm.
    rewrite asum_upd_same; [|assumption | rewrite Ea; reflexivity]. lia.
  - (* LDepFailed *) dasy s t Ea. dlist todo. norm.
    rewrite asum_upd_same; [|assumption | rewrite Ea; reflexivity]. lia.
  - (* LActivatePending *) dasy s t Ea. dlist todo. destruct (cas [cas_pending] (ts s t)); norm;
      (rewrite asum_upd_same; [|assumption | rewrite Ea; reflexivity]); lia.
  - (* LAsyncDone *) dasy s t Ea. norm.
    match goal with Ht : t < g_n g |- _ => pose proof (sum_upd _ a_cnt (asy s) t ADone (g_n g) Ht) as E end.
    rewrite Ea in E. cbn in E. lia.
  - (* LSendTask *) sproj. rewrite Hc. norm. len_rm. lia.
  - (* LWorkerTake *) norm. len_rm. lia.
  - (* LBuildStart *) norm. len_rm. lia.
  - (* LBuildOk *) norm. len_rm. lia.
  - (* LBuildFail *) norm. len_rm. lia.
  - (* LFinishBuild *) norm. len_rm. lia.
  - (* LTaskDone *) norm. len_rm. lia.
  - norm. lia.
  - norm. lia.
  - norm. lia.
  - norm. lia.
Qed.

Ltac pnorm := repeat (progress (autorewrite with proj; rewrite ?numPending_qr; sproj)).

(* ---- the step that closes the channel: a failure, or numPending has reached 0 ---- *)
Lemma closing : forall g s l, InvP g s -> enabled g s l = true -> closed s = false -> closed (apply g s l) = true ->
  failed (apply g s l) = true \/ (numPending (apply g s l) <= 0)%Z.
Proof.
  intros g s l HP He Hc H.
  destruct l; unfold enabled in He; cbv beta iota in He; cbn [apply] in *; btrue.
  - destruct (initq s); revert H; pnorm; congruence.
  - right. revert H. pnorm. rewrite Hc. cbn. intros H. apply Z.leb_le in H. lia.
  - right. revert H. sproj. destruct (ex s l); pnorm; rewrite Hc; cbn; intros H; apply Z.leb_le in H; lia.
  - revert H. pnorm. congruence.
  - revert H. destruct (Nat.eqb t l); pnorm; congruence.
  - right. revert H. sproj. destruct (ex s l); pnorm; rewrite Hc; cbn; intros H; apply Z.leb_le in H; lia.
  - left. pnorm. reflexivity.
  - revert H. destruct (cas cas_noneed (ts s t)); pnorm; congruence.
  - right. revert H. pnorm. rewrite Hc. cbn. intros H. apply Z.leb_le in H. lia.
  - dasy s t Ea. dlist todo. revert H.
    destruct (ex s d); [|destruct (pst_eqb (pk s (g_pkg g d)) PParsed)]; pnorm; try congruence. intros _. left. reflexivity.
  - revert H. pnorm. congruence.
  - dasy s t Ea. revert H. destruct (ex s d); pnorm; congruence.
  - dasy s t Ea. dlist todo. revert H. destruct err; pnorm; try congruence. intros _. left. reflexivity.
  - dasy s t Ea. dlist todo. revert H. pnorm. congruence.
  - revert H. pnorm. congruence.
  - revert H. destruct (cas [cas_pending] (ts s t)); pnorm; congruence.
  - right. revert H. pnorm. rewrite Hc. cbn. intros H. apply Z.leb_le in H. lia.
  - revert H. sproj. rewrite Hc. pnorm. congruence.
  - revert H. pnorm. congruence.
  - revert H. pnorm. congruence.
  - revert H. pnorm. congruence.
  - left. pnorm. reflexivity.
  - revert H. pnorm. congruence.
  - right. revert H. pnorm. rewrite Hc. cbn. intros H. apply Z.leb_le in H. lia.
  - revert H. pnorm. congruence.
  - left. pnorm. apply (p_stop_failed g s HP). assumption.
  - left. pnorm. reflexivity.
  - revert H. pnorm. congruence.
Qed.

(* ---- while the channel is open numPending stays positive ---- *)
Lemma np_pos : forall g s l, enabled g s l = true -> closed (apply g s l) = false -> (1 <= numPending s)%Z ->
  (1 <= numPending (apply g s l))%Z.
Proof.
  intros g s l He H Hp.
  assert (TD : forall b z, b || (z <=? 0)%Z = false -> (1 <= z)%Z).
  { intros b z E. apply orb_false_iff in E. destruct E as [_ E]. apply Z.leb_gt in E. lia. }
  destruct l; unfold enabled in He; cbv beta iota in He; cbn [apply] in *; btrue.
  - destruct (initq s); pnorm; lia.
  - revert H. pnorm. intros H. apply TD in H. lia.
  - revert H. sproj. destruct (ex s l); pnorm; intros H; apply TD in H; lia.
  - pnorm. lia.
  - destruct (Nat.eqb t l); pnorm; try destruct (qr_ok _ _); lia.
  - revert H. sproj. destruct (ex s l); pnorm; intros H; apply TD in H; lia.
  - revert H. pnorm. intros H. apply TD in H. lia.
  - destruct (cas cas_noneed (ts s t)); pnorm; lia.
  - revert H. pnorm. intros H. apply TD in H. lia.
  - dasy s t Ea. dlist todo.
    destruct (ex s d); [|destruct (pst_eqb (pk s (g_pkg g d)) PParsed)]; pnorm; try destruct (qr_ok _ _); lia.
  - pnorm. lia.
  - dasy s t Ea. destruct (ex s d); pnorm; try destruct (qr_ok _ _); lia.
  - dasy s t Ea. dlist todo. destruct err; pnorm; lia.
  - dasy s t Ea. dlist todo. pnorm. lia.
  - pnorm. lia.
  - destruct (cas [cas_pending] (ts s t)); pnorm; lia.
  - revert H. pnorm. intros H. apply TD in H. lia.
  - sproj. destruct (closed s); pnorm; lia.
  - pnorm. lia.
  - pnorm. lia.
  - pnorm. lia.
  - pnorm. lia.
  - pnorm. lia.
  - revert H. pnorm. intros H. apply TD in H. lia.
  - pnorm. lia.
  - pnorm. lia.
  - pnorm. lia.
  - pnorm. lia.
Qed.

(* ---- nothing left to count: idle ---- *)
Lemma length0_nil : forall A (l : list A), length l = 0 -> l = [].
Proof. intros A [|x r] H; [reflexivity | discriminate]. Qed.

Lemma count_zero_idle : forall g s, count g s = 0 -> idle g s.
Proof.
  intros g s H. unfold count in H.
  assert (H1 : b2n (negb (initdone s)) = 0) by lia.
  assert (H2 : sumn (g_n g) (fun t => a_cnt (asy s t)) = 0) by lia.
  unfold idle. repeat split; try (apply length0_nil; lia).
  - destruct (initdone s); [reflexivity | cbn in H1; discriminate].
  - intros t Ht. apply (sumn_zero_all _ _ H2 t Ht).
Qed.

(* ---- an idle state stays idle (unless the step records a failure) ---- *)
Lemma idle_step : forall g s l, InvP g s -> idle g s -> enabled g s l = true -> failed (apply g s l) = false -> idle g (apply g s l).
Proof.
  intros g s l HP HI He Hf. pose proof HI as (I0 & I1 & I2 & I3 & I4 & I5 & I6 & I7 & I8 & I9).
  assert (Ha : forall t, lt_n g t = true -> asy s t = ANone \/ asy s t = ADone).
  { intros t Ht. apply Nat.ltb_lt in Ht. specialize (I3 t Ht). destruct (asy s t); cbn in I3; try discriminate; auto. }
  destruct l; unfold enabled in He; cbv beta iota in He; btrue;
    try (match goal with H : mem _ ?l = true, E : ?l = [] |- _ => rewrite E in H; discriminate H end);
    try (match goal with H : lt_n g ?t = true |- _ => destruct (Ha t H) as [E|E]; rewrite E in *; discriminate end).
  - rewrite (p_initdone g s HP I0) in *. discriminate.
  - congruence.
  - (* LMarkSemi *) cbn [apply]. destruct (cas cas_noneed (ts s t)); unfold idle; pnorm; exact HI.
  - (* LSemiDone *) cbn [apply]. unfold idle; pnorm; exact HI.
  - (* LForward *) exact HI.
  - (* LStop *) exact HI.
  - (* LTimerCycleCheck *) revert Hf. cbn [apply]. pnorm. discriminate.
  - (* LExitRun *) exact HI.
Qed.

(* ---- target states only move forward ---- *)
Lemma qrt_ge : forall s d x, (rank (ts s x) <= rank (qrt s d x))%N.
Proof.
  intros. unfold qrt, qr_ok. destruct (N.ltb_spec (rank (ts s d)) 2); cbn [andb]; [|lia].
  destruct (Nat.eqb_spec x d); [subst; cbn; lia | lia].
Qed.

Lemma rank_mono : forall g s l x, (forall t, J s t) -> enabled g s l = true -> (rank (ts s x) <= rank (ts (apply g s l) x))%N.
Proof.
  intros g s l x HJ He. rewrite view_ts.
  destruct l; unfold enabled in He; cbv beta iota in He |- *; btrue; try lia.
  - destruct (ex s l); [apply qrt_ge | lia].
  - destruct (Nat.eqb t l); [apply qrt_ge | lia].
  - destruct (ex s l); [apply qrt_ge | lia].
  - destruct (cas cas_noneed (ts s t)) eqn:C; [|lia]. unfold upd. destruct (Nat.eqb_spec x t); [subst|lia].
    apply cas_forward in C; [lia | cbn; auto].
  - dasy s t Ea. dlist todo. destruct (ex s d); [apply qrt_ge | lia].
  - dasy s t Ea. destruct (ex s d); [apply qrt_ge | lia].
  - dasy s t Ea. dlist todo. destruct (HJ t) as (_ & HB & _).
    assert (Hts : ts s t = Active) by (apply HB; rewrite Ea; reflexivity).
    unfold upd. destruct (Nat.eqb_spec x t); [subst; rewrite Hts; cbn; lia | lia].
  - destruct (cas [cas_pending] (ts s t)) eqn:C; [|lia]. unfold upd. destruct (Nat.eqb_spec x t); [subst|lia].
    apply cas_forward in C; [lia | cbn; auto].
  - unfold upd. destruct (Nat.eqb_spec x t); [subst|lia].
    assert (Hq : 1 <= cnt t (taken s)) by (apply mem_cnt; assumption).
    destruct (HJ t) as (_ & _ & HS). unfold shape, q in HS. destruct (ts s t); cbn in *; dand; try lia; try contradiction.
  - unfold upd. destruct (Nat.eqb_spec x t); [subst|lia].
    assert (Hq : 1 <= cnt t (building s)) by (apply mem_cnt; assumption).
    destruct (HJ t) as (_ & _ & HS). unfold shape, q in HS. destruct (ts s t); cbn in *; dand; try lia; try contradiction.
    unfold built_kind, st_eqb in *. destruct o; cbn in *; try discriminate; lia.
  - unfold upd. destruct (Nat.eqb_spec x t); [subst|lia].
    assert (Hq : 1 <= cnt t (building s)) by (apply mem_cnt; assumption).
    destruct (HJ t) as (_ & _ & HS). unfold shape, q in HS. destruct (ts s t); cbn in *; dand; try lia; try contradiction.
Qed.

(* ---- how a slot gets to AFinishing / ADone ---- *)
Ltac qra_no H := unfold qra in H; match type of H with context [if ?b then _ else _] => destruct b end;
  [destruct H; discriminate | auto].

Lemma fin_slot_new : forall g s l x, (forall t, J s t) -> enabled g s l = true ->
  asy (apply g s l) x = AFinishing \/ asy (apply g s l) x = ADone ->
  (asy s x = AFinishing \/ asy s x = ADone) \/ (3 <= rank (ts (apply g s l) x))%N \/ closed (apply g s l) = true.
Proof.
  intros g s l x HJ He H. rewrite view_asy in H.
  destruct l; unfold enabled in He; cbv beta iota in He, H; btrue; auto.
  - destruct (ex s l); [|auto]. qra_no H.
  - destruct (Nat.eqb t l); [|auto]. qra_no H.
  - destruct (ex s l); [|auto]. qra_no H.
  - (* LAsyncQueueDep *) dasy s t Ea. dlist todo.
    destruct (ex s d) eqn:E1; [|destruct (pst_eqb (pk s (g_pkg g d)) PParsed) eqn:E2];
      unfold upd in H; destruct (Nat.eqb_spec x t) as [->|Hne]; try (destruct H; discriminate); auto.
    + qra_no H.
    + right; right. cbn [apply]. rewrite Ea, E1, E2. reflexivity.
  - dasy s t Ea. dlist todo. unfold upd in H. destruct (Nat.eqb_spec x t); [destruct H; discriminate | auto].
  - dasy s t Ea. destruct (ex s d); unfold upd in H; destruct (Nat.eqb_spec x t); try (destruct H; discriminate); auto.
    qra_no H.
  - dasy s t Ea. dlist todo. destruct err; unfold upd in H; destruct (Nat.eqb_spec x t) as [->|Hne];
      try (destruct H; discriminate); auto.
    right; right. cbn [apply]. rewrite Ea. reflexivity.
  - dasy s t Ea. dlist todo. unfold upd in H. destruct (Nat.eqb_spec x t); [destruct H; discriminate | auto].
  - (* LDepFailed *) unfold upd in H. destruct (Nat.eqb_spec x t) as [->|Hne]; [|auto].
    right; left. rewrite view_ts. cbv beta iota. rewrite upd_same. cbn. lia.
  - (* LActivatePending *) dasy s t Ea. dlist todo. unfold upd in H. destruct (Nat.eqb_spec x t) as [->|Hne]; [|auto].
    right; left. destruct (HJ t) as (_ & HB & _).
    assert (Hts : ts s t = Active) by (apply HB; rewrite Ea; reflexivity).
    rewrite view_ts. cbv beta iota. rewrite Hts. cbn. rewrite upd_same. cbn. lia.
  - (* LAsyncDone *) dasy s t Ea. unfold upd in H. destruct (Nat.eqb_spec x t) as [->|Hne]; [left; left; exact Ea | auto].
Qed.

(* ---- a Pending target's task ---- *)
Lemma pending_step : forall g s l x, (forall t, J s t) -> InvC g s -> enabled g s l = true ->
  ts (apply g s l) x = Pending -> q (apply g s l) x = 1 \/ (closed (apply g s l) = true /\ failed (apply g s l) = true).
Proof.
  intros g s l x HJ HC He H.
  assert (Hold : ts s x = Pending -> q s x = 1 \/ (closed (apply g s l) = true /\ failed (apply g s l) = true)).
  { intros E. destruct (c_pending g s HC x E) as [Q|[C F]];
      [left; exact Q | right; split; [apply closed_mono | apply failed_mono]; assumption]. }
  revert H. rewrite view_ts. unfold q in *. rewrite view_sendq, view_actq, view_taken.
  destruct l; unfold enabled in He; cbv beta iota in He |- *; btrue; try exact Hold.
  - destruct (ex s l); [|exact Hold]. unfold qrt. destruct (qr_ok _ _ && _); [intros E; discriminate E | exact Hold].
  - destruct (Nat.eqb t l); [|exact Hold]. unfold qrt. destruct (qr_ok _ _ && _); [intros E; discriminate E | exact Hold].
  - destruct (ex s l); [|exact Hold]. unfold qrt. destruct (qr_ok _ _ && _); [intros E; discriminate E | exact Hold].
  - destruct (cas cas_noneed (ts s t)) eqn:C; [|exact Hold]. unfold upd. destruct (Nat.eqb x t); [|exact Hold].
    intros E. destruct (ts s t); cbn in C; congruence.
  - dasy s t Ea. dlist todo. match goal with H : _ = Pending |- _ => revert H end. destruct (ex s d); [|exact Hold]. unfold qrt. destruct (qr_ok _ _ && _); [intros E; discriminate E | exact Hold].
  - dasy s t Ea. match goal with H : _ = Pending |- _ => revert H end. destruct (ex s d); [|exact Hold]. unfold qrt. destruct (qr_ok _ _ && _); [intros E; discriminate E | exact Hold].
  - unfold upd, dep_failed_set. destruct (Nat.eqb x t); [intros E; discriminate E | exact Hold].
  - (* LActivatePending *) dasy s t Ea. dlist todo. match goal with H : _ = Pending |- _ => revert H end. destruct (HJ t) as (_ & HB & HS).
    assert (Hts : ts s t = Active) by (apply HB; rewrite Ea; reflexivity).
    assert (C : cas [cas_pending] (ts s t) = Some Pending) by (rewrite Hts; reflexivity). rewrite C. cbn [cnt].
    unfold upd. destruct (Nat.eqb_spec x t) as [->|Hne]; intros E.
    + unfold shape, q in HS. rewrite Hts in HS. left. lia.
    + destruct (Hold E) as [Q|R]; [left; lia | right; exact R].
  - (* LSendTask *) intros E. destruct (Nat.eq_dec x t) as [->|Hne].
    + assert (Hm : mem t (sendq s) = true) by assumption. pose proof (cnt_remove1_same t (sendq s) Hm) as Hr.
      destruct (closed s) eqn:Cl.
      * destruct (failed s) eqn:F.
        -- right. split; [apply closed_mono | apply failed_mono]; assumption.
        -- destruct (c_idle g s HC Cl F) as (_ & _ & _ & _ & I4 & _). rewrite I4 in Hm. discriminate.
      * cbn [cnt]. rewrite Nat.eqb_refl. destruct (Hold E) as [Q|R]; [left; lia | right; exact R].
    + rewrite cnt_remove1_other by exact Hne.
      destruct (closed s); cbn [cnt]; rewrite ?(proj2 (Nat.eqb_neq x t) Hne); apply Hold; exact E.
  - (* LWorkerTake *) intros E. destruct (Nat.eq_dec x t) as [->|Hne].
    + assert (Hm : mem t (actq s) = true) by assumption. pose proof (cnt_remove1_same t (actq s) Hm) as Hr.
      cbn [cnt]. rewrite Nat.eqb_refl. destruct (Hold E) as [Q|R]; [left; lia | right; exact R].
    + rewrite cnt_remove1_other by exact Hne. cbn [cnt]. rewrite (proj2 (Nat.eqb_neq x t) Hne). apply Hold; exact E.
  - (* LBuildStart *) unfold upd, build_start_set. destruct (Nat.eqb_spec x t) as [->|Hne]; [intros E; discriminate E|].
    rewrite cnt_remove1_other by exact Hne. exact Hold.
  - (* LBuildOk *) unfold upd. destruct (Nat.eqb_spec x t) as [->|Hne]; [|exact Hold].
    intros E. subst o. discriminate.
  - (* LBuildFail *) unfold upd, build_fail_set. destruct (Nat.eqb_spec x t) as [->|Hne]; [intros E; discriminate E | exact Hold].
Qed.

Lemma InvC_init : forall g, InvC g (init g).
Proof.
  intros g. split; cbn.
  - intros _. unfold count. cbn. rewrite sumn_const0 by reflexivity. split; [reflexivity | lia].
  - intros t [H|H]; discriminate.
  - intros t H; discriminate.
  - discriminate.
  - discriminate.
Qed.

Theorem InvC_step : forall g s l, wf g -> (forall t, J s t) -> InvP g s -> InvC g s -> enabled g s l = true -> InvC g (apply g s l).
Proof.
  intros g s l Hwf HJ HP HC He. split.
  - (* c_count *) intros Hc'.
    assert (Hc : closed s = false) by (destruct (closed s) eqn:E; [rewrite (closed_mono g s l E) in Hc'; discriminate | reflexivity]).
    destruct (c_count g s HC Hc) as [E1 E2]. pose proof (delta g s l Hwf HJ HP He Hc).
    split; [lia | apply np_pos; assumption].
  - (* c_done *) intros t H. destruct (fin_slot_new g s l t HJ He H) as [H'|[H'|H']]; auto.
    destruct (c_done g s HC t H') as [R|C]; [left; pose proof (rank_mono g s l t HJ He); lia | right; apply closed_mono; exact C].
  - (* c_pending *) intros t H. apply pending_step; assumption.
  - (* c_cyc *) rewrite view_cycreported.
    destruct l; cbv beta iota; try (intros H; apply closed_mono, (c_cyc g s HC); exact H). intros _. reflexivity.
  - (* c_idle *) intros Hc' Hf'.
    assert (Hf : failed s = false) by (destruct (failed s) eqn:E; [rewrite (failed_mono g s l E) in Hf'; discriminate | reflexivity]).
    destruct (closed s) eqn:Hc.
    + apply idle_step; auto. apply (c_idle g s HC); assumption.
    + destruct (closing g s l HP He Hc Hc') as [F|Hn]; [congruence|].
      destruct (c_count g s HC Hc) as [E1 _]. pose proof (delta g s l Hwf HJ HP He Hc).
      apply count_zero_idle. lia.
Qed.

Print Assumptions InvC_step.
