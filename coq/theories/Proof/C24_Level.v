(* C24 - the level-limited report of `plz query changes --level N`.
   changedTargets calls FindRevdeps with hidden = true, so every reverse edge costs exactly one level and the
   FIFO open set of findRevdeps is a genuine breadth-first search.  This file proves it for the model:
     - the queue invariant (depths non-decreasing, at most one apart, every entry carries its true distance);
     - every node is popped with its true BFS distance, pops come in non-decreasing depth order;
     - the result of find_revdeps is EXACTLY the set of labels that have a walk of length 1..N from a start label
       (any length for N = -1, nothing for N < -1);
     - hence the report of changedTargets is exactly  shown /\ (directly changed \/ within N reverse steps). *)
From PlzV Require Import Base.Harness Base.StrFacts Model.C24 Proof.C24.
From Coq Require Import Lia ZifyBool Sorted.

(* ------------------------------------------------------------------------------------------ *)
(* small list facts *)

Lemma SS_const (c : Z) xs : (forall x, In x xs -> x = c) -> StronglySorted Z.le xs.
Proof.
  induction xs as [|x xs IH]; intros H; constructor.
  - apply IH. intros y Hy. apply H. right. exact Hy.
  - apply Forall_forall. intros y Hy. rewrite (H x (or_introl eq_refl)), (H y (or_intror Hy)). lia.
Qed.

Lemma SS_app_const (c : Z) xs ys :
  StronglySorted Z.le xs -> (forall x, In x xs -> (x <= c)%Z) -> (forall y, In y ys -> y = c) ->
  StronglySorted Z.le (xs ++ ys).
Proof.
  intros Hs Hle Hys. induction xs as [|x xs IH]; cbn [app]; [apply (SS_const c); exact Hys|].
  inversion Hs as [|? ? Hs' Hall]; subst. constructor.
  - apply IH; [exact Hs' | intros y Hy; apply Hle; right; exact Hy].
  - apply Forall_forall. intros y Hy. apply in_app_iff in Hy. destruct Hy as [Hy | Hy].
    + rewrite Forall_forall in Hall. apply Hall. exact Hy.
    + rewrite (Hys y Hy). apply Hle. left. reflexivity.
Qed.

Lemma in_map_snd (qq : list (label * Z)) d : In d (map snd qq) <-> exists l, In (l, d) qq.
Proof.
  rewrite in_map_iff. split.
  - intros [[l d'] [Heq Hin]]. cbn [snd] in Heq. subst d'. exists l. exact Hin.
  - intros [l Hin]. exists (l, d). split; [reflexivity | exact Hin].
Qed.

Lemma in_qlabels st x : In x (qlabels st) <-> exists d, In (x, d) (q st).
Proof.
  unfold qlabels. rewrite in_map_iff. split.
  - intros [[l d] [Heq Hin]]. cbn [fst] in Heq. subst l. exists d. exact Hin.
  - intros [d Hin]. exists (x, d). split; [reflexivity | exact Hin].
Qed.

(* ------------------------------------------------------------------------------------------ *)

Section Level.
  Variable g : graph.
  Variable incsub : bool.
  Variable maxd : Z.
  Variable labels : list label.
  Let R := revdeps_of g incsub.

  (* a walk of exactly k recorded reverse edges from a start label *)
  Inductive walk : nat -> label -> Prop :=
  | walk_base l : In l labels -> walk 0 l
  | walk_step k l t : walk k l -> In t (R l) -> walk (S k) t.

  (* `next.depth < r.maxDepth || r.maxDepth == -1` *)
  Definition lim (d : Z) : Prop := (d < maxd)%Z \/ maxd = (-1)%Z.

  Lemma lim_bool d : ((d <? maxd)%Z || (maxd =? -1)%Z) = true <-> lim d.
  Proof. unfold lim. lia. Qed.

  Lemma lim_down d d' : (d' <= d)%Z -> lim d -> lim d'.
  Proof. unfold lim. lia. Qed.

  (* the true BFS distance of l is d *)
  Definition dist_is (l : label) (d : Z) : Prop :=
    (0 <= d)%Z /\ walk (Z.to_nat d) l /\ forall j, walk j l -> (d <= Z.of_nat j)%Z.

  (* all reverse edges of x have been followed *)
  Definition expanded (st : bfs_state) (x : label) : Prop :=
    forall t, In t (R x) -> In t (ret st) /\ In t (done st).

  (* ---- one expansion: the fold over the reverse edges of the popped node ---- *)

  Lemma fold_visit_nolim d0 ts st : ~ lim d0 -> fold_left (visit maxd d0) ts st = st.
  Proof.
    intros Hn. induction ts as [|t ts IH]; cbn [fold_left]; [reflexivity|].
    unfold visit at 2. destruct ((d0 <? maxd)%Z || (maxd =? -1)%Z) eqn:Hb.
    - exfalso. apply Hn, lim_bool, Hb.
    - exact IH.
  Qed.

  Lemma fold_visit_shape d0 ts st :
    exists new, q (fold_left (visit maxd d0) ts st) = q st ++ new
      /\ forall x d, In (x, d) new -> d = (d0 + 1)%Z /\ In x ts /\ ~ In x (done st) /\ lim d0.
  Proof.
    revert st. induction ts as [|t ts IH]; intros st; cbn [fold_left].
    - exists []. split; [symmetry; apply app_nil_r | intros x d []].
    - unfold visit at 2. destruct ((d0 <? maxd)%Z || (maxd =? -1)%Z) eqn:Hb.
      + apply lim_bool in Hb. unfold push. cbn [done q ret]. destruct (mem t (done st)) eqn:Hm.
        * destruct (IH (mkS (q st) (done st) (add t (ret st)))) as [new [Hq Hnew]]. cbn [q done] in Hq, Hnew.
          exists new. split; [exact Hq|]. intros x d Hin. destruct (Hnew x d Hin) as [H1 [H2 [H3 H4]]].
          repeat split; try assumption. right. exact H2.
        * destruct (IH (mkS (q st ++ [(t, (d0 + 1)%Z)]) (t :: done st) (add t (ret st)))) as [new [Hq Hnew]].
          cbn [q done] in Hq, Hnew. exists ((t, (d0 + 1)%Z) :: new). split.
          { rewrite Hq, <- app_assoc. reflexivity. }
          intros x d [Heq | Hin].
          { inversion Heq; subst x d. repeat split; [left; reflexivity | apply mem_false; exact Hm | exact Hb]. }
          destruct (Hnew x d Hin) as [H1 [H2 [H3 H4]]]. repeat split; try assumption; [right; exact H2|].
          intros Hx. apply H3. right. exact Hx.
      + destruct (IH st) as [new [Hq Hnew]]. exists new. split; [exact Hq|].
        intros x d Hin. destruct (Hnew x d Hin) as [H1 [H2 [H3 H4]]]. repeat split; try assumption. right. exact H2.
  Qed.

  Lemma visit_ret d0 st t x : In x (ret (visit maxd d0 st t)) -> In x (ret st) \/ (x = t /\ lim d0).
  Proof.
    unfold visit. destruct ((d0 <? maxd)%Z || (maxd =? -1)%Z) eqn:Hb; [|intros H; left; exact H].
    apply lim_bool in Hb. unfold push. cbn [done q ret].
    destruct (mem t (done st)); cbn [ret]; intros H; apply add_In in H;
      (destruct H as [H | H]; [right; split; [exact H | exact Hb] | left; exact H]).
  Qed.

  Lemma fold_visit_ret d0 ts st x :
    In x (ret (fold_left (visit maxd d0) ts st)) -> In x (ret st) \/ (In x ts /\ lim d0).
  Proof.
    revert st. induction ts as [|t ts IH]; intros st H; cbn [fold_left] in H; [left; exact H|].
    apply IH in H. destruct H as [H | [H1 H2]]; [|right; split; [right; exact H1 | exact H2]].
    apply visit_ret in H. destruct H as [H | [H1 H2]]; [left; exact H|].
    right. split; [left; symmetry; exact H1 | exact H2].
  Qed.

  Lemma fold_visit_covers d0 ts st t :
    lim d0 -> In t ts ->
    In t (ret (fold_left (visit maxd d0) ts st)) /\ In t (done (fold_left (visit maxd d0) ts st)).
  Proof.
    intros Hl. revert st. induction ts as [|u ts IH]; intros st Hin; [destruct Hin|].
    cbn [fold_left]. destruct Hin as [Heq | Hin]; [|apply IH; exact Hin]. subst u.
    destruct (fold_visit_ext maxd d0 ts (visit maxd d0 st t)) as [E1 [E2 _]].
    assert (Hv : In t (ret (visit maxd d0 st t)) /\ In t (done (visit maxd d0 st t))).
    { unfold visit. apply lim_bool in Hl. rewrite Hl. split.
      - apply (push_ext t (d0 + 1)%Z). cbn [ret]. apply add_In. left. reflexivity.
      - apply push_done. }
    split; [apply E2, Hv | apply E1, Hv].
  Qed.

  (* ---- the invariant of the loop of findRevdeps ---- *)

  (* depths non-decreasing along the queue and at most one above the head *)
  Definition sorted_q (qq : list (label * Z)) : Prop :=
    StronglySorted Z.le (map snd qq)
    /\ match qq with
       | [] => True
       | (_, d0) :: rest => forall l d, In (l, d) rest -> (d <= d0 + 1)%Z
       end.

  (* x has left the queue: whenever its distance allows an expansion, it has been expanded *)
  Definition popped (st : bfs_state) (x : label) : Prop :=
    forall j, walk j x -> lim (Z.of_nat j) -> expanded st x.

  Definition Inv (st : bfs_state) : Prop :=
    (forall l, In l labels -> In l (done st))
    /\ (forall l d, In (l, d) (q st) -> dist_is l d /\ In l (done st) /\ (maxd = (-1)%Z \/ (d <= maxd)%Z))
    /\ sorted_q (q st)
    /\ (forall x, In x (done st) -> In x (qlabels st) \/ popped st x)
    /\ (forall t, In t (ret st) ->
          exists k, (1 <= k)%nat /\ (maxd = (-1)%Z \/ (Z.of_nat k <= maxd)%Z) /\ walk k t).

  Lemma sorted_q_head_min l0 d0 rest l d :
    sorted_q ((l0, d0) :: rest) -> In (l, d) ((l0, d0) :: rest) -> (d0 <= d)%Z.
  Proof.
    intros [Hs _] [Heq | Hin]; [inversion Heq; lia|].
    cbn [map snd] in Hs. inversion Hs as [|? ? _ Hall]; subst. rewrite Forall_forall in Hall.
    apply Hall. apply in_map_snd. exists l. exact Hin.
  Qed.

  Lemma sorted_q_intro (lo : Z) qq :
    StronglySorted Z.le (map snd qq) -> (forall l d, In (l, d) qq -> (lo <= d <= lo + 1)%Z) -> sorted_q qq.
  Proof.
    intros Hs Hb. split; [exact Hs|]. destruct qq as [|[l0 d0] rest]; [exact I|].
    intros l d Hin. pose proof (Hb l0 d0 (or_introl eq_refl)). pose proof (Hb l d (or_intror Hin)). lia.
  Qed.

  (* everything closer than the head of the queue has been discovered *)
  Lemma near_done st : Inv st -> forall j y,
    walk j y -> (forall l d rest, q st = (l, d) :: rest -> (Z.of_nat j <= d)%Z) ->
    (maxd = (-1)%Z \/ (Z.of_nat j <= maxd)%Z) -> In y (done st).
  Proof.
    intros [I0 [I1 [I2 [I5 _]]]]. induction j as [|j IH]; intros y Hw Hhead Hmax.
    - inversion Hw; subst. apply I0. assumption.
    - inversion Hw as [|k z t Hwz Hy]; subst.
      assert (Hz : In z (done st)).
      { apply IH; [exact Hwz | | lia]. intros l d rest Hq. specialize (Hhead l d rest Hq). lia. }
      destruct (I5 z Hz) as [Hq | Hp].
      + exfalso. apply in_qlabels in Hq. destruct Hq as [dz Hq].
        destruct (I1 z dz Hq) as [[_ [_ Hmin]] _]. specialize (Hmin j Hwz).
        destruct (q st) as [|[l0 d0] rest] eqn:Hqq; [destruct Hq|].
        specialize (Hhead l0 d0 rest eq_refl). pose proof (sorted_q_head_min l0 d0 rest z dz I2 Hq). lia.
      + apply (Hp j Hwz); [unfold lim; lia | exact Hy].
  Qed.

  Lemma inv_step l0 d0 rest dn rt :
    Inv (mkS ((l0, d0) :: rest) dn rt) -> Inv (fold_left (visit maxd d0) (R l0) (mkS rest dn rt)).
  Proof.
    intros Hinv. pose proof Hinv as [I0 [I1 [I2 [I5 I6]]]]. cbn [q done ret] in I0, I1, I2, I5, I6.
    set (st0 := mkS rest dn rt). set (st' := fold_left (visit maxd d0) (R l0) st0).
    destruct (fold_visit_ext maxd d0 (R l0) st0) as [E1 [E2 [E3 E4]]]. fold st' in E1, E2, E3, E4.
    destruct (fold_visit_shape d0 (R l0) st0) as [new [Hq Hnew]]. fold st' in Hq. cbn [q done st0] in Hq, Hnew.
    destruct (I1 l0 d0 (or_introl eq_refl)) as [[Hd0 [Hw0 Hmin0]] [Hl0 Hb0]].
    assert (Hexp : forall x, expanded st0 x -> expanded st' x).
    { intros x Hx t Ht. destruct (Hx t Ht) as [A B]. split; [apply E2, A | apply E1, B]. }
    assert (Hrest : forall l d, In (l, d) rest -> (d0 <= d <= d0 + 1)%Z).
    { intros l d Hin. split.
      - apply (sorted_q_head_min l0 d0 rest l d I2). right. exact Hin.
      - destruct I2 as [_ I2]. apply (I2 l d Hin). }
    split; [|split; [|split; [|split]]].
    - intros l Hl. apply E1. cbn [done st0]. apply I0, Hl.
    - intros l d Hin. rewrite Hq in Hin. apply in_app_iff in Hin. destruct Hin as [Hin | Hin].
      + destruct (I1 l d (or_intror Hin)) as [A [B C]]. split; [exact A|]. split; [apply E1; exact B | exact C].
      + destruct (Hnew l d Hin) as [Hd [Hl [Hnd Hlim]]]. subst d. split; [|split].
        * split; [lia|]. split.
          { replace (Z.to_nat (d0 + 1)) with (S (Z.to_nat d0)) by lia. apply (walk_step _ l0); assumption. }
          intros j Hwj. destruct (Z_le_gt_dec (d0 + 1) (Z.of_nat j)) as [Hle | Hgt]; [exact Hle|].
          exfalso. apply Hnd. apply (near_done _ Hinv j l Hwj).
          { cbn [q]. intros l1 d1 rest1 Heq. inversion Heq; subst. lia. }
          destruct Hb0 as [Hb0 | Hb0]; [left; exact Hb0 | right; lia].
        * apply (fold_visit_covers d0 (R l0) st0 l Hlim Hl).
        * unfold lim in Hlim. lia.
    - rewrite Hq. apply (sorted_q_intro d0).
      + rewrite map_app. apply (SS_app_const (d0 + 1)%Z).
        * destruct I2 as [I2 _]. cbn [map snd] in I2. inversion I2; assumption.
        * intros x Hx. apply in_map_snd in Hx. destruct Hx as [l Hx]. apply (Hrest l x Hx).
        * intros y Hy. apply in_map_snd in Hy. destruct Hy as [l Hy]. apply (Hnew l y Hy).
      + intros l d Hin. apply in_app_iff in Hin. destruct Hin as [Hin | Hin]; [apply (Hrest l d Hin)|].
        destruct (Hnew l d Hin) as [Hd _]. lia.
    - intros x Hx. destruct (E4 x Hx) as [Hold | Hnewq]; [|left; exact Hnewq].
      cbn [done st0] in Hold. destruct (I5 x Hold) as [Hin | Hp].
      + unfold qlabels in Hin. cbn [q map fst] in Hin. destruct Hin as [Heq | Hin].
        * subst x. right. intros j Hwj Hlj t Ht. apply fold_visit_covers; [|exact Ht].
          apply (lim_down (Z.of_nat j)); [apply Hmin0; exact Hwj | exact Hlj].
        * left. apply E3. exact Hin.
      + right. intros j Hwj Hlj. apply Hexp. apply (Hp j Hwj Hlj).
    - intros t Ht. apply fold_visit_ret in Ht. destruct Ht as [Ht | [Ht Hlim]]; [apply I6; exact Ht|].
      exists (S (Z.to_nat d0)). split; [lia|]. split; [unfold lim in Hlim; lia|].
      apply (walk_step _ l0); assumption.
  Qed.

  (* ---- the initial state ---- *)

  Lemma init_shape ls st :
    exists new, q (fold_left (fun st l => push l 0%Z st) ls st) = q st ++ new
      /\ (forall x d, In (x, d) new -> d = 0%Z /\ In x ls)
      /\ ret (fold_left (fun st l => push l 0%Z st) ls st) = ret st.
  Proof.
    revert st. induction ls as [|l ls IH]; intros st; cbn [fold_left].
    - exists []. split; [symmetry; apply app_nil_r|]. split; [intros x d []|reflexivity].
    - destruct (IH (push l 0%Z st)) as [new [Hq [Hnew Hret]]]. unfold push in Hq, Hret |- *.
      destruct (mem l (done st)).
      + exists new. split; [exact Hq|]. split; [|exact Hret].
        intros x d Hin. destruct (Hnew x d Hin) as [A B]. split; [exact A | right; exact B].
      + cbn [q ret] in Hq, Hret. exists ((l, 0%Z) :: new). split; [rewrite Hq, <- app_assoc; reflexivity|].
        split; [|exact Hret]. intros x d [Heq | Hin].
        * inversion Heq; subst. split; [reflexivity | left; reflexivity].
        * destruct (Hnew x d Hin) as [A B]. split; [exact A | right; exact B].
  Qed.

  Lemma init_inv : (-1 <= maxd)%Z -> Inv (init_state labels).
  Proof.
    intros Hmax. unfold init_state.
    destruct (init_shape labels (mkS [] [] [])) as [new [Hq [Hnew Hret]]]. cbn [q ret app] in Hq, Hret.
    destruct (init_state_inv_gen labels (mkS [] [] [])) as [J1 [J2 _]]; [intros x []|].
    split; [|split; [|split; [|split]]].
    - exact J2.
    - intros l d Hin. rewrite Hq in Hin. destruct (Hnew l d Hin) as [Hd Hl]. subst d. split; [|split].
      + split; [lia|]. split; [apply walk_base; exact Hl | intros j _; lia].
      + apply J2. exact Hl.
      + lia.
    - rewrite Hq. apply (sorted_q_intro 0%Z).
      + apply (SS_const 0%Z). intros x Hx. apply in_map_snd in Hx. destruct Hx as [l Hx]. apply (Hnew l x Hx).
      + intros l d Hin. destruct (Hnew l d Hin) as [Hd _]. lia.
    - intros x Hx. left. apply J1. exact Hx.
    - intros t Ht. rewrite Hret in Ht. destruct Ht.
  Qed.

  (* ---- the loop ---- *)

  Lemma bfs_inv fuel st r :
    Inv st -> bfs fuel g incsub maxd st = Some r -> exists stf, q stf = [] /\ ret stf = r /\ Inv stf.
  Proof.
    revert st. induction fuel as [|k IH]; intros st Hinv Hb; [discriminate|].
    cbn [bfs] in Hb. destruct st as [qq dn rt]. cbn [q done ret] in Hb. destruct qq as [|[l d] rest].
    - inversion Hb; subst r. exists (mkS [] dn rt). split; [reflexivity | split; [reflexivity | exact Hinv]].
    - apply (IH _ (inv_step l d rest dn rt Hinv) Hb).
  Qed.

  (* the trace of the loop: the popped (label, depth) pairs and the states at the loop head *)
  Fixpoint bfs_pops (fuel : nat) (st : bfs_state) : list (label * Z) :=
    match fuel with
    | O => []
    | S k => match q st with
             | [] => []
             | (l, d) :: rest => (l, d) :: bfs_pops k (fold_left (visit maxd d) (R l) (mkS rest (done st) (ret st)))
             end
    end.

  Fixpoint bfs_states (fuel : nat) (st : bfs_state) : list bfs_state :=
    match fuel with
    | O => []
    | S k => st :: match q st with
                   | [] => []
                   | (l, d) :: rest => bfs_states k (fold_left (visit maxd d) (R l) (mkS rest (done st) (ret st)))
                   end
    end.

  Lemma bfs_states_inv fuel st : Inv st -> forall st', In st' (bfs_states fuel st) -> Inv st'.
  Proof.
    revert st. induction fuel as [|k IH]; intros st Hinv st' Hin; [destruct Hin|].
    cbn [bfs_states] in Hin. destruct Hin as [Heq | Hin]; [subst st'; exact Hinv|].
    destruct st as [qq dn rt]. cbn [q done ret] in Hin. destruct qq as [|[l d] rest]; [destruct Hin|].
    apply (IH _ (inv_step l d rest dn rt Hinv) st' Hin).
  Qed.

  Lemma bfs_pops_dist fuel st : Inv st -> forall l d, In (l, d) (bfs_pops fuel st) -> dist_is l d.
  Proof.
    revert st. induction fuel as [|k IH]; intros st Hinv l d Hin; [destruct Hin|].
    cbn [bfs_pops] in Hin. destruct st as [qq dn rt]. cbn [q done ret] in Hin.
    destruct qq as [|[l0 d0] rest]; [destruct Hin|]. destruct Hin as [Heq | Hin].
    - inversion Heq; subst. destruct Hinv as [_ [I1 _]]. apply (I1 l d). left. reflexivity.
    - apply (IH _ (inv_step l0 d0 rest dn rt Hinv) l d Hin).
  Qed.

  Lemma bfs_pops_ge fuel st lo :
    Inv st -> (forall l d, In (l, d) (q st) -> (lo <= d)%Z) ->
    forall l d, In (l, d) (bfs_pops fuel st) -> (lo <= d)%Z.
  Proof.
    revert st lo. induction fuel as [|k IH]; intros st lo Hinv Hlo l d Hin; [destruct Hin|].
    cbn [bfs_pops] in Hin. destruct st as [qq dn rt]. cbn [q done ret] in Hin, Hlo.
    destruct qq as [|[l0 d0] rest]; [destruct Hin|]. destruct Hin as [Heq | Hin].
    - inversion Heq; subst. apply (Hlo l d). left. reflexivity.
    - pose proof (Hlo l0 d0 (or_introl eq_refl)) as H0.
      apply (IH _ lo (inv_step l0 d0 rest dn rt Hinv)) with (l := l); [|exact Hin].
      intros x dx Hx. destruct (fold_visit_shape d0 (R l0) (mkS rest dn rt)) as [new [Hq Hnew]].
      rewrite Hq in Hx. cbn [q] in Hx. apply in_app_iff in Hx. destruct Hx as [Hx | Hx].
      + apply (Hlo x dx). right. exact Hx.
      + destruct (Hnew x dx Hx) as [Hd _]. lia.
  Qed.

  Lemma bfs_pops_sorted fuel st : Inv st -> StronglySorted Z.le (map snd (bfs_pops fuel st)).
  Proof.
    revert st. induction fuel as [|k IH]; intros st Hinv; [constructor|].
    cbn [bfs_pops]. destruct st as [qq dn rt]. cbn [q done ret].
    destruct qq as [|[l0 d0] rest]; [constructor|]. cbn [map snd]. constructor.
    - apply IH. apply (inv_step l0 d0 rest dn rt Hinv).
    - apply Forall_forall. intros d Hd. apply in_map_snd in Hd. destruct Hd as [l Hd].
      apply (bfs_pops_ge k _ d0 (inv_step l0 d0 rest dn rt Hinv)) with (l := l); [|exact Hd].
      intros x dx Hx. destruct (fold_visit_shape d0 (R l0) (mkS rest dn rt)) as [new [Hq Hnew]].
      rewrite Hq in Hx. cbn [q] in Hx. apply in_app_iff in Hx. destruct Hx as [Hx | Hx].
      + destruct Hinv as [_ [_ [I2 _]]]. cbn [q] in I2. apply (sorted_q_head_min l0 d0 rest x dx I2). right. exact Hx.
      + destruct (Hnew x dx Hx) as [Hd' _]. lia.
  Qed.

  (* ---- a level below -1 disables every expansion ---- *)

  Lemma bfs_below fuel st r :
    (maxd < -1)%Z -> (forall l d, In (l, d) (q st) -> d = 0%Z) -> bfs fuel g incsub maxd st = Some r -> r = ret st.
  Proof.
    intros Hm. revert st. induction fuel as [|k IH]; intros st Hq Hb; [discriminate|].
    cbn [bfs] in Hb. destruct st as [qq dn rt]. cbn [q done ret] in *. destruct qq as [|[l d] rest].
    - inversion Hb. reflexivity.
    - rewrite (Hq l d (or_introl eq_refl)) in Hb. rewrite fold_visit_nolim in Hb by (unfold lim; lia).
      apply IH in Hb; [exact Hb|]. cbn [q]. intros x dx Hx. apply (Hq x dx). right. exact Hx.
  Qed.

  (* ---- the result of FindRevdeps(hidden = true), exactly ---- *)

  Theorem find_revdeps_exact r :
    find_revdeps g incsub maxd labels = Some r ->
    forall t, In t r <-> exists k, (1 <= k)%nat /\ (maxd = (-1)%Z \/ (Z.of_nat k <= maxd)%Z) /\ walk k t.
  Proof.
    unfold find_revdeps. intros Hb t. destruct (Z_lt_le_dec maxd (-1)) as [Hlow | Hmax].
    - apply bfs_below in Hb; [|exact Hlow|].
      + unfold init_state in Hb. destruct (init_shape labels (mkS [] [] [])) as [_ [_ [_ Hret]]].
        rewrite Hret in Hb. cbn [ret] in Hb. subst r. split; [intros []|]. intros [k [H1 [H2 _]]]. lia.
      + intros l d Hin. unfold init_state in Hin. destruct (init_shape labels (mkS [] [] [])) as [new [Hq [Hnew _]]].
        rewrite Hq in Hin. cbn [q app] in Hin. apply (Hnew l d Hin).
    - destruct (bfs_inv _ _ _ (init_inv Hmax) Hb) as [stf [Hqf [Hrf Hinv]]]. subst r.
      pose proof Hinv as [_ [_ [_ [I5 I6]]]]. split; [apply I6|].
      intros [k [Hk [Hmaxk Hw]]]. destruct k as [|k]; [lia|]. inversion Hw as [|k' z t' Hwz Ht]; subst.
      assert (Hz : In z (done stf)).
      { apply (near_done stf Hinv k z Hwz); [rewrite Hqf; intros l d rest Heq; discriminate | lia]. }
      destruct (I5 z Hz) as [Hin | Hp].
      + unfold qlabels in Hin. rewrite Hqf in Hin. destruct Hin.
      + apply (Hp k Hwz); [unfold lim; lia | exact Ht].
  Qed.

  (* every node leaves the queue with its true BFS distance; pops come in non-decreasing depth order; the queue
     always holds at most two consecutive depths, in order *)
  Theorem find_revdeps_is_bfs fuel :
    (-1 <= maxd)%Z ->
    (forall l d, In (l, d) (bfs_pops fuel (init_state labels)) -> dist_is l d)
    /\ StronglySorted Z.le (map snd (bfs_pops fuel (init_state labels)))
    /\ (forall st, In st (bfs_states fuel (init_state labels)) ->
          sorted_q (q st) /\ forall l d, In (l, d) (q st) -> dist_is l d).
  Proof.
    intros Hmax. pose proof (init_inv Hmax) as Hinv. split; [|split].
    - apply bfs_pops_dist. exact Hinv.
    - apply bfs_pops_sorted. exact Hinv.
    - intros st Hst. destruct (bfs_states_inv fuel _ Hinv st Hst) as [_ [I1 [I2 _]]].
      split; [exact I2|]. intros l d Hin. apply (I1 l d Hin).
  Qed.
End Level.

(* ------------------------------------------------------------------------------------------ *)
(* changedTargets with a level *)

(* k reverse steps are within the level: 0 always, everything for -1, nothing more for levels below -1 *)
Definition within (level : Z) (k : nat) : Prop := k = 0%nat \/ level = (-1)%Z \/ (Z.of_nat k <= level)%Z.

Theorem changed_targets_exact g files ch0 level incsub :
  exists rep, changed_targets g files ch0 level incsub = Some rep
    /\ forall x, In x rep <->
         shown g incsub x = true
         /\ exists k, within level k /\ walk g incsub (changed_by_files g files ch0) k x.
Proof.
  unfold changed_targets. set (ch := changed_by_files g files ch0).
  destruct (level =? 0)%Z eqn:Hl0.
  - exists (filter (shown g incsub) ch). split; [reflexivity|]. intros x. rewrite filter_In. split.
    + intros [Hin Hs]. split; [exact Hs|]. exists 0%nat. split; [left; reflexivity | apply walk_base; exact Hin].
    + intros [Hs [k [Hk Hw]]]. split; [|exact Hs]. assert (k = 0%nat) by (unfold within in Hk; lia). subst k.
      inversion Hw. assumption.
  - destruct (find_revdeps_total g incsub level ch) as [r Hr]. rewrite Hr.
    pose proof (find_revdeps_exact g incsub level ch r Hr) as Hex.
    exists (filter (shown g incsub) (ch ++ filter (fun l => negb (mem l ch)) r)).
    split; [reflexivity|]. intros x. rewrite filter_In, in_app_iff, filter_In. split.
    + intros [[Hin | [Hin _]] Hs]; (split; [exact Hs|]).
      * exists 0%nat. split; [left; reflexivity | apply walk_base; exact Hin].
      * apply Hex in Hin. destruct Hin as [k [Hk [Hm Hw]]]. exists k. split; [right; exact Hm | exact Hw].
    + intros [Hs [k [Hk Hw]]]. split; [|exact Hs]. destruct k as [|k].
      * left. inversion Hw. assumption.
      * assert (Hr' : In x r).
        { apply Hex. exists (S k). split; [lia|]. split; [unfold within in Hk; lia | exact Hw]. }
        destruct (mem x ch) eqn:Hm; [left; apply mem_In; exact Hm | right; split; [exact Hr' | reflexivity]].
Qed.

(* ---- the same, over dependency edges between targets ---- *)

(* x is reached from a base label by exactly k reverse E-edges *)
Inductive steps (g : graph) (E : target -> label -> Prop) (base : label -> Prop) : nat -> label -> Prop :=
| steps_base l : base l -> steps g E base 0 l
| steps_step k u l : steps g E base k l -> In u (g_targets g) -> E u l -> steps g E base (S k) (t_id u).

Lemma walk_steps g incsub ch k x :
  walk g incsub ch k x <-> steps g (code_dep g incsub) (fun l => In l ch) k x.
Proof.
  split; intros H.
  - induction H as [l Hl | k l t _ IH Ht]; [apply steps_base; exact Hl|].
    apply revdeps_of_In in Ht. destruct Ht as [u [Hu [Heq Hc]]]. subst t. apply (steps_step _ _ _ k u l); assumption.
  - induction H as [l Hl | k u l _ IH Hu He]; [apply walk_base; exact Hl|].
    apply (walk_step g incsub ch k l); [exact IH|]. apply revdeps_of_In. exists u. repeat split; assumption.
Qed.

Lemma steps_mono g (E E' : target -> label -> Prop) (base base' : label -> Prop) k x :
  (forall u l, In u (g_targets g) -> E u l -> E' u l) -> (forall l, base l -> base' l) ->
  steps g E base k x -> steps g E' base' k x.
Proof.
  intros HE Hb H. induction H as [l Hl | k u l _ IH Hu He]; [apply steps_base, Hb, Hl|].
  apply (steps_step _ _ _ k u l); [exact IH | exact Hu | apply HE; assumption].
Qed.

Lemma steps_affected g E base x : affected g E base x <-> exists k, steps g E base k x.
Proof.
  split.
  - intros H. induction H as [l Hl | u l _ [k IH] Hu He]; [exists 0%nat; apply steps_base; exact Hl|].
    exists (S k). apply (steps_step _ _ _ k u l); assumption.
  - intros [k H]. induction H as [l Hl | k u l _ IH Hu He]; [apply aff_base; exact Hl|].
    apply (aff_step g E base u l); assumption.
Qed.

(* the edges the query records are dependency edges, always *)
Lemma code_dep_depends sub g incsub u l : code_dep g incsub u l -> depends sub g u l.
Proof.
  intros [H | [_ [Hs Ht]]]; [left; exact H | right; left; split; assumption].
Qed.

(* rep is exactly: shown, and directly changed or within [level] reverse E-steps of a directly changed label *)
Definition exact_within (g : graph) (incsub : bool) (level : Z) (E : target -> label -> Prop)
           (ch : list label) (rep : list label) : Prop :=
  forall x, In x rep <->
    shown g incsub x = true /\ exists k, within level k /\ steps g E (fun l => In l ch) k x.

(* rep misses nothing within the level: generalises [complete] (level -1: all of [affected]; k = 0: the base) *)
Definition complete_within (g : graph) (incsub : bool) (level : Z) (E : target -> label -> Prop)
           (base : label -> Prop) (rep : list label) : Prop :=
  forall k x, within level k -> steps g E base k x -> shown g incsub x = true -> In x rep.

Lemma complete_within_complete g incsub level E base rep :
  complete_within g incsub level E base rep -> complete g incsub level E base rep.
Proof.
  intros H. split.
  - intros l Hl Hs. apply (H 0%nat l); [left; reflexivity | apply steps_base; exact Hl | exact Hs].
  - intros Hlev x Ha Hs. apply steps_affected in Ha. destruct Ha as [k Hk].
    apply (H k x); [right; left; exact Hlev | exact Hk | exact Hs].
Qed.

Lemma exact_within_equiv g incsub level (E E' : target -> label -> Prop) ch rep :
  (forall u l, In u (g_targets g) -> (E u l <-> E' u l)) ->
  exact_within g incsub level E ch rep -> exact_within g incsub level E' ch rep.
Proof.
  intros HE H x. rewrite (H x). split; intros [Hs [k [Hk Hst]]]; (split; [exact Hs|]); exists k; (split; [exact Hk|]).
  - apply (steps_mono g E E' (fun l => In l ch) (fun l => In l ch) k x); [intros u l Hu; apply HE; exact Hu | intros l Hl; exact Hl | exact Hst].
  - apply (steps_mono g E' E (fun l => In l ch) (fun l => In l ch) k x); [intros u l Hu; apply HE; exact Hu | intros l Hl; exact Hl | exact Hst].
Qed.

Lemma exact_within_complete g incsub level E ch (base : label -> Prop) rep :
  (forall l, base l -> In l ch) -> exact_within g incsub level E ch rep -> complete_within g incsub level E base rep.
Proof.
  intros Hb H k x Hk Hst Hs. apply (H x). split; [exact Hs|]. exists k. split; [exact Hk|].
  apply (steps_mono g E E base (fun l => In l ch) k x); [intros u l _ He; exact He | exact Hb | exact Hst].
Qed.

(* the model's directly changed sets *)
Definition ch_files (g : graph) (files : list str) : list label := changed_by_files g files [].
Definition ch_diff (cfg : bool) (before after : graph) (files : list str) : list label :=
  changed_by_files after files (diff_graphs cfg before after).

Lemma base_files_ch g files l : base_files g files l -> In l (ch_files g files).
Proof. intros [t [Ht Hid]]. subst l. apply direct_changed. exact Ht. Qed.

Lemma base_diff_ch cfg before after files l :
  base_diff cfg before after files l -> In l (ch_diff cfg before after files).
Proof.
  intros [[a [Ha [Hd Hid]]] | [t [Ht Hid]]]; subst l.
  - apply changed_by_files_mono. apply diff_graphs_complete; assumption.
  - apply direct_changed. exact Ht.
Qed.

(* what is in the directly changed sets, and nothing else (no premise on the paths) *)
Lemma ch_files_sound g files l :
  In l (ch_files g files) ->
  exists f p t, In f files /\ owner g f = Some p /\ In t (pkg_targets g p) /\ has_abs_source t f = true /\ t_id t = l.
Proof. intros H. apply changed_by_files_sound in H. destruct H as [[] | H]. exact H. Qed.

Lemma ch_diff_sound cfg before after files l :
  In l (ch_diff cfg before after files) ->
  (exists a, In a (g_targets after) /\ t_id a = l /\ def_changed cfg before a)
  \/ exists f p t, In f files /\ owner after f = Some p /\ In t (pkg_targets after p) /\
                   has_abs_source t f = true /\ t_id t = l.
Proof.
  intros H. apply changed_by_files_sound in H. destruct H as [H | H]; [left; apply diff_graphs_sound; exact H | right; exact H].
Qed.

(* ---- both forms of the query, every level, every graph: exactness over the recorded edges ---- *)

Theorem changes_exact g files level incsub :
  exists rep, changes g files level incsub = Some rep
    /\ exact_within g incsub level (code_dep g incsub) (ch_files g files) rep.
Proof.
  unfold changes. destruct (changed_targets_exact g files [] level incsub) as [rep [Hrep Hex]].
  exists rep. split; [exact Hrep|]. intros x. rewrite (Hex x). unfold ch_files.
  split; intros [Hs [k [Hk Hw]]]; (split; [exact Hs|]); exists k; (split; [exact Hk|]); apply walk_steps; exact Hw.
Qed.

Theorem diff_exact cfg before after files level incsub :
  exists rep, diff_changes cfg before after files level incsub = Some rep
    /\ exact_within after incsub level (code_dep after incsub) (ch_diff cfg before after files) rep.
Proof.
  unfold diff_changes. destruct (changed_targets_exact after files (diff_graphs cfg before after) level incsub) as [rep [Hrep Hex]].
  exists rep. split; [exact Hrep|]. intros x. rewrite (Hex x). unfold ch_diff.
  split; intros [Hs [k [Hk Hw]]]; (split; [exact Hs|]); exists k; (split; [exact Hk|]); apply walk_steps; exact Hw.
Qed.

(* ---- outside the two defect classes: exactness and completeness over the dependency relation ---- *)

Lemma code_dep_iff_depends sub g incsub :
  defect_class sub g incsub = None ->
  forall u l, In u (g_targets g) -> (code_dep g incsub u l <-> depends sub g u l).
Proof.
  intros Hc u l Hu. split; [apply code_dep_depends | apply (depends_code_dep sub g incsub u l Hc Hu)].
Qed.

Theorem changes_level_class g files level incsub :
  defect_class true g incsub = None ->
  exists rep, changes g files level incsub = Some rep
    /\ exact_within g incsub level (depends true g) (ch_files g files) rep
    /\ complete_within g incsub level (depends true g) (base_files g files) rep.
Proof.
  intros Hc. destruct (changes_exact g files level incsub) as [rep [Hrep Hex]]. exists rep. split; [exact Hrep|].
  assert (Hex' : exact_within g incsub level (depends true g) (ch_files g files) rep).
  { apply (exact_within_equiv g incsub level (code_dep g incsub)); [apply code_dep_iff_depends; exact Hc | exact Hex]. }
  split; [exact Hex'|]. apply (exact_within_complete g incsub level _ (ch_files g files)); [apply base_files_ch | exact Hex'].
Qed.

Theorem diff_level_class cfg before after files level incsub :
  defect_class false after incsub = None ->
  exists rep, diff_changes cfg before after files level incsub = Some rep
    /\ exact_within after incsub level (depends false after) (ch_diff cfg before after files) rep
    /\ complete_within after incsub level (depends false after) (base_diff cfg before after files) rep.
Proof.
  intros Hc. destruct (diff_exact cfg before after files level incsub) as [rep [Hrep Hex]]. exists rep. split; [exact Hrep|].
  assert (Hex' : exact_within after incsub level (depends false after) (ch_diff cfg before after files) rep).
  { apply (exact_within_equiv after incsub level (code_dep after incsub)); [apply code_dep_iff_depends; exact Hc | exact Hex]. }
  split; [exact Hex'|].
  apply (exact_within_complete after incsub level _ (ch_diff cfg before after files)); [apply base_diff_ch | exact Hex'].
Qed.

(* ------------------------------------------------------------------------------------------ *)
(* the level-limited claim at full strength (every dependency edge), and its refutation *)

Definition level_files_claim : Prop :=
  forall g files level incsub,
    exists rep, changes g files level incsub = Some rep
                /\ complete_within g incsub level (depends true g) (base_files g files) rep.

Definition level_diff_claim : Prop :=
  forall cfg before after files level incsub,
    exists rep, diff_changes cfg before after files level incsub = Some rep
                /\ complete_within after incsub level (depends false after) (base_diff cfg before after files) rep.

(* level 1: the targets of a package that subincludes a changed target are one step away and not reported *)
Lemma level_files_claim_refuted : ~ level_files_claim.
Proof.
  intros H. destruct (H w_incl [s "defs/rules.build_defs"] 1%Z false) as [rep [Hrep Hcl]].
  vm_compute in Hrep. inversion Hrep; subst rep.
  assert (Hin : In 1%N [0%N]).
  { apply (Hcl 1%nat); [right; right; reflexivity | | reflexivity].
    change 1%N with (t_id w_lib). apply (steps_step _ _ _ 0 w_lib 0%N).
    - apply steps_base. exists w_defs. split; [exact w_incl_direct | reflexivity].
    - right. left. reflexivity.
    - right. right. split; [reflexivity|]. split; [reflexivity | left; reflexivity]. }
  destruct Hin as [Hin | []]. discriminate.
Qed.

(* level 2, before/after form: //a:app is two steps from the target that defines the subrepo *)
Lemma level_diff_claim_refuted : ~ level_diff_claim.
Proof.
  intros H. destruct (H false w_subrepo w_subrepo [s "third_party/sr.patch"] 2%Z false) as [rep [Hrep Hcl]].
  vm_compute in Hrep. inversion Hrep; subst rep.
  assert (Hin : In 1%N [2%N]).
  { apply (Hcl 2%nat); [right; right; reflexivity | | reflexivity].
    change 1%N with (t_id w_app). apply (steps_step _ _ _ 1 w_app 0%N).
    - change 0%N with (t_id w_srlib). apply (steps_step _ _ _ 0 w_srlib 2%N).
      + apply steps_base. right. exists w_sr. split; [exact w_subrepo_direct | reflexivity].
      + left. reflexivity.
      + right. left. split; reflexivity.
    - right. left. reflexivity.
    - left. exists 0%N, w_srlib. split; [left; reflexivity|]. split; [reflexivity | left; reflexivity]. }
  destruct Hin as [Hin | []]. discriminate.
Qed.

(* ---- a diamond for the non-vacuity examples: //p:x (x.c) <- //p:m <- //p:a <- //p:root and
        //p:x <- //p:b <- //p:root: root is 2 steps from x over b and 3 steps over a and m ---- *)
Definition d_x : target := mkT 0%N (s "p") false None [s "x.c"] [] [] [] [] [] true 1%N 1%N.
Definition d_m : target := mkT 1%N (s "p") false None [] [0%N] [] [] [] [] true 2%N 1%N.
Definition d_a : target := mkT 2%N (s "p") false None [] [1%N] [] [] [] [] true 3%N 1%N.
Definition d_b : target := mkT 3%N (s "p") false None [] [0%N] [] [] [] [] true 4%N 1%N.
Definition d_root : target := mkT 4%N (s "p") false None [] [2%N; 3%N] [] [] [] [] true 5%N 1%N.
Definition d_g : graph := mkG [d_root; d_a; d_m; d_b; d_x] [s "p"] [].

Lemma d_direct : direct d_g [s "p/x.c"] d_x.
Proof.
  split; [right; right; right; right; left; reflexivity|]. exists (s "p/x.c"). split; [left; reflexivity|]. split.
  - exists (s "x.c"). split; [left; reflexivity | left; reflexivity].
  - split; [reflexivity|]. exists [s "p"; s "x.c"].
    split; [discriminate|]. split; [apply Forall_wf_segb; reflexivity|]. split; reflexivity.
Qed.

Lemma d_steps_root : steps d_g (depends true d_g) (base_files d_g [s "p/x.c"]) 2 4%N.
Proof.
  change 4%N with (t_id d_root). apply (steps_step _ _ _ 1 d_root 3%N).
  - change 3%N with (t_id d_b). apply (steps_step _ _ _ 0 d_b 0%N).
    + apply steps_base. exists d_x. split; [exact d_direct | reflexivity].
    + right. right. right. left. reflexivity.
    + left. exists 0%N, d_x. split; [left; reflexivity|]. split; [reflexivity | left; reflexivity].
  - left. reflexivity.
  - left. exists 3%N, d_b. split; [right; left; reflexivity|]. split; [reflexivity | left; reflexivity].
Qed.
