(* C05 - bundle R (queueTargetAsync's phases, C05_Defs.InvR) is inductive.
   Stability lemmas first (they are reused): X is stable (X_stable), a used asy slot stays used (asy_some_stable), a
   target at or above Active stays there (rank2_stable).  Then InvR slot by slot (Ra) and the step theorem. *)
From PlzV Require Import Base.Harness Model.Sched Proof.Sched_Base Proof.Sched_Inv Proof.Sched_Deps Proof.C04 Proof.Sched_Measure Proof.C05 Proof.C05_Defs.
From Coq Require Import Lia Arith.

(* field projections through the setters, without unfolding anything else *)
Ltac sproj := rewrite ?sbf_if; cbn [ts fin ex pk asy initq ptasks parsers semi sendq actq taken building finishing completing numPending
  numActive initdone closed exited failed stopreq cycreported trace nfwd
  set_ts set_fin set_ex set_pk set_asy set_initq set_ptasks set_parsers set_semi set_sendq set_actq set_taken set_building
  set_finishing set_completing set_numPending set_numActive set_initdone set_closed set_exited set_failed set_stopreq
  set_cycreported set_trace set_nfwd add_pending_parse].

Ltac grind_with rw :=
  repeat (first [ progress rw | progress sproj
                | match goal with |- context [match ?x with _ => _ end] => destruct x eqn:? end
                | match goal with |- context [if ?x then _ else _] => destruct x eqn:? end ]).

(* ---- (S1) X is stable ---- *)
Lemma ex_mono : forall g s l d, ex s d = true -> ex (apply g s l) d = true.
Proof.
  intros g s l d H. destruct l; cbn [apply];
    grind_with ltac:(rewrite ?ex_task_done, ?ex_log_fail, ?ex_async_error, ?ex_qr); auto;
    unfold upd; destruct (Nat.eqb d t); auto.
Qed.

Lemma pk_mono : forall g s l p, pk s p <> PNone -> pk (apply g s l) p <> PNone.
Proof.
  intros g s l p H. destruct l; cbn [apply];
    grind_with ltac:(rewrite ?pk_task_done, ?pk_log_fail, ?pk_async_error, ?pk_qr); auto;
    unfold upd; destruct (Nat.eqb _ _); try discriminate; auto.
Qed.

(* a queued parse task stays queued until it activates its target or claims its package *)
Lemma ptasks_step : forall g s l d, In d (ptasks s) -> enabled g s l = true ->
  In d (ptasks (apply g s l)) \/ ex (apply g s l) d = true \/ pk (apply g s l) (g_pkg g d) <> PNone.
Proof.
  intros g s l d Hin He.
  pose proof (ex_mono g s l d) as Hex. pose proof (pk_mono g s l (g_pkg g d)) as Hpk.
  destruct l; unfold enabled in He; cbv beta iota in He; btrue;
    try (left; cbn [apply];
         grind_with ltac:(rewrite ?ptasks_task_done, ?ptasks_log_fail, ?ptasks_async_error, ?ptasks_qr);
         auto; right; assumption).
  - (* LParseActivate *)
    destruct (Nat.eq_dec d l) as [->|Hne].
    + right. match goal with H : (_ || _) = true |- _ => apply orb_prop in H; destruct H as [H|H] end; btrue.
      * left. apply Hex. assumption.
      * right. apply Hpk. destruct (pk s (g_pkg g l)); cbn in *; discriminate.
    + left. cbn [apply]. rewrite ptasks_task_done. sproj. destruct (ex s l); rewrite ?ptasks_qr, ?ptasks_log_fail; sproj;
        apply In_remove1_other; assumption.
  - (* LParseClaim *)
    destruct (Nat.eq_dec d l) as [->|Hne].
    + right. right. cbn [apply]. sproj. rewrite upd_same. discriminate.
    + left. cbn [apply]. sproj. apply In_remove1_other; assumption.
Qed.

Theorem X_stable : forall g s l d, X g s d -> enabled g s l = true -> X g (apply g s l) d.
Proof.
  intros g s l d [H|[H|H]] He.
  - left. apply ex_mono. exact H.
  - right. left. apply pk_mono. exact H.
  - unfold X. destruct (ptasks_step g s l d H He) as [H'|[H'|H']]; auto.
Qed.

(* ---- (S2) a slot is only ever set to a value other than ANone ---- *)
Lemma asy_qr_some : forall g s x d, asy s d <> ANone -> asy (queue_resolved g s x) d <> ANone.
Proof. intros g s x d H. rewrite asy_qr. destruct (_ && _); [discriminate | exact H]. Qed.

Lemma asy_some_mono : forall g s l d, asy s d <> ANone -> asy (apply g s l) d <> ANone.
Proof.
  intros g s l d H. destruct l; cbn [apply];
    repeat (first [ progress rewrite ?asy_task_done, ?asy_log_fail, ?asy_async_error | apply asy_qr_some | progress sproj
                  | match goal with |- context [match ?x with _ => _ end] => destruct x eqn:? end
                  | match goal with |- context [if ?x then _ else _] => destruct x eqn:? end ]);
    try (unfold upd; match goal with |- context [if ?x then _ else _] => destruct x end); try discriminate; try apply asy_qr_some; auto.
Qed.

Theorem asy_some_stable : forall g s l d, asy s d <> ANone -> enabled g s l = true -> asy (apply g s l) d <> ANone.
Proof. intros g s l d H _. apply asy_some_mono. exact H. Qed.

(* ---- (S3) a target that reached Active never goes back below it ---- *)
Theorem rank2_stable : forall g s l d, (forall t, J s t) -> (2 <= rank (ts s d))%N -> enabled g s l = true ->
  (2 <= rank (ts (apply g s l) d))%N.
Proof.
  intros g s l d HJ Hr He.
  destruct (HJ d) as (HA & _). destruct (J_step g s l HJ He d) as (HA' & _).
  assert (Hs : asy s d <> ANone) by (intros E; apply HA in E; lia).
  apply (asy_some_stable g s l d) in Hs; [|exact He].
  destruct (N.lt_ge_cases (rank (ts (apply g s l) d)) 2) as [Hlt|Hge]; [|exact Hge].
  apply HA' in Hlt. contradiction.
Qed.

(* ---- InvR, slot by slot ---- *)
Definition Ra (g : graph) (s : state) (t : nat) (a : astate) : Prop :=
  match a with
  | AQueue todo => forall d, In d (g_deps g t) -> In d todo \/ X g s d
  | AResolve todo err =>
      (forall d, In d (g_deps g t) -> X g s d) /\
      (err = true \/ forall d, In d (g_deps g t) -> In d todo \/ (2 <= rank (ts s d))%N) /\
      (err = true -> exists d, In d (g_deps g t) /\ g_decl g d = false)
  | AWait _ => forall d, In d (g_deps g t) -> (2 <= rank (ts s d))%N
  | _ => True
  end.

Lemma InvR_Ra : forall g s, InvR g s <-> forall t, Ra g s t (asy s t).
Proof.
  intros g s. split.
  - intros [H1 H2 H3] t. destruct (asy s t) eqn:E; cbn; eauto.
  - intros H. split; intros t; intros; specialize (H t);
      match goal with E : asy s t = _ |- _ => rewrite E in H end; cbn in H; auto.
Qed.

Lemma InvR_init : forall g, InvR g (init g).
Proof. intros g. apply InvR_Ra. intros t. exact I. Qed.

Lemma Ra_weak : forall g s s' t a,
  (forall d, X g s d -> X g s' d) -> (forall d, (2 <= rank (ts s d))%N -> (2 <= rank (ts s' d))%N) ->
  Ra g s t a -> Ra g s' t a.
Proof.
  intros g s s' t a HX Hrk. destruct a; cbn; auto.
  - intros H d Hd. destruct (H d Hd); auto.
  - intros (H1 & H2 & H3). split; [auto | split; [|exact H3]].
    destruct H2 as [H2|H2]; [left; exact H2 | right]. intros d Hd. destruct (H2 d Hd); auto.
Qed.

(* a slot the step leaves alone, or one that queue_resolved has just started *)
Lemma Ra_frame : forall g s s' x,
  (forall d, X g s d -> X g s' d) -> (forall d, (2 <= rank (ts s d))%N -> (2 <= rank (ts s' d))%N) ->
  Ra g s x (asy s x) ->
  asy s' x = asy s x \/ asy s' x = AQueue (g_deps g x) ->
  Ra g s' x (asy s' x).
Proof.
  intros g s s' x HX Hrk HR [E|E]; rewrite E.
  - apply (Ra_weak g s); assumption.
  - cbn. auto.
Qed.

(* asy of the successor at a slot the label does not own *)
Ltac asyfr :=
  rewrite ?asy_task_done, ?asy_log_fail, ?asy_async_error; sproj;
  rewrite ?upd_other by assumption;
  rewrite ?asy_task_done, ?asy_log_fail, ?asy_async_error, ?asy_qr;
  try match goal with |- context [if ?b then _ else _] =>
        let E := fresh "E" in destruct b eqn:E;
        [apply andb_prop in E; destruct E as [_ E]; apply Nat.eqb_eq in E; subst; right; reflexivity|] end;
  try (left; reflexivity).

Theorem InvR_step : forall g s l, wf g -> (forall t, J s t) -> InvP g s -> InvR g s -> enabled g s l = true -> InvR g (apply g s l).
Proof.
  intros g s l Hwf HJ HP HR He.
  assert (HX : forall d, X g s d -> X g (apply g s l) d) by (intros; apply X_stable; assumption).
  assert (Hrk : forall d, (2 <= rank (ts s d))%N -> (2 <= rank (ts (apply g s l) d))%N) by (intros; apply rank2_stable; assumption).
  apply InvR_Ra. intros x. pose proof (proj1 (InvR_Ra g s) HR) as HRa. pose proof (HRa x) as HRx.
  revert HX Hrk.
  destruct l; unfold enabled in He; cbv beta iota in He; cbn [apply]; btrue.
  - intros HX Hrk. apply (Ra_frame g s); auto; destruct (initq s); asyfr.
  - intros HX Hrk. apply (Ra_frame g s); auto; asyfr.
  - intros HX Hrk. apply (Ra_frame g s); auto; asyfr; destruct (ex s l); asyfr.
  - intros HX Hrk. apply (Ra_frame g s); auto; asyfr.
  - intros HX Hrk. apply (Ra_frame g s); auto; destruct (Nat.eqb t l); asyfr.
  - intros HX Hrk. apply (Ra_frame g s); auto; asyfr; destruct (ex s l); asyfr.
  - intros HX Hrk. apply (Ra_frame g s); auto; asyfr.
  - intros HX Hrk. apply (Ra_frame g s); auto; destruct (cas cas_noneed (ts s t)); asyfr.
  - intros HX Hrk. apply (Ra_frame g s); auto; asyfr.
  - (* LAsyncQueueDep *)
    pose proof (HRa t) as HRt. dasy s t Ea. dlist todo. cbn [Ra] in HRt. revert HX Hrk.
    destruct (ex s d) eqn:Eex; [|destruct (pst_eqb (pk s (g_pkg g d)) PParsed) eqn:Epk]; intros HX Hrk;
      (destruct (Nat.eq_dec x t) as [->|Hne]; [sproj; rewrite upd_same; cbn [Ra]; sproj | apply (Ra_frame g s); auto; asyfr]).
    + intros d' Hd'. destruct (HRt d' Hd') as [[<-|Hin]|HXd];
        [right; apply HX; left; exact Eex | left; exact Hin | right; apply HX; exact HXd].
    + exact I.
    + intros d' Hd'. destruct (HRt d' Hd') as [[<-|Hin]|HXd];
        [right; unfold X; right; right; sproj; left; reflexivity | left; exact Hin | right; apply HX; exact HXd].
  - (* LAsyncBeginResolve *)
    pose proof (HRa t) as HRt. dasy s t Ea. dlist todo. cbn [Ra] in HRt.
    destruct (Nat.eq_dec x t) as [->|Hne]; [sproj; rewrite upd_same; cbn [Ra]; sproj | apply (Ra_frame g s); auto; asyfr].
    split; [|split; [right; intros; left; assumption | discriminate]].
    intros d' Hd'. destruct (HRt d' Hd') as [[]|HXd]. apply HX. exact HXd.
  - (* LAsyncResolveDep *)
    pose proof (HRa t) as HRt. dasy s t Ea. btrue. cbn [Ra] in HRt. destruct HRt as (R1 & R2 & R3). revert HX Hrk.
    destruct (ex s d) eqn:Eex; intros HX Hrk;
      (destruct (Nat.eq_dec x t) as [->|Hne]; [sproj; rewrite upd_same; cbn [Ra]; sproj | apply (Ra_frame g s); auto; asyfr]).
    + split; [intros d' Hd'; apply HX, R1, Hd' | split; [|exact R3]].
      destruct R2 as [R2|R2]; [left; exact R2 | right]. intros d' Hd'. destruct (Nat.eq_dec d' d) as [->|Hned].
      * right. rewrite ts_qr, Nat.eqb_refl, andb_true_r. unfold qr_ok. destruct (N.ltb_spec (rank (ts s d)) 2); cbn; lia.
      * destruct (R2 d' Hd') as [Hin|Hr]; [left; apply In_remove1_other; assumption | right; apply Hrk; exact Hr].
    + split; [intros d' Hd'; apply HX, R1, Hd' | split; [left; reflexivity | intros _]].
      assert (Hd : In d (g_deps g t)) by (apply (p_todor g s HP t todo err Ea), mem_In; assumption).
      exists d. split; [exact Hd|]. destruct (g_decl g d) eqn:Edecl; [exfalso | reflexivity].
      assert (Hpk : pk s (g_pkg g d) = PParsed).
      { match goal with H : (_ || _) = true |- _ => cbn in H; destruct (pk s (g_pkg g d)); cbn in H; try discriminate H; reflexivity end. }
      destruct (p_parsed g s HP _ Hpk) as [_ Hall]. destruct Hwf as (Hw & _).
      rewrite (Hall d (Hw t d Hd) Edecl eq_refl) in Eex. discriminate.
  - (* LAsyncBeginWait *)
    pose proof (HRa t) as HRt. dasy s t Ea. dlist todo. cbn [Ra] in HRt. destruct HRt as (R1 & R2 & R3). revert HX Hrk.
    destruct err; intros HX Hrk;
      (destruct (Nat.eq_dec x t) as [->|Hne]; [sproj; rewrite upd_same; cbn [Ra]; sproj | apply (Ra_frame g s); auto; asyfr]).
    + exact I.
    + destruct R2 as [R2|R2]; [discriminate|]. intros d' Hd'. destruct (R2 d' Hd') as [[]|Hr]. apply Hrk, Hr.
  - (* LWaitDep *)
    pose proof (HRa t) as HRt. dasy s t Ea. dlist todo. cbn [Ra] in HRt.
    destruct (Nat.eq_dec x t) as [->|Hne]; [sproj; rewrite upd_same; cbn [Ra]; sproj | apply (Ra_frame g s); auto; asyfr].
    intros d' Hd'. apply Hrk, HRt, Hd'.
  - (* LDepFailed *)
    intros HX Hrk. destruct (Nat.eq_dec x t) as [->|Hne]; [sproj; rewrite upd_same; exact I | apply (Ra_frame g s); auto; asyfr].
  - (* LActivatePending *)
    intros HX Hrk. destruct (Nat.eq_dec x t) as [->|Hne];
      [sproj; rewrite upd_same; exact I | apply (Ra_frame g s); auto; destruct (cas [cas_pending] (ts s t)); asyfr].
  - (* LAsyncDone *)
    intros HX Hrk. destruct (Nat.eq_dec x t) as [->|Hne];
      [rewrite asy_task_done; sproj; rewrite upd_same; exact I | apply (Ra_frame g s); auto; asyfr].
  - intros HX Hrk. apply (Ra_frame g s); auto; sproj; destruct (closed s); asyfr.
  - intros HX Hrk. apply (Ra_frame g s); auto; asyfr.
  - intros HX Hrk. apply (Ra_frame g s); auto; asyfr.
  - intros HX Hrk. apply (Ra_frame g s); auto; asyfr.
  - intros HX Hrk. apply (Ra_frame g s); auto; asyfr.
  - intros HX Hrk. apply (Ra_frame g s); auto; asyfr.
  - intros HX Hrk. apply (Ra_frame g s); auto; asyfr.
  - intros HX Hrk. apply (Ra_frame g s); auto; asyfr.
  - intros HX Hrk. apply (Ra_frame g s); auto; asyfr.
  - intros HX Hrk. apply (Ra_frame g s); auto; asyfr.
  - intros HX Hrk. apply (Ra_frame g s); auto; asyfr.
Qed.

Print Assumptions InvR_step.
