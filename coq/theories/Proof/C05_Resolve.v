(* C05 - bundle R (queueTargetAsync's phases, C05_Defs.InvR) is inductive.
   Stability lemmas first (they are reused): X is stable, a used asy slot stays used, a target at or above Active
   stays there.  Then the step theorem, slot by slot. *)
From PlzV Require Import Base.Harness Model.Sched Proof.Sched_Base Proof.Sched_Inv Proof.Sched_Deps Proof.C04 Proof.Sched_Measure Proof.C05 Proof.C05_Defs.
From Coq Require Import Lia Arith.

(* ---- (S1) X is stable ---- *)
Lemma ex_mono : forall g s l d, ex s d = true -> ex (apply g s l) d = true.
Proof.
  intros g s l d H. destruct l; cbn [apply]; grind_apply; auto.
Show.
Qed.

Lemma pk_mono : forall g s l p, pk s p <> PNone -> pk (apply g s l) p <> PNone.
Proof.
  intros g s l p H. destruct l; cbn [apply]; grind_apply; try discriminate; auto.
Qed.

(* a queued parse task stays queued until it activates its target or claims its package *)
Lemma ptasks_step : forall g s l d, In d (ptasks s) -> enabled g s l = true ->
  In d (ptasks (apply g s l)) \/ ex (apply g s l) d = true \/ pk (apply g s l) (g_pkg g d) <> PNone.
Proof.
  intros g s l d Hin He.
  pose proof (ex_mono g s l d) as Hex. pose proof (pk_mono g s l (g_pkg g d)) as Hpk.
  destruct l; unfold enabled in He; cbv beta iota in He; btrue;
    try (left; cbn [apply]; grind_apply; auto; fail).
  - (* LParseActivate *)
    destruct (Nat.eq_dec d l) as [->|Hne].
    + right. match goal with H : (_ || _) = true |- _ => apply orb_prop in H; destruct H as [H|H] end; btrue.
      * left. apply Hex. assumption.
      * right. apply Hpk. destruct (pk s (g_pkg g l)); cbn in *; discriminate.
    + left. cbn [apply]. autorewrite with proj. cbn. destruct (ex s l); autorewrite with proj; cbn;
        apply In_remove1_other; assumption.
  - (* LParseClaim *)
    destruct (Nat.eq_dec d l) as [->|Hne].
    + right. right. cbn. rewrite upd_same. discriminate.
    + left. cbn. apply In_remove1_other; assumption.
Qed.

Theorem X_stable : forall g s l d, X g s d -> enabled g s l = true -> X g (apply g s l) d.
Proof.
  intros g s l d [H|[H|H]] He.
  - left. apply ex_mono. exact H.
  - right. left. apply pk_mono. exact H.
  - unfold X. destruct (ptasks_step g s l d H He) as [H'|[H'|H']]; auto.
Qed.

(* ---- (S2) a slot is only ever set to a value other than ANone ---- *)
Lemma asy_qr_some : forall g s x d, asy s d <> ANone -> asy (queue_resolved g s x) d <> ANone.
Proof. intros g s x d H. rewrite asy_qr. destruct (_ && _); [discriminate | exact H]. Qed.

Lemma asy_some_mono : forall g s l d, asy s d <> ANone -> asy (apply g s l) d <> ANone.
Proof.
  intros g s l d H. destruct l; cbn [apply];
    repeat (first [ progress autorewrite with proj | apply asy_qr_some | progress cbn [asy set_asy]
                  | match goal with |- context [match ?x with _ => _ end] => destruct x eqn:? end
                  | match goal with |- context [if ?x then _ else _] => destruct x eqn:? end ]);
    try (unfold upd; match goal with |- context [if ?x then _ else _] => destruct x end); try discriminate; auto.
Qed.

Theorem asy_some_stable : forall g s l d, asy s d <> ANone -> enabled g s l = true -> asy (apply g s l) d <> ANone.
Proof. intros g s l d H _. apply asy_some_mono. exact H. Qed.

(* ---- (S3) a target that reached Active never goes back below it ---- *)
Theorem rank2_stable : forall g s l d, (forall t, J s t) -> (2 <= rank (ts s d))%N -> enabled g s l = true ->
  (2 <= rank (ts (apply g s l) d))%N.
Proof.
  intros g s l d HJ Hr He.
  destruct (HJ d) as ((_ & HA) & _). destruct (J_step g s l HJ He d) as ((HA' & _) & _).
  assert (Hs : asy s d <> ANone) by (intros E; apply HA in E; lia).
  apply (asy_some_stable g s l d) in Hs; [|exact He].
  destruct (N.lt_ge_cases (rank (ts (apply g s l) d)) 2) as [Hlt|Hge]; [|exact Hge].
  apply HA' in Hlt. contradiction.
Qed.
