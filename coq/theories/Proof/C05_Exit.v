(* C05 - the exit status, both directions, for every run of the scheduler LTS:
   exit status zero (progress.failed never set) when the invocation has ended  ->  every needed label is declared in a
   package that parsed, exists and is built;   every needed label ... built  ->  exit status zero. *)
From PlzV Require Import Base.Harness Model.Sched Proof.Sched_Base Proof.Sched_Inv Proof.Sched_Deps Proof.C04 Proof.Sched_Measure Proof.C05 Proof.C05_Defs Proof.C05_Pkg Proof.C05_Resolve Proof.C05_Needed Proof.C05_InvP Proof.C05_Count Proof.C05_Live.
From Coq Require Import Lia Arith.

(* a queueTargetAsync that has returned (or is returning) handed out the build task or reported "dependency failed",
   unless a failure was logged *)
Definition D2 (s : state) : Prop :=
  forall t, asy s t = AFinishing \/ asy s t = ADone -> (3 <= rank (ts s t))%N \/ failed s = true.

Lemma rank3_stable : forall g s l x, enabled g s l = true -> (3 <= rank (ts s x))%N -> (3 <= rank (ts (apply g s l) x))%N.
Proof.
  intros g s l x He H. rewrite view_ts.
  assert (Hq : forall d, (3 <= rank (qrt s d x))%N).
  { intros d. unfold qrt. destruct (qr_ok s d && Nat.eqb x d) eqn:E; [|exact H].
    apply andb_prop in E. destruct E as [E1 E2]. apply Nat.eqb_eq in E2. subst. unfold qr_ok in E1. apply N.ltb_lt in E1. lia. }
  assert (Hu : forall t v, (3 <= rank v)%N -> (3 <= rank (upd (ts s) t v x))%N).
  { intros t v Hv. unfold upd. destruct (Nat.eqb x t); assumption. }
  destruct l; auto.
  - destruct (ex s l); auto.
  - destruct (Nat.eqb t l); auto.
  - destruct (ex s l); auto.
  - destruct (cas cas_noneed (ts s t)) as [new|] eqn:C; auto. unfold upd. destruct (Nat.eqb_spec x t); auto. subst.
    destruct (ts s t); cbn in C; try discriminate; cbn in H; lia.
  - destruct (asy s t) as [|[|d r]| | | |]; auto. destruct (ex s d); auto.
  - destruct (asy s t); auto. destruct (ex s d); auto.
  - apply Hu. cbn. lia.
  - destruct (cas [cas_pending] (ts s t)) as [new|] eqn:C; auto. apply Hu.
    destruct (ts s t); cbn in C; inversion C; cbn; lia.
  - apply Hu. cbn. lia.
  - unfold enabled in He. btrue. apply Hu. unfold built_kind, st_eqb in *. destruct o; cbn in *; try discriminate; lia.
  - apply Hu. cbn. lia.
Qed.

Lemma D2_init : forall g, D2 (init g).
Proof. intros g t [H|H]; cbn in H; discriminate. Qed.

Lemma D2_step : forall g s l, (forall t, J s t) -> D2 s -> enabled g s l = true -> D2 (apply g s l).
Proof.
  intros g s l HJ HD He x Hx.
  destruct (failed (apply g s l)) eqn:F; [right; reflexivity | left].
  assert (Fs : failed s = false) by (destruct (failed s) eqn:E; [rewrite (failed_mono g s l E) in F; discriminate | reflexivity]).
  assert (Hold : asy s x = AFinishing \/ asy s x = ADone -> (3 <= rank (ts (apply g s l) x))%N).
  { intros H. apply rank3_stable; [exact He|]. destruct (HD x H) as [H3|H3]; [exact H3 | congruence]. }
  rewrite C05_InvP.view_failed in F.
  rewrite view_asy in Hx.
  assert (Hq : forall d, qra g s d x = AFinishing \/ qra g s d x = ADone -> asy s x = AFinishing \/ asy s x = ADone).
  { intros d. unfold qra. destruct (qr_ok s d && Nat.eqb x d); [intros [H|H]; discriminate | eauto]. }
  assert (Hu : forall (f : nat -> astate) t a, upd f t a x = AFinishing \/ upd f t a x = ADone ->
                 (x <> t /\ (f x = AFinishing \/ f x = ADone)) \/ (x = t /\ (a = AFinishing \/ a = ADone))).
  { intros f t a. unfold upd. destruct (Nat.eqb_spec x t); eauto. }
  destruct l; eauto; cbn [fails] in F.
  - destruct (ex s l); eauto.
  - destruct (Nat.eqb t l); eauto.
  - destruct (ex s l); eauto.
  - destruct (asy s t) as [|[|d r]| | | |] eqn:Ea; eauto.
    destruct (ex s d); [|destruct (pst_eqb _ _); [discriminate|]]; apply Hu in Hx;
      destruct Hx as [[_ Hx]|[_ [Hx|Hx]]]; eauto; discriminate.
  - apply Hu in Hx. destruct Hx as [[_ Hx]|[_ [Hx|Hx]]]; eauto; discriminate.
  - destruct (asy s t) eqn:Ea; eauto. destruct (ex s d); apply Hu in Hx; destruct Hx as [[_ Hx]|[_ [Hx|Hx]]]; eauto; discriminate.
  - destruct (asy s t) as [| |todo [|]| | |] eqn:Ea; eauto; [discriminate|].
    apply Hu in Hx. destruct Hx as [[_ Hx]|[_ [Hx|Hx]]]; eauto; discriminate.
  - destruct (asy s t) as [| | |[|d0 r]| |] eqn:Ea; eauto. apply Hu in Hx. destruct Hx as [[_ Hx]|[_ [Hx|Hx]]]; eauto; discriminate.
  - (* LDepFailed *) apply Hu in Hx. destruct Hx as [[_ Hx]|[-> _]]; eauto. rewrite view_ts, upd_same. cbn. lia.
  - (* LActivatePending *) apply Hu in Hx. destruct Hx as [[_ Hx]|[-> _]]; eauto.
    unfold enabled in He. btrue. dasy s t Ea.
    assert (Hts : ts s t = Active) by (destruct (HJ t) as (_ & HB & _); apply HB; rewrite Ea; reflexivity).
    rewrite view_ts, Hts. cbn. rewrite upd_same. cbn. lia.
  - (* LAsyncDone *) apply Hu in Hx. destruct Hx as [[_ Hx]|[-> _]]; eauto.
    unfold enabled in He. btrue. dasy s t Ea. apply Hold. left. reflexivity.
Qed.

Theorem D2_reachable : forall g s, reachable g s -> D2 s.
Proof.
  intros g s Hr. pattern s. apply (reachable_ind' g); [apply D2_init | | exact Hr].
  intros s0 l Hr0 HD He. apply (D2_step g s0 l); [apply (J_reachable g s0 Hr0) | exact HD | exact He].
Qed.

(* ---- exit status zero -> everything needed was built ---- *)
Theorem exit_zero_all_built : forall g, wf g -> forall s, reachable g s -> exited s = true -> failed s = false ->
  forall l, needed g l -> g_pkg_ok g (g_pkg g l) = true /\ ex s l = true /\ is_built (ts s l) = true.
Proof.
  intros g Hwf s Hr Hx Hf.
  destruct (Inv05_reachable g s Hwf Hr) as [HJ HK HP HC HR HN].
  pose proof (D2_reachable g s Hr) as HD. pose proof (F_reachable g s Hr) as HF.
  destruct (exited_quiet g s Hr Hx) as (_ & _ & _ & _ & _ & Hcl).
  destruct (c_idle g s HC Hcl Hf) as (Hid & Hpt & Hpa & Hasy & Hsq & Haq & Htk & Hbu & Hfi & Hco).
  (* every target that was ever activated is finished and built *)
  assert (HA : forall t, asy s t <> ANone -> done_ok s t).
  { intros t Ht. pose proof (p_arange g s HP t Ht) as Hn. specialize (Hasy t Hn).
    assert (Ea : asy s t = ADone) by (destruct (asy s t); cbn in Hasy; try discriminate; congruence).
    destruct (HD t (or_intror Ea)) as [H3|H3]; [|congruence].
    destruct (HJ t) as (_ & _ & HS). unfold shape, q in HS. rewrite Hsq, Haq, Htk, Hbu, Hfi, Hco in HS. cbn in HS.
    assert (H12 : (rank (ts s t) < 12)%N).
    { destruct (N.ltb_spec (rank (ts s t)) 12) as [Hlt|Hge]; [exact Hlt|]. rewrite (HF t Hge) in Hf. discriminate. }
    unfold done_ok.
    destruct (ts s t) eqn:Ets; cbn in H3, H12; try lia; dand; try contradiction; try lia;
      try (split; [crush; fail | reflexivity]).
    (* Pending: its task cannot have been dropped without a failure *)
    destruct (c_pending g s HC t Ets) as [Hq|[_ Hq]]; [|congruence]. unfold q in Hq. rewrite Hsq, Haq, Htk in Hq. cbn in Hq. lia. }
  assert (HB : forall l, needed g l -> done_ok s l).
  { intros l [Hl|[r [Hreq Ht]]].
    - apply HA. destruct (n_req g s HN l Hl) as [H|[H|[H|[H|H]]]]; try congruence.
      + rewrite (p_initdone g s HP Hid) in H. contradiction.
      + rewrite Hpt in H. contradiction.
      + rewrite Hpa in H. contradiction.
    - apply (done_trans g s r l HK); [|exact Ht]. apply HA.
      destruct (n_req g s HN r Hreq) as [H|[H|[H|[H|H]]]]; try congruence.
      + rewrite (p_initdone g s HP Hid) in H. contradiction.
      + rewrite Hpt in H. contradiction.
      + rewrite Hpa in H. contradiction. }
  intros l Hl. destruct (HB l Hl) as [_ Hb].
  assert (Hex : ex s l = true).
  { apply (p_asy_ex g s HP). intros E. destruct (HJ l) as (HA1 & _ & _). apply HA1 in E.
    unfold is_built in Hb. destruct (ts s l); cbn in *; try discriminate; lia. }
  split; [|split; assumption].
  pose proof (p_ex_pk g s HP l Hex) as Hpk.
  destruct (pk s (g_pkg g l)) eqn:Pk; [congruence | | apply (p_parsed g s HP _ Pk) |].
  - destruct (p_parsing g s HP _ Pk) as [l' [Hin _]]. rewrite Hpa in Hin. contradiction.
  - destruct (p_failed g s HP _ Pk) as [_ Hfl]. congruence.
Qed.

(* ---- everything needed is built -> exit status zero (in every reachable state, in particular at the end):
   a failure is only ever logged for a needed label that is undeclared, or whose package does not parse, or that failed
   or has a failed dependency, or that lies on a dependency cycle ---- *)
Theorem all_built_exit_zero : forall g, wf g -> forall s, reachable g s ->
  (forall l, needed g l -> g_pkg_ok g (g_pkg g l) = true /\ ex s l = true /\ is_built (ts s l) = true) -> failed s = false.
Proof.
  intros g Hwf s Hr Hall.
  destruct (Inv05_reachable g s Hwf Hr) as [HJ HK HP HC HR HN].
  destruct (failed s) eqn:Hf; [exfalso | reflexivity].
  destruct (n_failed g s HN Hf) as [l [Hl Hc]]. destruct (Hall l Hl) as (Hok & Hex & Hb).
  destruct Hc as [Hc|[Hc|[Hc|Hc]]].
  - rewrite (p_ex_decl g s HP l Hex) in Hc. discriminate.
  - congruence.
  - unfold is_built in Hb. destruct (ts s l); cbn in *; try discriminate; lia.
  - apply (n_acyclic g s HN l (built_pp _ Hb)). exact Hc.
Qed.

Theorem exit_status_exact : forall g, wf g -> forall s, reachable g s -> exited s = true ->
  (failed s = false <->
   forall l, needed g l -> g_pkg_ok g (g_pkg g l) = true /\ ex s l = true /\ is_built (ts s l) = true).
Proof.
  intros g Hwf s Hr Hx. split; [apply exit_zero_all_built | apply all_built_exit_zero]; assumption.
Qed.

(* a dependency cycle among the needed labels always ends in a non-zero exit status *)
Theorem cycle_exit_nonzero : forall g, wf g -> forall s, reachable g s -> exited s = true ->
  (exists l, needed g l /\ tdep g l l) -> failed s = true.
Proof.
  intros g Hwf s Hr Hx [l [Hl Hc]]. destruct (failed s) eqn:Hf; [reflexivity | exfalso].
  destruct (exit_zero_all_built g Hwf s Hr Hx Hf l Hl) as (_ & _ & Hb).
  destruct (Inv05_reachable g s Hwf Hr) as [_ _ _ _ _ HN]. apply (n_acyclic g s HN l (built_pp _ Hb)). exact Hc.
Qed.

(* ---- everything C05 states, together ---- *)
Theorem C05_all : forall g, wf g ->
    (forall ls s, run g (init g) ls = Some s -> length ls <= mu_bound g) /\
    (forall s, reachable g s -> exited s = false -> exists l, enabled g s l = true) /\
    (forall s, reachable g s -> exited s = true ->
       quiet s /\ forall t, tstarts t (trace s) = 1 -> tends t (trace s) = 1 /\ completed (ts s t) = true) /\
    (forall s, reachable g s -> exited s = true ->
       (failed s = false <->
        forall l, needed g l -> g_pkg_ok g (g_pkg g l) = true /\ ex s l = true /\ is_built (ts s l) = true)) /\
    (forall s, reachable g s -> forall t, In (OStart t) (trace s) -> forall d, tdep g t d ->
       (exists o, built_kind o = true /\ In (OEnd d (RBuilt o)) (trace s)) /\
       ~ In (OEnd d RFailed) (trace s) /\ ~ In (OEnd d RDepFailed) (trace s)).
Proof.
  intros g Hwf. split; [exact (run_bounded g)|]. split; [exact (deadlock_free g Hwf)|].
  split; [intros s Hr Hx; split; [exact (exited_quiet g s Hr Hx) | exact (started_ended_at_exit g s Hr Hx)]|].
  split; [exact (exit_status_exact g Hwf) | exact (no_run_after_failed_dep g)].
Qed.
Print Assumptions C05_all.

(* the per-step facts behind the bound (stronger than the first conjunct above), for all graphs *)
Theorem C05_steps : forall g,
    (forall ls s, run g (init g) ls = Some s -> length ls + mu g s <= mu_bound g) /\
    (forall s l, reachable g s -> enabled g s l = true -> mu g (apply g s l) < mu g s) /\
    (forall s, reachable g s ->
       ((exists t, (12 <= rank (ts s t))%N) \/ (exists o, In o (trace s) /\ bad_event o = true)) -> failed s = true).
Proof.
  intros g. split; [exact (run_length_bound g)|].
  split; [intros s l Hr He; apply mu_step; [apply (J_reachable g s Hr) | exact He]|].
  intros s Hr [[t Ht]|Hb]; [exact (F_reachable g s Hr t Ht) | exact (bad_event_failed g s Hr Hb)].
Qed.

(* a state in which nothing but the inactivity timer can move contains a dependency cycle through a needed label;
   the timer step reports it and makes the exit status non-zero *)
Theorem only_timer_means_cycle : forall g, wf g -> forall s, reachable g s -> exited s = false ->
  (forall l, enabled g s l = true -> exists c, l = LTimerCycleCheck c) ->
  exists a c, enabled g s (LTimerCycleCheck (a :: c)) = true /\ needed g a /\ tdep g a a /\
              failed (apply g s (LTimerCycleCheck (a :: c))) = true.
Proof.
  intros g Hwf s Hr Hx Honly. destruct (deadlock_free g Hwf s Hr Hx) as [l He].
  destruct (Honly l He) as [c0 ->]. pose proof He as He'. unfold enabled in He'. btrue.
  destruct c0 as [|a c]; [match goal with H : is_cycle _ _ [] = true |- _ => discriminate H end|].
  match goal with H : is_cycle _ _ _ = true |- _ => unfold is_cycle in H; destruct (path_tdep _ _ _ _ _ H) as [Ht Ha] end.
  destruct (Inv05_reachable g s Hwf Hr) as [_ _ _ _ _ HN].
  exists a, c. split; [exact He|]. split; [apply (n_asy g s HN a Ha)|]. split; [exact Ht|].
  rewrite C05_InvP.view_failed. reflexivity.
Qed.

(* a computable sufficient condition for wf (used by the non-vacuity examples) *)
Lemma wf_of : forall g, forallb (fun t => forallb (fun d => Nat.ltb d (g_n g)) (g_deps g t)) (seq 0 (g_n g)) = true ->
  (forall t, g_n g <= t -> g_deps g t = []) -> forallb (fun l => Nat.ltb l (g_n g)) (g_req g) = true -> 1 <= g_threads g -> wf g.
Proof.
  intros g H1 H0 H2 H3. split; [|split; [|exact H3]].
  - intros t d Hd. destruct (Nat.lt_ge_cases t (g_n g)) as [Ht|Ht]; [|rewrite (H0 t Ht) in Hd; contradiction].
    rewrite forallb_forall in H1. specialize (H1 t ltac:(apply in_seq; auto with arith)).
    rewrite forallb_forall in H1. apply Nat.ltb_lt. apply H1. exact Hd.
  - intros l Hl. rewrite forallb_forall in H2. apply Nat.ltb_lt. apply H2. exact Hl.
Qed.
Lemma graph_of_deps_out : forall pkgs deps decl ok req kg th t, length deps <= t -> g_deps (graph_of pkgs deps decl ok req kg th) t = [].
Proof. intros. cbn. apply nth_overflow. assumption. Qed.

