(* C16 - a whole-program layer: a program that assigns an operator chain over integer literals.
   If the chain is safe (Proof/C16_Ops.v) and CPython's evaluation of it stays inside the side conditions of
   int_ops_agree (tree_val below computes CPython's value and checks them on the way), then the asp run and the
   CPython run of the program are EQUAL - for every such program and every fuel. *)
From Coq Require Import Lia.
From PlzV Require Import Base.Harness Gen.AspTables Model.C16_Syntax Model.C16_Ops Model.C16_Prim Model.C16_Eval Model.C16.
From PlzV Require Import Proof.C16_Ops Proof.C16_Int.
Local Open Scope Z_scope.

Inductive pv := PI (z : Z) | PB (b : bool).
Definition inj (v : pv) : value := match v with PI z => VInt z | PB b => VBool b end.
Definition pv_truthy (v : pv) : bool := match v with PI z => negb (z =? 0) | PB b => b end.

(* CPython's value of a grouped chain over integer leaves, None as soon as a step leaves the common ground
   of the two languages (overflow, % with operands of different sign, // beyond 2^53 or by zero, /, int against bool) *)
Fixpoint tree_val (t : tree vexpr value) : option pv :=
  match t with
  | TLeaf (XInt z) => if in_int64 z then Some (PI z) else None
  | TVal (VInt z) => if in_int64 z then Some (PI z) else None
  | TLeaf _ | TVal _ => None
  | TUn Not t1 => match tree_val t1 with Some v => Some (PB (negb (pv_truthy v))) | None => None end
  | TUn Neg t1 => match tree_val t1 with
                  | Some (PI z) => if in_int64 (- z) then Some (PI (- z)) else None
                  | _ => None
                  end
  | TBin And l r => match tree_val l with Some a => if pv_truthy a then tree_val r else Some a | None => None end
  | TBin Or l r => match tree_val l with Some a => if pv_truthy a then Some a else tree_val r | None => None end
  | TBin o l r =>
      match tree_val l, tree_val r with
      | Some (PI a), Some (PI b) =>
          match o with
          | C16_Syntax.Eq => Some (PB (a =? b))
          | Ne => Some (PB (negb (a =? b)))
          | Add | Sub | Mul | FloorDiv | Mod | C16_Syntax.Lt | C16_Syntax.Gt | Le | Ge =>
              if int_safe o a b then
                match py_int_op o a b with
                | IOk z => if in_int64 z then Some (PI z) else None
                | IBool x => Some (PB x)
                | _ => None
                end
              else None
          | _ => None
          end
      | Some (PB a), Some (PB b) =>
          match o with
          | C16_Syntax.Eq => Some (PB (Bool.eqb a b))
          | Ne => Some (PB (negb (Bool.eqb a b)))
          | _ => None
          end
      | _, _ => None
      end
  end.

Section Both.
  Variable d : dialect.
  Variable defs : list (str * prog).
  Variable f : nat.      (* the fuel handed to the operand evaluator and the operators is S f *)

  Notation tev := (teval (eval_vexpr d defs (S f)) (apply_bin d (S f)) (fun u v st0 => apply_un d u st0 v) (fun v st0 => truthy d st0 v)).

  Lemma truthy_inj : forall st v, truthy d st (inj v) = pv_truthy v.
  Proof. intros st [z|b]; reflexivity. Qed.

  Lemma int_op_safe : forall o a b, int_safe o a b = true -> int_op d o a b = py_int_op o a b.
  Proof. intros. destruct d; [now apply int_ops_agree|reflexivity]. Qed.

  Definition is_int_op (o : binop) : bool :=
    match o with Add | Sub | Mul | FloorDiv | Mod | C16_Syntax.Lt | C16_Syntax.Gt | Le | Ge => true | _ => false end.

  Lemma apply_bin_int : forall o a b st, is_int_op o = true -> int_safe o a b = true ->
    apply_bin d (S f) o (VInt a) (VInt b) st =
      match py_int_op o a b with
      | IOk z => Ok (VInt z, st) | IBool x => Ok (VBool x, st)
      | IErr => Err EType | IUnsup => Err EUnsupported | IFloat => Err EFloat
      end.
  Proof.
    intros o a b st Ho Hs. pose proof (int_op_safe o a b Hs) as E.
    destruct o; try discriminate; unfold apply_bin; destruct d; cbn [is_py]; rewrite E; reflexivity.
  Qed.

  (* both dialects evaluate the tree to CPython's value and leave the state alone *)
  Lemma tree_val_eval : forall (t : tree vexpr value) v st,
    tree_val t = Some v -> tev t st = Ok (inj v, st).
  Proof.
    induction t as [x|x|u t1 IH|o l IHl r IHr]; intros v st H.
    - destruct x; try discriminate. cbn [tree_val] in H. destruct (in_int64 z); [|discriminate].
      injection H as <-. reflexivity.
    - destruct x; try discriminate. cbn [tree_val] in H. destruct (in_int64 z); [|discriminate].
      injection H as <-. reflexivity.
    - cbn [teval]. destruct u.
      + cbn [tree_val] in H. destruct (tree_val t1) as [[z|b]|] eqn:Ht; try discriminate.
        destruct (in_int64 (- z)) eqn:Hr; [|discriminate]. injection H as <-.
        rewrite (IH _ st eq_refl). cbn [rbind lift_un apply_un inj].
        destruct d; [rewrite wrap64_id by exact Hr|]; reflexivity.
      + cbn [tree_val] in H. destruct (tree_val t1) as [w|] eqn:Ht; [|discriminate].
        injection H as <-. rewrite (IH _ st eq_refl). cbn [rbind lift_un apply_un].
        rewrite truthy_inj. reflexivity.
    - destruct o;
        try (cbn [tree_val] in H; destruct (tree_val l) as [[a|a]|]; destruct (tree_val r) as [[b|b]|]; discriminate).
      all: cbn [teval].
      (* arithmetic and ordering *)
      1-9: cbn [tree_val] in H;
        destruct (tree_val l) as [[a|a]|] eqn:Hl; try discriminate;
        destruct (tree_val r) as [[b|b]|] eqn:Hr; try discriminate;
        match type of H with (if int_safe ?o a b then _ else _) = _ => destruct (int_safe o a b) eqn:Hs; [|discriminate] end;
        rewrite (IHl _ st eq_refl); cbn [rbind]; rewrite (IHr _ st eq_refl); cbn [rbind inj];
        match type of Hs with int_safe ?o0 _ _ = _ => rewrite (apply_bin_int o0 a b st eq_refl Hs) end;
        match type of H with (match ?p with _ => _ end) = _ => destruct p; try discriminate end;
        [destruct (in_int64 z); [|discriminate]; injection H as <-; reflexivity | injection H as <-; reflexivity].
      + (* == *)
        cbn [tree_val] in H.
        destruct (tree_val l) as [[a|a]|] eqn:Hl; try discriminate;
          destruct (tree_val r) as [[b|b]|] eqn:Hr; try discriminate;
          injection H as <-; rewrite (IHl _ st eq_refl); cbn [rbind]; rewrite (IHr _ st eq_refl); cbn [rbind];
          destruct d; cbn; try reflexivity.
        all: try (destruct (a =? b); reflexivity); try (destruct a, b; reflexivity).
      + (* != *)
        cbn [tree_val] in H.
        destruct (tree_val l) as [[a|a]|] eqn:Hl; try discriminate;
          destruct (tree_val r) as [[b|b]|] eqn:Hr; try discriminate;
          injection H as <-; rewrite (IHl _ st eq_refl); cbn [rbind]; rewrite (IHr _ st eq_refl); cbn [rbind];
          destruct d; cbn; try reflexivity.
        all: try (destruct (a =? b); reflexivity); try (destruct a, b; reflexivity).
      + (* and *)
        cbn [tree_val] in H. destruct (tree_val l) as [a|] eqn:Hl; [|discriminate].
        rewrite (IHl _ st eq_refl). cbn [rbind binop_eqb]. rewrite truthy_inj.
        destruct (pv_truthy a); cbn [Bool.eqb].
        * rewrite (IHr _ st H). cbn [rbind]. unfold recheck. now rewrite eqb_reflx.
        * injection H as <-. reflexivity.
      + (* or *)
        cbn [tree_val] in H. destruct (tree_val l) as [a|] eqn:Hl; [|discriminate].
        rewrite (IHl _ st eq_refl). cbn [rbind binop_eqb]. rewrite truthy_inj.
        destruct (pv_truthy a); cbn [Bool.eqb].
        * injection H as <-. reflexivity.
        * rewrite (IHr _ st H). cbn [rbind]. unfold recheck. now rewrite eqb_reflx.
  Qed.
End Both.

(* ---- the program ---- *)
Definition chain_prog (x : str) (z0 : Z) (ops : list opitem) : prog := [SAssign x (Ex (XInt z0) ops None)].
Definition pobs (v : pv) : obs := match v with PI z => OInt z | PB b => OBool b end.

Lemma chain_value : forall d defs f z0 (ops : list opitem) v st,
  ops_safe (items_of ops) = true ->
  tree_val (py_tree (TVal (VInt z0)) (items_of ops)) = Some v ->
  chain d (eval_vexpr d defs (S f)) (S f) (VInt z0) ops st = Ok (inj v, st).
Proof.
  intros d defs f z0 ops v st Hsafe Hval. unfold chain. destruct d.
  - rewrite ops_agree by exact Hsafe. unfold py_ops. now apply (tree_val_eval Asp defs f).
  - unfold py_ops. now apply (tree_val_eval Py defs f).
Qed.

Lemma exec_assign_unfold : forall d defs f n e st,
  exec_stmt d defs (S f) (SAssign n e) st = rbind (eval_expr d defs f e st) (fun '(v, st1) => Ok (RNone, set_var n v st1)).
Proof. reflexivity. Qed.

Lemma run_chain_prog : forall d f x z0 ops v,
  ops_safe (items_of ops) = true ->
  tree_val (py_tree (TVal (VInt z0)) (items_of ops)) = Some v ->
  run d [] (S (S (S f))) [chain_prog x z0 ops] = [OGlobals [(x, pobs v)] [(x, pobs v)]].
Proof.
  intros d f x z0 ops v Hsafe Hval.
  assert (Hexpr : forall st, eval_expr d [] (S (S f)) (Ex (XInt z0) ops None) st = Ok (inj v, st)).
  { intros st. change (eval_expr d [] (S (S f)) (Ex (XInt z0) ops None) st)
      with (rbind (eval_vexpr d [] (S f) (XInt z0) st)
              (fun '(obj, st1) => match ops with
                                  | [] => Ok (obj, st1)
                                  | _ => chain d (eval_vexpr d [] (S f)) (S f) obj ops st1
                                  end)).
    change (eval_vexpr d [] (S f) (XInt z0) st) with (@Ok (value * state) (VInt z0, st)). cbn [rbind].
    destruct ops as [|i rest].
    - cbn in Hval. destruct (in_int64 z0); [|discriminate]. injection Hval as <-. reflexivity.
    - now apply chain_value. }
  unfold run, chain_prog. cbn [run_builds exec_top].
  rewrite exec_assign_unfold, Hexpr. cbn [rbind].
  destruct v; destruct d; vm_compute; reflexivity.
Qed.

(* every such program, every fuel: the asp run and the CPython run are the same *)
Theorem int_chain_program_agrees : forall fuel x z0 ops v,
  ops_safe (items_of ops) = true ->
  tree_val (py_tree (TVal (VInt z0)) (items_of ops)) = Some v ->
  run Asp [] fuel [chain_prog x z0 ops] = run Py [] fuel [chain_prog x z0 ops].
Proof.
  intros fuel x z0 ops v Hsafe Hval.
  destruct fuel as [|[|[|f]]]; [vm_compute; reflexivity|vm_compute; reflexivity|vm_compute; reflexivity|].
  now rewrite (run_chain_prog Asp f x z0 ops v), (run_chain_prog Py f x z0 ops v).
Qed.

(* non-vacuity: 0 or 1 * 2 + 3 < 9 and not 0 *)
Example int_chain_example :
  let ops := [OBin Or (XInt 1); OBin Mul (XInt 2); OBin Add (XInt 3); OBin C16_Syntax.Lt (XInt 9); OBin And (XInt 0); OUn Not] in
  ops_safe (items_of ops) = true /\ tree_val (py_tree (TVal (VInt 0)) (items_of ops)) = Some (PB true).
Proof. vm_compute. split; reflexivity. Qed.
