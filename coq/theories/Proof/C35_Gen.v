(* C35 - ties between the hand model (Model/C35.v) and what gotrans reads off /repo's current source
   (Gen/C35Hashes.v, regenerated on every run).  A change of the source that alters one of these facts
   breaks a proof here, and with it Props/C35.v. *)
From Coq Require Import String.
From PlzV Require Import Base.Harness Base.StrFacts Model.C35 Proof.C35 Proof.C35_Fg Gen.C35Hashes.

Local Open Scope list_scope.

Definition all_algos : list algo := [Sha1; Sha256; Blake3; XXHash; Crc32; Crc64].

Lemma all_algos_complete a : In a all_algos.
Proof. destruct a; cbn; tauto. Qed.

Fixpoint gen_size (n : str) (l : list (string * nat)) : option nat :=
  match l with
  | [] => None
  | (k, v) :: r => if str_eqb (s k) n then Some v else gen_size n r
  end.

(* every algorithm of the model is a key of BuildState.hashers with the modelled Size(), and there is no other *)
Lemma gen_sizes a : gen_size (algo_name a) hashers = Some (algo_size a).
Proof. destruct a; vm_compute; reflexivity. Qed.

Lemma gen_hashers_all_modelled :
  forallb (fun kv => existsb (fun a => str_eqb (s (fst kv)) (algo_name a)) all_algos) hashers = true.
Proof. vm_compute. reflexivity. Qed.

(* the defaults of build.hashfunction / build.hashcheckers are the model's default_cfg *)
Lemma gen_defaults :
  s default_hashfunction = algo_name (hashfn default_cfg)
  /\ map s default_hashcheckers = map algo_name (checkers default_cfg).
Proof. vm_compute. split; reflexivity. Qed.

(* the shapes the model relies on: UnprefixedHashes copies and cuts at ':'; a declared value is compared
   with a checker only when it has 2 characters per digest byte; names are hashed only without declared
   hashes; (the two defects:) a filegroup is verified only when a file changed, and the target's output
   hash is memoised across a rejected cache restore *)
Lemma gen_shapes :
  unprefix_sep = 58%N /\ unprefix_works_on_copy = true /\ hex_chars_per_byte = 2
  /\ names_only_without_hashes = true
  /\ filegroup_check_guarded_by_changed = true /\ output_hash_memoised = true.
Proof. vm_compute. repeat split. Qed.

Theorem gen_unprefix_sep_free h : ~ In unprefix_sep (unprefix h).
Proof. rewrite (proj1 gen_shapes). apply unprefix_no_colon. Qed.

Theorem gen_checker_hex_length H a outs :
  H_sized H ->
  exists n, gen_size (algo_name a) hashers = Some n
            /\ List.length (hex (checker_hash H a outs)) = hex_chars_per_byte * n.
Proof.
  intros HS. exists (algo_size a). split; [apply gen_sizes|].
  rewrite (proj1 (proj2 (proj2 gen_shapes))). apply checker_hex_length. exact HS.
Qed.

Lemma after_last_colon_app pre t : ~ In 58%N t -> after_last_colon (pre ++ 58%N :: t) = Some t.
Proof.
  intros Hn. induction pre as [|c p IH].
  - change (after_last_colon ([] ++ 58%N :: t))
      with (match after_last_colon t with Some t' => Some t' | None => if N.eqb 58 58 then Some t else None end).
    rewrite (proj2 (after_last_colon_none t) Hn). reflexivity.
  - change (after_last_colon ((c :: p) ++ 58%N :: t))
      with (match after_last_colon (p ++ 58%N :: t) with Some t' => Some t' | None => if N.eqb c 58 then Some (p ++ 58%N :: t) else None end).
    rewrite IH. reflexivity.
Qed.

(* with the default configuration the digests under sha1, sha256 and blake3 are accepted, bare or prefixed *)
Theorem gen_default_config_accepts H outs a pre :
  H_sized H -> In (algo_name a) (map s default_hashcheckers) ->
  accepted (check_rule_hashes H default_cfg outs [pre ++ [58%N; 32%N] ++ hex (checker_hash H a outs)]) = true
  \/ In 58%N (hex (checker_hash H a outs)) \/ trim_space (32%N :: hex (checker_hash H a outs)) <> hex (checker_hash H a outs).
Proof.
  intros HS Hin.
  destruct (in_dec N.eq_dec 58%N (hex (checker_hash H a outs))) as [C|NC]; [right; left; exact C|].
  destruct (list_eq_dec N.eq_dec (trim_space (32%N :: hex (checker_hash H a outs))) (hex (checker_hash H a outs))) as [T|NT];
    [|right; right; exact NT].
  left. apply (check_iff H HS). right.
  exists (pre ++ [58%N; 32%N] ++ hex (checker_hash H a outs)). split; [left; reflexivity|].
  exists (checker_hash H a outs). split.
  - right. exists a. split; [|reflexivity].
    rewrite (proj2 gen_defaults) in Hin. apply in_map_iff in Hin. destruct Hin as (a' & E & Hin').
    destruct a, a'; try discriminate E; exact Hin'.
  - unfold unprefix.
    assert (after_last_colon (pre ++ [58%N; 32%N] ++ hex (checker_hash H a outs)) = Some (32%N :: hex (checker_hash H a outs))) as A.
    { apply after_last_colon_app. intros [E|I]; [discriminate|contradiction]. }
    rewrite A. exact T.
Qed.

(* ------------------------------------------------------------------------------------------ *)
(* filegroups: the state comparison of buildFilegroup and the memo of filegroupBuilder are TRANSLATED from the
   source; the model's `triggers`, `memo_hit`, `memo_store_same/_built` are what the source says *)

Fixpoint gen_index (n : str) (l : list string) (i : nat) : option nat :=
  match l with
  | [] => None
  | k :: r => if str_eqb (s k) n then Some i else gen_index n r (S i)
  end.

(* the value of core.<State> (position in the iota block of BuildTargetState) *)
Definition gen_rank (t : tstate) : option nat := gen_index (tstate_name t) build_states 0.

Definition all_tstates : list tstate := [TBuilt; TCached; TUnchanged; TReused].

Lemma gen_state_triggers t :
  exists r, gen_rank t = Some r /\ fg_src_state_triggers r = triggers t.
Proof. destruct t; vm_compute; eexists; split; reflexivity. Qed.

(* the states of the model are exactly the states a locally finished source target can be in: from Built up to
   (excluding) the remote ones, in this order *)
Lemma gen_local_states :
  map gen_rank all_tstates = map Some (seq (match gen_rank TBuilt with Some r => r | None => 0 end) 4)
  /\ gen_index (s "BuiltRemotely") build_states 0 = option_map S (gen_rank TReused).
Proof. vm_compute. split; reflexivity. Qed.

Lemma gen_memo :
  (forall b, fg_memo_hit b = memo_hit b)
  /\ fg_memo_store_same = Some memo_store_same /\ fg_memo_store_built = Some memo_store_built
  /\ fg_memo_value_type = "bool"%string /\ fg_src_same_package_only = true.
Proof. split; [intros []; reflexivity|]. vm_compute. repeat split. Qed.

(* about the generated definitions themselves: a same-package source that was built or came out of the cache in
   this invocation makes the filegroup count as changed, one that was left alone does not; and a file that a
   first builder put in place is reported as changed to every later builder *)
Theorem gen_fg_changed_semantics :
  (forall t r, gen_rank t = Some r ->
     fg_src_state_triggers r = true <-> (t = TBuilt \/ t = TCached))
  /\ (forall first_verdict, fg_memo_store_built = Some first_verdict -> fg_memo_hit first_verdict = true)
  /\ (forall first_verdict, fg_memo_store_same = Some first_verdict -> fg_memo_hit first_verdict = false).
Proof.
  split; [|split].
  - intros t r E. destruct (gen_state_triggers t) as (r' & E' & T). rewrite E in E'. inversion E'; subst r'.
    rewrite T. destruct t; cbn; split; intros X; try discriminate; auto; destruct X; discriminate.
  - intros v E. rewrite (proj1 (proj2 (proj2 gen_memo))) in E. inversion E; subst. rewrite (proj1 gen_memo). reflexivity.
  - intros v E. rewrite (proj1 (proj2 gen_memo)) in E. inversion E; subst. rewrite (proj1 gen_memo). reflexivity.
Qed.
