(* C01 - incremental = clean on the engine model.
   Trust: every record in plz-out (and every cache entry) is justified: the tree it sits on is what the
   action of the definition it names produces on the inputs it names.  Trust does not mention the current
   repository, so it survives edits, reverts, removed targets and rm -rf plz-out; it is preserved by every
   build step provided the path-hash stream is injective on the trees that occur (`good`, hypothesis
   good_inj = path_inj) and the rule key identifies the definition (hypothesis U_inj = the C08 assumption).
   Tools: the source key names the trees of the tool outputs but not their paths (Engine.anon_ins), so "the inputs a
   record names" are determined up to the paths of the tool outputs only.  For a command that does not read those names
   (Model.C01.tool_blind) that is enough; for one that does (ToolNames) the record is justified relative to `Obs`, the
   tool output paths observed at the turns of the history under (rule key, source key) - functional by hypothesis
   (Obs_fun = the executable classifier tool_rename_free). *)
From PlzV Require Import Base.Harness Base.StrFacts Model.Engine Model.C01 Proof.Engine Proof.C03.
From Coq Require Import Lia.

(* ------------------------------------------------------------------------------------------ *)
(* the two halves of a source key *)

(* the inputs of a build: a = $SRCS (path, tree), b = the outputs of the tools (path, tree) *)
Definition skey2 (a b : list (path * node)) : skey := key_of a ++ key_of (anon_ins b).
Definition named (a : list (path * node)) : Prop := Forall (fun pn => fst pn <> nopath) a.
(* what the command reads: a target with output_dirs (command OutDir) never sees its tools *)
Definition cmd_ins (t : target) (a b : list (path * node)) : list (path * node) :=
  if could_modify t then a else a ++ tool_ins b.

Lemma key_split a : forall a' b b', named a -> named a' -> skey2 a b = skey2 a' b' ->
  key_of a = key_of a' /\ key_of (anon_ins b) = key_of (anon_ins b').
Proof.
  unfold skey2. induction a as [|[p n] a IH]; intros [|[p' n'] a'] b b' Hn Hn' H.
  - split; [reflexivity|exact H].
  - exfalso. destruct b as [|[q m] b]; [discriminate H|].
    cbn [key_of anon_ins map app fst snd] in H. injection H as Hp _ _. inversion Hn' as [|? ? Hx _]; subst.
    cbn [fst] in Hx. congruence.
  - exfalso. destruct b' as [|[q m] b']; [discriminate H|].
    cbn [key_of anon_ins map app fst snd] in H. injection H as Hp _ _. inversion Hn as [|? ? Hx _]; subst.
    cbn [fst] in Hx. congruence.
  - cbn [key_of map app fst snd] in H. injection H as Hp Hs Hr. inversion Hn; inversion Hn'; subst.
    destruct (IH a' b b') as [E1 E2]; try assumption.
    split; [|exact E2]. cbn [key_of map fst snd]. f_equal; [congruence|exact E1].
Qed.

Lemma split_fst_snd {A B} (l : list (A * B)) : forall l', map fst l = map fst l' -> map snd l = map snd l' -> l = l'.
Proof.
  induction l as [|[x y] l IH]; intros [|[x' y'] l'] H1 H2; try discriminate; [reflexivity|].
  cbn [map fst snd] in H1, H2. injection H1 as -> H1. injection H2 as -> H2. f_equal. apply IH; assumption.
Qed.

Lemma tmp_ins_app x y : tmp_ins (x ++ y) = tmp_ins x ++ tmp_ins y.
Proof. unfold tmp_ins. apply map_app. Qed.
Lemma tmp_ins_snd x : map snd (tmp_ins x) = map snd x.
Proof. unfold tmp_ins. rewrite map_map. reflexivity. Qed.
Lemma tool_ins_snd b : map snd (tool_ins b) = map snd b.
Proof. unfold tool_ins. rewrite map_map. reflexivity. Qed.
Lemma cmd_ins_snd t a b : map snd (cmd_ins t a b) = if could_modify t then map snd a else map snd a ++ map snd b.
Proof. unfold cmd_ins. destruct (could_modify t); [reflexivity|]. rewrite map_app, tool_ins_snd. reflexivity. Qed.

Lemma filter_tool_ins b : filter is_tool_in (tmp_ins (tool_ins b)) = tmp_ins (tool_ins b).
Proof. unfold tmp_ins, tool_ins. induction b as [|pn b IH]; [reflexivity|]. simpl in *. rewrite IH. reflexivity. Qed.
Lemma src_ins_tool_ins b : src_ins (tmp_ins (tool_ins b)) = [].
Proof. unfold src_ins, tmp_ins, tool_ins. induction b as [|pn b IH]; [reflexivity|]. simpl in *. exact IH. Qed.
Lemma src_ins_app x y : src_ins (x ++ y) = src_ins x ++ src_ins y.
Proof. unfold src_ins. apply filter_app. Qed.

Lemma all_files_snd l : forall l', map snd l = map snd l' -> all_files l = all_files l'.
Proof.
  induction l as [|[k n] l IH]; intros [|[k' n'] l'] H; try discriminate; [reflexivity|].
  cbn [map snd] in H. injection H as -> H. cbn [all_files]. destruct n'; [|reflexivity]. rewrite (IH l' H). reflexivity.
Qed.

(* a command that does not read the names of its tools' outputs is a function of $SRCS and the TREES of the tool outputs *)
Lemma blind_result t a b b' : tool_blind t = true -> map snd b = map snd b' ->
  result t (tmp_ins (cmd_ins t a b)) = result t (tmp_ins (cmd_ins t a b')).
Proof.
  intros Hb Hs. unfold result, cmd_ins. destruct (could_modify t) eqn:Ecm; [reflexivity|].
  rewrite !tmp_ins_app.
  assert (Hsrc : forall b0, src_ins (tmp_ins a ++ tmp_ins (tool_ins b0)) = src_ins (tmp_ins a))
    by (intros b0; rewrite src_ins_app, src_ins_tool_ins, app_nil_r; reflexivity).
  assert (Htl : all_files (filter is_tool_in (tmp_ins a ++ tmp_ins (tool_ins b)) ++ src_ins (tmp_ins a))
                = all_files (filter is_tool_in (tmp_ins a ++ tmp_ins (tool_ins b')) ++ src_ins (tmp_ins a))).
  { apply all_files_snd. rewrite !filter_app, !filter_tool_ins, !map_app, !tmp_ins_snd, !tool_ins_snd, Hs. reflexivity. }
  unfold tool_blind in Hb. destruct (t_kind t) as [c| |content]; cbn [act]; [|reflexivity|reflexivity].
  destruct c; try discriminate Hb; rewrite ?Hsrc, ?Htl; reflexivity.
Qed.

Lemma join_inj pkg a b : join pkg a = join pkg b -> a = b.
Proof.
  unfold join. destruct pkg as [|c pk]; [tauto|]. intros H. apply app_inv_head in H. injection H as ->. reflexivity.
Qed.

Lemma alookup_in {A} (l : list (str * A)) k v : NoDup (map fst l) -> In (k, v) l -> alookup k l = Some v.
Proof.
  induction l as [|[k' v'] l IH]; intros Hnd Hin; [destruct Hin|].
  cbn [alookup]. cbn [map fst] in Hnd. inversion Hnd as [|? ? Hnot Hnd']; subst.
  destruct Hin as [E|Hin].
  - injection E as -> ->. rewrite str_eqb_refl. reflexivity.
  - destruct (str_eqb_spec k k') as [->|_]; [|apply IH; assumption].
    exfalso. apply Hnot. change k' with (fst (k', v)). apply in_map. exact Hin.
Qed.

Lemma alookup_some_in {A} (l : list (str * A)) k v : alookup k l = Some v -> In (k, v) l.
Proof.
  induction l as [|[k' v'] l IH]; cbn [alookup]; [discriminate|].
  destruct (str_eqb_spec k k') as [->|_].
  - intros H. injection H as ->. left. reflexivity.
  - intros H. right. apply IH. exact H.
Qed.

Lemma alookup_names {A} (l : list (str * A)) k : In k (map fst l) -> exists v, alookup k l = Some v.
Proof.
  induction l as [|[k' v'] l IH]; cbn [map fst alookup]; [intros []|].
  destruct (str_eqb_spec k k') as [->|Hne]; [intros _; eexists; reflexivity|].
  intros [E|H]; [congruence|apply IH; exact H].
Qed.

Lemma dedup_nodup l : forall seen, NoDup (map snd l) -> (forall p, In p l -> ~ In (snd p) seen) -> dedup seen l = l.
Proof.
  induction l as [|p l IH]; intros seen Hnd Hs; [reflexivity|].
  cbn [dedup]. cbn [map] in Hnd. inversion Hnd as [|? ? Hnot Hnd']; subst.
  assert (E : mem (snd p) seen = false) by (apply mem_false; apply Hs; left; reflexivity).
  rewrite E. f_equal. apply IH; [exact Hnd'|].
  intros q Hq [Heq|Hin]; [|apply (Hs q); [right; exact Hq|exact Hin]].
  apply Hnot. rewrite Heq. apply in_map. exact Hq.
Qed.

Lemma nodup_app_r {A} (a b : list A) : NoDup (a ++ b) -> NoDup b.
Proof. induction a as [|x a IH]; cbn [app]; [tauto|]. intros H. inversion H; subst. apply IH. assumption. Qed.
Lemma nodup_app_l {A} (a b : list A) : NoDup (a ++ b) -> NoDup a.
Proof.
  induction a as [|x a IH]; cbn [app]; intros H; [constructor|]. inversion H as [|? ? Hn Hd]; subst.
  constructor; [|apply IH; exact Hd]. intros Hi. apply Hn. apply in_or_app. left. exact Hi.
Qed.

Section Trust.
  Variable U : target -> Prop.
  Variable good : node -> Prop.
  Hypothesis U_inj : forall t t', U t -> U t' -> t_defkey t = t_defkey t' -> t = t'.
  Hypothesis good_inj : forall a b, good a -> good b -> stream a = stream b -> a = b.
  Hypothesis good_file : forall c, good (File false c).
  Hypothesis act_good : forall t ins news, U t -> Forall good (map snd ins) ->
    result t ins = Some news -> Forall good (map snd news).
  (* the paths of the tool outputs observed under (rule key, source key) at the turns of the targets that read them *)
  Variable Obs : str -> skey -> list path -> Prop.
  Hypothesis Obs_fun : forall dk sk tp tp', Obs dk sk tp -> Obs dk sk tp' -> tp = tp'.

  (* the outputs a record speaks about: for a target with output_dirs those folded into its post-build rule hash *)
  Definition rec_outs (t : target) (po : list str) : list str := if could_modify t then po else outputs t.

  (* the inputs (a, b) a source key can stand for: trees the hash is injective on, sources under real paths, and - when the
     command reads the names of the tool outputs - the tool output paths observed under this key *)
  Definition stands_for (t : target) (sk : skey) (a b : list (path * node)) : Prop :=
    skey2 a b = sk /\ Forall good (map snd a) /\ Forall good (map snd b) /\ named a
    /\ (tool_blind t = false -> Obs (t_defkey t) sk (map fst b)).

  Definition justified (t : target) (sk : skey) (po : list str) (o : str) (n : node) : Prop :=
    forall a b : list (path * node), stands_for t sk a b ->
    exists news, result t (tmp_ins (cmd_ins t a b)) = Some news /\ alookup o news = Some n
                 /\ (could_modify t = true -> po = map fst news).

  Record Trust (st : store) : Prop := {
    tr_good : forall rel e, s_outs st rel = Some e -> good (e_node e);
    tr_rec : forall rel e dk po sk, s_outs st rel = Some e -> e_rec e = Some ((dk, po), sk) ->
             forall t o, U t -> t_defkey t = dk -> In o (rec_outs t po) -> out_rel t o = rel -> justified t sk po o (e_node e);
    tr_cache : forall l dk po sk cached, s_cache st l ((dk, po), sk) = Some cached ->
               forall t a b, U t -> t_label t = l -> t_defkey t = dk -> stands_for t sk a b ->
               act (t_kind t) (outputs t) (tmp_ins (a ++ tool_ins b)) = Some cached
  }.

  Lemma trust_empty : Trust empty_store.
  Proof. constructor; cbn; intros; discriminate. Qed.

  Lemma trust_wipe st : Trust st -> Trust (wipe st).
  Proof. intros T. constructor; cbn; intros; try discriminate. eapply (tr_cache st T); eassumption. Qed.

  Lemma key_inj (a b : list (path * node)) : key_of a = key_of b ->
    Forall good (map snd a) -> Forall good (map snd b) -> a = b.
  Proof.
    revert b. induction a as [|[p n] a IH]; intros [|[q m] b] H Ha Hb; try discriminate; [reflexivity|].
    cbn [key_of map fst snd] in H. injection H as Hp Hn Hrest.
    cbn [map snd] in Ha, Hb. inversion Ha; inversion Hb; subst.
    f_equal; [f_equal; apply good_inj; assumption|apply IH; assumption].
  Qed.

  Lemma anon_inj (b : list (path * node)) : forall b', key_of (anon_ins b) = key_of (anon_ins b') ->
    Forall good (map snd b) -> Forall good (map snd b') -> map snd b = map snd b'.
  Proof.
    induction b as [|[p n] b IH]; intros [|[q m] b'] H Hb Hb'; try discriminate; [reflexivity|].
    cbn [key_of anon_ins map fst snd] in H. injection H as Hn Hr.
    cbn [map snd] in *. inversion Hb; inversion Hb'; subst.
    f_equal; [apply good_inj; assumption|apply IH; assumption].
  Qed.

  (* two pairs of inputs the same source key stands for give the same result *)
  Lemma same_result t sk a b a' b' : stands_for t sk a b -> stands_for t sk a' b' ->
    result t (tmp_ins (cmd_ins t a' b')) = result t (tmp_ins (cmd_ins t a b)).
  Proof.
    intros (Hk & Hga & Hgb & Hna & Ho) (Hk' & Hga' & Hgb' & Hna' & Ho').
    destruct (key_split a' a b' b Hna' Hna) as [Ea Eb]; [congruence|].
    assert (a' = a) by (apply key_inj; assumption). subst a'.
    pose proof (anon_inj _ _ Eb Hgb' Hgb) as Es.
    destruct (tool_blind t) eqn:Etb.
    - apply blind_result; assumption.
    - assert (b' = b) by (apply split_fst_snd; [apply (Obs_fun (t_defkey t) sk); auto|exact Es]). subst b'. reflexivity.
  Qed.

  (* removing entries keeps Trust *)
  Lemma trust_set_none st rel : Trust st -> Trust (set_out st rel None).
  Proof.
    intros T. constructor.
    - intros rel' e H. rewrite set_out_outs in H. destruct (str_eqb rel' rel); [discriminate|]. eapply (tr_good st T); eassumption.
    - intros rel' e dk po sk H. rewrite set_out_outs in H. destruct (str_eqb rel' rel); [discriminate|]. eapply (tr_rec st T); eassumption.
    - intros l dk po sk cached H. cbn in H. eapply (tr_cache st T). exact H.
  Qed.

  Lemma trust_remove_fold rels : forall st, Trust st -> Trust (fold_left (fun s x => set_out s x None) rels st).
  Proof. induction rels as [|x rels IH]; intros st T; cbn [fold_left]; [exact T|]. apply IH. apply trust_set_none. exact T. Qed.
  Lemma trust_remove t st : Trust st -> Trust (remove_outputs t st).
  Proof. apply trust_remove_fold. Qed.
  Lemma trust_remove_outs t outs st : Trust st -> Trust (remove_outs t outs st).
  Proof. apply trust_remove_fold. Qed.

  Lemma trust_set_meta_dyn st l d : Trust st -> Trust (set_meta_dyn st l d).
  Proof. intros T. constructor; cbn; [apply (tr_good st T)|apply (tr_rec st T)|apply (tr_cache st T)]. Qed.
  Lemma trust_set_meta st l : Trust st -> Trust (set_meta st l).
  Proof. apply trust_set_meta_dyn. Qed.

  (* a file linked by a filegroup carries no record *)
  Lemma trust_set_node st rel n : good n -> Trust st -> Trust (set_out st rel (Some (mkE n None))).
  Proof.
    intros Hn T. constructor.
    - intros rel' e H. rewrite set_out_outs in H. destruct (str_eqb rel' rel).
      + injection H as <-. exact Hn.
      + eapply (tr_good st T); eassumption.
    - intros rel' e dk po sk H Hr. rewrite set_out_outs in H. destruct (str_eqb rel' rel).
      + injection H as <-. discriminate.
      + eapply (tr_rec st T); eassumption.
    - intros l dk po sk cached H. cbn in H. eapply (tr_cache st T). exact H.
  Qed.

  (* ---------------------------------------------------------------------------------------- *)
  (* the repository under consideration *)

  Variable r : repo.
  Hypothesis W : WF r.
  Hypothesis Hdist : distinct_srcs r = true.
  Hypothesis HU : forall t, In t (r_targets r) -> U t.
  (* no source sits on the anonymous path of the tool entries; the trees the filegroups link (files or directories) are good *)
  Hypothesis Hnamed : forall t, In t (r_targets r) -> Forall (fun p => p <> nopath) (all_paths r t).
  Hypothesis Hsg : forall t f n, In t (r_targets r) -> is_filegroup t = true -> In f (outputs t) ->
    fg_src r (join (t_pkg t) f) = Some n -> good n.

  Lemma iter_is_all t : In t (r_targets r) -> iter_sources r t = all_paths r t.
  Proof.
    intros Ht. unfold iter_sources. apply dedup_nodup; [|intros p _ []].
    apply nodup_str_NoDup. unfold distinct_srcs in Hdist. rewrite forallb_forall in Hdist. apply Hdist. exact Ht.
  Qed.

  (* everything a target reads at its turn: its sources and the outputs of its tools *)
  Definition reads (st : store) (t : target) : option (list (path * node) * list (path * node)) :=
    match gather (read r st) (all_paths r t), gather (read r st) (tool_paths r t) with
    | Some a, Some b => Some (a, b)
    | _, _ => None
    end.

  Lemma source_key_reads t st : In t (r_targets r) ->
    source_key r st t = option_map (fun ab => skey2 (fst ab) (snd ab)) (reads st t).
  Proof.
    intros Ht. unfold source_key, reads. rewrite (hashed_tool_paths_all r t), (iter_is_all t Ht).
    destruct (gather (read r st) (all_paths r t)); [|reflexivity]. destruct (gather (read r st) (tool_paths r t)); reflexivity.
  Qed.

  Lemma gather_in_reads t st : gather_in r st t = option_map (fun ab => fst ab ++ tool_ins (snd ab)) (reads st t).
  Proof.
    unfold gather_in, reads.
    destruct (gather (read r st) (all_paths r t)); [|reflexivity]. destruct (gather (read r st) (tool_paths r t)); reflexivity.
  Qed.

  Lemma reads_some st t a b : reads st t = Some (a, b) ->
    gather (read r st) (all_paths r t) = Some a /\ gather (read r st) (tool_paths r t) = Some b.
  Proof.
    unfold reads. destruct (gather (read r st) (all_paths r t)); [|discriminate].
    destruct (gather (read r st) (tool_paths r t)); [|discriminate]. intros H. injection H as -> ->. split; reflexivity.
  Qed.

  Lemma reads_named st t a b : In t (r_targets r) -> reads st t = Some (a, b) -> named a.
  Proof.
    intros Ht Er. destruct (reads_some _ _ _ _ Er) as [Eg _]. apply gather_paths in Eg. pose proof (Hnamed t Ht) as Hn.
    rewrite <- Eg in Hn. unfold named. rewrite Forall_forall in *. intros pn Hin. apply Hn. apply in_map. exact Hin.
  Qed.

  Lemma reads_tool_paths st t a b : reads st t = Some (a, b) -> map fst b = tool_paths r t.
  Proof. intros Er. destruct (reads_some _ _ _ _ Er) as [_ Eb]. eapply gather_paths. exact Eb. Qed.

  Lemma outputs_nodup done t todo : r_targets r = done ++ t :: todo -> NoDup (outputs t).
  Proof.
    intros Hs. pose proof (wf_paths r W) as Hnd. rewrite Hs, flat_map_app in Hnd.
    apply nodup_app_r in Hnd. cbn [flat_map] in Hnd. apply nodup_app_l in Hnd.
    unfold claimed in Hnd. apply nodup_app_l in Hnd.
    unfold out_rels in Hnd. eapply NoDup_map_inv. exact Hnd.
  Qed.

  Lemma read_good st p n : Trust st -> read r st p = Some n -> good n.
  Proof.
    intros T. unfold read. destruct (fst p).
    - destruct (s_outs st (snd p)) as [e|] eqn:E; cbn [option_map]; [|discriminate].
      intros H. injection H as <-. eapply (tr_good st T). exact E.
    - destruct (alookup (snd p) (r_files r)); cbn [option_map]; [|discriminate]. intros H. injection H as <-. apply good_file.
  Qed.

  Lemma gather_good st l ins : Trust st -> gather (read r st) l = Some ins -> Forall good (map snd ins).
  Proof.
    intros T. revert ins. induction l as [|p l IH]; intros ins; cbn [gather].
    - intros H. injection H as <-. constructor.
    - destruct (read r st p) as [n|] eqn:En; [|discriminate]. destruct (gather (read r st) l) as [ns|]; [|discriminate].
      intros H. injection H as <-. cbn [map snd]. constructor; [eapply read_good; eassumption|apply IH; reflexivity].
  Qed.

  (* at the turn of a target that reads the names of its tools' outputs, their paths are the observed ones *)
  Definition turn_ok (st : store) (t : target) : Prop :=
    tool_blind t = false -> forall sk, source_key r st t = Some sk -> Obs (t_defkey t) sk (tool_paths r t).

  (* what a target reads at its turn is something its source key stands for *)
  Lemma reads_stands st t a b : In t (r_targets r) -> Trust st -> turn_ok st t -> reads st t = Some (a, b) ->
    stands_for t (skey2 a b) a b.
  Proof.
    intros Ht T Hturn Er. destruct (reads_some _ _ _ _ Er) as [Eg Eb].
    split; [reflexivity|]. split; [eapply gather_good; eassumption|]. split; [eapply gather_good; eassumption|].
    split; [eapply reads_named; eassumption|].
    intros Hb. rewrite (reads_tool_paths _ _ _ _ Er). apply Hturn; [exact Hb|]. rewrite (source_key_reads t st Ht), Er. reflexivity.
  Qed.

  Lemma stands_good t sk a b : stands_for t sk a b -> Forall good (map snd (tmp_ins (cmd_ins t a b))).
  Proof.
    intros (_ & Hga & Hgb & _). rewrite tmp_ins_snd, cmd_ins_snd. destruct (could_modify t); [exact Hga|].
    apply Forall_app. split; assumption.
  Qed.

  Definition AllGood (st : store) : Prop := forall rel e, s_outs st rel = Some e -> good (e_node e).

  Lemma move_output_good rk t st on : AllGood st -> good (snd on) -> AllGood (move_output rk t st on).
  Proof.
    intros G Hn rel e H. unfold move_output in H. rewrite set_out_outs in H.
    destruct (str_eqb rel (out_rel t (fst on))); [|eapply G; exact H].
    injection H as <-. cbn [e_node].
    destruct (s_outs st (out_rel t (fst on))) as [e'|] eqn:Ee; [|exact Hn].
    destruct (str_eqb (stream (e_node e')) (stream (snd on))); [eapply G; exact Ee|exact Hn].
  Qed.

  (* after the moves every output holds exactly the new tree, with the record: an old output that was kept
     because its path hash equals the new one IS the new one (good_inj).  `news` may name an output twice
     as long as it is with the same tree (f: the temporary directory) *)
  Lemma move_fold_exact rk t news (f : str -> option node) : forall st, AllGood st -> Forall good (map snd news) ->
    (forall o n, In (o, n) news -> f o = Some n) ->
    forall o n, In (o, n) news ->
    s_outs (fold_left (move_output rk t) news st) (out_rel t o) = Some (mkE n (Some rk)).
  Proof.
    induction news as [|[o' n'] news IH]; intros st G Hg Hfun o n Hin; [destruct Hin|].
    cbn [fold_left]. cbn [map fst snd] in Hg. inversion Hg as [|? ? Hg1 Hg2]; subst.
    assert (Hstep : s_outs (move_output rk t st (o', n')) (out_rel t o') = Some (mkE n' (Some rk))).
    { unfold move_output. cbn [fst snd]. rewrite set_out_same.
      destruct (s_outs st (out_rel t o')) as [e|] eqn:Ee; [|reflexivity].
      destruct (str_eqb_spec (stream (e_node e)) (stream n')) as [Es|_]; [|reflexivity].
      rewrite (good_inj (e_node e) n' (G _ _ Ee) Hg1 Es). reflexivity. }
    destruct (in_dec (list_eq_dec N.eq_dec) o (map fst news)) as [Hlater|Hnot].
    - apply in_map_iff in Hlater. destruct Hlater as [[o2 n2] [E2 Hin2]]. cbn [fst] in E2. subst o2.
      assert (n2 = n).
      { pose proof (Hfun o n Hin) as H1. pose proof (Hfun o n2 (or_intror Hin2)) as H2. congruence. }
      subst n2. apply IH; try assumption.
      + apply move_output_good; assumption.
      + intros a b Hab. apply Hfun. right. exact Hab.
    - destruct Hin as [E|Hin].
      + injection E as -> ->. rewrite move_fold_outs; [exact Hstep|].
        intros Hi. apply in_map_iff in Hi. destruct Hi as [o2 [Hrel Ho2]]. apply join_inj in Hrel. subst o2. contradiction.
      + exfalso. apply Hnot. change o with (fst (o, n)). apply in_map. exact Hin.
  Qed.

  Lemma alookup_fun {A} (l : list (str * A)) (f : str -> option A) k v :
    (forall o n, In (o, n) l -> f o = Some n) -> In (k, v) l -> alookup k l = Some v.
  Proof.
    intros Hfun Hin. assert (Hk : In k (map fst l)) by (change k with (fst (k, v)); apply in_map; exact Hin).
    destruct (alookup_names l k Hk) as [v' Hv']. rewrite Hv'. apply alookup_some_in in Hv'.
    pose proof (Hfun _ _ Hin). pose proof (Hfun _ _ Hv'). congruence.
  Qed.

  Lemma nodup_fun {A} (l : list (str * A)) : NoDup (map fst l) -> forall o n, In (o, n) l -> alookup o l = Some n.
  Proof. intros Hnd o n Hin. apply alookup_in; assumption. Qed.

  Lemma collect_fun tmp outs moved : collect tmp outs = Some moved -> forall o n, In (o, n) moved -> alookup o tmp = Some n.
  Proof.
    revert moved. induction outs as [|x outs IH]; intros moved; cbn [collect].
    - intros H. injection H as <-. intros o n [].
    - destruct (alookup x tmp) as [v|] eqn:Ev; [|discriminate]. destruct (collect tmp outs) as [l|]; [|discriminate].
      intros H. injection H as <-. intros o n [E|Hin]; [injection E as <- <-; exact Ev|eapply IH; [reflexivity|exact Hin]].
  Qed.

  Lemma move_fold_cache rk t news : forall st, s_cache (fold_left (move_output rk t) news st) = s_cache st.
  Proof. induction news as [|on news IH]; intros st; cbn [fold_left]; [reflexivity|]. rewrite IH. reflexivity. Qed.

  Lemma restore_fold_outs rk t cached : forall st rel, ~ In rel (map (out_rel t) (map fst cached)) ->
    s_outs (fold_left (restore_output rk t) cached st) rel = s_outs st rel.
  Proof.
    induction cached as [|on cached IH]; intros st rel Hn; cbn [fold_left]; [reflexivity|].
    rewrite IH by (intros H; apply Hn; right; exact H).
    unfold restore_output. apply set_out_other. intros ->. apply Hn. left. reflexivity.
  Qed.
  Lemma restore_fold_cache rk t cached : forall st, s_cache (fold_left (restore_output rk t) cached st) = s_cache st.
  Proof. induction cached as [|on cached IH]; intros st; cbn [fold_left]; [reflexivity|]. rewrite IH. reflexivity. Qed.
  Lemma restore_fold_exact rk t cached : forall st, NoDup (map fst cached) -> forall o n, In (o, n) cached ->
    s_outs (fold_left (restore_output rk t) cached st) (out_rel t o) = Some (mkE n (Some rk)).
  Proof.
    induction cached as [|[o' n'] cached IH]; intros st Hnd o n Hin; [destruct Hin|].
    cbn [fold_left]. cbn [map fst] in Hnd. inversion Hnd as [|? ? Hnot Hnd']; subst.
    destruct Hin as [E|Hin]; [|apply IH; assumption].
    injection E as -> ->. rewrite restore_fold_outs.
    - unfold restore_output. cbn [fst snd]. apply set_out_same.
    - intros Hi. apply in_map_iff in Hi. destruct Hi as [o2 [Hrel Ho2]]. apply join_inj in Hrel. subst o2. contradiction.
  Qed.

  (* the outputs named by `news` now hold exactly the result of the build, under its record: Trust *)
  Lemma trust_written st st' t a b news po : Trust st -> U t ->
    stands_for t (skey2 a b) a b -> result t (tmp_ins (cmd_ins t a b)) = Some news ->
    (forall o n, In (o, n) news -> alookup o news = Some n) ->
    po = (if could_modify t then map fst news else []) ->
    (could_modify t = false -> map fst news = outputs t) ->
    (forall o n, In (o, n) news -> s_outs st' (out_rel t o) = Some (mkE n (Some ((t_defkey t, po), skey2 a b)))) ->
    (forall rel, ~ In rel (map (out_rel t) (map fst news)) -> s_outs st' rel = s_outs st rel) ->
    s_cache st' = s_cache st -> Trust st'.
  Proof.
    intros T Ut Hst Ea Hfun Hpo Hplain Hexact Hframe Hcache.
    pose proof (act_good t _ _ Ut (stands_good _ _ _ _ Hst) Ea) as Hng.
    constructor.
    - intros rel e H. destruct (in_dec (list_eq_dec N.eq_dec) rel (map (out_rel t) (map fst news))) as [Hi|Hni].
      + apply in_map_iff in Hi. destruct Hi as [o [<- Ho]]. apply in_map_iff in Ho. destruct Ho as [[o1 n] [<- Hon]].
        cbn [fst] in H. rewrite (Hexact _ _ Hon) in H. injection H as <-. cbn [e_node].
        rewrite Forall_forall in Hng. apply Hng. change n with (snd (o1, n)). apply in_map. exact Hon.
      + rewrite Hframe in H by exact Hni. eapply (tr_good _ T). exact H.
    - intros rel e dk po' sk H Hr t' o' Ut' Hdk Ho' Hrel.
      destruct (in_dec (list_eq_dec N.eq_dec) rel (map (out_rel t) (map fst news))) as [Hi|Hni].
      + apply in_map_iff in Hi. destruct Hi as [o [Hrel2 Ho]]. apply in_map_iff in Ho. destruct Ho as [[o1 n] [<- Hon]].
        cbn [fst] in Hrel2. rewrite <- Hrel2 in H. rewrite (Hexact _ _ Hon) in H. injection H as <-. cbn [e_rec e_node] in *.
        injection Hr as <- <- <-.
        assert (t' = t) by (apply U_inj; assumption). subst t'. rewrite <- Hrel2 in Hrel. apply join_inj in Hrel. subst o'.
        intros a' b' Hst'. rewrite (same_result t _ a b a' b' Hst Hst').
        exists news. split; [exact Ea|]. split; [apply Hfun; exact Hon|].
        intros Hcm. rewrite Hpo, Hcm. reflexivity.
      + rewrite Hframe in H by exact Hni. eapply (tr_rec _ T); eassumption.
    - intros l dk po' sk cached H. rewrite Hcache in H. eapply (tr_cache _ T). exact H.
  Qed.

  (* storeInCache: the entry stored under (label, rule key, source key) is the result of the action *)
  Lemma trust_set_cache st t a b news : Trust st -> U t -> could_modify t = false -> stands_for t (skey2 a b) a b ->
    act (t_kind t) (outputs t) (tmp_ins (a ++ tool_ins b)) = Some news ->
    Trust (set_cache st (t_label t) ((t_defkey t, []), skey2 a b) news).
  Proof.
    intros T Ut Hcm Hst Ea. constructor.
    - intros rel e H. eapply (tr_good _ T). exact H.
    - intros rel e dk po sk H. eapply (tr_rec _ T). exact H.
    - intros l dk po sk cached H t' a' b' Ut' Hl Hdk Hst'. cbn [s_cache set_cache] in H.
      destruct (str_eqb_spec l (t_label t)) as [El|_]; cbn [andb] in H.
      + destruct (rkey_eqb_spec ((dk, po), sk) ((t_defkey t, []), skey2 a b)) as [Ek|_].
        * injection H as <-. injection Ek as Edk _ Esk.
          assert (t' = t) by (apply U_inj; congruence). subst t'. subst sk.
          pose proof (same_result t _ a b a' b' Hst Hst') as Hsame.
          unfold result, cmd_ins in Hsame. rewrite Hcm in Hsame. rewrite Hsame. exact Ea.
        * eapply (tr_cache _ T); eassumption.
      + eapply (tr_cache _ T); eassumption.
  Qed.

  Lemma current_outs_exact t st news : map fst news = outputs t ->
    (forall o n, In (o, n) news -> exists rc, s_outs st (out_rel t o) = Some (mkE n rc)) ->
    current_outs t st = news.
  Proof.
    unfold current_outs. intros <-. induction news as [|[o n] news IH]; intros H; [reflexivity|].
    cbn [map fst flat_map]. destruct (H o n (or_introl eq_refl)) as [rc ->]. cbn [e_node app].
    f_equal. apply IH. intros o' n' Hin. apply H. right. exact Hin.
  Qed.

  (* ---------------------------------------------------------------------------------------- *)
  (* one step, seen from one side: the result is a function of the inputs read from the store *)

  Definition rule_spec (rn rn' : run) (t : target) : Prop :=
    Trust (rn_st rn')
    /\ (forall rel, ~ In rel (claimed r t) -> s_outs (rn_st rn') rel = s_outs (rn_st rn) rel)
    /\ match reads (rn_st rn) t with
       | Some (a, b) =>
           match result t (tmp_ins (cmd_ins t a b)) with
           | Some news => rn_failed rn' = rn_failed rn
                          /\ full_outs (rn_st rn') t = map fst news
                          /\ forall o, In o (map fst news) -> out_of (rn_st rn') t o = alookup o news
           | None => rn_failed rn' = t_label t :: rn_failed rn
           end
       | None => rn_failed rn' = t_label t :: rn_failed rn
       end.

  Lemma claimed_frame t (P : str -> Prop) : (forall rel, ~ In rel (out_rels t) -> P rel) -> forall rel, ~ In rel (claimed r t) -> P rel.
  Proof. intros H rel Hn. apply H. intros Hi. apply Hn. apply out_rels_claimed. exact Hi. Qed.

  Lemma build_rule_spec c rn done t todo : r_targets r = done ++ t :: todo -> is_filegroup t = false -> could_modify t = false ->
    turn_ok (rn_st rn) t -> Trust (rn_st rn) -> rule_spec rn (build_rule c r rn t) t.
  Proof.
    intros Hs Hfg Hcm Hturn T.
    assert (Ht : In t (r_targets r)) by (rewrite Hs; apply in_or_app; right; left; reflexivity).
    pose proof (HU t Ht) as Ut.
    pose proof (outputs_nodup done t todo Hs) as Hnd.
    unfold rule_spec, build_rule.
    assert (Hres : forall ins, result t ins = act (t_kind t) (outputs t) ins) by (intros ins; unfold result; rewrite Hcm; reflexivity).
    assert (Hci : forall a b, cmd_ins t a b = a ++ tool_ins b) by (intros a b; unfold cmd_ins; rewrite Hcm; reflexivity).
    assert (Hfull : forall st, full_outs st t = outputs t) by (intros st; unfold full_outs; rewrite Hcm; reflexivity).
    pose proof (source_key_reads t (rn_st rn) Ht) as Hsk.
    pose proof (fun a b => reads_stands (rn_st rn) t a b Ht T Hturn) as Hstand. clear Hturn.
    destruct (needs_build r (rn_st rn) t) eqn:Enb; cbn [negb].
    - rewrite Hsk. destruct (reads (rn_st rn) t) as [[a b]|] eqn:Er; cbn [option_map fst snd].
      2:{ unfold fail_run. cbn [rn_st rn_failed]. split; [apply trust_remove; exact T|].
          split; [apply claimed_frame; intros rel Hn; apply remove_outputs_outs; exact Hn|reflexivity]. }
      pose proof (Hstand a b eq_refl) as Hst. rewrite Hres, Hci.
      set (rk := ((t_defkey t, @nil str), skey2 a b)).
      destruct (if c then s_cache (rn_st rn) (t_label t) rk else None) as [cached|] eqn:Ec.
      + (* restored from the cache *)
        assert (Hc : s_cache (rn_st rn) (t_label t) rk = Some cached) by (destruct c; [exact Ec|discriminate]).
        pose proof (tr_cache _ T _ _ _ _ _ Hc t a b Ut eq_refl eq_refl Hst) as Ea. rewrite Ea.
        pose proof (act_names _ _ _ _ Ea) as Hnames. cbn [rn_st rn_failed].
        set (st' := set_meta (fold_left (restore_output rk t) cached (rn_st rn)) (t_label t)).
        assert (Hexact : forall o n, In (o, n) cached -> s_outs st' (out_rel t o) = Some (mkE n (Some rk))).
        { intros o n Hin. subst st'. rewrite set_meta_outs. apply restore_fold_exact; [rewrite Hnames; exact Hnd|exact Hin]. }
        assert (Hframe : forall rel, ~ In rel (map (out_rel t) (map fst cached)) -> s_outs st' rel = s_outs (rn_st rn) rel).
        { intros rel Hn. subst st'. rewrite set_meta_outs. apply restore_fold_outs. exact Hn. }
        split; [|split; [|split; [|split]]].
        * apply (trust_written (rn_st rn) st' t a b cached []); try assumption.
          -- rewrite Hres, Hci. exact Ea.
          -- apply nodup_fun. rewrite Hnames. exact Hnd.
          -- rewrite Hcm. reflexivity.
          -- intros _. exact Hnames.
          -- subst st'. cbn [s_cache set_meta set_meta_dyn]. apply restore_fold_cache.
        * apply claimed_frame. intros rel Hn. apply Hframe. rewrite Hnames. exact Hn.
        * reflexivity.
        * rewrite Hfull. symmetry. exact Hnames.
        * intros o Ho. destruct (alookup_names cached o Ho) as [n Hn]. rewrite Hn.
          unfold out_of. rewrite (Hexact o n (alookup_some_in _ _ _ Hn)). reflexivity.
      + (* the command runs *)
        unfold run_action. rewrite (gather_in_reads t _), Er. cbn [option_map fst snd].
        destruct (act (t_kind t) (outputs t) (tmp_ins (a ++ tool_ins b))) as [news|] eqn:Ea.
        2:{ cbn [rn_st rn_failed]. split; [apply trust_remove; exact T|].
            split; [apply claimed_frame; intros rel Hn; apply remove_outputs_outs; exact Hn|reflexivity]. }
        cbn [rn_st rn_failed].
        pose proof (act_names _ _ _ _ Ea) as Hnames.
        assert (Ea' : result t (tmp_ins (cmd_ins t a b)) = Some news) by (rewrite Hres, Hci; exact Ea).
        pose proof (act_good t _ _ Ut (stands_good _ _ _ _ Hst) Ea') as Hng.
        set (st0 := set_meta (rn_st rn) (t_label t)).
        set (st1 := fold_left (move_output rk t) news st0).
        assert (G0 : AllGood st0) by (intros rel e H; eapply (tr_good _ T); exact H).
        assert (Hfun : forall o n, In (o, n) news -> alookup o news = Some n) by (apply nodup_fun; rewrite Hnames; exact Hnd).
        assert (Hexact : forall o n, In (o, n) news -> s_outs st1 (out_rel t o) = Some (mkE n (Some rk))).
        { apply (move_fold_exact rk t news (fun o => alookup o news)); assumption. }
        assert (Hframe : forall rel, ~ In rel (map (out_rel t) (map fst news)) -> s_outs st1 rel = s_outs (rn_st rn) rel).
        { intros rel Hn. subst st1. rewrite move_fold_outs by exact Hn. reflexivity. }
        assert (T1 : Trust st1).
        { apply (trust_written (rn_st rn) st1 t a b news []); try assumption.
          - rewrite Hcm. reflexivity.
          - intros _. exact Hnames.
          - subst st1. rewrite move_fold_cache. reflexivity. }
        assert (Hco : current_outs t st1 = news).
        { apply current_outs_exact; [exact Hnames|]. intros o n Hin. eexists. apply Hexact. exact Hin. }
        assert (Houts : forall o, In o (map fst news) -> out_of st1 t o = alookup o news).
        { intros o Ho. destruct (alookup_names news o Ho) as [n Hn]. rewrite Hn.
          unfold out_of. rewrite (Hexact o n (alookup_some_in _ _ _ Hn)). reflexivity. }
        destruct c.
        * rewrite Hco. split; [apply trust_set_cache; assumption|].
          split; [apply claimed_frame; intros rel Hn; cbn [s_outs set_cache]; apply Hframe; rewrite Hnames; exact Hn|].
          split; [reflexivity|]. split; [rewrite Hfull; symmetry; exact Hnames|].
          intros o Ho. unfold out_of. cbn [s_outs set_cache]. apply Houts. exact Ho.
        * split; [exact T1|]. split; [apply claimed_frame; intros rel Hn; apply Hframe; rewrite Hnames; exact Hn|].
          split; [reflexivity|]. split; [rewrite Hfull; symmetry; exact Hnames|exact Houts].
    - (* skipped as up to date: Trust says the outputs are what the action would produce *)
      split; [exact T|]. split; [reflexivity|].
      unfold needs_build in Enb. apply orb_false_elim in Enb. destruct Enb as [_ Enb].
      destruct (common_rec (rn_st rn) (out_rels t)) as [rk|] eqn:Ecr; [|discriminate].
      apply orb_false_elim in Enb. destruct Enb as [Edk Esrc].
      apply negb_false_iff in Edk. apply str_eqb_eq in Edk.
      rewrite Hsk in Esrc. destruct (reads (rn_st rn) t) as [[a b]|] eqn:Er; cbn [option_map fst snd] in Esrc; [|discriminate].
      apply negb_false_iff in Esrc. destruct (skey_eqb_spec (snd rk) (skey2 a b)) as [Ek|]; [|discriminate].
      pose proof (Hstand a b eq_refl) as Hst.
      destruct rk as [[dk po] sk]. unfold rk_def in Edk. cbn [fst snd] in *. subst dk sk.
      assert (Hper : forall o, In o (outputs t) -> exists e, s_outs (rn_st rn) (out_rel t o) = Some e
                       /\ exists news, result t (tmp_ins (cmd_ins t a b)) = Some news /\ alookup o news = Some (e_node e)).
      { intros o Ho. pose proof (common_rec_each _ _ _ Ecr (out_rel t o)) as Hrec.
        unfold rec_at in Hrec. specialize (Hrec (in_map _ _ _ Ho)).
        destruct (s_outs (rn_st rn) (out_rel t o)) as [e|] eqn:Ee; [|discriminate].
        exists e. split; [reflexivity|].
        assert (Hro : In o (rec_outs t po)) by (unfold rec_outs; rewrite Hcm; exact Ho).
        destruct (tr_rec _ T _ _ _ _ _ Ee Hrec t o Ut eq_refl Hro eq_refl a b Hst) as (news & E1 & E2 & _).
        exists news. split; assumption. }
      assert (Hne : exists o, In o (outputs t)).
      { pose proof (out_rels_nonempty t (wf_has r W t Ht) Hfg) as Hne. unfold out_rels in Hne.
        destruct (outputs t) as [|o os]; [exfalso; apply Hne; reflexivity|]. exists o. left. reflexivity. }
      destruct Hne as [o0 Ho0]. destruct (Hper o0 Ho0) as (e0 & _ & news & Ea & _). rewrite Ea.
      split; [reflexivity|]. rewrite Hres in Ea. pose proof (act_names _ _ _ _ Ea) as Hnames.
      split; [rewrite Hfull; symmetry; exact Hnames|].
      intros o Ho. rewrite Hnames in Ho. destruct (Hper o Ho) as (e & Ee & news' & Ea' & Hl).
      rewrite Hres in Ea'. assert (news' = news) by congruence. subst news'. unfold out_of. rewrite Ee, Hl. reflexivity.
  Qed.

  (* a target with output_dirs that does not go through stale_flow: built from its declared outputs, or both
     checks pass and Trust says that the outputs named by the metadata are those a build would produce *)
  Lemma build_od_spec rn done t todo : r_targets r = done ++ t :: todo -> is_filegroup t = false -> could_modify t = true ->
    stale_flow r (rn_st rn) t = false -> turn_ok (rn_st rn) t ->
    Trust (rn_st rn) -> rule_spec rn (build_rule_od r rn t) t.
  Proof.
    intros Hs Hfg Hcm Hq Hturn T.
    assert (Ht : In t (r_targets r)) by (rewrite Hs; apply in_or_app; right; left; reflexivity).
    pose proof (HU t Ht) as Ut.
    unfold rule_spec, build_rule_od.
    pose proof (source_key_reads t (rn_st rn) Ht) as Hsk.
    pose proof (fun a b => reads_stands (rn_st rn) t a b Ht T Hturn) as Hstand. clear Hturn.
    assert (Hci : forall a b, cmd_ins t a b = a) by (intros a b; unfold cmd_ins; rewrite Hcm; reflexivity).
    assert (Hfull : forall st, full_outs st t = meta_outs st t) by (intros st; unfold full_outs; rewrite Hcm; reflexivity).
    assert (Hclaim : forall rel, ~ In rel (claimed r t) ->
              ~ In rel (map (out_rel t) (outputs t)) /\ ~ In rel (map (out_rel t) (found_names r t))).
    { intros rel Hn. unfold claimed in Hn. rewrite Hcm in Hn. split; intros Hi; apply Hn; apply in_or_app; [left|right]; exact Hi. }
    unfold stale_flow in Hq. rewrite Hcm in Hq. cbn [andb] in Hq.
    destruct (needs_build r (rn_st rn) t) eqn:Enb.
    - (* rebuilt from the declared outputs *)
      destruct (rebuild_od_frame r rn t (outputs t)) as [Hfr _].
      assert (Hframe : forall rel, ~ In rel (claimed r t) -> s_outs (rn_st (rebuild_od r rn t (outputs t))) rel = s_outs (rn_st rn) rel).
      { intros rel Hn. destruct (Hclaim rel Hn). apply Hfr; assumption. }
      split; [|split; [exact Hframe|]]; clear Hframe Hfr; unfold rebuild_od; rewrite Hsk;
        destruct (reads (rn_st rn) t) as [[a b]|] eqn:Er; cbn [option_map fst snd].
      2:{ unfold fail_run. cbn [rn_st]. apply trust_remove_outs. exact T. }
      3:{ reflexivity. }
      + destruct (reads_some _ _ _ _ Er) as [Eg _]. pose proof (Hstand a b eq_refl) as Hst.
        unfold run_od. rewrite Eg. destruct (od_cmd (outputs t) (tmp_ins a)) as [[found news0]|] eqn:Ec.
        2:{ cbn [rn_st]. apply trust_remove_outs. exact T. }
        destruct (collect (found ++ news0) (add_outs (map fst found) (outputs t))) as [moved|] eqn:Eco.
        2:{ cbn [rn_st]. apply trust_remove_outs. apply trust_set_meta_dyn. exact T. }
        cbn [rn_st].
        assert (Ea : result t (tmp_ins (cmd_ins t a b)) = Some moved) by (rewrite Hci; unfold result; rewrite Hcm, Ec; exact Eco).
        pose proof (act_good t _ _ Ut (stands_good _ _ _ _ Hst) Ea) as Hng.
        pose proof (collect_names _ _ _ Eco) as Hnames.
        pose proof (collect_fun _ _ _ Eco) as Hfun.
        set (st0 := set_meta_dyn (rn_st rn) (t_label t) (map fst found)).
        assert (G0 : AllGood st0) by (intros rel e H; eapply (tr_good _ T); exact H).
        apply (trust_written (rn_st rn) _ t a b moved (map fst moved)); try assumption.
        * intros o n Hin. eapply alookup_fun; [exact Hfun|exact Hin].
        * rewrite Hcm. reflexivity.
        * intros E. congruence.
        * rewrite Hnames. apply (move_fold_exact _ t moved (fun o => alookup o (found ++ news0))); assumption.
        * intros rel Hn. rewrite move_fold_outs by exact Hn. reflexivity.
        * rewrite move_fold_cache. reflexivity.
      + destruct (reads_some _ _ _ _ Er) as [Eg _]. pose proof (Hstand a b eq_refl) as Hst.
        unfold run_od. rewrite Eg, Hci. unfold result. rewrite Hcm.
        destruct (od_cmd (outputs t) (tmp_ins a)) as [[found news0]|] eqn:Ec; [|reflexivity].
        destruct (collect (found ++ news0) (add_outs (map fst found) (outputs t))) as [moved|] eqn:Eco; [|reflexivity].
        cbn [rn_st rn_failed].
        assert (Ea : result t (tmp_ins (cmd_ins t a b)) = Some moved) by (rewrite Hci; unfold result; rewrite Hcm, Ec; exact Eco).
        pose proof (act_good t _ _ Ut (stands_good _ _ _ _ Hst) Ea) as Hng.
        pose proof (collect_names _ _ _ Eco) as Hnames.
        pose proof (collect_fun _ _ _ Eco) as Hfun.
        set (st0 := set_meta_dyn (rn_st rn) (t_label t) (map fst found)).
        assert (G0 : AllGood st0) by (intros rel e H; eapply (tr_good _ T); exact H).
        split; [reflexivity|]. split.
        * rewrite Hfull. unfold meta_outs. rewrite move_fold_dyn. subst st0. cbn [s_dyn set_meta_dyn]. unfold upd.
          rewrite str_eqb_refl. symmetry. exact Hnames.
        * intros o Ho. destruct (alookup_names moved o Ho) as [n Hn]. rewrite Hn. unfold out_of.
          rewrite (move_fold_exact _ t moved (fun o => alookup o (found ++ news0)) st0 G0 Hng Hfun o n (alookup_some_in _ _ _ Hn)).
          reflexivity.
    - (* both checks passed *)
      cbn [negb andb] in Hq. rewrite Hq.
      split; [exact T|]. split; [reflexivity|].
      unfold needs_build_post in Hq. apply orb_false_elim in Hq. destruct Hq as [_ Hq].
      destruct (common_rec (rn_st rn) (map (out_rel t) (meta_outs (rn_st rn) t))) as [rk|] eqn:Ecr; [|discriminate].
      apply orb_false_elim in Hq. destruct Hq as [Edk Esrc].
      apply negb_false_iff in Edk. apply andb_prop in Edk. destruct Edk as [Edk Epo].
      apply str_eqb_eq in Edk. destruct (strs_eqb_spec (rk_outs rk) (meta_outs (rn_st rn) t)) as [Epo'|]; [|discriminate].
      rewrite Hsk in Esrc. destruct (reads (rn_st rn) t) as [[a b]|] eqn:Er; cbn [option_map fst snd] in Esrc; [|discriminate].
      apply negb_false_iff in Esrc. destruct (skey_eqb_spec (snd rk) (skey2 a b)) as [Ek|]; [|discriminate].
      pose proof (Hstand a b eq_refl) as Hst.
      destruct rk as [[dk po] sk]. unfold rk_def, rk_outs in *. cbn [fst snd] in *. subst dk sk po.
      assert (Hper : forall o, In o (meta_outs (rn_st rn) t) -> exists e, s_outs (rn_st rn) (out_rel t o) = Some e
                       /\ exists news, result t (tmp_ins (cmd_ins t a b)) = Some news /\ alookup o news = Some (e_node e)
                                       /\ meta_outs (rn_st rn) t = map fst news).
      { intros o Ho. pose proof (common_rec_each _ _ _ Ecr (out_rel t o)) as Hrec.
        unfold rec_at in Hrec. specialize (Hrec (in_map _ _ _ Ho)).
        destruct (s_outs (rn_st rn) (out_rel t o)) as [e|] eqn:Ee; [|discriminate].
        exists e. split; [reflexivity|].
        assert (Hro : In o (rec_outs t (meta_outs (rn_st rn) t))) by (unfold rec_outs; rewrite Hcm; exact Ho).
        destruct (tr_rec _ T _ _ _ _ _ Ee Hrec t o Ut eq_refl Hro eq_refl a b Hst) as (news & E1 & E2 & E3).
        exists news. split; [exact E1|]. split; [exact E2|]. apply E3. exact Hcm. }
      assert (Hne : exists o, In o (meta_outs (rn_st rn) t)).
      { pose proof (out_rels_nonempty t (wf_has r W t Ht) Hfg) as Hne. unfold out_rels in Hne.
        destruct (outputs t) as [|o os] eqn:Eo; [exfalso; apply Hne; reflexivity|]. exists o.
        unfold meta_outs. apply add_outs_In. right. rewrite Eo. left. reflexivity. }
      destruct Hne as [o0 Ho0]. destruct (Hper o0 Ho0) as (e0 & _ & news & Ea & _ & Hmo). rewrite Ea.
      split; [reflexivity|]. split; [rewrite Hfull; exact Hmo|].
      intros o Ho. rewrite <- Hmo in Ho. destruct (Hper o Ho) as (e & Ee & news' & Ea' & Hl & _).
      assert (news' = news) by congruence. subst news'. unfold out_of. rewrite Ee, Hl. reflexivity.
  Qed.

  (* ---------------------------------------------------------------------------------------- *)
  (* filegroups *)

  Fixpoint missing (t : target) (fs : list str) : nat :=
    match fs with
    | [] => 0
    | f :: fs' => match fg_src r (join (t_pkg t) f) with Some _ => missing t fs' | None => S (missing t fs') end
    end.

  Definition fg_step (t : target) (rn : run) (f : str) : run :=
    let rel := join (t_pkg t) f in
    match fg_src r rel with
    | None => fail_run rn t (rn_st rn)
    | Some c =>
        let st := rn_st rn in
        match s_outs st rel with
        | Some e => if str_eqb (stream (e_node e)) (stream c) then rn
                    else mkRun (set_out st rel (Some (mkE c None))) (rn_log rn) (rn_failed rn)
        | None => mkRun (set_out st rel (Some (mkE c None))) (rn_log rn) (rn_failed rn)
        end
    end.

  Lemma build_filegroup_fold t rn : build_filegroup r t rn = fold_left (fg_step t) (outputs t) rn.
  Proof. reflexivity. Qed.

  Lemma fg_fold_spec t fs : forall rn, NoDup fs -> Trust (rn_st rn) ->
    (forall f n, In f fs -> fg_src r (join (t_pkg t) f) = Some n -> good n) ->
    let rn' := fold_left (fg_step t) fs rn in
    Trust (rn_st rn')
    /\ rn_failed rn' = repeat (t_label t) (missing t fs) ++ rn_failed rn
    /\ (forall f c, In f fs -> fg_src r (join (t_pkg t) f) = Some c ->
          out_of (rn_st rn') t f = Some c).
  Proof.
    induction fs as [|f fs IH]; intros rn Hnd T Hgs; cbn [fold_left].
    - cbn zeta. cbn [missing repeat app]. split; [exact T|]. split; [reflexivity|]. intros f c [].
    - inversion Hnd as [|? ? Hnot Hnd']; subst.
      assert (H1 : Trust (rn_st (fg_step t rn f))
                   /\ rn_failed (fg_step t rn f) = (match fg_src r (join (t_pkg t) f) with Some _ => [] | None => [t_label t] end) ++ rn_failed rn
                   /\ (forall c, fg_src r (join (t_pkg t) f) = Some c -> out_of (rn_st (fg_step t rn f)) t f = Some c)).
      { unfold fg_step. pose proof (Hgs f) as Hgf. destruct (fg_src r (join (t_pkg t) f)) as [c|].
        - assert (Hgc : good c) by (apply (Hgf c); [left; reflexivity|reflexivity]).
          destruct (s_outs (rn_st rn) (join (t_pkg t) f)) as [e|] eqn:Ee.
          + destruct (str_eqb_spec (stream (e_node e)) (stream c)) as [Es|_].
            * split; [exact T|]. split; [reflexivity|].
              intros c' E. injection E as <-. unfold out_of, out_rel. rewrite Ee. cbn [option_map].
              f_equal. apply good_inj; [eapply (tr_good _ T); exact Ee|exact Hgc|exact Es].
            * cbn [rn_st rn_failed]. split; [apply trust_set_node; assumption|]. split; [reflexivity|].
              intros c' E. injection E as <-. unfold out_of, out_rel. rewrite set_out_same. reflexivity.
          + cbn [rn_st rn_failed]. split; [apply trust_set_node; assumption|]. split; [reflexivity|].
            intros c' E. injection E as <-. unfold out_of, out_rel. rewrite set_out_same. reflexivity.
        - unfold fail_run. cbn [rn_st rn_failed]. split; [exact T|]. split; [reflexivity|]. intros c E. discriminate. }
      destruct H1 as (T1 & Hf1 & Ho1).
      assert (Hgs' : forall g n, In g fs -> fg_src r (join (t_pkg t) g) = Some n -> good n)
        by (intros g n Hg; apply Hgs; right; exact Hg).
      destruct (IH (fg_step t rn f) Hnd' T1 Hgs') as (T2 & Hf2 & Ho2).
      cbn zeta. split; [exact T2|]. split.
      + rewrite Hf2, Hf1. cbn [missing]. destruct (fg_src r (join (t_pkg t) f)); cbn [app]; [reflexivity|].
        change (t_label t :: rn_failed rn) with (repeat (t_label t) 1 ++ rn_failed rn).
        rewrite app_assoc, <- repeat_app. f_equal. f_equal. lia.
      + intros g c [<-|Hg] Hc; [|apply Ho2; assumption].
        (* later steps touch other paths only *)
        assert (Hfr : forall fs' rn0, ~ In f fs' ->
                  s_outs (rn_st (fold_left (fg_step t) fs' rn0)) (join (t_pkg t) f) = s_outs (rn_st rn0) (join (t_pkg t) f)).
        { induction fs' as [|h fs' IHf]; intros rn0 Hn; cbn [fold_left]; [reflexivity|].
          rewrite IHf by (intros Hi; apply Hn; right; exact Hi).
          assert (Hne : join (t_pkg t) f <> join (t_pkg t) h) by (intros E; apply join_inj in E; apply Hn; left; symmetry; exact E).
          unfold fg_step. destruct (fg_src r (join (t_pkg t) h)); [|reflexivity].
          destruct (s_outs (rn_st rn0) (join (t_pkg t) h)); [destruct (str_eqb _ _); [reflexivity|]|];
            cbn [rn_st]; apply set_out_other; exact Hne. }
        unfold out_of, out_rel in *. rewrite Hfr by exact Hnot. apply Ho1. exact Hc.
  Qed.

  (* ---------------------------------------------------------------------------------------- *)
  (* what a step should produce, as a function of the repository and the inputs in the store *)

  Definition outcome (st : store) (t : target) : option (list (str * node)) :=
    if is_filegroup t then
      match missing t (outputs t) with
      | O => Some (map (fun f => (f, match fg_src r (join (t_pkg t) f) with
                                     | Some c => c | None => File false [] end)) (outputs t))
      | S _ => None
      end
    else match reads st t with
         | Some (a, b) => result t (tmp_ins (cmd_ins t a b))
         | None => None
         end.
  Definition fail_count (t : target) : nat := if is_filegroup t then missing t (outputs t) else 1.

  Definition step_spec (rn rn' : run) (t : target) : Prop :=
    Trust (rn_st rn')
    /\ (forall rel, ~ In rel (claimed r t) -> s_outs (rn_st rn') rel = s_outs (rn_st rn) rel)
    /\ (forall l, l <> t_label t -> s_dyn (rn_st rn') l = s_dyn (rn_st rn) l)
    /\ match outcome (rn_st rn) t with
       | Some news => rn_failed rn' = rn_failed rn
                      /\ full_outs (rn_st rn') t = map fst news
                      /\ (forall o, In o (map fst news) -> In (out_rel t o) (claimed r t))
                      /\ forall o, In o (map fst news) -> out_of (rn_st rn') t o = alookup o news /\ alookup o news <> None
       | None => rn_failed rn' = repeat (t_label t) (fail_count t) ++ rn_failed rn
       end.

  Lemma missing_zero t fs : missing t fs = 0 -> forall f, In f fs -> exists c, fg_src r (join (t_pkg t) f) = Some c.
  Proof.
    induction fs as [|g fs IH]; cbn [missing]; intros H f Hin; [destruct Hin|].
    destruct (fg_src r (join (t_pkg t) g)) as [c|] eqn:E; [|discriminate].
    destruct Hin as [<-|Hin]; [exists c; exact E|apply IH; assumption].
  Qed.

  (* the outputs of a result lie inside what the target claims *)
  Lemma result_claimed st t a b news : In t (r_targets r) -> reads st t = Some (a, b) ->
    result t (tmp_ins (cmd_ins t a b)) = Some news -> forall o, In o (map fst news) -> In (out_rel t o) (claimed r t).
  Proof.
    intros Ht Er Ea o Ho. destruct (reads_some _ _ _ _ Er) as [Eg _].
    unfold result, cmd_ins in Ea. unfold claimed. destruct (could_modify t) eqn:Ecm.
    - destruct (od_cmd (outputs t) (tmp_ins a)) as [[found news0]|] eqn:Ec; [|discriminate].
      apply collect_names in Ea. rewrite Ea in Ho. apply add_outs_In in Ho.
      pose proof (od_cmd_found _ _ _ _ Ec) as Hf. subst found. rewrite (found_names_spec r st t a Eg) in Ho.
      apply in_or_app. destruct Ho as [Ho|Ho]; [right|left; unfold out_rels]; apply in_map; exact Ho.
    - apply act_names in Ea. rewrite Ea in Ho. apply in_or_app. left. unfold out_rels. apply in_map. exact Ho.
  Qed.

  Lemma build_one_spec c rn done t todo : r_targets r = done ++ t :: todo -> blocked r rn t = false ->
    stale_flow r (rn_st rn) t = false -> turn_ok (rn_st rn) t ->
    Trust (rn_st rn) -> step_spec rn (build_one c r rn t) t.
  Proof.
    intros Hs Hb Hq Hturn T. unfold build_one. rewrite Hb. unfold step_spec, outcome, fail_count.
    pose proof (outputs_nodup done t todo Hs) as Hnd.
    assert (Ht : In t (r_targets r)) by (rewrite Hs; apply in_or_app; right; left; reflexivity).
    destruct (is_filegroup t) eqn:Efg.
    - rewrite build_filegroup_fold.
      destruct (fg_fold_spec t (outputs t) rn Hnd T (fun f n Hf => Hsg t f n Ht Efg Hf)) as (T' & Hf & Ho).
      assert (Hcm : could_modify t = false) by (unfold could_modify; unfold is_filegroup in Efg; destruct (t_kind t); try discriminate; reflexivity).
      split; [exact T'|].
      split; [rewrite <- build_filegroup_fold; apply claimed_frame; apply build_filegroup_frame|].
      split; [intros l _; rewrite <- build_filegroup_fold, build_filegroup_dyn; reflexivity|].
      destruct (missing t (outputs t)) eqn:Em.
      + split; [exact Hf|].
        assert (Hnames : map fst (map (fun f => (f, match fg_src r (join (t_pkg t) f) with
                                     | Some c => c | None => File false [] end)) (outputs t)) = outputs t)
          by (rewrite map_map; cbn [fst]; apply map_id).
        rewrite Hnames. split; [unfold full_outs; rewrite Hcm; reflexivity|].
        split; [intros o Hin; apply out_rels_claimed; unfold out_rels; apply in_map; exact Hin|].
        intros o Hin. destruct (missing_zero t _ Em o Hin) as [c0 Hc].
        assert (Hl : alookup o (map (fun f => (f, match fg_src r (join (t_pkg t) f) with
                                     | Some c => c | None => File false [] end)) (outputs t)) = Some c0).
        { apply alookup_in.
          - rewrite Hnames. exact Hnd.
          - apply in_map_iff. exists o. rewrite Hc. split; [reflexivity|exact Hin]. }
        rewrite Hl. split; [apply Ho; assumption|discriminate].
      + exact Hf.
    - assert (Hspec : rule_spec rn (if could_modify t then build_rule_od r rn t else build_rule c r rn t) t
                      /\ forall l, l <> t_label t ->
                           s_dyn (rn_st (if could_modify t then build_rule_od r rn t else build_rule c r rn t)) l = s_dyn (rn_st rn) l).
      { destruct (could_modify t) eqn:Ecm.
        - split; [apply (build_od_spec rn done t todo); assumption|].
          intros l Hl. destruct (build_rule_od_frame r rn t Hq Ecm) as [_ Hm]. apply Hm. exact Hl.
        - split; [apply (build_rule_spec c rn done t todo); assumption|].
          intros l Hl. unfold build_rule. destruct (negb (needs_build r (rn_st rn) t)); [reflexivity|].
          destruct (source_key r (rn_st rn) t) as [sk|].
          2:{ unfold fail_run. cbn [rn_st]. unfold remove_outputs. rewrite remove_fold_dyn. reflexivity. }
          destruct (if c then s_cache (rn_st rn) (t_label t) ((t_defkey t, []), sk) else None) as [cached|].
          + cbn [rn_st]. cbn [s_dyn set_meta set_meta_dyn]. unfold upd. apply str_eqb_neq in Hl. rewrite Hl.
            clear. generalize (rn_st rn) as st0. induction cached as [|on cached IH]; intros st0; cbn [fold_left]; [reflexivity|].
            rewrite IH. reflexivity.
          + unfold run_action. destruct (gather_in _ _ _) as [ins|].
            2:{ unfold fail_run. cbn [rn_st]. unfold remove_outputs. rewrite remove_fold_dyn. reflexivity. }
            destruct (act _ _ _) as [news|].
            2:{ cbn [rn_st]. unfold remove_outputs. rewrite remove_fold_dyn. reflexivity. }
            destruct c; cbn [rn_st]; cbn [s_dyn set_cache]; rewrite move_fold_dyn; apply set_meta_dyn_other; exact Hl. }
      destruct Hspec as [(T' & Hfr & Hspec) Hdyn]. split; [exact T'|]. split; [exact Hfr|]. split; [exact Hdyn|].
      unfold rule_spec in Hspec. destruct (reads (rn_st rn) t) as [[a b]|] eqn:Er; [|exact Hspec].
      destruct (result t (tmp_ins (cmd_ins t a b))) as [news|] eqn:Ea; [|exact Hspec].
      destruct Hspec as (Hf & Hfull & Ho). split; [exact Hf|]. split; [exact Hfull|].
      split; [eapply result_claimed; eassumption|].
      intros o Hin. split; [apply Ho; exact Hin|].
      destruct (alookup_names news o Hin) as [v Hv]. rewrite Hv. discriminate.
  Qed.

  (* ---------------------------------------------------------------------------------------- *)
  (* two builds of the same repository from two trusted stores agree *)

  Definition Agree (ds : list target) (a b : run) : Prop :=
    forall d, In d ds -> ~ In (t_label d) (rn_failed a) ->
    full_outs (rn_st a) d = full_outs (rn_st b) d
    /\ (forall o, In o (full_outs (rn_st a) d) -> In (out_rel d o) (claimed r d))
    /\ forall o, In o (full_outs (rn_st a) d) -> out_of (rn_st a) d o = out_of (rn_st b) d o /\ out_of (rn_st a) d o <> None.

  Lemma outputs_in_full st d o : In o (outputs d) -> In o (full_outs st d).
  Proof. intros H. unfold full_outs. destruct (could_modify d); [|exact H]. unfold meta_outs. apply add_outs_In. right. exact H. Qed.

  Lemma find_target_label ts l d : find_target ts l = Some d -> t_label d = l.
  Proof.
    induction ts as [|t ts IH]; cbn [find_target]; [discriminate|].
    destruct (str_eqb_spec l (t_label t)) as [->|_]; [intros H; injection H as ->; reflexivity|exact IH].
  Qed.

  Lemma inputs_from_dep done t todo p : r_targets r = done ++ t :: todo ->
    In p (all_reads r t) -> fst p = true ->
    exists l d o, In l (label_srcs (t_srcs t)) /\ In d done /\ t_label d = l /\ In o (outputs d) /\ snd p = out_rel d o.
  Proof.
    intros Hs Hp Hg.
    assert (Hdep : forall l, In l (label_srcs (t_srcs t)) ->
              In p (match find_target (r_targets r) l with
                    | Some d => map (fun o => (true, out_rel d o)) (outputs d) | None => [] end) ->
              exists l d o, In l (label_srcs (t_srcs t)) /\ In d done /\ t_label d = l /\ In o (outputs d) /\ snd p = out_rel d o).
    { intros l Hl Hp'. destruct (wf_topo r W done t todo Hs l Hl) as [d [Hd Hf]]. rewrite Hf in Hp'.
      apply in_map_iff in Hp'. destruct Hp' as [o [<- Ho]]. exists l, d, o. repeat split; auto.
      eapply find_target_label. exact Hf. }
    unfold all_reads in Hp. apply in_app_or in Hp. destruct Hp as [Hp|Hp].
    - unfold all_paths in Hp. apply in_flat_map in Hp. destruct Hp as [x [Hx Hp]].
      destruct x as [f|l|l]; cbn [src_paths] in Hp; [| |destruct Hp].
      + destruct Hp as [<-|[]]. discriminate.
      + apply (Hdep l); [apply label_srcs_label; exact Hx|exact Hp].
    - unfold tool_paths in Hp. apply in_flat_map in Hp. destruct Hp as [x [Hx Hp]].
      destruct x as [f|l|l]; try (destruct Hp; fail).
      apply (Hdep l); [apply label_srcs_tool; exact Hx|exact Hp].
  Qed.

  (* two runs that agree on the targets built so far read the same inputs - sources and tool outputs - at the next turn *)
  Lemma reads_agree_ab done t todo a b : r_targets r = done ++ t :: todo ->
    blocked r a t = false -> Agree done a b -> reads (rn_st a) t = reads (rn_st b) t.
  Proof.
    intros Hs Hb Hag.
    assert (Hrd : forall p, In p (all_reads r t) -> read r (rn_st a) p = read r (rn_st b) p).
    { intros p Hp. unfold read. destruct (fst p) eqn:Eg; [|reflexivity].
      destruct (inputs_from_dep done t todo p Hs Hp Eg) as (l & d & o & Hl & Hd & Hdl & Ho & Hrel).
      assert (Hnf : ~ In (t_label d) (rn_failed a)).
      { unfold blocked in Hb. intros Hi. assert (existsb (fun l => mem l (rn_failed a)
            || match find_target (r_targets r) l with Some _ => false | None => true end) (label_srcs (t_srcs t)) = true).
        { apply existsb_exists. exists l. split; [exact Hl|]. rewrite <- Hdl. apply mem_In in Hi. rewrite Hi. reflexivity. }
        congruence. }
      destruct (Hag d Hd Hnf) as (_ & _ & Hout). destruct (Hout o (outputs_in_full _ _ _ Ho)) as [E _].
      unfold out_of in E. rewrite Hrel. exact E. }
    unfold reads.
    rewrite (gather_ext (read r (rn_st b)) (read r (rn_st a)) (all_paths r t))
      by (intros p Hp; apply Hrd; unfold all_reads; apply in_or_app; left; exact Hp).
    rewrite (gather_ext (read r (rn_st b)) (read r (rn_st a)) (tool_paths r t))
      by (intros p Hp; apply Hrd; unfold all_reads; apply in_or_app; right; exact Hp).
    reflexivity.
  Qed.

  Lemma outcome_agree done t todo a b : r_targets r = done ++ t :: todo ->
    rn_failed a = rn_failed b -> blocked r a t = false -> Agree done a b ->
    outcome (rn_st a) t = outcome (rn_st b) t.
  Proof.
    intros Hs Hf Hb Hag. unfold outcome. destruct (is_filegroup t); [reflexivity|].
    rewrite (reads_agree_ab done t todo a b Hs Hb Hag). reflexivity.
  Qed.

  (* the turns of the rest of a build are among the observed ones *)
  Definition obs_turn (x : turn) : Prop := Obs (fst (fst x)) (snd (fst x)) (snd x).

  Lemma turn_head c rn t todo : (forall x, In x (turns_in c r (t :: todo) rn) -> obs_turn x) ->
    blocked r rn t = false -> turn_ok (rn_st rn) t.
  Proof.
    intros H Hb Htb sk Hsk. apply (H (t_defkey t, sk, tool_paths r t)). cbn [turns_in]. apply in_or_app. left.
    unfold turn_of. rewrite Htb, Hb, Hsk. left. reflexivity.
  Qed.

  Lemma turn_tail c rn t todo : (forall x, In x (turns_in c r (t :: todo) rn) -> obs_turn x) ->
    forall x, In x (turns_in c r todo (build_one c r rn t)) -> obs_turn x.
  Proof. intros H x Hx. apply H. cbn [turns_in]. apply in_or_app. right. exact Hx. Qed.

  Lemma blocked_stale c rn t todo : stale_in c r (t :: todo) rn = false -> blocked r rn t = false -> stale_flow r (rn_st rn) t = false.
  Proof. intros H Hb. destruct (stale_in_cons _ _ _ _ _ H) as [Hq _]. apply Hq. exact Hb. Qed.

  Lemma sim ca cb : forall todo done a b, r_targets r = done ++ todo ->
    Trust (rn_st a) -> Trust (rn_st b) -> rn_failed a = rn_failed b -> Agree done a b ->
    stale_in ca r todo a = false -> stale_in cb r todo b = false ->
    (forall x, In x (turns_in ca r todo a) -> obs_turn x) ->
    let a' := fold_left (build_one ca r) todo a in
    let b' := fold_left (build_one cb r) todo b in
    Trust (rn_st a') /\ Trust (rn_st b') /\ rn_failed a' = rn_failed b' /\ Agree (r_targets r) a' b'.
  Proof.
    induction todo as [|t todo IH]; intros done a b Hs Ta Tb Hf Hag Hqa Hqb Hta; cbn [fold_left].
    - cbn zeta. rewrite app_nil_r in Hs. rewrite Hs. auto.
    - cbn zeta.
      pose proof (blocked_stale ca a t todo Hqa) as Hsa. pose proof (blocked_stale cb b t todo Hqb) as Hsb.
      destruct (stale_in_cons _ _ _ _ _ Hqa) as [_ Hqa']. destruct (stale_in_cons _ _ _ _ _ Hqb) as [_ Hqb'].
      assert (Ebb : blocked r b t = blocked r a t) by (unfold blocked; rewrite Hf; reflexivity).
      assert (Ht : In t (r_targets r)) by (rewrite Hs; apply in_or_app; right; left; reflexivity).
      pose proof (turn_head ca a t todo Hta) as HokA.
      (* the other side reads the same inputs, hence has the same source key at this turn *)
      assert (HokB : blocked r b t = false -> turn_ok (rn_st b) t).
      { intros Eb Htb sk Hsk. rewrite Ebb in Eb. apply (HokA Eb Htb).
        rewrite (source_key_reads t _ Ht) in Hsk. rewrite (source_key_reads t _ Ht), (reads_agree_ab done t todo a b Hs Eb Hag). exact Hsk. }
      pose proof (turn_tail ca a t todo Hta) as Hta'.
      apply (IH (done ++ [t])); clear IH; try assumption.
      + rewrite <- app_assoc. exact Hs.
      + unfold build_one. destruct (blocked r a t) eqn:Eb; [exact Ta|].
        destruct (build_one_spec ca a done t todo Hs Eb (Hsa eq_refl) (HokA eq_refl) Ta) as [T _]. unfold build_one in T. rewrite Eb in T. exact T.
      + unfold build_one. destruct (blocked r b t) eqn:Eb; [exact Tb|].
        destruct (build_one_spec cb b done t todo Hs Eb (Hsb eq_refl) (HokB eq_refl) Tb) as [T _]. unfold build_one in T. rewrite Eb in T. exact T.
      + destruct (blocked r a t) eqn:Eb.
        * unfold build_one. rewrite Eb, Ebb. cbn. rewrite Hf. reflexivity.
        * destruct (build_one_spec ca a done t todo Hs Eb (Hsa eq_refl) (HokA eq_refl) Ta) as (_ & _ & _ & Sa).
          destruct (build_one_spec cb b done t todo Hs Ebb (Hsb Ebb) (HokB Ebb) Tb) as (_ & _ & _ & Sb).
          rewrite <- (outcome_agree done t todo a b Hs Hf Eb Hag) in Sb.
          destruct (outcome (rn_st a) t) as [news|].
          -- destruct Sa as [-> _], Sb as [-> _]. exact Hf.
          -- rewrite Sa, Sb, Hf. reflexivity.
      + intros d Hd Hnf. apply in_app_or in Hd. destruct Hd as [Hd|[<-|[]]].
        * (* an earlier target: untouched on both sides *)
          assert (Hlab : t_label d <> t_label t) by (eapply labels_distinct; eassumption).
          assert (Fa : (forall rel, ~ In rel (claimed r t) -> s_outs (rn_st (build_one ca r a t)) rel = s_outs (rn_st a) rel)
                       /\ s_dyn (rn_st (build_one ca r a t)) (t_label d) = s_dyn (rn_st a) (t_label d)).
          { destruct (blocked r a t) eqn:Eb; [unfold build_one; rewrite Eb; split; reflexivity|].
            destruct (build_one_spec ca a done t todo Hs Eb (Hsa eq_refl) (HokA eq_refl) Ta) as (_ & F1 & F2 & _). split; [exact F1|apply F2; exact Hlab]. }
          assert (Fb : (forall rel, ~ In rel (claimed r t) -> s_outs (rn_st (build_one cb r b t)) rel = s_outs (rn_st b) rel)
                       /\ s_dyn (rn_st (build_one cb r b t)) (t_label d) = s_dyn (rn_st b) (t_label d)).
          { destruct (blocked r b t) eqn:Eb; [unfold build_one; rewrite Eb; split; reflexivity|].
            destruct (build_one_spec cb b done t todo Hs Eb (Hsb eq_refl) (HokB eq_refl) Tb) as (_ & F1 & F2 & _). split; [exact F1|apply F2; exact Hlab]. }
          destruct Fa as [Fa Da], Fb as [Fb Db].
          assert (Hnf' : ~ In (t_label d) (rn_failed a)).
          { intros Hi. apply Hnf. destruct (build_one_failed ca r a t) as [n Hn]. rewrite Hn. apply in_or_app. right. exact Hi. }
          destruct (Hag d Hd Hnf') as (Hfu & Hcl & Hout).
          assert (Ef : forall st st', s_dyn st' (t_label d) = s_dyn st (t_label d) -> full_outs st' d = full_outs st d).
          { intros st st' E. unfold full_outs, meta_outs. rewrite E. reflexivity. }
          rewrite (Ef _ _ Da), (Ef _ _ Db). split; [exact Hfu|]. split; [exact Hcl|].
          intros o Ho.
          assert (Hnot : ~ In (out_rel d o) (claimed r t)).
          { intros Hi. eapply (claimed_disjoint r done t todo d); try eassumption. apply Hcl. exact Ho. }
          unfold out_of. rewrite (Fa _ Hnot), (Fb _ Hnot). apply Hout. exact Ho.
        * (* the target just built *)
          destruct (blocked r a t) eqn:Eb.
          { exfalso. apply Hnf. unfold build_one. rewrite Eb. left. reflexivity. }
          destruct (build_one_spec ca a done t todo Hs Eb (Hsa eq_refl) (HokA eq_refl) Ta) as (_ & _ & _ & Sa).
          assert (Ebf : blocked r b t = false) by congruence.
          destruct (build_one_spec cb b done t todo Hs Ebf (Hsb Ebf) (HokB Ebf) Tb) as (_ & _ & _ & Sb).
          rewrite <- (outcome_agree done t todo a b Hs Hf Eb Hag) in Sb.
          destruct (outcome (rn_st a) t) as [news|] eqn:Eo.
          -- destruct Sa as (_ & Fa & Ca & Sa), Sb as (_ & Fb & _ & Sb). rewrite Fa, Fb.
             split; [reflexivity|]. split; [exact Ca|].
             intros o Ho. destruct (Sa o Ho) as [Ea Hne], (Sb o Ho) as [Eb' _].
             rewrite Ea, Eb'. split; [reflexivity|exact Hne].
          -- exfalso. apply Hnf. rewrite Sa.
             assert (Hpos : fail_count t <> 0).
             { unfold fail_count, outcome in *. destruct (is_filegroup t); [|discriminate].
               destruct (missing t (outputs t)); [discriminate|discriminate]. }
             destruct (fail_count t); [congruence|]. left. reflexivity.
  Qed.

  Theorem builds_agree ca cb sta stb : Trust sta -> Trust stb ->
    stale_in ca r (r_targets r) (mkRun sta [] []) = false -> stale_in cb r (r_targets r) (mkRun stb [] []) = false ->
    (forall x, In x (turns_in ca r (r_targets r) (mkRun sta [] [])) -> obs_turn x) ->
    let a := build_all ca r sta in
    let b := build_all cb r stb in
    Trust (rn_st a) /\ rn_failed a = rn_failed b
    /\ forall t, In t (r_targets r) -> ~ In (t_label t) (rn_failed a) ->
       outs_of (rn_st a) t = outs_of (rn_st b) t /\ all_outs_of (rn_st a) t = all_outs_of (rn_st b) t.
  Proof.
    intros Ta Tb Hqa Hqb Hta. cbn zeta. unfold build_all.
    assert (Hag0 : Agree [] (mkRun sta [] []) (mkRun stb [] [])) by (intros d []).
    destruct (sim ca cb (r_targets r) [] (mkRun sta [] []) (mkRun stb [] []) eq_refl Ta Tb eq_refl Hag0 Hqa Hqb Hta) as (T & _ & Hf & Hag).
    split; [exact T|]. split; [exact Hf|]. intros t Ht Hnf. destruct (Hag t Ht Hnf) as (Hfu & _ & Hout). split.
    - unfold outs_of. apply map_ext_in. intros o Ho. f_equal. apply (Hout o). apply outputs_in_full. exact Ho.
    - unfold all_outs_of. rewrite <- Hfu. apply map_ext_in. intros o Ho. f_equal. apply (Hout o Ho).
  Qed.

  (* a build from a plz-out without metadata files never takes stale_flow *)
  Lemma no_meta_quiet c : forall todo done rn, r_targets r = done ++ todo ->
    (forall t, In t todo -> s_meta (rn_st rn) (t_label t) = false) -> stale_in c r todo rn = false.
  Proof.
    induction todo as [|t todo IH]; intros done rn Hs Hm; cbn [stale_in]; [reflexivity|].
    assert (Hst : stale_flow r (rn_st rn) t = false).
    { unfold stale_flow, needs_build. rewrite (Hm t (or_introl eq_refl)). cbn. destruct (could_modify t); reflexivity. }
    rewrite Hst, andb_false_r. cbn [orb].
    apply (IH (done ++ [t])); [rewrite <- app_assoc; exact Hs|].
    intros u Hu.
    assert (Hlab : t_label u <> t_label t).
    { intros E. pose proof (wf_labels r W) as Hnd. rewrite Hs, map_app in Hnd. apply nodup_app_r in Hnd.
      cbn [map] in Hnd. inversion Hnd as [|? ? Hnot _]; subst. apply Hnot. rewrite <- E. apply in_map. exact Hu. }
    assert (Hmeta : s_meta (rn_st (build_one c r rn t)) (t_label u) = s_meta (rn_st rn) (t_label u)).
    { unfold build_one. destruct (blocked r rn t); [reflexivity|].
      destruct (is_filegroup t); [destruct (build_filegroup_frame r t rn) as (_ & E & _); rewrite E; reflexivity|].
      destruct (could_modify t) eqn:Ecm.
      - destruct (build_rule_od_frame r rn t Hst Ecm) as [_ H]. apply H. exact Hlab.
      - unfold build_rule. destruct (negb (needs_build r (rn_st rn) t)); [reflexivity|].
        destruct (source_key r (rn_st rn) t) as [sk|]; [|unfold fail_run; cbn [rn_st]; rewrite remove_outputs_meta; reflexivity].
        destruct (if c then s_cache (rn_st rn) (t_label t) ((t_defkey t, []), sk) else None) as [cached|].
        + cbn [rn_st]. rewrite set_meta_other by exact Hlab.
          clear. generalize (rn_st rn) as st0. induction cached as [|on cached IH]; intros st0; cbn [fold_left]; [reflexivity|].
          rewrite IH. reflexivity.
        + unfold run_action. destruct (gather_in _ _ _); [|unfold fail_run; cbn [rn_st]; rewrite remove_outputs_meta; reflexivity].
          destruct (act _ _ _); [|cbn [rn_st]; rewrite remove_outputs_meta; reflexivity].
          destruct c; cbn [rn_st]; cbn [s_meta set_cache]; rewrite move_fold_meta; apply set_meta_other; exact Hlab. }
    rewrite Hmeta. apply Hm. right. exact Hu.
  Qed.
End Trust.

(* ------------------------------------------------------------------------------------------ *)
(* histories *)

Lemma restrict_incl r req t : In t (r_targets (restrict r req)) -> In t (r_targets r).
Proof. unfold restrict. cbn [r_targets]. intros H. apply filter_In in H. apply H. Qed.

Lemma named_srcs_spec r : named_srcs r = true ->
  forall t, In t (r_targets r) -> Forall (fun p => p <> nopath) (all_paths r t).
Proof.
  unfold named_srcs. intros H t Ht. rewrite forallb_forall in H. specialize (H t Ht). rewrite forallb_forall in H.
  apply Forall_forall. intros p Hp Heq. specialize (H p Hp). subst p. apply negb_true_iff in H.
  destruct (path_eqb_spec nopath nopath); congruence.
Qed.

Lemma history_turns_app h1 h2 : forall st,
  history_turns (h1 ++ h2) st = history_turns h1 st ++ history_turns h2 (run_history h1 st).
Proof.
  induction h1 as [|s0 h1 IH]; intros st; cbn [app history_turns]; [reflexivity|].
  rewrite IH, app_assoc. unfold run_history. cbn [fold_left]. reflexivity.
Qed.

(* the executable classifier makes the observed tool paths a function of (rule key, source key) *)
Lemma clash_free_fun l : clash_free l = true ->
  forall dk sk tp tp', In (dk, sk, tp) l -> In (dk, sk, tp') l -> tp = tp'.
Proof.
  unfold clash_free. intros H dk sk tp tp' H1 H2. rewrite forallb_forall in H. specialize (H _ H1).
  rewrite forallb_forall in H. specialize (H _ H2). unfold turn_clash in H. cbn [fst snd] in H.
  rewrite str_eqb_refl, skey_eqb_refl in H. cbn [andb] in H. rewrite negb_involutive in H.
  assert (R : reflect (tp = tp') (list_eqb path_eqb tp tp')) by (apply list_eqb_spec; apply path_eqb_spec).
  destruct R; [assumption|discriminate].
Qed.

(* the trees linked by the filegroups of a step are among history_fg_srcs *)
Lemma fg_srcs_of_in c r req t f n : In t (r_targets (restrict r req)) -> is_filegroup t = true -> In f (outputs t) ->
  fg_src (restrict r req) (join (t_pkg t) f) = Some n -> In n (fg_srcs_of (HBuild c r req)).
Proof.
  intros Ht Hfg Hf Hn. cbn [fg_srcs_of]. apply in_flat_map. exists t. split; [exact Ht|]. rewrite Hfg.
  apply in_flat_map. exists f. split; [exact Hf|].
  change (fg_src (restrict r req) (join (t_pkg t) f)) with (fg_src r (join (t_pkg t) f)) in Hn. rewrite Hn. left. reflexivity.
Qed.

Section History.
  Variable U : target -> Prop.
  Variable good : node -> Prop.
  Hypothesis U_inj : forall t t', U t -> U t' -> t_defkey t = t_defkey t' -> t = t'.
  Hypothesis good_inj : forall a b, good a -> good b -> stream a = stream b -> a = b.
  Hypothesis good_file : forall c, good (File false c).
  Hypothesis act_good : forall t ins news, U t -> Forall good (map snd ins) ->
    result t ins = Some news -> Forall good (map snd news).
  Variable Obs : str -> skey -> list path -> Prop.
  Hypothesis Obs_fun : forall dk sk tp tp', Obs dk sk tp -> Obs dk sk tp' -> tp = tp'.

  Let TrustU := Trust U good Obs.
  Let obs := obs_turn Obs.

  Lemma step_wf_parts c r req : step_wf (HBuild c r req) = true ->
    WF (restrict r req) /\ distinct_srcs (restrict r req) = true
    /\ forall t, In t (r_targets (restrict r req)) -> Forall (fun p => p <> nopath) (all_paths (restrict r req) t).
  Proof.
    cbn [step_wf]. intros H. apply andb_prop in H. destruct H as [H H3]. apply andb_prop in H. destruct H as [H1 H2].
    split; [apply wf_repo_WF; exact H1|]. split; [exact H2|apply named_srcs_spec; exact H3].
  Qed.

  Lemma trust_history : forall h st, forallb step_wf h = true ->
    (forall t, In t (history_targets h) -> U t) -> (forall n, In n (history_fg_srcs h) -> good n) ->
    quiet_history h st = true -> (forall x, In x (history_turns h st) -> obs x) -> TrustU st -> TrustU (run_history h st).
  Proof.
    induction h as [|s0 h IH]; intros st Hwf HU Hgs Hq Hobs T; [exact T|].
    cbn [forallb] in Hwf. apply andb_prop in Hwf. destruct Hwf as [Hs Hwf].
    cbn [quiet_history] in Hq. apply andb_prop in Hq. destruct Hq as [Hq0 Hq].
    unfold run_history. cbn [fold_left]. apply IH; try assumption.
    - intros t Ht. apply HU. cbn [history_targets flat_map]. apply in_or_app. right. exact Ht.
    - intros n Hn. apply Hgs. unfold history_fg_srcs. cbn [flat_map]. apply in_or_app. right. exact Hn.
    - intros x Hx. apply Hobs. cbn [history_turns]. apply in_or_app. right. exact Hx.
    - destruct s0 as [c r req|]; cbn [do_hstep].
      + destruct (step_wf_parts c r req Hs) as (W & Hd & Hnm).
        assert (Hsg : forall t f n, In t (r_targets (restrict r req)) -> is_filegroup t = true -> In f (outputs t) ->
                  fg_src (restrict r req) (join (t_pkg t) f) = Some n -> good n).
        { intros t f n Ht Hfg Hf Hn. apply Hgs. unfold history_fg_srcs. cbn [flat_map]. apply in_or_app. left.
          eapply fg_srcs_of_in; eassumption. }
        unfold plz_build.
        assert (HUr : forall t, In t (r_targets (restrict r req)) -> U t).
        { intros t Ht. apply HU. cbn [history_targets flat_map]. apply in_or_app. left. apply restrict_incl in Ht. exact Ht. }
        assert (Hta : forall x, In x (turns_in c (restrict r req) (r_targets (restrict r req)) (mkRun st [] [])) -> obs x).
        { intros x Hx. apply Hobs. cbn [history_turns]. apply in_or_app. left. exact Hx. }
        apply negb_true_iff in Hq0. unfold plz_stale in Hq0.
        destruct (builds_agree U good U_inj good_inj good_file act_good Obs Obs_fun (restrict r req) W Hd HUr Hnm Hsg c c st st T T Hq0 Hq0 Hta) as [T' _].
        exact T'.
      + apply trust_wipe. exact T.
  Qed.

  Lemma quiet_history_app h1 h2 st : quiet_history (h1 ++ h2) st = true ->
    quiet_history h1 st = true /\ quiet_history h2 (run_history h1 st) = true.
  Proof.
    revert st. induction h1 as [|s0 h1 IH]; intros st; cbn [app quiet_history]; [intros H; split; [reflexivity|exact H]|].
    intros H. apply andb_prop in H. destruct H as [H0 H]. destruct (IH _ H) as [H1 H2].
    split; [rewrite H0, H1; reflexivity|]. unfold run_history. cbn [fold_left]. exact H2.
  Qed.

  (* after any history (builds with or without the cache, rm -rf plz-out) in which no target with output_dirs
     went through stale_flow and whose turns are among the observed ones, a build - with or without the cache - agrees with
     a clean build without cache *)
  Theorem incremental_is_clean c h r req :
    forallb step_wf (h ++ [HBuild c r req]) = true ->
    (forall t, In t (history_targets (h ++ [HBuild c r req])) -> U t) ->
    (forall n, In n (history_fg_srcs (h ++ [HBuild c r req])) -> good n) ->
    quiet_history (h ++ [HBuild c r req]) empty_store = true ->
    (forall x, In x (history_turns (h ++ [HBuild c r req]) empty_store) -> obs x) ->
    let incr := plz_build c r req (run_history h empty_store) in
    let clean := plz_build false r req empty_store in
    rn_failed incr = rn_failed clean
    /\ forall t, In t (r_targets (restrict r req)) -> ~ In (t_label t) (rn_failed clean) ->
       outs_of (rn_st incr) t = outs_of (rn_st clean) t /\ all_outs_of (rn_st incr) t = all_outs_of (rn_st clean) t.
  Proof.
    intros Hwf HU Hgs Hq Hobs. rewrite forallb_app in Hwf. apply andb_prop in Hwf. destruct Hwf as [Hwfh Hlast].
    cbn [forallb] in Hlast. apply andb_prop in Hlast. destruct Hlast as [Hlast _].
    destruct (step_wf_parts c r req Hlast) as (W & Hd & Hnm).
    assert (Hsg : forall t f n, In t (r_targets (restrict r req)) -> is_filegroup t = true -> In f (outputs t) ->
              fg_src (restrict r req) (join (t_pkg t) f) = Some n -> good n).
    { intros t f n Ht Hfg Hf Hn. apply Hgs. unfold history_fg_srcs. rewrite flat_map_app. apply in_or_app. right.
      cbn [flat_map]. rewrite app_nil_r. eapply fg_srcs_of_in; eassumption. }
    destruct (quiet_history_app _ _ _ Hq) as [Hqh Hql]. cbn [quiet_history] in Hql.
    apply andb_prop in Hql. destruct Hql as [Hql _]. apply negb_true_iff in Hql. unfold plz_stale in Hql.
    rewrite history_turns_app in Hobs.
    assert (T : TrustU (run_history h empty_store)).
    { apply trust_history; try assumption.
      - intros t Ht. apply HU. unfold history_targets. rewrite flat_map_app. apply in_or_app. left. exact Ht.
      - intros n Hn. apply Hgs. unfold history_fg_srcs. rewrite flat_map_app. apply in_or_app. left. exact Hn.
      - intros x Hx. apply Hobs. apply in_or_app. left. exact Hx.
      - apply trust_empty. }
    cbn zeta. unfold plz_build.
    assert (HUr : forall t, In t (r_targets (restrict r req)) -> U t).
    { intros t Ht. apply HU. unfold history_targets. rewrite flat_map_app. apply in_or_app. right.
      cbn [flat_map]. rewrite app_nil_r. apply restrict_incl in Ht. exact Ht. }
    assert (Hta : forall x, In x (turns_in c (restrict r req) (r_targets (restrict r req)) (mkRun (run_history h empty_store) [] [])) -> obs x).
    { intros x Hx. apply Hobs. apply in_or_app. right. cbn [history_turns]. apply in_or_app. left. exact Hx. }
    assert (Hqc : stale_in false (restrict r req) (r_targets (restrict r req)) (mkRun empty_store [] []) = false).
    { apply (no_meta_quiet (restrict r req) W false (r_targets (restrict r req)) []); [reflexivity|]. intros t _. reflexivity. }
    destruct (builds_agree U good U_inj good_inj good_file act_good Obs Obs_fun (restrict r req) W Hd HUr Hnm Hsg c false
                (run_history h empty_store) empty_store T (trust_empty U good Obs) Hql Hqc Hta) as (_ & Hf & Ho).
    split; [exact Hf|]. intros t Ht Hnf. apply Ho; [exact Ht|]. rewrite Hf. exact Hnf.
  Qed.
End History.

(* ------------------------------------------------------------------------------------------ *)
(* the instance: trees that are regular files; the stream of a file is its content *)

Definition is_file (n : node) : Prop := exists c, n = File false c.

Lemma is_file_inj a b : is_file a -> is_file b -> stream a = stream b -> a = b.
Proof. intros [c ->] [c' ->]. cbn [stream]. intros ->. reflexivity. Qed.

Lemma act_files t ins news : defect_class t = None -> Forall is_file (map snd ins) ->
  act (t_kind t) (outputs t) ins = Some news -> Forall is_file (map snd news).
Proof.
  unfold defect_class. intros Hc _. destruct (t_kind t) as [c| |content]; cbn [act].
  - destruct c.
    + destruct (outputs t) as [|o rest]; [discriminate|]. destruct (all_files (src_ins ins)) as [x|]; [|discriminate].
      intros H. injection H as <-. cbn [map snd]. constructor; [eexists; reflexivity|].
      rewrite map_map. cbn [snd]. apply Forall_forall. intros n Hn. apply in_map_iff in Hn. destruct Hn as [o' [<- _]]. eexists; reflexivity.
    + discriminate Hc.
    + destruct (outputs t) as [|o [|o2 rest]]; try discriminate. intros H. injection H as <-.
      cbn [map snd]. constructor; [eexists; reflexivity|constructor].
    + intros H. injection H as <-. rewrite map_map. cbn [snd]. apply Forall_forall. intros n Hn.
      apply in_map_iff in Hn. destruct Hn as [o' [<- _]]. eexists; reflexivity.
    + discriminate.
    + destruct (outputs t) as [|o [|o2 rest]]; try discriminate. intros H. injection H as <-.
      cbn [map snd]. constructor; [eexists; reflexivity|constructor].
    + destruct (outputs t) as [|o [|o2 rest]]; try discriminate. destruct (all_files _); [|discriminate].
      intros H. injection H as <-. cbn [map snd]. constructor; [eexists; reflexivity|constructor].
    + destruct (outputs t) as [|o [|o2 rest]]; try discriminate. intros H. injection H as <-.
      cbn [map snd]. constructor; [eexists; reflexivity|constructor].
    + discriminate.
    + destruct (outputs t) as [|o [|o2 rest]]; try discriminate. destruct (all_files _); [|discriminate].
      intros H. injection H as <-. cbn [map snd]. constructor; [eexists; reflexivity|constructor].
  - discriminate.
  - destruct (outputs t) as [|o [|o2 rest]]; try discriminate. intros H. injection H as <-.
    cbn [map snd]. constructor; [eexists; reflexivity|constructor].
Qed.

(* what the output_dirs command leaves behind are copies of its (file) sources and the constant file *)
Lemma ins_entry_files k v l : is_file v -> Forall is_file (map snd l) -> Forall is_file (map snd (ins_entry k v l)).
Proof.
  intros Hv. induction l as [|[k' v'] l IH]; intros Hl; cbn [ins_entry map snd]; [constructor; [exact Hv|constructor]|].
  cbn [map snd] in Hl. inversion Hl as [|? ? H1 H2]; subst.
  destruct (str_cmp k k'); cbn [map snd].
  - constructor; assumption.
  - constructor; [exact Hv|]. constructor; assumption.
  - constructor; [exact H1|]. apply IH. exact H2.
Qed.

Lemma copy_entries_files ins : Forall is_file (map snd ins) -> Forall is_file (map snd (copy_entries ins)).
Proof.
  unfold copy_entries. assert (Hacc : Forall is_file (map snd (@nil (str * node)))) by constructor.
  revert Hacc. generalize (@nil (str * node)) as acc. induction ins as [|pn ins IH]; intros acc Hacc Hins; cbn [fold_left]; [exact Hacc|].
  cbn [map snd] in Hins. inversion Hins as [|? ? H1 H2]; subst. apply IH; [|exact H2]. apply ins_entry_files; assumption.
Qed.

Lemma collect_files tmp outs moved : Forall is_file (map snd tmp) -> collect tmp outs = Some moved -> Forall is_file (map snd moved).
Proof.
  intros Htmp. revert moved. induction outs as [|o outs IH]; intros moved; cbn [collect].
  - intros H. injection H as <-. constructor.
  - destruct (alookup o tmp) as [n|] eqn:En; [|discriminate]. destruct (collect tmp outs) as [l|]; [|discriminate].
    intros H. injection H as <-. cbn [map snd]. constructor; [|apply IH; reflexivity].
    apply alookup_some_in in En. rewrite Forall_forall in Htmp. apply Htmp. change n with (snd (o, n)). apply in_map. exact En.
Qed.

Lemma result_files t ins news : defect_class t = None -> Forall is_file (map snd ins) ->
  result t ins = Some news -> Forall is_file (map snd news).
Proof.
  intros Hc Hins. unfold result. destruct (could_modify t).
  - unfold od_cmd. destruct (outputs t) as [|o rest]; [discriminate|]. destruct (all_files ins); [|discriminate].
    apply collect_files. rewrite map_app. apply Forall_app. split; [apply copy_entries_files; exact Hins|].
    cbn [map snd]. constructor; [eexists; reflexivity|constructor].
  - apply act_files; assumption.
Qed.

(* C01 / C02, partial: histories without directory outputs in which no target with output_dirs went through
   stale_flow; c = false is C01, c = true is C02 *)
Lemma fg_src_shape r rel n : fg_src r rel = Some n -> (exists c, n = File false c) \/ (exists es, n = Dir es).
Proof.
  unfold fg_src. destruct (alookup rel (r_files r)) as [c|].
  - intros H. injection H as <-. left. exists c. reflexivity.
  - unfold dir_node. destruct (below r rel); [discriminate|]. intros H. injection H as <-. right. eexists. reflexivity.
Qed.

Lemma fg_dir_free_files h : fg_dir_free h = true -> forall n, In n (history_fg_srcs h) -> is_file n.
Proof.
  unfold fg_dir_free. intros H n Hn. rewrite forallb_forall in H. specialize (H n Hn).
  unfold history_fg_srcs in Hn. apply in_flat_map in Hn. destruct Hn as [s0 [_ Hn]].
  destruct s0 as [c r req|]; [|destruct Hn]. cbn [fg_srcs_of] in Hn. apply in_flat_map in Hn. destruct Hn as [t [_ Hn]].
  destruct (is_filegroup t); [|destruct Hn]. apply in_flat_map in Hn. destruct Hn as [f [_ Hn]].
  destruct (fg_src r (join (t_pkg t) f)) as [m|] eqn:E; [|destruct Hn]. destruct Hn as [<-|[]].
  destruct (fg_src_shape _ _ _ E) as [[c0 ->]|[es ->]]; [exists c0; reflexivity|discriminate].
Qed.

(* the observed tool paths of a history: its turns *)
Definition obs_of (h : list hstep) : str -> skey -> list path -> Prop :=
  fun dk sk tp => In (dk, sk, tp) (history_turns h empty_store).

Lemma obs_of_fun h : tool_rename_free h = true ->
  forall dk sk tp tp', obs_of h dk sk tp -> obs_of h dk sk tp' -> tp = tp'.
Proof. unfold tool_rename_free, obs_of. intros H. apply clash_free_fun. exact H. Qed.

Lemma obs_of_turns h : forall x, In x (history_turns h empty_store) -> obs_turn (obs_of h) x.
Proof. intros [[dk sk] tp] Hx. unfold obs_turn, obs_of. cbn [fst snd]. exact Hx. Qed.

(* the general form: any class of trees on which the path-hash stream is injective (path_inj), any set of targets on which
   the rule key is injective; tools included, up to the executable classifier tool_rename_free *)
Theorem incremental_is_clean_tools (U : target -> Prop) (good : node -> Prop) :
  (forall t t', U t -> U t' -> t_defkey t = t_defkey t' -> t = t') ->
  (forall a b, good a -> good b -> stream a = stream b -> a = b) ->
  (forall c, good (File false c)) ->
  (forall t ins news, U t -> Forall good (map snd ins) -> result t ins = Some news -> Forall good (map snd news)) ->
  forall c h r req,
    forallb step_wf (h ++ [HBuild c r req]) = true ->
    tool_rename_free (h ++ [HBuild c r req]) = true ->
    (forall t, In t (history_targets (h ++ [HBuild c r req])) -> U t) ->
    (forall n, In n (history_fg_srcs (h ++ [HBuild c r req])) -> good n) ->
    quiet_history (h ++ [HBuild c r req]) empty_store = true ->
    let incr := plz_build c r req (run_history h empty_store) in
    let clean := plz_build false r req empty_store in
    rn_failed incr = rn_failed clean
    /\ forall t, In t (r_targets (restrict r req)) -> ~ In (t_label t) (rn_failed clean) ->
       outs_of (rn_st incr) t = outs_of (rn_st clean) t /\ all_outs_of (rn_st incr) t = all_outs_of (rn_st clean) t.
Proof.
  intros H1 H2 H3 H4 c h r req Hwf Hrf HU Hgs Hq.
  exact (incremental_is_clean U good H1 H2 H3 H4 (obs_of (h ++ [HBuild c r req])) (obs_of_fun _ Hrf) c h r req Hwf HU Hgs Hq
           (obs_of_turns _)).
Qed.

Theorem incremental_is_clean_files c h r req :
  wf_history (h ++ [HBuild c r req]) -> tool_rename_free (h ++ [HBuild c r req]) = true ->
  dir_free (h ++ [HBuild c r req]) ->
  fg_dir_free (h ++ [HBuild c r req]) = true ->
  quiet_history (h ++ [HBuild c r req]) empty_store = true ->
  let incr := plz_build c r req (run_history h empty_store) in
  let clean := plz_build false r req empty_store in
  run_ok incr = run_ok clean
  /\ rn_failed incr = rn_failed clean
  /\ forall t, In t (r_targets (restrict r req)) -> ~ In (t_label t) (rn_failed clean) ->
     outs_of (rn_st incr) t = outs_of (rn_st clean) t /\ all_outs_of (rn_st incr) t = all_outs_of (rn_st clean) t.
Proof.
  intros [Hwf Hkeys] Hrf Hdf Hfd Hq.
  set (U := fun t => In t (history_targets (h ++ [HBuild c r req]))).
  assert (H1 : forall t t', U t -> U t' -> t_defkey t = t_defkey t' -> t = t') by (intros t t' Ht Ht'; apply Hkeys; assumption).
  assert (H2 : forall c, is_file (File false c)) by (intros c0; exists c0; reflexivity).
  assert (H3 : forall t ins news, U t -> Forall is_file (map snd ins) ->
             result t ins = Some news -> Forall is_file (map snd news))
    by (intros t ins news Ut; apply result_files; apply Hdf; exact Ut).
  destruct (incremental_is_clean_tools U is_file H1 is_file_inj H2 H3 c h r req Hwf Hrf (fun t Ht => Ht) (fg_dir_free_files _ Hfd) Hq) as [Hf Ho].
  cbn zeta in *. split; [unfold run_ok; rewrite Hf; reflexivity|]. split; [exact Hf|exact Ho].
Qed.

(* without targets that have output_dirs no build goes through stale_flow *)
Lemma od_free_stale c r : forall ts rn, (forall t, In t ts -> could_modify t = false) -> stale_in c r ts rn = false.
Proof.
  induction ts as [|t ts IH]; intros rn H; cbn [stale_in]; [reflexivity|].
  unfold stale_flow. rewrite (H t (or_introl eq_refl)). cbn [andb]. rewrite andb_false_r. cbn [orb].
  apply IH. intros u Hu. apply H. right. exact Hu.
Qed.

Lemma od_free_quiet : forall h st, od_free h -> quiet_history h st = true.
Proof.
  induction h as [|s0 h IH]; intros st H; cbn [quiet_history]; [reflexivity|].
  rewrite IH.
  - rewrite andb_true_r. destruct s0 as [c r req|]; [|reflexivity]. apply negb_true_iff. unfold plz_stale.
    apply od_free_stale. intros t Ht. apply H. cbn [history_targets flat_map]. apply in_or_app. left. apply restrict_incl in Ht. exact Ht.
  - intros t Ht. apply H. cbn [history_targets flat_map]. apply in_or_app. right. exact Ht.
Qed.
