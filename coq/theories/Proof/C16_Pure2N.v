(* C16 - the enlarged pure fragment: callNative's argument protocol (positional and - third deepening - keyword arguments), the
   native builtins and the methods on related arguments; enumerate / zip / dict.items() through the one allocation lemma
   rows_list_vrel of Proof/C16_Pure2R.v. *)
From Coq Require Import Lia.
From PlzV Require Import Base.Harness Base.StrFacts Gen.AspTables Model.C16_Syntax Model.C16_Ops Model.C16_Prim Model.C16_Eval Model.C16 Model.C16_Pure Model.C16_Sort Model.C16_Pure2.
From PlzV Require Import Proof.C16_Ops Proof.C16_Int Proof.C16_Pure Proof.C16_Pure2U Proof.C16_Pure2R Proof.C16_Pure2P.
Local Open Scope Z_scope.

Lemma Forall2_rev : forall {A B} (R : A -> B -> Prop) l l', Forall2 R l l' -> Forall2 R (rev l) (rev l').
Proof. intros A B R l l' H. induction H; cbn [rev]; [constructor|]. apply Forall2_app; [assumption|now constructor]. Qed.

Lemma Forall2_length : forall {A B} {R : A -> B -> Prop} {l l'}, Forall2 R l l' -> length l = length l'.
Proof. intros A B R l l' H. induction H; cbn; congruence. Qed.

(* a dict whose keys are strictly ascending is enumerated by asp in its insertion order *)
Lemma ssorted_tail : forall k l, ssorted (k :: l) = true -> ssorted l = true.
Proof. intros k [|y l] H; [reflexivity|]. cbn [ssorted] in H. apply andb_prop in H. exact (proj2 H). Qed.

Lemma sorted_sort_id : forall d h es kvs, env_rel d h es kvs -> ssorted (map (@fst _ _) kvs) = true -> sort_kvs es = es.
Proof.
  intros d h es kvs H. induction H as [|kv pkv es kvs [Hk _] Hr IH]; intros Hs; [reflexivity|].
  cbn [map] in Hs. unfold sort_kvs in *. cbn [fold_right]. rewrite (IH (ssorted_tail _ _ Hs)).
  destruct Hr as [|kv2 pkv2 es kvs [Hk2 _] _]; [reflexivity|]. cbn [insert_kv].
  cbn [map ssorted] in Hs. apply andb_prop in Hs. destruct Hs as [Hlt _]. rewrite Hk, Hk2.
  unfold str_ltb in Hlt. unfold str_leb. destruct (str_cmp (fst pkv) (fst pkv2)); try discriminate. reflexivity.
Qed.

Definition sig_ok (sg : list (str * N * option value)) : Prop :=
  Forall (fun e => match snd e with Some dv => forall d h, vrel d h (qscalar dv) dv | None => True end) sg.

Lemma native_sig_ok : forall n sg va, native_sig n = Some (sg, va) -> sig_ok sg.
Proof.
  intros n sg va. unfold native_sig.
  repeat (destruct (str_eqb n _); [intros E; injection E as <- <-; repeat constructor; intros; reflexivity|]). discriminate.
Qed.
Lemma method_sig_ok : forall n sg, method_sig n = Some sg -> sig_ok sg.
Proof.
  intros n sg. unfold method_sig.
  repeat (destruct (str_eqb n _); [intros E; injection E as <-; repeat constructor; intros; reflexivity|]). discriminate.
Qed.

Section Nat.
  Variable d : dialect.
  Notation vr st := (vrel d (hp st)).
  Notation sim st r p := (sim1 d st r p).
  Notation EE := (eval_expr d []).

  Definition orel (h : heap) (po : option qval) (o : option value) : Prop :=
    match po, o with
    | None, None => True
    | Some p, Some v => vrel d h p v
    | _, _ => False
    end.

  Lemma validate_sim : forall h t def p v p', vrel d h p v ->
    match def with Some dv => vrel d h (qscalar dv) dv | None => True end ->
    qvalidate t (option_map qscalar def) p = Ok p' -> exists v', validate t def v = Ok v' /\ vrel d h p' v'.
  Proof.
    intros h t def p v p' Hv Hd H. unfold qvalidate in H. unfold validate. destruct (N.eqb t 0).
    - injection H as <-. now exists v.
    - destruct p.
      1-3: cbn [vrel] in Hv; subst v; cbn [type_tag qtype_tag] in *;
           match goal with |- context [if ?c then _ else _] => destruct c end; [|discriminate]; injection H as <-; eexists; split; reflexivity.
      + cbn [vrel] in Hv. subst v. destruct def as [dv|]; cbn [option_map] in H; injection H as <-; eexists; split; try reflexivity; assumption.
      + pose proof Hv as Hv0. apply vrel_list in Hv. destruct Hv as (sl & cells & -> & _). cbn [type_tag qtype_tag] in *.
        match goal with |- context [if ?c then _ else _] => destruct c end; [|discriminate]. injection H as <-. eexists; split; [reflexivity|exact Hv0].
      + pose proof Hv as Hv0. apply vrel_dict in Hv. destruct Hv as (i & es & -> & _). cbn [type_tag qtype_tag] in *.
        match goal with |- context [if ?c then _ else _] => destruct c end; [|discriminate]. injection H as <-. eexists; split; [reflexivity|exact Hv0].
      + cbn [vrel] in Hv; subst v; cbn [type_tag qtype_tag] in *.
        match goal with |- context [if ?c then _ else _] => destruct c end; [|discriminate]; injection H as <-; eexists; split; reflexivity.
  Qed.

  Lemma orel_mono : forall h h' a b, hext h h' -> Forall2 (orel h) a b -> Forall2 (orel h') a b.
  Proof.
    intros h h' a b He H. induction H as [|[p|] [v|] a b Hp _ IH]; constructor; try assumption; cbn [orel] in *; try contradiction; try exact I.
    now apply (vrel_mono d h).
  Qed.

  Lemma list_set_orel : forall h i po o a b, orel h po o -> Forall2 (orel h) a b -> Forall2 (orel h) (list_set i po a) (list_set i o b).
  Proof.
    intros h i po o a b Ho H. revert i. induction H as [|x y a b Hx Hab IH]; intros [|i]; cbn [list_set]; constructor; try assumption. apply IH.
  Qed.

  Lemma nth_sig : forall sg i, nth i (qsig_of sg) ([], 0%N, None) =
    (fst (fst (nth i sg ([], 0%N, None))), snd (fst (nth i sg ([], 0%N, None))), option_map qscalar (snd (nth i sg ([], 0%N, None)))).
  Proof. intros sg i. unfold qsig_of. now rewrite <- (map_nth (fun e : str * N * option value => (fst (fst e), snd (fst e), option_map qscalar (snd e)))). Qed.

  Lemma sig_ok_nth : forall sg i d0 h, sig_ok sg ->
    match snd (nth i sg ([], 0%N, None)) with Some dv => vrel d0 h (qscalar dv) dv | None => True end.
  Proof.
    intros sg i d0 h H. revert i. induction H as [|e sg He _ IH]; intros [|i]; cbn [nth snd]; try exact I; [|apply IH].
    destruct (snd e); [apply He|exact I].
  Qed.

  Section Proto.
    Variable f : nat.
    Variable ps : qstate.
    Variable ev : expr -> res qval.
    Hypothesis HE : forall e st p, srel d st ps -> ev e = Ok p -> sim st (EE f e st) p.

    Lemma find_slot_sig : forall k sg j,
      qfind_slot k (qsig_of sg) j =
      (fix find (sg0 : list (str * N * option value)) (j : nat) : option nat :=
         match sg0 with [] => None | (a, _, _) :: sr => if str_eqb a k then Some j else find sr (S j) end) sg j.
    Proof.
      intros k sg. induction sg as [|[[a t] def] sg IH]; intros j; cbn [qsig_of map qfind_slot fst snd]; [reflexivity|].
      destruct (str_eqb a k); [reflexivity|]. apply IH.
    Qed.

    Lemma native_loop_sim : forall kwok sg va, sig_ok sg -> forall args i kw pslots slots pextra extra st pslots' pextra', srel d st ps ->
      Forall2 (orel (hp st)) pslots slots -> vrels d (hp st) pextra extra ->
      qnative_loop ev kwok (qsig_of sg) va args i kw pslots pextra = Ok (pslots', pextra') ->
      exists slots' extra' st1, native_loop d [] f sg va args i slots extra st = Ok (slots', extra', st1) /\ xle st st1
        /\ Forall2 (orel (hp st1)) pslots' slots' /\ vrels d (hp st1) pextra' extra'.
    Proof.
      intros kwok sg va Hok args. induction args as [|[[k|] e] args IH]; intros i kw pslots slots pextra extra st pslots' pextra' Hs Hsl Hex H;
        cbn [qnative_loop native_loop] in *.
      - injection H as <- <-. exists slots, extra, st. split; [reflexivity|]. split; [apply xle_refl|now split].
      - destruct (negb (kwok k)); [discriminate|]. rewrite find_slot_sig in H.
        match type of H with match ?F with _ => _ end = _ => destruct F as [j|] end; [|discriminate].
        destruct (nth j pslots None) eqn:Ej; [discriminate|].
        rewrite nth_sig in H. destruct (nth j sg ([], 0%N, None)) as [[a t] def] eqn:En. cbn [fst snd] in H.
        destruct (ev e) as [p| |] eqn:Ee; try discriminate. cbn [rbind] in H.
        destruct (qvalidate t (option_map qscalar def) p) as [p'| |] eqn:Eva; try discriminate. cbn [rbind] in H.
        destruct (HE e st p Hs Ee) as (v & st1 & Ev & Hx & Hv). rewrite Ev. cbn [rbind].
        pose proof (sig_ok_nth sg j d (hp st1) Hok) as Hd. rewrite En in Hd. cbn [snd] in Hd.
        destruct (validate_sim (hp st1) t def p v p' Hv Hd Eva) as (v' & Ev' & Hv'). rewrite Ev'. cbn [rbind].
        destruct (IH (S i) true (list_set j (Some p') pslots) (list_set j (Some v') slots) pextra extra st1 pslots' pextra' (srel_xle d st st1 ps Hs Hx))
          as (s' & e' & st2 & E2 & Hx2 & A & B); try assumption.
        * apply list_set_orel; [exact Hv'|]. apply (orel_mono (hp st)); [apply Hx|exact Hsl].
        * apply (vrels_mono d (hp st)); [apply Hx|exact Hex].
        * exists s', e', st2. split; [exact E2|]. split; [now apply (xle_trans st st1)|now split].
      - destruct kw; [discriminate|]. unfold qsig_of in H at 1. rewrite map_length in H. destruct (Nat.leb (length sg) i).
        + destruct va; [|discriminate]. destruct (ev e) as [p| |] eqn:Ee; try discriminate. cbn [rbind] in H.
          destruct (HE e st p Hs Ee) as (v & st1 & Ev & Hx & Hv). rewrite Ev. cbn [rbind].
          destruct (IH (S i) false pslots slots (pextra ++ [p]) (extra ++ [v]) st1 pslots' pextra' (srel_xle d st st1 ps Hs Hx)) as (s' & e' & st2 & E2 & Hx2 & A & B); try assumption.
          * apply (orel_mono (hp st)); [apply Hx|exact Hsl].
          * apply Forall2_app; [apply (vrels_mono d (hp st)); [apply Hx|exact Hex]|constructor; [exact Hv|constructor]].
          * exists s', e', st2. split; [exact E2|]. split; [now apply (xle_trans st st1)|now split].
        + rewrite nth_sig in H. destruct (nth i sg ([], 0%N, None)) as [[a t] def] eqn:En. cbn [fst snd] in H.
          destruct (ev e) as [p| |] eqn:Ee; try discriminate. cbn [rbind] in H.
          destruct (qvalidate t (option_map qscalar def) p) as [p'| |] eqn:Eva; try discriminate. cbn [rbind] in H.
          destruct (HE e st p Hs Ee) as (v & st1 & Ev & Hx & Hv). rewrite Ev. cbn [rbind].
          pose proof (sig_ok_nth sg i d (hp st1) Hok) as Hd. rewrite En in Hd. cbn [snd] in Hd.
          destruct (validate_sim (hp st1) t def p v p' Hv Hd Eva) as (v' & Ev' & Hv'). rewrite Ev'. cbn [rbind].
          destruct (IH (S i) false (list_set i (Some p') pslots) (list_set i (Some v') slots) pextra extra st1 pslots' pextra' (srel_xle d st st1 ps Hs Hx))
            as (s' & e' & st2 & E2 & Hx2 & A & B); try assumption.
          * apply list_set_orel; [exact Hv'|]. apply (orel_mono (hp st)); [apply Hx|exact Hsl].
          * apply (vrels_mono d (hp st)); [apply Hx|exact Hex].
          * exists s', e', st2. split; [exact E2|]. split; [now apply (xle_trans st st1)|now split].
    Qed.

    Lemma fill_defaults_sim : forall h sg pfilled filled pvals, sig_ok sg -> Forall2 (orel h) pfilled filled ->
      qfill_defaults pfilled (qsig_of sg) = Ok pvals -> exists vals, fill_defaults filled sg = Ok vals /\ vrels d h pvals vals.
    Proof.
      intros h sg pfilled filled pvals Hok H. revert sg Hok pvals. unfold qfill_defaults, fill_defaults.
      induction H as [|po o pfilled filled Ho _ IH]; intros sg Hok pvals Hq; cbn [combine mapR] in *.
      - injection Hq as <-. exists []. split; [reflexivity|constructor].
      - destruct sg as [|[[a t] def] sg]; cbn [qsig_of map combine mapR fst snd] in *.
        + injection Hq as <-. exists []. split; [reflexivity|constructor].
        + inversion Hok as [|? ? Hd Hok']; subst. cbn [snd] in Hd.
          assert (Hone : exists p v, match po with Some v0 => Ok v0 | None => match option_map qscalar def with Some dv => Ok dv | None => Err EType end end = Ok p
                            /\ match o with Some v0 => Ok v0 | None => match def with Some dv => Ok dv | None => Err EType end end = Ok v /\ vrel d h p v).
          { destruct po as [p|], o as [v|]; cbn [orel] in Ho; try contradiction.
            - exists p, v. now repeat split.
            - destruct def as [dv|]; cbn [option_map] in *; [|discriminate]. exists (qscalar dv), dv. repeat split. apply Hd. }
          destruct Hone as (p & v & E1 & E2 & Hv). rewrite E1 in Hq. rewrite E2. cbn [rbind] in *.
          fold (qsig_of sg) in Hq.
          match type of Hq with context [mapR ?g (combine pfilled ?l)] =>
            destruct (mapR g (combine pfilled l)) as [prest| |] eqn:Er end; try discriminate. cbn [rbind] in Hq. injection Hq as <-.
          destruct (IH sg Hok' prest Er) as (rest & E3 & Hr). rewrite E3. cbn [rbind]. exists (v :: rest). split; [reflexivity|now constructor].
    Qed.

    (* the argument list callNative hands to the native, for every continuation *)
    Lemma nargs_sim : forall n sg va, native_sig n = Some (sg, va) -> forall args st pvals, srel d st ps ->
      (do '(filled, extra) <- qnative_loop ev (qkwok n) (qsig_of sg) va args 0%nat false (map (fun _ => @None qval) (qsig_of sg)) [];
       do vals <- qfill_defaults filled (qsig_of sg); Ok (vals ++ extra)) = Ok pvals ->
      exists vals st1,
        (forall K : list value -> state -> res (value * state),
           rbind (native_loop d [] f sg va args 0%nat (map (fun _ => @None value) sg) [] st) (fun '(filled, extra, st1) =>
           rbind (fill_defaults filled sg) (fun vals => K (vals ++ extra) st1)) = K vals st1)
        /\ xle st st1 /\ vrels d (hp st1) pvals vals.
    Proof.
      intros n sg va Esg args st pvals Hs H. pose proof (native_sig_ok n sg va Esg) as Hok.
      destruct (qnative_loop _ _ _ _ _ _ _) as [[pfilled pextra]| |] eqn:El; try discriminate. cbn [rbind] in H.
      destruct (qfill_defaults pfilled (qsig_of sg)) as [pv| |] eqn:Ef; try discriminate. cbn [rbind] in H. injection H as <-.
      assert (H0 : Forall2 (orel (hp st)) (map (fun _ => @None qval) (qsig_of sg)) (map (fun _ => @None value) sg)).
      { unfold qsig_of. rewrite map_map. clear. induction sg; cbn [map]; constructor; [exact I|assumption]. }
      destruct (native_loop_sim (qkwok n) sg va Hok args 0%nat false _ _ [] [] st pfilled pextra Hs H0 (Forall2_nil _) El) as (filled & extra & st1 & E1 & Hx & A & B).
      destruct (fill_defaults_sim (hp st1) sg pfilled filled pv Hok A Ef) as (vals & E2 & Hv).
      exists (vals ++ extra), st1. split; [|split; [exact Hx|now apply Forall2_app]].
      intros K. rewrite E1. cbn [rbind]. rewrite E2. reflexivity.
    Qed.

    Lemma meth_loop_sim : forall sg, sig_ok sg -> forall args st pvals, srel d st ps ->
      qmeth_loop ev args (qsig_of sg) = Ok pvals ->
      exists vals st1, meth_loop d [] f args sg st = Ok (vals, st1) /\ xle st st1 /\ vrels d (hp st1) pvals vals.
    Proof.
      intros sg Hok. induction Hok as [|[[a t] def] sg Hd Hok IH]; intros args st pvals Hs H; cbn [qsig_of map qmeth_loop meth_loop fst snd] in *.
      - injection H as <-. exists [], st. split; [reflexivity|]. split; [apply xle_refl|constructor].
      - cbn [snd] in Hd. destruct args as [|e args].
        + destruct def as [dv|]; cbn [option_map] in H; [|discriminate].
          fold (qsig_of sg) in H. destruct (qmeth_loop ev [] (qsig_of sg)) as [prest| |] eqn:Er; try discriminate. cbn [rbind] in H. injection H as <-.
          destruct (IH [] st prest Hs Er) as (rest & st1 & E1 & Hx & Hr). rewrite E1. cbn [rbind].
          exists (dv :: rest), st1. split; [reflexivity|]. split; [exact Hx|]. constructor; [apply Hd|exact Hr].
        + destruct (ev e) as [p| |] eqn:Ee; try discriminate. cbn [rbind] in H.
          destruct (qvalidate t (option_map qscalar def) p) as [p'| |] eqn:Eva; try discriminate. cbn [rbind] in H.
          fold (qsig_of sg) in H. destruct (qmeth_loop ev args (qsig_of sg)) as [prest| |] eqn:Er; try discriminate. cbn [rbind] in H. injection H as <-.
          destruct (HE e st p Hs Ee) as (v & st1 & Ev & Hx & Hv). rewrite Ev. cbn [rbind].
          assert (Hd1 : match def with Some dv => vrel d (hp st1) (qscalar dv) dv | None => True end) by (destruct def; [apply Hd|exact I]).
          destruct (validate_sim (hp st1) t def p v p' Hv Hd1 Eva) as (v' & Ev' & Hv'). rewrite Ev'. cbn [rbind].
          destruct (IH args st1 prest (srel_xle d st st1 ps Hs Hx) Er) as (rest & st2 & E2 & Hx2 & Hr). rewrite E2. cbn [rbind].
          exists (v' :: rest), st2. split; [reflexivity|]. split; [now apply (xle_trans st st1)|].
          constructor; [now apply (vr_xle d st1)|exact Hr].
    Qed.
  End Proto.

  (* ================================================================ natives *)
  Lemma existsb_truthy_rel : forall st ps vs, vrels d (hp st) ps vs -> existsb (truthy d st) vs = existsb qtruthy ps.
  Proof. intros st ps vs H. induction H as [|p v ps vs Hp _ IH]; [reflexivity|]. cbn [existsb]. now rewrite (truthy_rel d st p v Hp), IH. Qed.
  Lemma forallb_truthy_rel : forall st ps vs, vrels d (hp st) ps vs -> forallb (truthy d st) vs = forallb qtruthy ps.
  Proof. intros st ps vs H. induction H as [|p v ps vs Hp _ IH]; [reflexivity|]. cbn [forallb]. now rewrite (truthy_rel d st p v Hp), IH. Qed.

  Lemma vcmp_rel : forall f st o pa pb va vb r, vr st pa va -> vr st pb vb -> qcmp o pa pb = Ok r -> vcmp d (S f) st o va vb = Ok r.
  Proof.
    intros f st o pa pb va vb r Ha Hb H. destruct pa, pb; try discriminate; cbn [vrel] in Ha, Hb; subst va vb; cbn [qcmp] in H; rewrite <- H;
      destruct d; reflexivity.
  Qed.

  Definition less_rel (st : state) (qless : qval -> qval -> res bool) (less : value -> value -> res bool) : Prop :=
    forall pa pb va vb b, vr st pa va -> vr st pb vb -> qless pa pb = Ok b -> less va vb = Ok b.

  Lemma minmax_rel : forall st qless less, less_rel st qless less -> forall pr r, vrels d (hp st) pr r -> forall pcur cur p, vr st pcur cur ->
    qminmax qless pr pcur = Ok p ->
    exists v, (fix go (r : list value) (cur : value) : res value :=
                 match r with
                 | [] => Ok cur
                 | y :: r' => rbind (less y cur) (fun b => go r' (if b then y else cur))
                 end) r cur = Ok v /\ vr st p v.
  Proof.
    intros st qless less Hl pr r Hr. induction Hr as [|py y pr r Hy _ IH]; intros pcur cur p Hc H; cbn [qminmax] in H.
    - injection H as <-. now exists cur.
    - destruct (qless py pcur) as [b| |] eqn:Eb; try discriminate. cbn [rbind] in H.
      rewrite (Hl py pcur y cur b Hy Hc Eb). cbn [rbind]. apply (IH (if b then py else pcur) (if b then y else cur) p); [now destruct b|exact H].
  Qed.

  Lemma ins_left_rel : forall st qless less, less_rel st qless less -> forall px x, vr st px x -> forall pacc acc pr, vrels d (hp st) pacc acc ->
    qins_left qless px pacc = Ok pr -> exists r, ins_left less x acc = Ok r /\ vrels d (hp st) pr r.
  Proof.
    intros st qless less Hl px x Hx pacc acc pr Ha. revert pr. induction Ha as [|py y pacc acc Hy Ha IH]; intros pr H; cbn [qins_left ins_left] in *.
    - injection H as <-. exists [x]. split; [reflexivity|]. constructor; [exact Hx|constructor].
    - destruct (qless px py) as [b| |] eqn:Eb; try discriminate. cbn [rbind] in H. rewrite (Hl px py x y b Hx Hy Eb). cbn [rbind].
      destruct b.
      + destruct (qins_left qless px pacc) as [pr'| |] eqn:Er; try discriminate. cbn [rbind] in H. injection H as <-.
        destruct (IH pr' eq_refl) as (r' & E & Hr'). rewrite E. cbn [rbind]. exists (y :: r'). split; [reflexivity|now constructor].
      + injection H as <-. exists (x :: y :: acc). split; [reflexivity|]. constructor; [exact Hx|now constructor].
  Qed.

  Lemma insertion_sort_rel : forall st qless less, less_rel st qless less -> forall pl l pr, vrels d (hp st) pl l ->
    qinsertion_sort qless pl = Ok pr -> exists r, insertion_sort less l = Ok r /\ vrels d (hp st) pr r.
  Proof.
    intros st qless less Hl pl l pr Hv H. unfold qinsertion_sort in H. unfold insertion_sort.
    assert (Hgo : forall pl l, vrels d (hp st) pl l -> forall pacc acc pr0, vrels d (hp st) pacc acc ->
              (fix go (l acc : list qval) : res (list qval) :=
                 match l with [] => Ok acc | x :: rest => rbind (qins_left qless x acc) (fun acc' => go rest acc') end) pl pacc = Ok pr0 ->
              exists r0, (fix go (l acc : list value) : res (list value) :=
                            match l with [] => Ok acc | x :: rest => rbind (ins_left less x acc) (fun acc' => go rest acc') end) l acc = Ok r0
                         /\ vrels d (hp st) pr0 r0).
    { intros pl0 l0 Hv0. induction Hv0 as [|px x pl0 l0 Hx _ IH]; intros pacc acc pr0 Ha H0.
      - injection H0 as <-. now exists acc.
      - destruct (qins_left qless px pacc) as [pacc'| |] eqn:Ei; try discriminate. cbn [rbind] in H0.
        destruct (ins_left_rel st qless less Hl px x Hx pacc acc pacc' Ha Ei) as (acc' & E & Ha'). rewrite E. cbn [rbind].
        now apply (IH pacc' acc' pr0). }
    match type of H with (rbind ?m _) = _ => destruct m as [pr0| |] eqn:Eg end; try discriminate. cbn [rbind] in H. injection H as <-.
    destruct (Hgo pl l Hv [] [] pr0 (Forall2_nil _) Eg) as (r0 & E & Hr). rewrite E. cbn [rbind]. exists (rev r0). split; [reflexivity|].
    now apply Forall2_rev.
  Qed.

  Lemma kind_rel : forall h p v, vrel d h p v ->
    match v with VInt _ => true | _ => false end = q_is_int p /\ match v with VStr _ => true | _ => false end = q_is_str p.
  Proof.
    intros h p v H. destruct p; cbn [vrel] in H; try (subst v; split; reflexivity).
    - destruct H as (sl & cells & -> & _). split; reflexivity.
    - destruct H as (i & es & -> & _). split; reflexivity.
  Qed.
  Lemma all_kind_rel : forall h ps vs, vrels d h ps vs ->
    forallb (fun v => match v with VInt _ => true | _ => false end) vs = forallb q_is_int ps /\
    forallb (fun v => match v with VStr _ => true | _ => false end) vs = forallb q_is_str ps.
  Proof.
    intros h ps vs H. induction H as [|p v ps vs Hp _ [IH1 IH2]]; [split; reflexivity|]. cbn [forallb].
    destruct (kind_rel h p v Hp) as [K1 K2]. now rewrite K1, K2, IH1, IH2.
  Qed.

  Lemma enum_rel : forall h pl l k, vrels d h pl l ->
    Forall2 (vrels d h) (map (fun iv => [QInt (Z.of_nat (fst iv)); snd iv]) (combine (seq k (length pl)) pl))
                        (map (fun iv => [VInt (Z.of_nat (fst iv)); snd iv]) (combine (seq k (length l)) l)).
  Proof.
    intros h pl l k H. revert k. induction H as [|p v pl l Hp _ IH]; intros k; cbn [length seq combine map]; constructor; [|apply IH].
    cbn [fst snd]. constructor; [reflexivity|]. constructor; [exact Hp|constructor].
  Qed.

  Lemma as_lists_rel : forall st pvals vals pls, vrels d (hp st) pvals vals -> mapR qas_list pvals = Ok pls ->
    exists ls, mapR (strict_list d st) vals = Ok ls /\ Forall2 (vrels d (hp st)) pls ls.
  Proof.
    intros st pvals vals pls H. revert pls. induction H as [|p v pvals vals Hp _ IH]; intros pls Hq; cbn [mapR] in *.
    - injection Hq as <-. exists []. split; [reflexivity|constructor].
    - destruct p; try discriminate. cbn [qas_list rbind] in Hq.
      destruct (mapR qas_list pvals) as [prest| |] eqn:Er; try discriminate. cbn [rbind] in Hq. injection Hq as <-.
      destruct (vrel_list_inv d st l v Hp) as (sl & -> & Hc & _). cbn [strict_list rbind].
      destruct (IH prest eq_refl) as (rest & E & Hr). rewrite E. cbn [rbind]. exists (list_items d st sl :: rest). split; [reflexivity|now constructor].
  Qed.

  Lemma same_len_rel : forall h pls ls n m, n = m -> Forall2 (vrels d h) pls ls ->
    forallb (fun l => Nat.eqb (length l) m) ls = forallb (fun l => Nat.eqb (length l) n) pls.
  Proof.
    intros h pls ls n m -> H. induction H as [|pl l pls ls Hl _ IH]; [reflexivity|]. cbn [forallb]. now rewrite (vrels_length _ _ _ _ Hl), IH.
  Qed.

  Lemma column_rel : forall h pls ls i, Forall2 (vrels d h) pls ls ->
    vrels d h (map (fun l => nth i l QNone) pls) (map (fun l => nth i l VNone) ls).
  Proof. intros h pls ls i H. induction H as [|pl l pls ls Hl _ IH]; cbn [map]; constructor; [now apply nth_vrels|exact IH]. Qed.

  Lemma items_rel : forall h es kvs, env_rel d h es kvs ->
    Forall2 (vrels d h) (map (fun kv => [QStr (fst kv); snd kv]) kvs) (map (fun kv => [VStr (fst kv); snd kv]) es).
  Proof.
    intros h es kvs H. induction H as [|kv pkv es kvs [Hk Hq] _ IH]; cbn [map]; constructor; [|exact IH].
    constructor; [now rewrite Hk|]. constructor; [exact Hq|constructor].
  Qed.

  Lemma native_sim : forall f n pvals vals st p, vrels d (hp st) pvals vals -> qnative f n pvals = Ok p -> sim st (native d f n vals st) p.
  Proof.
    intros f n pvals vals st p Hv H. unfold qnative in H. unfold native.
    pose proof (nth_vrels d (hp st) pvals vals 0%nat Hv) as H0.
    set (pa := nth 0%nat pvals QNone) in *. set (va := nth 0%nat vals VNone) in *.
    destruct (str_eqb n (s "len")).
    { destruct pa; try discriminate; injection H as <-.
      - cbn [vrel] in H0. rewrite H0. eapply ok_here; reflexivity.
      - destruct (vrel_list_inv d st l va H0) as (sl & -> & _ & Hl). rewrite Hl. eapply ok_here; reflexivity.
      - apply vrel_dict in H0. destruct H0 as (i & es & -> & H2 & _ & H4). unfold dict_of. cbn [hp snd] in H2.
        rewrite (nth_error_nth _ _ _ H2), (Forall2_length H4). eapply ok_here; reflexivity. }
    destruct (str_eqb n (s "str")).
    { destruct f as [|f']; [discriminate|]. destruct (qstr pa) as [x|] eqn:Eq; [|discriminate]. injection H as <-.
      assert (Hs : vstr d (S f') st true va = Ok x).
      { destruct pa; try discriminate; cbn [vrel] in H0; rewrite H0; injection Eq as <-; try reflexivity. destruct d; reflexivity. }
      rewrite Hs. cbn [rbind]. eapply ok_here; reflexivity. }
    destruct (str_eqb n (s "bool")).
    { injection H as <-. rewrite (truthy_rel d st pa va H0). eapply ok_here; reflexivity. }
    destruct (str_eqb n (s "enumerate")).
    { destruct pa; try discriminate. injection H as <-. destruct (vrel_list_inv d st l va H0) as (sl & -> & Hc & _).
      cbn [strict_list rbind].
      rewrite (mapM_map (fun iv : nat * value => [VInt (Z.of_nat (fst iv)); snd iv]) (fun row st0 => Ok (new_list row st0))).
      exact (rows_list_vrel d _ _ st (enum_rel (hp st) l _ 0%nat Hc)). }
    destruct (str_eqb n (s "zip")).
    { destruct (mapR qas_list pvals) as [pls| |] eqn:El; try discriminate. cbn [rbind] in H.
      destruct (as_lists_rel st pvals vals pls Hv El) as (ls & E & Hls). rewrite E. cbn [rbind].
      destruct Hls as [|pl0 l0 pls ls Hl0 Hls]; [discriminate|].
      rewrite (same_len_rel (hp st) (pl0 :: pls) (l0 :: ls) (length pl0) (length l0) (eq_sym (vrels_length _ _ _ _ Hl0)) (Forall2_cons _ _ Hl0 Hls)).
      destruct (forallb (fun l => Nat.eqb (length l) (length pl0)) (pl0 :: pls)); [|discriminate]. injection H as <-.
      rewrite (mapM_map (fun i : nat => map (fun l => nth i l VNone) (l0 :: ls)) (fun row st0 => Ok (new_list row st0))).
      rewrite (vrels_length _ _ _ _ Hl0).
      apply (rows_list_vrel d _ _ st). apply Forall2_map_same. intros i. exact (column_rel (hp st) (pl0 :: pls) (l0 :: ls) i (Forall2_cons _ _ Hl0 Hls)). }
    destruct (str_eqb n (s "any")).
    { destruct pa; try discriminate. injection H as <-. destruct (vrel_list_inv d st l va H0) as (sl & -> & Hc & _).
      cbn [strict_list rbind]. rewrite (existsb_truthy_rel st l _ Hc). eapply ok_here; reflexivity. }
    destruct (str_eqb n (s "all")).
    { destruct pa; try discriminate. injection H as <-. destruct (vrel_list_inv d st l va H0) as (sl & -> & Hc & _).
      cbn [strict_list rbind]. rewrite (forallb_truthy_rel st l _ Hc). eapply ok_here; reflexivity. }
    destruct (str_eqb n (s "reversed")).
    { destruct pa; try discriminate. injection H as <-. destruct (vrel_list_inv d st l va H0) as (sl & -> & Hc & _).
      cbn [strict_list rbind]. destruct (new_list_vrel d st (rev l) (rev (list_items d st sl)) (Forall2_rev _ _ _ Hc)) as (v & st' & E & Hx & Hv').
      rewrite E. now exists v, st'. }
    pose proof (nth_vrels d (hp st) pvals vals 1%nat Hv) as H1. pose proof (nth_vrels d (hp st) pvals vals 2%nat Hv) as H2.
    set (p1 := nth 1%nat pvals QNone) in *. set (v1 := nth 1%nat vals VNone) in *.
    set (p2 := nth 2%nat pvals QNone) in *. set (v2 := nth 2%nat vals VNone) in *.
    assert (Hless : forall o, less_rel st (fun x y => match f with O => OutOfFuel | S _ => qcmp o x y end) (fun x y => vcmp d f st o x y)).
    { intros o pa0 pb0 va0 vb0 b Ha Hb Hq. destruct f as [|f']; [discriminate|]. now apply (vcmp_rel f' st o pa0 pb0). }
    destruct (str_eqb n (s "sorted")).
    { destruct pa; try discriminate. destruct (vrel_list_inv d st l va H0) as (sl & -> & Hc & _). cbn [strict_list rbind].
      destruct p1; try discriminate. cbn [vrel] in H1. rewrite H1. destruct p2; try discriminate. cbn [vrel] in H2. rewrite H2.
      destruct (all_kind_rel (hp st) l _ Hc) as [K1 K2]. rewrite K1, K2.
      destruct (negb (forallb q_is_int l || forallb q_is_str l)); [discriminate|]. rewrite Bool.andb_false_r.
      match type of H with (rbind ?m _) = _ => destruct m as [pr| |] eqn:Es end; try discriminate. cbn [rbind] in H. injection H as <-.
      destruct (insertion_sort_rel st _ _ (Hless (if b then C16_Syntax.Gt else C16_Syntax.Lt)) l _ pr Hc Es) as (r & E & Hr). rewrite E. cbn [rbind].
      destruct (new_list_vrel d st pr r Hr) as (v & st' & En & Hx & Hv'). rewrite En. now exists v, st'. }
    destruct (str_eqb n (s "min") || str_eqb n (s "max")).
    { destruct pa; try discriminate. destruct (vrel_list_inv d st l va H0) as (sl & -> & Hc & _). cbn [strict_list rbind].
      destruct p1; try discriminate. cbn [vrel] in H1. rewrite H1.
      destruct Hc as [|px x pr r Hx Hr]; [discriminate|].
      destruct (minmax_rel st _ _ (Hless (if str_eqb n (s "min") then C16_Syntax.Lt else C16_Syntax.Gt)) pr r Hr px x p Hx H) as (v & E & Hv').
      cbv zeta. rewrite E. cbn [rbind]. eapply ok_here; [reflexivity|exact Hv']. }
    discriminate.
  Qed.

  (* ================================================================ methods *)
  Lemma map_str_rel : forall h l, vrels d h (map QStr l) (map VStr l).
  Proof. intros h l. induction l; cbn [map]; constructor; [reflexivity|assumption]. Qed.

  Lemma join_rel : forall h ps vs xs, vrels d h ps vs ->
    mapR (fun v => match v with QStr x => Ok x | _ => Err EType end) ps = Ok xs ->
    mapR (fun v => match v with VStr x => Ok x | _ => Err EType end) vs = Ok xs.
  Proof.
    intros h ps vs xs H. revert xs. induction H as [|p v ps vs Hp _ IH]; intros xs Hq; cbn [mapR] in *; [exact Hq|].
    destruct p; try discriminate. cbn [vrel] in Hp. subst v. cbn [rbind] in *.
    match type of Hq with context [mapR ?g ps] => destruct (mapR g ps) as [r| |] eqn:Er end; try discriminate. now rewrite (IH r eq_refl).
  Qed.

  Lemma native_method_sim : forall f m pvals vals st p, vrels d (hp st) pvals vals -> qnative_method m pvals = Ok p ->
    sim st (native_method d f m vals st) p.
  Proof.
    intros f m pvals vals st p Hv H. unfold qnative_method in H. unfold native_method.
    pose proof (nth_vrels d (hp st) pvals vals 0%nat Hv) as H0. pose proof (nth_vrels d (hp st) pvals vals 1%nat Hv) as H1.
    pose proof (nth_vrels d (hp st) pvals vals 2%nat Hv) as H2.
    set (p0 := nth 0%nat pvals QNone) in *. set (v0 := nth 0%nat vals VNone) in *.
    set (p1 := nth 1%nat pvals QNone) in *. set (v1 := nth 1%nat vals VNone) in *.
    set (p2 := nth 2%nat pvals QNone) in *. set (v2 := nth 2%nat vals VNone) in *.
    destruct p0; try discriminate.
    - (* strings *)
      cbn [vrel] in H0. rewrite H0.
      destruct (str_eqb m (s "join")).
      { destruct p1; try discriminate. destruct (vrel_list_inv d st l v1 H1) as (sl & -> & Hc & _). cbn [as_list].
        match type of H with context [mapR ?g l] => destruct (mapR g l) as [xs| |] eqn:Em end; try discriminate. cbn [rbind] in H. injection H as <-.
        rewrite (join_rel _ _ _ _ Hc Em). cbn [rbind]. eapply ok_here; reflexivity. }
      destruct (str_eqb m (s "split")).
      { destruct p1; try discriminate. cbn [vrel] in H1. rewrite H1. destruct x0 as [|c sep]; [discriminate|]. injection H as <-.
        destruct (new_list_vrel d st _ _ (map_str_rel (hp st) (str_split (c :: sep) x))) as (v & st' & E & Hx & Hv').
        rewrite E. now exists v, st'. }
      destruct (str_eqb m (s "startswith")).
      { destruct p1; try discriminate. cbn [vrel] in H1. rewrite H1. injection H as <-. eapply ok_here; reflexivity. }
      destruct (str_eqb m (s "endswith")).
      { destruct p1; try discriminate. cbn [vrel] in H1. rewrite H1. injection H as <-. eapply ok_here; reflexivity. }
      destruct (str_eqb m (s "upper")).
      { destruct (ascii_map _ x) as [r| |]; try discriminate. cbn [rbind] in *. injection H as <-. eapply ok_here; reflexivity. }
      destruct (str_eqb m (s "lower")).
      { destruct (ascii_map _ x) as [r| |]; try discriminate. cbn [rbind] in *. injection H as <-. eapply ok_here; reflexivity. }
      discriminate.
    - (* dicts *)
      apply vrel_dict in H0. destruct H0 as (i & es & -> & E2 & Hss & H4). unfold dict_of. cbn [hp snd] in E2. rewrite (nth_error_nth _ _ _ E2).
      assert (Henum : dict_enum d es = es) by (pose proof (sorted_sort_id d _ es kvs H4 Hss) as Hsi; destruct d; [exact Hsi|reflexivity]).
      rewrite Henum.
      destruct (str_eqb m (s "get")).
      { destruct p1; try discriminate. cbn [vrel] in H1. rewrite H1. injection H as <-.
        pose proof (env_get_rel d _ x _ _ H4) as Hg. destruct (qenv_get x kvs) as [q|].
        - destruct Hg as (v & -> & Hq). eapply ok_here; [reflexivity|exact Hq].
        - rewrite Hg. eapply ok_here; [reflexivity|exact H2]. }
      destruct (str_eqb m (s "keys")).
      { injection H as <-.
        assert (Hk : vrels d (hp st) (map (fun kv => QStr (fst kv)) kvs) (map (fun kv => VStr (fst kv)) es)).
        { clear - H4. induction H4 as [|kv pkv es kvs [Hk _] _ IH]; cbn [map]; constructor; [now rewrite Hk|exact IH]. }
        destruct (new_list_vrel d st _ _ Hk) as (v & st' & E & Hx & Hv'). rewrite E. now exists v, st'. }
      destruct (str_eqb m (s "values")).
      { injection H as <-.
        assert (Hk : vrels d (hp st) (map (@snd _ _) kvs) (map (@snd _ _) es)).
        { clear - H4. induction H4 as [|kv pkv es kvs [_ Hq] _ IH]; cbn [map]; constructor; [exact Hq|exact IH]. }
        destruct (new_list_vrel d st _ _ Hk) as (v & st' & E & Hx & Hv'). rewrite E. now exists v, st'. }
      destruct (str_eqb m (s "items")).
      { injection H as <-.
        rewrite (mapM_map (fun kv : str * value => [VStr (fst kv); snd kv]) (fun row st0 => Ok (new_list row st0))).
        exact (rows_list_vrel d _ _ st (items_rel (hp st) es kvs H4)). }
      discriminate.
  Qed.

  Lemma meth_sim : forall f ps ev, (forall e st p, srel d st ps -> ev e = Ok p -> sim st (EE f e st) p) ->
    forall pobj obj m args st p, srel d st ps -> vr st pobj obj -> qcall_method ev pobj m args = Ok p ->
    sim st (match obj with
            | VStr _ => call_m d [] f m args obj st str_methods
            | VDict i | VFrozenDict i =>
                match env_get m (dict_of st i) with
                | Some _ => Err EUnsupported
                | None => call_m d [] f m args obj st dict_methods
                end
            | _ => Err EType
            end) p.
  Proof.
    intros f ps ev HE pobj obj m args st p Hs Ho H. unfold qcall_method in H.
    assert (Hcm : forall table, (if existsb (str_eqb m) table then
                                   match method_sig m with
                                   | None => Err EUnsupported
                                   | Some sg => if Nat.ltb (length sg) (S (length args)) then Err EType else
                                                do vals <- qmeth_loop ev args (tl (qsig_of sg)); qnative_method m (pobj :: vals)
                                   end
                                 else Err EUnsupported) = Ok p -> sim st (call_m d [] f m args obj st table) p).
    { intros table H0. unfold call_m. destruct (existsb (str_eqb m) table); [|discriminate].
      destruct (method_sig m) as [sg|] eqn:Esg; [|discriminate]. destruct (Nat.ltb (length sg) (S (length args))); [discriminate|].
      destruct (qmeth_loop ev args (tl (qsig_of sg))) as [pvals| |] eqn:El; try discriminate. cbn [rbind] in H0.
      pose proof (method_sig_ok m sg Esg) as Hok.
      assert (Hok' : sig_ok (tl sg)) by (destruct sg; [constructor|inversion Hok; assumption]).
      assert (Etl : tl (qsig_of sg) = qsig_of (tl sg)) by (destruct sg; reflexivity). rewrite Etl in El.
      destruct (meth_loop_sim f ps ev HE (tl sg) Hok' args st pvals Hs El) as (vals & st1 & E1 & Hx & Hv). rewrite E1. cbn [rbind].
      apply (sim_xle d st st1); [exact Hx|]. apply (native_method_sim f m (pobj :: pvals) (obj :: vals) st1 p); [|exact H0].
      constructor; [now apply (vr_xle d st)|exact Hv]. }
    destruct pobj; try discriminate.
    - cbn [vrel] in Ho. subst obj. now apply Hcm.
    - pose proof Ho as Ho'. apply vrel_dict in Ho'. destruct Ho' as (i & es & -> & E2 & _ & H4). unfold dict_of. cbn [hp snd] in E2.
      rewrite (nth_error_nth _ _ _ E2). pose proof (env_get_rel d _ m _ _ H4) as Hg. destruct (qenv_get m kvs); [discriminate|]. rewrite Hg.
      now apply Hcm.
  Qed.
End Nat.
