(* C25 - the packages gc.go enumerates its roots over.
   targetsToRemove ranges over graph.PackageMap(), a COPY of the graph's package store keyed by a string.
   This file proves, about the keys regenerated from graph.go / build_label.go (Gen/GcPkgMap.v), that for
   every history of AddPackage calls the copy loses no package - the values of PackageMap() are exactly the
   packages that were added - and carries the safety theorems of Proof/C25.v over to the specification
   stated on ALL packages of the graph (every package's subincludes are roots; a named //pkg/... names the
   targets of every package it includes). *)
From PlzV Require Import Base.Harness Base.StrFacts Gen.GcPkgMap Model.C25 Proof.C25_Spec Proof.C25.
From Coq Require Import Permutation.

(* ---- well-formed names ---------------------------------------------------------------------------- *)
Definition c_at : N := 64.     (* '@' *)

(* x followed by a slash contains no "//": no "//" inside x, no "/" at its end *)
Fixpoint no_dslash (x : str) : bool :=
  match x with
  | [] => true
  | a :: t => match t with
              | [] => negb (N.eqb a c_slash)
              | b :: _ => negb (N.eqb a c_slash && N.eqb b c_slash) && no_dslash t
              end
  end.

(* a package of the host repository: its name does not begin with '@' (that is how a label names a
   subrepo); a package of a subrepo: the subrepo's name has no "//" and no trailing "/" *)
Definition wf_key (sub name : str) : bool :=
  if str_eqb sub [] then match name with a :: _ => negb (N.eqb a c_at) | [] => true end
  else no_dslash sub.
Definition wf_pkg (p : pkg) : bool := wf_key (p_sub p) (p_name p).

(* ---- packageKey.String(), as regenerated ---------------------------------------------------------------
   (this is the lemma that no longer checks when String() stops mentioning one of the two fields) *)
Lemma package_key_string_spec sub name :
  GcPkgMap.package_key_string sub name = if str_eqb sub [] then name else c_at :: sub ++ c_slash :: c_slash :: name.
Proof.
  unfold GcPkgMap.package_key_string. change (s "") with (@nil N).
  destruct (str_eqb sub []); cbn [negb]; [reflexivity|].
  change (s "@") with [c_at]. change (s "//") with [c_slash; c_slash].
  rewrite <- !app_assoc. reflexivity.
Qed.

(* split at the first "//" *)
Fixpoint cut_dslash (x : str) : option (str * str) :=
  match x with
  | [] => None
  | a :: t => match t with
              | [] => None
              | b :: r => if N.eqb a c_slash && N.eqb b c_slash then Some ([], r)
                          else match cut_dslash t with Some (p, q) => Some (a :: p, q) | None => None end
              end
  end.

Lemma cut_dslash_cons a b r :
  cut_dslash (a :: b :: r) = if N.eqb a c_slash && N.eqb b c_slash then Some ([], r)
                             else match cut_dslash (b :: r) with Some (p, q) => Some (a :: p, q) | None => None end.
Proof. reflexivity. Qed.

Lemma cut_dslash_app name : forall sub, no_dslash sub = true ->
  cut_dslash (sub ++ c_slash :: c_slash :: name) = Some (sub, name).
Proof.
  induction sub as [|a t IH]; intros Hwf.
  - cbn [app]. rewrite cut_dslash_cons, N.eqb_refl. reflexivity.
  - destruct t as [|b t'].
    + cbn [no_dslash] in Hwf. apply negb_true_iff in Hwf. cbn [app]. rewrite cut_dslash_cons, Hwf. cbn [andb].
      rewrite cut_dslash_cons, N.eqb_refl. reflexivity.
    + cbn [no_dslash] in Hwf. apply andb_true_iff in Hwf. destruct Hwf as [Hab Ht].
      apply negb_true_iff in Hab. specialize (IH Ht).
      change ((a :: b :: t') ++ c_slash :: c_slash :: name) with (a :: b :: (t' ++ c_slash :: c_slash :: name)).
      rewrite cut_dslash_cons, Hab.
      change (b :: t' ++ c_slash :: c_slash :: name) with ((b :: t') ++ c_slash :: c_slash :: name).
      rewrite IH. reflexivity.
Qed.

(* reading (subrepo, name) back from the string key *)
Definition unkey (k : str) : str * str :=
  match k with
  | [] => ([], [])
  | a :: r => if N.eqb a c_at
              then match cut_dslash r with Some (sub, name) => (sub, name) | None => ([], k) end
              else ([], k)
  end.

(* the key PackageMap() uses, as regenerated, determines the package's subrepo and name
   (this is the lemma that no longer checks when PackageMap() keys the copy by less than both) *)
Lemma unkey_pkgmap_key sub name : wf_key sub name = true -> unkey (GcPkgMap.pkgmap_key sub name) = (sub, name).
Proof.
  unfold wf_key, GcPkgMap.pkgmap_key. rewrite package_key_string_spec.
  destruct (str_eqb_spec sub []) as [->|Hne]; intros Hwf.
  - destruct name as [|a r]; [reflexivity|]. cbn [unkey]. apply negb_true_iff in Hwf. rewrite Hwf. reflexivity.
  - cbn [unkey]. rewrite N.eqb_refl. rewrite (cut_dslash_app name sub Hwf). reflexivity.
Qed.

Lemma store_key_spec sub name : GcPkgMap.store_key sub name = (sub, name).
Proof. reflexivity. Qed.

(* two well-formed packages with the same PackageMap() key have the same AddPackage key *)
Lemma pkgmap_key_inj p q : wf_pkg p = true -> wf_pkg q = true ->
  pkgmap_key_of p = pkgmap_key_of q -> store_key_of p = store_key_of q.
Proof.
  unfold wf_pkg, pkgmap_key_of, store_key_of. intros Hp Hq E. rewrite !store_key_spec.
  pose proof (unkey_pkgmap_key _ _ Hp) as Up. pose proof (unkey_pkgmap_key _ _ Hq) as Uq.
  rewrite E in Up. rewrite Up in Uq. exact Uq.
Qed.

(* ---- the store: an invariant over every history of AddPackage ---------------------------------------- *)
Lemma key_pair_eqb_spec a b : reflect (a = b) (key_pair_eqb a b).
Proof.
  destruct a as [a1 a2], b as [b1 b2]. unfold key_pair_eqb. cbn [fst snd].
  destruct (str_eqb_spec a1 b1) as [->|N1]; [|right; congruence].
  destruct (str_eqb_spec a2 b2) as [->|N2]; [left; reflexivity|right; congruence].
Qed.

Definition store_inv (st : store) : Prop := NoDup (map store_key_of st).

Lemma add_package_none ps : fold_left add_package ps None = None.
Proof. induction ps as [|p r IH]; [reflexivity|exact IH]. Qed.

Lemma add_package_step st p st' : add_package (Some st) p = Some st' ->
  st' = st ++ [p] /\ ~ In (store_key_of p) (map store_key_of st).
Proof.
  unfold add_package. destruct (existsb _ st) eqn:E; [discriminate|]. intros H. injection H as <-.
  split; [reflexivity|]. intros Hin. apply in_map_iff in Hin. destruct Hin as [q [Hk Hq]].
  assert (Ht : existsb (fun q => key_pair_eqb (store_key_of q) (store_key_of p)) st = true).
  { apply existsb_exists. exists q. split; [exact Hq|]. rewrite Hk. destruct (key_pair_eqb_spec (store_key_of p) (store_key_of p)); congruence. }
  congruence.
Qed.

Lemma NoDup_snoc {X} (l : list X) x : NoDup l -> ~ In x l -> NoDup (l ++ [x]).
Proof.
  induction l as [|y r IH]; intros Hnd Hx; cbn [app].
  - constructor; [intros []|constructor].
  - inversion Hnd as [|? ? Hy Hr]; subst. constructor.
    + intros Hin. apply in_app_or in Hin. destruct Hin as [Hin|[<-|[]]]; [contradiction|]. apply Hx. left. reflexivity.
    + apply IH; [assumption|]. intros Hin. apply Hx. right. assumption.
Qed.

(* whatever the history of AddPackage calls (that did not panic), from whatever store satisfying the
   invariant: the store keys stay pairwise different, nothing is lost, nothing is invented *)
Lemma add_packages_from : forall ps st0 st, store_inv st0 -> fold_left add_package ps (Some st0) = Some st ->
  store_inv st /\ st = st0 ++ ps.
Proof.
  induction ps as [|p r IH]; intros st0 st Hinv H; cbn [fold_left] in H.
  - injection H as <-. split; [assumption|]. symmetry. apply app_nil_r.
  - destruct (add_package (Some st0) p) as [st1|] eqn:E1; [|rewrite add_package_none in H; discriminate].
    destruct (add_package_step _ _ _ E1) as [-> Hfresh].
    assert (Hinv1 : store_inv (st0 ++ [p])).
    { unfold store_inv. rewrite map_app. cbn [map]. apply NoDup_snoc; assumption. }
    destruct (IH _ _ Hinv1 H) as [Hinv' ->]. split; [assumption|]. rewrite <- app_assoc. reflexivity.
Qed.

Theorem add_packages_inv ps st : add_packages ps = Some st -> store_inv st /\ st = ps.
Proof.
  unfold add_packages. intros H. destruct (add_packages_from ps [] st) as [Hinv Heq]; [constructor|exact H|].
  split; assumption.
Qed.

Lemma NoDup_map_inj {X Y} (f : X -> Y) : forall l, NoDup (map f l) -> forall a b, In a l -> In b l -> f a = f b -> a = b.
Proof.
  induction l as [|x r IH]; intros Hnd a b Ha Hb E; [destruct Ha|].
  cbn [map] in Hnd. inversion Hnd as [|? ? Hx Hr]; subst.
  destruct Ha as [<-|Ha], Hb as [<-|Hb].
  - reflexivity.
  - exfalso. apply Hx. rewrite E. apply in_map. assumption.
  - exfalso. apply Hx. rewrite <- E. apply in_map. assumption.
  - eapply IH; eassumption.
Qed.

(* ---- the copy: map[string]*Package ------------------------------------------------------------------- *)
Lemma pm_set_has m k v : In (k, v) (pm_set m k v).
Proof.
  induction m as [|[k' v'] r IH]; cbn [pm_set]; [left; reflexivity|].
  destruct (str_eqb k' k); [left; reflexivity|right; exact IH].
Qed.

Lemma pm_set_keeps m k v k' v' : In (k', v') m -> k' <> k -> In (k', v') (pm_set m k v).
Proof.
  induction m as [|[k1 v1] r IH]; intros Hin Hne; [destruct Hin|]. cbn [pm_set].
  destruct (str_eqb_spec k1 k) as [->|N1].
  - destruct Hin as [E|Hin]; [injection E as <- <-; contradiction|right; assumption].
  - destruct Hin as [E|Hin]; [left; assumption|right; apply IH; assumption].
Qed.

Lemma pm_set_In m k v k' v' : In (k', v') (pm_set m k v) -> (k' = k /\ v' = v) \/ In (k', v') m.
Proof.
  induction m as [|[k1 v1] r IH]; cbn [pm_set]; intros Hin.
  - destruct Hin as [E|[]]. injection E as <- <-. left. split; reflexivity.
  - destruct (str_eqb k1 k).
    + destruct Hin as [E|Hin]; [injection E as <- <-; left; split; reflexivity|right; right; assumption].
    + destruct Hin as [E|Hin]; [right; left; assumption|]. destruct (IH Hin) as [H|H]; [left; assumption|right; right; assumption].
Qed.

Lemma pm_set_keys m k v : NoDup (map fst m) -> NoDup (map fst (pm_set m k v)).
Proof.
  induction m as [|[k1 v1] r IH]; intros Hnd; cbn [pm_set].
  - constructor; [intros []|constructor].
  - cbn [map fst] in Hnd. inversion Hnd as [|? ? Hk Hr]; subst.
    destruct (str_eqb_spec k1 k) as [->|N1]; cbn [map fst]; constructor; try assumption.
    + intros Hin. apply in_map_iff in Hin. destruct Hin as [[k2 v2] [E Hin]]. cbn [fst] in E. subst k2.
      destruct (pm_set_In _ _ _ _ _ Hin) as [[E _]|Hin']; [congruence|].
      apply Hk. change k1 with (fst (k1, v2)). apply in_map. assumption.
    + apply IH. assumption.
Qed.

Definition keyed (m : pmap) : Prop := forall k v, In (k, v) m -> k = pkgmap_key_of v.
Definition key_inj_on (l : list pkg) : Prop :=
  forall p q, In p l -> In q l -> pkgmap_key_of p = pkgmap_key_of q -> p = q.

Lemma package_map_from : forall vals m,
  keyed m -> key_inj_on (pm_values m ++ vals) ->
  let m' := fold_left (fun m p => pm_set m (pkgmap_key_of p) p) vals m in
  incl m m' /\ (forall p, In p vals -> In (pkgmap_key_of p, p) m').
Proof.
  induction vals as [|p r IH]; intros m Hk Hinj; cbn [fold_left].
  - split; [apply incl_refl|intros p []].
  - set (m1 := pm_set m (pkgmap_key_of p) p).
    assert (Hincl1 : incl m m1).
    { intros [k v] Hin. destruct (str_eqb_spec k (pkgmap_key_of p)) as [E|N].
      - assert (v = p).
        { apply Hinj.
          - apply in_or_app. left. unfold pm_values. change v with (snd (k, v)). apply in_map. assumption.
          - apply in_or_app. right. left. reflexivity.
          - rewrite <- (Hk _ _ Hin). exact E. }
        subst v k. apply pm_set_has.
      - apply pm_set_keeps; assumption. }
    assert (Hk1 : keyed m1).
    { intros k v Hin. destruct (pm_set_In _ _ _ _ _ Hin) as [[-> ->]|Hin']; [reflexivity|apply Hk; assumption]. }
    assert (Hinj1 : key_inj_on (pm_values m1 ++ r)).
    { assert (Hsub : incl (pm_values m1 ++ r) (pm_values m ++ p :: r)).
      { intros x Hx. apply in_app_or in Hx. destruct Hx as [Hx|Hx].
        - unfold pm_values in Hx. apply in_map_iff in Hx. destruct Hx as [[k v] [E Hin]]. cbn [snd] in E. subst x.
          destruct (pm_set_In _ _ _ _ _ Hin) as [[_ ->]|Hin'].
          + apply in_or_app. right. left. reflexivity.
          + apply in_or_app. left. unfold pm_values. change v with (snd (k, v)). apply in_map. assumption.
        - apply in_or_app. right. right. assumption. }
      intros a b Ha Hb. apply Hinj; apply Hsub; assumption. }
    destruct (IH m1 Hk1 Hinj1) as [Hincl' Hall]. split.
    + eapply incl_tran; eassumption.
    + intros q [<-|Hq]; [apply Hincl', pm_set_has|apply Hall; assumption].
Qed.

(* nothing is invented, and the copy is a map: one entry per key *)
Lemma package_map_sound_from : forall vals m k v,
  In (k, v) (fold_left (fun m p => pm_set m (pkgmap_key_of p) p) vals m) ->
  In (k, v) m \/ (In v vals /\ k = pkgmap_key_of v).
Proof.
  induction vals as [|p r IH]; intros m k v Hin; cbn [fold_left] in Hin; [left; assumption|].
  destruct (IH _ _ _ Hin) as [H|[H1 H2]].
  - destruct (pm_set_In _ _ _ _ _ H) as [[-> ->]|H']; [right; split; [left; reflexivity|reflexivity]|left; assumption].
  - right. split; [right; assumption|assumption].
Qed.

Lemma package_map_keys : forall vals m, NoDup (map fst m) ->
  NoDup (map fst (fold_left (fun m p => pm_set m (pkgmap_key_of p) p) vals m)).
Proof.
  induction vals as [|p r IH]; intros m Hnd; cbn [fold_left]; [assumption|]. apply IH, pm_set_keys, Hnd.
Qed.

(* ---- PackageMap() loses no package ----------------------------------------------------------------------
   For EVERY history ps of AddPackage calls on a new graph that did not panic, every order vals in which
   graph.packages.Values() may list the store, and well-formed names: the values of PackageMap() are exactly
   the packages that were added, each under its own key, one entry per key. *)
Theorem package_map_exact ps st vals :
  add_packages ps = Some st -> Permutation st vals -> (forall p, In p ps -> wf_pkg p = true) ->
  (forall p, In p (pm_values (package_map vals)) <-> In p ps)
  /\ (forall p, In p ps -> In (pkgmap_key_of p, p) (package_map vals))
  /\ NoDup (map fst (package_map vals))
  /\ length (package_map vals) = length ps.
Proof.
  intros Hadd Hperm Hwf. destruct (add_packages_inv _ _ Hadd) as [Hinv ->].
  assert (Hin : forall p, In p vals <-> In p ps).
  { intros p. split; intros H; [eapply Permutation_in; [apply Permutation_sym|]; eassumption|eapply Permutation_in; eassumption]. }
  assert (Hinj : key_inj_on (pm_values [] ++ vals)).
  { cbn [pm_values map app]. intros p q Hp Hq E. apply Hin in Hp, Hq.
    eapply (NoDup_map_inj store_key_of ps Hinv); try assumption.
    apply pkgmap_key_inj; [apply Hwf; assumption|apply Hwf; assumption|exact E]. }
  destruct (package_map_from vals [] (fun k v H => match H with end) Hinj) as [_ Hall].
  assert (Hkeys : NoDup (map fst (package_map vals))) by (apply package_map_keys; constructor).
  assert (Hsound : forall k v, In (k, v) (package_map vals) -> In v vals /\ k = pkgmap_key_of v).
  { intros k v H. destruct (package_map_sound_from _ _ _ _ H) as [[]|H']. exact H'. }
  split; [|split; [|split]].
  - intros p. split.
    + unfold pm_values. intros H. apply in_map_iff in H. destruct H as [[k v] [E H]]. cbn [snd] in E. subst v.
      apply Hin. apply (Hsound _ _ H).
    + intros H. unfold pm_values. change p with (snd (pkgmap_key_of p, p)). apply in_map. apply Hall, Hin, H.
  - intros p H. apply Hall, Hin, H.
  - exact Hkeys.
  - (* as many entries as packages: the keys of the copy and the store keys are in bijection *)
    assert (Hnd_vals : NoDup vals).
    { eapply Permutation_NoDup; [exact Hperm|]. eapply NoDup_map_inv. exact Hinv. }
    assert (Hnd_m : NoDup (package_map vals)).
    { eapply NoDup_map_inv. exact Hkeys. }
    apply Nat.le_antisymm.
    + rewrite <- (map_length snd (package_map vals)).
      apply NoDup_incl_length.
      * (* the values are pairwise different: equal values have equal keys *)
        clear - Hkeys Hsound. induction (package_map vals) as [|[k v] r IH]; [constructor|].
        cbn [map fst snd] in *. inversion Hkeys as [|? ? Hk Hr]; subst. constructor.
        -- intros Hv. apply in_map_iff in Hv. destruct Hv as [[k2 v2] [E H2]]. cbn [snd] in E. subst v2.
           apply Hk. destruct (Hsound k v (or_introl eq_refl)) as [_ ->].
           destruct (Hsound k2 v (or_intror H2)) as [_ E2]. rewrite <- E2.
           change k2 with (fst (k2, v)). apply in_map. assumption.
        -- apply IH; [assumption|]. intros k' v' H'. apply Hsound. right. assumption.
      * intros v Hv. apply in_map_iff in Hv. destruct Hv as [[k v'] [E H]]. cbn [snd] in E. subst v'.
        apply Hin. apply (Hsound _ _ H).
    + rewrite (Permutation_length Hperm).
      rewrite <- (map_length (fun p => (pkgmap_key_of p, p)) vals). apply NoDup_incl_length.
      * apply FinFun.Injective_map_NoDup; [|exact Hnd_vals]. intros a b E. injection E as _ E. exact E.
      * intros e He. apply in_map_iff in He. destruct He as [p [<- Hp]]. apply Hall. exact Hp.
Qed.

(* ---- the specification does not depend on how the packages are listed ------------------------------- *)
Section SameSpec.
Variables (g1 g2 : graph) (a : args).
Hypothesis Hts : g_targets g1 = g_targets g2.
Hypothesis Hps : forall p, In p (g_pkgs g1) <-> In p (g_pkgs g2).

Lemma find_target_same l : find_target g1 l = find_target g2 l.
Proof. unfold find_target. rewrite Hts. reflexivity. Qed.

Lemma exists_in_same l : exists_in g1 l -> exists_in g2 l.
Proof. unfold exists_in. rewrite find_target_same. exact (fun H => H). Qed.

Lemma test_of_same t x : test_of g1 t x -> test_of g2 t x.
Proof.
  induction 1 as [t d x Hd Hf Hp | t d h x Hd Hf Hp Hto IH | t l x Hs Hf].
  - eapply TO_direct; [exact Hd|rewrite <- find_target_same; exact Hf|exact Hp].
  - eapply TO_hidden; [exact Hd|rewrite <- find_target_same; exact Hf|exact Hp|exact IH].
  - eapply TO_subrepo; [exact Hs|rewrite <- find_target_same; exact Hf].
Qed.

Lemma root_same t : root g1 a t -> root g2 a t.
Proof.
  intros [H|[H|[H|[H|[l [p [Hl [Has [Hp [Hinc Hx]]]]]]]]]].
  - left. exact H.
  - right. left. exact H.
  - right. right. left. exact H.
  - right. right. right. left. exact H.
  - right. right. right. right. exists l, p. repeat split; try assumption. apply Hps. exact Hp.
Qed.

Lemma subincluded_same l : subincluded g1 l -> subincluded g2 l.
Proof. intros [p [Hp Hl]]. exists p. split; [apply Hps; exact Hp|exact Hl]. Qed.

Lemma Kept0_same l : Kept0 g1 a l -> Kept0 g2 a l.
Proof.
  induction 1 as [t Hin Hr|l Hs Hex|l t d HK IH Hf Hd Hex].
  - apply K0_root; [rewrite <- Hts; exact Hin|apply root_same; exact Hr].
  - apply K0_subinclude; [apply subincluded_same; exact Hs|apply exists_in_same; exact Hex].
  - eapply K0_dep; [exact IH|rewrite <- find_target_same; exact Hf|exact Hd|apply exists_in_same; exact Hex].
Qed.

Lemma Kept1_same l : Kept1 g1 a l -> Kept1 g2 a l.
Proof.
  induction 1 as [l H0|t x Hin Ht Hinc Hto H0 Ho|l t d HK IH Hf Hd Hex].
  - apply K1_base, Kept0_same, H0.
  - eapply K1_test; [rewrite <- Hts; exact Hin|exact Ht|exact Hinc|apply test_of_same; exact Hto|apply Kept0_same; exact H0|exact Ho].
  - eapply K1_dep; [exact IH|rewrite <- find_target_same; exact Hf|exact Hd|apply exists_in_same; exact Hex].
Qed.

Lemma Kept_same l : Kept g1 a l -> Kept g2 a l.
Proof.
  induction 1 as [t Hin Hr|l Hs Hex|l t d HK IH Hf Hd Hex|t x Hin Ht Hto HK IH Ho].
  - apply K_root; [rewrite <- Hts; exact Hin|apply root_same; exact Hr].
  - apply K_subinclude; [apply subincluded_same; exact Hs|apply exists_in_same; exact Hex].
  - eapply K_dep; [exact IH|rewrite <- find_target_same; exact Hf|exact Hd|apply exists_in_same; exact Hex].
  - eapply K_test; [rewrite <- Hts; exact Hin|exact Ht|apply test_of_same; exact Hto|exact IH|exact Ho].
Qed.

Lemma first_sibling_same t : forall ls, first_sibling g1 t ls = first_sibling g2 t ls.
Proof.
  induction ls as [|l r IH]; [reflexivity|]. cbn [first_sibling]. rewrite find_target_same.
  destruct (find_target g2 _); [reflexivity|exact IH].
Qed.

Lemma gc_sibling_same t : gc_sibling g1 t = gc_sibling g2 t.
Proof. unfold gc_sibling. apply first_sibling_same. Qed.
End SameSpec.

(* ---- GC roots are enumerated over ALL packages ------------------------------------------------------------
   all_pkgs ts ps is the graph of the SPECIFICATION: its packages are all the packages ever added.
   gc runs on gc_view of it: the packages PackageMap() hands out. *)
Definition all_pkgs (ts : list target) (ps : list pkg) : graph := G ts ps.

Section AllPackages.
Variables (ts : list target) (ps : list pkg) (st : store) (vals : list pkg) (a : args).
Hypothesis Hadd : add_packages ps = Some st.                     (* any history of AddPackage calls *)
Hypothesis Hperm : Permutation st vals.                         (* any order of graph.packages.Values() *)
Hypothesis Hwf : forall p, In p ps -> wf_pkg p = true.

Let spec := all_pkgs ts ps.
Let seen := G ts (pm_values (package_map vals)).                 (* what gc.go ranges over *)

Lemma seen_pkgs p : In p (g_pkgs spec) <-> In p (g_pkgs seen).
Proof. destruct (package_map_exact ps st vals Hadd Hperm Hwf) as [H _]. cbn [g_pkgs spec seen all_pkgs]. symmetry. apply H. Qed.

(* every subinclude of every package that was ever added to the graph is kept *)
Lemma every_subinclude_is_kept p l : In p ps -> In l (p_subincludes p) -> exists_in spec l -> Kept0 seen a l.
Proof.
  intros Hp Hl Hex. apply (Kept0_same spec seen a eq_refl seen_pkgs).
  apply K0_subinclude; [exists p; split; assumption|exact Hex].
Qed.

(* the unconditional theorem of Proof/C25.v, with the specification stated on ALL packages *)
Theorem gc_safe_one_round_all_packages rem srcs : gc seen a = Some (rem, srcs) ->
  (forall r, In r rem -> exists t, In t ts /\ t_label t = r /\ ~ Kept1 spec a (t_label (gc_sibling spec t))) /\
  (forall f, In f srcs -> forall k t, Kept1 spec a k -> find_target spec k = Some t -> ~ In f (t_srcs t)).
Proof.
  intros H. destruct (gc_safe_one_round _ _ _ _ H) as [Hrem Hsrcs]. split.
  - intros r Hr. destruct (Hrem r Hr) as [t [Hin [Hl Hn]]]. exists t. split; [exact Hin|]. split; [exact Hl|].
    intros HK. apply Hn. rewrite <- (gc_sibling_same spec seen eq_refl t).
    apply (Kept1_same spec seen a eq_refl seen_pkgs). exact HK.
  - intros f Hf k t HK Hft. apply (Hsrcs f Hf k t); [|exact Hft].
    apply (Kept1_same spec seen a eq_refl seen_pkgs). exact HK.
Qed.

(* ... and the full-strength theorem outside the defect classes *)
Theorem gc_safe_unless_defect_all_packages rem srcs : gc seen a = Some (rem, srcs) -> defect_class seen a = None ->
  safe_targets spec a rem /\ safe_sources spec a srcs.
Proof.
  intros H Hd. destruct (gc_safe_unless_defect _ _ _ _ H Hd) as [Ht Hs]. split.
  - intros r Hr HK. apply (Ht r Hr). apply (Kept_same spec seen a eq_refl seen_pkgs). exact HK.
  - intros f Hf k t HK Hft. apply (Hs f Hf k t); [|exact Hft].
    apply (Kept_same spec seen a eq_refl seen_pkgs). exact HK.
Qed.

(* in particular: a target that a package added to the graph subincludes, and that is its own gc sibling,
   is never proposed for removal, nor is anything (its own sibling) that it depends on *)
Corollary subinclude_never_removed rem srcs p l t :
  gc seen a = Some (rem, srcs) -> In p ps -> In l (p_subincludes p) ->
  In t ts -> t_label t = l -> (forall t', In t' ts -> t_label t' = l -> t_label (gc_sibling spec t') = l) ->
  ~ In l rem.
Proof.
  intros H Hp Hl Hin Hlab Hsib Hr. destruct (gc_safe_one_round_all_packages _ _ H) as [Hrem _].
  destruct (Hrem _ Hr) as [t' [Hin' [Hl' Hn]]]. apply Hn. rewrite (Hsib t' Hin' Hl').
  apply K1_base, K0_subinclude; [exists p; split; assumption|].
  subst l. apply (In_exists_in spec t). exact Hin.
Qed.
End AllPackages.

(* ---- witness: a subrepo package with the name of a host package ------------------------------------------ *)
(* //build_defs:defs is subincluded by the host package lib only; the subrepo third_party also has a
   package lib.  Both are in the copy, under "lib" and "@third_party//lib"; only //old:junk goes. *)
Definition sh_t (l : label) (binary : bool) (deps : list label) : target := T l binary false false [] deps deps None [] [].
Definition sh_ts : list target :=
  [ sh_t (lq "app" "main") true [lq "app" "util"]; sh_t (lq "app" "util") false [];
    sh_t (lq "build_defs" "defs") false [lq "build_defs" "helpers"]; sh_t (lq "build_defs" "helpers") false [];
    sh_t (lq "lib" "api") false [lq "lib" "codec"]; sh_t (lq "lib" "codec") false [];
    sh_t (lq "old" "junk") false [];
    sh_t (L (s "third_party") (s "lib") (s "vendored")) false [] ].
Definition sh_ps : list pkg :=
  [ P [] (s "app") [] [lq "app" "main"; lq "app" "util"];
    P [] (s "lib") [lq "build_defs" "defs"] [lq "lib" "api"; lq "lib" "codec"];
    P [] (s "build_defs") [] [lq "build_defs" "defs"; lq "build_defs" "helpers"];
    P [] (s "old") [] [lq "old" "junk"];
    P (s "third_party") (s "lib") [] [L (s "third_party") (s "lib") (s "vendored")] ].

Lemma w_shadow_ok :
  add_packages sh_ps = Some sh_ps /\ forallb wf_pkg sh_ps = true
  /\ map fst (package_map sh_ps) = [s "app"; s "lib"; s "build_defs"; s "old"; s "@third_party//lib"]
  /\ gc (gc_view (all_pkgs sh_ts sh_ps)) no_args = Some ([lq "lib" "api"; lq "lib" "codec"; lq "old" "junk"], [])
  /\ gc (gc_view (all_pkgs sh_ts sh_ps)) (A [] [lq "lib" "..."] [] [] false) = Some ([lq "old" "junk"], []).
Proof. vm_compute. repeat split. Qed.

(* ... whereas a copy keyed by the name alone (what the generated pkgmap_key must NOT be) loses the host
   package lib, whichever of the two is listed last, and with it the root //build_defs:defs *)
Definition package_map_by_name (vals : list pkg) : pmap := fold_left (fun m p => pm_set m (p_name p) p) vals [].
Lemma w_shadow_by_name_loses :
  length (package_map_by_name sh_ps) = 4%nat
  /\ gc (G sh_ts (pm_values (package_map_by_name sh_ps))) no_args
     = Some ([lq "build_defs" "defs"; lq "build_defs" "helpers"; lq "lib" "api"; lq "lib" "codec"; lq "old" "junk"], []).
Proof. vm_compute. split; reflexivity. Qed.
