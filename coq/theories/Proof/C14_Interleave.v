(* C14 - clean interleaved with the markDir calls of the process (Model/C14.v, `run`): the loop
   skeleton gotrans reads from dir_cache.go, its link to the hand-written `loop`, and the invariant
   "what is protected and still there stays there", for every interleaving. *)
From Coq Require Import String.
From PlzV Require Import Base.Harness Base.StrFacts Gen.CacheNames Model.C14 Proof.C14.
From Coq Require Import Lia Permutation List.

(* ============================== the skeleton of clean ============================== *)

(* regenerated from the source on every run: a change of the statement order of clean, or of the
   body of its eviction loop (for instance the loss of the per-entry isMarked test), breaks these *)
Lemma clean_phases_are : clean_phases = [PhWalk; PhReturnBelowHigh; PhSort; PhEvict; PhReturnTotal].
Proof. reflexivity. Qed.

Lemma evict_body_is : evict_body = [EvSkipIfMarked; EvEvictOrSkip; EvSubtractSize; EvBreakBelowLow].
Proof. reflexivity. Qed.

(* one iteration, written by hand *)
Definition iter (c : bool) (mk : marks) (low : N) (e : entry) (live : list item) (total : N)
  : flow * list item * N * bool :=
  match is_marked mk (e_path e) with
  | Some _ => (FContinue, live, total, false)
  | None =>
      let p' := append_last (e_path e) (s rename_suffix) in
      if rename_blocked c live p' then (FContinue, live, total, false)
      else if N.ltb (total - e_size e) low then (FBreak, delete live (e_path e) p', (total - e_size e)%N, true)
           else (FNext, delete live (e_path e) p', (total - e_size e)%N, true)
  end.

Lemma exec_body_iter c mk low e live total :
  exec_body c mk low e evict_body live total false = iter c mk low e live total.
Proof.
  rewrite evict_body_is. unfold iter. cbn [exec_body].
  destruct (is_marked mk (e_path e)); [reflexivity|].
  destruct (rename_blocked c live (append_last (e_path e) (s rename_suffix))); [reflexivity|].
  destruct (N.ltb (total - e_size e) low); reflexivity.
Qed.

Lemma do_label_iter c low x e r :
  cs_queue x = e :: r ->
  do_label c low x LIter =
  let '(fl, live', total', rem) := iter c (marks_of (cs_calls x)) low e (cs_live x) (cs_total x) in
  let kept' := if rem then cs_kept x else e :: cs_kept x in
  mkC (cs_calls x) (match fl with FBreak => [] | _ => r end) live' total'
      (if rem then e :: cs_removed x else cs_removed x)
      (match fl with FBreak => rev r ++ kept' | _ => kept' end).
Proof. intros Hq. unfold do_label. rewrite Hq, exec_body_iter. reflexivity. Qed.

(* ============================== without events: the loop of clean ============================== *)

Lemma run_empty_queue c low n : forall x, cs_queue x = [] -> run c low x (repeat LIter n) = x.
Proof.
  induction n as [|n IH]; intros x Hq; [reflexivity|].
  unfold run in *. cbn [repeat fold_left]. unfold do_label at 2. rewrite Hq. apply IH. exact Hq.
Qed.

Lemma run_cons c low x lb ls : run c low x (lb :: ls) = run c low (do_label c low x lb) ls.
Proof. reflexivity. Qed.

Lemma run_app c low x l1 l2 : run c low x (l1 ++ l2) = run c low (run c low x l1) l2.
Proof. unfold run. apply fold_left_app. Qed.

Lemma run_iters_loop c low calls : forall es live total rem kept n, (length es <= n)%nat ->
  let x := run c low (mkC calls es live total rem kept) (repeat LIter n) in
  let r := loop c (marks_of calls) low es live total in
  cs_calls x = calls /\ cs_live x = r_live r /\ cs_total x = r_total r
  /\ cs_removed x = rev (r_removed r) ++ rem /\ cs_kept x = rev (r_kept r) ++ kept.
Proof.
  induction es as [|e es IH]; intros live total rem kept n Hn.
  - cbn zeta. rewrite run_empty_queue by reflexivity. cbn. auto.
  - destruct n as [|n]; [cbn in Hn; lia|]. cbn [length] in Hn. cbn zeta.
    cbn [repeat]. rewrite run_cons.
    rewrite (do_label_iter c low _ e es) by reflexivity.
    cbn [cs_calls cs_live cs_total cs_removed cs_kept]. unfold iter. cbn [loop].
    destruct (is_marked (marks_of calls) (e_path e)).
    + destruct (IH live total rem (e :: kept) n ltac:(lia)) as [H1 [H2 [H3 [H4 H5]]]].
      cbn [r_live r_total r_removed r_kept]. rewrite H1, H2, H3, H4, H5.
      cbn [rev]. rewrite <- app_assoc. cbn. auto.
    + destruct (rename_blocked c live (append_last (e_path e) (s rename_suffix))).
      * destruct (IH live total rem (e :: kept) n ltac:(lia)) as [H1 [H2 [H3 [H4 H5]]]].
        cbn [r_live r_total r_removed r_kept]. rewrite H1, H2, H3, H4, H5.
        cbn [rev]. rewrite <- app_assoc. cbn. auto.
      * destruct (N.ltb (total - e_size e) low).
        -- rewrite run_empty_queue by reflexivity. cbn. auto.
        -- destruct (IH (delete live (e_path e) (append_last (e_path e) (s rename_suffix))) (total - e_size e)%N
                        (e :: rem) kept n ltac:(lia)) as [H1 [H2 [H3 [H4 H5]]]].
           cbn [r_live r_total r_removed r_kept]. rewrite H1, H2, H3, H4, H5.
           cbn [rev]. rewrite <- app_assoc. cbn. auto.
Qed.

(* with no markDir call during the loop, the interleaved run is clean *)
Theorem run_no_events sorter st n : (length (sorter (entries_of st)) <= n)%nat ->
  let x := run (st_compress st) (st_low st) (start sorter st) (repeat LIter n) in
  let r := clean_with sorter st in
  cs_live x = r_live r /\ cs_total x = r_total r
  /\ cs_removed x = rev (r_removed r) /\ cs_kept x = rev (r_kept r).
Proof.
  intros Hn. cbn zeta. rewrite clean_with_unfold. unfold start.
  destruct (N.ltb (size_of st) (st_high st)).
  - rewrite run_empty_queue by reflexivity. cbn. auto.
  - destruct (run_iters_loop (st_compress st) (st_low st) (st_calls st) (sorter (entries_of st))
                (st_items st) (size_of st) [] [] n Hn) as [_ [H2 [H3 [H4 H5]]]].
    rewrite H2, H3, H4, H5, !app_nil_r. auto.
Qed.

(* ============================== one removal ============================== *)

(* what a removal takes away (loop_deleted, for one step) *)
Lemma delete_or_deleted c its live e i :
  dirs_above its -> upclosed its live -> e_path e <> [] -> In i live ->
  rename_blocked c live (append_last (e_path e) (s rename_suffix)) = false ->
  In i (delete live (e_path e) (append_last (e_path e) (s rename_suffix))) \/ deleted_by c e i.
Proof.
  intros Hda Hup Hne Hi Hbl. set (tgt := append_last (e_path e) (s rename_suffix)) in *.
  destruct (negb (is_prefix (e_path e) (i_path i)) && negb (is_prefix tgt (i_path i))) eqn:Hf.
  - left. apply filter_In. split; assumption.
  - right. apply andb_false_iff in Hf as [Hf|Hf]; apply negb_false_iff in Hf; [left; exact Hf|].
    destruct (prefix_cases _ _ Hf) as [Heq|Hpp].
    + right. unfold rename_blocked in Hbl.
      assert (path_eqb (i_path i) tgt && (negb c || i_dir i) = false) as X.
      { destruct (path_eqb (i_path i) tgt && (negb c || i_dir i)) eqn:Y; [|reflexivity].
        assert (existsb (fun j => path_eqb (i_path j) tgt && (negb c || i_dir j)) live = true)
          by (apply existsb_exists; exists i; split; assumption). congruence. }
      rewrite <- Heq, path_eqb_refl in X. cbn [andb] in X. apply orb_false_iff in X as [X1 X2].
      apply negb_false_iff in X1. repeat split; auto.
    + exfalso. destruct Hup as [Hs Hu].
      destruct (Hda i tgt (Hs i Hi) Hpp) as [j [Hj [Hjp Hjd]]].
      { apply append_last_nonempty. exact Hne. }
      assert (In j live) as Hjl by (apply (Hu i j Hi Hj); rewrite Hjp; exact Hf).
      assert (existsb (fun j => path_eqb (i_path j) tgt && (negb c || i_dir j)) live = true) as X.
      { apply existsb_exists. exists j. split; [exact Hjl|]. rewrite Hjp, path_eqb_refl, Hjd, orb_true_r. reflexivity. }
      unfold rename_blocked in Hbl. congruence.
Qed.

(* The removal of a recognised entry that is unmarked under the calls made so far takes nothing that
   those calls protect.  `all` are the calls of the whole run; the side conditions are stated for them. *)
Lemma removal_spares_protected c its all calls h l a sz tm i q :
  wf (mkState c its all h l) = true ->
  d_ancestor (mkState c its all h l) = false -> d_tmp (mkState c its all h l) = false ->
  incl calls all ->
  In a its -> recognised c its a = true -> is_marked (marks_of calls) (i_path a) = None ->
  In i its -> deleted_by c (mkEntry (i_path a) sz tm) i ->
  In q (protected_paths (mkState c its calls h l)) -> is_prefix q (i_path i) = true -> False.
Proof.
  intros Hwf Hda Hdt Hinc Ha Hra Hma Hi Hd Hq Hqi.
  unfold wf in Hwf. apply andb_true_iff in Hwf as [Hwf Hkind]. apply andb_true_iff in Hwf as [Hwf Hcalls].
  apply andb_true_iff in Hwf as [Hdp Hfl].
  unfold d_ancestor in Hda. unfold d_tmp in Hdt.
  unfold calls_ok in Hcalls. unfold kind_ok in Hkind. rewrite forallb_forall in Hcalls, Hkind.
  remember (protected_paths (mkState c its all h l)) as pps eqn:Epps.
  assert (forall q, In q pps <-> exists m, In m all /\ (q = fst m \/ q = tmp_path c (fst m))) as Hpps
    by (intros q0; rewrite Epps; apply protected_paths_spec).
  clear Epps.
  apply protected_paths_spec in Hq. cbn [st_compress st_items st_calls] in *.
  destruct Hq as [m [Hm Hqm]].
  assert (In m all) as Hmall by (apply Hinc; exact Hm).
  assert (In q pps) as Hq by (apply Hpps; exists m; split; assumption).
  set (mk := marks_of calls) in *.
  assert (should_clean c (base (i_path a)) (i_dir a) = true) as Hsa
    by (unfold recognised in Hra; apply andb_true_iff in Hra as [_ H]; exact H).
  assert (i_path a <> []) as Hane by (eapply should_clean_nonempty; exact Hsa).
  assert (entry_path c (fst m) = true) as Hep by (apply Hcalls; exact Hmall).
  assert (fst m <> []) as Hmne by (eapply entry_path_nonempty; exact Hep).
  assert (q <> []) as Hqne by (destruct Hqm as [->| ->]; [exact Hmne | apply tmp_path_nonempty; exact Hmne]).
  assert (is_marked mk q <> None) as Hqmark.
  { apply is_marked_marks_of. destruct Hqm as [->|Hqm]; [exists m; split; [exact Hm | left; reflexivity]|].
    destruct c.
    - exfalso. cbn [andb] in Hdt.
      assert (existsb (fun i => existsb (fun c => is_prefix (tmp_path true (fst c)) (i_path i)) all) its = true) as X.
      { apply existsb_exists. exists i. split; [exact Hi|]. apply existsb_exists. exists m. split; [exact Hmall|]. rewrite <- Hqm. exact Hqi. }
      congruence.
    - exists m. split; [exact Hm|]. right. rewrite Hqm. apply tmp_path_uncompressed. }
  assert (proper_prefix q (i_path a) = true -> False) as Habove.
  { intros Hpp. destruct (dirs_present_spec _ Hdp a q Ha Hpp Hqne) as [j [Hj [Hjp Hjd]]].
    destruct c.
    - specialize (Hkind j Hj).
      replace (existsb (path_eqb (i_path j)) pps) with true in Hkind.
      + rewrite Hjd in Hkind. discriminate.
      + symmetry. apply existsb_exists. exists q. split; [exact Hq | rewrite Hjp; apply path_eqb_refl].
    - assert (should_clean false (base q) true = true) as Hsq.
      { unfold entry_path in Hep. cbn [suffix_of] in Hep. rewrite has_suffix_nil, trim_suffix_nil in Hep.
        cbn [andb] in Hep. apply final_key_shaped in Hep as [Hk1 Hk2].
        apply should_clean_spec. split; [reflexivity|]. cbn [suffix_of].
        destruct Hqm as [->| ->].
        - exists (base (fst m)). rewrite app_nil_r. auto.
        - rewrite tmp_path_uncompressed, base_append_last by exact Hmne.
          exists (base (fst m) ++ s mark_suffix). rewrite app_nil_r. auto. }
      unfold recognised in Hra. apply andb_true_iff in Hra as [Hv _]. unfold visited in Hv. apply negb_true_iff in Hv.
      assert (existsb (fun j => proper_prefix (i_path j) (i_path a) && skips false j) its = true) as X.
      { apply existsb_exists. exists j. split; [exact Hj|]. unfold skips. rewrite Hjp, Hpp, Hjd, Hsq. reflexivity. }
      congruence. }
  destruct Hd as [Hd|[Hc [Hid Hip]]]; cbn [e_path] in *.
  - destruct (is_prefix_comparable _ _ _ Hd Hqi) as [Hpq|Hqp].
    + destruct (prefix_cases _ _ Hpq) as [Heq|Hpp]; [rewrite Heq in Hma; congruence|].
      destruct c.
      * apply should_clean_spec in Hsa as [Hdir _]. cbn in Hdir.
        pose proof (proper_prefix_trans_l _ _ _ Hpp Hqi) as X.
        rewrite (files_are_leaves_spec _ Hfl i a Hi Ha Hdir) in X. discriminate.
      * cbn [negb andb] in Hda.
        assert (existsb (fun a => should_clean false (base (i_path a)) (i_dir a)
                    && existsb (proper_prefix (i_path a)) pps) its = true) as X.
        { apply existsb_exists. exists a. split; [exact Ha|]. rewrite Hsa. cbn [andb].
          apply existsb_exists. exists q. split; assumption. }
        congruence.
    + destruct (prefix_cases _ _ Hqp) as [Heq|Hpp]; [rewrite <- Heq in Hma; congruence | exact (Habove Hpp)].
  - subst c. rewrite Hip in Hqi. destruct (prefix_cases _ _ Hqi) as [Heq|Hpp].
    + apply is_marked_marks_of in Hqmark as [m' [Hm' Hqm']].
      assert (entry_path true (fst m') = true) as Hep' by (apply Hcalls, Hinc; exact Hm').
      destruct Hqm' as [Hqm'|Hqm'].
      * unfold entry_path in Hep'. apply andb_true_iff in Hep' as [Hsuf _].
        rewrite <- Hqm', Heq, base_append_last in Hsuf by exact Hane.
        cbn [suffix_of] in Hsuf. change (s rename_suffix) with [61%N] in Hsuf.
        rewrite has_suffix_eq_targz in Hsuf. discriminate.
      * rewrite Heq in Hqm'. change (s mark_suffix) with (s rename_suffix) in Hqm'.
        apply append_last_inj in Hqm'; [|exact Hane | eapply entry_path_nonempty; exact Hep'].
        assert (is_marked mk (i_path a) <> None) as X
          by (apply is_marked_marks_of; exists m'; split; [exact Hm' | left; exact Hqm']).
        congruence.
    + apply proper_prefix_append_last in Hpp. exact (Habove Hpp).
Qed.

(* ============================== every interleaving ============================== *)

Section Interleave.
Variable c : bool.
Variable low : N.
Variable its : list item.
Variable all : list (path * N).   (* every markDir call of the run, before and during clean *)
Variables h l : N.
Hypothesis Hwf : wf (mkState c its all h l) = true.
Hypothesis Hda : d_ancestor (mkState c its all h l) = false.
Hypothesis Hdt : d_tmp (mkState c its all h l) = false.

(* what holds of every state of a run *)
Definition inv (x : cstate) : Prop :=
  upclosed its (cs_live x)
  /\ (forall e, In e (cs_queue x) -> exists a, In a its /\ recognised c its a = true /\ e_path e = i_path a)
  /\ incl (cs_calls x) all.

(* item i lies at or below a path (final or temporary) of a markDir call made so far *)
Definition prot (x : cstate) (i : item) : Prop := protected (mkState c its (cs_calls x) h l) i.

Definition label_ok (lb : label) : Prop :=
  match lb with LMark p sz => In (p, sz) all | LIter => True end.

Lemma do_label_inv x lb : inv x -> label_ok lb -> inv (do_label c low x lb).
Proof.
  intros [Hup [Hq Hc]] Hl. destruct lb as [p sz|].
  - cbn [do_label]. repeat split; cbn [cs_live cs_queue cs_calls]; try apply Hup; [exact Hq|].
    intros m Hm. apply in_app_or in Hm as [Hm|[<-|[]]]; [apply Hc; exact Hm | exact Hl].
  - destruct (cs_queue x) as [|e r] eqn:Eq; [unfold do_label; rewrite Eq; repeat split; try apply Hup; [rewrite Eq; exact Hq | exact Hc]|].
    rewrite (do_label_iter c low x e r Eq). unfold iter.
    assert (forall e', In e' r -> exists a, In a its /\ recognised c its a = true /\ e_path e' = i_path a) as Hq'
      by (intros e' H; apply Hq; right; exact H).
    assert (forall fl e', In e' (match fl with FBreak => [] | _ => r end) ->
                          exists a, In a its /\ recognised c its a = true /\ e_path e' = i_path a) as Hq''
      by (intros fl e' H; destruct fl; try contradiction; apply Hq'; exact H).
    destruct (is_marked (marks_of (cs_calls x)) (e_path e)); [repeat split; cbn; try apply Hup; auto|].
    destruct (rename_blocked c (cs_live x) (append_last (e_path e) (s rename_suffix))); [repeat split; cbn; try apply Hup; auto|].
    destruct (N.ltb (cs_total x - e_size e) low); cbn zeta;
      (split; [apply upclosed_delete; exact Hup | split; [cbn [cs_queue] | exact Hc]]).
    + intros e' [].
    + exact Hq'.
Qed.

Lemma prot_mono x x' i : incl (cs_calls x) (cs_calls x') -> prot x i -> prot x' i.
Proof.
  intros Hinc [q [Hq Hqi]]. exists q. split; [|exact Hqi].
  apply protected_paths_spec in Hq. apply protected_paths_spec. cbn [st_calls st_compress] in *.
  destruct Hq as [m [Hm H]]. exists m. split; [apply Hinc; exact Hm | exact H].
Qed.

(* one step: what is protected and there is still there, and still protected *)
Lemma do_label_safe x lb i :
  inv x -> In i (cs_live x) -> prot x i ->
  In i (cs_live (do_label c low x lb)) /\ prot (do_label c low x lb) i.
Proof.
  intros [Hup [Hq Hc]] Hi Hp. destruct lb as [p sz|].
  - cbn [do_label cs_live]. split; [exact Hi|].
    apply (prot_mono x); [cbn [cs_calls]; apply incl_appl, incl_refl | exact Hp].
  - destruct (cs_queue x) as [|e r] eqn:Eq; [unfold do_label; rewrite Eq; split; assumption|].
    rewrite (do_label_iter c low x e r Eq). unfold iter.
    destruct (is_marked (marks_of (cs_calls x)) (e_path e)) eqn:Hm;
      [split; [exact Hi | apply (prot_mono x); [apply incl_refl | exact Hp]]|].
    destruct (rename_blocked c (cs_live x) (append_last (e_path e) (s rename_suffix))) eqn:Hbl;
      [split; [exact Hi | apply (prot_mono x); [apply incl_refl | exact Hp]]|].
    assert (In i (delete (cs_live x) (e_path e) (append_last (e_path e) (s rename_suffix)))) as Hin.
    { destruct (Hq e (or_introl eq_refl)) as [a [Ha [Hra Hpa]]].
      assert (e_path e <> []) as Hne.
      { rewrite Hpa. unfold recognised in Hra. apply andb_true_iff in Hra as [_ Hra].
        eapply should_clean_nonempty. exact Hra. }
      pose proof Hwf as Hwf'. unfold wf in Hwf'. apply andb_true_iff in Hwf' as [Hwf' _].
      apply andb_true_iff in Hwf' as [Hwf' _]. apply andb_true_iff in Hwf' as [Hdp _]. cbn [st_items] in Hdp.
      destruct (delete_or_deleted c its (cs_live x) e i (dirs_present_spec _ Hdp) Hup Hne Hi Hbl) as [H|Hd]; [exact H|exfalso].
      destruct Hp as [q [Hq' Hqi]]. destruct e as [ep esz etm]. cbn [e_path] in *. subst ep.
      exact (removal_spares_protected c its all (cs_calls x) h l a esz etm i q Hwf Hda Hdt Hc Ha Hra Hm
               (proj1 Hup i Hi) Hd Hq' Hqi). }
    destruct (N.ltb (cs_total x - e_size e) low);
      (split; [exact Hin | apply (prot_mono x); [apply incl_refl | exact Hp]]).
Qed.

Lemma run_inv : forall ls x, inv x -> Forall label_ok ls -> inv (run c low x ls).
Proof.
  induction ls as [|lb ls IH]; intros x Hx Hl; [exact Hx|].
  rewrite run_cons. inversion Hl; subst. apply IH; [apply do_label_inv; assumption | assumption].
Qed.

(* every interleaving: what is protected and there at some point of the run is there at every later point *)
Lemma run_safe : forall ls x i, inv x -> Forall label_ok ls -> In i (cs_live x) -> prot x i ->
  In i (cs_live (run c low x ls)) /\ prot (run c low x ls) i.
Proof.
  induction ls as [|lb ls IH]; intros x i Hx Hl Hi Hp; [split; assumption|].
  rewrite run_cons. inversion Hl; subst.
  destruct (do_label_safe x lb i Hx Hi Hp) as [Hi' Hp'].
  apply IH; [apply do_label_inv; assumption | assumption | exact Hi' | exact Hp'].
Qed.

End Interleave.

Lemma label_calls_ok all ls : incl (label_calls ls) all -> Forall (label_ok all) ls.
Proof.
  induction ls as [|lb ls IH]; intros H; [constructor|].
  unfold label_calls in H. cbn [flat_map] in H. fold (label_calls ls) in H.
  constructor.
  - destruct lb as [p sz|]; [|exact I]. apply H. left. reflexivity.
  - apply IH. intros m Hm. apply H. apply in_or_app. right. exact Hm.
Qed.

Lemma label_calls_app l1 l2 : label_calls (l1 ++ l2) = label_calls l1 ++ label_calls l2.
Proof. unfold label_calls. apply flat_map_app. Qed.

Lemma start_inv sorter st all : (forall l, Permutation (sorter l) l) -> incl (st_calls st) all ->
  inv (st_compress st) (st_items st) all (start sorter st).
Proof.
  intros Hperm Hinc. unfold start.
  destruct (N.ltb (size_of st) (st_high st)); (split; [apply upclosed_refl | split; [|exact Hinc]]); cbn [cs_queue].
  - intros e [].
  - intros e He. apply (Permutation_in _ (Hperm _)) in He.
    apply walk_entries in He as [a [Ha [Hr [_ ->]]]]. exists a. auto.
Qed.

(* never_removes_protected at the granularity of the loop: split any interleaving of loop iterations and
   markDir calls at any point; whatever is protected by the calls made up to that point and has not
   been removed by then is not removed afterwards *)
Theorem interleaved_clean_safe sorter : (forall l, Permutation (sorter l) l) ->
  forall (st : state) (l1 l2 : list label),
  let whole := with_calls st (st_calls st ++ label_calls (l1 ++ l2)) in
  wf whole = true -> d_ancestor whole = false -> d_tmp whole = false ->
  let x1 := run (st_compress st) (st_low st) (start sorter st) l1 in
  forall i, In i (cs_live x1) -> protected (with_calls st (cs_calls x1)) i ->
            In i (cs_live (run (st_compress st) (st_low st) x1 l2)).
Proof.
  intros Hperm st l1 l2 whole Hwf Hda Hdt x1 i Hi Hp.
  set (all := st_calls st ++ label_calls (l1 ++ l2)) in *.
  assert (Forall (label_ok all) (l1 ++ l2)) as Hl
    by (apply label_calls_ok; unfold all; apply incl_appr, incl_refl).
  apply Forall_app in Hl as [Hl1 Hl2].
  assert (inv (st_compress st) (st_items st) all x1) as Hx1.
  { apply (run_inv (st_compress st) (st_low st) (st_items st) all); [|exact Hl1].
    apply start_inv; [exact Hperm | unfold all; apply incl_appl, incl_refl]. }
  exact (proj1 (run_safe (st_compress st) (st_low st) (st_items st) all (st_high st) (st_low st)
                  Hwf Hda Hdt l2 x1 i Hx1 Hl2 Hi Hp)).
Qed.

(* in particular: an entry that is in the queue and gets marked before its own iteration survives the
   whole loop, however many iterations and further calls follow *)
Corollary marked_before_iteration_survives sorter : (forall l, Permutation (sorter l) l) ->
  forall (st : state) (l1 l2 : list label) (p : path) (sz : N),
  let whole := with_calls st (st_calls st ++ label_calls (l1 ++ LMark p sz :: l2)) in
  wf whole = true -> d_ancestor whole = false -> d_tmp whole = false ->
  let x1 := run (st_compress st) (st_low st) (start sorter st) l1 in
  forall i, In i (cs_live x1) -> is_prefix p (i_path i) = true ->
            In i (cs_live (run (st_compress st) (st_low st) (start sorter st) (l1 ++ LMark p sz :: l2))).
Proof.
  intros Hperm st l1 l2 p sz whole Hwf Hda Hdt x1 i Hi Hpi.
  assert (l1 ++ LMark p sz :: l2 = (l1 ++ [LMark p sz]) ++ l2) as E by (rewrite <- app_assoc; reflexivity).
  subst whole. rewrite E in *.
  rewrite run_app.
  apply (interleaved_clean_safe sorter Hperm st (l1 ++ [LMark p sz]) l2 Hwf Hda Hdt).
  - rewrite run_app. exact Hi.
  - rewrite run_app. fold x1. cbn [run fold_left do_label cs_calls].
    exists p. split; [|exact Hpi].
    apply protected_paths_spec. cbn [with_calls st_calls st_compress].
    exists (p, sz). split; [apply in_or_app; right; left; reflexivity | left; reflexivity].
Qed.

(* ---- a concrete run: the process retrieves a queued entry after the first eviction ---- *)

Definition k_key3 : str := s "ddddddddddddddddddddddddddd=".

(* three old entries of an earlier process, oldest first: k_key, k_key2, k_key3; nothing marked *)
Definition w_race : state :=
  mkState false
    [ mkItem [s "cache"] true 4096 100;
      mkItem [s "cache"; s "pkg"] true 4096 100;
      mkItem [s "cache"; s "pkg"; s "lib"] true 4096 100;
      mkItem [s "cache"; s "pkg"; s "lib"; k_key] true 4096 1000;
      mkItem [s "cache"; s "pkg"; s "lib"; k_key; s "out.a"] false 700 100;
      mkItem [s "cache"; s "pkg"; s "lib"; k_key2] true 4096 3000;
      mkItem [s "cache"; s "pkg"; s "lib"; k_key2; s "out.a"] false 900 100;
      mkItem [s "cache"; s "pkg"; s "lib"; k_key3] true 4096 5000;
      mkItem [s "cache"; s "pkg"; s "lib"; k_key3; s "out.a"] false 500 100 ]
    [] 1 0.

Definition w_race_mark : label := LMark [s "cache"; s "pkg"; s "lib"; k_key3] 0.

Lemma w_race_ok :
  let whole := with_calls w_race (label_calls [w_race_mark]) in
  wf whole = true /\ defect_class whole = None
  /\ map e_path (cs_queue (start isort w_race)) =
       [[s "cache"; s "pkg"; s "lib"; k_key]; [s "cache"; s "pkg"; s "lib"; k_key2]; [s "cache"; s "pkg"; s "lib"; k_key3]]
  (* without the call everything goes *)
  /\ length (cs_live (run false 0 (start isort w_race) [LIter; LIter; LIter])) = 3%nat
  (* retrieved after the first eviction: the entry and its file stay, the other two go *)
  /\ map i_path (cs_live (run false 0 (start isort w_race) [LIter; w_race_mark; LIter; LIter])) =
       [[s "cache"]; [s "cache"; s "pkg"]; [s "cache"; s "pkg"; s "lib"];
        [s "cache"; s "pkg"; s "lib"; k_key3]; [s "cache"; s "pkg"; s "lib"; k_key3; s "out.a"]]
  (* retrieved too late (its iteration has run): gone, as the property allows *)
  /\ length (cs_live (run false 0 (start isort w_race) [LIter; LIter; LIter; w_race_mark])) = 3%nat.
Proof. vm_compute. repeat split. Qed.
