(* C17 - from the EMPTY interpreter, part 2: what the first-time Subinclude of a build_defs file of the fragment does
   to the invariant G: constants (const_alloc), the top-level statements, scope.Freeze, the cache. *)
From Coq Require Import String Lia.
From PlzV Require Import Base.Harness Base.StrFacts Gen.AspTables Model.C16_Syntax Model.C16_Ops Model.C16_Prim Model.C16_Eval.
From PlzV Require Import Proof.C17_Inv Proof.C17_Main Proof.C17_NoConst Proof.C17_Scopes Proof.C17_Iso Proof.C17_Sim7 Proof.C17_Init1.
Local Open Scope list_scope.
Local Open Scope nat_scope.

#[local] Arguments chain : simpl never.
#[local] Arguments is_const : simpl never.
#[local] Arguments const_alloc : simpl never.
#[local] Arguments new_list : simpl never.
#[local] Arguments alloc_list : simpl never.
#[local] Arguments lookup : simpl never.
#[local] Arguments set_var : simpl never.
#[local] Arguments str_eqb : simpl never.
#[local] Arguments existsb : simpl never.
#[local] Arguments assoc_get : simpl never.
#[local] Arguments find_def : simpl never.
#[local] Arguments opt_stmts : simpl never.
#[local] Arguments drop_pass : simpl never.
#[local] Arguments freeze_env : simpl never.
#[local] Arguments mapM : simpl never.
#[local] Arguments mapR : simpl never.
#[local] Arguments rbind : simpl never.
#[local] Arguments s : simpl never.
#[local] Arguments nth : simpl never.
#[local] Arguments fold_left : simpl never.
#[local] Arguments map : simpl never.
#[local] Arguments length : simpl never.
#[local] Arguments call_value : simpl never.

Notation Fa P l := (Forall (fun x => P x = true) l).
Notation Fkv P e := (Forall (fun kv : str * value => P (snd kv) = true) e).

(* unfolding equations (the helpers are `simpl never`, which also blocks cbn) *)
Lemma rb_ok : forall {A B} (a : A) (k : A -> res B), rbind (Ok a) k = k a.
Proof. reflexivity. Qed.
Lemma mapM_nil : forall {A B} (g : A -> state -> res (B * state)) st, mapM g [] st = Ok ([], st).
Proof. reflexivity. Qed.
Lemma mapM_cons : forall {A B} (g : A -> state -> res (B * state)) x r st,
  mapM g (x :: r) st = rbind (g x st) (fun '(y, st1) => rbind (mapM g r st1) (fun '(ys, st2) => Ok (y :: ys, st2))).
Proof. reflexivity. Qed.
Lemma map_cons' : forall {A B} (g : A -> B) x r, map g (x :: r) = g x :: map g r.
Proof. reflexivity. Qed.
Lemma fold_left_cons' : forall {A B} (g : A -> B -> A) x r a, fold_left g (x :: r) a = fold_left g r (g a x).
Proof. reflexivity. Qed.

Lemma app_len1 : forall {A} (l : list A) x, length (l ++ [x]) = S (length l).
Proof. intros. rewrite app_length. change (length [x]) with 1. lia. Qed.

(* ---------------------------------------------------------------- primitives *)
Lemma set_var_arrays : forall n v st, arrays (set_var n v st) = arrays st.
Proof. intros. unfold set_var. destruct (locals st); reflexivity. Qed.
Lemma set_var_funcs : forall n v st, funcs (set_var n v st) = funcs st.
Proof. intros. unfold set_var. destruct (locals st); reflexivity. Qed.
Lemma set_var_subcache : forall n v st, subcache (set_var n v st) = subcache st.
Proof. intros. unfold set_var. destruct (locals st); reflexivity. Qed.

Lemma Fkv_env_set : forall (P : value -> bool) e n v, Fkv P e -> P v = true -> Fkv P (env_set n v e).
Proof.
  intros P. induction e as [|[k w] r IH]; intros n v He Hv; cbn [env_set].
  - constructor; [exact Hv|constructor].
  - inversion He; subst. destruct (str_eqb n k); constructor; auto.
Qed.

Lemma G_set_var : forall o st n v, G o st -> okv o (cur st) (length (arrays st)) (length (funcs st)) v = true -> G o (set_var n v st).
Proof.
  intros o st n v HG Hv. destruct HG as [g_arr0 g_dict0 g_fn0 g_fs0 g_loc0 g_cs0 g_sub0 g_cur0]. unfold set_var. rewrite g_loc0.
  constructor; cbn [arrays dicts funcs fscopes cur locals consts subcache set_fscopes]; auto.
  - rewrite length_list_set. exact g_fn0.
  - intros j. destruct (Nat.eq_dec j (cur st)) as [->|Hn].
    + destruct (nth_list_set_same_or (fscopes st) (cur st) (env_set n v (nth (cur st) (fscopes st) [])) []) as [H|[_ H]]; rewrite H.
      * apply Fkv_env_set; [apply g_fs0|exact Hv].
      * apply g_fs0.
    + rewrite nth_list_set_other by auto. apply g_fs0.
  - rewrite length_list_set. exact g_cur0.
Qed.

Lemma G_set_vars : forall (kvs : env) st, G None st -> Fkv (fflatb (length (arrays st)) (length (funcs st))) kvs ->
  G None (fold_left (fun acc kv => set_var (fst kv) (snd kv) acc) kvs st).
Proof.
  induction kvs as [|[k v] r IH]; intros st HG Hk; cbn [fold_left]; [exact HG|].
  inversion Hk; subst. cbn [fst snd] in *. apply IH.
  - apply G_set_var; [exact HG|]. exact H1.
  - rewrite set_var_arrays, set_var_funcs. exact H2.
Qed.

Lemma set_vars_subcache : forall (kvs : env) st, subcache (fold_left (fun acc kv => set_var (fst kv) (snd kv) acc) kvs st) = subcache st.
Proof. induction kvs as [|[k v] r IH]; intros st; cbn [fold_left]; [reflexivity|]. etransitivity; [apply IH|]. apply set_var_subcache. Qed.

(* make(pyList, ...): a new array of scalars *)
Lemma G_alloc : forall o st items k, G o st -> Fa scalarb items -> G o (set_arrays (arrays st ++ [items ++ repeat VNone k]) st).
Proof.
  intros o st items k HG Hit. destruct HG as [g_arr0 g_dict0 g_fn0 g_fs0 g_loc0 g_cs0 g_sub0 g_cur0].
  assert (Hle : length (arrays st) <= length (arrays st ++ [items ++ repeat VNone k])) by (rewrite app_len1; lia).
  constructor; cbn [arrays dicts funcs fscopes cur locals consts subcache set_arrays]; auto.
  - apply Forall_app. split; [exact g_arr0|]. constructor; [|constructor]. apply Forall_app. split; [exact Hit|]. apply Forall_repeat. reflexivity.
  - intros j. eapply Forall_impl; [|apply (g_fs0 j)]. intros kv Hkv. eapply okv_mono; eauto.
  - eapply Forall_impl; [|exact g_cs0]. intros v Hv. eapply flat_mono; eauto.
  - eapply Forall_impl; [|exact g_sub0]. intros le Hle0. eapply Forall_impl; [|exact Hle0]. intros kv Hkv. eapply fflat_mono; eauto.
Qed.

(* what a step leaves alone besides the heap *)
Record ext (st st' : state) : Prop := mkExt {
  e_cur : cur st' = cur st; e_loc : locals st' = locals st; e_fs : fscopes st' = fscopes st;
  e_sub : subcache st' = subcache st; e_cs : consts st' = consts st; e_fn : funcs st' = funcs st;
  e_la : length (arrays st) <= length (arrays st') }.

Lemma ext_refl : forall st, ext st st.
Proof. intros. constructor; auto. Qed.
Lemma ext_trans : forall a b c, ext a b -> ext b c -> ext a c.
Proof. intros a b c [] []. constructor; try congruence. lia. Qed.

(* ---------------------------------------------------------------- constants *)
Definition lit_val (e : expr) : value :=
  match e with
  | Ex (XInt z) _ _ => VInt z | Ex (XStr x) _ _ => VStr x | Ex XTrue _ _ => VBool true | Ex XFalse _ _ => VBool false | _ => VNone
  end.

Lemma const_alloc_lit : forall f e st, scalar_lit e = true -> const_alloc (S f) e st = Ok (lit_val e, st) /\ scalarb (lit_val e) = true.
Proof.
  intros f [v ops iff] st H. destruct v; try discriminate; destruct ops; try discriminate; destruct iff; try discriminate; split; reflexivity.
Qed.

Lemma const_alloc_lits : forall f es st, forallb scalar_lit es = true ->
  mapM (const_alloc (S f)) es st = Ok (map lit_val es, st) /\ Fa scalarb (map lit_val es).
Proof.
  intros f. induction es as [|e r IH]; intros st H.
  - split; [reflexivity|constructor].
  - cbn [forallb] in H. apply andb_prop in H. destruct H as [He Hr]. destruct (const_alloc_lit f e st He) as [E1 S1].
    destruct (IH st Hr) as [E2 S2]. rewrite mapM_cons, E1, rb_ok, E2, rb_ok, map_cons'. split; [reflexivity|constructor; assumption].
Qed.

Lemma const_alloc_flat : forall o e st, flat_cexpr e = true -> G o st ->
  post (fun v st' => G o st' /\ ext st st' /\ flatvb (length (arrays st')) (length (funcs st')) v = true) (const_alloc 32 e st).
Proof.
  intros o [v ops iff] st H HG. destruct v; try discriminate; destruct ops; try discriminate; destruct iff; try discriminate.
  cbn [flat_cexpr] in H. change (const_alloc 32 (Ex (XList es) [] None) st) with
    (rbind (mapM (const_alloc 31) es st) (fun '(vs, st1) => let '(r, st2) := alloc_list vs (length vs) st1 in Ok (VList r, st2))).
  destruct (const_alloc_lits 30 es st H) as [E1 S1]. rewrite E1, rb_ok. unfold alloc_list. cbn [post].
  split; [apply G_alloc; assumption|]. split.
  - constructor; cbn [arrays dicts funcs fscopes cur locals consts subcache set_arrays]; auto. rewrite app_len1. lia.
  - cbn [flatvb s_arr arrays set_arrays]. apply Nat.ltb_lt. rewrite app_len1. lia.
Qed.

Lemma const_allocs_flat : forall o cexprs st, forallb flat_cexpr cexprs = true -> G o st ->
  post (fun vs st' => G o st' /\ ext st st' /\ Fa (flatvb (length (arrays st')) (length (funcs st'))) vs) (mapM (const_alloc 32) cexprs st).
Proof.
  intros o. induction cexprs as [|e r IH]; intros st H HG.
  - rewrite mapM_nil. cbn [post]. split; [exact HG|]. split; [apply ext_refl|constructor].
  - cbn [forallb] in H. apply andb_prop in H. destruct H as [He Hr]. rewrite mapM_cons.
    eapply post_bind; [apply const_alloc_flat; eassumption|]. intros v st1 (G1 & X1 & V1).
    eapply post_bind; [apply IH; eassumption|]. intros vs st2 (G2 & X2 & V2). cbn [post].
    split; [exact G2|]. split; [eapply ext_trans; eauto|]. constructor; [|exact V2].
    eapply flat_mono; [exact (e_la _ _ X2)| |exact V1]. rewrite (e_fn _ _ X2). lia.
Qed.

(* ---------------------------------------------------------------- more primitives *)
Lemma G_add_func : forall o st fd, G o st -> func_frag (length (fscopes st)) fd = true -> G o (set_funcs (funcs st ++ [fd]) st).
Proof.
  intros o st fd HG Hfd. destruct HG as [g_arr0 g_dict0 g_fn0 g_fs0 g_loc0 g_cs0 g_sub0 g_cur0].
  assert (Hle : length (funcs st) <= length (funcs st ++ [fd])) by (rewrite app_len1; lia).
  constructor; cbn [arrays dicts funcs fscopes cur locals consts subcache set_funcs]; auto.
  - apply Forall_app. split; [exact g_fn0|]. constructor; [exact Hfd|constructor].
  - intros j. eapply Forall_impl; [|apply (g_fs0 j)]. intros kv Hkv. eapply okv_mono; eauto.
  - eapply Forall_impl; [|exact g_cs0]. intros v Hv. eapply flat_mono; eauto.
  - eapply Forall_impl; [|exact g_sub0]. intros le Hle0. eapply Forall_impl; [|exact Hle0]. intros kv Hkv. eapply fflat_mono; eauto.
Qed.

Lemma G_set_consts : forall o st cvals, G o st -> Fa (flatvb (length (arrays st)) (length (funcs st))) cvals -> G o (set_consts (consts st ++ cvals) st).
Proof.
  intros o st cvals HG Hc. destruct HG as [g_arr0 g_dict0 g_fn0 g_fs0 g_loc0 g_cs0 g_sub0 g_cur0].
  constructor; cbn [arrays dicts funcs fscopes cur locals consts subcache set_consts]; auto.
  apply Forall_app. split; assumption.
Qed.

Lemma G_set_locals_nil : forall st, G None st -> G None (set_locals [] st).
Proof.
  intros st HG. destruct HG as [g_arr0 g_dict0 g_fn0 g_fs0 g_loc0 g_cs0 g_sub0 g_cur0].
  constructor; cbn [arrays dicts funcs fscopes cur locals consts subcache set_locals]; auto.
Qed.

(* a new, empty file scope becomes the current one; it is either the scope of a file being loaded (o = Some idx) or of a package *)
Lemma G_new_scope : forall st (open : bool), G None st ->
  G (if open then Some (length (fscopes st)) else None) (set_locals [] (set_cur (length (fscopes st)) (set_fscopes (fscopes st ++ [[]]) st))).
Proof.
  intros st open HG. destruct HG as [g_arr0 g_dict0 g_fn0 g_fs0 g_loc0 g_cs0 g_sub0 g_cur0].
  constructor; cbn [arrays dicts funcs fscopes cur locals consts subcache set_locals set_cur set_fscopes]; auto.
  - eapply Forall_impl; [|exact g_fn0]. intros fd Hfd. eapply func_frag_mono; [|exact Hfd]. rewrite app_len1. lia.
  - intros j. apply (nth_app_P (fun e : env => Forall _ e)); [|constructor|constructor].
    destruct (Nat.lt_ge_cases j (length (fscopes st))) as [Hlt|Hge].
    + eapply Forall_impl; [|apply (g_fs0 j)]. intros kv Hkv. cbn [okv] in Hkv. destruct open; [|exact Hkv].
      unfold okv. replace (Nat.eqb (length (fscopes st)) j) with false; [exact Hkv|]. symmetry. apply Nat.eqb_neq. lia.
    + rewrite nth_overflow by exact Hge. constructor.
  - destruct open; [|exact I]. split; [reflexivity|]. rewrite app_len1. lia.
Qed.

(* the file scope that was open is replaced by its frozen form, the cache gets the entry, the caller's scope is current again *)
Lemma G_close : forall idx st (frozen : env) l c, G (Some idx) st ->
  Fkv (fflatb (length (arrays st)) (length (funcs st))) frozen ->
  G None (set_subcache ((l, frozen) :: subcache st) (set_locals [] (set_cur c (set_fscopes (list_set idx frozen (fscopes st)) st)))).
Proof.
  intros idx st frozen l c HG Hfr. destruct HG as [g_arr0 g_dict0 g_fn0 g_fs0 g_loc0 g_cs0 g_sub0 g_cur0].
  constructor; cbn [arrays dicts funcs fscopes cur locals consts subcache set_locals set_cur set_fscopes set_subcache]; auto.
  - rewrite length_list_set. exact g_fn0.
  - intros j. destruct (Nat.eq_dec j idx) as [->|Hn].
    + destruct (nth_list_set_same_or (fscopes st) idx frozen []) as [H|[Hle _]]; [rewrite H; exact Hfr|destruct g_cur0; lia].
    + rewrite nth_list_set_other by auto. eapply Forall_impl; [|apply (g_fs0 j)]. intros kv Hkv. unfold okv in Hkv.
      replace (Nat.eqb idx j) with false in Hkv; [exact Hkv|]. symmetry. apply Nat.eqb_neq. auto.
Qed.

(* scope.Freeze on a scope of scalars, functions and flat lists: the lists get their wrapper, nothing is allocated *)
Definition fz (kv : str * value) : str * value := (fst kv, match snd kv with VList sl => VFrozenList sl | v => v end).

Lemma freeze_env_flat : forall la lf e st, Fkv (flatvb la lf) e ->
  freeze_env 32 e st = Ok (map fz e, st) /\ Fkv (fflatb la lf) (map fz e).
Proof.
  intros la lf. unfold freeze_env. induction e as [|[k v] r IH]; intros st H.
  - split; [reflexivity|constructor].
  - inversion H as [|? ? Hv Hr]; subst. cbn [snd] in Hv. destruct (IH st Hr) as [E1 F1]. rewrite mapM_cons, map_cons'.
    assert (Hf : freeze 32 (snd (k, v)) st = Ok (snd (fz (k, v)), st) /\ fflatb la lf (snd (fz (k, v))) = true).
    { destruct v; try discriminate Hv; split; first [reflexivity|exact Hv]. }
    destruct Hf as [Hf1 Hf2]. rewrite Hf1, rb_ok, rb_ok, E1, rb_ok. split; [reflexivity|]. constructor; assumption.
Qed.

(* ---------------------------------------------------------------- the statements of the fragment *)
Section Load.
Variable defs : list (str * prog).

Lemma rhs_eval : forall o e f st, rhs_ok e = true -> G o st ->
  post (fun v st' => G o st' /\ ext st st' /\ flatvb (length (arrays st')) (length (funcs st')) v = true) (eval_expr Asp defs f e st).
Proof.
  intros o [v ops iff] f st H HG.
  destruct f as [|[|f]]; [exact I| |].
  { destruct ops; destruct iff as [[? ?]|]; try exact I; destruct v; try discriminate H; exact I. }
  destruct v; try discriminate H; try (destruct es; try discriminate H); destruct ops; try discriminate H; destruct iff; try discriminate H;
    simpl; rewrite ?mapM_nil, ?rb_ok; cbn [post];
    try (split; [exact HG|]; split; [apply ext_refl|reflexivity]).
  - (* [] *) unfold new_list, alloc_list. cbn [post].
    split; [exact (G_alloc o st [] 0 HG (Forall_nil _))|]. split.
    + constructor; cbn [arrays dicts funcs fscopes cur locals consts subcache set_arrays]; auto. rewrite app_len1. lia.
    + cbn [flatvb s_arr arrays set_arrays]. apply Nat.ltb_lt. rewrite app_len1. lia.
  - (* optimised.Constant *) split; [exact HG|]. split; [apply ext_refl|].
    apply (Forall_nth (fun v => flatvb (length (arrays st)) (length (funcs st)) v = true)); [apply (g_cs _ _ HG)|reflexivity].
Qed.

Definition def_arg (na : str * option expr) (st0 : state) : res ((str * fdefault) * state) :=
  match snd na with
  | None => Ok ((fst na, DNo), st0)
  | Some e => if is_const 32 e then rbind (const_alloc 32 e st0) (fun '(v, st') => Ok ((fst na, DConst v), st'))
              else Ok ((fst na, DExpr e), st0)
  end.

Lemma scalar_lit_const : forall e, scalar_lit e = true -> is_const 32 e = true.
Proof. intros [v ops iff] H. destruct v; try discriminate; destruct ops; try discriminate; destruct iff; try discriminate; reflexivity. Qed.

Lemma def_args_frag : forall args st, forallb arg_ok args = true ->
  exists formals, mapM def_arg args st = Ok (formals, st) /\ forallb dflt_frag formals = true.
Proof.
  induction args as [|[a oe] r IH]; intros st H.
  - exists []. split; reflexivity.
  - cbn [forallb] in H. apply andb_prop in H. destruct H as [Ha Hr]. destruct (IH st Hr) as (fs & E & F).
    rewrite mapM_cons. unfold def_arg at 1. unfold arg_ok in Ha. cbn [snd fst] in *. destruct oe as [e|].
    + destruct (scalar_lit e) eqn:Es.
      * rewrite (scalar_lit_const e Es). destruct (const_alloc_lit 31 e st Es) as [Ec Sc]. rewrite Ec, rb_ok, rb_ok, E, rb_ok.
        eexists. split; [reflexivity|]. cbn [forallb]. rewrite F. unfold dflt_frag. cbn [snd]. rewrite Sc. reflexivity.
      * cbn [orb] in Ha. apply andb_prop in Ha. destruct Ha as [Hn Hc]. apply Bool.negb_true_iff in Hc. rewrite Hc, rb_ok, E, rb_ok.
        eexists. split; [reflexivity|]. cbn [forallb]. rewrite F. unfold dflt_frag. cbn [snd]. rewrite Hn. reflexivity.
    + rewrite rb_ok, E, rb_ok. eexists. split; [reflexivity|]. cbn [forallb]. rewrite F. reflexivity.
Qed.

Lemma stmt_frag : forall idx s0 f st, top_ok s0 = true -> G (Some idx) st ->
  post (fun r st' => r = RNone /\ G (Some idx) st' /\ subcache st' = subcache st) (exec_stmt Asp defs f s0 st).
Proof.
  intros idx s0 f st H HG. destruct f as [|f]; [exact I|]. destruct s0; try discriminate H; simpl.
  - (* NAME = rhs *)
    eapply post_bind; [apply (rhs_eval (Some idx)); eassumption|]. intros v st1 (G1 & X1 & V1). cbn [post].
    split; [reflexivity|]. split.
    + apply G_set_var; [exact G1|]. unfold okv. destruct (g_cur _ _ G1) as [-> _]. rewrite Nat.eqb_refl. exact V1.
    + rewrite set_var_subcache. exact (e_sub _ _ X1).
  - (* def *)
    cbn [top_ok] in H. apply andb_prop in H. destruct H as [Ha Hb].
    match goal with |- post _ (rbind (mapM ?g _ _) _) => change g with def_arg end.
    destruct (def_args_frag args st Ha) as (formals & E & F). rewrite E, rb_ok. cbn [post]. split; [reflexivity|].
    assert (Hfd : func_frag (length (fscopes st)) (Func n formals body (cur st)) = true).
    { unfold func_frag. cbn [f_args f_body f_scope]. rewrite F, Hb. cbn [andb]. destruct (g_cur _ _ HG) as [-> Hlt]. apply Nat.ltb_lt. exact Hlt. }
    pose proof (G_add_func _ _ _ HG Hfd) as G1. split.
    + apply G_set_var; [exact G1|]. unfold okv. cbn [cur set_funcs]. destruct (g_cur _ _ HG) as [-> _]. rewrite Nat.eqb_refl.
      cbn [flatvb funcs set_funcs]. apply Nat.ltb_lt. rewrite app_len1. lia.
    + rewrite set_var_subcache. reflexivity.
Qed.

Lemma block_frag : forall idx p f st, forallb top_ok p = true -> G (Some idx) st ->
  post (fun _ st' => G (Some idx) st' /\ subcache st' = subcache st) (exec_block Asp defs f p st).
Proof.
  intros idx. induction p as [|s0 r IH]; intros f st H HG; (destruct f as [|f]; [exact I|]); simpl.
  - cbn [post]. auto.
  - cbn [forallb] in H. apply andb_prop in H. destruct H as [Hs Hr].
    eapply post_bind; [apply stmt_frag; eassumption|]. intros r0 st1 (-> & G1 & S1). cbv beta iota.
    eapply post_weaken; [apply IH; eassumption|]. intros _ st2 (G2 & S2). split; [exact G2|congruence].
Qed.

(* ---------------------------------------------------------------- interpreter.Subinclude of an uncached file *)
Definition load_with (f : nat) (label : str) (p' : list stmt) (cexprs : list expr) (st : state) : res (sres * state) :=
  rbind (mapM (const_alloc 32) cexprs st) (fun '(cvals, st1) =>
  let st2 := set_consts (consts st1 ++ cvals) st1 in
  let idx := length (fscopes st2) in
  let saved_cur := cur st2 in
  let saved_locals := locals st2 in
  let st3 := set_locals [] (set_cur idx (set_fscopes (fscopes st2 ++ [[]]) st2)) in
  rbind (exec_block Asp defs f p' st3) (fun '(_, st4) =>
  rbind (freeze_env 32%nat (nth idx (fscopes st4) []) st4) (fun '(frozen, st5) =>
  let st6 := set_fscopes (list_set idx frozen (fscopes st5)) st5 in
  let st7 := set_subcache ((label, frozen) :: subcache st6) (set_locals saved_locals (set_cur saved_cur st6)) in
  Ok (RNone, fold_left (fun acc kv => set_var (fst kv) (snd kv) acc) frozen st7)))).

Lemma load_G : forall f l p' cexprs st, forallb top_ok p' = true -> forallb flat_cexpr cexprs = true -> G None st ->
  post (fun _ st' => G None st' /\ exists fr, subcache st' = (l, fr) :: subcache st) (load_with f l p' cexprs st).
Proof.
  intros f l p' cexprs st Hp Hc HG. unfold load_with.
  eapply post_bind; [apply const_allocs_flat; eassumption|]. intros cvals st1 (G1 & X1 & V1). cbv zeta.
  pose proof (G_set_consts _ _ _ G1 V1) as G2.
  pose proof (G_new_scope _ true G2) as G3. cbv iota in G3.
  cbn [fscopes cur locals set_consts] in *.
  eapply post_bind; [apply (block_frag (length (fscopes st1))); [exact Hp|exact G3]|]. intros r4 st4 (G4 & S4).
  assert (Hfl : Fkv (flatvb (length (arrays st4)) (length (funcs st4))) (nth (length (fscopes st1)) (fscopes st4) [])).
  { eapply Forall_impl; [|apply (g_fs _ _ G4 (length (fscopes st1)))]. intros kv Hkv. unfold okv in Hkv. rewrite Nat.eqb_refl in Hkv. exact Hkv. }
  destruct (freeze_env_flat _ _ _ st4 Hfl) as [Ef Ff]. rewrite Ef, rb_ok. cbn [post].
  rewrite (e_loc _ _ X1), (g_loc _ _ HG).
  pose proof (G_close _ _ _ l (cur st1) G4 Ff) as G7. split.
  - apply G_set_vars; [exact G7|]. exact Ff.
  - rewrite set_vars_subcache. cbn [subcache set_subcache set_locals set_cur set_fscopes]. eexists. rewrite S4.
    cbn [subcache set_locals set_cur set_fscopes set_consts]. rewrite (e_sub _ _ X1). reflexivity.
Qed.

Definition sub_stmt (l : str) : stmt := SCall (s "subinclude") [(None, Ex (XStr l) [] None)].

Lemma sub_unfold : forall f l st, lookup (s "subinclude") st = Some (VBuiltin (s "subinclude")) ->
  exec_stmt Asp defs (S f) (sub_stmt l) st =
  match assoc_get l (subcache st) with
  | Some globals => Ok (RNone, fold_left (fun acc kv => set_var (fst kv) (snd kv) acc) globals st)
  | None => match find_def defs l with
            | None => Err EType
            | Some p => let '(p', cexprs) := opt_stmts 32 (length (consts st)) (drop_pass 32 p) [] in load_with f l p' cexprs st
            end
  end.
Proof.
  intros f l st H. unfold sub_stmt. simpl. rewrite H. rewrite str_eqb_refl.
  destruct (assoc_get l (subcache st)); [reflexivity|]. destruct (find_def defs l); [|reflexivity].
  destruct (opt_stmts 32 (length (consts st)) (drop_pass 32 p) []) as [p' cexprs]. reflexivity.
Qed.

End Load.
