(* C21 - glob(): path-string lemmas for the tree-level theorem.
   How the path strings the code works on (filepath.Join/Clean/Dir/Base, path.Join inside WalkDir,
   strings.HasPrefix/TrimPrefix/ContainsRune) relate to lists of path components, for components that are plain
   entry names (no '/', no newline, not empty, not "." or ".."). *)
From Coq Require Import String.
From PlzV Require Import Base.Harness Base.StrFacts Model.C21 Proof.C21.
From Coq Require Import Lia.

(* ------------------------------------------------------------------------------------------- names *)
Lemma entry_name_ok_parts x : entry_name_ok x = true ->
  name_ok x = true /\ x <> [] /\ x <> s "." /\ x <> s "..".
Proof.
  unfold entry_name_ok. intros H.
  apply andb_prop in H as [H H3]. apply andb_prop in H as [H H2]. apply andb_prop in H as [H0 H1].
  apply negb_true_iff in H1, H2, H3. apply str_eqb_neq in H1, H2, H3. auto.
Qed.

Lemma entries_name_ok g : forallb entry_name_ok g = true -> forallb name_ok g = true.
Proof.
  induction g as [|x g IH]; [reflexivity|]. cbn. intros H. apply andb_prop in H as [Hx Hg].
  apply entry_name_ok_parts in Hx as (Hx & _). now rewrite Hx, IH.
Qed.

Lemma forallb_snoc {A} (P : A -> bool) l x : forallb P (l ++ [x]) = forallb P l && P x.
Proof. rewrite forallb_app. cbn. now rewrite andb_true_r. Qed.

(* ------------------------------------------------------------------------------------------- intercalate *)
Lemma intercalate_app g h : g <> [] -> h <> [] ->
  intercalate (g ++ h) = intercalate g ++ SLASH :: intercalate h.
Proof.
  intros Hg Hh. induction g as [|x g IH]; [congruence|].
  destruct g as [|y g].
  - cbn [app]. rewrite intercalate_cons. destruct h; [congruence|]. reflexivity.
  - change ((x :: y :: g) ++ h) with (x :: (y :: g) ++ h).
    rewrite (intercalate_cons x ((y :: g) ++ h)), (intercalate_cons x (y :: g)).
    cbn [app tail_str]. rewrite <- app_assoc. cbn [app]. f_equal. f_equal.
    apply IH. discriminate.
Qed.

Lemma intercalate_nonempty g : g <> [] -> forallb entry_name_ok g = true -> intercalate g <> [].
Proof.
  destruct g as [|x g]; [congruence|]. intros _ H. cbn [forallb] in H. apply andb_prop in H as [Hx _].
  apply entry_name_ok_parts in Hx as (_ & Hne & _). rewrite intercalate_cons.
  destruct x; [congruence|discriminate].
Qed.

Lemma intercalate_head_not_slash g c r : forallb entry_name_ok g = true -> intercalate g = c :: r ->
  N.eqb c SLASH = false.
Proof.
  destruct g as [|x g]; [discriminate|]. intros H E. cbn [forallb] in H. apply andb_prop in H as [Hx _].
  apply entry_name_ok_parts in Hx as (Hn & Hne & _). rewrite intercalate_cons in E.
  destruct x as [|d x]; [congruence|]. cbn in E. injection E as -> _.
  apply name_ok_not_slash in Hn. cbn in Hn. apply andb_prop in Hn as [Hd _].
  unfold not_slash in Hd. now apply negb_true_iff in Hd.
Qed.

Lemma intercalate_inj_dot g : g <> [] -> forallb name_ok g = true -> intercalate g = s "." -> g = [s "."].
Proof.
  intros Hne Hg E. rewrite <- (split_on_intercalate g Hne Hg), E. reflexivity.
Qed.

Lemma intercalate_not_dot g : g <> [] -> forallb entry_name_ok g = true -> str_eqb (intercalate g) (s ".") = false.
Proof.
  intros Hne Hg. apply str_eqb_neq. intros E.
  apply intercalate_inj_dot in E; [|exact Hne|now apply entries_name_ok].
  subst g. cbn in Hg. discriminate.
Qed.

Lemma has_slash_name x : forallb not_slash x = true -> has_slash x = false.
Proof.
  unfold has_slash. induction x as [|c x IH]; [reflexivity|]. cbn [forallb existsb]. intros H. apply andb_prop in H as [Hc Hx].
  unfold not_slash in Hc. apply negb_true_iff in Hc. rewrite (N.eqb_sym SLASH c), Hc. now apply IH.
Qed.

Lemma has_slash_app a b : has_slash (a ++ b) = has_slash a || has_slash b.
Proof. unfold has_slash. now rewrite existsb_app. Qed.

Lemma has_slash_intercalate g : forallb name_ok g = true ->
  has_slash (intercalate g) = match g with _ :: _ :: _ => true | _ => false end.
Proof.
  destruct g as [|x g]; [reflexivity|]. intros H. cbn [forallb] in H. apply andb_prop in H as [Hx Hg].
  rewrite intercalate_cons, has_slash_app, (has_slash_name x (name_ok_not_slash x Hx)).
  destruct g; reflexivity.
Qed.

(* ------------------------------------------------------------------------------------------- Clean / Join *)
Definition normal_comp (c : str) : bool :=
  negb (str_eqb c [] || str_eqb c (s ".")) && negb (str_eqb c (s "..")).

Lemma entry_normal x : entry_name_ok x = true -> normal_comp x = true.
Proof.
  intros H. apply entry_name_ok_parts in H as (_ & H1 & H2 & H3). unfold normal_comp.
  apply str_eqb_neq in H1, H2, H3. now rewrite H1, H2, H3.
Qed.

Lemma clean_comps_normal r : forallb entry_name_ok r = true ->
  forall out, clean_comps false r out = rev out ++ r.
Proof.
  induction r as [|c r IH]; intros H out; [cbn; now rewrite app_nil_r|].
  cbn [forallb] in H. apply andb_prop in H as [Hc Hr]. apply entry_normal in Hc. unfold normal_comp in Hc.
  apply andb_prop in Hc as [H1 H2]. apply negb_true_iff in H1, H2. cbn [clean_comps]. rewrite H1, H2.
  rewrite (IH Hr). cbn [rev]. now rewrite <- app_assoc.
Qed.

Lemma clean_path g : g <> [] -> forallb entry_name_ok g = true -> clean (intercalate g) = intercalate g.
Proof.
  intros Hne Hg. unfold clean. destruct (intercalate g) as [|c r] eqn:E.
  - exfalso. now apply (intercalate_nonempty g).
  - rewrite (intercalate_head_not_slash g c r Hg E). rewrite <- E.
    rewrite (split_on_intercalate g Hne (entries_name_ok g Hg)), (clean_comps_normal g Hg []). cbn [rev app].
    rewrite E. reflexivity.
Qed.

Lemma clean_dot_path g : g <> [] -> forallb entry_name_ok g = true ->
  clean (s "." ++ SLASH :: intercalate g) = intercalate g.
Proof.
  intros Hne Hg.
  assert (E : s "." ++ SLASH :: intercalate g = intercalate (s "." :: g)).
  { rewrite intercalate_cons. destruct g; [congruence|]. reflexivity. }
  rewrite E. unfold clean. destruct (intercalate (s "." :: g)) as [|c r] eqn:E2; [rewrite <- E in E2; discriminate|].
  assert (N.eqb c SLASH = false) as ->. { change (s ".") with [46%N] in E. cbn [app] in E. injection E as <- _. reflexivity. }
  rewrite <- E2. rewrite split_on_intercalate; [|discriminate|cbn [forallb]; now rewrite (entries_name_ok g Hg)].
  change (clean_comps false (s "." :: g) []) with (clean_comps false g []).
  rewrite (clean_comps_normal g Hg []). cbn [rev app].
  destruct (intercalate g) eqn:E3; [exfalso; now apply (intercalate_nonempty g)|reflexivity].
Qed.

(* trailing separator, as filepath.Dir hands it to Clean *)
Lemma split_on_trailing g : g <> [] -> forallb name_ok g = true ->
  split_on SLASH (intercalate g ++ [SLASH]) = g ++ [[]].
Proof.
  induction g as [|x g IH]; intros Hne Hg; [congruence|].
  cbn [forallb] in Hg. apply andb_prop in Hg as [Hx Hg]. rewrite intercalate_cons.
  destruct g as [|y g].
  - cbn [tail_str]. rewrite app_nil_r. rewrite split_on_name by now apply name_ok_not_slash. reflexivity.
  - cbn [tail_str]. rewrite <- app_assoc. cbn [app]. rewrite split_on_name by now apply name_ok_not_slash.
    cbn [app]. f_equal. apply IH; [discriminate|exact Hg].
Qed.

Lemma clean_trailing g : g <> [] -> forallb entry_name_ok g = true ->
  clean (intercalate g ++ [SLASH]) = intercalate g.
Proof.
  intros Hne Hg. unfold clean. destruct (intercalate g) as [|c r] eqn:E.
  - exfalso. now apply (intercalate_nonempty g).
  - cbn [app]. rewrite (intercalate_head_not_slash g c r Hg E).
    change (c :: r ++ [SLASH]) with ((c :: r) ++ [SLASH]). rewrite <- E.
    rewrite (split_on_trailing g Hne (entries_name_ok g Hg)).
    assert (Hc : forall r out, clean_comps false (r ++ [[]]) out = clean_comps false r out).
    { induction r0 as [|d r0 IH]; intros out; [reflexivity|]. cbn [app clean_comps].
      destruct (str_eqb d [] || str_eqb d (s ".")); [apply IH|].
      destruct (str_eqb d (s "..")); [|apply IH]. destruct out as [|p o]; [apply IH|].
      destruct (str_eqb p (s "..")); apply IH. }
    rewrite Hc, (clean_comps_normal g Hg []). cbn [rev app]. rewrite E. reflexivity.
Qed.

(* the path string of the entry at components `pkg ++ rel`; the repository root is "." *)
Definition pstr (pkg rel : list str) : str :=
  match pkg ++ rel with [] => s "." | g => intercalate g end.

Lemma pstr_root pkg : pstr pkg [] = root_str pkg.
Proof. unfold pstr, root_str. rewrite app_nil_r. destruct pkg; reflexivity. Qed.

Lemma pstr_nonroot pkg rel : rel <> [] -> pstr pkg rel = path_str pkg rel.
Proof.
  intros H. unfold pstr, path_str. destruct (pkg ++ rel) eqn:E; [|reflexivity].
  apply app_eq_nil in E as [_ E]. congruence.
Qed.

(* filepath.Join(root, pattern) for a pattern whose segments are plain names *)
Lemma join_root pkg L : L <> [] -> forallb entry_name_ok pkg = true -> forallb entry_name_ok L = true ->
  join (root_str pkg) (intercalate L) = intercalate (pkg ++ L).
Proof.
  intros HL Hp HLok. pose proof (intercalate_nonempty L HL HLok) as Hne.
  unfold root_str. destruct pkg as [|x pkg].
  - cbn [app]. unfold join. change (s ".") with [DOT] at 1. cbv iota.
    destruct (intercalate L) eqn:E; [congruence|]. rewrite <- E. now apply clean_dot_path.
  - unfold join. destruct (intercalate (x :: pkg)) eqn:E1; [exfalso; now apply (intercalate_nonempty (x :: pkg))|].
    destruct (intercalate L) eqn:E2; [congruence|]. rewrite <- E1, <- E2.
    rewrite <- intercalate_app; [|discriminate|exact HL].
    apply clean_path; [discriminate|]. rewrite forallb_app. now rewrite Hp, HLok.
Qed.

Lemma join_empty L : L <> [] -> forallb entry_name_ok L = true -> join [] (intercalate L) = intercalate L.
Proof.
  intros HL HLok. unfold join. destruct (intercalate L) eqn:E; [reflexivity|]. rewrite <- E. now apply clean_path.
Qed.

(* path.Join(dir, name) inside WalkDir *)
Lemma pjoin_pstr pkg rel nm : forallb entry_name_ok (pkg ++ rel) = true ->
  pjoin (pstr pkg rel) nm = pstr pkg (rel ++ [nm]).
Proof.
  intros H. unfold pstr, pjoin. rewrite app_assoc. destruct (pkg ++ rel) as [|x g] eqn:E; [reflexivity|].
  rewrite intercalate_not_dot; [|discriminate|exact H].
  destruct ((x :: g) ++ [nm]) eqn:E2; [discriminate|]. rewrite <- E2.
  rewrite intercalate_app; [reflexivity|discriminate|discriminate].
Qed.

Lemma last_snoc {A} (l : list A) x d : last (l ++ [x]) d = x.
Proof. induction l as [|y l IH]; [reflexivity|]. cbn [app]. destruct (l ++ [x]) eqn:E; [destruct l; discriminate|]. exact IH. Qed.

(* filepath.Base / filepath.Dir of the path of an entry *)
Lemma base_pstr pkg rel nm : forallb entry_name_ok (pkg ++ rel) = true -> entry_name_ok nm = true ->
  base (pstr pkg (rel ++ [nm])) = nm.
Proof.
  intros H Hn. unfold pstr. rewrite app_assoc. destruct ((pkg ++ rel) ++ [nm]) eqn:E; [destruct (pkg ++ rel); discriminate|].
  rewrite <- E. pose proof (entry_name_ok_parts nm Hn) as (Hn1 & Hn2 & _).
  rewrite base_of_path; [apply last_snoc|destruct (pkg ++ rel); discriminate| |now rewrite last_snoc].
  rewrite forallb_snoc, (entries_name_ok _ H), Hn1. reflexivity.
Qed.

Lemma removelast_snoc {A} (l : list A) x : removelast (l ++ [x]) = l.
Proof. rewrite removelast_app by discriminate. cbn. now rewrite app_nil_r. Qed.

Lemma dirname_pstr pkg rel nm : forallb entry_name_ok (pkg ++ rel) = true -> entry_name_ok nm = true ->
  dirname (pstr pkg (rel ++ [nm])) = pstr pkg rel.
Proof.
  intros H Hn. pose proof (entry_name_ok_parts nm Hn) as (Hn1 & _).
  unfold pstr at 1. rewrite app_assoc. destruct ((pkg ++ rel) ++ [nm]) eqn:E; [destruct (pkg ++ rel); discriminate|].
  rewrite <- E. unfold dirname.
  assert (Hok : forallb name_ok ((pkg ++ rel) ++ [nm]) = true) by now rewrite forallb_snoc, (entries_name_ok _ H), Hn1.
  rewrite has_slash_intercalate by exact Hok.
  unfold pstr. destruct (pkg ++ rel) as [|x g] eqn:E2; [reflexivity|].
  cbn [app]. destruct (g ++ [nm]) eqn:E3; [destruct g; discriminate|]. rewrite <- E3.
  change (x :: g ++ [nm]) with ((x :: g) ++ [nm]).
  rewrite split_on_intercalate; [|discriminate|exact Hok]. rewrite removelast_snoc.
  apply clean_trailing; [discriminate|exact H].
Qed.

(* ------------------------------------------------------------------------------------------- prefixes *)
Lemma is_prefix_segs_iff d f : is_prefix_segs d f = true <-> exists t, f = d ++ t.
Proof.
  revert f; induction d as [|x d IH]; intros f.
  - split; [intros _; now exists f|reflexivity].
  - destruct f as [|y f]; [split; [discriminate|intros (t & E); discriminate]|].
    cbn [is_prefix_segs]. rewrite andb_true_iff, str_eqb_eq, IH. split.
    + intros (-> & t & ->). now exists t.
    + intros (t & E). cbn in E. injection E as -> ->. split; [reflexivity|now exists t].
Qed.

Lemma is_prefix_segs_app pkg d f : is_prefix_segs (pkg ++ d) (pkg ++ f) = is_prefix_segs d f.
Proof. induction pkg as [|x pkg IH]; [reflexivity|]. cbn. now rewrite str_eqb_refl. Qed.

(* isBathPathOf(path, base) = HasPrefix(path, base+"/") || path == base *)
Lemma base_path_of_alt path b :
  is_base_path_of path b = prefixb (b ++ [SLASH]) path || str_eqb path b.
Proof.
  unfold is_base_path_of. revert path; induction b as [|c b IH]; intros path.
  - cbn [prefixb app length skipn andb]. destruct path as [|d path]; [reflexivity|].
    cbn [prefixb str_eqb]. rewrite orb_false_r, andb_true_r. reflexivity.
  - destruct path as [|d path]; [reflexivity|]. cbn [prefixb app length skipn str_eqb].
    rewrite <- andb_orb_distrib_r, <- IH. now rewrite andb_assoc.
Qed.

Lemma base_path_of_segs d g : d <> [] -> forallb name_ok d = true -> g <> [] -> forallb name_ok g = true ->
  is_base_path_of (intercalate g) (intercalate d) = is_prefix_segs d g.
Proof.
  intros Hd Hdok Hg Hgok. rewrite base_path_of_alt, <- (in_directory_whole_components d Hd Hdok g Hg Hgok).
  unfold is_in_directories. cbn [existsb]. now rewrite orb_false_r.
Qed.

(* isInDirectories against a list of directories *)
Lemma in_directories_segs pkg f S :
  f <> [] -> forallb name_ok (pkg ++ f) = true ->
  (forall d, In d S -> d <> [] /\ forallb name_ok (pkg ++ d) = true) ->
  is_in_directories (path_str pkg f) (map (path_str pkg) S) = existsb (fun d => is_prefix_segs d f) S.
Proof.
  intros Hf Hfok HS. induction S as [|d S IH]; [reflexivity|].
  assert (E : forall name d ds, is_in_directories name (d :: ds) = is_in_directories name [d] || is_in_directories name ds).
  { intros. unfold is_in_directories. cbn [existsb]. now rewrite orb_false_r. }
  cbn [map existsb]. rewrite E. rewrite IH by (intros d' Hd'; apply HS; now right). f_equal.
  destruct (HS d (or_introl eq_refl)) as [Hdne Hdok].
  unfold path_str. rewrite in_directory_whole_components; [apply is_prefix_segs_app| | | |].
  - destruct pkg; [exact Hdne|discriminate].
  - exact Hdok.
  - destruct pkg; [exact Hf|discriminate].
  - exact Hfok.
Qed.

(* strings.TrimPrefix(path, root + "/") *)
Lemma trim_root pkg f : f <> [] -> forallb entry_name_ok (pkg ++ f) = true ->
  trim_prefix (root_str pkg ++ [SLASH]) (path_str pkg f) = intercalate f.
Proof.
  intros Hf Hok. unfold trim_prefix, root_str, path_str. destruct pkg as [|x pkg].
  - cbn [app]. destruct f as [|y f]; [congruence|]. cbn [forallb] in Hok. apply andb_prop in Hok as [Hy _].
    apply entry_name_ok_parts in Hy as (Hn & Hne & Hdot & _). rewrite intercalate_cons.
    assert (prefixb (s "." ++ [SLASH]) (y ++ tail_str f) = false) as ->; [|reflexivity].
    destruct y as [|c y]; [congruence|]. cbn. destruct (N.eqb_spec c 46); [subst c|reflexivity]. cbn [andb].
    destruct y as [|c2 y]; [now contradict Hdot|]. cbn.
    apply name_ok_not_slash in Hn. cbn [forallb] in Hn. apply andb_prop in Hn as [_ Hn]. apply andb_prop in Hn as [Hc2 _].
    unfold not_slash in Hc2. apply negb_true_iff in Hc2. now rewrite Hc2.
  - rewrite intercalate_app; [|discriminate|exact Hf].
    set (r := intercalate (x :: pkg)).
    assert (Hp : forall t, prefixb (r ++ [SLASH]) (r ++ SLASH :: t) = true).
    { intros t. induction r as [|c r IH]; cbn [app prefixb]; rewrite N.eqb_refl; [reflexivity|exact IH]. }
    rewrite Hp. rewrite app_length. cbn [length]. clear Hp.
    induction r as [|c r IH]; [reflexivity|]. exact IH.
Qed.
