(* C17 - parametricity of the evaluator in the ids it allocates, part 6: statements (exec_stmt), and the induction
   on the fuel: the whole evaluator commutes with the renaming. *)
From Coq Require Import String Lia.
From PlzV Require Import Base.Harness Base.StrFacts Gen.AspTables Model.C16_Syntax Model.C16_Ops Model.C16_Prim Model.C16_Eval.
From PlzV Require Import Proof.C17_Inv Proof.C17_Ops Proof.C17_Scopes Proof.C17_Sim1 Proof.C17_Sim2 Proof.C17_Sim3 Proof.C17_Sim4 Proof.C17_Sim5.
Local Open Scope list_scope.
Local Open Scope nat_scope.

#[local] Arguments chain : simpl never.
#[local] Arguments is_const : simpl never.
#[local] Arguments const_alloc : simpl never.
#[local] Arguments native : simpl never.
#[local] Arguments native_method : simpl never.
#[local] Arguments native_sig : simpl never.
#[local] Arguments method_sig : simpl never.
#[local] Arguments validate : simpl never.
#[local] Arguments apply_bin : simpl never.
#[local] Arguments vindex : simpl never.
#[local] Arguments vslice : simpl never.
#[local] Arguments vindex_assign : simpl never.
#[local] Arguments unpack_names : simpl never.
#[local] Arguments iter_items : simpl never.
#[local] Arguments new_list : simpl never.
#[local] Arguments alloc_list : simpl never.
#[local] Arguments alloc_dict : simpl never.
#[local] Arguments lookup : simpl never.
#[local] Arguments set_var : simpl never.
#[local] Arguments truthy : simpl never.
#[local] Arguments strict_list : simpl never.
#[local] Arguments str_eqb : simpl never.
#[local] Arguments existsb : simpl never.
#[local] Arguments assoc_get : simpl never.
#[local] Arguments find_def : simpl never.
#[local] Arguments opt_stmts : simpl never.
#[local] Arguments drop_pass : simpl never.
#[local] Arguments freeze_env : simpl never.
#[local] Arguments mapM : simpl never.
#[local] Arguments mapR : simpl never.
#[local] Arguments rbind : simpl never.
#[local] Arguments s : simpl never.
#[local] Arguments str_methods : simpl never.
#[local] Arguments dict_methods : simpl never.
#[local] Arguments Nat.ltb : simpl never.
#[local] Arguments Nat.leb : simpl never.
#[local] Arguments nth : simpl never.
#[local] Arguments fold_left : simpl never.
#[local] Arguments combine : simpl never.
#[local] Arguments map : simpl never.
#[local] Arguments length : simpl never.
#[local] Arguments env_get : simpl never.
#[local] Arguments tl : simpl never.
#[local] Arguments C17_Sim1.rn_env : simpl never.
#[local] Arguments C17_Sim1.rn_slice : simpl never.
#[local] Arguments C17_Sim1.rn_func : simpl never.
#[local] Arguments C17_Sim1.rsim : simpl never.
#[local] Arguments sh : simpl never.


Section Sim6.
Variable W : shift.
Variable defs : list (str * prog).
Notation rn := (C17_Sim1.rn W).
Notation rn_env := (C17_Sim1.rn_env W).
Notation rn_kv := (C17_Sim1.rn_kv W).
Notation rn_arg := (C17_Sim1.rn_arg W).
Notation rn_func := (C17_Sim1.rn_func W).
Notation sim := (C17_Sim1.sim W defs).
Notation rsim := (C17_Sim1.rsim W defs).
Notation vR := (C17_Sim1.vR W).
Notation shf := (C17_Sim1.shf W).
Notation sR := (C17_Sim4.sR W).
Notation rn_sres := (C17_Sim4.rn_sres W).
Notation E_sim := (C17_Sim4.E_sim W defs).
Notation V_sim := (C17_Sim4.V_sim W defs).
Notation C_sim := (C17_Sim4.C_sim W defs).
Notation R_sim := (C17_Sim4.R_sim W defs).
Notation B_sim := (C17_Sim4.B_sim W defs).
Notation S_sim := (C17_Sim4.S_sim W defs).

Lemma ret_none : forall st st', sim st st' -> rsim sR (Ok (RNone, st)) (Ok (RNone, st')).
Proof. intros st st' HS. split; [reflexivity|exact HS]. Qed.

Lemma step_S : forall f, E_sim f -> C_sim f -> B_sim f -> S_sim (S f).
Proof.
  intros f IHE IHC IHB s0 st st' HS. destruct s0; simpl.
  - (* SAssign *)
    eapply rsim_bind; [apply IHE; exact HS|]. intros v s1 v' s1' Hv H1. cbv beta match. rsubst.
    apply ret_none. apply set_var_sim. exact H1.
  - (* SAug *)
    rewrite (lookup_sim _ _ _ _ HS). destruct (lookup n st) as [old|]; cbn [option_map]; [|reflexivity].
    eapply rsim_bind; [apply IHE; exact HS|]. intros v s1 v' s1' Hv H1. cbv beta match. rsubst.
    eapply rsim_bind; [apply apply_bin_sim; exact H1|]. intros r s2 r' s2' Hr H2. cbv beta match. rsubst.
    apply ret_none. apply set_var_sim. exact H2.
  - (* SIdxAssign *)
    rewrite (lookup_sim _ _ _ _ HS). destruct (lookup n st) as [obj|]; cbn [option_map]; [|reflexivity].
    eapply rsim_bind; [apply IHE; exact HS|]. intros idx s1 idx' s1' Hi H1. cbv beta match. rsubst.
    eapply rsim_bind; [apply IHE; exact H1|]. intros v s2 v' s2' Hv H2. cbv beta match. rsubst.
    eapply rsim_bind_state; [apply vindex_assign_sim; exact H2|]. intros s3 s3' H3. apply ret_none. exact H3.
  - (* SIdxAug *)
    rewrite (lookup_sim _ _ _ _ HS). destruct (lookup n st) as [obj|]; cbn [option_map]; [|reflexivity].
    eapply rsim_bind; [apply IHE; exact HS|]. intros idx s1 idx' s1' Hi H1. cbv beta match. rsubst.
    rewrite (vindex_sim _ _ _ _ H1). apply rsim_pure. intros old Hold.
    eapply rsim_bind; [apply IHE; exact H1|]. intros v s2 v' s2' Hv H2. cbv beta match. rsubst.
    eapply rsim_bind; [apply apply_bin_sim; exact H2|]. intros r s3 r' s3' Hr H3. cbv beta match. rsubst.
    eapply rsim_bind_state; [apply vindex_assign_sim; exact H3|]. intros s4 s4' H4. apply ret_none. exact H4.
  - (* SUnpack *)
    eapply rsim_bind; [apply IHE; exact HS|]. intros v s1 v' s1' Hv H1. cbv beta match. rsubst.
    destruct names as [|n1 [|n2 nr]]; try reflexivity.
    eapply rsim_bind_state; [apply unpack_names_sim; exact H1|]. intros s2 s2' H2. apply ret_none. exact H2.
  - (* SIf *)
    eapply rsim_bind; [apply IHE; exact HS|]. intros cv s1 cv' s1' Hcv H1. cbv beta match. rsubst.
    rewrite (truthy_sim _ _ _ _ H1). destruct (truthy Asp s1 cv); [apply IHB; exact H1|].
    clear HS. revert s1 s1' H1. induction elifs as [|[c1 b1] r IH]; intros s1 s1' H1; simpl.
    + apply IHB. exact H1.
    + eapply rsim_bind; [apply IHE; exact H1|]. intros v1 s2 v1' s2' Hv1 H2. cbv beta match. rsubst.
      rewrite (truthy_sim _ _ _ _ H2). destruct (truthy Asp s2 v1); [apply IHB; exact H2|]. apply IH. exact H2.
  - (* SFor *)
    eapply rsim_bind; [apply IHE; exact HS|]. intros itv s1 itv' s1' Hitv H1. cbv beta match. rsubst.
    rewrite (iter_items_sim _ _ _ _ H1). apply rsim_pure. intros items Hit.
    clear Hit HS. revert s1 s1' H1. induction items as [|li r IH]; intros s1 s1' H1.
    + apply ret_none. exact H1.
    + change (map rn (li :: r)) with (rn li :: map rn r). simpl.
      eapply rsim_bind_state; [apply unpack_names_sim; exact H1|]. intros s2 s2' H2.
      eapply rsim_bind; [apply IHB; exact H2|]. intros r0 s3 r0' s3' Hr0 H3. cbv beta match. red in Hr0. subst r0'.
      destruct r0; cbn [C17_Sim4.rn_sres]; try (apply IH; exact H3).
      * split; [reflexivity|exact H3].
      * apply ret_none. exact H3.
  - (* SDef *)
    eapply rsim_bind.
    + apply (mapM_sim_same W defs rn_arg); [|exact HS]. intros [a oe] _ s0 s0' H0. cbn [fst snd].
      destruct oe as [e|]; [|split; [reflexivity|exact H0]].
      destruct (is_const 32 e).
      * eapply rsim_bind; [apply const_alloc_sim; exact H0|]. intros v s' v' s'' Hv H'. cbv beta match. rsubst.
        split; [reflexivity|exact H'].
      * split; [reflexivity|exact H0].
    + intros formals s1 formals' s1' Hf H1. cbv beta match. rsubst.
      destruct (add_func_sim W defs (Func n formals body (cur s1)) s1 s1' H1) as [Hadd Hlen].
      rewrite Hlen, (sm_cur _ _ _ _ H1). split; [reflexivity|].
      apply (set_var_sim W defs _ _ n (VFunc (length (funcs s1)))). exact Hadd.
  - (* SReturn *)
    destruct e as [e|]; simpl.
    + eapply rsim_bind; [apply IHE; exact HS|]. intros v s1 v' s1' Hv H1. cbv beta match. rsubst. split; [reflexivity|exact H1].
    + split; [reflexivity|exact HS].
  - (* SCall *)
    rewrite (lookup_sim _ _ _ _ HS). destruct (lookup n st) as [fn|]; cbn [option_map]; [|reflexivity].
    assert (Hcall : rsim sR (rbind (call_value Asp defs f fn n args st) (fun '(_, st1) => Ok (RNone, st1)))
                            (rbind (call_value Asp defs f (rn fn) n args st') (fun '(_, st1) => Ok (RNone, st1)))).
    { eapply rsim_bind; [apply IHC; exact HS|]. intros v s1 v' s1' Hv H1. cbv beta match. apply ret_none. exact H1. }
    destruct fn; try exact Hcall. cbn [C17_Sim1.rn].
    destruct (str_eqb n0 (s "subinclude")); [|exact Hcall].
    destruct args as [|[[k|] [[ | lbl | | | | | | | | | | | | | ] [|? ?] [?|]]] [|? ?]]; try reflexivity.
    rewrite (subcache_sim _ _ _ _ HS). destruct (assoc_get lbl (subcache st)) as [globals|] eqn:Eg; cbn [option_map].
    + apply ret_none. apply set_vars_sim. exact HS.
    + rewrite (sm_cached _ _ _ _ HS lbl Eg). reflexivity.
  - (* SAssert *)
    eapply rsim_bind; [apply IHE; exact HS|]. intros v s1 v' s1' Hv H1. cbv beta match. rsubst.
    rewrite (truthy_sim _ _ _ _ H1). destruct (truthy Asp s1 v); [|reflexivity]. apply ret_none. exact H1.
  - apply ret_none. exact HS.
  - split; [reflexivity|exact HS].
  - split; [reflexivity|exact HS].
Qed.

Record sims (f : nat) : Prop := mkSims {
  si_E : E_sim f; si_V : V_sim f; si_C : C_sim f; si_R : R_sim f; si_B : B_sim f; si_S : S_sim f }.

Theorem all_sims : forall f, sims f.
Proof.
  induction f as [|f IH].
  - constructor; intro; intros; exact I.
  - destruct IH as [HE HV HC HR HB HS]. constructor.
    + apply step_E; auto.
    + apply step_V; auto.
    + apply step_C; auto.
    + apply step_R; auto.
    + apply step_B; auto.
    + apply step_S; auto.
Qed.

End Sim6.
