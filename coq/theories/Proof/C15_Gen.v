(* C15 - proofs, part 3: the tie between the hand model and the source text of the critical sections.
   Gen/CmapSections.v is regenerated from src/cmap/cmap.go on every check: the bodies of shard.Set,
   LazySet, Get (cut at its lock hand-over) and Contains as nested lists of statement texts.  This
   file gives every statement text that occurs there a meaning (a closed vocabulary: any other text
   makes the interpreter return None) and proves that the model's sections ARE the interpretation
   of the generated bodies, for every key, value, flag and state. *)
From Coq Require Import String.
From PlzV Require Import Base.Harness Model.C15 Gen.CmapSections.

Section Interp.
Variable V : Type.
Variable zero : V.

(* the local variables of one execution of a section *)
Record mach := mkM {
  m_st : state V;
  m_ent : option (entry V);     (* existing / v, bound by the last s.m[key] lookup; None = not present *)
  m_fv : option V;              (* v := f() *)
  m_ch : option chan;           (* ch := make(chan struct{}) *)
  m_wait : option chan;         (* named result wait *)
  m_first : bool;               (* named result first *)
  m_locked : bool
}.

Inductive ret := RetB (b : bool) | RetVB (v : V) (b : bool) | RetG (g : gres V).

Section Call.
Variable k : key.               (* key *)
Variable val : V.               (* val, or what f() returns *)
Variable ow : bool.             (* overwrite *)

Definition lookup (m : mach) : mach :=
  mkM (m_st m) (afind k (tbl (m_st m))) (m_fv m) (m_ch m) (m_wait m) (m_first m) (m_locked m).
Definition with_st (m : mach) (s : state V) : mach :=
  mkM s (m_ent m) (m_fv m) (m_ch m) (m_wait m) (m_first m) (m_locked m).
Definition with_lock (m : mach) (b : bool) : mach :=
  mkM (m_st m) (m_ent m) (m_fv m) (m_ch m) (m_wait m) (m_first m) b.
Definition store (m : mach) (e : entry V) : mach :=
  let s := m_st m in with_st m (mkState (aset k e (tbl s)) (closed s) (next s) (alloc s)).

Definition cond_sem (c : string) (m : mach) : option (bool * mach) :=
  if String.eqb c "existing, present := s.m[key]; present" || String.eqb c "v, ok := s.m[key]; ok" then
    let m' := lookup m in
    if m_locked m then Some (match m_ent m' with Some _ => true | None => false end, m') else None
  else if String.eqb c "existing.Wait == nil" then
    match m_ent m with
    | Some (Val _) => Some (true, m)
    | Some (Waiting _) => Some (false, m)
    | None => None
    end
  else if String.eqb c "!overwrite" then Some (negb ow, m)
  else None.

Definition stmt_sem (t : string) (m : mach) : option (mach * option ret) :=
  if String.eqb t "s.l.Lock()" || String.eqb t "s.l.RLock()" then
    if m_locked m then None else Some (with_lock m true, None)
  else if String.eqb t "defer s.l.Unlock()" || String.eqb t "defer s.l.RUnlock()" then
    if m_locked m then Some (m, None) else None
  else if String.eqb t "s.l.RUnlock()" then
    if m_locked m then Some (with_lock m false, None) else None
  else if String.eqb t "s.m[key] = awaitableValue[V]{Val: val}" then
    if m_locked m then Some (store m (Val val), None) else None
  else if String.eqb t "v := f()" then
    Some (mkM (m_st m) (m_ent m) (Some val) (m_ch m) (m_wait m) (m_first m) (m_locked m), None)
  else if String.eqb t "s.m[key] = awaitableValue[V]{Val: v}" then
    match m_fv m with
    | Some v => if m_locked m then Some (store m (Val v), None) else None
    | None => None
    end
  else if String.eqb t "close(existing.Wait)" then
    match m_ent m with
    | Some (Waiting c) =>
        let s := m_st m in Some (with_st m (mkState (tbl s) (c :: closed s) (next s) (alloc s)), None)
    | _ => None                                  (* close(nil) panics *)
    end
  else if String.eqb t "existing.Wait = nil" then Some (m, None)     (* a local copy *)
  else if String.eqb t "ch := make(chan struct{})" then
    let s := m_st m in
    Some (mkM (mkState (tbl s) (closed s) (N.succ (next s)) (alloc s)) (m_ent m) (m_fv m)
              (Some (next s)) (m_wait m) (m_first m) (m_locked m), None)
  else if String.eqb t "s.m[key] = awaitableValue[V]{Wait: ch}" then
    match m_ch m with
    | Some c => if m_locked m then
                  let s := m_st m in
                  Some (with_st m (mkState (aset k (Waiting c) (tbl s)) (closed s) (next s) ((c, k) :: alloc s)), None)
                else None
    | None => None
    end
  else if String.eqb t "wait = ch" then
    Some (mkM (m_st m) (m_ent m) (m_fv m) (m_ch m) (m_ch m) (m_first m) (m_locked m), None)
  else if String.eqb t "first = true" then
    Some (mkM (m_st m) (m_ent m) (m_fv m) (m_ch m) (m_wait m) true (m_locked m), None)
  else if String.eqb t "return" then Some (m, Some (RetG (zero, m_wait m, m_first m)))
  else if String.eqb t "return false" then Some (m, Some (RetB false))
  else if String.eqb t "return true" then Some (m, Some (RetB true))
  else if String.eqb t "return existing.Val, false" then
    match m_ent m with
    | Some (Val e) => Some (m, Some (RetVB e false))
    | Some (Waiting _) => Some (m, Some (RetVB zero false))
    | None => None
    end
  else if String.eqb t "return v, true" then
    match m_fv m with Some v => Some (m, Some (RetVB v true)) | None => None end
  else if String.eqb t "return v.Val, v.Wait, false" then
    match m_ent m with Some e => Some (m, Some (RetG (entry_res V zero e))) | None => None end
  else if String.eqb t "v, ok := s.m[key]" then
    if m_locked m then Some (lookup m, None) else None
  else if String.eqb t "return ok && v.Wait == nil" then
    Some (m, Some (RetB (match m_ent m with Some (Val _) => true | _ => false end)))
  else None.

Fixpoint exec (g : gstmt) (m : mach) : option (mach * option ret) :=
  match g with
  | GStmt t => stmt_sem t m
  | GIf c body =>
      match cond_sem c m with
      | None => None
      | Some (false, m') => Some (m', None)
      | Some (true, m') =>
          (fix go (l : list gstmt) (m : mach) : option (mach * option ret) :=
             match l with
             | [] => Some (m, None)
             | x :: r => match exec x m with
                         | Some (m2, None) => go r m2
                         | o => o
                         end
             end) body m'
      end
  end.

Fixpoint exec_list (l : list gstmt) (m : mach) : option (mach * option ret) :=
  match l with
  | [] => Some (m, None)
  | x :: r => match exec x m with
              | Some (m2, None) => exec_list r m2
              | o => o
              end
  end.

(* run a body on state s: final state and what it returned (None = fell off the end) *)
Definition run_body (l : list gstmt) (s : state V) : option (state V * option ret) :=
  match exec_list l (mkM s None None None None false false) with
  | Some (m, r) => Some (m_st m, r)
  | None => None
  end.
End Call.

(* the model's sections are the interpretation of the generated bodies *)
Lemma gen_set : forall k v ow s,
  run_body k v ow shard_Set s = Some (fst (sec_set V k v ow s), Some (RetB (snd (sec_set V k v ow s)))).
Proof.
  intros k v ow s. unfold sec_set, run_body. cbv -[afind aset N.succ tbl closed next alloc].
  destruct (afind k (tbl s)) as [[v0|c]|]; [destruct ow|..]; reflexivity.
Qed.

Lemma gen_lazyset : forall k v s,
  run_body k v false shard_LazySet s
  = Some (fst (sec_lazyset V k v s), Some (RetVB (fst (snd (sec_lazyset V k v s))) (snd (snd (sec_lazyset V k v s))))).
Proof.
  intros k v s. unfold sec_lazyset, run_body. cbv -[afind aset N.succ tbl closed next alloc].
  destruct (afind k (tbl s)) as [[v0|c]|]; reflexivity.
Qed.

Lemma gen_get_fast : forall k v s,
  run_body k v false shard_Get_fast s
  = Some (s, match sec_get_fast V zero k s with Some r => Some (RetG r) | None => None end).
Proof.
  intros k v s. unfold sec_get_fast, run_body. cbv -[afind aset N.succ tbl closed next alloc].
  destruct (afind k (tbl s)) as [[v0|c]|]; destruct s; reflexivity.
Qed.

Lemma gen_get_slow : forall k v s,
  run_body k v false shard_Get_slow s
  = Some (fst (sec_get_slow V zero k s), Some (RetG (snd (sec_get_slow V zero k s)))).
Proof.
  intros k v s. unfold sec_get_slow, run_body. cbv -[afind aset N.succ tbl closed next alloc].
  destruct (afind k (tbl s)) as [[v0|c]|]; destruct s; reflexivity.
Qed.

Lemma gen_contains : forall k v s,
  run_body k v false shard_Contains s = Some (s, Some (RetB (sec_contains V k s))).
Proof.
  intros k v s. unfold sec_contains, run_body. cbv -[afind aset N.succ tbl closed next alloc].
  destruct (afind k (tbl s)) as [[v0|c]|]; destruct s; reflexivity.
Qed.

End Interp.

(* the struct the model's `entry` stands for, and the signatures the sections are called with *)
Lemma gen_struct : awaitableValue_fields = ["Val V"; "Wait chan struct{}"]%string.
Proof. reflexivity. Qed.

Lemma gen_signatures : shard_signatures =
  ["func(key K, val V, overwrite bool) bool"; "func(key K, f func() V) (V, bool)";
   "func(key K) (val V, wait <-chan struct{}, first bool)"; "func(key K) bool"]%string.
Proof. reflexivity. Qed.
