(* C21 - glob(): proofs.
   Part 0: the regenerated tables (Gen/GlobRegex.v) are the ones the model was written from.
   Part A: the matcher.  For a pattern whose compiled form (filepath.Join, the `**` switch, toRegexString, the
           parser of filepath.Match / of the regexp fragment - all computed by the model) is the token translation
           `toks_of` of the structured pattern, the token matcher on the joined path string agrees with the
           segment-wise reference on EVERY path (induction on the pattern segments, the atoms of a segment and
           the path).
   Part B: the filters of Globber.glob on path strings against their segment-wise meaning. *)
From Coq Require Import String.
From PlzV Require Import Base.Harness Base.StrFacts Model.C21.
From PlzV Require Gen.GlobRegex.
From Coq Require Import Lia.

(* ------------------------------------------------------------------------------------------- Part 0 *)
Lemma gen_rewrites_ok :
  map (fun on => (s (fst on), s (snd on))) Gen.GlobRegex.regex_rewrites = rewrites
  /\ s Gen.GlobRegex.regex_prefix = s "^" /\ s Gen.GlobRegex.regex_suffix = s "$".
Proof. repeat split; reflexivity. Qed.

Lemma gen_literals_ok :
  Gen.GlobRegex.matcher_literals = ["**"%string]
  /\ Gen.GlobRegex.hidden_literals = ["."%string; "#"%string; "#"%string]
  /\ Gen.GlobRegex.walk_literals = ["plz-out"%string; "."%string].
Proof. repeat split; reflexivity. Qed.

(* toRegexString as regenerated = toRegexString as modelled, on every input *)
Lemma gen_to_regex_string pattern :
  fold_left (fun acc on => replace_all (s (fst on)) (s (snd on)) acc) Gen.GlobRegex.regex_rewrites
            (s Gen.GlobRegex.regex_prefix ++ pattern ++ s Gen.GlobRegex.regex_suffix)
  = to_regex_string pattern.
Proof. reflexivity. Qed.

(* ------------------------------------------------------------------------------------------- Part A *)
Definition SL : tok := T1 (SLit SLASH).

(* what filepath.Match makes of an atom / what the regexp of toRegexString makes of it *)
Definition gtok (a : atom) : tok :=
  match a with
  | ALit c => T1 (SLit c)
  | AQ => T1 SNonSep
  | AStar => TStar SNonSep
  | AClass neg items => T1 (SClass neg items)
  end.

Definition rtok (a : atom) : tok :=
  match a with
  | ALit c => T1 (SLit c)
  | AQ => T1 SAnyNoNL
  | AStar => TStar (SClass true [(SLASH, SLASH)])
  | AClass neg items => T1 (SClass neg items)
  end.

(* the token list of a pattern: segments joined by '/', `/**/` = /(.*/)? , a final `**` = .* ,
   a leading `**/` (nothing before it: root package) = .*/  *)
Fixpoint ptoks (tr : atom -> tok) (sep : bool) (p : pat) : list tok :=
  match p with
  | [] => []
  | Seg a :: rest => (if sep then [SL] else []) ++ map tr a ++ ptoks tr true rest
  | DStar :: rest =>
      match rest with
      | [] => (if sep then [SL] else []) ++ [TStar SAnyNoNL]
      | _ => if sep then SL :: TOptDirs :: ptoks tr false rest
             else TStar SAnyNoNL :: SL :: ptoks tr false rest
      end
  end.

Definition lit_seg (name : str) : pseg := Seg (map ALit name).
Definition has_dstar (p : pat) : bool := existsb (fun g => match g with DStar => true | _ => false end) p.

Definition toks_of (pkg : list str) (p : pat) : list tok :=
  ptoks (if has_dstar p then rtok else gtok) false (map lit_seg pkg ++ p).

(* --- decidable equality of token lists, to state "the pattern compiles to toks_of" executably *)
Definition items_eqb (a b : list (N * N)) : bool :=
  list_eqb (fun x y => N.eqb (fst x) (fst y) && N.eqb (snd x) (snd y)) a b.
Definition single_eqb (a b : single) : bool :=
  match a, b with
  | SLit c, SLit d => N.eqb c d
  | SNonSep, SNonSep => true
  | SAnyNoNL, SAnyNoNL => true
  | SClass n1 i1, SClass n2 i2 => Bool.eqb n1 n2 && items_eqb i1 i2
  | _, _ => false
  end.
Definition tok_eqb (a b : tok) : bool :=
  match a, b with
  | T1 x, T1 y => single_eqb x y
  | TStar x, TStar y => single_eqb x y
  | TOptDirs, TOptDirs => true
  | _, _ => false
  end.

Lemma items_eqb_eq a b : items_eqb a b = true -> a = b.
Proof.
  revert b; induction a as [|[x1 x2] a IH]; intros [|[y1 y2] b] H; try discriminate; [reflexivity|].
  cbn in H. apply andb_prop in H as [H1 H2]. apply andb_prop in H1 as [Ha Hb].
  apply N.eqb_eq in Ha, Hb. subst. f_equal. now apply IH.
Qed.

Lemma single_eqb_eq a b : single_eqb a b = true -> a = b.
Proof.
  destruct a, b; cbn; intros H; try discriminate; try reflexivity.
  - apply N.eqb_eq in H. now subst.
  - apply andb_prop in H as [H1 H2]. apply Bool.eqb_prop in H1. apply items_eqb_eq in H2. now subst.
Qed.

Lemma tok_eqb_eq a b : tok_eqb a b = true -> a = b.
Proof. destruct a, b; cbn; intros H; try discriminate; try reflexivity; f_equal; now apply single_eqb_eq. Qed.

Lemma toks_eqb_eq a b : list_eqb tok_eqb a b = true -> a = b.
Proof.
  revert b; induction a as [|x a IH]; intros [|y b] H; try discriminate; [reflexivity|].
  cbn in H. apply andb_prop in H as [H1 H2]. apply tok_eqb_eq in H1. subst. f_equal. now apply IH.
Qed.

(* patternToMatcher(root, render p) - Join, the `**` test, toRegexString and the parser, all run - yields toks_of *)
Definition root_str (pkg : list str) : str := match pkg with [] => s "." | _ => intercalate pkg end.

Definition compiles (pkg : list str) (p : pat) : bool :=
  option_eqb (list_eqb tok_eqb) (pattern_to_matcher (root_str pkg) (render p)) (Some (toks_of pkg p)).

Lemma compiles_eq pkg p : compiles pkg p = true ->
  pattern_to_matcher (root_str pkg) (render p) = Some (toks_of pkg p).
Proof.
  unfold compiles. destruct (pattern_to_matcher _ _) as [ts|]; cbn; [|discriminate].
  intros H. f_equal. now apply toks_eqb_eq.
Qed.

(* --- the fragment, syntactically *)
Definition not_slash (c : N) : bool := negb (N.eqb c SLASH).
Definition name_ok (x : str) : bool := forallb (fun c => not_slash c && negb (N.eqb c NL)) x.

Definition atom_ok (regex_mode : bool) (a : atom) : bool :=
  match a with
  | ALit c => not_slash c
  | AQ => negb regex_mode                       (* `?` becomes `.`, which also matches '/' *)
  | AStar => true
  | AClass neg items => negb neg && negb (in_ranges SLASH items)   (* [^..] also matches '/' *)
  end.

Fixpoint segs_ok (regex_mode : bool) (p : pat) : bool :=
  match p with
  | [] => true
  | Seg a :: rest => forallb (atom_ok regex_mode) a && segs_ok regex_mode rest
  | DStar :: rest => match rest with DStar :: _ => false | _ => segs_ok regex_mode rest end
  end.

Definition pkg_ok (pkg : list str) : bool := forallb name_ok pkg.

(* in the root package a leading `**` has nothing before it and compiles to `.*/` or `.*` *)
Definition fragment (pkg : list str) (p : pat) : bool :=
  segs_ok (has_dstar p) p && pkg_ok pkg
  && match pkg, p with [], DStar :: _ => false | _, _ => true end.

(* --- single tokens *)
Definition tr_ok (tr : atom -> tok) (a : atom) : Prop :=
  match a with
  | AStar => exists x, tr a = TStar x /\ forall c, smatch x c = not_slash c
  | _ => exists x, tr a = T1 x /\ forall c, smatch x c = atom1 a c && not_slash c
  end.

Lemma eqb_slash_lit c d : not_slash d = true -> N.eqb c d = N.eqb c d && not_slash c.
Proof.
  unfold not_slash. intros Hd. destruct (N.eqb_spec c d) as [->|]; [now rewrite Hd|reflexivity].
Qed.

Lemma gtok_ok a : atom_ok false a = true -> tr_ok gtok a.
Proof.
  destruct a as [c| | |neg items]; cbn; intros H.
  - eexists; split; [reflexivity|]. intros d. cbn. now apply eqb_slash_lit.
  - eexists; split; [reflexivity|]. reflexivity.
  - eexists; split; [reflexivity|]. reflexivity.
  - apply andb_prop in H as [Hn Hs]. destruct neg; [discriminate|].
    eexists; split; [reflexivity|]. intros c. cbn. unfold not_slash.
    destruct (N.eqb_spec c SLASH) as [->|]; [|now rewrite andb_true_r].
    apply negb_true_iff in Hs. now rewrite Hs.
Qed.

Lemma rtok_ok a : atom_ok true a = true -> tr_ok rtok a.
Proof.
  destruct a as [c| | |neg items]; cbn; intros H.
  - eexists; split; [reflexivity|]. intros d. cbn. now apply eqb_slash_lit.
  - discriminate.
  - eexists; split; [reflexivity|]. intros c. cbn. unfold not_slash.
    rewrite orb_false_r. destruct (N.eqb_spec c SLASH) as [->|Hc]; [reflexivity|].
    assert (N.leb SLASH c && N.leb c SLASH = false) as ->; [|reflexivity].
    apply andb_false_iff. destruct (N.leb_spec SLASH c); [right|now left].
    apply N.leb_gt. lia.
  - apply andb_prop in H as [Hn Hs]. destruct neg; [discriminate|].
    eexists; split; [reflexivity|]. intros c. cbn. unfold not_slash.
    destruct (N.eqb_spec c SLASH) as [->|]; [|now rewrite andb_true_r].
    apply negb_true_iff in Hs. now rewrite Hs.
Qed.

(* --- one segment.  R "guarded": it cannot start on a byte other than '/' *)
Definition guarded (R : list tok) : Prop := forall c x, not_slash c = true -> tmatch R (c :: x) = false.
Definition sep_tail (t : str) : Prop := t = [] \/ exists t', t = SLASH :: t'.

Lemma guarded_nil : guarded [].
Proof. intros c x _. reflexivity. Qed.

Lemma guarded_SL R : guarded (SL :: R).
Proof.
  intros c x Hc. cbn. unfold not_slash in Hc. apply negb_true_iff in Hc. now rewrite Hc.
Qed.

Lemma tmatch_star_unfold x R a :
  tmatch (TStar x :: R) a = tmatch R a || match a with c :: a' => smatch x c && tmatch (TStar x :: R) a' | [] => false end.
Proof. destruct a; reflexivity. Qed.

Lemma seg_star_unfold r x :
  seg_match (AStar :: r) x = seg_match r x || match x with _ :: x' => seg_match (AStar :: r) x' | [] => false end.
Proof. destruct x; reflexivity. Qed.

Lemma segment (tr : atom -> tok) (a : list atom) : Forall (tr_ok tr) a ->
  forall R x t, guarded R -> forallb not_slash x = true -> sep_tail t ->
    tmatch (map tr a ++ R) (x ++ t) = seg_match a x && tmatch R t.
Proof.
  induction a as [|b a IH]; intros Ha R x t HR Hx Ht.
  - cbn [map app seg_match]. destruct x as [|c x]; [reflexivity|].
    cbn in Hx. apply andb_prop in Hx as [Hc _]. cbn [app]. now rewrite HR.
  - inversion Ha as [|? ? Hb Ha']; subst. specialize (IH Ha').
    destruct b as [d| | |neg items].
    1,2,4: destruct Hb as (y & Hy & Hm); cbn [map app]; rewrite Hy;
      (destruct x as [|c x];
       [ cbn [app seg_match]; destruct Ht as [->|[t' ->]]; [reflexivity|];
         cbn [tmatch]; rewrite Hm; change (not_slash SLASH) with false; rewrite andb_false_r; reflexivity
       | cbn in Hx; apply andb_prop in Hx as [Hc Hx]; cbn [app tmatch seg_match];
         rewrite Hm, Hc, andb_true_r, (IH R x t HR Hx Ht); now rewrite andb_assoc ]).
    destruct Hb as (y & Hy & Hm). cbn [map app]. rewrite Hy.
    induction x as [|c x IHx].
    + cbn [app]. rewrite tmatch_star_unfold, seg_star_unfold.
      pose proof (IH R [] t HR eq_refl Ht) as E. cbn [app] in E. rewrite E.
      destruct Ht as [->|[t' ->]]; [now rewrite !orb_false_r|].
      rewrite Hm. change (not_slash SLASH) with false. cbn [andb]. now rewrite !orb_false_r.
    + cbn in Hx. apply andb_prop in Hx as [Hc Hx]. cbn [app].
      rewrite tmatch_star_unfold, seg_star_unfold. rewrite Hm, Hc. cbn [andb].
      change (c :: x ++ t) with ((c :: x) ++ t).
      rewrite (IH R (c :: x) t HR); [|cbn; now rewrite Hc|exact Ht].
      rewrite (IHx Hx). now rewrite andb_orb_distrib_l.
Qed.

(* --- .* *)
Lemma star_any a : forallb (fun c => negb (N.eqb c NL)) a = true -> tmatch [TStar SAnyNoNL] a = true.
Proof.
  induction a as [|c a IH]; intros H; [reflexivity|].
  cbn in H. apply andb_prop in H as [Hc Ha]. rewrite tmatch_star_unfold. cbn [smatch].
  rewrite Hc, (IH Ha). now rewrite orb_true_r.
Qed.

(* --- paths *)
Definition tail_str (f : list str) : str := match f with [] => [] | _ => SLASH :: intercalate f end.

Lemma intercalate_cons x f : intercalate (x :: f) = x ++ tail_str f.
Proof. destruct f; cbn; [now rewrite app_nil_r|reflexivity]. Qed.

Lemma sep_tail_tail f : sep_tail (tail_str f).
Proof. destruct f; [now left|right; eexists; reflexivity]. Qed.

Lemma name_ok_not_slash x : name_ok x = true -> forallb not_slash x = true.
Proof.
  unfold name_ok. induction x as [|c x IH]; [reflexivity|]. cbn. intros H.
  apply andb_prop in H as [Hc Hx]. apply andb_prop in Hc as [Hc _]. now rewrite Hc, IH.
Qed.

Lemma name_ok_no_nl x : name_ok x = true -> forallb (fun c => negb (N.eqb c NL)) x = true.
Proof.
  unfold name_ok. induction x as [|c x IH]; [reflexivity|]. cbn. intros H.
  apply andb_prop in H as [Hc Hx]. apply andb_prop in Hc as [_ Hc]. now rewrite Hc, IH.
Qed.

Lemma path_no_nl f : forallb name_ok f = true -> forallb (fun c => negb (N.eqb c NL)) (intercalate f) = true.
Proof.
  induction f as [|x f IH]; [reflexivity|]. intros H. cbn [forallb] in H. apply andb_prop in H as [Hx Hf].
  rewrite intercalate_cons, forallb_app, (name_ok_no_nl x Hx). destruct f as [|y f]; [reflexivity|].
  cbn [tail_str forallb andb]. change (negb (N.eqb SLASH NL)) with true. cbn [andb]. now apply IH.
Qed.

(* --- (.*/)? followed by R, against a path: R may start at the beginning of any segment *)
Definition optdirs_go (R : list tok) :=
  fix go (a : str) : bool :=
    match a with
    | [] => false
    | c :: a' => (N.eqb c SLASH && tmatch R a') || (negb (N.eqb c NL) && go a')
    end.

Lemma tmatch_optdirs R a : tmatch (TOptDirs :: R) a = tmatch R a || optdirs_go R a.
Proof. reflexivity. Qed.

Lemma optdirs_go_name R x t : name_ok x = true ->
  optdirs_go R (x ++ t) = optdirs_go R t.
Proof.
  unfold name_ok. induction x as [|c x IH]; intros H; [reflexivity|].
  cbn in H. apply andb_prop in H as [Hc Hx]. apply andb_prop in Hc as [Hs Hn].
  cbn [app optdirs_go]. unfold not_slash in Hs. apply negb_true_iff in Hs. rewrite Hs, Hn. cbn [andb orb].
  now apply IH.
Qed.

Definition ds_fix (rest : pat) :=
  fix ds (f : list str) : bool := segs_match rest f || match f with _ :: f' => ds f' | [] => false end.

Lemma segs_match_dstar g rest f : segs_match (DStar :: g :: rest) f = ds_fix (g :: rest) f.
Proof. reflexivity. Qed.

Lemma ds_fix_unfold rest f :
  ds_fix rest f = segs_match rest f || match f with _ :: f' => ds_fix rest f' | [] => false end.
Proof. destruct f; reflexivity. Qed.

Lemma optdirs_path R rest :
  (forall f, f <> [] -> forallb name_ok f = true -> tmatch R (intercalate f) = segs_match rest f) ->
  segs_match rest [] = false ->
  forall f, f <> [] -> forallb name_ok f = true ->
    tmatch (TOptDirs :: R) (intercalate f) = ds_fix rest f.
Proof.
  intros HR Hnil. induction f as [|x f IH]; intros Hne Hf; [congruence|].
  cbn [forallb] in Hf. apply andb_prop in Hf as [Hx Hf'].
  rewrite tmatch_optdirs, ds_fix_unfold.
  rewrite (HR (x :: f) Hne); [|cbn; now rewrite Hx, Hf'].
  f_equal. rewrite intercalate_cons, (optdirs_go_name R x _ Hx).
  destruct f as [|y f].
  - cbn. now rewrite Hnil.
  - cbn [tail_str optdirs_go]. rewrite N.eqb_refl. cbn [andb]. change (negb (N.eqb SLASH NL)) with true. cbn [andb].
    assert (IH' : tmatch (TOptDirs :: R) (intercalate (y :: f)) = ds_fix rest (y :: f)).
    { apply IH; [discriminate|exact Hf']. }
    rewrite tmatch_optdirs in IH'. exact IH'.
Qed.

(* --- the whole pattern *)
Lemma ptoks_guarded tr p : guarded (ptoks tr true p).
Proof.
  destruct p as [|[|a] rest]; [apply guarded_nil| |].
  - cbn [ptoks]. destruct rest; apply guarded_SL.
  - cbn [ptoks app]. apply guarded_SL.
Qed.

Lemma atoms_ok tr m a : (forall b, atom_ok m b = true -> tr_ok tr b) ->
  forallb (atom_ok m) a = true -> Forall (tr_ok tr) a.
Proof.
  intros Htr. induction a as [|b a IH]; intros H; [constructor|].
  cbn in H. apply andb_prop in H as [Hb Ha]. constructor; [now apply Htr|now apply IH].
Qed.

Lemma segs_match_nil_seg a rest : segs_match (Seg a :: rest) [] = false.
Proof. reflexivity. Qed.

(* after a separator has become due: the rest of the path is [] or "/" ++ ... *)
Lemma pattern_tail tr m (Htr : forall b, atom_ok m b = true -> tr_ok tr b) p :
  segs_ok m p = true ->
  forall f, forallb name_ok f = true ->
    tmatch (ptoks tr true p) (tail_str f) = segs_match p f.
Proof.
  induction p as [|g rest IH]; intros Hp f Hf.
  - destruct f; reflexivity.
  - destruct g as [|a].
    + (* ** *)
      destruct rest as [|g2 rest2].
      * cbn [ptoks app]. destruct f as [|x f]; [reflexivity|].
        cbn [tail_str]. unfold SL. cbn [tmatch smatch]. rewrite N.eqb_refl. cbn [andb].
        rewrite star_any; [reflexivity|]. now apply path_no_nl.
      * cbn [segs_ok] in Hp. destruct g2 as [|a2]; [discriminate|].
        assert (Hrest : segs_ok m (Seg a2 :: rest2) = true) by exact Hp.
        rewrite segs_match_dstar.
        change (ptoks tr true (DStar :: Seg a2 :: rest2)) with (SL :: TOptDirs :: ptoks tr false (Seg a2 :: rest2)).
        destruct f as [|x f]; [reflexivity|].
        cbn [tail_str]. unfold SL at 1. cbn [tmatch smatch]. rewrite N.eqb_refl. cbn [andb].
        fold (tmatch (TOptDirs :: ptoks tr false (Seg a2 :: rest2)) (intercalate (x :: f))).
        apply optdirs_path; [|reflexivity|discriminate|exact Hf].
        intros f2 Hne2 Hf2. rewrite <- (IH Hp f2 Hf2).
        destruct f2 as [|x2 f2]; [congruence|].
        cbn [ptoks app tail_str]. unfold SL. cbn [tmatch smatch]. rewrite N.eqb_refl. reflexivity.
    + cbn [segs_ok] in Hp. apply andb_prop in Hp as [Ha Hr].
      cbn [ptoks app]. destruct f as [|x f]; [reflexivity|].
      cbn [forallb] in Hf. apply andb_prop in Hf as [Hx Hf].
      cbn [tail_str]. unfold SL at 1. cbn [tmatch smatch]. rewrite N.eqb_refl. cbn [andb].
      rewrite intercalate_cons.
      rewrite (segment tr a (atoms_ok tr m a Htr Ha) _ x _ (ptoks_guarded tr rest)
                       (name_ok_not_slash x Hx) (sep_tail_tail f)).
      cbn [segs_match]. f_equal. now apply IH.
Qed.
