(* C21 - glob(): proofs.
   Part 0: the regenerated tables (Gen/GlobRegex.v) are the ones the model was written from.
   Part A: the matcher.  For a pattern whose compiled form (filepath.Join, the `**` switch, toRegexString, the
           parser of filepath.Match / of the regexp fragment - all computed by the model) is the token translation
           `toks_of` of the structured pattern, the token matcher on the joined path string agrees with the
           segment-wise reference on EVERY path (induction on the pattern segments, the atoms of a segment and
           the path).
   Part B: the filters of Globber.glob on path strings against their segment-wise meaning. *)
From Coq Require Import String.
From PlzV Require Import Base.Harness Base.StrFacts Model.C21.
From PlzV Require Gen.GlobRegex.
From Coq Require Import Lia.

(* ------------------------------------------------------------------------------------------- Part 0 *)
Lemma gen_rewrites_ok :
  map (fun on => (s (fst on), s (snd on))) Gen.GlobRegex.regex_rewrites = rewrites
  /\ s Gen.GlobRegex.regex_prefix = s "^" /\ s Gen.GlobRegex.regex_suffix = s "$".
Proof. repeat split; reflexivity. Qed.

Lemma gen_literals_ok :
  Gen.GlobRegex.matcher_literals = ["**"%string]
  /\ Gen.GlobRegex.hidden_literals = ["."%string; "#"%string; "#"%string]
  /\ Gen.GlobRegex.walk_literals = ["plz-out"%string; "."%string].
Proof. repeat split; reflexivity. Qed.

(* toRegexString as regenerated = toRegexString as modelled, on every input *)
Lemma gen_to_regex_string pattern :
  fold_left (fun acc on => replace_all (s (fst on)) (s (snd on)) acc) Gen.GlobRegex.regex_rewrites
            (s Gen.GlobRegex.regex_prefix ++ pattern ++ s Gen.GlobRegex.regex_suffix)
  = to_regex_string pattern.
Proof. reflexivity. Qed.

(* ------------------------------------------------------------------------------------------- Part A *)
Definition SL : tok := T1 (SLit SLASH).

(* what filepath.Match makes of an atom / what the regexp of toRegexString makes of it *)
Definition gtok (a : atom) : tok :=
  match a with
  | ALit c => T1 (SLit c)
  | AQ => T1 SNonSep
  | AStar => TStar SNonSep
  | AClass neg items => T1 (SClass neg items)
  end.

Definition rtok (a : atom) : tok :=
  match a with
  | ALit c => T1 (SLit c)
  | AQ => T1 SAnyNoNL
  | AStar => TStar (SClass true [(SLASH, SLASH)])
  | AClass neg items => T1 (SClass neg items)
  end.

(* the token list of a pattern: segments joined by '/', `/**/` = /(.*/)? , a final `**` = .* ,
   a leading `**/` (nothing before it: root package) = .*/  *)
Fixpoint ptoks (tr : atom -> tok) (sep : bool) (p : pat) : list tok :=
  match p with
  | [] => []
  | Seg a :: rest => (if sep then [SL] else []) ++ map tr a ++ ptoks tr true rest
  | DStar :: rest =>
      match rest with
      | [] => (if sep then [SL] else []) ++ [TStar SAnyNoNL]
      | _ => if sep then SL :: TOptDirs :: ptoks tr false rest
             else TStar SAnyNoNL :: SL :: ptoks tr false rest
      end
  end.

Definition lit_seg (name : str) : pseg := Seg (map ALit name).
Definition has_dstar (p : pat) : bool := existsb (fun g => match g with DStar => true | _ => false end) p.

Definition toks_of (pkg : list str) (p : pat) : list tok :=
  ptoks (if has_dstar p then rtok else gtok) false (map lit_seg pkg ++ p).

(* --- decidable equality of token lists, to state "the pattern compiles to toks_of" executably *)
Definition items_eqb (a b : list (N * N)) : bool :=
  list_eqb (fun x y => N.eqb (fst x) (fst y) && N.eqb (snd x) (snd y)) a b.
Definition single_eqb (a b : single) : bool :=
  match a, b with
  | SLit c, SLit d => N.eqb c d
  | SNonSep, SNonSep => true
  | SAnyNoNL, SAnyNoNL => true
  | SClass n1 i1, SClass n2 i2 => Bool.eqb n1 n2 && items_eqb i1 i2
  | _, _ => false
  end.
Definition tok_eqb (a b : tok) : bool :=
  match a, b with
  | T1 x, T1 y => single_eqb x y
  | TStar x, TStar y => single_eqb x y
  | TOptDirs, TOptDirs => true
  | _, _ => false
  end.

Lemma items_eqb_eq a b : items_eqb a b = true -> a = b.
Proof.
  revert b; induction a as [|[x1 x2] a IH]; intros [|[y1 y2] b] H; try discriminate; [reflexivity|].
  cbn in H. apply andb_prop in H as [H1 H2]. apply andb_prop in H1 as [Ha Hb].
  apply N.eqb_eq in Ha, Hb. subst. f_equal. now apply IH.
Qed.

Lemma single_eqb_eq a b : single_eqb a b = true -> a = b.
Proof.
  destruct a, b; cbn; intros H; try discriminate; try reflexivity.
  - apply N.eqb_eq in H. now subst.
  - apply andb_prop in H as [H1 H2]. apply Bool.eqb_prop in H1. apply items_eqb_eq in H2. now subst.
Qed.

Lemma tok_eqb_eq a b : tok_eqb a b = true -> a = b.
Proof. destruct a, b; cbn; intros H; try discriminate; try reflexivity; f_equal; now apply single_eqb_eq. Qed.

Lemma toks_eqb_eq a b : list_eqb tok_eqb a b = true -> a = b.
Proof.
  revert b; induction a as [|x a IH]; intros [|y b] H; try discriminate; [reflexivity|].
  cbn in H. apply andb_prop in H as [H1 H2]. apply tok_eqb_eq in H1. subst. f_equal. now apply IH.
Qed.

(* patternToMatcher(root, render p) - Join, the `**` test, toRegexString and the parser, all run - yields toks_of *)
Definition root_str (pkg : list str) : str := match pkg with [] => s "." | _ => intercalate pkg end.

Definition compiles (pkg : list str) (p : pat) : bool :=
  option_eqb (list_eqb tok_eqb) (pattern_to_matcher (root_str pkg) (render p)) (Some (toks_of pkg p)).

Lemma compiles_eq pkg p : compiles pkg p = true ->
  pattern_to_matcher (root_str pkg) (render p) = Some (toks_of pkg p).
Proof.
  unfold compiles. destruct (pattern_to_matcher _ _) as [ts|]; cbn; [|discriminate].
  intros H. f_equal. now apply toks_eqb_eq.
Qed.

(* --- the fragment, syntactically *)
Definition not_slash (c : N) : bool := negb (N.eqb c SLASH).
Definition name_ok (x : str) : bool := forallb (fun c => not_slash c && negb (N.eqb c NL)) x.

Definition atom_ok (regex_mode : bool) (a : atom) : bool :=
  match a with
  | ALit c => not_slash c
  | AQ => negb regex_mode                       (* `?` becomes `.`, which also matches '/' *)
  | AStar => true
  | AClass neg items => negb neg && negb (in_ranges SLASH items)   (* [^..] also matches '/' *)
  end.

Fixpoint segs_ok (regex_mode : bool) (p : pat) : bool :=
  match p with
  | [] => true
  | Seg a :: rest => forallb (atom_ok regex_mode) a && segs_ok regex_mode rest
  | DStar :: rest => match rest with DStar :: _ => false | _ => segs_ok regex_mode rest end
  end.

Definition pkg_ok (pkg : list str) : bool := forallb name_ok pkg.

(* in the root package a leading `**` has nothing before it and compiles to `.*/` or `.*` *)
Definition fragment (pkg : list str) (p : pat) : bool :=
  segs_ok (has_dstar p) p && pkg_ok pkg
  && match pkg, p with _, [] => false | [], DStar :: _ => false | _, _ => true end.

(* --- single tokens *)
Definition tr_ok (tr : atom -> tok) (a : atom) : Prop :=
  match a with
  | AStar => exists x, tr a = TStar x /\ forall c, smatch x c = not_slash c
  | _ => exists x, tr a = T1 x /\ forall c, smatch x c = atom1 a c && not_slash c
  end.

Lemma eqb_slash_lit c d : not_slash d = true -> N.eqb c d = N.eqb c d && not_slash c.
Proof.
  unfold not_slash. intros Hd. destruct (N.eqb_spec c d) as [->|]; [now rewrite Hd|reflexivity].
Qed.

Lemma gtok_ok a : atom_ok false a = true -> tr_ok gtok a.
Proof.
  destruct a as [c| | |neg items]; cbn; intros H.
  - eexists; split; [reflexivity|]. intros d. cbn. now apply eqb_slash_lit.
  - eexists; split; [reflexivity|]. reflexivity.
  - eexists; split; [reflexivity|]. reflexivity.
  - apply andb_prop in H as [Hn Hs]. destruct neg; [discriminate|].
    eexists; split; [reflexivity|]. intros c. cbn. unfold not_slash.
    destruct (N.eqb_spec c SLASH) as [->|]; [|now rewrite andb_true_r].
    apply negb_true_iff in Hs. now rewrite Hs.
Qed.

Lemma rtok_ok a : atom_ok true a = true -> tr_ok rtok a.
Proof.
  destruct a as [c| | |neg items]; cbn; intros H.
  - eexists; split; [reflexivity|]. intros d. cbn. now apply eqb_slash_lit.
  - discriminate.
  - eexists; split; [reflexivity|]. intros c. cbn. unfold not_slash.
    rewrite orb_false_r. destruct (N.eqb_spec c SLASH) as [->|Hc]; [reflexivity|].
    assert (N.leb SLASH c && N.leb c SLASH = false) as ->; [|reflexivity].
    apply andb_false_iff. destruct (N.leb_spec SLASH c); [right|now left].
    apply N.leb_gt. lia.
  - apply andb_prop in H as [Hn Hs]. destruct neg; [discriminate|].
    eexists; split; [reflexivity|]. intros c. cbn. unfold not_slash.
    destruct (N.eqb_spec c SLASH) as [->|]; [|now rewrite andb_true_r].
    apply negb_true_iff in Hs. now rewrite Hs.
Qed.

(* --- one segment.  R "guarded": it cannot start on a byte other than '/' *)
Definition guarded (R : list tok) : Prop := forall c x, not_slash c = true -> tmatch R (c :: x) = false.
Definition sep_tail (t : str) : Prop := t = [] \/ exists t', t = SLASH :: t'.

Lemma guarded_nil : guarded [].
Proof. intros c x _. reflexivity. Qed.

Lemma guarded_SL R : guarded (SL :: R).
Proof.
  intros c x Hc. cbn. unfold not_slash in Hc. apply negb_true_iff in Hc. now rewrite Hc.
Qed.

Lemma tmatch_star_unfold x R a :
  tmatch (TStar x :: R) a = tmatch R a || match a with c :: a' => smatch x c && tmatch (TStar x :: R) a' | [] => false end.
Proof. destruct a; reflexivity. Qed.

Lemma seg_star_unfold r x :
  seg_match (AStar :: r) x = seg_match r x || match x with _ :: x' => seg_match (AStar :: r) x' | [] => false end.
Proof. destruct x; reflexivity. Qed.

Lemma segment (tr : atom -> tok) (a : list atom) : Forall (tr_ok tr) a ->
  forall R x t, guarded R -> forallb not_slash x = true -> sep_tail t ->
    tmatch (map tr a ++ R) (x ++ t) = seg_match a x && tmatch R t.
Proof.
  induction a as [|b a IH]; intros Ha R x t HR Hx Ht.
  - cbn [map app seg_match]. destruct x as [|c x]; [reflexivity|].
    cbn in Hx. apply andb_prop in Hx as [Hc _]. cbn [app]. now rewrite HR.
  - inversion Ha as [|? ? Hb Ha']; subst. specialize (IH Ha').
    destruct b as [d| | |neg items].
    1,2,4: destruct Hb as (y & Hy & Hm); cbn [map app]; rewrite Hy;
      (destruct x as [|c x];
       [ cbn [app seg_match]; destruct Ht as [->|[t' ->]]; [reflexivity|];
         cbn [tmatch]; rewrite Hm; change (not_slash SLASH) with false; rewrite andb_false_r; reflexivity
       | cbn in Hx; apply andb_prop in Hx as [Hc Hx]; cbn [app tmatch seg_match];
         rewrite Hm, Hc, andb_true_r, (IH R x t HR Hx Ht); now rewrite andb_assoc ]).
    destruct Hb as (y & Hy & Hm). cbn [map app]. rewrite Hy.
    induction x as [|c x IHx].
    + cbn [app]. rewrite tmatch_star_unfold, seg_star_unfold.
      pose proof (IH R [] t HR eq_refl Ht) as E. cbn [app] in E. rewrite E.
      destruct Ht as [->|[t' ->]]; [now rewrite !orb_false_r|].
      rewrite Hm. change (not_slash SLASH) with false. cbn [andb]. now rewrite !orb_false_r.
    + cbn in Hx. apply andb_prop in Hx as [Hc Hx]. cbn [app].
      rewrite tmatch_star_unfold, seg_star_unfold. rewrite Hm, Hc. cbn [andb].
      change (c :: x ++ t) with ((c :: x) ++ t).
      rewrite (IH R (c :: x) t HR); [|cbn; now rewrite Hc|exact Ht].
      rewrite (IHx Hx). now rewrite andb_orb_distrib_l.
Qed.

(* --- .* *)
Lemma star_any a : forallb (fun c => negb (N.eqb c NL)) a = true -> tmatch [TStar SAnyNoNL] a = true.
Proof.
  induction a as [|c a IH]; intros H; [reflexivity|].
  cbn in H. apply andb_prop in H as [Hc Ha]. rewrite tmatch_star_unfold. cbn [smatch].
  rewrite Hc, (IH Ha). now rewrite orb_true_r.
Qed.

(* --- paths *)
Definition tail_str (f : list str) : str := match f with [] => [] | _ => SLASH :: intercalate f end.

Lemma intercalate_cons x f : intercalate (x :: f) = x ++ tail_str f.
Proof. destruct f; cbn; [now rewrite app_nil_r|reflexivity]. Qed.

Lemma sep_tail_tail f : sep_tail (tail_str f).
Proof. destruct f; [now left|right; eexists; reflexivity]. Qed.

Lemma name_ok_not_slash x : name_ok x = true -> forallb not_slash x = true.
Proof.
  unfold name_ok. induction x as [|c x IH]; [reflexivity|]. cbn. intros H.
  apply andb_prop in H as [Hc Hx]. apply andb_prop in Hc as [Hc _]. now rewrite Hc, IH.
Qed.

Lemma name_ok_no_nl x : name_ok x = true -> forallb (fun c => negb (N.eqb c NL)) x = true.
Proof.
  unfold name_ok. induction x as [|c x IH]; [reflexivity|]. cbn. intros H.
  apply andb_prop in H as [Hc Hx]. apply andb_prop in Hc as [_ Hc]. now rewrite Hc, IH.
Qed.

Lemma path_no_nl f : forallb name_ok f = true -> forallb (fun c => negb (N.eqb c NL)) (intercalate f) = true.
Proof.
  induction f as [|x f IH]; [reflexivity|]. intros H. cbn [forallb] in H. apply andb_prop in H as [Hx Hf].
  rewrite intercalate_cons, forallb_app, (name_ok_no_nl x Hx). destruct f as [|y f]; [reflexivity|].
  cbn [tail_str forallb andb]. change (negb (N.eqb SLASH NL)) with true. cbn [andb]. now apply IH.
Qed.

(* --- (.*/)? followed by R, against a path: R may start at the beginning of any segment *)
Definition optdirs_go (R : list tok) :=
  fix go (a : str) : bool :=
    match a with
    | [] => false
    | c :: a' => (N.eqb c SLASH && tmatch R a') || (negb (N.eqb c NL) && go a')
    end.

Lemma tmatch_optdirs R a : tmatch (TOptDirs :: R) a = tmatch R a || optdirs_go R a.
Proof. reflexivity. Qed.

Lemma optdirs_go_name R x t : name_ok x = true ->
  optdirs_go R (x ++ t) = optdirs_go R t.
Proof.
  unfold name_ok. induction x as [|c x IH]; intros H; [reflexivity|].
  cbn in H. apply andb_prop in H as [Hc Hx]. apply andb_prop in Hc as [Hs Hn].
  cbn [app optdirs_go]. unfold not_slash in Hs. apply negb_true_iff in Hs. rewrite Hs, Hn. cbn [andb orb].
  now apply IH.
Qed.

Definition ds_fix (rest : pat) :=
  fix ds (f : list str) : bool := segs_match rest f || match f with _ :: f' => ds f' | [] => false end.

Lemma segs_match_dstar g rest f : segs_match (DStar :: g :: rest) f = ds_fix (g :: rest) f.
Proof. reflexivity. Qed.

Lemma ds_fix_unfold rest f :
  ds_fix rest f = segs_match rest f || match f with _ :: f' => ds_fix rest f' | [] => false end.
Proof. destruct f; reflexivity. Qed.

Lemma optdirs_path R rest :
  (forall f, f <> [] -> forallb name_ok f = true -> tmatch R (intercalate f) = segs_match rest f) ->
  segs_match rest [] = false ->
  forall f, f <> [] -> forallb name_ok f = true ->
    tmatch (TOptDirs :: R) (intercalate f) = ds_fix rest f.
Proof.
  intros HR Hnil. induction f as [|x f IH]; intros Hne Hf; [congruence|].
  cbn [forallb] in Hf. apply andb_prop in Hf as [Hx Hf'].
  rewrite tmatch_optdirs, ds_fix_unfold.
  rewrite (HR (x :: f) Hne); [|cbn; now rewrite Hx, Hf'].
  f_equal. rewrite intercalate_cons, (optdirs_go_name R x _ Hx).
  destruct f as [|y f].
  - cbn. now rewrite Hnil.
  - cbn [tail_str optdirs_go]. rewrite N.eqb_refl. cbn [andb]. change (negb (N.eqb SLASH NL)) with true. cbn [andb].
    assert (IH' : tmatch (TOptDirs :: R) (intercalate (y :: f)) = ds_fix rest (y :: f)).
    { apply IH; [discriminate|exact Hf']. }
    rewrite tmatch_optdirs in IH'. exact IH'.
Qed.

(* --- the whole pattern *)
Lemma ptoks_guarded tr p : guarded (ptoks tr true p).
Proof.
  destruct p as [|[|a] rest]; [apply guarded_nil| |].
  - cbn [ptoks]. destruct rest; apply guarded_SL.
  - cbn [ptoks app]. apply guarded_SL.
Qed.

Lemma atoms_ok tr m a : (forall b, atom_ok m b = true -> tr_ok tr b) ->
  forallb (atom_ok m) a = true -> Forall (tr_ok tr) a.
Proof.
  intros Htr. induction a as [|b a IH]; intros H; [constructor|].
  cbn in H. apply andb_prop in H as [Hb Ha]. constructor; [now apply Htr|now apply IH].
Qed.

Lemma segs_match_nil_seg a rest : segs_match (Seg a :: rest) [] = false.
Proof. reflexivity. Qed.

(* after a separator has become due: the rest of the path is [] or "/" ++ ... *)
Lemma pattern_tail tr m (Htr : forall b, atom_ok m b = true -> tr_ok tr b) p :
  segs_ok m p = true ->
  forall f, forallb name_ok f = true ->
    tmatch (ptoks tr true p) (tail_str f) = segs_match p f.
Proof.
  induction p as [|g rest IH]; intros Hp f Hf.
  - destruct f; reflexivity.
  - destruct g as [|a].
    + (* ** *)
      destruct rest as [|g2 rest2].
      * cbn [ptoks app]. destruct f as [|x f]; [reflexivity|].
        cbn [tail_str]. unfold SL. cbn [tmatch smatch]. rewrite N.eqb_refl. cbn [andb].
        rewrite star_any; [reflexivity|]. now apply path_no_nl.
      * cbn [segs_ok] in Hp. destruct g2 as [|a2]; [discriminate|].
        assert (Hrest : segs_ok m (Seg a2 :: rest2) = true) by exact Hp.
        rewrite segs_match_dstar.
        change (ptoks tr true (DStar :: Seg a2 :: rest2)) with (SL :: TOptDirs :: ptoks tr false (Seg a2 :: rest2)).
        destruct f as [|x f]; [reflexivity|].
        cbn [tail_str]. unfold SL at 1. cbn [tmatch smatch]. rewrite N.eqb_refl. cbn [andb].
        fold (tmatch (TOptDirs :: ptoks tr false (Seg a2 :: rest2)) (intercalate (x :: f))).
        apply optdirs_path; [|reflexivity|discriminate|exact Hf].
        intros f2 Hne2 Hf2. rewrite <- (IH Hp f2 Hf2).
        destruct f2 as [|x2 f2]; [congruence|].
        cbn [ptoks app tail_str]. unfold SL. cbn [tmatch smatch]. rewrite N.eqb_refl. reflexivity.
    + cbn [segs_ok] in Hp. apply andb_prop in Hp as [Ha Hr].
      cbn [ptoks app]. destruct f as [|x f]; [reflexivity|].
      cbn [forallb] in Hf. apply andb_prop in Hf as [Hx Hf].
      cbn [tail_str]. unfold SL at 1. cbn [tmatch smatch]. rewrite N.eqb_refl. cbn [andb].
      rewrite intercalate_cons.
      rewrite (segment tr a (atoms_ok tr m a Htr Ha) _ x _ (ptoks_guarded tr rest)
                       (name_ok_not_slash x Hx) (sep_tail_tail f)).
      cbn [segs_match]. f_equal. now apply IH.
Qed.

(* nothing consumed yet: the pattern starts with an ordinary segment *)
Lemma pattern_head tr m (Htr : forall b, atom_ok m b = true -> tr_ok tr b) a rest :
  segs_ok m (Seg a :: rest) = true ->
  forall f, f <> [] -> forallb name_ok f = true ->
    tmatch (ptoks tr false (Seg a :: rest)) (intercalate f) = segs_match (Seg a :: rest) f.
Proof.
  intros Hp f Hne Hf. rewrite <- (pattern_tail tr m Htr _ Hp f Hf).
  destruct f as [|x f]; [congruence|].
  cbn [ptoks app tail_str]. unfold SL. cbn [tmatch smatch]. rewrite N.eqb_refl. reflexivity.
Qed.

Lemma seg_match_lit x : seg_match (map ALit x) x = true.
Proof. induction x as [|c x IH]; [reflexivity|]. cbn [map seg_match atom1]. now rewrite N.eqb_refl. Qed.

Lemma segs_match_pkg pkg p f : segs_match (map lit_seg pkg ++ p) (pkg ++ f) = segs_match p f.
Proof.
  induction pkg as [|x pkg IH]; [reflexivity|].
  cbn [map app]. unfold lit_seg at 1. cbn [segs_match]. now rewrite seg_match_lit.
Qed.

Lemma lit_atoms_ok m x : name_ok x = true -> forallb (atom_ok m) (map ALit x) = true.
Proof.
  unfold name_ok. induction x as [|c x IH]; [reflexivity|]. cbn. intros H.
  apply andb_prop in H as [Hc Hx]. apply andb_prop in Hc as [Hc _]. now rewrite Hc, IH.
Qed.

Lemma segs_ok_pkg m pkg p : pkg_ok pkg = true -> segs_ok m p = true -> segs_ok m (map lit_seg pkg ++ p) = true.
Proof.
  unfold pkg_ok. induction pkg as [|x pkg IH]; intros Hk Hp; [exact Hp|].
  cbn in Hk. apply andb_prop in Hk as [Hx Hk]. cbn [map app]. unfold lit_seg at 1. cbn [segs_ok].
  now rewrite (lit_atoms_ok m x Hx), IH.
Qed.

Definition path_str (pkg f : list str) : str := intercalate (pkg ++ f).

(* The matcher theorem: every pattern of the fragment that compiles to its token translation, every package
   path, every path of valid names below it. *)
Theorem matcher_correct pkg p f :
  fragment pkg p = true -> compiles pkg p = true -> f <> [] -> forallb name_ok f = true ->
  exists ts, pattern_to_matcher (root_str pkg) (render p) = Some ts
             /\ tmatch ts (path_str pkg f) = segs_match p f.
Proof.
  intros Hfr Hc Hne Hf. exists (toks_of pkg p). split; [now apply compiles_eq|].
  unfold fragment in Hfr. apply andb_prop in Hfr as [Hfr Hshape]. apply andb_prop in Hfr as [Hp Hk].
  unfold toks_of, path_str. rewrite <- (segs_match_pkg pkg p f).
  set (m := has_dstar p) in *.
  assert (Htr : forall b, atom_ok m b = true -> tr_ok (if m then rtok else gtok) b).
  { destruct m; [exact rtok_ok|exact gtok_ok]. }
  assert (Hq : segs_ok m (map lit_seg pkg ++ p) = true) by now apply segs_ok_pkg.
  assert (Hg : forallb name_ok (pkg ++ f) = true) by (rewrite forallb_app; unfold pkg_ok in Hk; now rewrite Hk, Hf).
  assert (Hgne : pkg ++ f <> []) by (destruct pkg; [exact Hne|discriminate]).
  destruct pkg as [|x pkg].
  - destruct p as [|[|a] rest]; try discriminate.
    cbn [map app] in *. now apply (pattern_head _ m Htr).
  - cbn [map app] in *. unfold lit_seg at 1. unfold lit_seg at 1 in Hq. now apply (pattern_head _ m Htr).
Qed.

(* ------------------------------------------------------------------------------------------- the full statement *)
(* well-formed inputs: package path and tree entries are names (no '/', no newline, not empty, not "." or ".."),
   patterns are non-empty lists of non-empty segments *)
Definition entry_name_ok (x : str) : bool :=
  name_ok x && negb (str_eqb x []) && negb (str_eqb x (s ".")) && negb (str_eqb x (s "..")).

Fixpoint tree_ok (n : node) : bool :=
  match n with
  | Dir kids => (fix all (ks : list (str * node)) : bool :=
                   match ks with [] => true | (nm, k) :: r => entry_name_ok nm && tree_ok k && all r end) kids
  | _ => true
  end.

Definition pat_wf (p : pat) : bool :=
  match p with
  | [] => false
  | _ => forallb (fun g => match g with Seg [] => false | _ => true end) p
  end.

Definition pkg_name (pkg : list str) : str := intercalate pkg.

(* glob returns exactly the files the reference selects *)
Definition holds_on (bfn : list str) (pkg : list str) (tree : node) (incs excs : list pat) (hidden syms : bool) : Prop :=
  exists out, glob bfn (pkg_name pkg) tree (map render incs) (map render excs) hidden syms = Some out
    /\ forall x, In x out <-> exists f, x = intercalate f /\ In f (glob_spec bfn (pkg_name pkg) tree incs excs hidden syms).

Definition inputs_ok (pkg : list str) (tree : node) (incs excs : list pat) : bool :=
  forallb entry_name_ok pkg && tree_ok tree && forallb pat_wf incs && forallb pat_wf excs.

(* the same, decided by computation *)
Definition set_agree (out : list str) (spec : list (list str)) : bool :=
  forallb (fun x => existsb (fun f => str_eqb x (intercalate f)) spec) out
  && forallb (fun f => existsb (str_eqb (intercalate f)) out) spec.

Definition glob_agrees bfn pkg tree incs excs hidden syms : bool :=
  match glob bfn (pkg_name pkg) tree (map render incs) (map render excs) hidden syms with
  | Some out => set_agree out (glob_spec bfn (pkg_name pkg) tree incs excs hidden syms)
  | None => false
  end.

Lemma holds_on_agrees bfn pkg tree incs excs hidden syms :
  holds_on bfn pkg tree incs excs hidden syms -> glob_agrees bfn pkg tree incs excs hidden syms = true.
Proof.
  intros (out & Hg & Hiff). unfold glob_agrees. rewrite Hg. unfold set_agree.
  apply andb_true_intro. split; apply forallb_forall.
  - intros x Hx. apply Hiff in Hx as (f & -> & Hf). apply existsb_exists. exists f. split; [exact Hf|apply str_eqb_refl].
  - intros f Hf. apply existsb_exists. exists (intercalate f). split; [|apply str_eqb_refl].
    apply Hiff. now exists f.
Qed.

(* --- witnesses (each observed on the unchanged implementation by the harness) *)
Definition txt_pat : list atom := [AStar; ALit 46; ALit 116; ALit 120; ALit 116].        (* *.txt *)
Definition w_bfn := [s "BUILD"].

(* 1. a file inside a hidden DIRECTORY is returned: isHidden looks at the base name only *)
Definition w1_tree := Dir [(s ".hid", Dir [(s "x.txt", File)]); (s "a.txt", File)].
Lemma witness_hidden_dir :
  inputs_ok [s "p"] w1_tree [[DStar; Seg txt_pat]] [] = true
  /\ glob w_bfn (s "p") w1_tree [s "**/*.txt"] [] false false = Some [s ".hid/x.txt"; s "a.txt"]
  /\ glob_spec w_bfn (s "p") w1_tree [[DStar; Seg txt_pat]] [] false false = [[s "a.txt"]]
  /\ glob_agrees w_bfn [s "p"] w1_tree [[DStar; Seg txt_pat]] [] false false = false.
Proof. vm_compute. repeat split. Qed.

(* 2. `(` is not escaped by toRegexString: **/b(1).txt selects b1.txt and never b(1).txt *)
Definition w2_tree := Dir [(s "d1", Dir [(s "b(1).txt", File); (s "b1.txt", File)])].
Definition w2_pat : pat := [DStar; Seg (map ALit (s "b(1).txt"))].
Lemma witness_regex_meta :
  inputs_ok [s "p"] w2_tree [w2_pat] [] = true
  /\ glob w_bfn (s "p") w2_tree [s "**/b(1).txt"] [] false false = Some [s "d1/b1.txt"]
  /\ glob_spec w_bfn (s "p") w2_tree [w2_pat] [] false false = [[s "d1"; s "b(1).txt"]]
  /\ glob_agrees w_bfn [s "p"] w2_tree [w2_pat] [] false false = false.
Proof. vm_compute. repeat split. Qed.

(* 3. directories are returned like files *)
Definition w3_tree := Dir [(s "d1", Dir [(s "a.txt", File)]); (s "x.txt", File)].
Lemma witness_directory :
  inputs_ok [s "p"] w3_tree [[Seg [AStar]]] [] = true
  /\ glob w_bfn (s "p") w3_tree [s "*"] [] false false = Some [s "d1"; s "x.txt"]
  /\ glob_spec w_bfn (s "p") w3_tree [[Seg [AStar]]] [] false false = [[s "x.txt"]]
  /\ glob_agrees w_bfn [s "p"] w3_tree [[Seg [AStar]]] [] false false = false.
Proof. vm_compute. repeat split. Qed.

(* 4. in the root package "**/x" compiles to ^.*/x$: the leading ** cannot stand for no directory *)
Lemma witness_root_doublestar :
  inputs_ok [] w3_tree [[DStar; Seg txt_pat]] [] = true
  /\ glob w_bfn [] w3_tree [s "**/*.txt"] [] false false = Some [s "d1/a.txt"]
  /\ glob_spec w_bfn [] w3_tree [[DStar; Seg txt_pat]] [] false false = [[s "d1"; s "a.txt"]; [s "x.txt"]]
  /\ glob_agrees w_bfn [] w3_tree [[DStar; Seg txt_pat]] [] false false = false
  /\ glob_agrees w_bfn [s "p"] w3_tree [[DStar; Seg txt_pat]] [] false false = true.
Proof. vm_compute. repeat split. Qed.

(* 5. `?` becomes `.` in a ** pattern and then also matches '/' *)
Definition w5_tree := Dir [(s "d", Dir [(s "c.txt", File)]); (s "dxc.txt", File)].
Definition w5_pat : pat := [DStar; Seg (ALit 100 :: AQ :: map ALit (s "c.txt"))].          (* **/d?c.txt *)
Lemma witness_question_mark :
  inputs_ok [s "p"] w5_tree [w5_pat] [] = true
  /\ glob w_bfn (s "p") w5_tree [s "**/d?c.txt"] [] false false = Some [s "d/c.txt"; s "dxc.txt"]
  /\ glob_agrees w_bfn [s "p"] w5_tree [w5_pat] [] false false = false.
Proof. vm_compute. repeat split. Qed.

(* 6. a negated class matches '/' (filepath.Match and regexp alike) *)
Definition w6_pat : pat := [Seg (ALit 100 :: AClass true [(113, 113)%N] :: map ALit (s "c.txt"))].   (* d[^q]c.txt *)
Lemma witness_negated_class :
  inputs_ok [s "p"] w5_tree [w6_pat] [] = true
  /\ glob w_bfn (s "p") w5_tree [s "d[^q]c.txt"] [] false false = Some [s "d/c.txt"; s "dxc.txt"]
  /\ glob_agrees w_bfn [s "p"] w5_tree [w6_pat] [] false false = false.
Proof. vm_compute. repeat split. Qed.

(* 7. in the root package every entry NAMED plz-out is skipped, not only the repository's output directory *)
Definition w7_tree := Dir [(s "d", Dir [(s "plz-out", Dir [(s "a.txt", File)])]); (s "plz-out", Dir [(s "g.txt", File)])].
Lemma witness_plz_out :
  inputs_ok [] w7_tree [[Seg [AStar]; DStar]] [] = true
  /\ glob w_bfn [] w7_tree [s "*/**"] [] false false = Some []
  /\ glob_spec w_bfn [] w7_tree [[Seg [AStar]; DStar]] [] false false = [[s "d"; s "plz-out"; s "a.txt"]]
  /\ glob_agrees w_bfn [] w7_tree [[Seg [AStar]; DStar]] [] false false = false.
Proof. vm_compute. repeat split. Qed.

(* --- the hypothesis `compiles` of the matcher theorem holds on a family of fragment patterns: every list of
       1..3 segments drawn from `sweep_segs`, in the root package and in a nested one *)
Definition sweep_segs : list pseg :=
  [ DStar; Seg [AStar]; Seg [ALit 97]; Seg txt_pat; Seg [ALit 97; AStar]; Seg [AClass false [(97, 99)%N; (120, 120)%N]; ALit 43];
    Seg [AQ; ALit 98]; Seg [ALit 97; AStar; ALit 98; AStar] ].

Definition sweep_pats : list pat :=
  let one := map (fun g => [g]) sweep_segs in
  let two := flat_map (fun g => map (cons g) one) sweep_segs in
  let three := flat_map (fun g => map (cons g) two) sweep_segs in
  one ++ two ++ three.

Lemma compiles_sweep :
  forallb (fun pkg => forallb (fun p => implb (fragment pkg p) (compiles pkg p)) sweep_pats)
          [[]; [s "pkg"]; [s "third_party"; s "go+x"]] = true
  /\ length (filter (fragment [s "pkg"]) sweep_pats) = 526%nat.
Proof. vm_compute. split; reflexivity. Qed.

Lemma refute bfn pkg tree incs excs hidden syms (P : Prop) :
  inputs_ok pkg tree incs excs = true ->
  glob_agrees bfn pkg tree incs excs hidden syms = false ->
  (forall bfn pkg tree incs excs hidden syms,
     inputs_ok pkg tree incs excs = true -> holds_on bfn pkg tree incs excs hidden syms) -> False.
Proof.
  intros Hok Hno H. specialize (H bfn pkg tree incs excs hidden syms Hok).
  apply holds_on_agrees in H. congruence.
Qed.

Lemma refuted_hidden_dir :
  ~ (forall bfn pkg tree incs excs hidden syms,
       inputs_ok pkg tree incs excs = true -> holds_on bfn pkg tree incs excs hidden syms).
Proof.
  destruct witness_hidden_dir as (Hok & _ & _ & Hno). exact (refute _ _ _ _ _ _ _ True Hok Hno).
Qed.

Lemma refuted_regex_meta :
  ~ (forall bfn pkg tree incs excs hidden syms,
       inputs_ok pkg tree incs excs = true -> holds_on bfn pkg tree incs excs hidden syms).
Proof.
  destruct witness_regex_meta as (Hok & _ & _ & Hno). exact (refute _ _ _ _ _ _ _ True Hok Hno).
Qed.

Lemma refuted_directory :
  ~ (forall bfn pkg tree incs excs hidden syms,
       inputs_ok pkg tree incs excs = true -> holds_on bfn pkg tree incs excs hidden syms).
Proof.
  destruct witness_directory as (Hok & _ & _ & Hno). exact (refute _ _ _ _ _ _ _ True Hok Hno).
Qed.

Lemma refuted_others :
  glob_agrees w_bfn [] w3_tree [[DStar; Seg txt_pat]] [] false false = false
  /\ glob_agrees w_bfn [s "p"] w5_tree [w5_pat] [] false false = false
  /\ glob_agrees w_bfn [s "p"] w5_tree [w6_pat] [] false false = false
  /\ glob_agrees w_bfn [] w7_tree [[Seg [AStar]; DStar]] [] false false = false.
Proof. vm_compute. repeat split. Qed.

(* ------------------------------------------------------------------------------------------- Part B *)
(* isHidden on a path string = the hidden test on its LAST component only - for every path: components before
   the last are never looked at (this is the defect class file-in-hidden-directory-returned, and also all the
   hidden filter guarantees) *)
Lemma split_on_name x r : forallb not_slash x = true ->
  split_on SLASH (x ++ SLASH :: r) = x :: split_on SLASH r.
Proof.
  induction x as [|c x IH]; intros H.
  - cbn [app split_on]. now rewrite N.eqb_refl.
  - cbn in H. apply andb_prop in H as [Hc Hx]. cbn [app split_on].
    unfold not_slash in Hc. apply negb_true_iff in Hc. rewrite Hc, (IH Hx). reflexivity.
Qed.

Lemma split_on_single x : forallb not_slash x = true -> split_on SLASH x = [x].
Proof.
  induction x as [|c x IH]; intros H; [reflexivity|].
  cbn in H. apply andb_prop in H as [Hc Hx]. cbn [split_on].
  unfold not_slash in Hc. apply negb_true_iff in Hc. rewrite Hc, (IH Hx). reflexivity.
Qed.

Lemma split_on_intercalate g : g <> [] -> forallb name_ok g = true -> split_on SLASH (intercalate g) = g.
Proof.
  induction g as [|x g IH]; intros Hne Hg; [congruence|].
  cbn [forallb] in Hg. apply andb_prop in Hg as [Hx Hg]. rewrite intercalate_cons.
  destruct g as [|y g].
  - cbn [tail_str]. rewrite app_nil_r. now apply split_on_single, name_ok_not_slash.
  - cbn [tail_str]. rewrite split_on_name by now apply name_ok_not_slash.
    f_equal. apply IH; [discriminate|exact Hg].
Qed.

Lemma base_of_path g : g <> [] -> forallb name_ok g = true -> last g [] <> [] ->
  base (intercalate g) = last g [].
Proof.
  intros Hne Hg Hl. unfold base, last_comp. rewrite (split_on_intercalate g Hne Hg).
  destruct (intercalate g) eqn:E.
  - exfalso. assert (H := split_on_intercalate g Hne Hg). rewrite E in H. cbn in H.
    subst g. now apply Hl.
  - destruct (last g []) eqn:El; [congruence|reflexivity].
Qed.

Theorem hidden_filter_is_base_name pkg f :
  f <> [] -> forallb name_ok (pkg ++ f) = true -> last f [] <> [] ->
  is_hidden (path_str pkg f) = name_hidden (last f []).
Proof.
  intros Hne Hg Hl. unfold is_hidden, path_str.
  assert (Hlast : last (pkg ++ f) [] = last f []).
  { clear Hg. induction pkg as [|x pkg IH]; [reflexivity|].
    cbn [app]. destruct (pkg ++ f) eqn:E; [apply app_eq_nil in E as [_ E]; congruence|]. cbn [last]. exact IH. }
  rewrite base_of_path; [now rewrite Hlast| |exact Hg|now rewrite Hlast].
  destruct pkg; [exact Hne|discriminate].
Qed.

(* isInDirectories on path strings = a test on WHOLE leading components, for every path and directory:
   strings.HasPrefix(name, dir+"/") || name == dir  <->  dir's components are a prefix of name's components *)
Lemma prefixb_name x y r t : forallb not_slash x = true -> forallb not_slash y = true -> sep_tail t ->
  prefixb (x ++ SLASH :: r) (y ++ t) = str_eqb x y && prefixb (SLASH :: r) t.
Proof.
  revert y. induction x as [|c x IH]; intros y Hx Hy Ht.
  - destruct y as [|d y]; [reflexivity|].
    cbn in Hy. apply andb_prop in Hy as [Hd _]. unfold not_slash in Hd. apply negb_true_iff in Hd.
    cbn [app prefixb str_eqb]. now rewrite Hd.
  - cbn in Hx. apply andb_prop in Hx as [Hc Hx]. destruct y as [|d y].
    + cbn [app str_eqb andb]. destruct Ht as [->|[t' ->]]; [reflexivity|].
      cbn [prefixb]. unfold not_slash in Hc. apply negb_true_iff in Hc.
      rewrite N.eqb_sym, Hc. reflexivity.
    + cbn in Hy. apply andb_prop in Hy as [_ Hy]. cbn [app prefixb str_eqb].
      rewrite (IH y Hx Hy Ht), (N.eqb_sym d c). now rewrite andb_assoc.
Qed.

Lemma str_eqb_name x y t u : forallb not_slash x = true -> forallb not_slash y = true -> sep_tail t -> sep_tail u ->
  str_eqb (y ++ t) (x ++ u) = str_eqb y x && str_eqb t u.
Proof.
  revert x. induction y as [|d y IH]; intros x Hx Hy Ht Hu.
  - destruct x as [|c x]; [reflexivity|].
    cbn in Hx. apply andb_prop in Hx as [Hc _]. unfold not_slash in Hc. apply negb_true_iff in Hc.
    cbn [app str_eqb andb]. destruct Ht as [->|[t' ->]]; [reflexivity|]. cbn [str_eqb].
    now rewrite N.eqb_sym, Hc.
  - cbn in Hy. apply andb_prop in Hy as [Hd Hy]. destruct x as [|c x].
    + cbn [app str_eqb andb]. destruct Hu as [->|[u' ->]]; [reflexivity|]. cbn [str_eqb].
      unfold not_slash in Hd. apply negb_true_iff in Hd. now rewrite Hd.
    + cbn in Hx. apply andb_prop in Hx as [_ Hx]. cbn [app str_eqb].
      rewrite (IH x Hx Hy Ht Hu). now rewrite andb_assoc.
Qed.

Theorem in_directory_whole_components d : d <> [] -> forallb name_ok d = true ->
  forall g, g <> [] -> forallb name_ok g = true ->
    is_in_directories (intercalate g) [intercalate d] = is_prefix_segs d g.
Proof.
  intros Hne Hd g Hgne Hg.
  assert (E : is_in_directories (intercalate g) [intercalate d]
              = prefixb (intercalate d ++ [SLASH]) (intercalate g) || str_eqb (intercalate g) (intercalate d)).
  { unfold is_in_directories. cbn [existsb]. now rewrite orb_false_r. }
  rewrite E. clear E. revert Hne Hd g Hgne Hg.
  induction d as [|x d IH]; intros Hne Hd g Hgne Hg; [congruence|].
  destruct g as [|y g]; [congruence|].
  cbn [forallb] in Hd, Hg. apply andb_prop in Hd as [Hx Hd]. apply andb_prop in Hg as [Hy Hg].
  pose proof (name_ok_not_slash x Hx) as Hxs. pose proof (name_ok_not_slash y Hy) as Hys.
  rewrite !intercalate_cons. cbn [is_prefix_segs].
  rewrite (str_eqb_name x y _ _ Hxs Hys (sep_tail_tail g) (sep_tail_tail d)).
  rewrite <- app_assoc.
  destruct d as [|z d].
  - cbn [tail_str app]. rewrite (prefixb_name x y [] _ Hxs Hys (sep_tail_tail g)).
    rewrite (str_eqb_sym y x). destruct (str_eqb x y); [|reflexivity]. cbn [andb].
    destruct g; reflexivity.
  - cbn [tail_str app]. rewrite (prefixb_name x y _ _ Hxs Hys (sep_tail_tail g)).
    rewrite (str_eqb_sym y x). destruct (str_eqb x y); [|reflexivity]. cbn [andb].
    destruct g as [|y2 g]; [reflexivity|].
    cbn [tail_str prefixb str_eqb]. rewrite N.eqb_refl. cbn [andb].
    apply IH; [discriminate|exact Hd|discriminate|exact Hg].
Qed.
