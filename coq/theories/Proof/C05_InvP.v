(* C05 - bundle P (C05_Defs.v) is an invariant: ranges, packages, existence. *)
From PlzV Require Import Base.Harness Model.Sched Proof.Sched_Base Proof.Sched_Inv Proof.Sched_Deps Proof.C04 Proof.Sched_Measure Proof.C05 Proof.C05_Defs Proof.C05_Pkg.
From Coq Require Import Lia Arith.

(* where queueResolvedTarget(x) is called from *)
Definition called (g : graph) (s : state) (l : label) (x : nat) : Prop :=
  match l with
  | LParseActivate l0 => x = l0 /\ l0 < g_n g /\ In l0 (ptasks s)
  | LParseOk l0 => x = l0 /\ l0 < g_n g /\ In l0 (parsers s)
  | LAddTarget l0 t => x = t /\ t = l0 /\ l0 < g_n g /\ In l0 (parsers s)
  | LAsyncQueueDep t => exists r, asy s t = AQueue (x :: r)
  | LAsyncResolveDep t d => x = d /\ exists todo e, asy s t = AResolve todo e /\ In d todo
  | _ => False
  end.

Ltac enab He := unfold enabled in He; cbv beta iota in He; btrue;
  repeat match goal with H : lt_n _ _ = true |- _ => apply Nat.ltb_lt in H | H : mem _ _ = true |- _ => apply mem_In in H end.

Lemma qra_cases : forall g s d x, (forall t, J s t) ->
  qra g s d x = asy s x \/ (x = d /\ asy s x = ANone /\ qra g s d x = AQueue (g_deps g x)).
Proof.
  intros g s d x HJ. unfold qra. destruct (qr_ok s d) eqn:Q; cbn; [|left; reflexivity].
  destruct (Nat.eqb_spec x d); [subst; right|left; reflexivity].
  split; [reflexivity|]. split; [|reflexivity]. unfold qr_ok in Q. apply N.ltb_lt in Q. apply (HJ d). exact Q.
Qed.

Lemma asy_step : forall g s l x, (forall t, J s t) -> enabled g s l = true ->
  asy (apply g s l) x = asy s x \/
  (asy s x = ANone /\ asy (apply g s l) x = AQueue (g_deps g x) /\ ex (apply g s l) x = true /\ called g s l x) \/
  (asy s x <> ANone /\ asy (apply g s l) x <> ANone).
Proof.
  intros g s l x HJ He. rewrite view_ex, view_asy.
  destruct l; enab He; cbn [called]; auto.
  - (* LParseActivate *) destruct (ex s l) eqn:Ex; auto.
    destruct (qra_cases g s l x HJ) as [E|(E1 & E2 & E3)]; [left; exact E|]. subst x. right; left. repeat split; auto.
  - (* LAddTarget *) destruct (Nat.eqb_spec t l); auto. subst t.
    destruct (qra_cases g s l x HJ) as [E|(E1 & E2 & E3)]; [left; exact E|]. subst x. right; left. rewrite upd_same. repeat split; auto.
  - (* LParseOk *) destruct (ex s l) eqn:Ex; auto.
    destruct (qra_cases g s l x HJ) as [E|(E1 & E2 & E3)]; [left; exact E|]. subst x. right; left. repeat split; auto.
  - (* LAsyncQueueDep *) dasy s t Ea. dlist todo.
    unfold upd. destruct (Nat.eqb_spec x t).
    + subst x. right; right. rewrite Ea. split; [discriminate|]. destruct (ex s d); [|destruct (pst_eqb _ _)]; discriminate.
    + destruct (ex s d) eqn:Ex; [|destruct (pst_eqb _ _); auto].
      destruct (qra_cases g s d x HJ) as [E|(E1 & E2 & E3)]; [left; exact E|]. subst x. right; left. repeat split; eauto.
  - (* LAsyncBeginResolve *) dasy s t Ea. unfold upd. destruct (Nat.eqb_spec x t); auto. subst. right; right. rewrite Ea. split; discriminate.
  - (* LAsyncResolveDep *) dasy s t Ea. btrue. repeat match goal with H : mem _ _ = true |- _ => apply mem_In in H end.
    unfold upd. destruct (Nat.eqb_spec x t).
    + subst x. right; right. rewrite Ea. split; [discriminate|]. destruct (ex s d); discriminate.
    + destruct (ex s d) eqn:Ex; auto.
      destruct (qra_cases g s d x HJ) as [E|(E1 & E2 & E3)]; [left; exact E|]. subst x. right; left. repeat split; eauto.
  - (* LAsyncBeginWait *) dasy s t Ea. unfold upd. destruct (Nat.eqb_spec x t); [|destruct err; auto]. subst. right; right. rewrite Ea. split; [discriminate|]. destruct err; discriminate.
  - (* LWaitDep *) dasy s t Ea. dlist todo. unfold upd. destruct (Nat.eqb_spec x t); auto. subst. right; right. rewrite Ea. split; discriminate.
  - (* LDepFailed *) dasy s t Ea. unfold upd. destruct (Nat.eqb_spec x t); auto. subst. right; right. rewrite Ea. split; discriminate.
  - (* LActivatePending *) dasy s t Ea. unfold upd. destruct (Nat.eqb_spec x t); auto. subst. right; right. rewrite Ea. split; discriminate.
  - (* LAsyncDone *) dasy s t Ea. unfold upd. destruct (Nat.eqb_spec x t); auto. subst. right; right. rewrite Ea. split; discriminate.
Qed.

(* ---- which steps log a failure (logResult with a failure status), and whether it is a ParseFailed one ---- *)
Definition fails (g : graph) (s : state) (l : label) : option bool :=
  match l with
  | LParseActivate l0 | LParseOk l0 => if ex s l0 then None else Some true
  | LParseFail _ => Some true
  | LAsyncQueueDep t =>
      match asy s t with
      | AQueue (d :: _) => if ex s d then None else if pst_eqb (pk s (g_pkg g d)) PParsed then Some false else None
      | _ => None
      end
  | LAsyncBeginWait t => match asy s t with AResolve _ true => Some false | _ => None end
  | LBuildFail _ | LTimerCycleCheck _ => Some false
  | _ => None
  end.

Lemma view_failed : forall g s l, failed (apply g s l) = match fails g s l with Some _ => true | None => failed s end.
Proof. intros g s l. destruct l; cbn [apply fails]; solve [view_tac]. Qed.

Lemma stopreq_log_fail : forall g s p, stopreq (log_fail g s p) = stopreq s || (negb (g_keep_going g) || p).
Proof. intros g s p. unfold log_fail. cbn. destruct (negb (g_keep_going g) || p); cbn; [rewrite orb_true_r | rewrite orb_false_r]; reflexivity. Qed.
Lemma stopreq_async_error : forall g s l, stopreq (async_error g s l) = stopreq s || (negb (g_keep_going g) || false).
Proof. intros g s l. unfold async_error, err_stop. cbn. rewrite stopreq_log_fail. reflexivity. Qed.

Lemma view_stopreq : forall g s l, stopreq (apply g s l) =
  match fails g s l with Some p => stopreq s || (negb (g_keep_going g) || p) | None => stopreq s end.
Proof.
  intros g s l. destruct l; cbn [apply fails];
  repeat (first [ reflexivity | progress autorewrite with proj | rewrite stopreq_log_fail | rewrite stopreq_async_error | progress cbn
                | match goal with |- context [match ?x with _ => _ end] => destruct x eqn:? end
                | match goal with |- context [if ?x then _ else _] => destruct x eqn:? end ]).
Qed.

(* ---- the slot lists stay within the declared dependencies ---- *)
Definition slot_ok (g : graph) (t : nat) (a : astate) : Prop :=
  match a with AQueue todo | AResolve todo _ => incl todo (g_deps g t) | _ => True end.

Lemma slot_ok_qra : forall g s d x, (forall t, slot_ok g t (asy s t)) -> slot_ok g x (qra g s d x).
Proof.
  intros g s d x H. unfold qra. destruct (qr_ok s d && Nat.eqb x d) eqn:E; [|apply H].
  apply andb_prop in E. destruct E as [_ E]. apply Nat.eqb_eq in E. subst. cbn. apply incl_refl.
Qed.
Lemma slot_ok_upd : forall g (f : nat -> astate) t a x, slot_ok g t a -> slot_ok g x (f x) -> slot_ok g x (upd f t a x).
Proof. intros g f t a x H1 H2. unfold upd. destruct (Nat.eqb_spec x t); [subst; exact H1 | exact H2]. Qed.

Lemma slot_ok_step : forall g s l, (forall t, slot_ok g t (asy s t)) -> enabled g s l = true -> forall x, slot_ok g x (asy (apply g s l) x).
Proof.
  intros g s l H He x. rewrite view_asy. pose proof (slot_ok_qra g s) as Hq.
  destruct l; enab He; auto.
  - destruct (ex s l); auto.
  - destruct (Nat.eqb t l); auto.
  - destruct (ex s l); auto.
  - dasy s t Ea. dlist todo. pose proof (H t) as Ht. rewrite Ea in Ht. cbn in Ht.
    assert (slot_ok g t (AQueue r)) by (cbn; intros y Hy; apply Ht; right; exact Hy).
    destruct (ex s d); [|destruct (pst_eqb _ _)]; apply slot_ok_upd; cbn; auto.
  - apply slot_ok_upd; cbn; auto. apply incl_refl.
  - dasy s t Ea. pose proof (H t) as Ht. rewrite Ea in Ht. cbn in Ht.
    assert (forall e, slot_ok g t (AResolve (remove1 d todo) e)) by (intros e; cbn; intros y Hy; apply Ht; eapply In_remove1; exact Hy).
    destruct (ex s d); apply slot_ok_upd; auto.
  - dasy s t Ea. destruct err; apply slot_ok_upd; cbn; auto.
  - dasy s t Ea. dlist todo. apply slot_ok_upd; cbn; auto.
  - apply slot_ok_upd; cbn; auto.
  - apply slot_ok_upd; cbn; auto.
  - apply slot_ok_upd; cbn; auto.
Qed.

Lemma In_tl : forall A (x : A) l, In x (tl l) -> In x l.
Proof. intros A x [|y r]; cbn; auto. Qed.

Ltac ors := repeat match goal with H : _ \/ _ |- _ => destruct H end.

Theorem InvP_init : forall g, wf g -> InvP g (init g).
Proof.
  intros g (_ & Hreq & _). constructor; cbn; try discriminate; try tauto; try (intros; exfalso; auto; fail).
  intros t Hin. unfold in_lists in Hin. cbn in Hin. ors; try contradiction. apply Hreq. assumption.
Qed.

Lemma slot_ok_of : forall g s, InvP g s -> forall t, slot_ok g t (asy s t).
Proof.
  intros g s HP t. unfold slot_ok. destruct (asy s t) eqn:E; auto; [eapply p_todoq | eapply p_todor]; eauto.
Qed.

Ltac inl_solve HP :=
  repeat match goal with
  | H : _ \/ _ |- _ => destruct H
  | H : In _ (remove1 _ _) |- _ => apply In_remove1 in H
  | H : In _ (tl _) |- _ => apply In_tl in H
  | H : In _ (_ :: _) |- _ => destruct H as [<-|H]
  end; try assumption; try (apply (p_range _ _ HP); unfold in_lists; tauto).

Theorem InvP_step : forall g s l, wf g -> (forall t, J s t) -> InvP g s -> enabled g s l = true -> InvP g (apply g s l).
Proof.
  intros g s l Hwf HJ HP He.
  pose proof (slot_ok_step g s l (slot_ok_of g s HP) He) as Hslot.
  assert (Hcalled : forall x, called g s l x -> x < g_n g).
  { intros x Hc. destruct Hwf as (Hd & _ & _). destruct l; cbn in Hc; try contradiction.
    - destruct Hc as (-> & ? & _). assumption.
    - destruct Hc as (-> & -> & ? & _). assumption.
    - destruct Hc as (-> & ? & _). assumption.
    - destruct Hc as [r Hc]. apply (Hd t). apply (p_todoq _ _ HP _ _ Hc). left. reflexivity.
    - destruct Hc as (-> & todo & e & Hc & Hin). apply (Hd t). apply (p_todor _ _ HP _ _ _ Hc). exact Hin. }
  constructor.
  - (* p_range *)
    intros x Hx. unfold in_lists in Hx.
    rewrite view_initq, view_ptasks, view_parsers, view_semi, view_sendq, view_actq, view_taken, view_building, view_finishing, view_completing in Hx.
    destruct l; enab He; try solve [inl_solve HP].
    + destruct (initq s) as [|l0 r] eqn:Ei; [discriminate|]. inl_solve HP; apply (p_range _ _ HP); unfold in_lists; rewrite Ei; cbn; tauto.
    + destruct (cas cas_noneed (ts s t)); inl_solve HP.
    + dasy s t Ea. dlist todo. destruct (ex s d || pst_eqb (pk s (g_pkg g d)) PParsed); inl_solve HP.
      destruct Hwf as (Hd & _ & _). apply (Hd t). apply (p_todoq _ _ HP _ _ Ea). left. reflexivity.
    + destruct (cas [cas_pending] (ts s t)); inl_solve HP.
    + destruct (closed s); inl_solve HP.
  - (* p_arange *)
    intros x Hx. destruct (asy_step g s l x HJ He) as [E|[(E1 & E2 & E3 & E4)|[E1 E2]]].
    + rewrite E in Hx. apply (p_arange _ _ HP). exact Hx.
    + apply Hcalled. exact E4.
    + apply (p_arange _ _ HP). exact E1.
  - intros t todo E. pose proof (Hslot t) as H. rewrite E in H. exact H.
  - intros t todo e E. pose proof (Hslot t) as H. rewrite E in H. exact H.
  - (* p_parsed *)
    intros p Hp. rewrite view_pk in Hp.
    assert (Hold : pk s p = PParsed -> g_pkg_ok g p = true /\ (forall t, t < g_n g -> g_decl g t = true -> g_pkg g t = p -> ex (apply g s l) t = true)).
    { intros H. destruct (p_parsed _ _ HP p H) as [A B]. split; [exact A | intros; apply ex_mono; apply B; auto]. }
    destruct l; auto; unfold upd in Hp; destruct (Nat.eqb_spec p (g_pkg g l)); try discriminate; auto.
    subst p. enab He. split; [assumption|]. intros t Ht Hdecl Hpkg. rewrite view_ex.
    match goal with H : all_decl_exist _ _ _ = true |- _ => unfold all_decl_exist in H; rewrite forallb_forall in H;
      specialize (H t ltac:(apply in_seq; lia)); rewrite Hdecl, Hpkg, Nat.eqb_refl in H; cbn in H; exact H end.
  - (* p_failed *)
    intros p Hp. rewrite view_pk in Hp.
    assert (Hold : pk s p = PFailed -> stopreq (apply g s l) = true /\ failed (apply g s l) = true).
    { intros H. destruct (p_failed _ _ HP p H) as [A B]. split; [apply stopreq_mono | apply failed_mono]; assumption. }
    destruct l; auto; unfold upd in Hp; destruct (Nat.eqb_spec p (g_pkg g l)); try discriminate; auto.
    rewrite view_stopreq, view_failed. cbn. rewrite !orb_true_r. auto.
  - (* p_parsing *)
    intros p Hp. rewrite view_pk in Hp. rewrite view_parsers.
    destruct l; try (apply (p_parsing _ _ HP p Hp)); unfold upd in Hp; destruct (Nat.eqb_spec p (g_pkg g l)); try discriminate.
    + subst. exists l. split; [left|]; reflexivity.
    + destruct (p_parsing _ _ HP p Hp) as [l' [A B]]. exists l'. split; [right|]; assumption.
    + destruct (p_parsing _ _ HP p Hp) as [l' [A B]]. exists l'. split; [|assumption]. apply In_remove1_other; [congruence|assumption].
    + destruct (p_parsing _ _ HP p Hp) as [l' [A B]]. exists l'. split; [|assumption]. apply In_remove1_other; [congruence|assumption].
  - (* p_parser *)
    intros l' Hl'. rewrite view_parsers in Hl'.
    assert (Hold : In l' (parsers s) -> pk (apply g s l) (g_pkg g l') <> PNone).
    { intros H. apply pk_not_none_stable. apply (p_parser _ _ HP). exact H. }
    destruct l; auto; try (apply In_remove1 in Hl'; auto).
    destruct Hl' as [<-|Hl']; auto. rewrite view_pk, upd_same. discriminate.
  - (* p_ex_pk *)
    intros t Ht. rewrite view_ex in Ht.
    assert (Hold : ex s t = true -> pk (apply g s l) (g_pkg g t) <> PNone).
    { intros H. apply pk_not_none_stable. apply (p_ex_pk _ _ HP). exact H. }
    destruct l; auto. unfold upd in Ht. destruct (Nat.eqb_spec t t0); auto. subst t0. enab He.
    match goal with H : (g_pkg g t =? g_pkg g l) = true |- _ => apply Nat.eqb_eq in H; rewrite H end.
    apply pk_not_none_stable. apply (p_parser _ _ HP). assumption.
  - (* p_ex_decl *)
    intros t Ht. rewrite view_ex in Ht. destruct l; try (apply (p_ex_decl _ _ HP t Ht)).
    unfold upd in Ht. destruct (Nat.eqb_spec t t0); [|apply (p_ex_decl _ _ HP t Ht)]. subst t0. enab He. assumption.
  - (* p_asy_ex *)
    intros x Hx. destruct (asy_step g s l x HJ He) as [E|[(E1 & E2 & E3 & E4)|[E1 E2]]].
    + rewrite E in Hx. apply ex_mono. apply (p_asy_ex _ _ HP). exact Hx.
    + exact E3.
    + apply ex_mono. apply (p_asy_ex _ _ HP). exact E1.
  - (* p_stop_failed *)
    rewrite view_stopreq, view_failed. destruct (fails g s l); [reflexivity | apply (p_stop_failed _ _ HP)].
  - (* p_initdone *)
    rewrite view_initdone, view_initq. destruct l; try (apply (p_initdone _ _ HP)).
    + intros H. rewrite (p_initdone _ _ HP H). reflexivity.
    + intros _. enab He. match goal with H : is_nil _ = true |- _ => apply is_nil_true in H; exact H end.
Qed.
Print Assumptions InvP_step.
