(* C17 - the heap invariant behind the whole-program frame theorem, and what every primitive of the
   evaluator does to it.

   The heap objects are classified once and for all: an array / dict is Free (ordinary), Prot (protected:
   exported by a subinclude, or simply "must not change") or Dead (garbage / belongs to somebody else:
   nothing the running code can reach refers to it).  `vok v` is a LOCAL condition on one value:
     - a mutable list / dict reference points to a Free object,
     - nothing points to a Dead object, no function value is a dead function.
   `Inv st` says that every value the running code can reach (live scopes, locals, the subinclude cache,
   the cells of every array / dict that is not Dead, the defaults of the live functions, the constants the
   live function bodies mention) is `vok`.  `frame st st'` says that no Prot or Dead object was written. *)
From Coq Require Import String Lia.
From PlzV Require Import Base.Harness Gen.AspTables Model.C16_Syntax Model.C16_Ops Model.C16_Prim Model.C16_Eval.
Local Open Scope list_scope.
Local Open Scope nat_scope.

Inductive mode := Free | Prot | Dead.

(* ---------------------------------------------------------------- results *)
Definition post {A} (Q : A -> state -> Prop) (r : res (A * state)) : Prop :=
  match r with Ok (a, st') => Q a st' | _ => True end.

Lemma post_bind : forall {A B} (Q1 : A -> state -> Prop) (Q : B -> state -> Prop) (m : res (A * state)) (k : A * state -> res (B * state)),
  post Q1 m -> (forall a st1, Q1 a st1 -> post Q (k (a, st1))) -> post Q (rbind m k).
Proof. intros A B Q1 Q m k Hm Hk. destruct m as [[a st1]| |]; cbn in *; auto. Qed.

Lemma post_bind_pure : forall {A B} (Q : B -> state -> Prop) (r : res A) (k : A -> res (B * state)),
  (forall a, r = Ok a -> post Q (k a)) -> post Q (rbind r k).
Proof. intros A B Q r k H. destruct r; cbn; auto. Qed.

Lemma post_weaken : forall {A} (Q Q' : A -> state -> Prop) r, post Q r -> (forall a st, Q a st -> Q' a st) -> post Q' r.
Proof. intros A Q Q' [[a st]| |] H HQ; cbn in *; auto. Qed.

(* ---------------------------------------------------------------- list helpers *)
Lemma length_list_set : forall {A} (l : list A) i x, length (list_set i x l) = length l.
Proof. induction l as [|y r IH]; intros [|i] x; cbn; auto. Qed.

Lemma nth_list_set_other : forall {A} (l : list A) i j x dflt, i <> j -> nth j (list_set i x l) dflt = nth j l dflt.
Proof.
  induction l as [|y r IH]; intros [|i] [|j] x dflt H; cbn; try reflexivity; try contradiction.
  apply IH. congruence.
Qed.

Lemma nth_list_set_cases : forall {A} (l : list A) i j x d,
  nth j (list_set i x l) d = x \/ nth j (list_set i x l) d = nth j l d.
Proof.
  induction l as [|y r IH]; intros [|i] [|j] x d; cbn; auto.
Qed.

Lemma nth_list_set_P : forall {A} (P : A -> Prop) (l : list A) i j x d, P x -> P (nth j l d) -> P (nth j (list_set i x l) d).
Proof. intros A P l i j x d Hx Hl. destruct (nth_list_set_cases l i j x d) as [-> | ->]; auto. Qed.

Lemma Forall_list_set : forall {A} (Q : A -> Prop) (l : list A) i x, Forall Q l -> Q x -> Forall Q (list_set i x l).
Proof.
  induction l as [|y r IH]; intros [|i] x Hl Hx; cbn; auto; inversion Hl; subst; constructor; auto.
Qed.

Lemma Forall_write_cells : forall (Q : value -> Prop) xs off cells, Forall Q xs -> Forall Q cells -> Forall Q (write_cells off xs cells).
Proof.
  induction xs as [|x r IH]; intros off cells Hx Hc; cbn; auto.
  inversion Hx; subst. apply IH; auto. apply Forall_list_set; auto.
Qed.

Lemma Forall_firstn : forall {A} (Q : A -> Prop) n (l : list A), Forall Q l -> Forall Q (firstn n l).
Proof. intros A Q n l H. revert n. induction H; intros [|n]; cbn; auto. Qed.

Lemma Forall_skipn : forall {A} (Q : A -> Prop) n (l : list A), Forall Q l -> Forall Q (skipn n l).
Proof. intros A Q n l H. revert n. induction H; intros [|n]; cbn; auto. Qed.

Lemma Forall_nth : forall {A} (Q : A -> Prop) (l : list A) n d, Forall Q l -> Q d -> Q (nth n l d).
Proof. intros A Q l n d Hl Hd. destruct (nth_in_or_default n l d) as [H|H]; [|now rewrite H]. rewrite Forall_forall in Hl. auto. Qed.

Lemma Forall_repeat : forall {A} (Q : A -> Prop) x n, Q x -> Forall Q (repeat x n).
Proof. induction n; cbn; auto. Qed.

Lemma nth_app_cases : forall {A} (l : list A) x a d,
  (a < length l /\ nth a (l ++ [x]) d = nth a l d) \/ (a = length l /\ nth a (l ++ [x]) d = x) \/ (a > length l /\ nth a (l ++ [x]) d = d).
Proof.
  intros A l x a d. destruct (Nat.lt_ge_cases a (length l)) as [H|H].
  - left. split; auto. now rewrite app_nth1.
  - right. rewrite app_nth2 by lia. destruct (Nat.eq_dec a (length l)) as [->|Hn].
    + left. split; auto. now rewrite Nat.sub_diag.
    + right. split; [lia|]. destruct (a - length l) as [|k] eqn:E; [lia|]. cbn. now destruct k.
Qed.

Section Invariant.
Variables (ca cd : nat -> mode) (pf ls : nat -> bool) (cs : list value) (defs : list (str * prog)).

Definition vokb (v : value) : bool :=
  match v with
  | VList sl => match ca (s_arr sl) with Free => true | _ => false end
  | VFrozenList sl => match ca (s_arr sl) with Dead => false | _ => true end
  | VDict i => match cd i with Free => true | _ => false end
  | VFrozenDict i => match cd i with Dead => false | _ => true end
  | VFunc i => negb (pf i)
  | _ => true
  end.
Definition vok (v : value) : Prop := vokb v = true.
Definition env_ok (e : env) : Prop := Forall (fun kv => vok (snd kv)) e.

(* ---- the programs covered: every optimised.Constant they mention (XConst k, build_defs only) is vok.  A BUILD
   file contains no XConst at all, so every package program is covered. ---- *)
Fixpoint sok_e (e : expr) : bool :=
  match e with
  | Ex v ops iff =>
      sok_v v && forallb sok_i ops &&
      match iff with None => true | Some (c, e2) => sok_e c && sok_e e2 end
  end
with sok_v (x : vexpr) : bool :=
  match x with
  | XInt _ | XStr _ | XTrue | XFalse | XNone | XIdent _ => true
  | XConst k => vokb (nth k cs VNone)
  | XList es => forallb sok_e es
  | XComp e _ it cond => sok_e e && sok_e it && match cond with None => true | Some c => sok_e c end
  | XDict kvs => forallb (fun kv => let '(k, v) := kv in sok_e k && sok_e v) kvs
  | XParen e => sok_e e
  | XCall _ args => forallb (fun a => let '(_, e) := a in sok_e e) args
  | XMeth b _ args => sok_v b && forallb sok_e args
  | XIndex b i => sok_v b && sok_e i
  | XSlice b lo hi => sok_v b && match lo with None => true | Some e => sok_e e end && match hi with None => true | Some e => sok_e e end
  end
with sok_i (i : opitem) : bool :=
  match i with
  | OBin o v => sok_v v
  | OUn _ => true
  end.


(* unfolding equations (cbn does not refold the mutual fixpoint) *)
Lemma sok_e_Ex : forall v ops iff, sok_e (Ex v ops iff) =
  sok_v v && forallb sok_i ops && match iff with None => true | Some (c, e2) => sok_e c && sok_e e2 end.
Proof. reflexivity. Qed.
Lemma sok_v_list : forall es, sok_v (XList es) = forallb sok_e es.
Proof. reflexivity. Qed.
Lemma sok_v_comp : forall e n it cond, sok_v (XComp e n it cond) = sok_e e && sok_e it && match cond with None => true | Some c => sok_e c end.
Proof. reflexivity. Qed.
Lemma sok_v_dict : forall kvs, sok_v (XDict kvs) = forallb (fun kv => let '(k, v) := kv in sok_e k && sok_e v) kvs.
Proof. reflexivity. Qed.
Lemma sok_v_paren : forall e, sok_v (XParen e) = sok_e e.
Proof. reflexivity. Qed.
Lemma sok_v_meth : forall b m args, sok_v (XMeth b m args) = sok_v b && forallb sok_e args.
Proof. reflexivity. Qed.
Lemma sok_v_index : forall b i, sok_v (XIndex b i) = sok_v b && sok_e i.
Proof. reflexivity. Qed.
Lemma sok_v_slice : forall b lo hi, sok_v (XSlice b lo hi) =
  sok_v b && match lo with None => true | Some e => sok_e e end && match hi with None => true | Some e => sok_e e end.
Proof. reflexivity. Qed.
Lemma sok_v_const : forall k, sok_v (XConst k) = vokb (nth k cs VNone).
Proof. reflexivity. Qed.
Lemma sok_i_bin : forall o v, sok_i (OBin o v) = sok_v v.
Proof. reflexivity. Qed.

Definition sok_args (args : list (option str * expr)) : bool := forallb (fun a => let '(_, e) := a in sok_e e) args.

Lemma sok_v_call : forall n args, sok_v (XCall n args) = sok_args args.
Proof. reflexivity. Qed.

Fixpoint sok_s (s0 : stmt) : bool :=
  match s0 with
  | SAssign _ e => sok_e e
  | SAug _ e => sok_e e
  | SIdxAssign _ i e => sok_e i && sok_e e
  | SIdxAug _ i e => sok_e i && sok_e e
  | SUnpack _ e => sok_e e
  | SIf c body elifs els =>
      sok_e c && forallb sok_s body && forallb (fun cb => let '(c1, b1) := cb in sok_e c1 && forallb sok_s b1) elifs && forallb sok_s els
  | SFor _ it body => sok_e it && forallb sok_s body
  | SDef _ args body => forallb (fun na => match snd na with None => true | Some e => sok_e e end) args && forallb sok_s body
  | SReturn None => true
  | SReturn (Some e) => sok_e e
  | SCall _ args => sok_args args
  | SAssert e => sok_e e
  | SPass | SBreak | SContinue => true
  end.
Definition sok_p (p : list stmt) : bool := forallb sok_s p.

Lemma sok_s_if : forall c body elifs els, sok_s (SIf c body elifs els) =
  sok_e c && sok_p body && forallb (fun cb => let '(c1, b1) := cb in sok_e c1 && sok_p b1) elifs && sok_p els.
Proof. reflexivity. Qed.
Lemma sok_s_for : forall n it body, sok_s (SFor n it body) = sok_e it && sok_p body.
Proof. reflexivity. Qed.
Lemma sok_s_def : forall n args body, sok_s (SDef n args body) =
  forallb (fun na => match snd na with None => true | Some e => sok_e e end) args && sok_p body.
Proof. reflexivity. Qed.

Definition dok (a : str * fdefault) : bool :=
  match snd a with DNo => true | DConst v => vokb v | DExpr e => sok_e e end.
Definition fokb (fd : func) : bool := forallb dok (f_args fd) && sok_p (f_body fd) && ls (f_scope fd).

Definition dflt_func : func := Func [] [] [] 0.

Record Inv (st : state) : Prop := mkInv {
  i_ca : forall a, ca a <> Free -> a < length (arrays st);
  i_cd : forall i, cd i <> Free -> i < length (dicts st);
  i_pf : forall i, pf i = true -> i < length (funcs st);
  i_arr : forall a, ca a <> Dead -> Forall vok (arr_of st a);
  i_dict : forall i, cd i <> Dead -> env_ok (dict_of st i);
  i_fs : forall j, ls j = true -> env_ok (nth j (fscopes st) []);
  i_cur : ls (cur st) = true;
  i_loc : Forall env_ok (locals st);
  i_sub : Forall (fun le => env_ok (snd le)) (subcache st);
  i_fn : forall i, pf i = false -> i < length (funcs st) -> fokb (nth i (funcs st) dflt_func) = true;
  i_cs : consts st = cs;
  (* the packages subinclude only files that are already in the cache: Subinclude never loads a file *)
  i_defs : forall label, assoc_get label (subcache st) = None -> find_def defs label = None
}.

Record frame (st st' : state) : Prop := mkFrame {
  f_arr : forall a, ca a <> Free -> arr_of st' a = arr_of st a;
  f_dict : forall i, cd i <> Free -> dict_of st' i = dict_of st i;
  f_fs : forall j, ls j = false -> nth j (fscopes st') [] = nth j (fscopes st) [];
  f_fslen : length (fscopes st) <= length (fscopes st');
  f_fn : exists X, funcs st' = funcs st ++ X;
  f_sub : subcache st' = subcache st;
  f_alen : length (arrays st) <= length (arrays st');
  f_dlen : length (dicts st) <= length (dicts st')
}.

Lemma frame_refl : forall st, frame st st.
Proof. intros st. constructor; auto. exists []. now rewrite app_nil_r. Qed.

Lemma frame_trans : forall a b c, frame a b -> frame b c -> frame a c.
Proof.
  intros a b c [A1 A2 A3 A4 [X A5] A6 A7 A8] [B1 B2 B3 B4 [Y B5] B6 B7 B8]. constructor; intros; try congruence; try lia.
  - rewrite B1, A1; auto.
  - rewrite B2, A2; auto.
  - rewrite B3, A3; auto.
  - exists (X ++ Y). rewrite B5, A5. now rewrite app_assoc.
Qed.

Definition good (st : state) {A} (R : A -> Prop) : A -> state -> Prop :=
  fun a st' => Inv st' /\ frame st st' /\ R a.

Lemma good_ret : forall {A} (R : A -> Prop) st a, Inv st -> R a -> post (good st R) (Ok (a, st)).
Proof. intros. cbn. split; [assumption|]. split; [apply frame_refl|assumption]. Qed.

Lemma good_bind : forall {A B} (R1 : A -> Prop) (R : B -> Prop) st (m : res (A * state)) (k : A * state -> res (B * state)),
  post (good st R1) m ->
  (forall a st1, Inv st1 -> frame st st1 -> R1 a -> post (good st1 R) (k (a, st1))) ->
  post (good st R) (rbind m k).
Proof.
  intros A B R1 R st m k Hm Hk. eapply post_bind; [exact Hm|].
  intros a st1 (I1 & F1 & H1). eapply post_weaken; [apply Hk; auto|].
  intros b st2 (I2 & F2 & H2). split; [auto|]. split; [eapply frame_trans; eauto|auto].
Qed.

Lemma good_frame : forall {A} (R : A -> Prop) st st1 r, frame st st1 -> post (good st1 R) r -> post (good st R) r.
Proof.
  intros A R st st1 r F H. eapply post_weaken; [exact H|]. intros a st2 (I2 & F2 & H2).
  split; [auto|]. split; [eapply frame_trans; eauto|auto].
Qed.

Lemma good_weaken : forall {A} (R R' : A -> Prop) st r, post (good st R) r -> (forall a, R a -> R' a) -> post (good st R') r.
Proof. intros A R R' st r H HR. eapply post_weaken; [exact H|]. intros a st' (I & F & Ha). split; [exact I|]. split; [exact F|]. apply HR, Ha. Qed.

(* ---------------------------------------------------------------- environments *)
Lemma env_get_ok : forall e n v, env_ok e -> env_get n e = Some v -> vok v.
Proof.
  induction e as [|[k w] r IH]; intros n v He Hg; cbn in Hg; [discriminate|].
  inversion He; subst. destruct (str_eqb n k); [injection Hg as <-; auto|eauto].
Qed.

Lemma env_set_ok : forall e n v, env_ok e -> vok v -> env_ok (env_set n v e).
Proof.
  induction e as [|[k w] r IH]; intros n v He Hv; cbn.
  - constructor; auto.
  - inversion He; subst. destruct (str_eqb n k); constructor; auto. apply IH; auto.
Qed.

Lemma envs_get_ok : forall l n v, Forall env_ok l -> envs_get n l = Some v -> vok v.
Proof.
  induction l as [|e r IH]; intros n v Hl Hg; cbn in Hg; [discriminate|].
  inversion Hl; subst. destruct (env_get n e) eqn:E; [injection Hg as <-; eapply env_get_ok; eauto|eauto].
Qed.

Lemma lookup_ok : forall st n v, Inv st -> lookup n st = Some v -> vok v.
Proof.
  intros st n v HI H. unfold lookup in H.
  destruct (envs_get n (locals st)) eqn:E1; [injection H as <-; eapply envs_get_ok; [apply (i_loc _ HI)|exact E1]|].
  destruct (env_get n (nth (cur st) (fscopes st) [])) eqn:E2.
  - injection H as <-. eapply env_get_ok; [|exact E2]. apply i_fs; auto. apply i_cur; auto.
  - destruct (existsb (str_eqb n) builtin_names); [|discriminate]. injection H as Hq. subst v. reflexivity.
Qed.

Lemma nth_list_set_same_or : forall {A} (l : list A) i x d, nth i (list_set i x l) d = x \/ (length l <= i /\ list_set i x l = l).
Proof.
  induction l as [|y r IH]; intros i x d.
  - right. destruct i; cbn; split; auto; lia.
  - destruct i as [|i]; cbn.
    + left. reflexivity.
    + destruct (IH i x d) as [H|[H1 H2]]; [left; exact H|]. right. split; [lia|]. now rewrite H2.
Qed.

Lemma set_var_good : forall st n v, Inv st -> vok v -> Inv (set_var n v st) /\ frame st (set_var n v st).
Proof.
  intros st n v HI Hv. unfold set_var. destruct (locals st) as [|e r] eqn:EL.
  - split.
    + destruct HI. constructor; cbn [arrays dicts funcs fscopes cur locals consts subcache set_fscopes]; auto.
      * intros j Hj. destruct (Nat.eq_dec j (cur st)) as [->|Hn].
        -- destruct (nth_list_set_same_or (fscopes st) (cur st) (env_set n v (nth (cur st) (fscopes st) [])) []) as [H|[_ H]].
           ++ rewrite H. apply env_set_ok; auto.
           ++ rewrite H. auto.
        -- rewrite nth_list_set_other by auto. auto.
    + constructor; cbn [arrays dicts funcs fscopes cur locals consts subcache set_fscopes]; auto.
      * intros j Hj. rewrite nth_list_set_other; auto. intros E. rewrite <- E in Hj. rewrite (i_cur _ HI) in Hj. discriminate.
      * rewrite length_list_set. lia.
      * exists []. now rewrite app_nil_r.
  - split.
    + destruct HI. constructor; cbn [arrays dicts funcs fscopes cur locals consts subcache set_locals]; auto.
      rewrite EL in i_loc0. inversion i_loc0; subst. constructor; auto. apply env_set_ok; auto.
    + constructor; cbn [arrays dicts funcs fscopes cur locals consts subcache set_locals]; auto.
      exists []. now rewrite app_nil_r.
Qed.

Lemma set_vars_good : forall (kvs : env) st, Inv st -> env_ok kvs ->
  let st' := fold_left (fun acc kv => set_var (fst kv) (snd kv) acc) kvs st in Inv st' /\ frame st st'.
Proof.
  induction kvs as [|[k v] r IH]; intros st HI Hk; cbn.
  - split; [auto|apply frame_refl].
  - inversion Hk; subst. destruct (set_var_good st k v HI H1) as [I1 F1].
    destruct (IH _ I1 H2) as [I2 F2]. split; [auto|eapply frame_trans; eauto].
Qed.

Lemma set_locals_inv : forall st l, Inv st -> Forall env_ok l -> Inv (set_locals l st).
Proof. intros st l HI Hl. destruct HI. constructor; cbn [arrays dicts funcs fscopes cur locals consts subcache set_locals]; auto. Qed.

Lemma set_locals_frame : forall st l, frame st (set_locals l st).
Proof. intros. constructor; cbn [arrays dicts funcs fscopes cur locals consts subcache set_locals]; auto. exists []. now rewrite app_nil_r. Qed.

Lemma set_cur_inv : forall st c, Inv st -> ls c = true -> Inv (set_cur c st).
Proof. intros st c HI Hc. destruct HI. constructor; cbn [arrays dicts funcs fscopes cur locals consts subcache set_cur]; auto. Qed.

Lemma set_cur_frame : forall st c, frame st (set_cur c st).
Proof. intros. constructor; cbn [arrays dicts funcs fscopes cur locals consts subcache set_cur]; auto. exists []. now rewrite app_nil_r. Qed.

(* ---------------------------------------------------------------- the heap *)
Lemma items_ok : forall st sl, Inv st -> vok (VFrozenList sl) -> Forall vok (list_items Asp st sl).
Proof.
  intros st sl HI Hv. unfold list_items. apply Forall_firstn, Forall_skipn. apply (i_arr _ HI).
  unfold vok, vokb in Hv. intros E. rewrite E in Hv. discriminate.
Qed.

Lemma vok_list_frozen : forall sl, vok (VList sl) -> vok (VFrozenList sl).
Proof. intros sl. unfold vok, vokb. destruct (ca (s_arr sl)); auto; discriminate. Qed.

Lemma as_list_items_ok : forall st v sl, Inv st -> vok v -> as_list v = Some sl -> Forall vok (list_items Asp st sl).
Proof.
  intros st v sl HI Hv H. destruct v; try discriminate; injection H as <-; apply items_ok; auto using vok_list_frozen.
Qed.

Lemma dict_ok : forall st i, Inv st -> vok (VFrozenDict i) -> env_ok (dict_of st i).
Proof.
  intros st i HI Hv. apply (i_dict _ HI). unfold vok, vokb in Hv. intros E. rewrite E in Hv. discriminate.
Qed.

Lemma vok_dict_frozen : forall i, vok (VDict i) -> vok (VFrozenDict i).
Proof. intros i. unfold vok, vokb. destruct (cd i); auto; discriminate. Qed.

Lemma fresh_arr_free : forall st, Inv st -> ca (length (arrays st)) = Free.
Proof. intros st HI. destruct (ca (length (arrays st))) eqn:E; auto; assert (length (arrays st) < length (arrays st)) by (apply (i_ca _ HI); congruence); lia. Qed.

Lemma fresh_dict_free : forall st, Inv st -> cd (length (dicts st)) = Free.
Proof. intros st HI. destruct (cd (length (dicts st))) eqn:E; auto; assert (length (dicts st) < length (dicts st)) by (apply (i_cd _ HI); congruence); lia. Qed.

Lemma alloc_list_good : forall items cap st, Inv st -> Forall vok items ->
  let '(r, st') := alloc_list items cap st in Inv st' /\ frame st st' /\ vok (VList r) /\ s_arr r = length (arrays st).
Proof.
  intros items cap st HI Hit. unfold alloc_list.
  set (cells := items ++ repeat VNone (cap - length items)).
  assert (Hc : Forall vok cells). { apply Forall_app; split; auto. apply Forall_repeat. reflexivity. }
  split; [|split; [|split]].
  - destruct HI. constructor; cbn [arrays dicts funcs fscopes cur locals consts subcache set_arrays]; auto.
    + intros a Ha. rewrite app_length. cbn. specialize (i_ca0 a Ha). lia.
    + intros a Ha. unfold arr_of. cbn [arrays set_arrays].
      destruct (nth_app_cases (arrays st) cells a []) as [[_ ->]|[[_ ->]|[_ ->]]]; auto. apply i_arr0; auto.
  - constructor; cbn [arrays dicts funcs fscopes cur locals consts subcache set_arrays]; auto.
    + intros a Ha. unfold arr_of. cbn [arrays set_arrays]. rewrite app_nth1; auto. apply (i_ca _ HI); auto.
    + exists []. now rewrite app_nil_r.
    + rewrite app_length. lia.
  - unfold vok, vokb. cbn [s_arr]. now rewrite (fresh_arr_free st HI).
  - reflexivity.
Qed.

Lemma new_list_good : forall items st, Inv st -> Forall vok items -> post (good st vok) (Ok (new_list items st)).
Proof.
  intros items st HI Hit. unfold new_list. pose proof (alloc_list_good items (length items) st HI Hit) as H.
  destruct (alloc_list items (length items) st) as [r st']. destruct H as (H1 & H2 & H3 & _). cbn. unfold good. auto.
Qed.

Lemma alloc_dict_good : forall kvs st, Inv st -> env_ok kvs ->
  let '(n, st') := alloc_dict kvs st in Inv st' /\ frame st st' /\ vok (VDict n).
Proof.
  intros kvs st HI Hk. unfold alloc_dict. split; [|split].
  - destruct HI. constructor; cbn [arrays dicts funcs fscopes cur locals consts subcache set_dicts]; auto.
    + intros a Ha. rewrite app_length. cbn. specialize (i_cd0 a Ha). lia.
    + intros a Ha. unfold dict_of. cbn [dicts set_dicts].
      destruct (nth_app_cases (dicts st) kvs a []) as [[_ ->]|[[_ ->]|[_ ->]]]; auto. apply i_dict0; auto. constructor.
  - constructor; cbn [arrays dicts funcs fscopes cur locals consts subcache set_dicts]; auto.
    + intros a Ha. unfold dict_of. cbn [dicts set_dicts]. rewrite app_nth1; auto. apply (i_cd _ HI); auto.
    + exists []. now rewrite app_nil_r.
    + rewrite app_length. lia.
  - unfold vok, vokb. now rewrite (fresh_dict_free st HI).
Qed.

Lemma arr_write_good : forall a off xs st, Inv st -> ca a = Free -> Forall vok xs ->
  Inv (arr_write a off xs st) /\ frame st (arr_write a off xs st).
Proof.
  intros a off xs st HI Ha Hx. unfold arr_write. split.
  - destruct HI. constructor; cbn [arrays dicts funcs fscopes cur locals consts subcache set_arrays]; auto.
    + intros b Hb. rewrite length_list_set. auto.
    + intros b Hb. unfold arr_of at 1. cbn [arrays set_arrays].
      destruct (nth_list_set_cases (arrays st) a b (write_cells off xs (arr_of st a)) []) as [-> | ->].
      * apply Forall_write_cells; auto. destruct (Nat.eq_dec a b) as [->|Hn]; [apply i_arr0; auto|].
        apply i_arr0. rewrite Ha. discriminate.
      * apply i_arr0; auto.
  - constructor; cbn [arrays dicts funcs fscopes cur locals consts subcache set_arrays]; auto.
    + intros b Hb. unfold arr_of at 1. cbn [arrays set_arrays]. apply nth_list_set_other. intros ->. contradiction.
    + exists []. now rewrite app_nil_r.
    + rewrite length_list_set. lia.
Qed.

Lemma dict_of_store : forall x st b, dict_of (set_dicts x st) b = nth b x [].
Proof. reflexivity. Qed.

Lemma dict_store_good : forall i k v st, Inv st -> cd i = Free -> vok v ->
  Inv (dict_store i k v st) /\ frame st (dict_store i k v st).
Proof.
  intros i k v st HI Hi Hv. unfold dict_store. split.
  - destruct HI. constructor; cbn [arrays dicts funcs fscopes cur locals consts subcache set_dicts]; auto.
    + intros b Hb. rewrite length_list_set. auto.
    + intros b Hb. rewrite dict_of_store.
      apply (nth_list_set_P env_ok).
      * apply env_set_ok; auto. apply i_dict0. rewrite Hi. discriminate.
      * apply i_dict0; auto.
  - constructor; cbn [arrays dicts funcs fscopes cur locals consts subcache set_dicts]; auto.
    + intros b Hb. rewrite dict_of_store. apply nth_list_set_other. intros ->. contradiction.
    + exists []. now rewrite app_nil_r.
    + rewrite length_list_set. lia.
Qed.

(* l + items2 (since /repo 7aeabfa): always a new array *)
Lemma list_add_good : forall l items2 st, Inv st -> vok (VFrozenList l) -> Forall vok items2 ->
  let '(r, st') := list_add Asp l items2 st in Inv st' /\ frame st st' /\ vok (VList r).
Proof.
  intros l items2 st HI Hl Hit. unfold list_add.
  pose proof (alloc_list_good (list_items Asp st l ++ items2) (s_len l + length items2) st HI) as H.
  destruct (alloc_list (list_items Asp st l ++ items2) (s_len l + length items2) st) as [r st'].
  destruct H as (I1 & F1 & V1 & _); auto. apply Forall_app. split; auto. apply items_ok; auto.
Qed.

End Invariant.
