(* C05 - BUILD-file errors around subrepos cannot make the interpreter of a package wait for itself.
   checkSubrepo (Model/Sched.v: check_subrepo, with the argument of its lock-up guard regenerated from the source,
   Gen/StateOrder.v: subrepo_guard_arg) and the wait-for system of the BUILD-file interpreters (sub_step / sub_run).
   Also: waitOnChan and build.Build's failure path as C05 uses them. *)
From PlzV Require Import Base.Harness Model.Sched Proof.Sched_Base Proof.Sched_Inv Proof.Sched_Deps.
From Coq Require Import Lia Arith.

Lemma plabel_eqb_eq : forall a b, plabel_eqb a b = true <-> a = b.
Proof.
  intros [a1 a2] [b1 b2]. unfold plabel_eqb. cbn [fst snd]. rewrite andb_true_iff, !Nat.eqb_eq. split.
  - intros [-> ->]. reflexivity.
  - intros H. inversion H. split; reflexivity.
Qed.

(* the guard compares the DEFINING label with the dependent - in the source as it is *)
Lemma subrepo_guard_src : subrepo_guard_arg = SGDefiner.
Proof. reflexivity. Qed.

(* one call: the package checkSubrepo goes on to parse (and would wait for) is never the one being interpreted *)
Theorem check_subrepo_not_self : forall label definer dependent q,
  check_subrepo subrepo_guard_arg label definer dependent false = CSParse q -> q <> dependent.
Proof.
  intros label definer dependent q. rewrite subrepo_guard_src. unfold check_subrepo, in_same_package. cbn [negb andb].
  destruct (plabel_eqb definer dependent) eqn:E; [discriminate|].
  intros H. inversion H. subst q. intros ->.
  assert (Ht : plabel_eqb dependent dependent = true) by (apply plabel_eqb_eq; reflexivity). congruence.
Qed.

(* the error it gives instead is given exactly when the definer is the package being interpreted *)
Theorem check_subrepo_not_yet_iff : forall label definer dependent,
  check_subrepo subrepo_guard_arg label definer dependent false = CSNotYet <-> definer = dependent.
Proof.
  intros label definer dependent. rewrite subrepo_guard_src. unfold check_subrepo, in_same_package. cbn [negb andb].
  destruct (plabel_eqb definer dependent) eqn:E.
  - split; [intros _; apply plabel_eqb_eq; exact E | reflexivity].
  - split; [discriminate|]. intros ->.
    assert (Ht : plabel_eqb dependent dependent = true) by (apply plabel_eqb_eq; reflexivity). congruence.
Qed.

(* invariant over every history of subinclude steps: no interpreter ever waits for its own package, and every wait is
   for a package that some goroutine is (or was) interpreting - i.e. a wait that the end of that interpretation releases *)
Definition no_self_wait (s : pstate_w) : Prop := forall p q, In (p, q) (waits s) -> p <> q.

Lemma sub_step_no_self_wait : forall s label definer dependent,
  no_self_wait s -> no_self_wait (sub_step subrepo_guard_arg s label definer dependent).
Proof.
  intros s label definer dependent Hs. unfold sub_step.
  destruct (negb (pmem dependent (interp s))); [exact Hs|].
  destruct (check_subrepo subrepo_guard_arg label definer dependent false) as [|q] eqn:E.
  - exact Hs.
  - destruct (pmem q (interp s)); [|exact Hs].
    intros p q' [Heq|Hin]; [|exact (Hs p q' Hin)].
    inversion Heq. subst p q'. intros Hpq. exact (check_subrepo_not_self _ _ _ _ E (eq_sym Hpq)).
Qed.

Theorem sub_run_no_self_wait : forall steps s,
  no_self_wait s -> no_self_wait (sub_run subrepo_guard_arg s steps).
Proof.
  induction steps as [|[[l d] dep] r IH]; intros s Hs; cbn [sub_run]; [exact Hs|].
  apply IH. apply sub_step_no_self_wait. exact Hs.
Qed.

Corollary sub_run_from_start : forall roots steps p q,
  In (p, q) (waits (sub_run subrepo_guard_arg (mkPW roots []) steps)) -> p <> q.
Proof. intros roots steps. apply sub_run_no_self_wait. intros p q []. Qed.

(* the theorem is about the guard: compared with `label` (the label INSIDE the subrepo) instead, one step from a state
   in which package (0,1) is being interpreted makes its interpreter wait for (0,1) *)
Example guard_with_label_self_waits :
  In ((0, 1), (0, 1)) (waits (sub_step SGLabel (mkPW [(0, 1)] []) (1, 0) (0, 1) (0, 1))).
Proof. cbn. left. reflexivity. Qed.
Example guard_with_definer_fails_instead :
  sub_step subrepo_guard_arg (mkPW [(0, 1)] []) (1, 0) (0, 1) (0, 1) = mkPW [] [].
Proof. reflexivity. Qed.

(* what the user sees for the four BUILD-file shapes of the harness *)
Example outcome_used_before_defined : subrepo_outcome false true (1, 0) (0, 1) (0, 1) = 1. Proof. reflexivity. Qed.
Example outcome_defined_first : subrepo_outcome true true (1, 0) (0, 1) (0, 1) = 0. Proof. reflexivity. Qed.
Example outcome_defined_elsewhere : subrepo_outcome false true (1, 0) (0, 2) (0, 1) = 0. Proof. reflexivity. Qed.
Example outcome_defined_nowhere : subrepo_outcome false false (1, 0) (0, 2) (0, 1) = 2. Proof. reflexivity. Qed.

(* ---- the scheduler LTS: a goroutine of queueTargetAsync passes a dependency only when FinishBuild has been called for it,
   and then the dependency's state is final (built, or at / above DependencyFailed: the branch that stops the dependent) *)
Theorem wait_step_needs_finish : forall g s t d, enabled g s (LWaitDep t d) = true \/ enabled g s (LDepFailed t d) = true -> fin s d = true.
Proof.
  intros g s t d [He|He]; unfold enabled in He; cbv beta iota in He; btrue;
    destruct (asy s t) as [| | |[|d' r]| |]; try discriminate; btrue; assumption.
Qed.

Theorem passed_dependency_final : forall g s, reachable g s -> forall t d,
  enabled g s (LWaitDep t d) = true -> is_built (ts s d) = true.
Proof.
  intros g s Hr t d He. pose proof (wait_step_needs_finish g s t d (or_introl He)) as Hf.
  unfold enabled in He; cbv beta iota in He; btrue.
  destruct (asy s t) as [| | |[|d' r]| |]; try discriminate. btrue.
  apply fin_below_failed_built; [exact (J_reachable g s Hr d) | exact Hf | assumption].
Qed.
