(* C13 follow-up - an entry that vanishes DURING a store (Model/C13.v: size, vanish, vanish_list,
   walk_a/write_a with the action fs.WalkMode configures for callback errors).

   Main results, for every list of intact outputs and EVERY position of the walk (a declared
   output, or an entry at any depth inside a directory output):
     vanish_write     the archive writer emits exactly the members in front of that position and
                      reports the error (so nothing behind the fault is ever written);
     http_vanish_*    the HTTP store leaves the server unchanged and a later retrieve is a miss;
     cmd_vanish_sent  the command cache's store command is sent exactly those members followed
                      by the end-of-archive marker (the known defect, at every position);
     skip_enoent_*    with an ErrorCallback that skips entries which no longer exist, the entry
                      is silently left out and a well-formed archive is published. *)
From PlzV Require Import Base.Harness Base.StrFacts Gen.C13Exits Model.C13 Proof.C13.
From Coq Require Import Lia.
Local Open Scope N_scope.

(* ---- the nested fixpoints of the model, named ---- *)
Lemma size_dir n ch : size (TDir n ch) = S (size_list ch).
Proof.
  (* the local fixpoint of `size` is size_list, literally *)
  reflexivity.
Qed.

Lemma vanish_dir n ch j : vanish (TDir n ch) (S j) = TDir n (vanish_list ch j).
Proof.
  reflexivity.
Qed.

Lemma vanish_0 t : vanish t 0 = TMissing (name_of t).
Proof. destruct t; reflexivity. Qed.

Lemma size_pos t : (0 < size t)%nat.
Proof. destruct t; cbn [C13.size]; lia. Qed.

(* ---- a fault-free walk writes one member per node ---- *)
Definition walk_len_spec (t : tree) : Prop :=
  healthy t = true -> snd (walk t) = true /\ length (fst (walk t)) = size t.

Lemma walk_list_len l : Forall walk_len_spec l -> forallb healthy l = true ->
  snd (walk_list l) = true /\ length (fst (walk_list l)) = size_list l.
Proof.
  induction 1 as [|x r Hx Hr IH]; cbn [forallb walk_list size_list]; intro Hh.
  - split; reflexivity.
  - apply andb_prop in Hh. destruct Hh as [H1 H2].
    destruct (Hx H1) as [Ok L]. destruct (IH H2) as [Ok' L'].
    destruct (walk x) as [a ok]. cbn [fst snd] in *. subst ok.
    destruct (walk_list r) as [b ok']. cbn [fst snd] in *. subst ok'.
    split; [reflexivity|]. rewrite app_length, L, L'. reflexivity.
Qed.

Lemma walk_len t : walk_len_spec t.
Proof.
  induction t as [n c|n t|n ch IH|n|n sz g|n] using tree_ind'; unfold walk_len_spec; cbn [healthy]; try discriminate.
  - intros _. split; reflexivity.
  - intros _. split; reflexivity.
  - intro Hh. rewrite walk_dir, size_dir. destruct (walk_list_len ch IH Hh) as [Ok L].
    destruct (walk_list ch) as [b ok]. cbn [fst snd] in *. subst ok. split; [reflexivity|].
    cbn [length]. rewrite L. reflexivity.
Qed.

Lemma walk_list_len' l : forallb healthy l = true ->
  snd (walk_list l) = true /\ length (fst (walk_list l)) = size_list l.
Proof. apply walk_list_len. apply Forall_forall. intros t _. apply walk_len. Qed.

(* ---- the fault at walk position i: exactly the first i members, then the error ---- *)
Definition vanish_spec (t : tree) : Prop :=
  healthy t = true -> forall i, (i < size t)%nat ->
  walk (vanish t i) = (firstn i (fst (walk t)), false).

Lemma vanish_list_walk l : Forall vanish_spec l -> forallb healthy l = true ->
  forall i, (i < size_list l)%nat ->
  walk_list (vanish_list l i) = (firstn i (fst (walk_list l)), false).
Proof.
  induction 1 as [|x r Hx Hr IH]; cbn [forallb size_list]; intros Hh i Hi.
  - lia.
  - apply andb_prop in Hh. destruct Hh as [H1 H2].
    destruct (walk_len x H1) as [Okx Lx].
    cbn [vanish_list walk_list].
    destruct (walk x) as [a ok] eqn:Wx. cbn [fst snd] in *. subst ok.
    destruct (Nat.ltb_spec i (size x)) as [Lt|Ge].
    + cbn [walk_list]. rewrite (Hx H1 i Lt), Wx. cbn [fst].
      destruct (walk_list r) as [b ok']. cbn [fst].
      rewrite firstn_app. replace (i - length a)%nat with O by lia.
      cbn [firstn]. rewrite app_nil_r. reflexivity.
    + cbn [walk_list]. rewrite Wx.
      rewrite (IH H2 (i - size x)%nat) by lia.
      destruct (walk_list r) as [b ok']. cbn [fst].
      rewrite firstn_app, Lx. rewrite (firstn_all2 (n:=i) a) by lia. reflexivity.
Qed.

Lemma vanish_walk t : vanish_spec t.
Proof.
  induction t as [n c|n t|n ch IH|n|n sz g|n] using tree_ind'; unfold vanish_spec; cbn [healthy]; try discriminate.
  - intros _ i Hi. cbn [C13.size] in Hi. replace i with O by lia. reflexivity.
  - intros _ i Hi. cbn [C13.size] in Hi. replace i with O by lia. reflexivity.
  - intros Hh i Hi. rewrite size_dir in Hi. destruct i as [|j].
    + rewrite vanish_0. reflexivity.
    + rewrite vanish_dir, !walk_dir. rewrite (vanish_list_walk ch IH Hh j) by lia.
      destruct (walk_list ch) as [b ok]. reflexivity.
Qed.

Theorem vanish_write files i :
  all_healthy files = true -> (i < size_list files)%nat ->
  write (vanish_list files i) = (firstn i (fst (write files)), false).
Proof.
  intros Hh Hi. rewrite !write_walk_list. apply vanish_list_walk; [|exact Hh|exact Hi].
  apply Forall_forall. intros t _. apply vanish_walk.
Qed.

(* every position below the total size is a real position: the fault-free stream has a member there *)
Lemma write_length files : all_healthy files = true ->
  snd (write files) = true /\ length (fst (write files)) = size_list files.
Proof. intro Hh. rewrite write_walk_list. apply walk_list_len'. exact Hh. Qed.

Lemma vanish_unhealthy files i :
  all_healthy files = true -> (i < size_list files)%nat -> all_healthy (vanish_list files i) = false.
Proof.
  intros Hh Hi. pose proof (write_spec (vanish_list files i)) as W.
  rewrite (vanish_write files i Hh Hi) in W. destruct W as [W _]. symmetry. exact W.
Qed.

(* ---- HTTP: all or nothing at every walk position ---- *)
Theorem http_vanish_leaves_nothing files i server put_ok :
  all_healthy files = true -> (i < size_list files)%nat ->
  http_store server (vanish_list files i) put_ok = server.
Proof.
  intros Hh Hi. apply http_failed_store_leaves_nothing.
  rewrite (vanish_unhealthy files i Hh Hi). reflexivity.
Qed.

Theorem http_vanish_is_miss root files i put_ok g :
  all_healthy files = true -> (i < size_list files)%nat ->
  http_retrieve root (http_store None (vanish_list files i) put_ok) g [] = (false, []).
Proof.
  intros Hh Hi. rewrite (http_vanish_leaves_nothing files i None put_ok Hh Hi). reflexivity.
Qed.

(* ---- command cache: what the store command is sent, at every walk position ---- *)
Lemma good_firstn st i : good st -> good (firstn i st).
Proof.
  unfold good. intro H. revert i. induction H as [|c r Hc Hr IH]; intro i; destruct i; cbn [firstn]; constructor.
  - exact Hc.
  - apply IH.
Qed.

Theorem cmd_vanish_sent files i :
  all_healthy files = true -> (i < size_list files)%nat ->
  cmd_sent (vanish_list files i) = firstn i (fst (write files)) ++ footer.
Proof.
  intros Hh Hi. unfold cmd_sent. rewrite (vanish_write files i Hh Hi), gen_cmd_tar_close.
  pose proof (write_spec files) as W. destruct (write files) as [st ok]. destruct W as (Hok & _ & Hg).
  rewrite Hh in Hok. destruct (Hg Hok) as [G _]. cbn [fst andb].
  rewrite (good_at_boundary _ (good_firstn st i G)). reflexivity.
Qed.

(* so the defect classifier says exactly: the store command kept all of that short archive *)
Theorem cmd_vanish_defect files i commit :
  all_healthy files = true -> (i < size_list files)%nat ->
  cmd_defect (vanish_list files i) commit =
  match commit with Some k => bytes (firstn i (fst (write files)) ++ footer) <=? k | None => false end.
Proof.
  intros Hh Hi. unfold cmd_defect.
  rewrite (vanish_unhealthy files i Hh Hi), (cmd_vanish_sent files i Hh Hi), (vanish_write files i Hh Hi).
  pose proof (write_spec files) as W. destruct (write files) as [st ok]. destruct W as (Hok & _ & Hg).
  rewrite Hh in Hok. destruct (Hg Hok) as [G _]. cbn [fst negb andb].
  rewrite (good_at_boundary _ (good_firstn st i G)). reflexivity.
Qed.

(* a store command that publishes nothing when it is killed: always a miss *)
Theorem cmd_vanish_atomic_is_miss root files i rcut exit_ok :
  all_healthy files = true -> (i < size_list files)%nat ->
  cmd_retrieve root (cmd_store None (vanish_list files i) None) rcut exit_ok [] = (false, []).
Proof. intros _ _. reflexivity. Qed.

(* ---- why the walk has to halt: the skipping variant drops the entry silently ---- *)
Lemma skip_list_drops (go : list tree -> list chunk * bool) m l1 l2 :
  (forall l, go l = match l with
                    | [] => ([], true)
                    | x :: r => let '(a, ok) := walk_a WSkipEnoent x in
                                if ok then let '(b, ok') := go r in (a ++ b, ok')
                                else if skippable WSkipEnoent x then go r else (a, false)
                    end) ->
  go (l1 ++ TMissing m :: l2) = go (l1 ++ l2).
Proof.
  intro Hgo. induction l1 as [|x r IH]; cbn [app].
  - rewrite (Hgo (TMissing m :: l2)). reflexivity.
  - rewrite (Hgo (x :: r ++ TMissing m :: l2)), (Hgo (x :: r ++ l2)), IH. reflexivity.
Qed.

Fixpoint walk_list_a (act : walk_error_action) (l : list tree) : list chunk * bool :=
  match l with
  | [] => ([], true)
  | x :: r => let '(a, ok) := walk_a act x in
              if ok then let '(b, ok') := walk_list_a act r in (a ++ b, ok')
              else if skippable act x then walk_list_a act r else (a, false)
  end.

Lemma walk_a_dir act n ch : walk_a act (TDir n ch) = let '(b, ok) := walk_list_a act ch in (CDir n :: b, ok).
Proof.
  cbn [walk_a].
  replace ((fix go (l : list tree) : list chunk * bool :=
              match l with
              | [] => ([], true)
              | x :: r => let '(a, ok) := walk_a act x in
                          if ok then let '(b, ok') := go r in (a ++ b, ok')
                          else if skippable act x then go r else (a, false)
              end) ch) with (walk_list_a act ch); [reflexivity|].
  induction ch as [|x r IH]; cbn [walk_list_a]; [reflexivity|]. rewrite IH. reflexivity.
Qed.

Theorem skip_enoent_drops_entry n m l1 l2 :
  walk_a WSkipEnoent (TDir n (l1 ++ TMissing m :: l2)) = walk_a WSkipEnoent (TDir n (l1 ++ l2)).
Proof.
  rewrite !walk_a_dir. rewrite (skip_list_drops (walk_list_a WSkipEnoent) m l1 l2); [reflexivity|].
  intro l. destruct l; reflexivity.
Qed.

(* on intact trees the action is irrelevant *)
Definition indep_spec (t : tree) : Prop := healthy t = true -> forall act, walk_a act t = walk_a WHalt t.

Lemma walk_list_a_indep l : Forall indep_spec l -> forallb healthy l = true ->
  forall act, walk_list_a act l = walk_list_a WHalt l.
Proof.
  induction 1 as [|x r Hx Hr IH]; cbn [forallb]; intros Hh act; [reflexivity|].
  apply andb_prop in Hh. destruct Hh as [H1 H2]. cbn [walk_list_a].
  rewrite (Hx H1 act), (IH H2 act).
  pose proof (walk_len x H1) as [Ok _]. rewrite walk_halt in Ok.
  destruct (walk_a WHalt x) as [a ok]. cbn [snd] in Ok. subst ok. reflexivity.
Qed.

Lemma walk_a_indep t : indep_spec t.
Proof.
  induction t as [n c|n t|n ch IH|n|n sz g|n] using tree_ind'; unfold indep_spec; cbn [healthy]; try discriminate;
    try (intros _ act; reflexivity).
  intros Hh act. rewrite !walk_a_dir, (walk_list_a_indep ch IH Hh act). reflexivity.
Qed.

(* the skipping walk of a directory in which one listed entry has vanished writes the complete,
   well-formed archive of the directory WITHOUT that entry and reports success *)
Theorem skip_enoent_publishes n m l1 l2 :
  forallb healthy (l1 ++ l2) = true ->
  write_a WSkipEnoent [TDir n (l1 ++ TMissing m :: l2)] = write [TDir n (l1 ++ l2)]
  /\ snd (write [TDir n (l1 ++ l2)]) = true
  /\ all_healthy [TDir n (l1 ++ TMissing m :: l2)] = false.
Proof.
  intro Hh. split; [|split].
  - rewrite write_halt. cbn [write_a]. rewrite skip_enoent_drops_entry.
    rewrite (walk_a_indep (TDir n (l1 ++ l2)) Hh WSkipEnoent). reflexivity.
  - apply write_length. cbn [all_healthy forallb healthy]. rewrite Hh. reflexivity.
  - cbn [all_healthy forallb healthy]. rewrite forallb_app. cbn [forallb healthy].
    rewrite andb_false_r. reflexivity.
Qed.
