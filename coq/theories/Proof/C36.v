(* C36 - proofs: the model of the label filter computes the documented rule (Proof/C36_spec.v). *)
From Coq Require Import String.
From PlzV Require Import Base.Harness Base.StrFacts Gen.LabelFilter Model.C36 Proof.C36_spec.
From Coq Require Import Lia Permutation List.
Local Open Scope list_scope.

(* ---- the literals of the source are the documented ones ------------------------------------------------- *)
Lemma gen_wildcard : wildcard_byte = STAR. Proof. reflexivity. Qed.
Lemma gen_separator : group_separator_byte = COMMA. Proof. reflexivity. Qed.
Lemma gen_implicit : lit implicit_test_label = s "test". Proof. reflexivity. Qed.
Lemma gen_all_sub : lit all_subpackages_name = s "...". Proof. reflexivity. Qed.
Lemma gen_all_targets : lit all_targets_name = s "all". Proof. reflexivity. Qed.
Lemma gen_pkg_sep : package_separator_byte = SLASH. Proof. reflexivity. Qed.
Lemma gen_looks :
  looks_like_prefixes = ["//"; ":"]%string /\ looks_like_subrepo_prefix = "@"%string
  /\ looks_like_subrepo_rune = ":"%string /\ looks_like_subrepo_infix = "//"%string.
Proof. repeat split. Qed.

(* packageKey.String(): the PackageMap key of a subrepo package is `@sub//pkg`, of a host package its name *)
Lemma gen_package_key p :
  pkg_key p = if is_nil (p_sub p) then p_name p else s "@" ++ p_sub p ++ s "//" ++ p_name p.
Proof. unfold pkg_key. destruct (is_nil (p_sub p)); reflexivity. Qed.

(* ---- strings ------------------------------------------------------------------------------------------ *)
Lemma has_prefix_spec pre x : has_prefix pre x = true <-> exists rest, x = pre ++ rest.
Proof.
  revert x; induction pre as [|a pre IH]; intros x; cbn [has_prefix].
  - split; [intros _; exists x; reflexivity | reflexivity].
  - destruct x as [|b x].
    + split; [discriminate | intros [rest H]; discriminate].
    + rewrite andb_true_iff, N.eqb_eq, IH. split.
      * intros [-> [rest ->]]. exists rest. reflexivity.
      * intros [rest H]. cbn in H. injection H as -> ->. split; [reflexivity | exists rest; reflexivity].
Qed.

Lemma has_suffix_one x c : has_suffix x [c] = true <-> exists stem, x = stem ++ [c].
Proof.
  unfold has_suffix. cbn [rev app]. rewrite has_prefix_spec. split.
  - intros [rest H]. exists (rev rest). rewrite <- (rev_involutive x), H. cbn [app rev]. reflexivity.
  - intros [stem ->]. exists (rev stem). rewrite rev_app_distr. reflexivity.
Qed.

Lemma contains_spec x sub : contains x sub = true <-> exists a b, x = a ++ sub ++ b.
Proof.
  induction x as [|c x IH]; cbn [contains]; rewrite orb_true_iff, has_prefix_spec.
  - split.
    + intros [[rest H] | H]; [|discriminate]. exists [], rest. exact H.
    + intros [a [b H]]. left. destruct a as [|? a]; [|discriminate]. exists b. exact H.
  - rewrite IH. split.
    + intros [[rest H] | [a [b H]]].
      * exists [], rest. exact H.
      * exists (c :: a), b. cbn [app]. rewrite H. reflexivity.
    + intros [a [b H]]. destruct a as [|c' a].
      * left. exists b. exact H.
      * right. cbn [app] in H. injection H as _ H. exists a, b. exact H.
Qed.

(* ---- match / HasLabel ----------------------------------------------------------------------------------- *)
Lemma match_spec p l : match_ p l = true <-> label_matches p l.
Proof.
  unfold match_, label_matches. destruct (str_eqb_spec p l) as [->|Hne].
  - split; [left; reflexivity | reflexivity].
  - rewrite gen_wildcard.
    destruct (has_suffix p [STAR] && has_prefix (removelast p) l) eqn:E.
    + split; [intros _|reflexivity]. apply andb_true_iff in E as [E1 E2].
      apply has_suffix_one in E1 as [stem ->]. rewrite removelast_last in E2.
      apply has_prefix_spec in E2 as [rest ->]. right. exists stem, rest. split; reflexivity.
    + split; [discriminate|]. intros [H | [stem [rest [Hp Hl]]]]; [contradiction|].
      subst p l. rewrite <- E. apply andb_true_iff. split.
      * apply has_suffix_one. exists stem. reflexivity.
      * rewrite removelast_last. apply has_prefix_spec. exists rest. reflexivity.
Qed.

Lemma any_match_spec p ls : any_match p ls = true <-> exists l, In l ls /\ label_matches p l.
Proof.
  induction ls as [|l ls IH]; cbn [any_match].
  - split; [discriminate | intros [l [[] _]]].
  - destruct (match_ p l) eqn:E.
    + split; [intros _|reflexivity]. exists l. split; [left; reflexivity | apply match_spec; exact E].
    + rewrite IH. split.
      * intros [l' [Hin Hm]]. exists l'. split; [right; exact Hin | exact Hm].
      * intros [l' [[<-|Hin] Hm]].
        -- apply match_spec in Hm. congruence.
        -- exists l'. split; assumption.
Qed.

(* HasLabel: the target carries a label the given one matches (the implicit `test` label included) *)
Lemma has_label_spec t p : has_label t p = true <-> carries_label t p.
Proof.
  unfold has_label, carries_label, carried. destruct (any_match p (t_labels t)) eqn:E.
  - split; [intros _|reflexivity]. apply any_match_spec in E as [l [Hin Hm]].
    exists l. split; [left; exact Hin | exact Hm].
  - rewrite andb_true_iff, gen_implicit, match_spec. split.
    + intros [Ht Hm]. exists (s "test"). split; [right; split; [exact Ht | reflexivity] | exact Hm].
    + intros [l [[Hin | [Ht ->]] Hm]].
      * assert (any_match p (t_labels t) = true) by (apply any_match_spec; exists l; split; assumption). congruence.
      * split; assumption.
Qed.

(* ---- groups --------------------------------------------------------------------------------------------- *)
Lemma split_on_nonempty sep x : split_on sep x <> [].
Proof.
  induction x as [|c x IH]; cbn [split_on]; [discriminate|].
  destruct (N.eqb c sep); [discriminate|]. destruct (split_on sep x); discriminate.
Qed.

Lemma join_cons p q r : join_comma (p :: q :: r) = p ++ COMMA :: join_comma (q :: r).
Proof. reflexivity. Qed.

Lemma split_is_group g : is_group g (split_on COMMA g).
Proof.
  unfold is_group. split; [apply split_on_nonempty|].
  induction g as [|c g [IH1 IH2]]; cbn [split_on].
  - split; [constructor; [intros []|constructor] | reflexivity].
  - destruct (N.eqb_spec c COMMA) as [->|Hne].
    + split.
      * constructor; [intros []|exact IH1].
      * pose proof (split_on_nonempty COMMA g) as Hn. destruct (split_on COMMA g) as [|h r] eqn:E; [contradiction|].
        rewrite join_cons, IH2. reflexivity.
    + pose proof (split_on_nonempty COMMA g) as Hn. destruct (split_on COMMA g) as [|h r] eqn:E; [contradiction|].
      inversion IH1 as [|? ? Hh Hr]; subst. split.
      * constructor; [|exact Hr]. intros [Hc|Hc]; [congruence | exact (Hh Hc)].
      * destruct r as [|q r].
        -- reflexivity.
        -- reflexivity.
Qed.

Lemma split_no_comma p : ~ In COMMA p -> split_on COMMA p = [p].
Proof.
  induction p as [|c p IH]; intros Hn; cbn [split_on]; [reflexivity|].
  destruct (N.eqb_spec c COMMA) as [->|Hne]; [exfalso; apply Hn; left; reflexivity|].
  rewrite IH; [reflexivity|]. intros H; apply Hn; right; exact H.
Qed.

Lemma split_app_comma p x : ~ In COMMA p -> split_on COMMA (p ++ COMMA :: x) = p :: split_on COMMA x.
Proof.
  induction p as [|c p IH]; intros Hn; cbn [app split_on].
  - rewrite N.eqb_refl. reflexivity.
  - destruct (N.eqb_spec c COMMA) as [->|Hne]; [exfalso; apply Hn; left; reflexivity|].
    rewrite IH; [reflexivity|]. intros H; apply Hn; right; exact H.
Qed.

Lemma group_unique g pieces : is_group g pieces -> pieces = split_on COMMA g.
Proof.
  intros [Hne [Hall <-]]. induction pieces as [|p r IH]; [contradiction|].
  inversion Hall as [|? ? Hp Hr]; subst. destruct r as [|q r].
  - cbn [join_comma]. rewrite split_no_comma; [reflexivity | exact Hp].
  - rewrite join_cons, split_app_comma by exact Hp. f_equal. apply IH; [discriminate | exact Hr].
Qed.

Lemma has_all_labels_spec t ps : has_all_labels t ps = true <-> Forall (fun p => has_label t p = true) ps.
Proof.
  induction ps as [|p ps IH]; cbn [has_all_labels].
  - split; [constructor | reflexivity].
  - destruct (has_label t p) eqn:E; cbn [negb].
    + rewrite IH. split; [intros H; constructor; assumption | intros H; inversion H; assumption].
    + split; [discriminate | intros H; inversion H; congruence].
Qed.

(* HasAllLabels(strings.Split(g, ",")) *)
Lemma group_carried t g : has_all_labels t (group g) = true <-> carries_group t g.
Proof.
  unfold group, carries_group. rewrite gen_separator, has_all_labels_spec. split.
  - intros H. exists (split_on COMMA g). split; [apply split_is_group|].
    rewrite Forall_forall in *. intros p Hp. apply has_label_spec. apply H; exact Hp.
  - intros [pieces [Hg H]]. apply group_unique in Hg. subst pieces.
    rewrite Forall_forall in *. intros p Hp. apply has_label_spec. apply H; exact Hp.
Qed.

Lemma some_group_spec t gs : some_group t gs = true <-> exists g, In g gs /\ has_all_labels t (group g) = true.
Proof.
  induction gs as [|g gs IH]; cbn [some_group].
  - split; [discriminate | intros [g [[] _]]].
  - destruct (has_all_labels t (group g)) eqn:E.
    + split; [intros _; exists g; split; [left; reflexivity | exact E] | reflexivity].
    + rewrite IH. split.
      * intros [g' [Hin H]]. exists g'. split; [right; exact Hin | exact H].
      * intros [g' [[<-|Hin] H]]; [congruence | exists g'; split; assumption].
Qed.

(* BuildTarget.ShouldInclude *)
Lemma target_should_include_spec t incs excs :
  target_should_include t incs excs = true <->
  (incs = [] \/ exists g, In g incs /\ has_all_labels t (group g) = true)
  /\ ~ (exists g, In g excs /\ has_all_labels t (group g) = true).
Proof.
  unfold target_should_include. rewrite <- !some_group_spec.
  destruct incs as [|i incs]; cbn [is_nil andb].
  - destruct excs as [|e excs]; cbn [is_nil].
    + split; [intros _; split; [left; reflexivity | cbn; discriminate] | reflexivity].
    + destruct (some_group t (e :: excs)) eqn:E.
      * split; [discriminate | intros [_ H]; exfalso; apply H; reflexivity].
      * cbn [some_group]. split; [intros _; split; [left; reflexivity | discriminate] | reflexivity].
  - destruct (some_group t excs) eqn:E.
    + split; [discriminate | intros [_ H]; exfalso; apply H; reflexivity].
    + destruct (some_group t (i :: incs)) eqn:E2.
      * split; [intros _; split; [right; reflexivity | discriminate] | reflexivity].
      * split; [discriminate | intros [[H|H] _]; [discriminate | exact H]].
Qed.

(* ---- build expressions ---------------------------------------------------------------------------------- *)
Lemma includes_spec e that : includes e that = true <-> denotes_names e that.
Proof.
  unfold includes, denotes_names, is_all_subpackages, is_all_targets. rewrite gen_all_sub, gen_all_targets, gen_pkg_sep.
  destruct (str_eqb_spec (l_name e) (s "...")) as [Hsub|Hsub];
  destruct (str_eqb_spec (l_pkg e) []) as [Hroot|Hroot];
  destruct (str_eqb_spec (l_pkg that) (l_pkg e)) as [Hpkg|Hpkg];
  destruct (str_eqb_spec (l_pkg e) (l_pkg that)) as [Hpkg'|Hpkg']; try congruence;
  destruct (str_eqb_spec (l_name e) (l_name that)) as [Hname|Hname];
  destruct (str_eqb_spec (l_name e) (s "all")) as [Hall|Hall];
  destruct (has_prefix (l_pkg e ++ [SLASH]) (l_pkg that)) eqn:Hpre;
  cbn [andb orb]; try (split; [intros _|reflexivity]); try (split; [discriminate|]);
  try (left; split; [assumption|]; auto; fail);
  try (right; left; split; assumption);
  try (right; right; split; congruence).
  all: try (left; split; [assumption|]; right; right;
            apply has_prefix_spec in Hpre as [rest Hrest]; exists rest; rewrite Hrest, <- app_assoc; reflexivity).
  all: intros [[H1 H2] | [[H1 H2] | [H1 H2]]]; try congruence.
  all: try (destruct H2 as [H2 | [H2 | [rest H2]]]; try congruence;
            assert (Hx : has_prefix (l_pkg e ++ [SLASH]) (l_pkg that) = true)
              by (apply has_prefix_spec; exists rest; rewrite H2, <- app_assoc; reflexivity); congruence).
Qed.

Lemma any_includes_spec ets l : any_includes ets l = true <-> exists e, In e ets /\ denotes_names e l.
Proof.
  induction ets as [|e ets IH]; cbn [any_includes].
  - split; [discriminate | intros [e [[] _]]].
  - destruct (includes e l) eqn:E.
    + split; [intros _; exists e; split; [left; reflexivity | apply includes_spec; exact E] | reflexivity].
    + rewrite IH. split.
      * intros [e' [Hin H]]. exists e'. split; [right; exact Hin | exact H].
      * intros [e' [[<-|Hin] H]]; [apply includes_spec in H; congruence | exists e'; split; assumption].
Qed.

Lemma looks_like_spec x : looks_like_label x = true <-> is_expression x.
Proof.
  unfold looks_like_label, is_expression. destruct gen_looks as [-> [-> [-> ->]]].
  cbn [existsb]. rewrite !orb_true_iff, andb_true_iff, orb_true_iff, !has_prefix_spec, !contains_spec.
  unfold lit. intuition discriminate.
Qed.

(* ---- SetIncludeAndExclude ------------------------------------------------------------------------------- *)
Lemma set_exclude_loop_spec cur exclude : forall exc ets exc' ets',
  set_exclude_loop cur exclude exc ets = Some (exc', ets') ->
  (forall g, In g exc' <-> In g exc \/ (In g exclude /\ looks_like_label g = false))
  /\ (forall e, In e ets' <-> In e ets \/ exists x, In x exclude /\ looks_like_label x = true /\ parse_exclude cur x = Some e).
Proof.
  induction exclude as [|x exclude IH]; intros exc ets exc' ets' H; cbn [set_exclude_loop] in H.
  - injection H as <- <-. split; intros y; split; auto.
    + intros [Hy | [[] _]]; exact Hy.
    + intros [Hy | [x [[] _]]]; exact Hy.
  - destruct (looks_like_label x) eqn:El.
    + destruct (parse_exclude cur x) as [l|] eqn:Ep; [|discriminate].
      apply IH in H as [H1 H2]. split.
      * intros g. rewrite H1. split.
        -- intros [Hg | [Hg Hl]]; [left; exact Hg | right; split; [right; exact Hg | exact Hl]].
        -- intros [Hg | [[<-|Hg] Hl]]; [left; exact Hg | congruence | right; split; assumption].
      * intros e. rewrite H2, in_app_iff. split.
        -- intros [[He | [<-|[]]] | [y [Hy [Hl Hp]]]].
           ++ left; exact He.
           ++ right. exists x. repeat split; [left; reflexivity | exact El | exact Ep].
           ++ right. exists y. repeat split; [right; exact Hy | exact Hl | exact Hp].
        -- intros [He | [y [[<-|Hy] [Hl Hp]]]].
           ++ left; left; exact He.
           ++ left; right; left. congruence.
           ++ right. exists y. repeat split; assumption.
    + apply IH in H as [H1 H2]. split.
      * intros g. rewrite H1, in_app_iff. split.
        -- intros [[Hg | [<-|[]]] | [Hg Hl]].
           ++ left; exact Hg.
           ++ right. split; [left; reflexivity | exact El].
           ++ right. split; [right; exact Hg | exact Hl].
        -- intros [Hg | [[<-|Hg] Hl]].
           ++ left; left; exact Hg.
           ++ left; right; left; reflexivity.
           ++ right. split; assumption.
      * intros e. rewrite H2. split.
        -- intros [He | [y [Hy [Hl Hp]]]]; [left; exact He | right; exists y; repeat split; [right; exact Hy | exact Hl | exact Hp]].
        -- intros [He | [y [[<-|Hy] [Hl Hp]]]]; [left; exact He | congruence | right; exists y; repeat split; assumption].
Qed.

Lemma set_include_and_exclude_spec cur include exclude st :
  set_include_and_exclude cur empty_state include exclude = Some st ->
  st_include st = include
  /\ (forall g, In g (st_exclude st) <-> In g exclude /\ ~ is_expression g)
  /\ (forall e, In e (st_exclude_targets st) <-> exists x, In x exclude /\ is_expression x /\ parse_exclude cur x = Some e).
Proof.
  unfold set_include_and_exclude. cbn [st_exclude_targets empty_state].
  destruct (set_exclude_loop cur exclude [] []) as [[exc ets]|] eqn:E; [|discriminate].
  intros H. injection H as <-. cbn [st_include st_exclude st_exclude_targets].
  apply set_exclude_loop_spec in E as [H1 H2]. split; [reflexivity|]. split.
  - intros g. rewrite H1, <- looks_like_spec. split.
    + intros [[] | [Hg Hl]]. split; [exact Hg | congruence].
    + intros [Hg Hl]. right. split; [exact Hg|]. destruct (looks_like_label g); [exfalso; apply Hl; reflexivity | reflexivity].
  - intros e. rewrite H2. split.
    + intros [[] | [x [Hx [Hl Hp]]]]. exists x. rewrite <- looks_like_spec. repeat split; assumption.
    + intros [x [Hx [Hl Hp]]]. right. exists x. rewrite looks_like_spec. repeat split; assumption.
Qed.

(* ---- BuildState.ShouldInclude: the per-target theorems -------------------------------------------------- *)
Lemma confused_false st t :
  confused st t = false <->
  forall e, In e (st_exclude_targets st) -> denotes_names e (t_label t) -> l_sub (t_label t) = l_sub e.
Proof.
  unfold confused. split.
  - intros H e He Hd. destruct (str_eqb_spec (l_sub e) (t_sub t)) as [Heq|Hne]; [symmetry; exact Heq|].
    exfalso. assert (Hx : existsb (fun e => includes e (t_label t) && negb (str_eqb (l_sub e) (t_sub t))) (st_exclude_targets st) = true).
    { apply existsb_exists. exists e. split; [exact He|]. apply andb_true_iff. split.
      - apply includes_spec. exact Hd.
      - destruct (str_eqb_spec (l_sub e) (t_sub t)); [contradiction | reflexivity]. }
    congruence.
  - intros H. destruct (existsb _ _) eqn:E; [|reflexivity]. exfalso.
    apply existsb_exists in E as [e [He Hc]]. apply andb_true_iff in Hc as [Hi Hs].
    apply includes_spec in Hi. specialize (H e He Hi). cbn [t_label l_sub] in H.
    destruct (str_eqb_spec (l_sub e) (t_sub t)) as [Heq|Hne]; [discriminate | congruence].
Qed.

(* sound, always: what BuildState.ShouldInclude accepts is selected by the documented rule *)
Lemma state_should_include_sound cur include exclude st t :
  set_include_and_exclude cur empty_state include exclude = Some st ->
  state_should_include st t = true -> selected cur include exclude t.
Proof.
  intros Hset. apply set_include_and_exclude_spec in Hset as [Hinc [Hexc Hets]].
  unfold state_should_include, selected.
  destruct (any_includes (st_exclude_targets st) (t_label t)) eqn:Ea; [discriminate|].
  rewrite target_should_include_spec, Hinc.
  intros [H1 H2]. split; [|split].
  - destruct H1 as [H1 | [g [Hin H1]]]; [left; exact H1 | right]. exists g. split; [exact Hin|].
    apply group_carried. exact H1.
  - intros x Hx Hne Hc. apply H2. exists x. split; [apply Hexc; split; assumption|].
    apply group_carried. exact Hc.
  - intros x e Hx Hl Hp [_ Hd]. assert (any_includes (st_exclude_targets st) (t_label t) = true); [|congruence].
    apply any_includes_spec. exists e. split; [apply Hets; exists x; repeat split; assumption | exact Hd].
Qed.

(* complete, outside the defect class: no exclude expression of another repository covers the target's names *)
Lemma state_should_include_complete cur include exclude st t :
  set_include_and_exclude cur empty_state include exclude = Some st ->
  confused st t = false ->
  selected cur include exclude t -> state_should_include st t = true.
Proof.
  intros Hset Hconf. pose proof (proj1 (confused_false st t) Hconf) as Hc.
  apply set_include_and_exclude_spec in Hset as [Hinc [Hexc Hets]].
  unfold state_should_include, selected.
  destruct (any_includes (st_exclude_targets st) (t_label t)) eqn:Ea.
  - intros [_ [_ H3]]. apply any_includes_spec in Ea as [e [He Hd]].
    pose proof (Hc e He Hd) as Hsub.
    apply Hets in He as [x [Hx [Hl Hp]]]. exfalso. exact (H3 x e Hx Hl Hp (conj Hsub Hd)).
  - rewrite target_should_include_spec, Hinc.
    intros [H1 [H2 _]]. split.
    + destruct H1 as [H1 | [g [Hin H1]]]; [left; exact H1 | right]. exists g. split; [exact Hin|].
      apply group_carried. exact H1.
    + intros [g [Hin Hcg]]. apply Hexc in Hin as [Hin Hne]. apply (H2 g Hin Hne).
      apply group_carried. exact Hcg.
Qed.

Lemma state_should_include_spec cur include exclude st t :
  set_include_and_exclude cur empty_state include exclude = Some st ->
  confused st t = false ->
  (state_should_include st t = true <-> selected cur include exclude t).
Proof.
  intros Hset Hc. split; [apply state_should_include_sound; exact Hset | apply state_should_include_complete; assumption].
Qed.

(* exclusion always takes priority: an exclude argument that covers the target rejects it whatever the includes *)
Lemma exclusion_wins cur include exclude st t :
  set_include_and_exclude cur empty_state include exclude = Some st ->
  excluded cur exclude t -> state_should_include st t = false.
Proof.
  intros Hset [x [Hx Hc]]. destruct (state_should_include st t) eqn:E; [|reflexivity].
  apply (state_should_include_sound _ _ _ _ t Hset) in E. destruct E as [_ [H2 H3]].
  destruct Hc as [[Hne Hc] | [Hl [e [Hp Hd]]]]; exfalso; [exact (H2 x Hx Hne Hc) | exact (H3 x e Hx Hl Hp Hd)].
Qed.

Lemma no_filters_selects_all cur st t :
  set_include_and_exclude cur empty_state [] [] = Some st -> state_should_include st t = true.
Proof. intros H. injection H as <-. reflexivity. Qed.

(* ---- expansion of :all and /... ------------------------------------------------------------------------- *)
Lemma insert_in l x ls : In x (insert l ls) <-> x = l \/ In x ls.
Proof.
  induction ls as [|h r IH]; cbn [insert].
  - split; [intros [<-|[]]; left; reflexivity | intros [->|[]]; left; reflexivity].
  - destruct (label_less l h); cbn [In].
    + split; [intros [<-|H]; [left; reflexivity | right; exact H] | intros [->|H]; [left; reflexivity | right; exact H]].
    + rewrite IH. split.
      * intros [H | [H | H]]; [right; left; exact H | left; exact H | right; right; exact H].
      * intros [H | [H | H]]; [right; left; exact H | left; exact H | right; right; exact H].
Qed.

Lemma insert_perm l ls : Permutation (l :: ls) (insert l ls).
Proof.
  induction ls as [|h r IH]; cbn [insert]; [reflexivity|].
  destruct (label_less l h); [reflexivity|]. rewrite perm_swap. constructor. exact IH.
Qed.

Lemma sort_perm ls : Permutation ls (sort_labels ls).
Proof.
  induction ls as [|l ls IH]; cbn [sort_labels fold_right]; [constructor|].
  rewrite <- insert_perm. constructor. exact IH.
Qed.

Lemma sort_in x ls : In x (sort_labels ls) <-> In x ls.
Proof. split; apply Permutation_in; [symmetry|]; apply sort_perm. Qed.

Lemma add_package_in st jt p lbl :
  In lbl (add_package st jt p) <->
  exists t, In t (p_targets p) /\ t_label t = lbl /\ state_should_include st t = true /\ (jt = true -> t_test t = true).
Proof.
  unfold add_package. rewrite in_map_iff. split.
  - intros [t [Hl Hin]]. apply filter_In in Hin as [Hin Hf]. apply andb_true_iff in Hf as [H1 H2].
    exists t. repeat split; try assumption. intros ->. cbn in H2. exact H2.
  - intros [t [Hin [Hl [H1 H2]]]]. exists t. split; [exact Hl|]. apply filter_In. split; [exact Hin|].
    rewrite H1. destruct jt; cbn; [apply H2; reflexivity | reflexivity].
Qed.

(* the printed key identifies the package: equal (subrepo, name) give equal keys *)
Lemma find_unique (g : graph) p :
  NoDup (map pkg_key g) -> In p g ->
  find (fun q => str_eqb (p_name q) (p_name p) && str_eqb (p_sub q) (p_sub p)) g = Some p.
Proof.
  induction g as [|q g IH]; intros Hnd Hin; [destruct Hin|]. cbn [find map] in *.
  inversion Hnd as [|? ? Hq Hnd']; subst. destruct Hin as [->|Hin].
  - rewrite !str_eqb_refl. reflexivity.
  - destruct (str_eqb_spec (p_name q) (p_name p)) as [E|E]; [|apply IH; assumption].
    destruct (str_eqb_spec (p_sub q) (p_sub p)) as [E2|E2]; [|apply IH; assumption].
    exfalso. apply Hq. assert (Hk : pkg_key q = pkg_key p) by (unfold pkg_key; rewrite E, E2; reflexivity).
    rewrite Hk. apply in_map. exact Hin.
Qed.

(* what the code ranges over for a requested pseudo label:
   `:all` - the package with that name and subrepo (PackageByLabel);
   `...`  - every package whose PackageMap key the label Includes (the label's Subrepo is not looked at) *)
Definition code_covers (L : label) (p : package) : Prop :=
  (l_name L = s "all" /\ p_name p = l_pkg L /\ p_sub p = l_sub L)
  \/ (l_name L = s "..." /\ (l_pkg L = [] \/ pkg_key p = l_pkg L \/ exists rest, pkg_key p = l_pkg L ++ SLASH :: rest)).

Lemma covers_pseudo_spec L pkgname :
  is_all_targets L = false ->
  is_pseudo L = true ->
  (includes L {| l_sub := []; l_pkg := pkgname; l_name := [] |} = true <->
   l_name L = s "..." /\ (l_pkg L = [] \/ pkgname = l_pkg L \/ exists rest, pkgname = l_pkg L ++ SLASH :: rest)).
Proof.
  intros Hall Hps. unfold is_pseudo in Hps. rewrite Hall, orb_false_r in Hps.
  unfold is_all_subpackages, is_all_targets in *. rewrite gen_all_sub in Hps. rewrite gen_all_targets in Hall.
  apply str_eqb_eq in Hps. apply str_eqb_neq in Hall.
  rewrite includes_spec. unfold denotes_names. cbn [l_pkg l_name]. split.
  - intros [[_ H] | [[H _] | [_ H]]]; [split; assumption | contradiction|].
    rewrite Hps in H. discriminate.
  - intros [_ H]. left. split; assumption.
Qed.

(* per requested pseudo label: the expansion is exactly the set of targets of the packages the code ranges over that
   BuildState.ShouldInclude accepts (and that are tests when only tests are wanted) *)
Lemma expand_pseudo_in st g L jt lbl :
  NoDup (map pkg_key g) -> is_pseudo L = true ->
  (In lbl (expand_pseudo st g L jt) <->
   exists p t, In p g /\ code_covers L p /\ In t (p_targets p) /\ t_label t = lbl
               /\ (jt = true -> t_test t = true) /\ state_should_include st t = true).
Proof.
  intros Hnd Hps. unfold expand_pseudo. rewrite sort_in.
  destruct (is_all_targets L) eqn:Hall.
  - assert (HallP : l_name L = s "all").
    { unfold is_all_targets in Hall. rewrite gen_all_targets in Hall. apply str_eqb_eq. exact Hall. }
    unfold package_by_label. split.
    + destruct (find _ g) as [p|] eqn:Ef; [|intros []]. intros Hin.
      apply find_some in Ef as [Hp Hn]. apply andb_true_iff in Hn as [Hn Hs]. apply str_eqb_eq in Hn, Hs.
      apply add_package_in in Hin as [t [Ht [Hl [Hsi Hj]]]].
      exists p, t. repeat split; try assumption. left. repeat split; assumption.
    + intros [p [t [Hp [Hc [Ht [Hl [Hj Hsi]]]]]]].
      assert (Hn : p_name p = l_pkg L /\ p_sub p = l_sub L).
      { destruct Hc as [[_ H] | [H _]]; [exact H | rewrite HallP in H; discriminate]. }
      destruct Hn as [Hn Hs]. rewrite <- Hn, <- Hs, (find_unique g p Hnd Hp).
      apply add_package_in. exists t. repeat split; assumption.
  - assert (Hnall : l_name L <> s "all").
    { unfold is_all_targets in Hall. rewrite gen_all_targets in Hall. apply str_eqb_neq. exact Hall. }
    rewrite in_flat_map. split.
    + intros [p [Hp Hin]]. destruct (includes L _) eqn:Ei; [|destruct Hin].
      apply (covers_pseudo_spec L (pkg_key p) Hall Hps) in Ei.
      apply add_package_in in Hin as [t [Ht [Hl [Hsi Hj]]]]. exists p, t. repeat split; try assumption.
      right. exact Ei.
    + intros [p [t [Hp [Hc [Ht [Hl [Hj Hsi]]]]]]]. exists p. split; [exact Hp|].
      destruct Hc as [[H _] | Hc]; [contradiction|].
      apply (covers_pseudo_spec L (pkg_key p) Hall Hps) in Hc. rewrite Hc.
      apply add_package_in. exists t. repeat split; assumption.
Qed.

(* where the code's range and the documented range of a pseudo label coincide: always for `:all`; for `...` when label
   and graph are of the host repository *)
Lemma code_covers_spec g L p :
  is_pseudo L = true -> In p g ->
  (is_all_targets L = true \/ host_only g L) ->
  (code_covers L p <-> covers L p).
Proof.
  intros Hps Hp Hok. unfold code_covers, covers, covers_names.
  destruct Hok as [Hall | [HL Hg]].
  - unfold is_all_targets in Hall. rewrite gen_all_targets in Hall. apply str_eqb_eq in Hall. split.
    + intros [[_ [H1 H2]] | [H _]]; [|rewrite Hall in H; discriminate].
      split; [exact H2 | left; split; assumption].
    + intros [H2 [[_ H1] | [H _]]]; [|rewrite Hall in H; discriminate].
      left. repeat split; assumption.
  - assert (Hk : pkg_key p = p_name p) by (unfold pkg_key; rewrite (Hg p Hp); reflexivity).
    rewrite Hk, HL, (Hg p Hp). split.
    + intros [[H1 [H2 _]] | H]; (split; [reflexivity|]); [left; split; assumption | right; exact H].
    + intros [_ [[H1 H2] | H]]; [left; repeat split; assumption | right; exact H].
Qed.

Lemma nodup_app {A} (a b : list A) : NoDup a -> NoDup b -> (forall x, In x a -> ~ In x b) -> NoDup (a ++ b).
Proof.
  intros Ha Hb Hd. induction a as [|x a IH]; cbn [app]; [exact Hb|].
  inversion Ha as [|? ? Hx Ha']; subst. constructor.
  - rewrite in_app_iff. intros [H|H]; [exact (Hx H) | exact (Hd x (or_introl eq_refl) H)].
  - apply IH; [exact Ha'|]. intros y Hy. apply Hd. right. exact Hy.
Qed.

(* no target is listed twice *)
Lemma t_label_inj_in_package p :
  NoDup (map t_name (p_targets p)) ->
  forall f, NoDup (map t_label (filter f (p_targets p))).
Proof.
  intros Hnd f. induction (p_targets p) as [|t ts IH]; cbn [filter map]; [constructor|].
  cbn [map] in Hnd. inversion Hnd as [|? ? Hn Hnd']; subst.
  destruct (f t); [|apply IH; exact Hnd']. cbn [map]. constructor; [|apply IH; exact Hnd'].
  intros Hin. apply in_map_iff in Hin as [t' [Hl Hin]]. apply filter_In in Hin as [Hin _].
  apply Hn. apply in_map_iff. exists t'. split; [|exact Hin]. unfold t_label in Hl. congruence.
Qed.

Lemma add_package_pkg st jt p lbl :
  (forall t, In t (p_targets p) -> t_pkg t = p_name p /\ t_sub t = p_sub p) -> In lbl (add_package st jt p) ->
  l_pkg lbl = p_name p /\ l_sub lbl = p_sub p.
Proof.
  intros Hw Hin. apply add_package_in in Hin as [t [Ht [<- _]]]. cbn [t_label l_pkg l_sub]. apply Hw. exact Ht.
Qed.

Lemma expand_pseudo_nodup st g L jt : wf_graph g -> NoDup (expand_pseudo st g L jt).
Proof.
  intros [Hnd Hw]. unfold expand_pseudo. eapply Permutation_NoDup; [apply sort_perm|].
  destruct (is_all_targets L).
  - unfold package_by_label. destruct (find _ g) as [p|] eqn:Ef; [|constructor].
    apply find_some in Ef as [Hp _]. destruct (Hw p Hp) as [H1 H2]. apply t_label_inj_in_package; assumption.
  - induction g as [|p g IH]; cbn [flat_map]; [constructor|].
    cbn [map] in Hnd. inversion Hnd as [|? ? Hn Hnd']; subst.
    assert (Hw' : forall q, In q g -> NoDup (map t_name (p_targets q))
                                     /\ forall t, In t (p_targets q) -> t_pkg t = p_name q /\ t_sub t = p_sub q)
      by (intros q Hq; apply Hw; right; exact Hq).
    specialize (IH Hnd' Hw'). destruct (Hw p (or_introl eq_refl)) as [H1 H2].
    assert (Hdis : forall lbl, In lbl (add_package st jt p) ->
                   ~ In lbl (flat_map (fun q => if includes L {| l_sub := []; l_pkg := pkg_key q; l_name := [] |}
                                                then add_package st jt q else []) g)).
    { intros lbl Hin Hin2. apply in_flat_map in Hin2 as [q [Hq Hin2]].
      destruct (includes L _); [|destruct Hin2].
      apply add_package_pkg in Hin as [Ha Hb]; [|exact H2].
      apply add_package_pkg in Hin2 as [Ha2 Hb2]; [|apply Hw'; exact Hq].
      apply Hn. assert (Hk : pkg_key p = pkg_key q) by (unfold pkg_key; rewrite <- Ha, <- Hb, Ha2, Hb2; reflexivity).
      rewrite Hk. apply in_map. exact Hq. }
    destruct (includes L _).
    + apply nodup_app; [apply t_label_inj_in_package; assumption | exact IH | exact Hdis].
    + exact IH.
Qed.

(* AddOriginalTarget drops a requested //pkg:all only when every target of pkg is rejected anyway *)
Lemma dropped_all_consistent st L t :
  is_all_targets L = true -> any_includes (st_exclude_targets st) L = true ->
  t_pkg t = l_pkg L -> state_should_include st t = false.
Proof.
  intros Hall Ha Hp. unfold state_should_include.
  assert (any_includes (st_exclude_targets st) (t_label t) = true) as ->; [|reflexivity].
  apply any_includes_spec in Ha as [e [He Hd]]. apply any_includes_spec. exists e. split; [exact He|].
  unfold is_all_targets in Hall. rewrite gen_all_targets in Hall. apply str_eqb_eq in Hall.
  unfold denotes_names in *. cbn [t_label l_pkg l_name]. rewrite Hp.
  destruct Hd as [H | [H | [H1 H2]]]; [left; exact H | right; left; exact H|].
  right. left. split; [congruence | exact H1].
Qed.

(* ... and, read against the documented rule: a requested :all label of the same repository as the exclude expressions
   that cover it loses no target the rule selects *)
Lemma dropped_all_loses_nothing cur include exclude st L t :
  set_include_and_exclude cur empty_state include exclude = Some st ->
  is_all_targets L = true -> any_includes (st_exclude_targets st) L = true ->
  t_pkg t = l_pkg L -> confused st t = false -> ~ selected cur include exclude t.
Proof.
  intros Hset Hall Ha Hp Hc Hsel.
  pose proof (dropped_all_consistent st L t Hall Ha Hp) as Hf.
  pose proof (state_should_include_complete _ _ _ _ t Hset Hc Hsel). congruence.
Qed.

(* ---- the set-level theorem against the documented rule -------------------------------------------------- *)
Lemma expand_pseudo_selected cur include exclude st g L jt :
  set_include_and_exclude cur empty_state include exclude = Some st ->
  wf_graph g -> is_pseudo L = true ->
  (is_all_targets L = true \/ host_only g L) ->
  (forall p t, In p g -> In t (p_targets p) -> confused st t = false) ->
  (forall lbl, In lbl (expand_pseudo st g L jt) <-> in_selection cur include exclude g L jt lbl)
  /\ NoDup (expand_pseudo st g L jt).
Proof.
  intros Hset Hwf Hps Hok Hconf. split; [|apply expand_pseudo_nodup; exact Hwf].
  intros lbl. rewrite (expand_pseudo_in st g L jt lbl (proj1 Hwf) Hps). unfold in_selection. split.
  - intros [p [t [H1 [H2 [H3 [H4 [H5 H6]]]]]]]. exists p, t. repeat split; try assumption.
    1,2: apply (code_covers_spec g L p Hps H1 Hok) in H2; apply H2.
    all: apply (state_should_include_sound _ _ _ _ t Hset) in H6; apply H6.
  - intros [p [t [H1 [H2 [H3 [H4 [H5 H6]]]]]]]. exists p, t. repeat split; try assumption.
    + apply (code_covers_spec g L p Hps H1 Hok). exact H2.
    + apply (state_should_include_complete _ _ _ _ t Hset (Hconf p t H1 H3)). exact H6.
Qed.

(* without any side condition: everything the expansion lists is in the documented selection of the packages the
   code ranges over, each once (exclusion is never lost, whatever the subrepos) *)
Lemma expand_pseudo_sound cur include exclude st g L jt lbl :
  set_include_and_exclude cur empty_state include exclude = Some st ->
  wf_graph g -> is_pseudo L = true ->
  In lbl (expand_pseudo st g L jt) ->
  exists p t, In p g /\ code_covers L p /\ In t (p_targets p) /\ t_label t = lbl
              /\ (jt = true -> t_test t = true) /\ selected cur include exclude t.
Proof.
  intros Hset Hwf Hps Hin. apply (expand_pseudo_in st g L jt lbl (proj1 Hwf) Hps) in Hin.
  destruct Hin as [p [t [H1 [H2 [H3 [H4 [H5 H6]]]]]]]. exists p, t. repeat split; try assumption.
  all: apply (state_should_include_sound _ _ _ _ t Hset) in H6; apply H6.
Qed.

(* several requested labels: pseudo labels are expanded, any other label is passed through unfiltered *)
Lemma expand_labels_in st g ls jt lbl :
  In lbl (expand_labels st g ls jt) <->
  exists L, In L ls /\ ((is_pseudo L = false /\ lbl = L) \/ (is_pseudo L = true /\ In lbl (expand_pseudo st g L jt))).
Proof.
  unfold expand_labels. rewrite in_flat_map. split.
  - intros [L [HL Hin]]. exists L. split; [exact HL|]. destruct (is_pseudo L).
    + right. split; [reflexivity | exact Hin].
    + left. destruct Hin as [<-|[]]. split; reflexivity.
  - intros [L [HL [[Hp ->] | [Hp Hin]]]]; exists L; (split; [exact HL|]); rewrite Hp; [left; reflexivity | exact Hin].
Qed.

Lemma no_filters cur include exclude st :
  set_include_and_exclude cur empty_state include exclude = Some st ->
  include = [] -> exclude = [] -> forall t, state_should_include st t = true.
Proof. intros H -> -> t. exact (no_filters_selects_all cur st t H). Qed.

(* ---- the defect class, characterised ---------------------------------------------------------------------- *)
Lemma confused_true st t :
  confused st t = true <->
  exists e, In e (st_exclude_targets st) /\ denotes_names e (t_label t) /\ l_sub e <> t_sub t.
Proof.
  unfold confused. rewrite existsb_exists. split.
  - intros [e [He Hc]]. apply andb_true_iff in Hc as [Hi Hs]. exists e. split; [exact He|]. split.
    + apply includes_spec. exact Hi.
    + apply negb_true_iff, str_eqb_neq in Hs. exact Hs.
  - intros [e [He [Hd Hs]]]. exists e. split; [exact He|]. apply andb_true_iff. split.
    + apply includes_spec. exact Hd.
    + apply negb_true_iff, str_eqb_neq. exact Hs.
Qed.

(* no exclude expression names another repository than the target's: outside the defect class *)
Lemma confused_one_repo st t :
  (forall e, In e (st_exclude_targets st) -> l_sub e = t_sub t) -> confused st t = false.
Proof.
  intros H. apply confused_false. intros e He _. cbn [t_label l_sub]. symmetry. apply H. exact He.
Qed.

(* Includes is exact between labels of one repository *)
Lemma includes_same_repo e that : l_sub that = l_sub e -> (includes e that = true <-> denotes e that).
Proof.
  intros Hs. rewrite includes_spec. unfold denotes. split; [intros H; split; assumption | intros [_ H]; exact H].
Qed.

(* ... and blind to the repository: //p:x "includes" ///s//p:x *)
Lemma includes_ignores_subrepo :
  let e := {| l_sub := []; l_pkg := s "p"; l_name := s "x" |} in
  let that := {| l_sub := s "s"; l_pkg := s "p"; l_name := s "x" |} in
  includes e that = true /\ ~ denotes e that.
Proof. cbv zeta. split; [reflexivity|]. intros [H _]. discriminate. Qed.

Lemma expand_pseudo_sound_nodup cur include exclude st g L jt :
  set_include_and_exclude cur empty_state include exclude = Some st ->
  wf_graph g -> is_pseudo L = true ->
  (forall lbl, In lbl (expand_pseudo st g L jt) ->
     exists p t, In p g /\ In t (p_targets p) /\ t_label t = lbl
                 /\ (jt = true -> t_test t = true) /\ selected cur include exclude t)
  /\ NoDup (expand_pseudo st g L jt).
Proof.
  intros Hset Hwf Hps. split; [|apply expand_pseudo_nodup; exact Hwf].
  intros lbl Hin. destruct (expand_pseudo_sound cur include exclude st g L jt lbl Hset Hwf Hps Hin)
    as [p [t [H1 [_ [H3 [H4 [H5 H6]]]]]]].
  exists p, t. split; [exact H1|]. split; [exact H3|]. split; [exact H4|]. split; [exact H5 | exact H6].
Qed.
