(* C19 - the parser model never fails internally and needs only linear depth (Model/C19.v, run/step).
   Part 1: a postcondition of the lexer on every token it emits (threaded through lex_all): shape of
           string / f-string / integer / EOF tokens, positions never decrease, EOF ends the stream.
   Part 2: under that postcondition every production of the recogniser returns POk / PSyn, never
           PInternal, and with fuel >= 6 * M + rank + |buffer| + 3 never PDeep, where M is the
           lexer's token measure (Proof.C19.M: it drops with every token taken) and rank the longest
           chain of nested productions entered without taking a token.
   Part 3: parse_safe: depth 19 * length + 75 is enough for parseFileInput. *)
From Coq Require Import String Lia Sorted.
From PlzV Require Import Base.Harness Base.StrFacts Model.C19 Proof.C19.
From PlzV Require Gen.C19Tables.
Local Open Scope nat_scope.

(* ------------------------------------------------------------------------------------------ *)
(* Part 1: token well-formedness                                                               *)

(* a string token is a double quote (34), any bytes, a double quote (the lexer normalises single
   quotes); an f-string token is the same after a leading f (102) *)
Definition str_wf (v : str) : Prop :=
  exists mid, v = 34%N :: mid ++ [34%N] \/ v = 102%N :: 34%N :: mid ++ [34%N].

Definition WfTok (t : tok) : Prop :=
  (ttype t = TEOF -> tval t = []) /\
  (ttype t = TString -> str_wf (tval t)) /\
  (ttype t = TInt -> tval t <> []).

Definition RWf (r : lres) : Prop := match r with LTok t _ => WfTok t | _ => True end.
Definition AWf (a : action) : Prop := match a with ARet r => RWf r | ARec _ => True end.

Lemma wf_other ty v p : ty <> TEOF -> ty <> TString -> ty <> TInt -> WfTok (mkTok ty v p).
Proof. intros H1 H2 H3. unfold WfTok. cbn [ttype tval]. repeat split; intro; contradiction. Qed.

Lemma wf_tok1 c p : WfTok (tok1 c p).
Proof. apply wf_other; unfold TEOF, TString, TInt; lia. Qed.

Lemma consume_integer_wf bytes init p0 p st : RWf (consume_integer bytes init p0 p st).
Proof.
  unfold consume_integer. destruct (scan is_digit (skipn p bytes)); cbn [RWf]; auto.
  unfold WfTok. cbn [ttype tval]. repeat split; intro; discriminate.
Qed.

Lemma consume_string_wf bytes q p0 p raw fstr st : RWf (consume_string bytes q p0 p raw fstr st).
Proof.
  unfold consume_string.
  destruct (byte_at bytes p) as [c1|]; cbn [RWf]; auto.
  match goal with |- context[match ?x with Some _ => _ | None => _ end] => destruct x as [multi|] end; cbn [RWf]; auto.
  match goal with |- context[str_go ?a ?b ?c ?d ?e ?f ?g] => destruct (str_go a b c d e f g) as [acc k| |] end;
    cbn [RWf]; auto.
  unfold WfTok. cbn [ttype tval]. repeat split; try (intro; discriminate).
  intros _. exists (rev acc). cbn [rev]. destruct fstr; auto.
Qed.

Lemma consume_ident_wf isld bytes p0 st : RWf (consume_ident isld bytes p0 st).
Proof.
  unfold consume_ident.
  match goal with |- context[ident_go ?a ?b ?c ?d ?e] => destruct (ident_go a b c d e) end; cbn [RWf]; auto.
  apply wf_other; discriminate.
Qed.

Lemma token_step_wf isld bytes st : AWf (token_step isld bytes st).
Proof.
  unfold token_step. cbv zeta.
  repeat match goal with
  | |- AWf (ARet (consume_integer _ _ _ _ _)) => apply consume_integer_wf
  | |- AWf (ARet (consume_string _ _ _ _ _ _ _)) => apply consume_string_wf
  | |- AWf (ARet (consume_ident _ _ _ _)) => apply consume_ident_wf
  | |- AWf (ARec _) => exact I
  | |- AWf (ARet LInternal) => exact I
  | |- AWf (ARet (LErr _)) => exact I
  | |- AWf (ARet (LTok (tok1 _ _) _)) => apply wf_tok1
  | |- AWf (ARet (LTok (mkTok TEOF [] _) _)) => cbn; unfold WfTok; cbn; repeat split; auto; intro; discriminate
  | |- AWf (ARet (LTok (mkTok _ _ _) _)) => apply wf_other; discriminate
  | |- AWf (match ?x with _ => _ end) => destruct x
  | |- AWf (if ?x then _ else _) => destruct x
  end.
Qed.

Lemma next_token_wf isld bytes f : forall st, RWf (next_token isld bytes f st).
Proof.
  induction f as [|f IH]; intro st; cbn [next_token]; [exact I|].
  pose proof (token_step_wf isld bytes st) as H.
  destruct (token_step isld bytes st); cbn [AWf] in H; auto.
Qed.

Lemma lnext_wf isld bytes f st : RWf (lnext isld bytes f st).
Proof.
  unfold lnext. pose proof (next_token_wf isld bytes f st) as H.
  destruct (next_token isld bytes f st); auto.
Qed.

Lemma skip_eols_wf isld bytes f g : forall r, RWf r -> RWf (skip_eols isld bytes f g r).
Proof.
  induction g as [|g IH]; intros r H; cbn [skip_eols]; [exact I|].
  destruct r as [t st| | |]; auto.
  destruct (ttype t =? TEOL)%Z; auto. apply IH, lnext_wf.
Qed.

Lemma new_lexer_wf isld bytes f : RWf (new_lexer isld bytes f).
Proof. unfold new_lexer. apply skip_eols_wf, lnext_wf. Qed.

Definition toks_of (o : lex_out) : list tok :=
  match o with LexOk t | LexErr t _ => t | _ => [] end.

Lemma lex_loop_wf isld bytes f g : forall r acc,
  RWf r -> Forall WfTok acc -> Forall WfTok (toks_of (lex_loop isld bytes f g r acc)).
Proof.
  induction g as [|g IH]; intros r acc Hr Hacc; cbn [lex_loop toks_of]; [constructor|].
  destruct r as [t st| | |]; cbn [toks_of]; try constructor.
  - destruct ((ttype t =? TEOF)%Z && (pred (length bytes) <=? pos st)).
    + cbn [toks_of]. apply Forall_rev. constructor; auto.
    + apply IH; [apply lnext_wf|constructor; auto].
  - apply Forall_rev; auto.
Qed.

Lemma lex_loop_eof isld bytes f g : forall r acc toks,
  lex_loop isld bytes f g r acc = LexOk toks -> exists pre t, toks = pre ++ [t] /\ ttype t = TEOF.
Proof.
  induction g as [|g IH]; intros r acc toks; cbn [lex_loop]; [discriminate|].
  destruct r as [t st| | |]; try discriminate.
  destruct ((ttype t =? TEOF)%Z && (pred (length bytes) <=? pos st)) eqn:E.
  - intro H. injection H as <-. cbn [rev]. exists (rev acc), t. split; auto.
    apply andb_true_iff in E. destruct E as [E _]. apply Z.eqb_eq in E. exact E.
  - apply IH.
Qed.

(* every token of every token stream (complete or cut short by a positioned error) is well-formed,
   and a complete stream ends with the EOF token *)
Lemma lex_all_wf isld f bs : Forall WfTok (toks_of (lex_all isld f bs)).
Proof. unfold lex_all. apply lex_loop_wf; [apply new_lexer_wf|constructor]. Qed.

Lemma lex_all_eof isld f bs toks :
  lex_all isld f bs = LexOk toks -> exists pre t, toks = pre ++ [t] /\ ttype t = TEOF.
Proof. unfold lex_all. apply lex_loop_eof. Qed.

(* ---- token positions never decrease --------------------------------------------------------- *)
Definition RPos (st : lstate) (r : lres) : Prop :=
  match r with LTok t st' => pos st <= tpos t <= pos st' | _ => True end.
Definition APos (st : lstate) (a : action) : Prop :=
  match a with ARet r => RPos st r | ARec st' => pos st <= pos st' end.

Lemma consume_integer_pos bytes init p0 p st :
  pos st <= p0 -> p0 <= p -> RPos st (consume_integer bytes init p0 p st).
Proof.
  intros H1 H2. unfold consume_integer. destruct (scan is_digit (skipn p bytes)); cbn [RPos]; auto.
  cbn [tpos pos set_pos]. lia.
Qed.

Lemma consume_string_pos bytes q p0 p raw fstr st :
  pos st <= p0 -> p0 <= p -> RPos st (consume_string bytes q p0 p raw fstr st).
Proof.
  intros H1 H2. unfold consume_string.
  destruct (byte_at bytes p) as [c1|]; cbn [RPos]; auto.
  match goal with |- context[match ?x with Some _ => _ | None => _ end] => destruct x as [multi|] end; cbn [RPos]; auto.
  match goal with |- context[str_go ?a ?b ?c ?d ?e ?f ?g] => destruct (str_go a b c d e f g) as [acc k| |] end;
    cbn [RPos]; auto.
  cbn [tpos pos set_pos]. destruct multi; lia.
Qed.

Lemma consume_ident_pos isld bytes p0 st : pos st <= p0 -> RPos st (consume_ident isld bytes p0 st).
Proof.
  intro H. unfold consume_ident.
  match goal with |- context[ident_go ?a ?b ?c ?d ?e] => destruct (ident_go a b c d e) end; cbn [RPos]; auto.
  cbn [tpos pos set_pos]. lia.
Qed.

Lemma token_step_pos isld bytes st : APos st (token_step isld bytes st).
Proof.
  unfold token_step. cbv zeta.
  repeat match goal with
  | |- APos _ (ARet (consume_integer _ _ _ _ _)) => apply consume_integer_pos
  | |- APos _ (ARet (consume_string _ _ _ _ _ _ _)) => apply consume_string_pos
  | |- APos _ (ARet (consume_ident _ _ _ _)) => apply consume_ident_pos
  | |- APos _ (match ?x with _ => _ end) => destruct x
  | |- APos _ (if ?x then _ else _) => destruct x
  end.
  all: cbn [APos RPos tpos pos set_pos tok1];
    repeat match goal with |- context[if ?c then _ else _] => destruct c end; try exact I; lia.
Qed.

Lemma next_token_pos isld bytes f : forall st, RPos st (next_token isld bytes f st).
Proof.
  induction f as [|f IH]; intro st; cbn [next_token]; [exact I|].
  pose proof (token_step_pos isld bytes st) as H.
  destruct (token_step isld bytes st) as [r|st']; cbn [APos] in H; auto.
  specialize (IH st'). destruct (next_token isld bytes f st'); cbn [RPos] in *; auto. lia.
Qed.

Lemma lnext_pos isld bytes f st : RPos st (lnext isld bytes f st).
Proof.
  unfold lnext. pose proof (next_token_pos isld bytes f st) as H.
  destruct (next_token isld bytes f st); auto.
Qed.

Definition RPos0 (r : lres) : Prop := match r with LTok t st => tpos t <= pos st | _ => True end.

Lemma RPos_0 st r : RPos st r -> RPos0 r.
Proof. destruct r; cbn; auto. lia. Qed.

Lemma skip_eols_pos isld bytes f g : forall r, RPos0 r -> RPos0 (skip_eols isld bytes f g r).
Proof.
  induction g as [|g IH]; intros r H; cbn [skip_eols]; [exact I|].
  destruct r as [t st| | |]; auto.
  destruct (ttype t =? TEOL)%Z; auto. apply IH. apply (RPos_0 st), lnext_pos.
Qed.

Definition asc : list tok -> Prop := StronglySorted (fun a c => tpos a <= tpos c).

Lemma asc_snoc l t : asc l -> Forall (fun a => tpos a <= tpos t) l -> asc (l ++ [t]).
Proof.
  induction 1 as [|a l Hl IH Ha]; intro HF; cbn [app].
  - constructor; constructor.
  - inversion HF; subst. constructor; [apply IH; auto|].
    apply Forall_app. split; auto.
Qed.

Definition below (r : lres) (acc : list tok) : Prop :=
  match r with LTok t _ => Forall (fun a => tpos a <= tpos t) acc | _ => True end.

Lemma lex_loop_asc isld bytes f g : forall r acc,
  RPos0 r -> below r acc -> asc (rev acc) -> asc (toks_of (lex_loop isld bytes f g r acc)).
Proof.
  induction g as [|g IH]; intros r acc Hr Hb Hacc; cbn [lex_loop toks_of]; [constructor|].
  destruct r as [t st| | |]; cbn [toks_of]; try constructor; auto.
  cbn [RPos0 below] in *.
  assert (Hsn : asc (rev (t :: acc))).
  { cbn [rev]. apply asc_snoc; auto. apply Forall_rev. exact Hb. }
  destruct ((ttype t =? TEOF)%Z && (pred (length bytes) <=? pos st)); [exact Hsn|].
  pose proof (lnext_pos isld bytes f st) as Hn.
  apply IH; auto.
  - apply (RPos_0 st). exact Hn.
  - destruct (lnext isld bytes f st) as [t' st'| | |]; cbn [below RPos] in *; auto.
    constructor; [lia|]. eapply Forall_impl; [|exact Hb]. cbv beta. intros a Ha. lia.
Qed.

(* the positions of the tokens of a stream never decrease *)
Lemma lex_all_asc isld f bs : asc (toks_of (lex_all isld f bs)).
Proof.
  unfold lex_all. apply lex_loop_asc.
  - unfold new_lexer. apply skip_eols_pos. apply (RPos_0 init_l), lnext_pos.
  - destruct (new_lexer isld (buffer bs) f); cbn; auto.
  - constructor.
Qed.

(* ------------------------------------------------------------------------------------------ *)
(* Part 2: the parser                                                                          *)

(* ---- f-strings and string concatenation: every index is in range ------------------------------ *)
Lemma find_brace_bound sfx : forall last i k, find_brace sfx last i = Some k -> i <= k < i + length sfx.
Proof.
  induction sfx as [|c r IH]; intros last i k; cbn [find_brace length]; [discriminate|].
  destruct ((c =? 123)%N && negb (last =? 123)%N && negb (last =? 36)%N).
  - destruct r as [|c1 r'].
    + intro H. injection H as <-. lia.
    + destruct (c1 =? 123)%N.
      * intro H. apply IH in H. cbn [length] in *. lia.
      * intro H. injection H as <-. lia.
  - intro H. apply IH in H. lia.
Qed.

Lemma index_byte_bound sfx x : forall i k, index_byte sfx x i = Some k -> i <= k < i + length sfx.
Proof.
  induction sfx as [|c r IH]; intros i k; cbn [index_byte length]; [discriminate|].
  destruct (c =? x)%N.
  - intro H. injection H as <-. lia.
  - intro H. apply IH in H. lia.
Qed.

Lemma slice_checked_some v i j :
  i <= j -> j <= length v -> exists w, slice_checked v i j = Some w /\ length w = j - i.
Proof.
  intros Hij Hj. unfold slice_checked.
  destruct (Nat.leb_spec i j); [|lia]. destruct (Nat.leb_spec j (length v)); [|lia].
  cbn [andb]. eexists. split; [reflexivity|].
  rewrite firstn_length, skipn_length. lia.
Qed.

Lemma fstring_go_ok g : forall v tp k, length v < g -> fstring_go g v tp k <> FInternal.
Proof.
  induction g as [|g IH]; intros v tp k Hg; [lia|]. cbn [fstring_go].
  destruct (find_brace v 32 0) as [idx|] eqn:Eb; [|discriminate].
  apply find_brace_bound in Eb.
  destruct (slice_checked_some v 0 idx) as (w0 & -> & _); try lia.
  destruct (slice_checked_some v (S idx) (length v)) as (v1 & -> & Hv1); try lia.
  destruct (index_byte v1 125 0) as [j|] eqn:Ej; [|discriminate].
  apply index_byte_bound in Ej.
  destruct (slice_checked_some v1 0 j) as (w1 & -> & _); try lia.
  destruct (slice_checked_some v1 (S j) (length v1)) as (v2 & -> & Hv2); try lia.
  apply IH. lia.
Qed.

(* what concatStrings needs of its operands: a String value has both its quotes *)
Definition strlike (v : vinfo) : Prop :=
  match v with VStr w => 2 <= length w | VFStr _ => True | _ => False end.

Lemma inner_some w : 2 <= length w -> exists a, inner w = Some a.
Proof.
  intro H. unfold inner. destruct (slice_checked_some w 1 (length w - 1)) as (a & -> & _); try lia. eauto.
Qed.

Lemma concat_strings_ok l r :
  strlike l -> strlike r -> exists v, concat_strings l r = Some v /\ strlike v.
Proof.
  destruct l as [| | | |l|n]; cbn [strlike]; try contradiction;
    destruct r as [| | | |r|m]; cbn [strlike]; try contradiction; intros Hl Hr; cbn [concat_strings].
  - destruct (inner_some l Hl) as (a & ->). destruct (inner_some r Hr) as (c & ->).
    eexists. split; [reflexivity|]. cbn [strlike length]. rewrite !app_length. cbn [length]. lia.
  - destruct (inner_some l Hl) as (a & ->). eexists. split; [reflexivity|exact I].
  - destruct (inner_some r Hr) as (a & ->). eexists. split; [reflexivity|exact I].
  - destruct (m =? 0); eexists; (split; [reflexivity|exact I]).
Qed.

Lemma str_wf_len v : str_wf v -> 2 <= length v /\ (forall c r, v = c :: r -> c = 102%N -> 3 <= length v).
Proof.
  intros (mid & [-> | ->]); cbn [length]; rewrite app_length; cbn [length]; split; try lia.
  intros c r H Hc. injection H as <- _. discriminate.
Qed.

(* ---- productions: which consume at least one token, and how many calls they make without ------ *)
Definition strictn (p : prod) : nat :=
  match p with
  | PFile _ | PFuncArgs | PElifs | PIdentListMore | PValueTail | PIdentExprMore | PLambdaArgs => 0
  | _ => 1
  end.

Definition rank (p : prod) : nat :=
  match p with
  | PFile _ | PStatements => 5
  | PStatement | PReturn | PCall _ | PList _ _ false | PDict _ false => 4
  | PExpression => 3
  | PUncond => 2
  | PValue | PValueTail | PFuncArgs => 1
  | _ => 0
  end.

(* what a caller guarantees: the closing bracket handed to parseList is a real token type, and
   parseFString is entered on a token whose first byte is f *)
Definition pre (p : prod) (st : pstate) : Prop :=
  match p with
  | PList closing _ _ => closing <> TEOF
  | PFString => hd 0%N (tval (peek st)) = 102%N
  | _ => True
  end.

Definition sat (r : pres) (Phi : vinfo -> pstate -> Prop) : Prop :=
  match r with POk v st => Phi v st | PSyn _ => True | PInternal | PDeep => False end.

Lemma sat_bind r k Phi : sat r (fun v st => sat (k v st) Phi) -> sat (r >>= k) Phi.
Proof. destruct r; cbn; auto. Qed.

Lemma sat_mono r (Phi Psi : vinfo -> pstate -> Prop) :
  sat r Phi -> (forall v st, Phi v st -> Psi v st) -> sat r Psi.
Proof. destruct r; cbn; auto. Qed.

Lemma tyb_true t ty : tyb t ty = true -> ttype t = ty.
Proof. unfold tyb. apply Z.eqb_eq. Qed.
Lemma tyb_false t ty : tyb t ty = false -> ttype t <> ty.
Proof. unfold tyb. apply Z.eqb_neq. Qed.

Lemma valb_neof t v : WfTok t -> valb t v = true -> v <> [] -> ttype t <> TEOF.
Proof.
  intros (H & _) Hv Hne E. apply H in E. unfold valb in Hv. apply str_eqb_eq in Hv. congruence.
Qed.

Lemma mem_neof t l : WfTok t -> mem (tval t) l = true -> mem [] l = false -> ttype t <> TEOF.
Proof. intros (H & _) Hm Hn E. apply H in E. rewrite E in Hm. congruence. Qed.

Section ParserSafe.
  Variable isld : N -> bool.
  Variable b : str.
  Local Notation B := (b ++ [0%N; 0%N]).
  Local Notation n := (length b).

  Definition M' (st : pstate) : nat := M b (lx st).

  (* between two productions: the lexer invariant, the lexer is past the data only when the lookahead is
     EOF, and the lookahead token is well-formed *)
  Definition PInv (st : pstate) : Prop :=
    Inv b (lx st) /\ (ttype (peek st) <> TEOF -> pos (lx st) <= n) /\ WfTok (peek st).

  Lemma PInv_set_for x st : PInv st -> PInv (set_for x st).
  Proof. exact (fun H => H). Qed.
  Lemma PInv_set_for' x st : PInv (set_for x st) -> PInv st.
  Proof. exact (fun H => H). Qed.
  Lemma M'_set_for x st : M' (set_for x st) = M' st.
  Proof. reflexivity. Qed.
  Lemma peek_set_for x st : peek (set_for x st) = peek st.
  Proof. reflexivity. Qed.

  Lemma M'_pos st : PInv st -> 1 <= M' st.
  Proof. intros ((_ & (l & Hl) & _) & _). unfold M', M. rewrite Hl, app_length. cbn [length]. lia. Qed.

  Definition payload (p : prod) (st : pstate) (v : vinfo) : Prop :=
    match p with
    | PValue => ttype (peek st) = TString -> strlike v
    | PFString => strlike v
    | _ => True
    end.

  Definition RPost (p : prod) (st : pstate) (r : pres) : Prop :=
    sat r (fun v st' => PInv st' /\ M' st' + strictn p <= M' st /\ payload p st v).

  Definition need (p : prod) (st : pstate) : nat := 6 * M' st + rank p + n + 3.

  Section Step.
    Variable f : nat.                          (* the fuel the lexer is given *)
    Hypothesis Hf : n + 3 <= f.
    Variable rec : prod -> pstate -> pres.
    Hypothesis Hrec : forall q st, pre q st -> PInv st -> need q st <= f -> RPost q st (rec q st).

    Lemma advance_gen st (Phi : vinfo -> pstate -> Prop) :
      PInv st ->
      (forall st', (ttype (peek st) <> TEOF -> PInv st' /\ M' st' < M' st) -> Phi (VTok (peek st)) st') ->
      sat (advance isld B f st) Phi.
    Proof.
      intros (HI & Hp & Hw) H. unfold advance.
      pose proof (lnext_ok isld b f (lx st) Hf HI) as HP.
      pose proof (lnext_wf isld B f (lx st)) as HW.
      destruct (lnext isld B f (lx st)) as [t l'| | |]; cbn [sat Post RWf] in *; auto.
      apply H. intro Hne. specialize (Hp Hne). destruct HP as (H1 & H2 & H3 & H4 & H5 & H6).
      split; [|exact H6]. unfold PInv; cbn [lx peek].
      split; [|split; [exact H3|exact HW]].
      unfold Inv. split; [apply H5, Hp|]. split; [exact H2|].
      destruct (Z.eq_dec (ttype t) TEOF) as [E|E]; [right; apply H4; auto | left; apply H3; auto].
    Qed.

    Lemma advance_sat st (Phi : vinfo -> pstate -> Prop) :
      PInv st -> ttype (peek st) <> TEOF ->
      (forall st', PInv st' -> M' st' < M' st -> Phi (VTok (peek st)) st') ->
      sat (advance isld B f st) Phi.
    Proof.
      intros HI Hne H. apply advance_gen; auto. intros st' Hst'. destruct (Hst' Hne). auto.
    Qed.

    Lemma expect_sat ty st (Phi : vinfo -> pstate -> Prop) :
      ty <> TEOF -> PInv st ->
      (forall st', PInv st' -> M' st' < M' st -> ttype (peek st) = ty -> Phi (VTok (peek st)) st') ->
      sat (expect isld B f ty st) Phi.
    Proof.
      intros Hty HI H. unfold expect. apply sat_bind. apply advance_gen; auto.
      intros st' Hst'. cbv beta. unfold tyb.
      destruct (Z.eqb_spec (ttype (peek st)) ty) as [E|E]; [|exact I].
      destruct Hst' as (H1 & H2); [congruence|]. apply H; auto.
    Qed.

    Lemma expectv_sat v st (Phi : vinfo -> pstate -> Prop) :
      v <> [] -> PInv st ->
      (forall st', PInv st' -> M' st' < M' st -> valb (peek st) v = true -> Phi (VTok (peek st)) st') ->
      sat (expectv isld B f v st) Phi.
    Proof.
      intros Hv HI H. unfold expectv. apply sat_bind. apply advance_gen; auto.
      intros st' Hst'. cbv beta.
      destruct (valb (peek st) v) eqn:E; [|exact I].
      destruct Hst' as (H1 & H2); [apply (valb_neof _ v); auto; apply HI|]. apply H; auto.
    Qed.

    Lemma oneof_sat tys st (Phi : vinfo -> pstate -> Prop) :
      existsb (Z.eqb TEOF) tys = false -> PInv st ->
      (forall st', PInv st' -> M' st' < M' st -> Phi (VTok (peek st)) st') ->
      sat (oneof isld B f tys st) Phi.
    Proof.
      intros Hty HI H. unfold oneof. apply sat_bind. apply advance_gen; auto.
      intros st' Hst'. cbv beta.
      destruct (existsb (tyb (peek st)) tys) eqn:E; [|exact I].
      destruct Hst' as (H1 & H2); [|apply H; auto].
      intro E'. unfold tyb in E. rewrite E' in E.
      assert (E2 : existsb (Z.eqb TEOF) tys = true) by exact E. congruence.
    Qed.

    Lemma oneofval_sat vs st (Phi : vinfo -> pstate -> Prop) :
      mem [] vs = false -> PInv st ->
      (forall st', PInv st' -> M' st' < M' st -> Phi (VTok (peek st)) st') ->
      sat (oneofval isld B f vs st) Phi.
    Proof.
      intros Hvs HI H. unfold oneofval. apply sat_bind. apply advance_gen; auto.
      intros st' Hst'. cbv beta.
      destruct (mem (tval (peek st)) vs) eqn:E; [|exact I].
      destruct Hst' as (H1 & H2); [apply (mem_neof _ vs); auto; apply HI|]. apply H; auto.
    Qed.

    Lemma optional_sat ty st (Phi : vinfo -> pstate -> Prop) :
      ty <> TEOF -> PInv st ->
      (forall st', PInv st' -> M' st' < M' st -> Phi (VBool true) st') ->
      Phi (VBool false) st ->
      sat (optional isld B f ty st) Phi.
    Proof.
      intros Hty HI H1 H2. unfold optional.
      destruct (tyb (peek st) ty) eqn:E; [|exact H2].
      apply sat_bind. apply advance_sat; auto.
      apply tyb_true in E. congruence.
    Qed.

    Lemma optionalv_sat v st (Phi : vinfo -> pstate -> Prop) :
      v <> [] -> PInv st ->
      (forall st', PInv st' -> M' st' < M' st -> Phi (VBool true) st') ->
      Phi (VBool false) st ->
      sat (optionalv isld B f v st) Phi.
    Proof.
      intros Hv HI H1 H2. unfold optionalv.
      destruct (valb (peek st) v) eqn:E; [|exact H2].
      apply sat_bind. apply advance_sat; auto.
      apply (valb_neof _ v); auto. apply HI.
    Qed.

    Lemma after_sep_sat sep again done st (Phi : vinfo -> pstate -> Prop) :
      sep <> TEOF -> PInv st ->
      (forall st', PInv st' -> M' st' < M' st -> sat (again st') Phi) ->
      sat (done st) Phi ->
      sat (after_sep isld B f sep again done st) Phi.
    Proof.
      intros Hs HI H1 H2. unfold after_sep. apply sat_bind. apply optional_sat; auto.
    Qed.

    Lemma rec_sat q st (Phi : vinfo -> pstate -> Prop) :
      pre q st -> PInv st -> need q st <= f ->
      (forall v st', PInv st' -> M' st' + strictn q <= M' st -> payload q st v -> Phi v st') ->
      sat (rec q st) Phi.
    Proof.
      intros Hq HI Hn H. apply (sat_mono _ _ _ (Hrec q st Hq HI Hn)).
      intros v st' (H1 & H2 & H3). auto.
    Qed.

    Lemma assign_follows_sat st (Phi : vinfo -> pstate -> Prop) :
      PInv st ->
      (forall x st', PInv st' -> M' st' <= M' st -> peek st' = peek st -> inFor st' = inFor st -> Phi (VBool x) st') ->
      sat (assign_follows B st) Phi.
    Proof.
      intros (HI & Hp & Hw) H. unfold assign_follows.
      destruct HI as (Hpos & Hind & Hun).
      destruct (B_scan b is_space (pos (lx st)) eq_refl Hpos) as (k & -> & Hk1 & Hk2).
      assert (Hst' : forall x, Phi (VBool x) (mkP (set_pos (lx st) (pos (lx st) + k)) (peek st) (inFor st))).
      { intro x. apply H; auto.
        - unfold PInv, Inv. cbn [lx peek pos set_pos indents unind].
          split; [split; [exact Hk1|split; [exact Hind|]]|split; [|exact Hw]].
          + destruct Hun as [Hun|Hun]; [left; auto|right; auto].
          + intro Hne. auto.
        - unfold M', M. cbn [lx pos set_pos indents unind]. lia. }
      destruct (B_some b (pos (lx st) + k)) as (c & Hc); [lia|]. rewrite Hc.
      destruct (c =? 61)%N eqn:E; [|apply Hst'].
      apply N.eqb_eq in E. subst c.
      assert (Hlt : pos (lx st) + k < n) by (apply (B_nz b _ _ Hc); discriminate).
      destruct (B_some b (S (pos (lx st) + k))) as (c1 & Hc1); [lia|]. rewrite Hc1. apply Hst'.
    Qed.

    Lemma PInv_wf st : PInv st -> WfTok (peek st).
    Proof. intros (_ & _ & H). exact H. Qed.

    Ltac nteof := let H := fresh in intro H; vm_compute in H; discriminate H.
    Ltac vmr := vm_compute; reflexivity.

    Ltac neof :=
      match goal with
      | H : ttype ?t <> TEOF |- ttype ?t <> TEOF => exact H
      | H : tyb ?t ?ty = true |- ttype ?t <> TEOF => rewrite (tyb_true _ _ H); nteof
      | H : ttype ?t = ?ty |- ttype ?t <> TEOF => rewrite H; nteof
      | H : valb ?t ?v = true |- ttype ?t <> TEOF =>
          apply (valb_neof t v); [apply PInv_wf; assumption | exact H | nteof]
      | H : mem (tval ?t) ?l = true |- ttype ?t <> TEOF =>
          apply (mem_neof t l); [apply PInv_wf; assumption | exact H | vmr]
      end.

    Ltac split_bools :=
      repeat match goal with
      | H : (_ || _)%bool = true |- _ => apply orb_true_iff in H; destruct H as [H|H]
      | H : (_ || _)%bool = false |- _ => apply orb_false_iff in H; destruct H as [? H]
      | H : (_ && _)%bool = true |- _ => apply andb_true_iff in H; destruct H as [? H]
      | H : negb _ = true |- _ => apply negb_true_iff in H
      | H : negb _ = false |- _ => apply negb_false_iff in H
      end.

    Ltac fuel := unfold need in *; cbn [rank strictn] in *; rewrite ?M'_set_for in *; lia.

    Ltac payl :=
      cbn [payload] in *;
      first [ exact I
            | match goal with H : tyb ?t TString = false |- ttype ?t = TString -> _ =>
                let X := fresh in intro X; apply tyb_false in H; contradiction end
            | match goal with H : ttype ?t = TString -> strlike ?v, E : tyb ?t TString = true |- strlike ?v =>
                exact (H (tyb_true _ _ E)) end
            | intros _; cbn [strlike]; assumption
            | cbn [strlike]; assumption
            | cbn [strlike]; exact I ].

    Ltac fin :=
      split; [try apply PInv_set_for; assumption | split; [fuel | payl]].

    Ltac st1 :=
      match goal with
      | |- sat (bind _ _) _ => apply sat_bind
      | |- sat (PSyn _) _ => exact I
      | |- sat (pfail _) _ => exact I
      | |- sat PInternal _ => fail 1
      | |- sat (POk _ _) _ => unfold sat at 1; cbv beta iota delta [is_true]
      | |- sat (ret _) _ => unfold ret at 1
      | |- sat (expect _ _ _ (if ?c then _ else _) _) _ => destruct c
      | |- sat (expect _ _ _ _ _) _ =>
          apply expect_sat; [first [nteof | assumption] | assumption | intros ? ? ? ?; cbv beta]
      | |- sat (expectv _ _ _ _ _) _ => apply expectv_sat; [nteof | assumption | intros ? ? ? ?; cbv beta]
      | |- sat (oneof _ _ _ _ _) _ => apply oneof_sat; [vmr | assumption | intros ? ? ?; cbv beta iota]
      | |- sat (oneofval _ _ _ _ _) _ => apply oneofval_sat; [vmr | assumption | intros ? ? ?; cbv beta]
      | |- sat (optional _ _ _ _ _) _ =>
          apply optional_sat; [nteof | assumption | intros ? ? ?; cbv beta iota delta [is_true] | cbv beta iota delta [is_true]]
      | |- sat (optionalv _ _ _ _ _) _ =>
          apply optionalv_sat; [nteof | assumption | intros ? ? ?; cbv beta iota delta [is_true] | cbv beta iota delta [is_true]]
      | |- sat (after_sep _ _ _ _ _ _ _) _ => apply after_sep_sat; [nteof | assumption | intros ? ? ?; cbv beta | cbv beta]
      | |- sat (advance _ _ _ _) _ => apply advance_sat; [assumption | neof | intros ? ? ?; cbv beta]
      | |- sat (assign_follows _ _) _ =>
          apply assign_follows_sat; [assumption | intros ? ? ? ? ? ?; cbv beta iota delta [is_true]]
      | |- sat (rec _ _) _ =>
          apply rec_sat; [first [exact I | assumption | nteof] | try apply PInv_set_for; assumption | fuel
                         | intros ? ? ? ? ?; cbv beta]
      | |- sat (match concat_strings ?l ?r with _ => _ end) _ =>
          let w := fresh "w" in let Hw := fresh "Hw" in let Hc := fresh "Hc" in
          destruct (concat_strings_ok l r) as (w & Hc & Hw); [payl | payl | rewrite Hc]
      | |- sat (if ?c then _ else _) _ => let E := fresh "E" in destruct c eqn:E; split_bools
      | |- _ /\ _ => fin
      end.

    Lemma step_ok p st :
      pre p st -> PInv st -> need p st <= S f -> RPost p st (step isld B f rec p st).
    Proof.
      intros Hv HI Hfuel. pose proof (M'_pos st HI) as HM1. unfold RPost.
      destruct p; cbv beta iota zeta delta [step]; cbn [pre] in Hv.
      all: repeat st1.
      - (* PValue on a string token *)
        apply tyb_true in E.
        destruct (PInv_wf st HI) as (_ & Hstr & _). specialize (Hstr E). apply str_wf_len in Hstr.
        destruct Hstr as (Hlen & _).
        destruct (tval (peek st)) as [|c0 r] eqn:Et; [cbn in Hlen; lia|].
        apply sat_bind. destruct (c0 =? 102)%N eqn:Ec.
        + apply rec_sat; [cbn [pre]; rewrite Et; apply N.eqb_eq; exact Ec | assumption | fuel |].
          intros ? ? ? ? ?; cbv beta. cbn [payload] in *. repeat st1.
        + repeat st1.
      - (* PIdentStatement: the token after the identifier is taken before it is looked at *)
        match goal with |- sat (advance _ _ _ ?s1) _ =>
          apply advance_gen; [assumption|]; intros st2 Hst2; cbv beta;
          repeat match goal with |- sat (if ?c then _ else _) _ => let E := fresh "E" in destruct c eqn:E end;
          try exact I;
          (assert (Hne : ttype (peek s1) <> TEOF) by neof); destruct (Hst2 Hne) as (? & ?)
        end.
        all: repeat st1.
      - (* PFString: tok.Value[2:len-1] and the loop of parseFString *)
        match goal with Ht : ttype (peek st) = TString |- _ =>
          destruct (PInv_wf st HI) as (_ & Hstr & _); specialize (Hstr Ht); apply str_wf_len in Hstr end.
        destruct Hstr as (Hlen & H3).
        assert (Hl3 : 3 <= length (tval (peek st))).
        { destruct (tval (peek st)) as [|c r]; [cbn in Hlen; lia|]. apply (H3 c r eq_refl). exact Hv. }
        destruct (slice_checked_some (tval (peek st)) 2 (length (tval (peek st)) - 1)) as (w & -> & _); try lia.
        pose proof (fstring_go_ok (S (length w)) w (S (tpos (peek st))) 0 ltac:(lia)) as Hgo.
        destruct (fstring_go (S (length w)) w (S (tpos (peek st))) 0); [|exact I|congruence].
        repeat st1.
    Qed.
  End Step.

  (* every production, every state satisfying the invariant, fuel >= need: never Internal, never Deep *)
  Lemma run_ok f : forall p st, pre p st -> PInv st -> need p st <= f -> RPost p st (run isld B f p st).
  Proof.
    induction f as [|f IH]; intros p st Hp HI Hn.
    - unfold need in Hn. lia.
    - cbn [run]. pose proof (M'_pos st HI). apply step_ok; auto. unfold need in Hn. lia.
  Qed.
End ParserSafe.

(* ------------------------------------------------------------------------------------------ *)
(* Part 3: parseFileInput                                                                      *)
Definition parse_depth (bs : str) : nat := 19 * length bs + 75.

Lemma parse_safe isld bs depth : parse_depth bs <= depth -> outcome_ok (parse isld depth bs).
Proof.
  intro Hd. unfold parse, buffer, parse_depth in *.
  pose proof (fix_newline_len bs) as Hlen.
  set (b := fix_newline bs) in *.
  pose proof (new_lexer_ok isld b depth ltac:(lia)) as HG.
  pose proof (new_lexer_wf isld (b ++ [0%N; 0%N]) depth) as HW.
  destruct (new_lexer isld (b ++ [0%N; 0%N]) depth) as [t l| | |]; cbn [Good RWf outcome_ok] in *; auto.
  destruct HG as (H1 & H2 & H3 & H4 & H5).
  destruct (Z.eq_dec (ttype t) TEOF) as [E|E].
  - destruct depth as [|d]; [lia|]. cbn [run]. cbv beta iota zeta delta [step]. cbn [peek].
    unfold tyb. rewrite E. exact I.
  - assert (HI : PInv b (mkP l t false)).
    { unfold PInv, Inv. cbn [lx peek]. specialize (H3 E). repeat split; auto; try lia; apply HW. }
    pose proof (run_ok isld b depth (PFile 0) (mkP l t false) I HI) as H.
    unfold need, M' in H. cbn [rank lx] in H. specialize (H ltac:(lia)).
    unfold RPost in H. destruct (run isld (b ++ [0%N; 0%N]) depth (PFile 0) (mkP l t false)); cbn [sat outcome_ok] in *; auto.
Qed.

(* the fuel the correspondence check runs the model with is enough *)
Lemma parse_fuel_safe isld bs : outcome_ok (parse isld (parse_fuel bs) bs).
Proof. apply parse_safe. unfold parse_depth, parse_fuel. lia. Qed.
