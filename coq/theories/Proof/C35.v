(* C35 - proofs about Model/C35.v.  The hash functions are a Section variable H; the only
   hypothesis about them is that a digest of algorithm a has algo_size a bytes (hash.Hash.Size). *)
From PlzV Require Import Base.Harness Base.StrFacts Model.C35.
From Coq Require Import Lia.

(* ------------------------------------------------------------------------------------------ *)
(* Specification vocabulary (used by Props/C35.v) *)

Definition H_sized (H : hashfun) : Prop := forall a x, length (H a x) = algo_size a.

(* the digests of the outputs that count: plz's own output hash (build.hashfunction) and, for every
   configured checker, the hash of the single output resp. the hash over the per-output hashes *)
Definition digest_of (H : hashfun) (cfg : config) (outs : list out) (d : str) : Prop :=
  d = primary_hash H (hashfn cfg) outs \/ exists a, In a (checkers cfg) /\ d = checker_hash H a outs.

Definition matches (H : hashfun) (cfg : config) (outs : list out) (declared : list str) : Prop :=
  exists h, In h declared /\ exists d, digest_of H cfg outs d /\ unprefix h = hex d.

Definition enforced (H : hashfun) (cfg : config) (outs : list out) (declared : list str) : Prop :=
  declared = [] \/ matches H cfg outs declared.

Definition event_good (H : hashfun) (cfg : config) (e : event) : Prop :=
  let d := e_def e in
  (* success: what is in plz-out now hashes to a declared value; the cache only gains that verified set *)
  (ok (e_res e) = true ->
     enforced H cfg (outs_of (disk (e_after e))) (d_declared d)
     /\ (cache (e_after e) = cache (e_before e)
         \/ cache (e_after e) = cache_store (key_of d) (disk (e_after e)) (cache (e_before e))))
  (* failure: only on a real mismatch of what was verified; no output, no record, nothing cached *)
  /\ (ok (e_res e) = false ->
        d_declared d <> []
        /\ ~ matches H cfg (seen (e_res e)) (d_declared d)
        /\ disk (e_after e) = []
        /\ cache (e_after e) = cache (e_before e)
        /\ forall d', needs_building (e_after e) d' = true)
  (* a cache restore counts only after the same verification *)
  /\ (restored (e_res e) = true ->
        ok (e_res e) = true
        /\ exists cfs, cache_lookup (key_of d) (cache (e_before e)) = Some cfs
                       /\ outs_of (disk (e_after e)) = outs_of cfs).

(* ------------------------------------------------------------------------------------------ *)
(* small facts *)

Lemma key_eqb_eq a b : key_eqb a b = true <-> a = b.
Proof.
  destruct a as [ha ra], b as [hb rb]; unfold key_eqb; cbn [k_hashes k_rest].
  rewrite andb_true_iff, str_eqb_eq, N.eqb_eq. split.
  - intros [-> ->]; reflexivity.
  - intros E; inversion E; auto.
Qed.

Lemma hex_length b : length (hex b) = 2 * length b.
Proof. unfold hex. induction b as [|x b IH]; cbn [flat_map length app]; lia. Qed.

Lemma outs_of_stamp k fs : outs_of (stamp k fs) = outs_of fs.
Proof. unfold outs_of, stamp. rewrite map_map. reflexivity. Qed.

Lemma stamp_rec k fs : forallb (rec_is k) (stamp k fs) = true.
Proof.
  induction fs as [|f fs IH]; cbn; auto.
  unfold rec_is at 1; cbn. rewrite (proj2 (key_eqb_eq k k) eq_refl). exact IH.
Qed.

Lemma move_outputs_nil H fn new : map fst (move_outputs H fn [] new) = map fresh new.
Proof. induction new as [|n r IH]; cbn; congruence. Qed.

Lemma outs_of_fresh l : outs_of (map fresh l) = l.
Proof. unfold outs_of. rewrite map_map. cbn. apply map_id. Qed.

(* ------------------------------------------------------------------------------------------ *)
(* UnprefixedHashes *)

Lemma after_last_colon_none h : after_last_colon h = None <-> ~ In 58%N h.
Proof.
  induction h as [|c r IH]; cbn.
  - tauto.
  - destruct (after_last_colon r) eqn:E.
    + split; [discriminate|]. intros Hn. exfalso. apply Hn. right.
      destruct (in_dec N.eq_dec 58%N r) as [i|n]; auto. apply IH in n. discriminate.
    + destruct (N.eqb_spec c 58).
      * split; [discriminate|]. intros Hn; exfalso; apply Hn; left; auto.
      * split; auto. intros _ [e|i]; [auto|]. apply (proj1 IH eq_refl i).
Qed.

Lemma after_last_colon_some h t : after_last_colon h = Some t -> ~ In 58%N t /\ forall c, In c t -> In c h.
Proof.
  revert t. induction h as [|c r IH]; cbn; [discriminate|]. intros t.
  destruct (after_last_colon r) eqn:E.
  - intros Ht; inversion Ht; subst. destruct (IH _ eq_refl) as [A B]. split; auto.
  - destruct (N.eqb_spec c 58); [|discriminate]. intros Ht; inversion Ht; subst.
    split; [apply after_last_colon_none; exact E| auto].
Qed.

Lemma strip_prefix_app p x y : strip_prefix p x = Some y -> x = p ++ y.
Proof.
  revert x. induction p as [|a p IH]; intros x; cbn.
  - intros E; inversion E; reflexivity.
  - destruct x as [|b x]; [discriminate|]. destruct (N.eqb_spec a b); [|discriminate].
    intros E. subst. f_equal. apply IH; exact E.
Qed.

Lemma strip_any_in seqs x y c : strip_any seqs x = Some y -> In c y -> In c x.
Proof.
  induction seqs as [|p r IH]; cbn; [discriminate|].
  destruct (strip_prefix p x) eqn:E.
  - intros Hy; inversion Hy; subst. apply strip_prefix_app in E. subst. intros; apply in_or_app; auto.
  - exact IH.
Qed.

Lemma trim_left_fuel_in seqs n x c : In c (trim_left_fuel seqs n x) -> In c x.
Proof.
  revert x. induction n as [|n IH]; intros x; cbn; auto.
  destruct (strip_any seqs x) eqn:E; auto.
  intros Hc. eapply strip_any_in; eauto.
Qed.

Lemma trim_space_in x c : In c (trim_space x) -> In c x.
Proof.
  unfold trim_space, trim_right, trim_left. intros Hc.
  apply in_rev in Hc. apply trim_left_fuel_in in Hc. apply in_rev in Hc.
  apply trim_left_fuel_in in Hc. exact Hc.
Qed.

Lemma unprefix_no_colon h : ~ In 58%N (unprefix h).
Proof.
  unfold unprefix. destruct (after_last_colon h) eqn:E.
  - destruct (after_last_colon_some _ _ E) as [A _]. intros Hc. apply A. apply trim_space_in; exact Hc.
  - apply after_last_colon_none; exact E.
Qed.

Lemma unprefix_idem h : unprefix (unprefix h) = unprefix h.
Proof.
  unfold unprefix at 1.
  rewrite (proj2 (after_last_colon_none (unprefix h)) (unprefix_no_colon h)). reflexivity.
Qed.

Lemma unprefix_plain h : ~ In 58%N h -> unprefix h = h.
Proof. intros Hn. unfold unprefix. rewrite (proj2 (after_last_colon_none h) Hn). reflexivity. Qed.

(* every entry is treated on its own: the i-th result depends on the i-th entry only *)
Lemma unprefixed_pointwise l1 h l2 :
  unprefixed (l1 ++ h :: l2) = unprefixed l1 ++ unprefix h :: unprefixed l2.
Proof. unfold unprefixed. rewrite map_app. reflexivity. Qed.

Lemma unprefixed_idem l : unprefixed (unprefixed l) = unprefixed l.
Proof. unfold unprefixed. rewrite map_map. apply map_ext. apply unprefix_idem. Qed.

(* ------------------------------------------------------------------------------------------ *)
(* the check *)

Section Check.
Variable H : hashfun.
Hypothesis H_size : H_sized H.

Lemma check_of_type_accept hs outs cs acc :
  accepted (check_of_type H hs outs cs acc) = true <->
  exists a, In a cs /\ exists h, In h hs /\ length h = 2 * algo_size a /\ hex (checker_hash H a outs) = h.
Proof.
  revert acc. induction cs as [|a r IH]; intros acc; cbn [check_of_type].
  - cbn. split; [discriminate|]. intros (a & [] & _).
  - cbv zeta. match goal with |- context [existsb ?f hs] => destruct (existsb f hs) eqn:E end.
    + cbn. split; auto. intros _. apply existsb_exists in E. destruct E as (h & Hin & Hh).
      apply andb_true_iff in Hh. destruct Hh as [L Q]. apply Nat.eqb_eq in L. apply str_eqb_eq in Q.
      exists a. split; [left; auto|]. exists h. auto.
    + rewrite IH. split.
      * intros (a' & Hin & R). exists a'. split; [right; auto|exact R].
      * intros (a' & [->|Hin] & h & Hh & L & Q).
        -- exfalso. assert (existsb (fun h0 => Nat.eqb (length h0) (2 * algo_size a') && str_eqb (hex (checker_hash H a' outs)) h0) hs = true) as C.
           { apply existsb_exists. exists h. split; auto. rewrite (proj2 (Nat.eqb_eq _ _) L), (proj2 (str_eqb_eq _ _) Q). reflexivity. }
           rewrite C in E. discriminate.
        -- exists a'. split; auto. exists h; auto.
Qed.

Lemma check_with_accept cfg p outs declared :
  accepted (check_rule_hashes_with H cfg p outs declared) = true <->
  declared = []
  \/ In (hex p) (unprefixed declared)
  \/ exists a, In a (checkers cfg) /\ exists h, In h (unprefixed declared) /\ length h = 2 * algo_size a /\ hex (checker_hash H a outs) = h.
Proof.
  unfold check_rule_hashes_with. destruct declared as [|d0 dr]; [cbn; tauto|].
  set (hs := unprefixed (d0 :: dr)).
  destruct (existsb (fun h => str_eqb h (hex p)) hs) eqn:E.
  - cbn. split; auto. intros _. right; left.
    apply existsb_exists in E. destruct E as (h & Hin & Q). apply str_eqb_eq in Q. subst. exact Hin.
  - rewrite check_of_type_accept. split.
    + intros R. right; right. exact R.
    + intros [C|[C|C]]; [discriminate| |exact C].
      exfalso. assert (existsb (fun h => str_eqb h (hex p)) hs = true) as T.
      { apply existsb_exists. exists (hex p). split; auto. apply str_eqb_refl. }
      rewrite T in E. discriminate.
Qed.

Lemma checker_hex_length a outs : length (hex (checker_hash H a outs)) = 2 * algo_size a.
Proof.
  rewrite hex_length. f_equal. unfold checker_hash, combined, path_hash.
  destruct outs as [|o [|o' r]]; apply H_size.
Qed.

(* C35, first half: a verification succeeds exactly when a declared value, prefixes aside, is the hex
   digest of the outputs under plz's own output hash or under a configured checker *)
Theorem check_iff cfg outs declared :
  accepted (check_rule_hashes H cfg outs declared) = true <-> enforced H cfg outs declared.
Proof.
  unfold check_rule_hashes. rewrite check_with_accept. unfold enforced, matches, digest_of. split.
  - intros [E|[P|(a & Ha & h & Hh & L & Q)]]; [left; exact E| |].
    + right. unfold unprefixed in P. apply in_map_iff in P. destruct P as (h0 & Q & Hin).
      exists h0. split; auto. exists (primary_hash H (hashfn cfg) outs). split; auto.
    + right. unfold unprefixed in Hh. apply in_map_iff in Hh. destruct Hh as (h0 & Q0 & Hin).
      exists h0. split; auto. exists (checker_hash H a outs). split; [right; exists a; auto|]. congruence.
  - intros [E|(h & Hin & d & [D|(a & Ha & D)] & Q)]; [left; exact E| |].
    + right; left. subst d. rewrite <- Q. unfold unprefixed. apply in_map. exact Hin.
    + right; right. exists a. split; auto. exists (unprefix h). split; [unfold unprefixed; apply in_map; exact Hin|].
      subst d. rewrite Q. split; [apply checker_hex_length|reflexivity].
Qed.

Corollary no_hashes_always_pass cfg outs : accepted (check_rule_hashes H cfg outs []) = true.
Proof. reflexivity. Qed.

(* a stale memoised output hash can only make the check stricter, never laxer, once it was itself rejected *)
Lemma check_with_stale cfg m outs' outs declared :
  accepted (check_rule_hashes_with H cfg m outs' declared) = false ->
  accepted (check_rule_hashes_with H cfg m outs declared) = true ->
  matches H cfg outs declared.
Proof.
  intros R A. apply check_with_accept in A.
  assert (declared <> [] /\ ~ In (hex m) (unprefixed declared)) as [NE NI].
  { split; intros C; assert (accepted (check_rule_hashes_with H cfg m outs' declared) = true) as T;
      try (apply check_with_accept; auto); rewrite T in R; discriminate. }
  destruct A as [E|[P|(a & Ha & h & Hh & L & Q)]]; [contradiction|contradiction|].
  unfold unprefixed in Hh. apply in_map_iff in Hh. destruct Hh as (h0 & Q0 & Hin).
  exists h0. split; auto. exists (checker_hash H a outs). split; [right; exists a; auto|congruence].
Qed.

(* ------------------------------------------------------------------------------------------ *)
(* histories *)

Variable cfg : config.

Definition unamb (DL : list def) : Prop :=
  forall d d', In d DL -> In d' DL -> key_of d = key_of d' -> d_declared d = d_declared d'.

Lemma resplit_false_unamb DL : resplit DL = false -> unamb DL.
Proof.
  intros R d d' Hd Hd' K. unfold resplit in R.
  destruct (list_eqb_spec str_eqb str_eqb_spec (d_declared d) (d_declared d')) as [E|NE]; auto.
  exfalso. assert (existsb (fun d => existsb (fun d' => key_eqb (key_of d) (key_of d') && negb (declared_eqb (d_declared d) (d_declared d'))) DL) DL = true) as T.
  { apply existsb_exists. exists d. split; auto. apply existsb_exists. exists d'. split; auto.
    rewrite (proj2 (key_eqb_eq _ _) K). cbn. unfold declared_eqb.
    destruct (list_eqb_spec str_eqb str_eqb_spec (d_declared d) (d_declared d')); [contradiction|reflexivity]. }
  rewrite T in R. discriminate.
Qed.

(* at rest, outputs that all carry one record were verified together against the hashes of a
   definition with that record key *)
Definition Inv (DL : list def) (st : state) : Prop :=
  disk st = [] \/
  exists d0, In d0 DL /\ forallb (rec_is (key_of d0)) (disk st) = true
             /\ enforced H cfg (outs_of (disk st)) (d_declared d0).

Lemma needs_building_nil st d : disk st = [] -> needs_building st d = true.
Proof. intros E. unfold needs_building. rewrite E. apply orb_true_r. Qed.

Lemma build_fresh_good DL memo st d :
  In d DL ->
  (forall m, memo = Some m -> exists outs', accepted (check_rule_hashes_with H cfg m outs' (d_declared d)) = false) ->
  let '(st', res) := build_fresh H cfg memo st d in
  let e := {| e_before := st; e_def := d; e_res := res; e_after := st' |} in
  stale_reject H cfg e = false -> event_good H cfg e /\ Inv DL st'.
Proof.
  intros Hd Hm. unfold build_fresh.
  set (placed := map fst (move_outputs H (hashfn cfg) (disk st) (d_produce d))).
  set (primary := match memo with Some m => m | None => primary_hash H (hashfn cfg) (outs_of placed) end).
  destruct (accepted (check_rule_hashes_with H cfg primary (outs_of placed) (d_declared d))) eqn:A.
  - intros _. assert (enforced H cfg (outs_of placed) (d_declared d)) as En.
    { destruct memo as [m|].
      - destruct (Hm m eq_refl) as (outs' & R). right. eapply check_with_stale; eauto.
      - apply check_iff. exact A. }
    split.
    + unfold event_good; cbn. repeat split; try discriminate.
      * rewrite outs_of_stamp. exact En.
      * right. reflexivity.
    + right. exists d. cbn. split; auto. split; [apply stamp_rec|]. rewrite outs_of_stamp. exact En.
  - intros St. unfold stale_reject in St. cbn in St.
    split; [|left; reflexivity].
    unfold event_good; cbn. repeat split; try discriminate.
    + intros E. rewrite E in A. cbn in A. discriminate.
    + intros M. assert (accepted (check_rule_hashes H cfg (outs_of placed) (d_declared d)) = true) as T.
      { apply check_iff. right. exact M. }
      rewrite T in St. discriminate.
Qed.

Lemma build_genrule_good DL st d :
  In d DL -> unamb DL -> Inv DL st ->
  let '(st', res) := build_genrule H cfg st d in
  let e := {| e_before := st; e_def := d; e_res := res; e_after := st' |} in
  stale_reject H cfg e = false -> event_good H cfg e /\ Inv DL st'.
Proof.
  intros Hd U I. unfold build_genrule.
  destruct (needs_building st d) eqn:NB; cbn [negb].
  - destruct (cache_lookup (key_of d) (cache st)) as [cfs|] eqn:CL.
    + destruct (accepted (check_rule_hashes H cfg (outs_of cfs) (d_declared d))) eqn:A.
      * intros _. assert (enforced H cfg (outs_of cfs) (d_declared d)) as En by (apply check_iff; exact A).
        split.
        -- unfold event_good; cbn. repeat split; try discriminate.
           ++ rewrite outs_of_stamp. exact En.
           ++ left; reflexivity.
           ++ exists cfs. split; auto. apply outs_of_stamp.
        -- right. exists d. cbn. split; auto. split; [apply stamp_rec|]. rewrite outs_of_stamp. exact En.
      * pose proof (build_fresh_good DL (Some (primary_hash H (hashfn cfg) (outs_of cfs)))
                      {| disk := []; meta := true; cache := cache st |} d Hd) as B.
        destruct (build_fresh H cfg (Some (primary_hash H (hashfn cfg) (outs_of cfs)))
                    {| disk := []; meta := true; cache := cache st |} d) as [st' res] eqn:BF.
        intros St.
        assert (forall m, Some (primary_hash H (hashfn cfg) (outs_of cfs)) = Some m ->
                exists outs', accepted (check_rule_hashes_with H cfg m outs' (d_declared d)) = false) as Hm.
        { intros m E; inversion E; subst. exists (outs_of cfs). exact A. }
        specialize (B Hm).
        assert (stale_reject H cfg {| e_before := {| disk := []; meta := true; cache := cache st |}; e_def := d; e_res := res; e_after := st' |} = false) as St' by exact St.
        destruct (B St') as [G I']. split; [|exact I'].
        unfold event_good in *; cbn in *. exact G.
    + pose proof (build_fresh_good DL None st d Hd) as B.
      destruct (build_fresh H cfg None st d) as [st' res]. intros St. apply B; auto. intros m E; discriminate.
  - intros _. split; [|exact I].
    unfold event_good; cbn. repeat split; try discriminate; [|left; reflexivity].
    unfold needs_building in NB. apply orb_false_iff in NB. destruct NB as [_ NB].
    destruct I as [E|(d0 & Hd0 & R & En)]; [rewrite E in NB; discriminate|].
    destruct (disk st) as [|f fs] eqn:D; [discriminate|].
    apply negb_false_iff in NB.
    change (forallb (rec_is (key_of d)) (f :: fs)) with (rec_is (key_of d) f && forallb (rec_is (key_of d)) fs) in NB.
    change (forallb (rec_is (key_of d0)) (f :: fs)) with (rec_is (key_of d0) f && forallb (rec_is (key_of d0)) fs) in R.
    apply andb_true_iff in NB. apply andb_true_iff in R.
    destruct NB as [N1 _]. destruct R as [R1 _]. unfold rec_is in N1, R1.
    destruct (f_rec f) as [k|]; [|discriminate].
    apply key_eqb_eq in N1. apply key_eqb_eq in R1.
    assert (key_of d0 = key_of d) as K by congruence.
    rewrite <- (U d0 d Hd0 Hd K). exact En.
Qed.

Lemma build_filegroup_good st d :
  let '(st', res) := build_filegroup H cfg st d in
  let e := {| e_before := st; e_def := d; e_res := res; e_after := st' |} in
  fg_unchecked H cfg e = false -> event_good H cfg e.
Proof.
  unfold build_filegroup.
  set (moved := move_outputs H (hashfn cfg) (disk st) (d_produce d)).
  destruct (existsb snd moved) eqn:C.
  - destruct (accepted (check_rule_hashes H cfg (outs_of (map fst moved)) (d_declared d))) eqn:A; intros _.
    + unfold event_good; cbn. repeat split; try discriminate; [apply check_iff; exact A|left; reflexivity].
    + unfold event_good; cbn. repeat split; try discriminate; try (intros; apply needs_building_nil; reflexivity).
      * intros E. rewrite E in A. discriminate.
      * intros M. assert (accepted (check_rule_hashes H cfg (outs_of (map fst moved)) (d_declared d)) = true) as T
            by (apply check_iff; right; exact M).
        rewrite T in A. discriminate.
  - unfold fg_unchecked; cbn. fold moved. rewrite C. cbn.
    destruct (d_declared d) eqn:D; [|discriminate]. intros _.
    unfold event_good; cbn. rewrite D. repeat split; try discriminate; [left; reflexivity|left; reflexivity].
Qed.

Lemma run_genrule_good DL steps : forall st,
  (forall d, In d (defs_of steps) -> In d DL) -> unamb DL -> Inv DL st ->
  existsb (stale_reject H cfg) (run H cfg Genrule st steps) = false ->
  Forall (event_good H cfg) (run H cfg Genrule st steps).
Proof.
  induction steps as [|s r IH]; intros st Sub U I NS; cbn [run]; [constructor|].
  destruct s as [d| |kk fs].
  - cbn [run build_one] in *. pose proof (build_genrule_good DL st d (Sub d (or_introl eq_refl)) U I) as B.
    destruct (build_genrule H cfg st d) as [st' res]. cbn [existsb] in NS. apply orb_false_iff in NS.
    destruct NS as [N1 N2]. destruct (B N1) as [G I']. constructor; auto.
    apply IH; auto. intros d' Hd'. apply Sub. right; exact Hd'.
  - apply IH; auto. left; reflexivity.
  - apply IH; auto.
Qed.

Lemma run_filegroup_good steps : forall st,
  existsb (fg_unchecked H cfg) (run H cfg Filegroup st steps) = false ->
  Forall (event_good H cfg) (run H cfg Filegroup st steps).
Proof.
  induction steps as [|s r IH]; intros st NS; cbn [run]; [constructor|].
  destruct s as [d| |kk fs].
  - cbn [run build_one] in *. pose proof (build_filegroup_good st d) as B.
    destruct (build_filegroup H cfg st d) as [st' res]. cbn [existsb] in NS. apply orb_false_iff in NS.
    destruct NS as [N1 N2]. constructor; auto.
  - apply IH; auto.
  - apply IH; auto.
Qed.

(* C35, second half, as far as the code goes: every history outside the known defect classes *)
Theorem history_good k steps :
  defect_class H cfg k steps = None ->
  Forall (event_good H cfg) (run H cfg k empty_state steps).
Proof.
  unfold defect_class. destruct k.
  - destruct (resplit (defs_of steps)) eqn:R; [discriminate|].
    destruct (existsb (stale_reject H cfg) (run H cfg Genrule empty_state steps)) eqn:S; [discriminate|].
    intros _. apply (run_genrule_good (defs_of steps)); auto.
    + apply resplit_false_unamb; exact R.
    + left; reflexivity.
  - destruct (existsb (fg_unchecked H cfg) (run H cfg Filegroup empty_state steps)) eqn:S; [discriminate|].
    intros _. apply run_filegroup_good; exact S.
Qed.

End Check.

(* ------------------------------------------------------------------------------------------ *)
(* witnesses *)

(* a total "hash function" with digests of the right size: length byte, then the input, zero padded / cut *)
Definition toyH : hashfun :=
  fun a x => firstn (algo_size a) (N.modulo (N.of_nat (length x)) 256 :: x ++ repeat 0%N (algo_size a)).

Lemma toyH_sized : H_sized toyH.
Proof.
  intros a x. unfold toyH. rewrite firstn_length. cbn [length]. rewrite app_length, repeat_length. lia.
Qed.

Definition default_cfg : config := {| hashfn := Sha256; checkers := [Sha1; Sha256; Blake3] |}.

(* filegroup: built without hashes, then a hash that matches nothing is added *)
Definition w_fg_steps : list step :=
  [SBuild {| d_declared := []; d_rest := 0; d_produce := [OFile (s "hello")] |};
   SBuild {| d_declared := [s "00"]; d_rest := 0; d_produce := [OFile (s "hello")] |}].

(* genrule: hashes = [h] verified, then the list is re-split into two halves *)
Definition w_good_hash : str := hex (toyH Sha1 (s "hi")).
Definition w_resplit_steps : list step :=
  [SBuild {| d_declared := [w_good_hash]; d_rest := 0; d_produce := [OFile (s "hi")] |};
   SBuild {| d_declared := [firstn 20 w_good_hash; skipn 20 w_good_hash]; d_rest := 0; d_produce := [OFile (s "hi")] |}].

(* genrule with a directory output declared by plz's own output hash; the cache entry is tampered with *)
Definition w_dir : list out := [ODir [s "hi"]].
Definition w_dir_hash : str := hex (primary_hash toyH Sha256 w_dir).
Definition w_dir_def : def := {| d_declared := [w_dir_hash]; d_rest := 0; d_produce := w_dir |}.
Definition w_stale_steps : list step :=
  [SBuild w_dir_def; SRmOut;
   SPoison (key_of w_dir_def) [{| f_out := ODir [s "evil"]; f_rec := None |}];
   SBuild w_dir_def].

Definition bad_event (H : hashfun) (cfg : config) (e : event) : bool :=
  (ok (e_res e) && negb (accepted (check_rule_hashes H cfg (outs_of (disk (e_after e))) (d_declared (e_def e)))))
  || (negb (ok (e_res e)) && accepted (check_rule_hashes H cfg (seen (e_res e)) (d_declared (e_def e)))).

Lemma bad_event_not_good H cfg e : H_sized H -> bad_event H cfg e = true -> ~ event_good H cfg e.
Proof.
  intros HS B G. destruct G as (G1 & G2 & _). unfold bad_event in B.
  apply orb_true_iff in B. destruct B as [B|B]; apply andb_true_iff in B; destruct B as [B1 B2].
  - destruct (G1 B1) as [En _]. apply (check_iff H HS) in En. rewrite En in B2. discriminate.
  - apply negb_true_iff in B1. destruct (G2 B1) as (_ & NM & _).
    apply (check_iff H HS) in B2. destruct B2 as [E|M]; [|contradiction].
    destruct (G2 B1) as (NE & _). contradiction.
Qed.

Lemma refute_history (k : kind) (steps : list step) :
  existsb (bad_event toyH default_cfg) (run toyH default_cfg k empty_state steps) = true ->
  ~ Forall (event_good toyH default_cfg) (run toyH default_cfg k empty_state steps).
Proof.
  intros B F. apply existsb_exists in B. destruct B as (e & Hin & Be).
  rewrite Forall_forall in F. exact (bad_event_not_good _ _ _ toyH_sized Be (F e Hin)).
Qed.

Lemma w_fg_bad : existsb (bad_event toyH default_cfg) (run toyH default_cfg Filegroup empty_state w_fg_steps) = true.
Proof. vm_compute. reflexivity. Qed.
Lemma w_resplit_bad : existsb (bad_event toyH default_cfg) (run toyH default_cfg Genrule empty_state w_resplit_steps) = true.
Proof. vm_compute. reflexivity. Qed.
Lemma w_stale_bad : existsb (bad_event toyH default_cfg) (run toyH default_cfg Genrule empty_state w_stale_steps) = true.
Proof. vm_compute. reflexivity. Qed.

Lemma w_fg_class : defect_class toyH default_cfg Filegroup w_fg_steps = Some FilegroupUncheckedInPlace.
Proof. vm_compute. reflexivity. Qed.
Lemma w_resplit_class : defect_class toyH default_cfg Genrule w_resplit_steps = Some HashListResplit.
Proof. vm_compute. reflexivity. Qed.
Lemma w_stale_class : defect_class toyH default_cfg Genrule w_stale_steps = Some StaleHashAfterRejectedRestore.
Proof. vm_compute. reflexivity. Qed.
