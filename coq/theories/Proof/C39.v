(* C39 - configuration layering: specification functions, lemmas and proofs. *)
From Coq Require Import String.
From PlzV Require Import Base.Harness Base.StrFacts Model.C39 Gen.ConfigOrder.
From Coq Require Import Lia List.

(* ================================================================================================ *)
(* 1. Equality on options, updates                                                                    *)

Lemma skind_eqb_spec a b : reflect (a = b) (skind_eqb a b).
Proof. destruct a, b; cbn; constructor; congruence. Qed.

Lemma opt_eqb_spec a b : reflect (a = b) (opt_eqb a b).
Proof.
  destruct a as [k n|n], b as [k' n'|n']; cbn [opt_eqb]; try (constructor; congruence).
  - destruct (skind_eqb_spec k k') as [->|Hk]; cbn [andb]; [|constructor; congruence].
    destruct (str_eqb_spec n n') as [->|Hn]; constructor; congruence.
  - destruct (str_eqb_spec n n') as [->|Hn]; constructor; congruence.
Qed.

Lemma opt_eqb_refl o : opt_eqb o o = true.
Proof. destruct (opt_eqb_spec o o); congruence. Qed.

Lemma opt_eqb_neq a b : a <> b -> opt_eqb a b = false.
Proof. destruct (opt_eqb_spec a b); congruence. Qed.

Lemma opt_eqb_sym a b : opt_eqb a b = opt_eqb b a.
Proof. destruct (opt_eqb_spec a b), (opt_eqb_spec b a); congruence. Qed.

Lemma upd_same c o v : upd c o v o = v.
Proof. unfold upd. now rewrite opt_eqb_refl. Qed.

Lemma upd_other c o v o' : o' <> o -> upd c o v o' = c o'.
Proof. intros H. unfold upd. now rewrite (opt_eqb_neq _ _ H). Qed.

(* ================================================================================================ *)
(* 2. The specification, written from the property text                                              *)

(* the value an assignment gives to a single-valued option *)
Definition value_of (a : assignment) : str :=
  match a with
  | Assign _ v => v
  | Blank (Single SBool _) => s "true"
  | Blank _ => []
  end.

Definition on (o : opt) (a : assignment) : bool := opt_eqb (a_opt a) o.

(* the source mentions the option *)
Definition mentions (o : opt) (l : list assignment) : bool := existsb (on o) l.

(* last assignment to o in one source *)
Fixpoint last_on (o : opt) (l : list assignment) : option assignment :=
  match l with
  | [] => None
  | a :: r => match last_on o r with
              | Some x => Some x
              | None => if on o a then Some a else None
              end
  end.

(* sources are listed from lowest to highest priority: the highest-priority source that sets o *)
Definition highest (o : opt) (srcs : list file) : option file := find (mentions o) (rev srcs).

(* values given to a repeated option, in order *)
Definition vals (o : opt) (l : list assignment) : list str :=
  flat_map (fun a => match a with Assign o' v => if opt_eqb o' o then [v] else [] | Blank _ => [] end) l.

(* what follows the last blank reset of o (None: there is no blank reset) *)
Fixpoint after_last_blank (o : opt) (l : list assignment) : option (list assignment) :=
  match l with
  | [] => None
  | a :: r => match after_last_blank o r with
              | Some suf => Some suf
              | None => if on o a && is_blank a then Some r else None
              end
  end.

(* the documented default: what DefaultConfiguration() and the setDefault calls give an option *)
Definition documented_default (sch : schema) (o : opt) : list str := apply_late sch (init_cfg sch) o.

(* what the files give a repeated option: the values accumulated in read order after the last blank reset *)
Definition accumulated_l (o : opt) (l : list assignment) : list str :=
  match after_last_blank o l with Some suf => vals o suf | None => vals o l end.
Definition accumulated (o : opt) (srcs : list file) : list str := accumulated_l o (concat srcs).
Definition layered (srcs : list file) : cfg := fun o => accumulated o srcs.

(* the default of an option that no source sets.  Third kind of default (build.path): computed from the layered value
   of the trigger options and the environment of the caller - $PATH split at ':' when PATH is passed through
   (listed in build.passenv / build.passunsafeenv by the files), else the documented fallback. *)
Definition default_of (sch : schema) (srcs : list file) (o : opt) : list str :=
  match assoc o (computed sch) with
  | Some cd => computed_value sch (layered srcs) cd
  | None => documented_default sch o
  end.

Definition spec_files (sch : schema) (o : opt) (srcs : list file) : list str :=
  match o with
  | Single _ _ =>
      match highest o srcs with
      | Some f => match last_on o f with Some a => [value_of a] | None => default_of sch srcs o end
      | None => default_of sch srcs o                     (* no source sets it *)
      end
  | Multi _ =>
      let l := concat srcs in                             (* accumulate across the files in order *)
      if mentions o l then
        match after_last_blank o l with
        | Some suf => vals o suf                          (* a blank clears everything before it *)
        | None => vals o l
        end
      else default_of sch srcs o                          (* a default only if NO source sets it *)
  end.

Fixpoint last_override (o : opt) (ovs : list override) : option str :=
  match ovs with
  | [] => None
  | ov :: r => match last_override o r with
               | Some v => Some v
               | None => if opt_eqb (fst ov) o then Some (snd ov) else None
               end
  end.

Definition spec_value (sch : schema) (o : opt) (srcs : list file) (ovs : list override) : list str :=
  match last_override o ovs with
  | Some v => if is_multi o then split_on 44 v else [v]   (* -o replaces the whole list *)
  | None => spec_files sch o srcs
  end.

(* ---- the known defect classes, as an executable classifier ---- *)
Inductive defect := BlankResetDefault | PresetListKept | DerivedOverwrite | AliasAppended.

Definition flat (srcs : list file) : list assignment := concat srcs.

(* state after the files *)
Definition rawcfg (sch : schema) (srcs : list file) : cfg := fold_left apply_file srcs (init_cfg sch).

(* state after the files, the setDefault calls and setBuildPath, before GoTool is derived *)
Definition pre (sch : schema) (srcs : list file) : cfg :=
  apply_computed sch (rawcfg sch srcs) (apply_late sch (rawcfg sch srcs)).

Definition empty_scalar (v : list str) : bool := match v with [[]] => true | _ => false end.

Definition derive_hits (sch : schema) (srcs : list file) (o : opt) : bool :=
  match derive sch with
  | Some (src, dst) => opt_eqb o dst && negb (empty_scalar (pre sch srcs src))
  | None => false
  end.

Definition late_of (sch : schema) (o : opt) : list str :=
  match assoc o (late sch) with Some d => d | None => [] end.

(* the element appended to dst when cond is false (cpp.coverage -> test.disablecoverage) *)
Definition append_hits (sch : schema) (srcs : list file) (o : opt) : bool :=
  match appended sch with
  | Some (cond, dst, _) => opt_eqb o dst && is_false (apply_derive sch (pre sch srcs) cond)
  | None => false
  end.

Definition post_hits (sch : schema) (srcs : list file) (o : opt) : bool :=
  derive_hits sch srcs o || append_hits sch srcs o.

(* what an option left empty by the files ends up with: its setDefault value, else its computed default *)
Definition fallback_of (sch : schema) (srcs : list file) (o : opt) : list str :=
  let d := late_of sch o in
  match assoc o (computed sch) with
  | Some cd => if is_nil d then computed_value sch (rawcfg sch srcs) cd else d
  | None => d
  end.

Definition defect_class (sch : schema) (srcs : list file) (ovs : list override) (o : opt) : option defect :=
  match last_override o ovs with
  | Some _ => None
  | None =>
      if derive_hits sch srcs o then Some DerivedOverwrite else
      if append_hits sch srcs o then Some AliasAppended else
      match o with
      | Single _ _ => None
      | Multi _ =>
          let l := flat srcs in
          if mentions o l then
            match after_last_blank o l with
            | Some suf => if is_nil (vals o suf) && negb (is_nil (fallback_of sch srcs o)) then Some BlankResetDefault else None
            | None => if is_nil (init_cfg sch o) then None else Some PresetListKept
            end
          else None
      end
  end.

Definition is_none {A} (x : option A) : bool := match x with None => true | _ => false end.

(* a computed default belongs to a repeated option without any other default, and reads repeated options that
   have no (non-empty) default of their own - so reading them before or after the setDefault calls is the same *)
Definition wf_computed (sch : schema) : bool :=
  forallb (fun e =>
    is_multi (fst e) && is_none (assoc (fst e) (late sch)) && is_nil (init_cfg sch (fst e))
    && forallb (fun t => is_multi (fst t) && is_nil (init_cfg sch (fst t)) && is_nil (late_of sch (fst t)))
               (cd_triggers (snd e)))
    (computed sch).

(* the option a derived value is computed from has no default of its own (GoRoot) *)
Definition wf_schema (sch : schema) : Prop :=
  match derive sch with
  | Some (src, dst) => documented_default sch src = [[]] /\ src <> dst /\ is_multi src = false
  | None => True
  end /\ wf_computed sch = true.

(* ================================================================================================ *)
(* 3. Lemmas about one stream of assignments                                                         *)

Lemma fold_files srcs c : fold_left apply_file srcs c = fold_left apply_assign (concat srcs) c.
Proof.
  revert c; induction srcs as [|f r IH]; intros c; cbn [fold_left concat]; [reflexivity|].
  rewrite IH. unfold apply_file. now rewrite fold_left_app.
Qed.

Lemma forallb_concat {A} (p : A -> bool) (ls : list (list A)) :
  forallb (forallb p) ls = forallb p (concat ls).
Proof. induction ls as [|l r IH]; cbn; [reflexivity|]. now rewrite forallb_app, IH. Qed.

Lemma apply_assign_other c a o : on o a = false -> apply_assign c a o = c o.
Proof.
  unfold on. intros H.
  assert (Hne : o <> a_opt a) by (intros ->; now rewrite opt_eqb_refl in H).
  destruct a as [[k n|n] v|[[| |] n|n]]; cbn [apply_assign a_opt] in *; try reflexivity;
    now apply upd_other.
Qed.

Lemma apply_assign_single c a k n :
  assign_ok a = true -> on (Single k n) a = true -> apply_assign c a (Single k n) = [value_of a].
Proof.
  unfold on. intros Hok H. destruct (opt_eqb_spec (a_opt a) (Single k n)) as [E|]; [|discriminate].
  destruct a as [o v|o]; cbn [a_opt] in E; subst o; cbn [apply_assign value_of].
  - apply upd_same.
  - destruct k; cbn [assign_ok] in Hok; try discriminate; apply upd_same.
Qed.

Lemma not_mentioned_fold o l c : mentions o l = false -> fold_left apply_assign l c o = c o.
Proof.
  revert c; induction l as [|a r IH]; intros c H; cbn [fold_left]; [reflexivity|].
  cbn [mentions existsb] in H. apply orb_false_iff in H as [Ha Hr].
  rewrite IH by exact Hr. now apply apply_assign_other.
Qed.

Lemma last_on_none o l : last_on o l = None <-> mentions o l = false.
Proof.
  induction l as [|a r IH]; cbn [last_on mentions existsb]; [tauto|].
  destruct (last_on o r) as [x|].
  - split; [discriminate|]. intros H. apply orb_false_iff in H as [_ Hr].
    apply IH in Hr. discriminate.
  - destruct IH as [IH _]. specialize (IH eq_refl). unfold mentions in IH. rewrite IH, orb_false_r.
    destruct (on o a); split; congruence.
Qed.

Lemma last_on_on o l a : last_on o l = Some a -> on o a = true.
Proof.
  induction l as [|b r IH]; cbn [last_on]; [discriminate|].
  destruct (last_on o r) as [x|]; [intros E; apply IH; exact E|].
  destruct (on o b) eqn:Hb; [intros [= <-]; exact Hb|discriminate].
Qed.

Lemma last_on_app o l1 l2 :
  last_on o (l1 ++ l2) = match last_on o l2 with Some x => Some x | None => last_on o l1 end.
Proof.
  induction l1 as [|a r IH]; cbn [app last_on]; [now destruct (last_on o l2)|].
  rewrite IH. now destruct (last_on o l2).
Qed.

(* single-valued option: the last assignment wins *)
Lemma fold_single k n l c :
  forallb assign_ok l = true ->
  fold_left apply_assign l c (Single k n) =
    match last_on (Single k n) l with Some a => [value_of a] | None => c (Single k n) end.
Proof.
  revert c; induction l as [|a r IH]; intros c Hok; cbn [fold_left last_on]; [reflexivity|].
  cbn [forallb] in Hok. apply andb_true_iff in Hok as [Ha Hr].
  rewrite IH by exact Hr. destruct (last_on (Single k n) r) as [x|]; [reflexivity|].
  destruct (on (Single k n) a) eqn:Hon.
  - now apply apply_assign_single.
  - now apply apply_assign_other.
Qed.

Lemma vals_app o l1 l2 : vals o (l1 ++ l2) = vals o l1 ++ vals o l2.
Proof. unfold vals. now rewrite flat_map_app. Qed.

Lemma vals_concat o srcs : vals o (concat srcs) = concat (map (vals o) srcs).
Proof. induction srcs as [|f r IH]; cbn [concat map]; [reflexivity|]. now rewrite vals_app, IH. Qed.

(* repeated option: values accumulate, a blank clears what came before *)
Lemma fold_multi n l c :
  fold_left apply_assign l c (Multi n) =
    match after_last_blank (Multi n) l with
    | Some suf => vals (Multi n) suf
    | None => c (Multi n) ++ vals (Multi n) l
    end.
Proof.
  revert c; induction l as [|a r IH]; intros c; cbn [fold_left after_last_blank].
  { cbn. now rewrite app_nil_r. }
  rewrite IH. destruct (after_last_blank (Multi n) r) as [suf|]; [reflexivity|].
  destruct (on (Multi n) a) eqn:Hon.
  - unfold on in Hon. destruct (opt_eqb_spec (a_opt a) (Multi n)) as [E|]; [|discriminate].
    destruct a as [o v|o]; cbn [a_opt] in E; subst o; cbn [andb is_blank apply_assign].
    + rewrite upd_same. cbn [vals flat_map]. rewrite opt_eqb_refl. cbn [app]. now rewrite <- app_assoc.
    + now rewrite upd_same.
  - cbn [andb]. rewrite (apply_assign_other _ _ _ Hon). f_equal.
    destruct a as [o v|o]; cbn [vals flat_map]; [|reflexivity].
    unfold on in Hon. cbn [a_opt] in Hon. now rewrite Hon.
Qed.

Lemma after_last_blank_none_not_mentioned o l : mentions o l = false -> after_last_blank o l = None.
Proof.
  induction l as [|a r IH]; cbn [after_last_blank mentions existsb]; [reflexivity|].
  intros H. apply orb_false_iff in H as [Ha Hr]. rewrite (IH Hr). now rewrite Ha.
Qed.

Lemma vals_not_mentioned o l : mentions o l = false -> vals o l = [].
Proof.
  induction l as [|a r IH]; cbn [mentions existsb]; [reflexivity|].
  intros H. apply orb_false_iff in H as [Ha Hr]. change (vals o (a :: r)) with (vals o ([a] ++ r)).
  rewrite vals_app, (IH Hr), app_nil_r. destruct a as [o' v|o']; cbn; [|reflexivity].
  unfold on in Ha. cbn in Ha. now rewrite Ha.
Qed.

(* no blank and mentioned: at least one value *)
Lemma vals_nonempty o l :
  mentions o l = true -> after_last_blank o l = None -> vals o l <> [].
Proof.
  induction l as [|a r IH]; cbn [mentions existsb after_last_blank]; [discriminate|].
  intros Hm Hb. change (vals o (a :: r)) with (vals o ([a] ++ r)). rewrite vals_app.
  destruct (after_last_blank o r) as [suf|]; [discriminate|].
  destruct (on o a) eqn:Hon; cbn [andb orb] in *.
  - destruct a as [o' v|o']; cbn [is_blank] in Hb; [|discriminate].
    unfold on in Hon; cbn in Hon. cbn. rewrite Hon. discriminate.
  - intros E. apply app_eq_nil in E as [_ E]. now apply (IH Hm eq_refl).
Qed.

(* the highest-priority source that sets o holds the last assignment to o *)
Lemma last_on_concat o srcs :
  last_on o (concat srcs) = match highest o srcs with Some f => last_on o f | None => None end.
Proof.
  unfold highest. induction srcs as [|f r IH] using rev_ind; [reflexivity|].
  rewrite concat_app, rev_app_distr. cbn [concat rev app find]. rewrite app_nil_r, last_on_app.
  destruct (mentions o f) eqn:Hm.
  - destruct (last_on o f) eqn:E; [reflexivity|]. apply last_on_none in E. congruence.
  - apply last_on_none in Hm. rewrite Hm. exact IH.
Qed.

Lemma highest_none o srcs : highest o srcs = None <-> mentions o (concat srcs) = false.
Proof.
  rewrite <- last_on_none, last_on_concat. destruct (highest o srcs) as [f|] eqn:E; [|tauto].
  unfold highest in E. apply find_some in E as [_ Hm].
  split; [discriminate|]. intros H. apply last_on_none in H. congruence.
Qed.

(* overrides *)
Lemma fold_override ovs c o :
  fold_left apply_override ovs c o =
    match last_override o ovs with
    | Some v => if is_multi o then split_on 44 v else [v]
    | None => c o
    end.
Proof.
  revert c; induction ovs as [|[o' v] r IH]; intros c; cbn [fold_left last_override]; [reflexivity|].
  rewrite IH. destruct (last_override o r); [reflexivity|]. cbn [fst snd].
  unfold apply_override; cbn [fst snd].
  destruct (opt_eqb_spec o' o) as [->|Hne].
  - destruct o; cbn [is_multi]; apply upd_same.
  - destruct o'; apply upd_other; congruence.
Qed.

(* ================================================================================================ *)
(* 4. The value theorem                                                                              *)

Lemma effective_inv sch fs filenames profiles ovs c :
  effective sch fs filenames profiles ovs = Some c ->
  let srcs := sources fs (read_order filenames profiles) in
  forallb assign_ok (flat srcs) = true /\
  c = fold_left apply_override ovs (apply_append sch (apply_derive sch (pre sch srcs))).
Proof.
  unfold effective, read_config, pre, rawcfg, flat. cbn zeta.
  rewrite forallb_concat.
  destruct (forallb assign_ok (concat (sources fs (read_order filenames profiles)))); [|discriminate].
  intros [= <-]. split; reflexivity.
Qed.

(* what the setDefault call and then setBuildPath make of the value `raw` the files left in o *)
Definition fill (sch : schema) (srcs : list file) (o : opt) (raw : list str) : list str :=
  let r1 := match assoc o (late sch) with Some d => if is_nil raw then d else raw | None => raw end in
  match assoc o (computed sch) with
  | Some cd => if is_nil r1 then computed_value sch (rawcfg sch srcs) cd else r1
  | None => r1
  end.

Lemma pre_fill sch srcs o : pre sch srcs o = fill sch srcs o (rawcfg sch srcs o).
Proof. reflexivity. Qed.

(* a value the files leave non-empty is never replaced by a default of any kind *)
Lemma fill_nonnil sch srcs o raw : raw <> [] -> fill sch srcs o raw = raw.
Proof.
  intros H. unfold fill. destruct raw as [|x r]; [congruence|]. cbn [is_nil].
  destruct (assoc o (late sch)); destruct (assoc o (computed sch)); reflexivity.
Qed.

Lemma fill_nil sch srcs o : fill sch srcs o [] = fallback_of sch srcs o.
Proof. unfold fill, fallback_of, late_of. cbn [is_nil]. destruct (assoc o (late sch)); reflexivity. Qed.

Lemma raw_single sch srcs k n :
  forallb assign_ok (flat srcs) = true ->
  rawcfg sch srcs (Single k n) =
    match last_on (Single k n) (flat srcs) with Some a => [value_of a] | None => init_cfg sch (Single k n) end.
Proof. intros Hok. unfold rawcfg. rewrite fold_files. fold (flat srcs). now rewrite fold_single by exact Hok. Qed.

Lemma raw_multi sch srcs n :
  rawcfg sch srcs (Multi n) =
    match after_last_blank (Multi n) (flat srcs) with
    | Some suf => vals (Multi n) suf
    | None => init_cfg sch (Multi n) ++ vals (Multi n) (flat srcs)
    end.
Proof. unfold rawcfg. rewrite fold_files. fold (flat srcs). now rewrite fold_multi. Qed.

Lemma pre_value sch srcs o :
  forallb assign_ok (flat srcs) = true ->
  pre sch srcs o =
    fill sch srcs o
      match o with
      | Single k n => match last_on o (flat srcs) with Some a => [value_of a] | None => init_cfg sch o end
      | Multi n => match after_last_blank o (flat srcs) with
                   | Some suf => vals o suf
                   | None => init_cfg sch o ++ vals o (flat srcs)
                   end
      end.
Proof.
  intros Hok. rewrite pre_fill. destruct o as [k n|n]; [now rewrite raw_single by exact Hok|now rewrite raw_multi].
Qed.

(* a repeated option that is not pre-filled holds, after the files, exactly the accumulated values *)
Lemma raw_accumulated sch srcs n :
  init_cfg sch (Multi n) = [] -> rawcfg sch srcs (Multi n) = accumulated (Multi n) srcs.
Proof.
  intros Hi. rewrite raw_multi. unfold accumulated, accumulated_l, flat.
  destruct (after_last_blank (Multi n) (concat srcs)); [reflexivity|now rewrite Hi].
Qed.

Lemma assoc_in {A} o (l : list (opt * A)) v : assoc o l = Some v -> In (o, v) l.
Proof.
  induction l as [|[k x] r IH]; cbn [assoc]; [discriminate|].
  destruct (opt_eqb_spec o k) as [->|Hne]; [intros [= ->]; now left|intros H; right; now apply IH].
Qed.

Lemma existsb_ext_in {A} (f g : A -> bool) l : (forall x, In x l -> f x = g x) -> existsb f l = existsb g l.
Proof.
  induction l as [|a r IH]; intros H; cbn [existsb]; [reflexivity|].
  rewrite (H a (or_introl eq_refl)), IH; [reflexivity|]. intros x Hx. apply H. now right.
Qed.

Lemma wf_computed_entry sch o cd :
  wf_computed sch = true -> assoc o (computed sch) = Some cd ->
  is_multi o = true /\ assoc o (late sch) = None /\ init_cfg sch o = [] /\
  forall t, In t (cd_triggers cd) -> is_multi (fst t) = true /\ init_cfg sch (fst t) = [].
Proof.
  intros Hwf Ha. apply assoc_in in Ha. unfold wf_computed in Hwf.
  rewrite forallb_forall in Hwf. specialize (Hwf _ Ha). cbn [fst snd] in Hwf.
  apply andb_true_iff in Hwf as [Hwf Ht]. apply andb_true_iff in Hwf as [Hwf Hi].
  apply andb_true_iff in Hwf as [Hm Hl].
  repeat split.
  - exact Hm.
  - destruct (assoc o (late sch)); [discriminate|reflexivity].
  - destruct (init_cfg sch o); [reflexivity|discriminate].
  - rewrite forallb_forall in Ht. specialize (Ht _ H). apply andb_true_iff in Ht as [Ht _].
    now apply andb_true_iff in Ht as [Ht _].
  - rewrite forallb_forall in Ht. specialize (Ht _ H). apply andb_true_iff in Ht as [Ht _].
    apply andb_true_iff in Ht as [_ Ht]. destruct (init_cfg sch (fst t)); [reflexivity|discriminate].
Qed.

(* setBuildPath sees the trigger options as the documented layering leaves them *)
Lemma triggered_layered sch srcs o cd :
  wf_computed sch = true -> assoc o (computed sch) = Some cd ->
  triggered (rawcfg sch srcs) cd = triggered (layered srcs) cd.
Proof.
  intros Hwf Ha. destruct (wf_computed_entry _ _ _ Hwf Ha) as [_ [_ [_ Ht]]].
  unfold triggered. apply existsb_ext_in. intros t Hin. destruct (Ht _ Hin) as [Hm Hi].
  unfold layered. destruct (fst t) as [k n|n]; [discriminate|]. now rewrite raw_accumulated.
Qed.

Lemma computed_value_layered sch srcs o cd :
  wf_computed sch = true -> assoc o (computed sch) = Some cd ->
  computed_value sch (rawcfg sch srcs) cd = computed_value sch (layered srcs) cd.
Proof. intros Hwf Ha. unfold computed_value. now rewrite (triggered_layered _ _ _ _ Hwf Ha). Qed.

Lemma pre_not_mentioned sch srcs o :
  wf_computed sch = true ->
  mentions o (flat srcs) = false -> pre sch srcs o = default_of sch srcs o.
Proof.
  intros Hwf H. rewrite pre_fill. unfold rawcfg. rewrite fold_files. fold (flat srcs).
  rewrite not_mentioned_fold by exact H. unfold fill, default_of.
  destruct (assoc o (computed sch)) as [cd|] eqn:Hc.
  - destruct (wf_computed_entry _ _ _ Hwf Hc) as [_ [Hl [Hi _]]]. rewrite Hl, Hi. cbn [is_nil].
    exact (computed_value_layered _ _ _ _ Hwf Hc).
  - reflexivity.
Qed.

Lemma derive_effect sch srcs o :
  derive_hits sch srcs o = false -> apply_derive sch (pre sch srcs) o = pre sch srcs o.
Proof.
  unfold derive_hits, apply_derive. destruct (derive sch) as [[src dst]|]; [|reflexivity].
  intros H. destruct (opt_eqb_spec o dst) as [->|Hne]; cbn [andb] in H.
  - apply negb_false_iff in H.
    destruct (pre sch srcs src) as [|[|x0 x] [|y t]]; cbn [empty_scalar] in H; try discriminate. reflexivity.
  - destruct (pre sch srcs src) as [|[|x0 x] [|y t]]; try reflexivity; now apply upd_other.
Qed.

Lemma post_effect2 sch srcs o :
  derive_hits sch srcs o = false -> append_hits sch srcs o = false ->
  apply_append sch (apply_derive sch (pre sch srcs)) o = pre sch srcs o.
Proof.
  intros Hd Ha. unfold apply_append, append_hits in *.
  destruct (appended sch) as [[[cond dst] v]|]; [|now apply derive_effect].
  destruct (is_false (apply_derive sch (pre sch srcs) cond)); [|now apply derive_effect].
  rewrite andb_true_r in Ha. rewrite upd_other; [now apply derive_effect|].
  intros ->. now rewrite opt_eqb_refl in Ha.
Qed.

Lemma post_effect sch srcs o :
  post_hits sch srcs o = false ->
  apply_append sch (apply_derive sch (pre sch srcs)) o = pre sch srcs o.
Proof. unfold post_hits. intros H. apply orb_false_iff in H as [Hd Ha]. now apply post_effect2. Qed.

Theorem values_partial :
  forall sch fs filenames profiles ovs c,
    wf_schema sch ->
    effective sch fs filenames profiles ovs = Some c ->
    let srcs := sources fs (read_order filenames profiles) in
    forall o, defect_class sch srcs ovs o = None -> c o = spec_value sch o srcs ovs.
Proof.
  intros sch fs filenames profiles ovs c [_ Hwf] Heff srcs o Hcls.
  apply effective_inv in Heff. fold srcs in Heff. destruct Heff as [Hok ->].
  rewrite fold_override. unfold spec_value, defect_class in *.
  destruct (last_override o ovs) as [v|]; [reflexivity|].
  destruct (derive_hits sch srcs o) eqn:Hd; [discriminate|].
  destruct (append_hits sch srcs o) eqn:Hap; [discriminate|].
  rewrite (post_effect2 _ _ _ Hd Hap). unfold spec_files.
  destruct o as [k n|n].
  - (* single-valued *)
    destruct (highest (Single k n) srcs) as [f|] eqn:Hh.
    + rewrite pre_value by exact Hok. unfold flat. rewrite last_on_concat, Hh.
      destruct (last_on (Single k n) f) as [a|] eqn:Hl.
      * apply fill_nonnil. discriminate.
      * unfold highest in Hh. apply find_some in Hh as [_ Hm]. apply last_on_none in Hl. congruence.
    + apply pre_not_mentioned; [exact Hwf|]. now apply highest_none.
  - (* repeated *)
    fold (flat srcs). cbn zeta in Hcls.
    destruct (mentions (Multi n) (flat srcs)) eqn:Hm.
    + rewrite pre_value by exact Hok.
      destruct (after_last_blank (Multi n) (flat srcs)) as [suf|] eqn:Hb.
      * destruct (vals (Multi n) suf) as [|x t] eqn:Hv.
        -- rewrite fill_nil. cbn [is_nil andb] in Hcls.
           destruct (fallback_of sch srcs (Multi n)); [reflexivity|discriminate].
        -- apply fill_nonnil. discriminate.
      * destruct (init_cfg sch (Multi n)) as [|x t] eqn:Hi; [|discriminate]. cbn [app].
        apply fill_nonnil. exact (vals_nonempty _ _ Hm Hb).
    + now apply pre_not_mentioned.
Qed.

(* the two list classes are exact: when the classifier names one, the code really differs from the documented value *)
Theorem list_defects_real :
  forall sch fs filenames profiles ovs c,
    effective sch fs filenames profiles ovs = Some c ->
    let srcs := sources fs (read_order filenames profiles) in
    forall o d, defect_class sch srcs ovs o = Some d -> d <> DerivedOverwrite -> d <> AliasAppended ->
      c o <> spec_value sch o srcs ovs.
Proof.
  intros sch fs filenames profiles ovs c Heff srcs o d Hcls Hd Hal.
  apply effective_inv in Heff. fold srcs in Heff. destruct Heff as [Hok ->].
  rewrite fold_override. unfold spec_value, defect_class in *.
  destruct (last_override o ovs) as [v|]; [discriminate|].
  destruct (derive_hits sch srcs o) eqn:Hdh; [congruence|].
  destruct (append_hits sch srcs o) eqn:Hap; [congruence|].
  rewrite (post_effect2 _ _ _ Hdh Hap). unfold spec_files.
  destruct o as [k n|n]; [discriminate|]. cbn zeta in Hcls. fold (flat srcs).
  destruct (mentions (Multi n) (flat srcs)) eqn:Hm; [|discriminate].
  rewrite pre_value by exact Hok.
  destruct (after_last_blank (Multi n) (flat srcs)) as [suf|] eqn:Hb.
  - destruct (vals (Multi n) suf); cbn [is_nil andb negb] in Hcls; [|discriminate].
    rewrite fill_nil. destruct (fallback_of sch srcs (Multi n)); cbn [is_nil negb] in Hcls; discriminate.
  - destruct (init_cfg sch (Multi n)) as [|x t] eqn:Hi; [discriminate|].
    rewrite fill_nonnil by discriminate.
    intros E. apply (f_equal (@length _)) in E. rewrite app_length in E. cbn in E. lia.
Qed.

(* ================================================================================================ *)
(* 5. Source-level corollaries (what the property says, clause by clause)                            *)

(* effective value of a single-valued option = value from the highest-priority source that sets it *)
Theorem scalar_highest_priority :
  forall sch fs filenames profiles ovs c k n,
    effective sch fs filenames profiles ovs = Some c ->
    let o := Single k n in
    let srcs := sources fs (read_order filenames profiles) in
    last_override o ovs = None -> post_hits sch srcs o = false ->
    forall lower f higher a,
      srcs = lower ++ f :: higher ->                       (* f is read after `lower`, before `higher` *)
      Forall (fun g => mentions o g = false) higher ->     (* nothing of higher priority sets o *)
      last_on o f = Some a ->                               (* a is f's last word on o *)
      c o = [value_of a].
Proof.
  intros sch fs filenames profiles ovs c k n Heff o srcs Hov Hd lower f higher a Hs Hhi Ha.
  apply effective_inv in Heff. fold srcs in Heff. destruct Heff as [Hok ->].
  rewrite fold_override, Hov, (post_effect _ _ _ Hd), pre_fill. subst o. rewrite raw_single by exact Hok.
  unfold flat. rewrite Hs, concat_app. cbn [concat]. rewrite !last_on_app.
  assert (Hh : last_on (Single k n) (concat higher) = None).
  { apply last_on_none. clear -Hhi. induction Hhi as [|g r Hg _ IH]; [reflexivity|].
    cbn [concat]. unfold mentions in *. now rewrite existsb_app, Hg, IH. }
  rewrite Hh, Ha. apply fill_nonnil. discriminate.
Qed.

(* repeated options accumulate across the files in read order *)
Theorem repeated_accumulate :
  forall sch fs filenames profiles ovs c n,
    effective sch fs filenames profiles ovs = Some c ->
    let o := Multi n in
    let srcs := sources fs (read_order filenames profiles) in
    last_override o ovs = None -> post_hits sch srcs o = false ->
    after_last_blank o (flat srcs) = None -> mentions o (flat srcs) = true ->
    c o = init_cfg sch o ++ concat (map (vals o) srcs).
Proof.
  intros sch fs filenames profiles ovs c n Heff o srcs Hov Hd Hb Hm.
  apply effective_inv in Heff. fold srcs in Heff. destruct Heff as [Hok ->].
  rewrite fold_override, Hov, (post_effect _ _ _ Hd), pre_fill. subst o. rewrite raw_multi, Hb.
  pose proof (vals_nonempty _ _ Hm Hb) as Hne.
  unfold flat in *. rewrite vals_concat in *.
  apply fill_nonnil. intros E. apply app_eq_nil in E as [_ E]. congruence.
Qed.

(* a blank value clears everything set before it, in that file and in every file of lower priority *)
Theorem blank_clears :
  forall sch fs filenames profiles ovs c n,
    effective sch fs filenames profiles ovs = Some c ->
    let o := Multi n in
    let srcs := sources fs (read_order filenames profiles) in
    last_override o ovs = None -> post_hits sch srcs o = false ->
    forall before after,
      flat srcs = before ++ Blank o :: after ->
      after_last_blank o after = None ->                   (* the last blank reset *)
      vals o after <> [] ->
      c o = vals o after.
Proof.
  intros sch fs filenames profiles ovs c n Heff o srcs Hov Hd before after Hs Hb Hne.
  apply effective_inv in Heff. fold srcs in Heff. destruct Heff as [Hok ->].
  rewrite fold_override, Hov, (post_effect _ _ _ Hd), pre_fill. subst o. rewrite raw_multi, Hs.
  assert (E : after_last_blank (Multi n) (before ++ Blank (Multi n) :: after) = Some after).
  { clear -Hb. induction before as [|a r IH]; cbn [app after_last_blank].
    - rewrite Hb. unfold on. cbn [a_opt is_blank]. now rewrite opt_eqb_refl.
    - now rewrite IH. }
  rewrite E. now apply fill_nonnil.
Qed.

(* a command-line override replaces the whole list / sets the scalar, whatever the files say *)
Theorem override_replaces :
  forall sch fs filenames profiles ovs c o v,
    effective sch fs filenames profiles ovs = Some c ->
    last_override o ovs = Some v ->
    c o = if is_multi o then split_on 44 v else [v].
Proof.
  intros sch fs filenames profiles ovs c o v Heff Hov.
  apply effective_inv in Heff. destruct Heff as [_ ->]. now rewrite fold_override, Hov.
Qed.

(* defaults - documented literals, setDefault values and computed defaults alike - apply to options that no source sets *)
Theorem default_when_unset :
  forall sch fs filenames profiles ovs c o,
    wf_schema sch ->
    effective sch fs filenames profiles ovs = Some c ->
    let srcs := sources fs (read_order filenames profiles) in
    last_override o ovs = None -> post_hits sch srcs o = false ->
    mentions o (flat srcs) = false ->
    c o = default_of sch srcs o.
Proof.
  intros sch fs filenames profiles ovs c o [_ Hwf] Heff srcs Hov Hd Hm.
  apply effective_inv in Heff. fold srcs in Heff. destruct Heff as [Hok ->].
  now rewrite fold_override, Hov, (post_effect _ _ _ Hd), pre_not_mentioned.
Qed.

(* ... and what the code does for "set, then blank-reset as the last word": the default comes back *)
Theorem blank_last_restores_default :
  forall sch fs filenames profiles ovs c n,
    effective sch fs filenames profiles ovs = Some c ->
    let o := Multi n in
    let srcs := sources fs (read_order filenames profiles) in
    last_override o ovs = None -> post_hits sch srcs o = false ->
    forall before after,
      flat srcs = before ++ Blank o :: after -> mentions o after = false ->
      c o = fallback_of sch srcs o.
Proof.
  intros sch fs filenames profiles ovs c n Heff o srcs Hov Hd before after Hs Hm.
  apply effective_inv in Heff. fold srcs in Heff. destruct Heff as [Hok ->].
  rewrite fold_override, Hov, (post_effect _ _ _ Hd), pre_fill. subst o. rewrite raw_multi, Hs.
  assert (E : after_last_blank (Multi n) (before ++ Blank (Multi n) :: after) = Some after).
  { pose proof (after_last_blank_none_not_mentioned _ _ Hm) as Hb. clear -Hb.
    induction before as [|a r IH]; cbn [app after_last_blank].
    - rewrite Hb. unfold on. cbn [a_opt is_blank]. now rewrite opt_eqb_refl.
    - now rewrite IH. }
  rewrite E, (vals_not_mentioned _ _ Hm). apply fill_nil.
Qed.

(* ================================================================================================ *)
(* 5b. Computed defaults (setBuildPath)                                                              *)

(* An option the files leave non-empty NEVER gets a default - neither a setDefault value nor a computed one -
   whatever the trigger options and the environment of the caller say. *)
Theorem explicit_beats_default :
  forall sch fs filenames profiles ovs c n,
    effective sch fs filenames profiles ovs = Some c ->
    let o := Multi n in
    let srcs := sources fs (read_order filenames profiles) in
    last_override o ovs = None -> post_hits sch srcs o = false ->
    accumulated o srcs <> [] ->
    c o = (match after_last_blank o (flat srcs) with Some _ => [] | None => init_cfg sch o end) ++ accumulated o srcs.
Proof.
  intros sch fs filenames profiles ovs c n Heff o srcs Hov Hd Hne.
  apply effective_inv in Heff. fold srcs in Heff. destruct Heff as [Hok ->].
  rewrite fold_override, Hov, (post_effect _ _ _ Hd), pre_fill. subst o. rewrite raw_multi.
  unfold accumulated, accumulated_l in *. fold (flat srcs) in *.
  destruct (after_last_blank (Multi n) (flat srcs)); cbn [app].
  - now apply fill_nonnil.
  - apply fill_nonnil. intros E. apply app_eq_nil in E as [_ E]. congruence.
Qed.

Definition no_blank_on (o : opt) (l : list assignment) : bool :=
  forallb (fun a => negb (on o a && is_blank a)) l.

Lemma after_last_blank_none_iff o l : after_last_blank o l = None <-> no_blank_on o l = true.
Proof.
  induction l as [|a r IH]; cbn [after_last_blank no_blank_on forallb]; [tauto|].
  fold (no_blank_on o r). destruct (after_last_blank o r) as [suf|].
  - split; [discriminate|]. intros H. apply andb_true_iff in H as [_ H]. apply IH in H. discriminate.
  - destruct IH as [IH _]. rewrite (IH eq_refl), andb_true_r.
    destruct (on o a && is_blank a); cbn [negb]; split; congruence.
Qed.

Lemma accumulated_cons o a r :
  accumulated_l o (a :: r) =
    if no_blank_on o r
    then (if on o a && is_blank a then [] else vals o [a]) ++ accumulated_l o r
    else accumulated_l o r.
Proof.
  unfold accumulated_l. cbn [after_last_blank].
  destruct (after_last_blank o r) as [suf|] eqn:Hb.
  - assert (Hn : no_blank_on o r = false).
    { destruct (no_blank_on o r) eqn:E; [|reflexivity]. apply after_last_blank_none_iff in E. congruence. }
    now rewrite Hn.
  - rewrite (proj1 (after_last_blank_none_iff o r) Hb).
    destruct (on o a && is_blank a); [reflexivity|].
    change (a :: r) with ([a] ++ r). now rewrite vals_app.
Qed.

Lemma mem_app v l1 l2 : mem v (l1 ++ l2) = mem v l1 || mem v l2.
Proof. unfold mem. apply existsb_app. Qed.

(* INDUCTION OVER THE ASSIGNMENT STREAM: an element is in the accumulated value of a repeated option iff some
   assignment of exactly that element is not followed by a blank reset of the option. *)
Theorem mem_accumulated_iff :
  forall n v l,
    mem v (accumulated_l (Multi n) l) = true <->
    exists before after, l = before ++ Assign (Multi n) v :: after /\ no_blank_on (Multi n) after = true.
Proof.
  intros n v l. set (o := Multi n). split.
  - induction l as [|a r IH]; [discriminate|].
    rewrite accumulated_cons. destruct (no_blank_on o r) eqn:Hnb.
    + rewrite mem_app. intros H. apply orb_true_iff in H as [H|H].
      * destruct (on o a && is_blank a); [discriminate|].
        destruct a as [o' v'|o']; cbn [vals flat_map app] in H; [|discriminate].
        destruct (opt_eqb_spec o' o) as [->|]; [|discriminate].
        cbn [app] in H. unfold mem in H. cbn [existsb] in H. rewrite orb_false_r in H.
        destruct (str_eqb_spec v v') as [->|]; [|discriminate].
        exists [], r. split; [reflexivity|exact Hnb].
      * destruct (IH H) as [b [af [-> Haf]]]. exists (a :: b), af. split; [reflexivity|exact Haf].
    + intros H. destruct (IH H) as [b [af [-> Haf]]]. exists (a :: b), af. split; [reflexivity|exact Haf].
  - intros [b [af [-> Haf]]]. induction b as [|a r IH]; cbn [app].
    + rewrite accumulated_cons, Haf. unfold on. cbn [a_opt is_blank andb]. rewrite andb_false_r.
      cbn [vals flat_map app]. fold o. rewrite opt_eqb_refl. cbn [app mem existsb].
      destruct (str_eqb_spec v v); [reflexivity|congruence].
    + rewrite accumulated_cons. destruct (no_blank_on o (r ++ Assign o v :: af)); [|exact IH].
      rewrite mem_app, IH. apply orb_true_r.
Qed.

(* the value of a computed default is the split environment variable or the fallback, nothing else *)
Lemma computed_value_cases sch look cd :
  (triggered look cd = true /\ computed_value sch look cd = split_on (cd_sep cd) (getenv sch (cd_var cd)))
  \/ (triggered look cd = false /\ computed_value sch look cd = cd_fallback cd).
Proof. unfold computed_value. destruct (triggered look cd); [left|right]; split; reflexivity. Qed.

(* Source-level form of the computed default: an option with a computed default that no source sets gets
   the environment variable of the caller, split, iff SOME source lists the trigger element in a trigger option
   and no later blank reset clears it; otherwise the documented fallback. *)
Theorem computed_default_source_level :
  forall sch fs filenames profiles ovs c o cd,
    wf_schema sch ->
    effective sch fs filenames profiles ovs = Some c ->
    let srcs := sources fs (read_order filenames profiles) in
    last_override o ovs = None -> post_hits sch srcs o = false ->
    assoc o (computed sch) = Some cd ->
    mentions o (flat srcs) = false ->
    ((exists t before after, In t (cd_triggers cd) /\
        flat srcs = before ++ Assign (fst t) (snd t) :: after /\ no_blank_on (fst t) after = true)
     /\ c o = split_on (cd_sep cd) (getenv sch (cd_var cd)))
    \/
    ((forall t before after, In t (cd_triggers cd) ->
        flat srcs = before ++ Assign (fst t) (snd t) :: after -> no_blank_on (fst t) after = false)
     /\ c o = cd_fallback cd).
Proof.
  intros sch fs filenames profiles ovs c o cd Hwf Heff srcs Hov Hd Hc Hm.
  rewrite (default_when_unset _ _ _ _ _ _ _ Hwf Heff Hov Hd Hm). fold srcs. unfold default_of. rewrite Hc.
  destruct Hwf as [_ Hwf]. destruct (wf_computed_entry _ _ _ Hwf Hc) as [_ [_ [_ Ht]]].
  destruct (computed_value_cases sch (layered srcs) cd) as [[Htr ->]|[Htr ->]]; [left|right]; (split; [|reflexivity]).
  - unfold triggered in Htr. apply existsb_exists in Htr as [t [Hin Hmem]].
    destruct (Ht _ Hin) as [Hmu _]. destruct t as [[k n|n] v]; [discriminate|]. cbn [fst snd] in *.
    unfold layered, accumulated in Hmem. apply mem_accumulated_iff in Hmem as [b [af [E Haf]]].
    exists (Multi n, v), b, af. repeat split; assumption.
  - intros t b af Hin E. destruct (Ht _ Hin) as [Hmu _]. destruct t as [[k n|n] v]; [discriminate|]. cbn [fst snd] in *.
    destruct (no_blank_on (Multi n) af) eqn:Haf; [|reflexivity]. exfalso.
    assert (Hmem : mem v (layered srcs (Multi n)) = true).
    { unfold layered, accumulated. apply mem_accumulated_iff. exists b, af. split; assumption. }
    assert (Htr' : triggered (layered srcs) cd = true).
    { unfold triggered. apply existsb_exists. exists (Multi n, v). split; assumption. }
    congruence.
Qed.

(* The environment of the caller reaches an option only through a computed default that is actually applied:
   two runs that differ in nothing but the environment agree on every option that has no computed default or that
   the files leave non-empty (and that is not computed from another option afterwards). *)
Definition same_tables (s1 s2 : schema) : Prop :=
  init s1 = init s2 /\ late s1 = late s2 /\ derive s1 = derive s2 /\ computed s1 = computed s2 /\ appended s1 = appended s2.

Theorem environment_only_reaches_unset_computed :
  forall s1 s2 fs filenames profiles ovs c1 c2 o,
    same_tables s1 s2 ->
    effective s1 fs filenames profiles ovs = Some c1 ->
    effective s2 fs filenames profiles ovs = Some c2 ->
    let srcs := sources fs (read_order filenames profiles) in
    post_hits s1 srcs o = false -> post_hits s2 srcs o = false ->
    assoc o (computed s1) = None \/ rawcfg s1 srcs o <> [] ->
    c1 o = c2 o.
Proof.
  intros s1 s2 fs filenames profiles ovs c1 c2 o [Hi [Hl [_ [Hc _]]]] H1 H2 srcs Hp1 Hp2 Hor.
  apply effective_inv in H1. apply effective_inv in H2. fold srcs in H1, H2.
  destruct H1 as [_ ->]. destruct H2 as [_ ->].
  rewrite !fold_override. destruct (last_override o ovs); [reflexivity|].
  rewrite (post_effect _ _ _ Hp1), (post_effect _ _ _ Hp2), !pre_fill.
  assert (Hraw : rawcfg s1 srcs = rawcfg s2 srcs).
  { unfold rawcfg, init_cfg. now rewrite Hi. }
  rewrite <- Hraw. destruct Hor as [Hn|Hne].
  - unfold fill. rewrite <- Hl, <- Hc, Hn. reflexivity.
  - now rewrite !fill_nonnil.
Qed.

(* ================================================================================================ *)
(* 6. File order                                                                                     *)

(* every profile file is read right after the file it belongs to, profiles in the order given *)
Theorem profile_adjacent :
  forall before f after profiles,
    read_order (before ++ f :: after) profiles =
      read_order before profiles ++ (f :: map (profile_file f) profiles) ++ read_order after profiles.
Proof.
  intros. unfold read_order. rewrite flat_map_app. cbn [flat_map]. reflexivity.
Qed.

(* a missing file contributes nothing; an existing one contributes its content once per read *)
Theorem sources_app fs o1 o2 : sources fs (o1 ++ o2) = sources fs o1 ++ sources fs o2.
Proof. unfold sources. apply flat_map_app. Qed.

Theorem missing_file_ignored fs name : fs_open fs name = None -> sources fs [name] = [].
Proof. intros H. unfold sources. cbn. now rewrite H. Qed.

(* ---- tie to the source: the search order and the per-file reads regenerated by gotrans ---- *)
Definition sep_code (x : string) : N := match s x with [c] => c | _ => 0%N end.

Definition expand_home (e : env) (p : str) : str :=
  match p with 126%N :: rest => e_home e ++ rest | _ => p end.

(* replaces the marker <arch> (only recognised at the very end of the name or followed by more text) *)
Fixpoint subst_arch (arch : str) (p : str) : str :=
  match p with
  | 60%N :: 97%N :: 114%N :: 99%N :: 104%N :: 62%N :: rest =>
      match rest with [] => arch | _ => arch ++ subst_arch arch rest end
  | c :: rest => c :: subst_arch arch rest
  | [] => []
  end.

Definition env_var (e : env) (var : string) : str :=
  if String.eqb var "XDG_CONFIG_DIRS" then e_xdg_dirs e
  else if String.eqb var "XDG_CONFIG_HOME" then e_xdg_home e else [].

Definition interp_src (e : env) (x : cfg_src) : list str :=
  match x with
  | SrcAbs p => [s p]
  | SrcEnvDirs var sep name =>
      if nonempty (env_var e var)
      then map (fun p => join p (s name)) (filter is_abs (split_on (sep_code sep) (env_var e var)))
      else []
  | SrcHome p => [expand_home e (s p)]
  | SrcEnvDir var name =>
      if nonempty (env_var e var) && is_abs (env_var e var) then [join (env_var e var) (s name)] else []
  | SrcRepo name => [join (e_root e) (subst_arch (e_arch e) (s name))]
  end.

Definition apply_dedupe (m : dedupe_mode) (l : list str) : list str :=
  match m with DedupeNone => l | DedupeKeepLast => keep_last l end.

Lemma gen_default_files :
  forall e, default_files e =
    apply_dedupe global_dedupe (flat_map (interp_src e) global_order) ++ flat_map (interp_src e) repo_order.
Proof.
  intros [xd h xh r a]. unfold default_files, global_files, global_files_raw, repo_files, global_order, repo_order, global_dedupe, apply_dedupe.
  cbn [app flat_map interp_src env_var String.eqb Ascii.eqb Bool.eqb e_xdg_dirs e_home e_xdg_home e_root e_arch].
  unfold user_file, expand_home, config_name, join. cbn [e_home e_root e_arch].
  change (sep_code ":") with 58%N.
  change (s "~/.config/please/plzconfig") with (126%N :: s "/.config/please/plzconfig").
  change (subst_arch a (s ".plzconfig")) with (s ".plzconfig").
  change (subst_arch a (s ".plzconfig.local")) with (s ".plzconfig.local").
  change (subst_arch a (s ".plzconfig_<arch>")) with (s ".plzconfig_" ++ a).
  cbn [app]. rewrite ?app_nil_r. reflexivity.
Qed.

(* keep_last: every name once (INDUCTION over the list), nothing lost, nothing invented, and the identity on a list without
   repetitions - so in the ordinary case the search order is literally the documented one *)
Lemma existsb_str_In x l : existsb (str_eqb x) l = true <-> In x l.
Proof.
  rewrite existsb_exists. split.
  - intros [y [Hy E]]. destruct (str_eqb_spec x y); [now subst|discriminate].
  - intros H. exists x. split; [exact H|]. destruct (str_eqb_spec x x); congruence.
Qed.

Lemma keep_last_In x l : In x (keep_last l) <-> In x l.
Proof.
  induction l as [|a r IH]; cbn [keep_last In]; [tauto|].
  destruct (existsb (str_eqb a) r) eqn:E.
  - rewrite IH. apply existsb_str_In in E. split; [tauto|]. intros [<-|H]; assumption.
  - cbn [In]. rewrite IH. tauto.
Qed.

Lemma keep_last_NoDup l : NoDup (keep_last l).
Proof.
  induction l as [|a r IH]; cbn [keep_last]; [constructor|].
  destruct (existsb (str_eqb a) r) eqn:E; [exact IH|]. constructor; [|exact IH].
  rewrite keep_last_In. intros H. apply existsb_str_In in H. congruence.
Qed.

Lemma keep_last_id l : NoDup l -> keep_last l = l.
Proof.
  induction 1 as [|a r Hnin _ IH]; cbn [keep_last]; [reflexivity|].
  destruct (existsb (str_eqb a) r) eqn:E; [apply existsb_str_In in E; contradiction|]. now rewrite IH.
Qed.

(* the name that is kept is the LAST mention: whatever follows the last mention of x stays behind it *)
Lemma keep_last_last before x after :
  ~ In x after -> exists pre, keep_last (before ++ x :: after) = pre ++ x :: keep_last after /\ ~ In x pre.
Proof.
  intros Hn. induction before as [|a r [pre [IH Hpre]]]; cbn [app keep_last].
  - exists []. destruct (existsb (str_eqb x) after) eqn:E; [apply existsb_str_In in E; contradiction|]. split; [reflexivity|tauto].
  - destruct (existsb (str_eqb a) (r ++ x :: after)) eqn:E.
    + exists pre. split; [exact IH|exact Hpre].
    + exists (a :: pre). split; [cbn [app]; now rewrite IH|].
      intros [->|H]; [|contradiction].
      assert (existsb (str_eqb x) (r ++ x :: after) = true) by (apply existsb_str_In, in_or_app; right; now left).
      congruence.
Qed.



Definition interp_reads (profiles : list str) (filename : str) (r : cfg_read) : list str :=
  match r with
  | ReadFile => [filename]
  | ReadProfiles sep => map (fun p => filename ++ s sep ++ p) profiles
  end.

Lemma gen_reads_for : forall profiles f, reads_for profiles f = flat_map (interp_reads profiles f) per_file_reads.
Proof. intros. unfold reads_for, per_file_reads. cbn [flat_map interp_reads app]. now rewrite app_nil_r. Qed.

(* the documented order: /etc/please/plzconfig, [XDG dirs], user config, [XDG home], .plzconfig, .plzconfig_<arch>, .plzconfig.local *)
Theorem default_order_documented :
  forall e, exists xdg_dirs xdg_home,
    default_files e =
      keep_last ([s "/etc/please/plzconfig"] ++ xdg_dirs ++ [e_home e ++ s "/.config/please/plzconfig"] ++ xdg_home) ++
      [e_root e ++ s "/.plzconfig"; e_root e ++ s "/.plzconfig_" ++ e_arch e; e_root e ++ s "/.plzconfig.local"].
Proof.
  intros e. rewrite gen_default_files.
  exists (interp_src e (SrcEnvDirs "XDG_CONFIG_DIRS" ":" "plzconfig")), (interp_src e (SrcEnvDir "XDG_CONFIG_HOME" "plzconfig")).
  unfold global_order, repo_order, global_dedupe, apply_dedupe. cbn [app flat_map]. rewrite ?app_nil_r.
  destruct e as [xd h xh r a]. unfold interp_src at 1 3 5 6 7.
  cbn [e_home e_root e_arch]. unfold expand_home, join.
  change (s "~/.config/please/plzconfig") with (126%N :: s "/.config/please/plzconfig").
  change (subst_arch a (s ".plzconfig")) with (s ".plzconfig").
  change (subst_arch a (s ".plzconfig.local")) with (s ".plzconfig.local").
  change (subst_arch a (s ".plzconfig_<arch>")) with (s ".plzconfig_" ++ a).
  cbn [e_home]. reflexivity.
Qed.

(* every global location is read once *)
Theorem global_files_once : forall e, NoDup (global_files e).
Proof. intros e. apply keep_last_NoDup. Qed.

Theorem global_files_complete : forall e x, In x (global_files e) <-> In x (global_files_raw e).
Proof. intros e x. apply keep_last_In. Qed.


(* ---- tie to the source: the defaults of the sampled options ---- *)
Definition gen_late (name : str) : option (list str) :=
  option_map (fun x => map s (snd x)) (find (fun x => str_eqb (s (fst x)) name) late_defaults).

Definition gen_init (name : str) : option (option (list str)) :=
  option_map (fun x => option_map (map s) (snd x)) (find (fun x => str_eqb (s (fst x)) name) init_defaults).

Definition opt_name (o : opt) : str := match o with Single _ n => n | Multi n => n end.

Definition vals_opt_eqb := option_eqb (list_eqb str_eqb).

Fixpoint forall2b {A B} (p : A -> B -> bool) (a : list A) (b : list B) : bool :=
  match a, b with
  | [], [] => true
  | x :: a', y :: b' => p x y && forall2b p a' b'
  | _, _ => false
  end.

(* the computed defaults of the schema are the translated body of setBuildPath at its call site *)
Definition computed_matches_gen (sch : schema) : bool :=
  forall2b (fun (a : opt * cdefault) (g : string * list (string * string) * string * string * list string) =>
      match g with
      | (gt, gtr, gv, gsep, gfb) =>
          str_eqb (opt_name (fst a)) (s gt) && is_multi (fst a)
          && forall2b (fun (x : opt * str) (y : string * string) =>
                         str_eqb (opt_name (fst x)) (s (fst y)) && is_multi (fst x) && str_eqb (snd x) (s (snd y)))
                      (cd_triggers (snd a)) gtr
          && str_eqb (cd_var (snd a)) (s gv) && N.eqb (cd_sep (snd a)) (sep_code gsep)
          && list_eqb str_eqb (cd_fallback (snd a)) (map s gfb)
      end) (computed sch) computed_defaults.

Definition appended_matches_gen (sch : schema) : bool :=
  match appended sch, appended_options with
  | Some (Single SBool c, Multi d, v), [(gc, gd, gv)] => str_eqb c (s gc) && str_eqb d (s gd) && str_eqb v (s gv)
  | None, [] => true
  | _, _ => false
  end.

Definition schema_matches_gen (sch : schema) (os : list opt) : bool :=
  forallb (fun o =>
    vals_opt_eqb (assoc o (late sch)) (gen_late (opt_name o))
    && match gen_init (opt_name o) with
       | Some (Some v) => vals_opt_eqb (assoc o (init sch)) (Some v)
       | Some None => true                                   (* non-literal default, e.g. a duration *)
       | None =>                                             (* not assigned there: the Go zero value *)
           match o with
           | Single SBool _ => vals_opt_eqb (assoc o (init sch)) (Some [s "false"])
           | _ => vals_opt_eqb (assoc o (init sch)) None
           end
       end) os
  && match derive sch, derived_options with
     | Some (src, dst), [(gs, gd, parts)] =>
         str_eqb (opt_name src) (s gs) && str_eqb (opt_name dst) (s gd)
         && list_eqb str_eqb (map s parts) [s "bin"; s "go"]
     | None, [] => true
     | _, _ => false
     end
  && computed_matches_gen sch && appended_matches_gen sch.

Lemma real_schema_matches_source : forall p, schema_matches_gen (real_schema_at p) sampled = true.
Proof. intros p. vm_compute. reflexivity. Qed.

(* os.Getenv("PATH") is the PATH the schema was built for *)
Lemma real_getenv_path : forall p, getenv (real_schema_at p) (s "PATH") = p.
Proof. intros p. reflexivity. Qed.

Lemma real_schema_at_wf : forall p, wf_schema (real_schema_at p).
Proof. intros p. split; [vm_compute; repeat split; congruence|vm_compute; reflexivity]. Qed.

Lemma real_schema_wf : wf_schema real_schema.
Proof. exact (real_schema_at_wf _). Qed.

(* ================================================================================================ *)
(* 7. Refutation witnesses (the unchanged code, through the faithful model)                          *)

Definition root_env : env :=
  {| e_xdg_dirs := []; e_home := s "/home/u"; e_xdg_home := []; e_root := s "/r"; e_arch := s "linux_amd64" |}.

Definition o_bfn := Multi (s "parse.buildfilename").
Definition o_maven := Multi (s "java.defaultmavenrepo").

(* .plzconfig:  [parse] buildfilename   (blank)  *)
Definition w_blank : fsys := [(s "/r/.plzconfig", [Assign o_bfn (s "BUILD.x"); Blank o_bfn])].
(* .plzconfig:  [java] defaultmavenrepo = https://a.example/x *)
Definition w_preset : fsys := [(s "/r/.plzconfig", [Assign o_maven (s "https://a.example/x")])].
(* .plzconfig: goroot = /usr/lib/go ; .plzconfig.local: gotool = /usr/bin/go *)
Definition w_derived : fsys :=
  [(s "/r/.plzconfig", [Assign o_goroot (s "/usr/lib/go")]); (s "/r/.plzconfig.local", [Assign o_gotool (s "/usr/bin/go")])].

(* .plzconfig: [cpp] coverage = false ; [test] disablecoverage = slow *)
Definition w_alias : fsys :=
  [(s "/r/.plzconfig", [Assign o_cppcov (s "false"); Assign o_discov (s "slow")])].
(* .plzconfig: [build] passenv = PATH ; .plzconfig.local: [build] path = /opt/tools/bin *)
Definition w_path_set : fsys :=
  [(s "/r/.plzconfig", [Assign o_passenv (s "PATH")]); (s "/r/.plzconfig.local", [Assign o_path (s "/opt/tools/bin")])].
(* .plzconfig: [build] passunsafeenv = PATH *)
Definition w_path_unset : fsys := [(s "/r/.plzconfig", [Assign o_passunsafeenv (s "PATH")])].
(* .plzconfig: [build] passenv = PATH ; .plzconfig.local: [build] passenv (blank) ; passenv = HOME *)
Definition w_path_cleared : fsys :=
  [(s "/r/.plzconfig", [Assign o_passenv (s "PATH")]); (s "/r/.plzconfig.local", [Blank o_passenv; Assign o_passenv (s "HOME")])].

Definition run_default (fs : fsys) : option cfg := effective real_schema fs (default_files root_env) [] [].
Definition srcs_default (fs : fsys) : list file := sources fs (read_order (default_files root_env) []).

(* the value of one option in an optional configuration (evaluates the state at one point only) *)
Definition value_at (r : option cfg) (o : opt) : option (list str) := option_map (fun c => c o) r.

Lemma value_at_some r o v : value_at r o = Some v -> exists c, r = Some c /\ c o = v.
Proof. destruct r as [c|]; cbn; [intros [= <-]; now exists c|discriminate]. Qed.

Lemma witness_blank :
  value_at (run_default w_blank) o_bfn = Some [s "BUILD"; s "BUILD.plz"]
  /\ spec_value real_schema o_bfn (srcs_default w_blank) [] = []
  /\ defect_class real_schema (srcs_default w_blank) [] o_bfn = Some BlankResetDefault.
Proof. vm_compute. repeat split. Qed.

Lemma witness_preset :
  value_at (run_default w_preset) o_maven
    = Some [s "https://repo1.maven.org/maven2"; s "https://jcenter.bintray.com/"; s "https://a.example/x"]
  /\ spec_value real_schema o_maven (srcs_default w_preset) [] = [s "https://a.example/x"]
  /\ defect_class real_schema (srcs_default w_preset) [] o_maven = Some PresetListKept.
Proof. vm_compute. repeat split. Qed.

Lemma witness_derived :
  value_at (run_default w_derived) o_gotool = Some [s "/usr/lib/go/bin/go"]
  /\ spec_value real_schema o_gotool (srcs_default w_derived) [] = [s "/usr/bin/go"]
  /\ defect_class real_schema (srcs_default w_derived) [] o_gotool = Some DerivedOverwrite.
Proof. vm_compute. repeat split. Qed.

Lemma witness_alias :
  value_at (run_default w_alias) o_discov = Some [s "slow"; s "cc"]
  /\ spec_value real_schema o_discov (srcs_default w_alias) [] = [s "slow"]
  /\ defect_class real_schema (srcs_default w_alias) [] o_discov = Some AliasAppended.
Proof. vm_compute. repeat split. Qed.

(* computed default: an explicit build.path wins over $PATH; $PATH only when no source sets build.path and PATH is
   (still) passed through; the documented fallback otherwise *)
Lemma computed_examples :
  value_at (run_default w_path_set) o_path = Some [s "/opt/tools/bin"]
  /\ defect_class real_schema (srcs_default w_path_set) [] o_path = None
  /\ value_at (run_default w_path_unset) o_path = Some [s "/caller/bin"; s "/usr/bin"]
  /\ defect_class real_schema (srcs_default w_path_unset) [] o_path = None
  /\ value_at (run_default w_path_cleared) o_path = Some [s "/usr/local/bin"; s "/usr/bin"; s "/bin"]
  /\ defect_class real_schema (srcs_default w_path_cleared) [] o_path = None.
Proof. vm_compute. repeat split. Qed.

Lemma full_value_clause_false :
  ~ (forall sch fs filenames profiles ovs c, wf_schema sch ->
       effective sch fs filenames profiles ovs = Some c ->
       forall o, c o = spec_value sch o (sources fs (read_order filenames profiles)) ovs).
Proof.
  intros H. destruct witness_blank as [Hv [Hs _]].
  apply value_at_some in Hv as [c [Hc Hv]].
  specialize (H real_schema w_blank (default_files root_env) [] [] c real_schema_wf Hc o_bfn).
  unfold srcs_default in Hs. rewrite Hs, Hv in H. discriminate.
Qed.

(* ================================================================================================ *)
(* 8. A layer that exists but cannot be opened (readConfigFileOnly: only "does not exist" is skipped) *)

Definition openable (faults : list str) (order : list str) : bool := forallb (fun n => negb (mem n faults)) order.

Lemma sources_cons fs n r :
  sources fs (n :: r) = (match fs_open fs n with Some f => [f] | None => [] end) ++ sources fs r.
Proof. reflexivity. Qed.

(* INDUCTION OVER THE READ ORDER: when every Open succeeds or reports "does not exist", the loop reads exactly the
   existing files, in order, and opens every name. *)
Lemma read_loop_no_fault fs faults order :
  openable faults order = true -> read_loop fs faults order = (Some (sources fs order), order).
Proof.
  induction order as [|n r IH]; cbn [openable forallb read_loop]; [reflexivity|].
  intros H. apply andb_true_iff in H as [Hn Hr]. apply negb_true_iff in Hn.
  unfold fs_open_f. rewrite Hn, sources_cons. fold (openable faults r) in Hr. rewrite (IH Hr).
  destruct (fs_open fs n); reflexivity.
Qed.

(* ... and it stops, with an error, at the first name whose Open fails otherwise - whatever follows is never opened *)
Lemma read_loop_fault fs faults before n after :
  openable faults before = true -> mem n faults = true ->
  read_loop fs faults (before ++ n :: after) = (None, before ++ [n]).
Proof.
  intros Hb Hn. induction before as [|a r IH]; cbn [app read_loop].
  - unfold fs_open_f. now rewrite Hn.
  - cbn [openable forallb] in Hb. apply andb_true_iff in Hb as [Ha Hr]. apply negb_true_iff in Ha.
    unfold fs_open_f. rewrite Ha. fold (openable faults r) in Hr. rewrite (IH Hr).
    destruct (fs_open fs a); reflexivity.
Qed.

Lemma first_fault_split faults order :
  openable faults order = false ->
  exists before n after, order = before ++ n :: after /\ openable faults before = true /\ mem n faults = true.
Proof.
  induction order as [|a r IH]; cbn [openable forallb]; [discriminate|].
  destruct (mem a faults) eqn:Ha; cbn [negb andb].
  - intros _. exists [], a, r. repeat split. exact Ha.
  - intros H. destruct (IH H) as [b [n [af [-> [Hb Hn]]]]]. exists (a :: b), n, af. repeat split.
    + cbn [openable forallb]. rewrite Ha. exact Hb.
    + exact Hn.
Qed.

Lemma read_config_config_of sch fs order : read_config sch fs order = config_of sch (sources fs order).
Proof. reflexivity. Qed.

(* without a failing Open the two pipelines are the same *)
Theorem no_fault_same :
  forall sch fs faults filenames profiles ovs,
    openable faults (read_order filenames profiles) = true ->
    effective_f sch fs faults filenames profiles ovs = effective sch fs filenames profiles ovs.
Proof.
  intros sch fs faults filenames profiles ovs H. unfold effective_f, effective.
  rewrite (read_loop_no_fault _ _ _ H), read_config_config_of. reflexivity.
Qed.

(* A config location that exists but cannot be opened ABORTS the read; the names opened end with it. *)
Theorem unopenable_layer_aborts :
  forall sch fs faults filenames profiles ovs before n after,
    read_order filenames profiles = before ++ n :: after ->
    openable faults before = true -> mem n faults = true ->
    effective_f sch fs faults filenames profiles ovs = None
    /\ snd (read_loop fs faults (read_order filenames profiles)) = before ++ [n].
Proof.
  intros sch fs faults filenames profiles ovs before n after E Hb Hn. unfold effective_f.
  rewrite E, (read_loop_fault _ _ _ _ after Hb Hn). split; reflexivity.
Qed.

(* NO LAYER IS EVER SILENTLY SKIPPED: whenever a configuration is produced, every name of the read order was opened
   without a fault, and the configuration is the one computed from ALL the existing files. *)
Theorem unopenable_layer_never_skipped :
  forall sch fs faults filenames profiles ovs c,
    effective_f sch fs faults filenames profiles ovs = Some c ->
    openable faults (read_order filenames profiles) = true
    /\ effective sch fs filenames profiles ovs = Some c.
Proof.
  intros sch fs faults filenames profiles ovs c H.
  destruct (openable faults (read_order filenames profiles)) eqn:Ho.
  - split; [reflexivity|]. now rewrite <- (no_fault_same _ _ _ _ _ _ Ho).
  - destruct (first_fault_split _ _ Ho) as [b [n [af [E [Hb Hn]]]]].
    destruct (unopenable_layer_aborts sch fs faults filenames profiles ovs b n af E Hb Hn) as [Hnone _].
    congruence.
Qed.

(* ---- tie to the source: the handling of an Open error, regenerated from readConfigFileOnly ---- *)
Definition open_by_policy (fs : fsys) (faults : list str) (name : str) : open_res :=
  if mem name faults
  then match on_open_other_error with OpenAbort => OpenErr | OpenSkip => Absent end
  else match fs_open fs name with
       | Some f => Opened f
       | None => match on_open_not_exist with OpenSkip => Absent | OpenAbort => OpenErr end
       end.

Lemma gen_open_policy : forall fs faults name, fs_open_f fs faults name = open_by_policy fs faults name.
Proof. intros. reflexivity. Qed.

(* readConfigFile: a fresh plugin map per file, the read aborts on an error, the merge runs after every successful read *)
Lemma gen_read_file_steps : read_file_steps = [RSavePlugins; RFreshPlugins; RReadOrAbort; RMergePlugins].
Proof. reflexivity. Qed.

(* ================================================================================================ *)
(* 9. [Plugin "x"] sections: lower-cased keys, merged layer by layer                                 *)

From Coq Require Import Permutation.

Lemma pkey_eqb_spec a b : reflect (a = b) (pkey_eqb a b).
Proof.
  destruct a as [p k], b as [p' k']. unfold pkey_eqb. cbn [fst snd].
  destruct (str_eqb_spec p p') as [->|Hp]; cbn [andb]; [|constructor; congruence].
  destruct (str_eqb_spec k k') as [->|Hk]; constructor; congruence.
Qed.

Lemma pkey_eqb_refl k : pkey_eqb k k = true.
Proof. destruct (pkey_eqb_spec k k); congruence. Qed.

(* does the entry / assignment with this key as written set the (lower-case) key k ? *)
Definition khit (k w : pkey) : bool := pkey_eqb k (lower_key w).
Definition pmentions (k : pkey) (f : pfile) : bool := existsb (fun a => khit k (fst a)) f.
(* the values a file gives k, whatever the spelling of the key, in file order *)
Definition pvals (k : pkey) (f : pfile) : list str := flat_map (fun a => if khit k (fst a) then [snd a] else []) f.
(* the file spells the key in one way only *)
Definition one_spelling (k : pkey) (f : pfile) : Prop :=
  forall a b, In a f -> In b f -> khit k (fst a) = true -> khit k (fst b) = true -> fst a = fst b.

(* documented layering of a plugin option: the highest-priority file that sets it, case-insensitively *)
Definition spec_plugin (k : pkey) (srcs : list pfile) : option (list str) :=
  option_map (pvals k) (find (pmentions k) (rev srcs)).

Fixpoint last_hit (k : pkey) (es : pmap) : option (pkey * list str) :=
  match es with
  | [] => None
  | e :: r => match last_hit k r with
              | Some x => Some x
              | None => if khit k (fst e) then Some e else None
              end
  end.

(* the lower-casing pass, over ANY iteration order: the last entry written under a key stays *)
Lemma lower_keys_fold es c k :
  fold_left (fun c e => pupd c (lower_key (fst e)) (Some (snd e))) es c k =
    match last_hit k es with Some e => Some (snd e) | None => c k end.
Proof.
  revert c; induction es as [|e r IH]; intros c; cbn [fold_left last_hit]; [reflexivity|].
  rewrite IH. destruct (last_hit k r); [reflexivity|]. unfold pupd, khit. now destruct (pkey_eqb k (lower_key (fst e))).
Qed.

Lemma last_hit_nil k es : filter (fun e => khit k (fst e)) es = [] -> last_hit k es = None.
Proof.
  induction es as [|e r IH]; cbn [filter last_hit]; [reflexivity|].
  destruct (khit k (fst e)) eqn:He; [discriminate|]. intros H. now rewrite (IH H).
Qed.

Lemma last_hit_one k es e : filter (fun e => khit k (fst e)) es = [e] -> last_hit k es = Some e.
Proof.
  induction es as [|a r IH]; cbn [filter last_hit]; [discriminate|].
  destruct (khit k (fst a)) eqn:Ha.
  - intros [= -> Hr]. now rewrite (last_hit_nil _ _ Hr).
  - intros H. now rewrite (IH H).
Qed.

Lemma Permutation_filter {A} (p : A -> bool) l l' : Permutation l l' -> Permutation (filter p l) (filter p l').
Proof.
  induction 1 as [|x l l' _ IH|x y l|l l' l'' _ IH1 _ IH2]; cbn [filter].
  - constructor.
  - destruct (p x); [now constructor|exact IH].
  - destruct (p x), (p y); try reflexivity. apply perm_swap.
  - now transitivity (filter p l').
Qed.

Lemma dedup_In l x : In x (dedup l) <-> In x l.
Proof.
  induction l as [|k r IH]; cbn [dedup In]; [tauto|]. rewrite filter_In, IH.
  destruct (pkey_eqb_spec x k) as [->|Hne]; cbn [negb]; intuition congruence.
Qed.

Lemma dedup_NoDup l : NoDup (dedup l).
Proof.
  induction l as [|k r IH]; cbn [dedup]; constructor.
  - rewrite filter_In. intros [_ H]. now rewrite pkey_eqb_refl in H.
  - now apply NoDup_filter.
Qed.

Lemma filter_none {A} (p : A -> bool) l : (forall x, In x l -> p x = false) -> filter p l = [].
Proof.
  induction l as [|a r IH]; intros H; cbn [filter]; [reflexivity|].
  rewrite (H a (or_introl eq_refl)). apply IH. intros x Hx. apply H. now right.
Qed.

Lemma filter_unique {A} (p : A -> bool) l w :
  NoDup l -> In w l -> p w = true -> (forall x, In x l -> p x = true -> x = w) -> filter p l = [w].
Proof.
  induction 1 as [|a r Hnin Hnd IH]; intros Hin Hw Hall; [destruct Hin|]. cbn [filter].
  destruct Hin as [->|Hin].
  - rewrite Hw. f_equal. apply filter_none. intros x Hx. destruct (p x) eqn:Hp; [|reflexivity].
    assert (x = w) by (apply Hall; [now right|exact Hp]). subst x. contradiction.
  - destruct (p a) eqn:Hp.
    + assert (a = w) by (apply Hall; [now left|exact Hp]). subst a. contradiction.
    + apply IH; [exact Hin|exact Hw|]. intros x Hx. apply Hall. now right.
Qed.

Lemma filter_map_hit k (f : pfile) l :
  filter (fun e => khit k (fst e)) (map (fun w => (w, exact_vals w f)) l) =
  map (fun w => (w, exact_vals w f)) (filter (khit k) l).
Proof.
  induction l as [|w r IH]; cbn [map filter fst]; [reflexivity|]. rewrite IH. now destruct (khit k w).
Qed.

Lemma pmentions_false k f : pmentions k f = false -> forall a, In a f -> khit k (fst a) = false.
Proof.
  unfold pmentions. intros H a Ha. destruct (khit k (fst a)) eqn:E; [|reflexivity].
  assert (existsb (fun a => khit k (fst a)) f = true) by (apply existsb_exists; eauto). congruence.
Qed.

(* the entries gcfg builds for one file that end up under the key k *)
Lemma parse_hits_none k f :
  pmentions k f = false -> filter (fun e => khit k (fst e)) (parse_pfile f) = [].
Proof.
  intros H. unfold parse_pfile. rewrite filter_map_hit, filter_none; [reflexivity|].
  intros w Hw. apply dedup_In, in_map_iff in Hw as [a [<- Ha]]. exact (pmentions_false _ _ H _ Ha).
Qed.

Lemma exact_vals_pvals k f w :
  (forall a, In a f -> khit k (fst a) = true -> fst a = w) -> khit k w = true -> exact_vals w f = pvals k f.
Proof.
  intros Hall Hw. unfold exact_vals, pvals. induction f as [|a r IH]; cbn [flat_map]; [reflexivity|].
  rewrite IH by (intros b Hb; apply Hall; now right). f_equal.
  destruct (pkey_eqb_spec (fst a) w) as [->|Hne]; [now rewrite Hw|].
  destruct (khit k (fst a)) eqn:E; [|reflexivity]. exfalso. apply Hne, Hall; [now left|exact E].
Qed.

Lemma parse_hits_one k f :
  one_spelling k f -> pmentions k f = true ->
  exists w, filter (fun e => khit k (fst e)) (parse_pfile f) = [(w, pvals k f)].
Proof.
  intros Hone Hm. unfold pmentions in Hm. apply existsb_exists in Hm as [a [Ha Hk]]. exists (fst a).
  unfold parse_pfile. rewrite filter_map_hit.
  rewrite (filter_unique (khit k) (dedup (map fst f)) (fst a)).
  - cbn [map]. f_equal. f_equal. apply exact_vals_pvals; [|exact Hk].
    intros b Hb Hkb. symmetry. now apply (Hone a b).
  - apply dedup_NoDup.
  - apply dedup_In, in_map. exact Ha.
  - exact Hk.
  - intros x Hx Hkx. apply dedup_In, in_map_iff in Hx as [b [<- Hb]]. symmetry. now apply (Hone a b).
Qed.

(* ONE LAYER, any map iteration order: a file that sets k (in one spelling) gives k its values; a file that does not
   leaves the previous layers' value alone *)
Lemma read_layer_value perm old f k :
  (forall m, Permutation (perm m) m) -> one_spelling k f ->
  read_layer perm old f k = if pmentions k f then Some (pvals k f) else old k.
Proof.
  intros Hperm Hone. unfold read_layer, merge_old, lower_keys. rewrite lower_keys_fold.
  pose proof (Permutation_filter (fun e => khit k (fst e)) _ _ (Hperm (parse_pfile f))) as HP.
  destruct (pmentions k f) eqn:Hm.
  - destruct (parse_hits_one _ _ Hone Hm) as [w Hw]. rewrite Hw in HP.
    apply Permutation_sym, Permutation_length_1_inv in HP. now rewrite (last_hit_one _ _ _ HP).
  - rewrite (parse_hits_none _ _ Hm) in HP. apply Permutation_sym, Permutation_nil in HP.
    now rewrite (last_hit_nil _ _ HP).
Qed.

Lemma read_plugins_snoc perm l f : read_plugins perm (l ++ [f]) = read_layer perm (read_plugins perm l) f.
Proof. unfold read_plugins. now rewrite fold_left_app. Qed.

(* INDUCTION OVER THE LAYERS, FOR EVERY MAP ITERATION ORDER: the effective value of a plugin option is the one from the
   highest-priority file that sets it - however that file and the lower ones capitalise the key - and an option only lower
   layers set is kept. *)
Theorem plugin_highest_layer_wins :
  forall perm srcs k,
    (forall m, Permutation (perm m) m) ->
    (forall f, In f srcs -> one_spelling k f) ->
    read_plugins perm srcs k = spec_plugin k srcs.
Proof.
  intros perm srcs k Hperm. unfold spec_plugin. induction srcs as [|f l IH] using rev_ind; intros Hone; [reflexivity|].
  rewrite read_plugins_snoc, rev_app_distr. cbn [rev app find].
  rewrite read_layer_value; [|exact Hperm|apply Hone, in_or_app; right; now left].
  destruct (pmentions k f); [reflexivity|]. apply IH. intros g Hg. apply Hone, in_or_app. now left.
Qed.

(* Go's map iteration order does not matter as long as no file spells one key in two ways *)
Theorem plugin_order_independent :
  forall perm1 perm2 srcs k,
    (forall m, Permutation (perm1 m) m) -> (forall m, Permutation (perm2 m) m) ->
    (forall f, In f srcs -> one_spelling k f) ->
    read_plugins perm1 srcs k = read_plugins perm2 srcs k.
Proof.
  intros perm1 perm2 srcs k H1 H2 Hone.
  now rewrite (plugin_highest_layer_wins _ _ _ H1 Hone), (plugin_highest_layer_wins _ _ _ H2 Hone).
Qed.

Lemma find_app_none {A} (p : A -> bool) l1 l2 : (forall x, In x l1 -> p x = false) -> find p (l1 ++ l2) = find p l2.
Proof.
  induction l1 as [|a r IH]; intros H; cbn [app find]; [reflexivity|].
  rewrite (H a (or_introl eq_refl)). apply IH. intros x Hx. apply H. now right.
Qed.

Lemma find_rev_highest {A} (p : A -> bool) lower f higher :
  p f = true -> Forall (fun g => p g = false) higher -> find p (rev (lower ++ f :: higher)) = Some f.
Proof.
  intros Hf Hh. rewrite rev_app_distr. cbn [rev]. rewrite <- app_assoc. cbn [app].
  rewrite find_app_none.
  - cbn [find]. now rewrite Hf.
  - intros x Hx. apply in_rev in Hx. rewrite Forall_forall in Hh. now apply Hh.
Qed.

(* source-level form (what the property says): f is read after `lower` and before `higher`, nothing in `higher` sets
   the key - then f's values are the effective ones, whatever `lower` says and however anyone capitalises the key *)
Theorem plugin_source_level :
  forall perm lower f higher k,
    (forall m, Permutation (perm m) m) ->
    (forall g, In g (lower ++ f :: higher) -> one_spelling k g) ->
    pmentions k f = true -> Forall (fun g => pmentions k g = false) higher ->
    read_plugins perm (lower ++ f :: higher) k = Some (pvals k f).
Proof.
  intros perm lower f higher k Hperm Hone Hf Hh.
  rewrite (plugin_highest_layer_wins _ _ _ Hperm Hone). unfold spec_plugin.
  now rewrite (find_rev_highest _ _ _ _ Hf Hh).
Qed.

(* a plugin option no file sets has no value *)
Theorem plugin_unset :
  forall perm srcs k,
    (forall m, Permutation (perm m) m) -> Forall (fun g => pmentions k g = false) srcs ->
    read_plugins perm srcs k = None.
Proof.
  intros perm srcs k Hperm Hno.
  rewrite (plugin_highest_layer_wins _ _ _ Hperm).
  - unfold spec_plugin. replace (find (pmentions k) (rev srcs)) with (@None pfile); [reflexivity|].
    symmetry. rewrite <- (app_nil_r (rev srcs)). rewrite find_app_none; [reflexivity|].
    intros x Hx. apply in_rev in Hx. rewrite Forall_forall in Hno. now apply Hno.
  - intros f Hf a b Ha Hb Hka. rewrite Forall_forall in Hno.
    pose proof (pmentions_false _ _ (Hno _ Hf) _ Ha). congruence.
Qed.

(* ---- tie to the source: the passes of normaliseAndMergePluginConfig, in the order they are written ---- *)
Inductive pstage := Raw (m : pmap) | Norm (c : pcfg).

(* A merge of the previous layers BEFORE the keys are lower-cased, or a second lower-casing pass, is not the algorithm
   modelled (and proved correct) here: no interpretation. *)
Definition interp_pstep (perm : pmap -> pmap) (old : pcfg) (st : option pstage) (step : plugin_step) : option pstage :=
  match step, st with
  | PLowerKeys, Some (Raw m) => Some (Norm (lower_keys (perm m)))
  | PMergeOld, Some (Norm c) => Some (Norm (merge_old c old))
  | _, _ => None
  end.

Definition stage_eq (a : option pstage) (c : pcfg) : Prop :=
  match a with Some (Norm c') => c' = c | _ => False end.

Lemma gen_plugin_layer :
  forall perm old f,
    stage_eq (fold_left (interp_pstep perm old) plugin_merge_steps (Some (Raw (parse_pfile f)))) (read_layer perm old f).
Proof. intros. reflexivity. Qed.

(* ---- the documented layering fails for a key one file spells in two ways: the result depends on the iteration order ---- *)
Definition pk_gotool : pkey := (s "go", s "gotool").
Definition w_two_spellings : pfile := [((s "go", s "GoTool"), s "one"); ((s "go", s "gotool"), s "two")].

Lemma witness_two_spellings :
  read_plugins (fun m => m) [w_two_spellings] pk_gotool = Some [s "two"]
  /\ read_plugins (@rev _) [w_two_spellings] pk_gotool = Some [s "one"]
  /\ pvals pk_gotool w_two_spellings = [s "one"; s "two"].
Proof. vm_compute. repeat split. Qed.

(* the mixed-case layering of the round-2 demo through the model: .plzconfig gotool / importpath, .plzconfig.local GoTool *)
Definition w_plugin_base : pfile := [((s "go", s "gotool"), s "/from/plzconfig/go"); ((s "go", s "importpath"), s "example.com/base")].
Definition w_plugin_local : pfile := [((s "go", s "GoTool"), s "/from/local/go")].

Lemma plugin_examples :
  read_plugins (fun m => m) [w_plugin_base; w_plugin_local] pk_gotool = Some [s "/from/local/go"]
  /\ read_plugins (@rev _) [w_plugin_base; w_plugin_local] pk_gotool = Some [s "/from/local/go"]
  /\ read_plugins (fun m => m) [w_plugin_base; w_plugin_local] (s "go", s "importpath") = Some [s "example.com/base"]
  /\ one_spelling pk_gotool w_plugin_base /\ one_spelling pk_gotool w_plugin_local.
Proof.
  repeat split; try (vm_compute; reflexivity).
  - intros a b [<-|[<-|[]]] [<-|[<-|[]]]; vm_compute; congruence.
  - intros a b [<-|[]] [<-|[]]; reflexivity.
Qed.

(* the fault examples: .plzconfig.local exists, sets build.config and cannot be opened *)
Definition w_fault_fs : fsys :=
  [(s "/r/.plzconfig", [Assign (Single SStr (s "build.config")) (s "base")]);
   (s "/r/.plzconfig.local", [Assign (Single SStr (s "build.config")) (s "local")])].

Lemma fault_examples :
  value_at (effective_f real_schema w_fault_fs [] (default_files root_env) [] []) (Single SStr (s "build.config")) = Some [s "local"]
  /\ effective_f real_schema w_fault_fs [s "/r/.plzconfig.local"] (default_files root_env) [] [] = None
  /\ snd (read_loop w_fault_fs [s "/r/.plzconfig.local"] (read_order (default_files root_env) []))
     = [s "/etc/please/plzconfig"; s "/home/u/.config/please/plzconfig"; s "/r/.plzconfig"; s "/r/.plzconfig_linux_amd64";
        s "/r/.plzconfig.local"].
Proof. vm_compute. repeat split. Qed.

(* the same user config file listed twice: XDG_CONFIG_HOME = ~/.config/please *)
Definition xdg_dup_env : env :=
  {| e_xdg_dirs := []; e_home := s "/home/u"; e_xdg_home := s "/home/u/.config/please"; e_root := s "/r"; e_arch := s "linux_amd64" |}.

Lemma xdg_dup_read_once :
  default_files xdg_dup_env =
    [s "/etc/please/plzconfig"; s "/home/u/.config/please/plzconfig"; s "/r/.plzconfig"; s "/r/.plzconfig_linux_amd64"; s "/r/.plzconfig.local"]
  /\ value_at (effective real_schema [(s "/home/u/.config/please/plzconfig", [Assign (Multi (s "parse.blacklistdirs")) (s "x")])]
                 (default_files xdg_dup_env) [] []) (Multi (s "parse.blacklistdirs")) = Some [s "x"].
Proof. split; vm_compute; reflexivity. Qed.

