(* C14 - proofs about the model of dirCache.clean. *)
From Coq Require Import String.
From PlzV Require Import Base.Harness Base.StrFacts Gen.CacheNames Model.C14.
From Coq Require Import Lia Permutation List.

(* ============================== paths ============================== *)

Lemma path_eqb_spec a b : reflect (a = b) (path_eqb a b).
Proof. apply list_eqb_spec, str_eqb_spec. Qed.

Lemma path_eqb_eq a b : path_eqb a b = true <-> a = b.
Proof. destruct (path_eqb_spec a b); split; congruence. Qed.

Lemma path_eqb_refl a : path_eqb a a = true.
Proof. apply path_eqb_eq; reflexivity. Qed.

Lemma is_prefix_spec p q : is_prefix p q = true <-> exists r, q = p ++ r.
Proof.
  revert q; induction p as [|x p IH]; intros q; cbn [is_prefix].
  - split; [intros _; exists q; reflexivity | reflexivity].
  - destruct q as [|y q].
    + split; [discriminate | intros [r Hr]; discriminate].
    + rewrite andb_true_iff, str_eqb_eq, IH. split.
      * intros [-> [r ->]]. exists r; reflexivity.
      * intros [r Hr]. cbn in Hr. inversion Hr; subst. split; [reflexivity | exists r; reflexivity].
Qed.

Lemma is_prefix_refl p : is_prefix p p = true.
Proof. apply is_prefix_spec. exists []. symmetry; apply app_nil_r. Qed.

Lemma is_prefix_trans a b c : is_prefix a b = true -> is_prefix b c = true -> is_prefix a c = true.
Proof.
  rewrite !is_prefix_spec. intros [r ->] [r' ->]. exists (r ++ r'). symmetry; apply app_assoc.
Qed.

Lemma is_prefix_length p q : is_prefix p q = true -> (length p <= length q)%nat.
Proof. rewrite is_prefix_spec. intros [r ->]. rewrite app_length. lia. Qed.

Lemma is_prefix_antisym p q : is_prefix p q = true -> is_prefix q p = true -> p = q.
Proof.
  intros H1 H2. pose proof (is_prefix_length _ _ H2) as Hl.
  apply is_prefix_spec in H1 as [r ->]. rewrite app_length in Hl.
  destruct r; [symmetry; apply app_nil_r | cbn in Hl; lia].
Qed.

(* two prefixes of the same path are comparable *)
Lemma is_prefix_comparable a b c :
  is_prefix a c = true -> is_prefix b c = true -> is_prefix a b = true \/ is_prefix b a = true.
Proof.
  revert b c; induction a as [|x a IH]; intros b c Ha Hb; [left; reflexivity|].
  destruct b as [|y b]; [right; reflexivity|].
  destruct c as [|z c]; [discriminate|].
  cbn [is_prefix] in *. apply andb_true_iff in Ha as [Hx Ha], Hb as [Hy Hb].
  apply str_eqb_eq in Hx, Hy. subst.
  rewrite str_eqb_refl. cbn [andb]. eapply IH; eassumption.
Qed.

Lemma proper_prefix_spec p q :
  proper_prefix p q = true <-> is_prefix p q = true /\ p <> q.
Proof.
  unfold proper_prefix. rewrite andb_true_iff, negb_true_iff.
  destruct (path_eqb_spec p q); split; intros [H1 H2]; split; congruence.
Qed.

Lemma prefix_cases p q : is_prefix p q = true -> p = q \/ proper_prefix p q = true.
Proof.
  intros H. destruct (path_eqb_spec p q); [left; assumption|].
  right. apply proper_prefix_spec; split; assumption.
Qed.

Lemma proper_prefix_length p q : proper_prefix p q = true -> (length p < length q)%nat.
Proof.
  rewrite proper_prefix_spec. intros [H Hne]. apply is_prefix_spec in H as [r ->].
  rewrite app_length. destruct r; [exfalso; apply Hne; symmetry; apply app_nil_r | cbn; lia].
Qed.

Lemma proper_prefix_trans_l a b c :
  proper_prefix a b = true -> is_prefix b c = true -> proper_prefix a c = true.
Proof.
  intros Hab Hbc. pose proof (proper_prefix_length _ _ Hab). pose proof (is_prefix_length _ _ Hbc).
  apply proper_prefix_spec in Hab as [Hab _]. apply proper_prefix_spec. split.
  - eapply is_prefix_trans; eassumption.
  - intros ->. lia.
Qed.

(* ---- append_last ---- *)

Lemma append_last_length p x : length (append_last p x) = length p.
Proof.
  induction p as [|c [|d r] IH]; cbn [append_last length] in *; try reflexivity. f_equal. exact IH.
Qed.

Lemma append_last_snoc r b x : append_last (r ++ [b]) x = r ++ [b ++ x].
Proof.
  induction r as [|c r IH]; [reflexivity|].
  cbn [app]. destruct (r ++ [b]) eqn:E; [destruct r; discriminate|].
  cbn [append_last]. rewrite <- IH. reflexivity.
Qed.

Lemma path_snoc (p : path) : p <> [] -> exists r b, p = r ++ [b].
Proof. intros H. destruct (exists_last H) as [r [b ->]]. exists r, b; reflexivity. Qed.

Lemma base_snoc r (b : str) : base (r ++ [b]) = b.
Proof. unfold base. apply last_last. Qed.

Lemma append_last_inj p q x : p <> [] -> q <> [] -> append_last p x = append_last q x -> p = q.
Proof.
  intros Hp Hq. destruct (path_snoc p Hp) as [r [b ->]], (path_snoc q Hq) as [r' [b' ->]].
  rewrite !append_last_snoc. intros H. apply app_inj_tail in H as [-> H].
  apply app_inv_tail in H. subst. reflexivity.
Qed.

(* a proper prefix of p+"=" is a proper prefix of p *)
Lemma proper_prefix_append_last q p x :
  proper_prefix q (append_last p x) = true -> proper_prefix q p = true.
Proof.
  destruct p as [|c0 p0]; [cbn; auto|]. set (p := c0 :: p0).
  destruct (path_snoc p) as [r [b Hp]]; [discriminate|]. rewrite Hp, append_last_snoc.
  intros H. pose proof (proper_prefix_length _ _ H) as Hl.
  apply proper_prefix_spec in H as [H _]. apply is_prefix_spec in H as [t Ht].
  rewrite app_length in Hl. cbn in Hl.
  destruct (exists_last (l := t)) as [t' [z ->]].
  { intros ->. rewrite app_nil_r in Ht. subst q. rewrite app_length in Hl. cbn in Hl. lia. }
  rewrite app_assoc in Ht. apply app_inj_tail in Ht as [-> _].
  apply proper_prefix_spec. split.
  - apply is_prefix_spec. exists (t' ++ [b]). rewrite app_assoc. reflexivity.
  - intros E. apply (f_equal (@length _)) in E. rewrite !app_length in E. cbn in E. lia.
Qed.

Lemma base_append_last p x : p <> [] -> base (append_last p x) = base p ++ x.
Proof.
  intros H. destruct (path_snoc p H) as [r [b ->]]. rewrite append_last_snoc, !base_snoc. reflexivity.
Qed.

Lemma append_last_nonempty p x : p <> [] -> append_last p x <> [].
Proof. intros H E. apply (f_equal (@length _)) in E. rewrite append_last_length in E. destruct p; [congruence | discriminate]. Qed.

(* ============================== names ============================== *)

(* the constants of shouldClean, as regenerated from the source *)
Lemma key_shapes_are : key_shapes = [([28; 29], 27, 61); ([44; 45], 43, 61)]%N.
Proof. reflexivity. Qed.

Lemma suffixes_are : s mark_suffix = [61%N] /\ s rename_suffix = [61%N] /\ s tmp_suffix = [61%N].
Proof. repeat split; reflexivity. Qed.

Lemma key_shaped_spec k :
  key_shaped k = true <->
  ((length k = 28 \/ length k = 29) /\ nth 27 k 0%N = 61%N) \/
  ((length k = 44 \/ length k = 45) /\ nth 43 k 0%N = 61%N).
Proof.
  unfold key_shaped. rewrite key_shapes_are. cbn [existsb].
  rewrite !orb_true_iff, !andb_true_iff, !orb_true_iff, !N.eqb_eq.
  change (N.to_nat 27) with 27%nat. change (N.to_nat 43) with 43%nat.
  split.
  - intros [[[H|[H|H]] Hc]|[[[H|[H|H]] Hc]|H]]; try discriminate; try lia.
  - intros [[[H|H] Hc]|[[H|H] Hc]]; rewrite H; cbn; tauto.
Qed.

Lemma final_key_spec k :
  final_key k = true <-> (length k = 28 /\ nth 27 k 0%N = 61%N) \/ (length k = 44 /\ nth 43 k 0%N = 61%N).
Proof.
  unfold final_key. rewrite key_shapes_are. cbn [existsb].
  rewrite !orb_true_iff, !andb_true_iff, !N.eqb_eq.
  change (N.to_nat 27) with 27%nat. change (N.to_nat 43) with 43%nat.
  split.
  - intros [[H Hc]|[[H Hc]|H]]; try discriminate; lia.
  - intros [[H Hc]|[H Hc]]; rewrite H; cbn; tauto.
Qed.

Lemma final_key_shaped k : final_key k = true -> key_shaped k = true /\ key_shaped (k ++ [61%N]) = true.
Proof.
  rewrite final_key_spec, !key_shaped_spec. intros [[Hl Hc]|[Hl Hc]]; (split; [tauto|]);
    rewrite app_length; cbn [length]; [left|right]; (split; [lia|]); rewrite app_nth1; try lia; assumption.
Qed.

Lemma key_shaped_length k : key_shaped k = true -> (28 <= length k)%nat.
Proof. rewrite key_shaped_spec. lia. Qed.

Lemma has_suffix_spec x suf : has_suffix x suf = true <-> exists y, x = y ++ suf.
Proof.
  unfold has_suffix. rewrite andb_true_iff, Nat.leb_le, str_eqb_eq. split.
  - intros [Hl H]. exists (firstn (length x - length suf) x).
    transitivity (firstn (length x - length suf) x ++ skipn (length x - length suf) x);
      [symmetry; apply firstn_skipn | f_equal; exact H].
  - intros [y ->]. rewrite app_length. split; [lia|].
    replace (length y + length suf - length suf)%nat with (length y + 0)%nat by lia.
    rewrite skipn_app, Nat.add_0_r, skipn_all. replace (length y - length y)%nat with 0%nat by lia. reflexivity.
Qed.

Lemma trim_suffix_app y suf : trim_suffix (y ++ suf) suf = y.
Proof.
  unfold trim_suffix. replace (has_suffix (y ++ suf) suf) with true
    by (symmetry; apply has_suffix_spec; exists y; reflexivity).
  rewrite app_length. replace (length y + length suf - length suf)%nat with (length y + 0)%nat by lia.
  rewrite firstn_app_2. cbn. apply app_nil_r.
Qed.

Lemma has_suffix_nil x : has_suffix x [] = true.
Proof. apply has_suffix_spec. exists x. symmetry; apply app_nil_r. Qed.

Lemma trim_suffix_nil x : trim_suffix x [] = x.
Proof. rewrite <- (app_nil_r x) at 1. apply trim_suffix_app. Qed.

(* a name ending in "=" does not end in ".tar.gz" *)
Lemma has_suffix_eq_targz x : has_suffix (x ++ [61%N]) (s compressed_suffix) = false.
Proof.
  destruct (has_suffix (x ++ [61%N]) (s compressed_suffix)) eqn:E; [|reflexivity].
  apply has_suffix_spec in E as [y Hy].
  change (s compressed_suffix) with ([46; 116; 97; 114; 46; 103]%N ++ [122%N]) in Hy.
  rewrite app_assoc in Hy. apply app_inj_tail in Hy as [_ Hy]. discriminate.
Qed.

(* should_clean in terms of names *)
Lemma should_clean_spec compress name isdir :
  should_clean compress name isdir = true <->
  isdir = negb compress /\ exists k, name = k ++ suffix_of compress /\ key_shaped k = true.
Proof.
  unfold should_clean. destruct compress, isdir; cbn [Bool.eqb negb]; split;
    try (intros H; discriminate); try (intros [H _]; discriminate).
  - destruct (has_suffix name (suffix_of true)) eqn:E; cbn [negb]; [|discriminate].
    intros H. split; [reflexivity|]. apply has_suffix_spec in E as [y ->]. rewrite trim_suffix_app in H. eauto.
  - intros [_ [k [-> Hk]]].
    replace (has_suffix (k ++ suffix_of true) (suffix_of true)) with true
      by (symmetry; apply has_suffix_spec; eauto).
    cbn [negb]. rewrite trim_suffix_app. exact Hk.
  - cbn [suffix_of]. rewrite has_suffix_nil, trim_suffix_nil. cbn [negb].
    intros H. split; [reflexivity|]. exists name. rewrite app_nil_r. auto.
  - cbn [suffix_of]. rewrite has_suffix_nil, trim_suffix_nil. cbn [negb].
    intros [_ [k [-> Hk]]]. rewrite app_nil_r. exact Hk.
Qed.

Lemma should_clean_nonempty compress p isdir : should_clean compress (base p) isdir = true -> p <> [].
Proof.
  intros H ->. apply should_clean_spec in H as [_ [k [Hk Hs]]].
  apply key_shaped_length in Hs. cbn in Hk. apply (f_equal (@length _)) in Hk.
  rewrite app_length in Hk. cbn in Hk. lia.
Qed.

(* ============================== marks ============================== *)

Lemma is_marked_mark_dir m p sz q :
  is_marked (mark_dir m p sz) q <> None <->
  q = append_last p (s mark_suffix) \/ q = p \/ is_marked m q <> None.
Proof.
  unfold mark_dir. cbn [is_marked].
  destruct (path_eqb_spec (append_last p (s mark_suffix)) q) as [E1|N1].
  - split; [intros _; left; congruence | discriminate].
  - destruct (path_eqb_spec p q) as [E2|N2].
    + split; [intros _; right; left; congruence | discriminate].
    + split; [intros H; right; right; exact H | intros [H|[H|H]]; congruence].
Qed.

Lemma is_marked_fold calls : forall m0 q,
  is_marked (fold_left (fun m c => mark_dir m (fst c) (snd c)) calls m0) q <> None <->
  (exists c, In c calls /\ (q = fst c \/ q = append_last (fst c) (s mark_suffix))) \/ is_marked m0 q <> None.
Proof.
  induction calls as [|c calls IH]; intros m0 q; cbn [fold_left].
  - split; [intros H; right; exact H | intros [[c [[] _]]|H]; exact H].
  - rewrite IH, is_marked_mark_dir. split.
    + intros [[c' [Hin Hq]]|[H|[H|H]]].
      * left. exists c'. split; [right; exact Hin | exact Hq].
      * left. exists c. split; [left; reflexivity | right; exact H].
      * left. exists c. split; [left; reflexivity | left; exact H].
      * right. exact H.
    + intros [[c' [[<-|Hin] Hq]]|H].
      * right. destruct Hq as [Hq|Hq]; [right; left; exact Hq | left; exact Hq].
      * left. exists c'. split; assumption.
      * right. right. right. exact H.
Qed.

Lemma is_marked_marks_of calls q :
  is_marked (marks_of calls) q <> None <->
  exists c, In c calls /\ (q = fst c \/ q = append_last (fst c) (s mark_suffix)).
Proof.
  unfold marks_of. rewrite is_marked_fold. cbn [is_marked]. split; [intros [H|H]; [exact H | congruence] | intros H; left; exact H].
Qed.

(* ============================== the walk ============================== *)

Lemma walk_entries c mk all l e :
  In e (fst (walk c mk all l)) <->
  exists a, In a l /\ recognised c all a = true /\ is_marked mk (i_path a) = None
            /\ e = mkEntry (i_path a) (find_size all (i_path a)) (i_atime a).
Proof.
  induction l as [|i r IH]; cbn [walk].
  - cbn. split; [intros [] | intros [a [[] _]]].
  - destruct (walk c mk all r) as [es t] eqn:E. cbn [fst] in IH.
    destruct (recognised c all i) eqn:Hr.
    + destruct (is_marked mk (i_path i)) eqn:Hm; cbn [fst].
      * rewrite IH. split; intros [a [Hin H]].
        -- exists a. split; [right; exact Hin | exact H].
        -- destruct Hin as [<-|Hin]; [destruct H as [_ [H _]]; congruence | exists a; split; assumption].
      * cbn [In]. rewrite IH. split.
        -- intros [<-|[a [Hin H]]]; [exists i; repeat split; auto; left; reflexivity | exists a; split; [right; exact Hin | exact H]].
        -- intros [a [[<-|Hin] H]]; [left; symmetry; apply H | right; exists a; split; assumption].
    + cbn [fst]. rewrite IH. split; intros [a [Hin H]].
      * exists a. split; [right; exact Hin | exact H].
      * destruct Hin as [<-|Hin]; [destruct H as [H _]; congruence | exists a; split; assumption].
Qed.

Lemma walk_total c mk all l : (sum_size (fst (walk c mk all l)) <= snd (walk c mk all l))%N.
Proof.
  induction l as [|i r IH]; cbn [walk]; [cbn; lia|].
  destruct (walk c mk all r) as [es t]. cbn [fst snd] in IH.
  destruct (recognised c all i); [|exact IH].
  destruct (is_marked mk (i_path i)); cbn [fst snd sum_size fold_right e_size]; fold (sum_size es); lia.
Qed.

(* recognised entries are never nested in each other *)
Lemma files_are_leaves_spec its : files_are_leaves its = true ->
  forall i j, In i its -> In j its -> i_dir j = false -> proper_prefix (i_path j) (i_path i) = false.
Proof.
  unfold files_are_leaves. rewrite forallb_forall. intros H i j Hi Hj Hd.
  specialize (H j Hj). rewrite Hd in H. cbn [orb] in H. rewrite forallb_forall in H.
  specialize (H i Hi). apply negb_true_iff in H. exact H.
Qed.

Lemma recognised_not_nested c its a b :
  files_are_leaves its = true -> In a its -> In b its ->
  recognised c its a = true -> recognised c its b = true ->
  proper_prefix (i_path a) (i_path b) = false.
Proof.
  intros Hfl Ha Hb Hra Hrb. destruct (proper_prefix (i_path a) (i_path b)) eqn:E; [exfalso|reflexivity].
  unfold recognised in Hra, Hrb. apply andb_true_iff in Hra as [_ Hsa], Hrb as [Hvb _].
  destruct c.
  - apply should_clean_spec in Hsa as [Hd _]. cbn in Hd.
    rewrite (files_are_leaves_spec its Hfl b a Hb Ha Hd) in E. discriminate.
  - unfold visited in Hvb. apply negb_true_iff in Hvb.
    assert (existsb (fun j => proper_prefix (i_path j) (i_path b) && skips false j) its = true) as X.
    { apply existsb_exists. exists a. split; [exact Ha|]. unfold skips. rewrite E, Hsa. reflexivity. }
    congruence.
Qed.

(* ============================== the sort ============================== *)

Lemma ins_perm x rp : Permutation (ins x rp) (x :: rp).
Proof.
  induction rp as [|y r IH]; cbn [ins]; [reflexivity|].
  destruct (less x y); [|reflexivity].
  rewrite IH. apply perm_swap.
Qed.

Lemma isort_perm l : Permutation (isort l) l.
Proof.
  unfold isort. rewrite <- Permutation_rev.
  assert (forall acc, Permutation (fold_left (fun rp x => ins x rp) l acc) (l ++ acc)) as H.
  { induction l as [|x l IH]; intros acc; cbn [fold_left app]; [reflexivity|].
    rewrite IH. rewrite ins_perm. symmetry. apply Permutation_middle. }
  rewrite H. rewrite app_nil_r. reflexivity.
Qed.

Lemma sum_size_app a b : sum_size (a ++ b) = (sum_size a + sum_size b)%N.
Proof. induction a as [|x a IH]; cbn [app sum_size fold_right]; [reflexivity|]. fold (sum_size (a ++ b)) (sum_size a). rewrite IH. lia. Qed.

Lemma sum_size_perm a b : Permutation a b -> sum_size a = sum_size b.
Proof.
  induction 1 as [|x a b _ IH|x y a|a b c _ IH1 _ IH2]; cbn [sum_size fold_right]; try reflexivity.
  - fold (sum_size a) (sum_size b). rewrite IH. reflexivity.
  - fold (sum_size a). lia.
  - congruence.
Qed.

(* ============================== the eviction loop ============================== *)

Section Loop.
Variable c : bool.
Variable mk : marks.
Variable low : N.

Notation tgt e := (append_last (e_path e) (s rename_suffix)).

Lemma loop_perm es : forall live total,
  Permutation es (r_removed (loop c mk low es live total) ++ r_kept (loop c mk low es live total)).
Proof.
  induction es as [|e r IH]; intros live total; cbn [loop]; [reflexivity|].
  destruct (is_marked mk (e_path e)).
  - cbn [r_removed r_kept]. rewrite <- Permutation_middle. constructor. apply IH.
  - destruct (rename_blocked c live (tgt e)).
    + cbn [r_removed r_kept]. rewrite <- Permutation_middle. constructor. apply IH.
    + destruct (N.ltb (total - e_size e) low); cbn [r_removed r_kept app]; [reflexivity|].
      constructor. apply IH.
Qed.

Lemma loop_removed_unmarked es : forall live total e,
  In e (r_removed (loop c mk low es live total)) -> is_marked mk (e_path e) = None.
Proof.
  induction es as [|e0 r IH]; intros live total e; cbn [loop]; [intros []|].
  destruct (is_marked mk (e_path e0)) eqn:Hm; [cbn [r_removed]; apply IH|].
  destruct (rename_blocked c live (tgt e0)); [cbn [r_removed]; apply IH|].
  destruct (N.ltb (total - e_size e0) low); cbn [r_removed].
  - intros [<-|[]]. exact Hm.
  - intros [<-|H]; [exact Hm | eapply IH; exact H].
Qed.

Lemma loop_total es : forall live total, (sum_size es <= total)%N ->
  (r_total (loop c mk low es live total) + sum_size (r_removed (loop c mk low es live total)) = total)%N.
Proof.
  induction es as [|e r IH]; intros live total Hs; cbn [loop]; [cbn; lia|].
  cbn [sum_size fold_right] in Hs. fold (sum_size r) in Hs.
  destruct (is_marked mk (e_path e)); [cbn [r_total r_removed]; apply IH; lia|].
  destruct (rename_blocked c live (tgt e)); [cbn [r_total r_removed]; apply IH; lia|].
  destruct (N.ltb (total - e_size e) low); cbn [r_total r_removed sum_size fold_right]; [lia|].
  fold (sum_size (r_removed (loop c mk low r (delete live (e_path e) (tgt e)) (total - e_size e)))).
  specialize (IH (delete live (e_path e) (tgt e)) (total - e_size e)%N). lia.
Qed.

Lemma loop_kept_total es : forall live total B, (sum_size es + B <= total)%N ->
  (sum_size (r_kept (loop c mk low es live total)) + B <= r_total (loop c mk low es live total))%N.
Proof.
  induction es as [|e r IH]; intros live total B Hs; cbn [loop]; [cbn in *; lia|].
  cbn [sum_size fold_right] in Hs. fold (sum_size r) in Hs.
  destruct (is_marked mk (e_path e)).
  { cbn [r_total r_kept sum_size fold_right]. fold (sum_size (r_kept (loop c mk low r live total))).
    specialize (IH live total (B + e_size e)%N). lia. }
  destruct (rename_blocked c live (tgt e)).
  { cbn [r_total r_kept sum_size fold_right]. fold (sum_size (r_kept (loop c mk low r live total))).
    specialize (IH live total (B + e_size e)%N). lia. }
  destruct (N.ltb (total - e_size e) low); cbn [r_total r_kept]; [lia|].
  apply IH. lia.
Qed.

Lemma rename_blocked_mono live live' p' :
  incl live' live -> rename_blocked c live' p' = true -> rename_blocked c live p' = true.
Proof.
  unfold rename_blocked. rewrite !existsb_exists. intros Hi [j [Hj H]]. exists j. split; [apply Hi; exact Hj | exact H].
Qed.

Lemma delete_incl live p p' : incl (delete live p p') live.
Proof. intros i H. apply filter_In in H. apply H. Qed.

(* if no rename can fail the loop ends below the low water mark or with nothing left *)
Lemma loop_bound live0 es : forall live total,
  incl live live0 ->
  (forall e, In e es -> is_marked mk (e_path e) = None) ->
  (forall e, In e es -> rename_blocked c live0 (tgt e) = false) ->
  (r_total (loop c mk low es live total) < low)%N \/ r_kept (loop c mk low es live total) = [].
Proof.
  induction es as [|e r IH]; intros live total Hi Hm Hb; cbn [loop]; [right; reflexivity|].
  rewrite (Hm e (or_introl eq_refl)).
  destruct (rename_blocked c live (tgt e)) eqn:Hbl.
  { apply (rename_blocked_mono live0) in Hbl; [|exact Hi]. rewrite (Hb e (or_introl eq_refl)) in Hbl. discriminate. }
  destruct (N.ltb (total - e_size e) low) eqn:Hlt; cbn [r_total r_kept].
  - left. apply N.ltb_lt. exact Hlt.
  - apply IH.
    + intros i H. apply Hi. eapply delete_incl. exact H.
    + intros e' H. apply Hm. right. exact H.
    + intros e' H. apply Hb. right. exact H.
Qed.

Lemma loop_live_sub es : forall live total i, In i (r_live (loop c mk low es live total)) -> In i live.
Proof.
  induction es as [|e r IH]; intros live total i; cbn [loop]; [auto|].
  destruct (is_marked mk (e_path e)); [cbn [r_live]; apply IH|].
  destruct (rename_blocked c live (tgt e)); [cbn [r_live]; apply IH|].
  destruct (N.ltb (total - e_size e) low); cbn [r_live].
  - apply delete_incl.
  - intros H. apply IH in H. eapply delete_incl. exact H.
Qed.

(* whole subtrees go: nothing at or below a removed entry (or at its rename target) is left *)
Lemma loop_live_not_deleted es : forall live total i e,
  In i (r_live (loop c mk low es live total)) -> In e (r_removed (loop c mk low es live total)) ->
  is_prefix (e_path e) (i_path i) = false /\ is_prefix (tgt e) (i_path i) = false.
Proof.
  induction es as [|e0 r IH]; intros live total i e; cbn [loop]; [intros _ []|].
  destruct (is_marked mk (e_path e0)); [cbn [r_live r_removed]; apply IH|].
  destruct (rename_blocked c live (tgt e0)); [cbn [r_live r_removed]; apply IH|].
  assert (forall j, In j (delete live (e_path e0) (tgt e0)) ->
                    is_prefix (e_path e0) (i_path j) = false /\ is_prefix (tgt e0) (i_path j) = false) as Hd.
  { intros j Hj. apply filter_In in Hj as [_ Hj]. apply andb_true_iff in Hj as [H1 H2].
    apply negb_true_iff in H1, H2. split; assumption. }
  destruct (N.ltb (total - e_size e0) low); cbn [r_live r_removed].
  - intros Hi [<-|[]]. apply Hd. exact Hi.
  - intros Hi [<-|He].
    + apply Hd. eapply loop_live_sub. exact Hi.
    + eapply IH; eassumption.
Qed.

(* live is the listing minus whole subtrees: with an item, everything above it is there *)
Definition upclosed (items live : list item) : Prop :=
  incl live items /\
  forall i j, In i live -> In j items -> is_prefix (i_path j) (i_path i) = true -> In j live.

Lemma upclosed_delete items live p p' : upclosed items live -> upclosed items (delete live p p').
Proof.
  intros [Hs Hu]. split.
  - intros i H. apply Hs. eapply delete_incl. exact H.
  - intros i j Hi Hj Hp. apply filter_In in Hi as [Hi Hf]. apply filter_In. split; [eapply Hu; eassumption|].
    apply andb_true_iff in Hf as [H1 H2]. apply negb_true_iff in H1, H2.
    apply andb_true_iff. split; apply negb_true_iff.
    + destruct (is_prefix p (i_path j)) eqn:E; [|reflexivity].
      rewrite (is_prefix_trans _ _ _ E Hp) in H1. discriminate.
    + destruct (is_prefix p' (i_path j)) eqn:E; [|reflexivity].
      rewrite (is_prefix_trans _ _ _ E Hp) in H2. discriminate.
Qed.

Definition dirs_above (items : list item) : Prop :=
  forall i q, In i items -> proper_prefix q (i_path i) = true -> q <> [] ->
              exists j, In j items /\ i_path j = q /\ i_dir j = true.

(* everything that disappears was taken by a removed entry *)
Lemma loop_deleted items es : dirs_above items -> forall live total i,
  (forall e, In e es -> e_path e <> []) ->
  upclosed items live -> In i live -> ~ In i (r_live (loop c mk low es live total)) ->
  exists e, In e (r_removed (loop c mk low es live total)) /\ deleted_by c e i.
Proof.
  intros Hda. induction es as [|e r IH]; intros live total i Hne Hup Hi Hn; cbn [loop] in *; [contradiction|].
  assert (forall e', In e' r -> e_path e' <> []) as Hne' by (intros e' H; apply Hne; right; exact H).
  destruct (is_marked mk (e_path e)).
  { cbn [r_live r_removed] in *. apply IH; assumption. }
  destruct (rename_blocked c live (tgt e)) eqn:Hbl.
  { cbn [r_live r_removed] in *. apply IH; assumption. }
  assert (In i (delete live (e_path e) (tgt e)) \/ deleted_by c e i) as [Hin|Hdel].
  { destruct (negb (is_prefix (e_path e) (i_path i)) && negb (is_prefix (tgt e) (i_path i))) eqn:Hf.
    - left. apply filter_In. split; assumption.
    - right. apply andb_false_iff in Hf as [Hf|Hf]; apply negb_false_iff in Hf; [left; exact Hf|].
      destruct (prefix_cases _ _ Hf) as [Heq|Hpp].
      + (* the item at the rename target: a file, in a compressed cache *)
        right. unfold rename_blocked in Hbl.
        assert (path_eqb (i_path i) (tgt e) && (negb c || i_dir i) = false) as X.
        { destruct (path_eqb (i_path i) (tgt e) && (negb c || i_dir i)) eqn:Y; [|reflexivity].
          assert (existsb (fun j => path_eqb (i_path j) (tgt e) && (negb c || i_dir j)) live = true)
            by (apply existsb_exists; exists i; split; assumption). congruence. }
        rewrite <- Heq, path_eqb_refl in X. cbn [andb] in X. apply orb_false_iff in X as [X1 X2].
        apply negb_false_iff in X1. repeat split; auto.
      + (* strictly below the rename target: then the target is a directory and blocks the rename *)
        exfalso. destruct Hup as [Hs Hu].
        destruct (Hda i (tgt e) (Hs i Hi) Hpp) as [j [Hj [Hjp Hjd]]].
        { apply append_last_nonempty. apply Hne. left; reflexivity. }
        assert (In j live) as Hjl.
        { apply (Hu i j Hi Hj). rewrite Hjp. exact Hf. }
        assert (existsb (fun j => path_eqb (i_path j) (tgt e) && (negb c || i_dir j)) live = true) as X.
        { apply existsb_exists. exists j. split; [exact Hjl|]. rewrite Hjp, path_eqb_refl, Hjd, orb_true_r. reflexivity. }
        unfold rename_blocked in Hbl. congruence. }
  - destruct (N.ltb (total - e_size e) low); cbn [r_live r_removed] in *.
    + contradiction.
    + destruct (IH (delete live (e_path e) (tgt e)) (total - e_size e)%N i Hne') as [e' [He' Hd']];
        [apply upclosed_delete; exact Hup | exact Hin | exact Hn |].
      exists e'. split; [right; exact He' | exact Hd'].
  - exists e. split; [|exact Hdel].
    destruct (N.ltb (total - e_size e) low); cbn [r_removed]; left; reflexivity.
Qed.

End Loop.

(* ============================== clean ============================== *)

Lemma dirs_present_spec its : dirs_present its = true -> dirs_above its.
Proof.
  unfold dirs_present, dirs_above. rewrite forallb_forall. intros H i q Hi Hpp Hne.
  specialize (H i Hi). rewrite forallb_forall in H.
  pose proof (proper_prefix_length _ _ Hpp) as Hl.
  apply proper_prefix_spec in Hpp as [Hp _]. apply is_prefix_spec in Hp as [t Ht].
  assert (In (length q) (seq 1 (length (i_path i) - 1))) as Hseq.
  { apply in_seq. destruct q; [congruence | cbn in *; lia]. }
  specialize (H (length q) Hseq). apply existsb_exists in H as [j [Hj Hb]].
  apply andb_true_iff in Hb as [Hb1 Hb2]. apply path_eqb_eq in Hb1.
  exists j. split; [exact Hj|]. split; [|exact Hb2].
  rewrite Hb1, Ht. rewrite firstn_app, Nat.sub_diag, firstn_all. cbn. apply app_nil_r.
Qed.

Lemma clean_with_unfold sorter st :
  clean_with sorter st =
  if N.ltb (size_of st) (st_high st) then mkResult (st_items st) (size_of st) [] (entries_of st)
  else loop (st_compress st) (marks_of (st_calls st)) (st_low st) (sorter (entries_of st)) (st_items st) (size_of st).
Proof.
  unfold clean_with, size_of, entries_of.
  destruct (walk (st_compress st) (marks_of (st_calls st)) (st_items st) (st_items st)) as [es t]. reflexivity.
Qed.

Lemma entry_nonempty st e : In e (entries_of st) -> e_path e <> [].
Proof.
  intros H. apply walk_entries in H as [a [_ [Hr [_ ->]]]]. cbn [e_path].
  unfold recognised in Hr. apply andb_true_iff in Hr as [_ Hr]. eapply should_clean_nonempty. exact Hr.
Qed.

Lemma upclosed_refl its : upclosed its its.
Proof. split; [apply incl_refl | intros i j _ Hj _; exact Hj]. Qed.

Section Clean.
Variable sorter : list entry -> list entry.
Hypothesis sorter_perm : forall l, Permutation (sorter l) l.

Theorem clean_whole st : wf st = true -> only_whole_entries sorter st.
Proof.
  intros Hwf. unfold wf in Hwf. apply andb_true_iff in Hwf as [Hwf _]. apply andb_true_iff in Hwf as [Hwf _].
  apply andb_true_iff in Hwf as [Hdp Hfl].
  unfold only_whole_entries. rewrite clean_with_unfold.
  split; [|split; [|split; [|split]]].
  - intros e. destruct (N.ltb (size_of st) (st_high st)); cbn [r_removed]; [intros []|].
    intros H. apply (Permutation_in _ (sorter_perm (entries_of st))).
    eapply Permutation_in; [symmetry; apply loop_perm|]. apply in_or_app. left. exact H.
  - intros e H. apply walk_entries in H. exact H.
  - intros i. destruct (N.ltb (size_of st) (st_high st)); cbn [r_live]; [auto|]. apply loop_live_sub.
  - intros i Hi. destruct (N.ltb (size_of st) (st_high st)); cbn [r_live r_removed].
    + split; [intros H; contradiction | intros [e [[] _]]].
    + split.
      * apply (loop_deleted _ _ _ (st_items st)); [apply dirs_present_spec; exact Hdp | | apply upclosed_refl | exact Hi].
        intros e He. apply (entry_nonempty st). apply (Permutation_in _ (sorter_perm _)). exact He.
      * intros [e [He Hd]] Hin.
        destruct (loop_live_not_deleted _ _ _ _ _ _ _ _ Hin He) as [H1 H2].
        destruct Hd as [Hd|[_ [_ Hd]]]; [congruence|].
        rewrite Hd, is_prefix_refl in H2. discriminate.
  - intros a b Ha Hb. apply recognised_not_nested; assumption.
Qed.

Theorem clean_accounts st : accounts sorter st.
Proof.
  unfold accounts. rewrite clean_with_unfold.
  pose proof (walk_total (st_compress st) (marks_of (st_calls st)) (st_items st) (st_items st)) as Ht.
  fold (entries_of st) (size_of st) in Ht.
  destruct (N.ltb (size_of st) (st_high st)) eqn:Hlt; cbn [r_removed r_kept r_total r_live app].
  - change (sum_size []) with 0%N. split; [reflexivity|]. split; [lia|]. split; [exact Ht|]. intros _. split; reflexivity.
  - assert (sum_size (sorter (entries_of st)) <= size_of st)%N as Hs
      by (rewrite (sum_size_perm _ _ (sorter_perm _)); exact Ht).
    split; [|split; [|split]].
    + rewrite <- (sorter_perm (entries_of st)) at 1. apply loop_perm.
    + apply loop_total. exact Hs.
    + pose proof (loop_kept_total (st_compress st) (marks_of (st_calls st)) (st_low st)
                    (sorter (entries_of st)) (st_items st) (size_of st) 0%N) as H. lia.
    + apply N.ltb_ge in Hlt. lia.
Qed.

Theorem clean_bound st : d_rename st = false -> meets_bound sorter st.
Proof.
  intros Hd. unfold meets_bound. intros Hhigh.
  pose proof (clean_accounts st) as [_ [_ [Hk _]]]. revert Hk.
  rewrite clean_with_unfold. replace (N.ltb (size_of st) (st_high st)) with false by (symmetry; apply N.ltb_ge; exact Hhigh).
  intros Hk.
  destruct (loop_bound (st_compress st) (marks_of (st_calls st)) (st_low st) (st_items st)
              (sorter (entries_of st)) (st_items st) (size_of st)) as [H|H].
  - apply incl_refl.
  - intros e He. apply (Permutation_in _ (sorter_perm _)) in He.
    apply walk_entries in He as [a [_ [_ [Hm ->]]]]. exact Hm.
  - intros e He. apply (Permutation_in _ (sorter_perm _)) in He.
    apply walk_entries in He as [a [Ha [Hr [_ ->]]]]. cbn [e_path].
    unfold d_rename in Hd.
    destruct (rename_blocked (st_compress st) (st_items st) (append_last (i_path a) (s rename_suffix))) eqn:E; [|reflexivity].
    assert (existsb (fun a => should_clean (st_compress st) (base (i_path a)) (i_dir a)
                    && rename_blocked (st_compress st) (st_items st) (append_last (i_path a) (s rename_suffix)))
          (st_items st) = true) as X.
    { apply existsb_exists. exists a. split; [exact Ha|]. rewrite E.
      unfold recognised in Hr. apply andb_true_iff in Hr as [_ Hr]. rewrite Hr. reflexivity. }
    congruence.
  - left. lia.
  - right. exact H.
Qed.

(* ---- protected entries survive ---- *)

Lemma tmp_path_uncompressed p : tmp_path false p = append_last p (s mark_suffix).
Proof.
  induction p as [|x [|y r] IH]; [reflexivity | | ].
  - cbn [tmp_path append_last suffix_of]. rewrite trim_suffix_nil, app_nil_r. reflexivity.
  - change (tmp_path false (x :: y :: r)) with (x :: tmp_path false (y :: r)).
    change (append_last (x :: y :: r) (s mark_suffix)) with (x :: append_last (y :: r) (s mark_suffix)).
    rewrite IH. reflexivity.
Qed.

Lemma entry_path_nonempty c p : entry_path c p = true -> p <> [].
Proof. intros H ->. destruct c; vm_compute in H; discriminate. Qed.

Lemma tmp_path_nonempty c p : p <> [] -> tmp_path c p <> [].
Proof. destruct p as [|x [|y r]]; [congruence | discriminate | discriminate]. Qed.

Lemma item_eq_dec (a b : item) : {a = b} + {a <> b}.
Proof.
  decide equality; [apply Z.eq_dec | apply N.eq_dec | apply bool_dec |].
  apply list_eq_dec. apply list_eq_dec. apply N.eq_dec.
Qed.

Lemma protected_paths_spec st q :
  In q (protected_paths st) <->
  exists m, In m (st_calls st) /\ (q = fst m \/ q = tmp_path (st_compress st) (fst m)).
Proof.
  unfold protected_paths. rewrite in_flat_map. split; intros [m [Hm H]]; exists m; (split; [exact Hm|]).
  - destruct H as [H|[H|[]]]; [left | right]; congruence.
  - destruct H as [->| ->]; [left | right; left]; reflexivity.
Qed.

Theorem clean_safe st :
  wf st = true -> d_ancestor st = false -> d_tmp st = false -> never_removes_protected sorter st.
Proof.
  intros Hwf Hda Hdt. pose proof (clean_whole st Hwf) as [Hsub [Hent [_ [Hdel _]]]].
  unfold wf in Hwf. apply andb_true_iff in Hwf as [Hwf Hkind]. apply andb_true_iff in Hwf as [Hwf Hcalls].
  apply andb_true_iff in Hwf as [Hdp Hfl].
  unfold never_removes_protected, protected. unfold d_ancestor in Hda. unfold d_tmp in Hdt.
  unfold calls_ok in Hcalls. unfold kind_ok in Hkind. rewrite forallb_forall in Hcalls, Hkind.
  remember (protected_paths st) as pps eqn:Epps.
  assert (forall q, In q pps <-> exists m, In m (st_calls st) /\ (q = fst m \/ q = tmp_path (st_compress st) (fst m))) as Hpps
    by (intros q; rewrite Epps; apply protected_paths_spec).
  clear Epps.
  remember (clean_with sorter st) as res eqn:Eres. clear Eres.
  destruct st as [c its calls high low]. cbn [st_compress st_items st_calls] in *.
  set (mk := marks_of calls) in *.
  intros i Hi [q [Hq Hqi]].
  destruct (in_dec item_eq_dec i (r_live res)) as [Hin|Hout]; [exact Hin | exfalso].
  apply (Hdel i Hi) in Hout as [e [He Hd]].
  apply Hsub, Hent in He as [a [Ha [Hra [Hma ->]]]]. cbn [e_path] in Hd.
  assert (should_clean c (base (i_path a)) (i_dir a) = true) as Hsa
    by (unfold recognised in Hra; apply andb_true_iff in Hra as [_ H]; exact H).
  assert (i_path a <> []) as Hane by (eapply should_clean_nonempty; exact Hsa).
  (* facts about the protected path q *)
  apply Hpps in Hq as Hq'. destruct Hq' as [m [Hm Hqm]].
  assert (entry_path c (fst m) = true) as Hep by (apply Hcalls; exact Hm).
  assert (fst m <> []) as Hmne by (eapply entry_path_nonempty; exact Hep).
  assert (q <> []) as Hqne by (destruct Hqm as [->| ->]; [exact Hmne | apply tmp_path_nonempty; exact Hmne]).
  assert (is_marked mk q <> None) as Hqmark.
  { apply is_marked_marks_of. destruct Hqm as [->|Hqm]; [exists m; split; [exact Hm | left; reflexivity]|].
    destruct c.
    - exfalso. cbn [andb] in Hdt.
      assert (existsb (fun i => existsb (fun c => is_prefix (tmp_path true (fst c)) (i_path i)) calls) its = true) as X.
      { apply existsb_exists. exists i. split; [exact Hi|]. apply existsb_exists. exists m. split; [exact Hm|]. rewrite <- Hqm. exact Hqi. }
      congruence.
    - exists m. split; [exact Hm|]. right. rewrite Hqm. apply tmp_path_uncompressed. }
  (* a directory listed at a protected path above a recognised entry is impossible *)
  assert (proper_prefix q (i_path a) = true -> False) as Habove.
  { intros Hpp. destruct (dirs_present_spec _ Hdp a q Ha Hpp Hqne) as [j [Hj [Hjp Hjd]]].
    destruct c.
    - specialize (Hkind j Hj).
      replace (existsb (path_eqb (i_path j)) pps) with true in Hkind.
      + rewrite Hjd in Hkind. discriminate.
      + symmetry. apply existsb_exists. exists q. split; [exact Hq | rewrite Hjp; apply path_eqb_refl].
    - assert (should_clean false (base q) true = true) as Hsq.
      { unfold entry_path in Hep. cbn [suffix_of] in Hep. rewrite has_suffix_nil, trim_suffix_nil in Hep.
        cbn [andb] in Hep. apply final_key_shaped in Hep as [Hk1 Hk2].
        apply should_clean_spec. split; [reflexivity|]. cbn [suffix_of].
        destruct Hqm as [->| ->].
        - exists (base (fst m)). rewrite app_nil_r. auto.
        - rewrite tmp_path_uncompressed, base_append_last by exact Hmne.
          exists (base (fst m) ++ s mark_suffix). rewrite app_nil_r. auto. }
      unfold recognised in Hra. apply andb_true_iff in Hra as [Hv _]. unfold visited in Hv. apply negb_true_iff in Hv.
      assert (existsb (fun j => proper_prefix (i_path j) (i_path a) && skips false j) its = true) as X.
      { apply existsb_exists. exists j. split; [exact Hj|]. unfold skips. rewrite Hjp, Hpp, Hjd, Hsq. reflexivity. }
      congruence. }
  destruct Hd as [Hd|[Hc [Hid Hip]]]; cbn [e_path] in *.
  - (* the item lies at or below the removed entry *)
    destruct (is_prefix_comparable _ _ _ Hd Hqi) as [Hpq|Hqp].
    + destruct (prefix_cases _ _ Hpq) as [Heq|Hpp]; [rewrite Heq in Hma; congruence|].
      destruct c.
      * apply should_clean_spec in Hsa as [Hdir _]. cbn in Hdir.
        pose proof (proper_prefix_trans_l _ _ _ Hpp Hqi) as X.
        rewrite (files_are_leaves_spec _ Hfl i a Hi Ha Hdir) in X. discriminate.
      * cbn [negb andb] in Hda.
        assert (existsb (fun a => should_clean false (base (i_path a)) (i_dir a)
                    && existsb (proper_prefix (i_path a)) pps) its = true) as X.
        { apply existsb_exists. exists a. split; [exact Ha|]. rewrite Hsa. cbn [andb].
          apply existsb_exists. exists q. split; assumption. }
        congruence.
    + destruct (prefix_cases _ _ Hqp) as [Heq|Hpp]; [rewrite <- Heq in Hma; congruence | exact (Habove Hpp)].
  - (* the item is the file the rename replaced *)
    subst c. rewrite Hip in Hqi. destruct (prefix_cases _ _ Hqi) as [Heq|Hpp].
    + apply is_marked_marks_of in Hqmark as [m' [Hm' Hqm']].
      assert (entry_path true (fst m') = true) as Hep' by (apply Hcalls; exact Hm').
      destruct Hqm' as [Hqm'|Hqm'].
      * (* a final entry name does not end in "=" *)
        unfold entry_path in Hep'. apply andb_true_iff in Hep' as [Hsuf _].
        rewrite <- Hqm', Heq, base_append_last in Hsuf by exact Hane.
        cbn [suffix_of] in Hsuf. change (s rename_suffix) with [61%N] in Hsuf.
        rewrite has_suffix_eq_targz in Hsuf. discriminate.
      * rewrite Heq in Hqm'. change (s mark_suffix) with (s rename_suffix) in Hqm'.
        apply append_last_inj in Hqm'; [|exact Hane | eapply entry_path_nonempty; exact Hep'].
        assert (is_marked mk (i_path a) <> None) as X
          by (apply is_marked_marks_of; exists m'; split; [exact Hm' | left; exact Hqm']).
        congruence.
    + apply proper_prefix_append_last in Hpp. exact (Habove Hpp).
Qed.

End Clean.

(* ============================== the property ============================== *)

Definition guarantees (sorter : list entry -> list entry) (st : state) : Prop :=
  never_removes_protected sorter st /\ only_whole_entries sorter st /\ accounts sorter st /\ meets_bound sorter st.

Definition statement : Prop :=
  forall sorter, (forall l, Permutation (sorter l) l) -> forall st, wf st = true -> guarantees sorter st.

Lemma clean_partial sorter : (forall l, Permutation (sorter l) l) -> forall st, wf st = true ->
  only_whole_entries sorter st /\ accounts sorter st
  /\ (d_ancestor st = false -> d_tmp st = false -> never_removes_protected sorter st)
  /\ (d_rename st = false -> meets_bound sorter st).
Proof.
  intros Hp st Hwf. split; [apply clean_whole; assumption|]. split; [apply clean_accounts; assumption|].
  split; [intros; apply clean_safe; assumption | intros; apply clean_bound; assumption].
Qed.

Lemma clean_no_defect sorter : (forall l, Permutation (sorter l) l) -> forall st, wf st = true ->
  defect_class st = None -> guarantees sorter st.
Proof.
  intros Hp st Hwf Hd. unfold defect_class in Hd.
  destruct (d_ancestor st) eqn:E1; [discriminate|]. destruct (d_tmp st) eqn:E2; [discriminate|].
  destruct (d_rename st) eqn:E3; [discriminate|].
  destruct (clean_partial sorter Hp st Hwf) as [H1 [H2 [H3 H4]]].
  split; [apply H3; assumption|]. split; [exact H1|]. split; [exact H2 | apply H4; assumption].
Qed.

(* ---- witnesses: the three defect classes on concrete caches ---- *)

Lemma In_path_existsb (i : item) l : In i l -> existsb (fun j => path_eqb (i_path j) (i_path i)) l = true.
Proof. intros H. apply existsb_exists. exists i. split; [exact H | apply path_eqb_refl]. Qed.

Definition k_target : str := s "aaaaaaaaaaaaaaaaaaaaaaaaaaa=".   (* a target named like an entry *)
Definition k_key : str := s "bbbbbbbbbbbbbbbbbbbbbbbbbbb=".      (* base64 of a 20-byte key *)
Definition k_key2 : str := s "ccccccccccccccccccccccccccc=".

(* uncompressed; //pkg:aaaaaaaaaaaaaaaaaaaaaaaaaaa= has been retrieved by this process *)
Definition w_ancestor : state :=
  mkState false
    [ mkItem [s "cache"] true 4096 100;
      mkItem [s "cache"; s "pkg"] true 4096 100;
      mkItem [s "cache"; s "pkg"; k_target] true 4096 100;
      mkItem [s "cache"; s "pkg"; k_target; k_key] true 4096 100;
      mkItem [s "cache"; s "pkg"; k_target; k_key; s "out.a"] false 700 100 ]
    [ ([s "cache"; s "pkg"; k_target; k_key], 0%N) ] 0 0.

Lemma w_ancestor_refutes : wf w_ancestor = true /\ defect_class w_ancestor = Some KeyShapedAncestor
  /\ ~ never_removes_protected isort w_ancestor.
Proof.
  split; [vm_compute; reflexivity|]. split; [vm_compute; reflexivity|]. intros H.
  specialize (H (mkItem [s "cache"; s "pkg"; k_target; k_key; s "out.a"] false 700 100)).
  apply In_path_existsb in H.
  - vm_compute in H. discriminate.
  - cbn. auto 10.
  - exists [s "cache"; s "pkg"; k_target; k_key]. split; [left; reflexivity | vm_compute; reflexivity].
Qed.

(* compressed; a Store of //pkg:lib is in progress: the entry is marked, its file is being written *)
Definition w_tmp : state :=
  mkState true
    [ mkItem [s "cache"] true 4096 100;
      mkItem [s "cache"; s "pkg"] true 4096 100;
      mkItem [s "cache"; s "pkg"; s "lib"] true 4096 100;
      mkItem [s "cache"; s "pkg"; s "lib"; k_key ++ s "=.tar.gz"] false 300 100;
      mkItem [s "cache"; s "pkg"; s "lib"; k_key2 ++ s ".tar.gz"] false 500 50 ]
    [ ([s "cache"; s "pkg"; s "lib"; k_key ++ s ".tar.gz"], 0%N) ] 0 200.

Lemma w_tmp_refutes : wf w_tmp = true /\ defect_class w_tmp = Some CompressedTmpUnmarked
  /\ ~ never_removes_protected isort w_tmp.
Proof.
  split; [vm_compute; reflexivity|]. split; [vm_compute; reflexivity|]. intros H.
  specialize (H (mkItem [s "cache"; s "pkg"; s "lib"; k_key ++ s "=.tar.gz"] false 300 100)).
  apply In_path_existsb in H.
  - vm_compute in H. discriminate.
  - cbn. auto 10.
  - exists [s "cache"; s "pkg"; s "lib"; k_key ++ s "=.tar.gz"]. split; [right; left; vm_compute; reflexivity | vm_compute; reflexivity].
Qed.

(* uncompressed; an entry and a left-over temporary entry of the same key, nothing marked *)
Definition w_rename : state :=
  mkState false
    [ mkItem [s "cache"] true 4096 100;
      mkItem [s "cache"; s "pkg"] true 4096 100;
      mkItem [s "cache"; s "pkg"; s "lib"] true 4096 100;
      mkItem [s "cache"; s "pkg"; s "lib"; k_key] true 4096 1000;
      mkItem [s "cache"; s "pkg"; s "lib"; k_key; s "out.a"] false 700 100;
      mkItem [s "cache"; s "pkg"; s "lib"; k_key ++ s "="] true 4096 9000;
      mkItem [s "cache"; s "pkg"; s "lib"; k_key ++ s "="; s "out.a"] false 300 100 ]
    [] 0 0.

Lemma w_rename_refutes : wf w_rename = true /\ defect_class w_rename = Some RenameTargetOccupied
  /\ ~ meets_bound isort w_rename.
Proof.
  split; [vm_compute; reflexivity|]. split; [vm_compute; reflexivity|]. intros H.
  unfold meets_bound in H. destruct H as [H|H].
  - vm_compute. discriminate.
  - vm_compute in H. discriminate.
  - vm_compute in H. discriminate.
Qed.

Lemma statement_refuted : ~ statement.
Proof.
  intros H. destruct w_ancestor_refutes as [Hwf [_ Hn]].
  apply Hn. destruct (H isort isort_perm w_ancestor Hwf) as [H1 _]. exact H1.
Qed.

(* a cache without defects on which cleaning does something: two old entries, one retrieved,
   one being stored; the larger old entry goes, the low water mark is reached *)
Definition w_good : state :=
  mkState false
    [ mkItem [s "cache"] true 4096 100;
      mkItem [s "cache"; s "pkg"] true 4096 100;
      mkItem [s "cache"; s "pkg"; s "lib"] true 4096 100;
      mkItem [s "cache"; s "pkg"; s "lib"; k_key] true 4096 1000;
      mkItem [s "cache"; s "pkg"; s "lib"; k_key; s "out.a"] false 700 100;
      mkItem [s "cache"; s "pkg"; s "lib"; k_key2] true 4096 1200;
      mkItem [s "cache"; s "pkg"; s "lib"; k_key2; s "out.a"] false 9000 100;
      mkItem [s "cache"; s "pkg"; s "t1"] true 4096 100;
      mkItem [s "cache"; s "pkg"; s "t1"; k_key] true 4096 50;
      mkItem [s "cache"; s "pkg"; s "t1"; k_key; k_key2] true 4096 50;
      mkItem [s "cache"; s "pkg"; s "t1"; k_key2 ++ s "="] true 4096 5000;
      mkItem [s "cache"; s "pkg"; s "t1"; k_key2 ++ s "="; s "part"] false 10 5000 ]
    [ ([s "cache"; s "pkg"; s "t1"; k_key], 0%N); ([s "cache"; s "pkg"; s "t1"; k_key2], 0%N) ] 10000 9000.

Lemma w_good_ok :
  wf w_good = true /\ defect_class w_good = None
  /\ (st_high w_good <= size_of w_good)%N
  /\ map e_path (r_removed (clean w_good)) = [[s "cache"; s "pkg"; s "lib"; k_key2]]
  /\ map e_path (r_kept (clean w_good)) = [[s "cache"; s "pkg"; s "lib"; k_key]]
  /\ length (r_live (clean w_good)) = 10%nat.
Proof. vm_compute. repeat split; discriminate. Qed.
