(* C38 - proofs about the model of fmt.go simplify (Model/C38.v). *)
From Coq Require Import String Lia.
From PlzV Require Import Base.Harness Gen.C38Fmt Model.C38.
Local Open Scope list_scope.

(* ---- the regenerated shape of the source ----------------------------------------------------------- *)
(* These hold by computation on Gen/C38Fmt.v; a change of fmt.go that survives the translator's shape test but
   changes a parameter breaks them (and everything below, which computes through them). *)
Lemma gen_shape :
  sub_callee = "subinclude"%string /\ sub_arg_types = ["StringExpr"%string] /\ loop_start_offset = 2
  /\ format_pipeline = ["ParseBuild"; "simplify"; "Format"; "Equal"]%string.
Proof. repeat split; reflexivity. Qed.

Lemma is_string_expr_spec a :
  is_string_expr a = match a with NonLit _ => false | _ => true end.
Proof. destruct a; reflexivity. Qed.

Lemma simplify_loop_unfold p : simplify_loop p = loop (length p - 1) p.
Proof. reflexivity. Qed.

(* ---- valid_sub -------------------------------------------------------------------------------------- *)
Lemma valid_sub_Some st a : valid_sub st = Some a -> st = Sub a /\ forallb is_string_expr a = true.
Proof.
  destruct st as [x|id]; cbn [valid_sub]; [|discriminate].
  destruct (forallb is_string_expr x) eqn:E; [|discriminate].
  intros H; injection H as <-. split; [reflexivity|exact E].
Qed.

Lemma valid_sub_merge a b :
  forallb is_string_expr a = true -> forallb is_string_expr b = true -> valid_sub (Sub (a ++ b)) = Some (a ++ b).
Proof. intros Ha Hb. cbn [valid_sub]. rewrite forallb_app, Ha, Hb. reflexivity. Qed.

Lemma unmergeable_valid st : unmergeable st = false <-> exists a, valid_sub st = Some a.
Proof.
  unfold unmergeable. destruct (valid_sub st) as [a|]; split; intros H; try discriminate.
  - exists a; reflexivity.
  - reflexivity.
  - destruct H as [a H]; discriminate.
Qed.

(* ---- the index loop of the source is the structural recursion ------------------------------------------ *)
Lemma nth_error_len {A} (pre : list A) x t : nth_error (pre ++ x :: t) (length pre) = Some x.
Proof. rewrite nth_error_app2 by lia. rewrite Nat.sub_diag. reflexivity. Qed.

Lemma nth_error_len_S {A} (pre : list A) x t : nth_error (pre ++ x :: t) (S (length pre)) = nth_error t 0.
Proof.
  rewrite nth_error_app2 by lia. replace (S (length pre) - length pre) with 1 by lia. reflexivity.
Qed.

Lemma firstn_len {A} (pre t : list A) : firstn (length pre) (pre ++ t) = pre.
Proof. rewrite firstn_app, Nat.sub_diag, firstn_all. cbn. apply app_nil_r. Qed.

Lemma skipn_len_SS {A} (pre : list A) x y t : skipn (S (S (length pre))) (pre ++ x :: y :: t) = t.
Proof.
  rewrite skipn_app. replace (S (S (length pre)) - length pre) with 2 by lia.
  rewrite skipn_all2 by lia. reflexivity.
Qed.

Lemma step_at_boundary pre st suf :
  step (length pre) (pre ++ st :: simplify suf) = pre ++ simplify (st :: suf).
Proof.
  unfold step. rewrite nth_error_len, nth_error_len_S. cbn [simplify].
  destruct (valid_sub st) as [a|]; [|reflexivity].
  destruct (simplify suf) as [|n t]; [reflexivity|]. cbn [nth_error].
  destruct (valid_sub n) as [b|]; [|reflexivity].
  rewrite firstn_len, skipn_len_SS. reflexivity.
Qed.

Lemma loop_inv pre : forall suf, loop (length pre) (pre ++ simplify suf) = simplify (pre ++ suf).
Proof.
  induction pre as [|st pre IH] using rev_ind; intros suf.
  - reflexivity.
  - rewrite app_length. cbn [length]. replace (length pre + 1) with (S (length pre)) by lia.
    cbn [loop]. rewrite <- !app_assoc. cbn [app].
    rewrite step_at_boundary. apply IH.
Qed.

Theorem simplify_loop_eq p : simplify_loop p = simplify p.
Proof.
  rewrite simplify_loop_unfold.
  induction p as [|x p' _] using rev_ind; [reflexivity|].
  rewrite app_length. cbn [length]. replace (length p' + 1 - 1) with (length p') by lia.
  assert (H1 : simplify [x] = [x]) by (cbn [simplify]; destruct (valid_sub x); reflexivity).
  rewrite <- H1 at 1. apply loop_inv.
Qed.

(* ---- order of the subincluded labels ------------------------------------------------------------------ *)
Theorem flatten_simplify p : flatten (simplify p) = flatten p.
Proof.
  unfold flatten. induction p as [|st r IH]; [reflexivity|].
  cbn [simplify map concat].
  destruct (valid_sub st) as [a|] eqn:Ea.
  - destruct (simplify r) as [|n r''] eqn:Er.
    + cbn [map concat]. rewrite <- IH. reflexivity.
    + destruct (valid_sub n) as [b|] eqn:Eb.
      * apply valid_sub_Some in Ea as [-> _]. apply valid_sub_Some in Eb as [-> _].
        rewrite <- IH. cbn [map concat sub_args]. rewrite app_assoc. reflexivity.
      * cbn [map concat]. rewrite <- IH. reflexivity.
  - cbn [map concat]. rewrite <- IH. reflexivity.
Qed.

(* ---- normal form, idempotence ------------------------------------------------------------------------- *)
Lemma normal_tail st r : normal (st :: r) = true -> normal r = true.
Proof. destruct r as [|b r]; [reflexivity|]. cbn [normal]. intros H. apply andb_prop in H. apply H. Qed.

Theorem normal_simplify p : normal (simplify p) = true.
Proof.
  induction p as [|st r IH]; [reflexivity|].
  cbn [simplify].
  destruct (valid_sub st) as [a|] eqn:Ea.
  - destruct (simplify r) as [|n r''] eqn:Er; [reflexivity|].
    destruct (valid_sub n) as [b|] eqn:Eb.
    + (* merged *)
      destruct r'' as [|m r3]; [reflexivity|].
      cbn [normal] in IH |- *. apply andb_prop in IH as [H1 H2]. rewrite H2, andb_true_r.
      assert (Hn : unmergeable n = false) by (apply unmergeable_valid; eauto).
      rewrite Hn in H1. cbn in H1. destruct (unmergeable m); [|discriminate].
      rewrite andb_false_r. reflexivity.
    + cbn [normal]. cbn [normal] in IH. rewrite IH, andb_true_r.
      unfold unmergeable at 2. rewrite Eb. rewrite andb_false_r. reflexivity.
  - destruct (simplify r) as [|n r'']; [reflexivity|].
    cbn [normal]. cbn [normal] in IH. rewrite IH, andb_true_r.
    unfold unmergeable at 1. rewrite Ea. reflexivity.
Qed.

Theorem simplify_normal p : normal p = true -> simplify p = p.
Proof.
  induction p as [|st r IH]; intros H; [reflexivity|].
  cbn [simplify]. rewrite (IH (normal_tail _ _ H)).
  destruct (valid_sub st) as [a|] eqn:Ea; [|reflexivity].
  destruct r as [|n r'']; [reflexivity|].
  destruct (valid_sub n) as [b|] eqn:Eb; [|reflexivity].
  cbn [normal] in H. apply andb_prop in H as [H _].
  unfold unmergeable in H. rewrite Ea, Eb in H. discriminate.
Qed.

Theorem simplify_idem p : simplify (simplify p) = simplify p.
Proof. apply simplify_normal, normal_simplify. Qed.

(* the statements that are not string-only subincludes are kept, in order *)
Theorem simplify_keeps_others p : filter unmergeable (simplify p) = filter unmergeable p.
Proof.
  induction p as [|st r IH]; [reflexivity|].
  cbn [simplify filter].
  destruct (valid_sub st) as [a|] eqn:Ea.
  - assert (Hs : unmergeable st = false) by (apply unmergeable_valid; eauto). rewrite Hs.
    destruct (simplify r) as [|n r''] eqn:Er.
    + cbn [filter]. rewrite Hs. exact IH.
    + destruct (valid_sub n) as [b|] eqn:Eb.
      * rewrite <- IH. cbn [filter].
        assert (Hn : unmergeable n = false) by (apply unmergeable_valid; eauto). rewrite Hn.
        apply valid_sub_Some in Ea as [_ Ha]. apply valid_sub_Some in Eb as [_ Hb].
        unfold unmergeable. rewrite (valid_sub_merge _ _ Ha Hb). reflexivity.
      * cbn [filter]. rewrite Hs. exact IH.
  - cbn [filter]. rewrite IH. reflexivity.
Qed.

Theorem simplify_length p : length (simplify p) <= length p.
Proof.
  induction p as [|st r IH]; [cbn; lia|].
  cbn [simplify].
  destruct (valid_sub st) as [a|]; [|cbn [length]; lia].
  destruct (simplify r) as [|n r'']; [cbn [length] in *; lia|].
  destruct (valid_sub n); cbn [length] in *; lia.
Qed.

(* ---- evaluation ---------------------------------------------------------------------------------------- *)
Section EvalFacts.
  Variable state : Type.
  Variable inc : str -> state -> option state.
  Variable fstr_val : str -> state -> option str.
  Variable nonlit_val : N -> state -> option (list str).
  Variable other : N -> state -> option state.

  Notation args_vals := (args_vals state fstr_val nonlit_val).
  Notation include_all := (include_all state inc).
  Notation exec := (exec state inc fstr_val nonlit_val other).
  Notation eval := (eval state inc fstr_val nonlit_val other).

  Lemma args_vals_app a b st :
    args_vals (a ++ b) st =
    match args_vals a st with
    | None => None
    | Some x => match args_vals b st with None => None | Some y => Some (x ++ y) end
    end.
  Proof.
    induction a as [|h a IH]; cbn [app C38.args_vals].
    - destruct (args_vals b st); reflexivity.
    - destruct (arg_vals state fstr_val nonlit_val h st) as [x|]; [|reflexivity].
      rewrite IH. destruct (args_vals a st) as [xa|]; [|reflexivity].
      destruct (args_vals b st) as [y|]; [|reflexivity].
      rewrite app_assoc. reflexivity.
  Qed.

  Lemma include_all_app x y st :
    include_all (x ++ y) st = match include_all x st with None => None | Some st' => include_all y st' end.
  Proof.
    revert st. induction x as [|l x IH]; intros st; cbn [app C38.include_all]; [reflexivity|].
    destruct (inc l st) as [st'|]; [apply IH|reflexivity].
  Qed.

  (* string-only arguments without an f-string are literals: their values do not depend on the state *)
  Lemma literal_args_state_free b :
    forallb is_string_expr b = true -> has_fstr b = false -> forall st st', args_vals b st = args_vals b st'.
  Proof.
    induction b as [|h b IH]; intros Hs Hf st st'; [reflexivity|].
    cbn [forallb] in Hs. apply andb_prop in Hs as [Hh Hs].
    unfold has_fstr in Hf. cbn [existsb] in Hf. apply orb_false_elim in Hf as [Hfh Hf].
    cbn [C38.args_vals]. rewrite (IH Hs Hf st st').
    destruct h as [v|v|id]; [reflexivity|discriminate|discriminate].
  Qed.

  Lemma exec_merge a b st :
    forallb is_string_expr b = true -> (a = [] \/ has_fstr b = false) ->
    exec (Sub (a ++ b)) st = match exec (Sub a) st with None => None | Some st' => exec (Sub b) st' end.
  Proof.
    intros Hb [->|Hf]; [reflexivity|].
    cbn [C38.exec]. rewrite args_vals_app.
    destruct (args_vals a st) as [x|]; [|reflexivity].
    destruct (args_vals b st) as [y|] eqn:Eb.
    - rewrite include_all_app. destruct (include_all x st) as [st'|]; [|reflexivity].
      rewrite (literal_args_state_free b Hb Hf st' st), Eb. reflexivity.
    - destruct (include_all x st) as [st'|]; [|reflexivity].
      rewrite (literal_args_state_free b Hb Hf st' st), Eb. reflexivity.
  Qed.

  Theorem eval_simplify p : hoisted p = false -> forall st, eval (simplify p) st = eval p st.
  Proof.
    induction p as [|s0 r IH]; intros H st; [reflexivity|].
    cbn [hoisted] in H. apply orb_false_elim in H as [Hr Hm]. specialize (IH Hr).
    cbn [simplify].
    destruct (valid_sub s0) as [a|] eqn:Ea.
    - destruct (simplify r) as [|n r''] eqn:Er.
      + cbn [C38.eval]. destruct (exec s0 st) as [st'|]; [|reflexivity]. rewrite <- IH. reflexivity.
      + destruct (valid_sub n) as [b|] eqn:Eb.
        * apply valid_sub_Some in Ea as [-> Ha]. apply valid_sub_Some in Eb as [-> Hb].
          assert (Hc : a = [] \/ has_fstr b = false).
          { destruct a; [left; reflexivity|right]. cbn in Hm. exact Hm. }
          cbn [C38.eval]. rewrite (exec_merge a b st Hb Hc).
          destruct (exec (Sub a) st) as [st'|]; [|reflexivity].
          rewrite <- IH. reflexivity.
        * cbn [C38.eval]. destruct (exec s0 st) as [st'|]; [|reflexivity]. rewrite <- IH. reflexivity.
    - cbn [C38.eval]. destruct (exec s0 st) as [st'|]; [|reflexivity]. rewrite <- IH. reflexivity.
  Qed.
End EvalFacts.

(* a file without f-string arguments in its top-level subincludes is never in the defect class *)
Lemma has_fstr_app a b : has_fstr (a ++ b) = has_fstr a || has_fstr b.
Proof. unfold has_fstr. apply existsb_app. Qed.

Lemma no_fstr_simplify p : has_fstr (flatten p) = false -> hoisted p = false.
Proof.
  induction p as [|st r IH]; intros H; [reflexivity|].
  unfold flatten in H. cbn [map concat] in H. fold (flatten r) in H.
  rewrite has_fstr_app in H. apply orb_false_elim in H as [_ Hr].
  cbn [hoisted]. rewrite (IH Hr). cbn [orb].
  destruct (valid_sub st) as [a|]; [|reflexivity].
  destruct (simplify r) as [|n r''] eqn:Er; [reflexivity|].
  destruct (valid_sub n) as [b|] eqn:Eb; [|reflexivity].
  apply valid_sub_Some in Eb as [-> _].
  rewrite <- flatten_simplify, Er in Hr. unfold flatten in Hr. cbn [map concat sub_args] in Hr.
  rewrite has_fstr_app in Hr. apply orb_false_elim in Hr as [Hb _]. rewrite Hb. apply andb_false_r.
Qed.

(* ---- the witness of the defect -------------------------------------------------------------------------- *)
(* state = "has PKG been defined": subinclude("//defs:d1") defines it, f"//{PKG}:d2" needs it. *)
Definition w_prog : list stmt := [Sub [Lit (s "//defs:d1")]; Sub [FStr (s "//{PKG}:d2")]].
Definition w_inc (_ : str) (_ : bool) : option bool := Some true.
Definition w_fstr (_ : str) (defined : bool) : option str := if defined then Some (s "//defs:d2") else None.
Definition w_nonlit (_ : N) (_ : bool) : option (list str) := None.
Definition w_other (_ : N) (st : bool) : option bool := Some st.

Lemma witness_accepted : eval bool w_inc w_fstr w_nonlit w_other w_prog false = Some true.
Proof. reflexivity. Qed.
Lemma witness_rejected_after : eval bool w_inc w_fstr w_nonlit w_other (simplify_loop w_prog) false = None.
Proof. reflexivity. Qed.
Lemma witness_class : defect_class w_prog = Some FStringArgHoisted.
Proof. reflexivity. Qed.

(* ---- the asp lexer's token set (regenerated) -------------------------------------------------------------- *)
Definition all_bytes : list N := map N.of_nat (seq 0 256).
Definition unknown_bytes : list N :=
  filter (fun b => match lex_class b with LexUnknown => true | _ => false end) all_bytes.

(* exactly these bytes cannot start a token: control characters, $ ; ? @ \ ^ ` ~ DEL *)
Lemma unknown_bytes_eq :
  unknown_bytes = [1; 2; 3; 4; 5; 6; 7; 8; 11; 12; 14; 15; 16; 17; 18; 19; 20; 21; 22; 23; 24; 25; 26; 27; 28; 29; 30; 31;
                   36; 59; 63; 64; 92; 94; 96; 126; 127]%N.
Proof. vm_compute. reflexivity. Qed.

(* no line continuation: a backslash outside a string literal is "Unknown symbol" *)
Lemma backslash_unknown : lex_class 92 = LexUnknown.
Proof. vm_compute. reflexivity. Qed.

Lemma unknown_message : asp_default_message = "Unknown symbol %c"%string.
Proof. reflexivity. Qed.

(* ---- the same facts stated for the loop model (what Props/C38.v quotes) ----------------------------------- *)
Lemma defect_none_hoisted p : defect_class p = None -> hoisted p = false.
Proof. unfold defect_class. destruct (hoisted p); [discriminate|reflexivity]. Qed.

Theorem loop_eval (state : Type) (inc : str -> state -> option state) (fstr_val : str -> state -> option str)
        (nonlit_val : N -> state -> option (list str)) (other : N -> state -> option state) p st :
  defect_class p = None ->
  eval state inc fstr_val nonlit_val other (simplify_loop p) st = eval state inc fstr_val nonlit_val other p st.
Proof. intros H. rewrite simplify_loop_eq. apply eval_simplify, defect_none_hoisted, H. Qed.

Theorem no_fstr_no_defect p : has_fstr (flatten p) = false -> defect_class p = None.
Proof. intros H. unfold defect_class. rewrite (no_fstr_simplify p H). reflexivity. Qed.

Theorem loop_idem p : simplify_loop (simplify_loop p) = simplify_loop p.
Proof. rewrite !simplify_loop_eq. apply simplify_idem. Qed.

Theorem loop_normal p : normal (simplify_loop p) = true.
Proof. rewrite simplify_loop_eq. apply normal_simplify. Qed.

Theorem loop_normal_fix p : normal p = true -> simplify_loop p = p.
Proof. rewrite simplify_loop_eq. apply simplify_normal. Qed.

Theorem loop_flatten p : flatten (simplify_loop p) = flatten p.
Proof. rewrite simplify_loop_eq. apply flatten_simplify. Qed.

Theorem loop_keeps_others p : filter unmergeable (simplify_loop p) = filter unmergeable p.
Proof. rewrite simplify_loop_eq. apply simplify_keeps_others. Qed.

Theorem loop_length p : length (simplify_loop p) <= length p.
Proof. rewrite simplify_loop_eq. apply simplify_length. Qed.

Lemma witness_refutes :
  (forall p st, eval bool w_inc w_fstr w_nonlit w_other (simplify_loop p) st = eval bool w_inc w_fstr w_nonlit w_other p st) -> False.
Proof.
  intros H. specialize (H w_prog false). rewrite witness_rejected_after, witness_accepted in H. discriminate.
Qed.

(* ---- the names used in DESIGN.md ------------------------------------------------------------------------------ *)
Theorem C38_simplify (state : Type) (inc : str -> state -> option state) (fstr_val : str -> state -> option str)
        (nonlit_val : N -> state -> option (list str)) (other : N -> state -> option state) p st :
  hoisted p = false ->
  eval state inc fstr_val nonlit_val other (simplify p) st = eval state inc fstr_val nonlit_val other p st.
Proof. intros H. apply eval_simplify, H. Qed.

Theorem C38_idem p : simplify (simplify p) = simplify p.
Proof. apply simplify_idem. Qed.

Theorem C38_flatten p : flatten (simplify p) = flatten p.
Proof. apply flatten_simplify. Qed.
