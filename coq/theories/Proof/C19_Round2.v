(* C19, round-2 follow-up: printing the positioned error never panics, one parser never runs out of parse slots
   however many files fail, and error values of concurrent parses never race on their files map.
   Every theorem is about the definitions gotrans regenerates (Gen.C19Tables) through Model.C19. *)
From Coq Require Import String Lia ZifyBool ZifyNat ZifyN.
From PlzV Require Import Base.Harness.
From PlzV Require Gen.C19Tables.
From PlzV Require Import Model.C19.

(* ================================================================================================ *)
(* 1. errorStack.errorMessage                                                                        *)

(* what the translated guard chain and the translated accesses are (recomputed from the source on every run) *)
Lemma render_guards_ok :
  render_guards = [(GLtZero, ASetZero); (GLen OEq, APad 2); (GLen OGt, AShort)].
Proof. reflexivity. Qed.

Lemma render_plain_ok : render_plain = [].
Proof. reflexivity. Qed.

Lemma render_coloured_ok : render_coloured = [AccSliceTo; AccIndex; AccSliceFromNext].
Proof. reflexivity. Qed.

(* the chain of the source: below 0 -> 0; at the end -> pad by two; beyond -> short message.
   What is left is 0 <= cb < len, EXCEPT that cb = 0 on an empty line is cb = len: padded. *)
Lemma source_guards_range :
  forall cb len : Z, (0 <= len)%Z ->
    match run_guards render_guards cb len with
    | GoOn cb' len' => (0 <= cb')%Z /\ ((cb' < len')%Z \/ (cb < 0 /\ cb' = 0 /\ len' = len)%Z)
    | GShort => True
    | GStuck => False
    end.
Proof.
  intros cb len Hlen. rewrite render_guards_ok. cbn [run_guards cond_holds cmp_holds].
  destruct (cb <? 0)%Z eqn:E0; [ split; [lia | right; lia] | ].
  destruct (cb =? len)%Z eqn:E1; [ split; [lia | left; lia] | ].
  destruct (len <? cb)%Z eqn:E2; [ exact I | ].
  split; [lia | left; lia].
Qed.

(* plain output never indexes the line; coloured output does *)
Theorem render_plain_safe :
  forall (ctx : bool) (linelen col : Z), (0 <= linelen)%Z -> render ctx linelen col false <> RPanic.
Proof.
  intros ctx linelen col Hlen. unfold render, render_with.
  destruct ctx; cbn [negb]; [ | discriminate ].
  pose proof (source_guards_range (col - 1)%Z linelen Hlen) as H.
  destruct (run_guards render_guards (col - 1) linelen) as [cb' len' | | ]; [ | discriminate | contradiction ].
  destruct H as [H0 _].
  destruct (cb' <? 0)%Z eqn:E; [ lia | ].
  rewrite render_plain_ok. cbn [forallb]. discriminate.
Qed.

(* The coloured message is the one place where the source is NOT safe for every (column, line): a negative
   charsBefore is clamped to 0 and then line[0] is indexed - on an EMPTY displayed line that is out of range.
   Column >= 1 always holds for a FilePosition made by File.Pos (Column = i - lineOffset with lineOffset < i),
   so the theorem carries that hypothesis; render_coloured_col0 below is the witness that it is needed. *)
Theorem render_coloured_safe :
  forall (ctx : bool) (linelen col : Z), (0 <= linelen)%Z -> (1 <= col)%Z -> render ctx linelen col true <> RPanic.
Proof.
  intros ctx linelen col Hlen Hcol. unfold render, render_with.
  destruct ctx; cbn [negb]; [ | discriminate ].
  pose proof (source_guards_range (col - 1)%Z linelen Hlen) as H.
  destruct (run_guards render_guards (col - 1) linelen) as [cb' len' | | ]; [ | discriminate | contradiction ].
  destruct H as [H0 H1].
  destruct (cb' <? 0)%Z eqn:E; [ lia | ].
  rewrite render_coloured_ok. cbn [forallb access_ok].
  assert (Hlt : (cb' < len')%Z) by lia.
  replace ((0 <=? cb')%Z) with true by lia.
  replace ((cb' <=? len')%Z) with true by lia.
  replace ((cb' <? len')%Z) with true by lia.
  replace ((0 <=? cb' + 1)%Z) with true by lia.
  replace ((cb' + 1 <=? len')%Z) with true by lia.
  cbn. discriminate.
Qed.

Theorem render_safe :
  forall (ctx : bool) (linelen col : Z) (coloured : bool),
    (0 <= linelen)%Z -> (1 <= col)%Z -> render ctx linelen col coloured <> RPanic.
Proof.
  intros ctx linelen col [|] Hlen Hcol; [ apply render_coloured_safe | apply render_plain_safe ]; assumption.
Qed.

(* the hypothesis 1 <= col is needed: column 0 on an empty line with context panics in colour *)
Lemma render_coloured_col0 : render true 0 0 true = RPanic.
Proof. reflexivity. Qed.

(* the merged guard (charsBefore >= len(line) -> pad by two) is NOT safe: the caret three past the end *)
Lemma merged_guard_panics :
  render_with [(GLtZero, ASetZero); (GLen OGe, APad 2)] [] [AccSliceTo; AccIndex; AccSliceFromNext] true 5 9 true = RPanic.
Proof. reflexivity. Qed.

(* ================================================================================================ *)
(* 2. the parse limiter                                                                               *)

(* a call that returns on a one-slot semaphore behaves identically on any larger one *)
Lemma exec_call_mono :
  forall (steps : list lstep) (o : fout) (inuse deferred : nat) (err : bool) (cap n : nat),
    (1 <= cap)%nat ->
    exec_call 1 steps o inuse deferred err = CDone n ->
    exec_call cap steps o inuse deferred err = CDone n.
Proof.
  induction steps as [ | st r IH ]; intros o inuse deferred err cap n Hcap H; [ discriminate | ].
  destruct st; cbn [exec_call] in *; try (apply IH; assumption); try assumption.
  - (* acquire *)
    destruct (1 <=? inuse)%nat eqn:E; [ discriminate | ].
    assert (inuse = O) by lia. subst inuse.
    replace (cap <=? 0)%nat with false by lia. apply IH; assumption.
  - (* release *)
    destruct inuse as [ | i ]; [ discriminate | apply IH; assumption ].
  - (* return_if_err *)
    destruct err; [ assumption | apply IH; assumption ].
Qed.

Lemma balanced_call :
  forall steps, balanced steps = true ->
    forall (cap : nat) (o : fout), (1 <= cap)%nat -> exec_call cap steps o 0 0 false = CDone 0.
Proof.
  intros steps Hb cap o Hcap. unfold balanced in Hb. cbn [forallb] in Hb.
  apply exec_call_mono; [ assumption | ].
  destruct o.
  - destruct (exec_call 1 steps FoParseErr 0 0 false) as [ [ | ? ] | | ]; try discriminate; reflexivity.
  - destruct (exec_call 1 steps FoParseErr 0 0 false) as [ [ | ? ] | | ]; try discriminate.
    destruct (exec_call 1 steps FoInterpErr 0 0 false) as [ [ | ? ] | | ]; try discriminate; reflexivity.
  - destruct (exec_call 1 steps FoParseErr 0 0 false) as [ [ | ? ] | | ]; try discriminate.
    destruct (exec_call 1 steps FoInterpErr 0 0 false) as [ [ | ? ] | | ]; try discriminate.
    destruct (exec_call 1 steps FoOk 0 0 false) as [ [ | ? ] | | ]; try discriminate; reflexivity.
Qed.

(* the invariant over histories: between two calls no slot is occupied; so no call ever waits *)
Theorem balanced_never_blocks :
  forall steps, balanced steps = true ->
    forall (cap : nat), (1 <= cap)%nat ->
      forall (outs : list fout) (k : nat), run_seq cap steps outs 0 k = SeqDone 0.
Proof.
  intros steps Hb cap Hcap. induction outs as [ | o r IH ]; intros k; [ reflexivity | ].
  cbn [run_seq]. rewrite (balanced_call steps Hb cap o Hcap). apply IH.
Qed.

Lemma parse_file_balanced : balanced parse_file_steps = true.
Proof. reflexivity. Qed.

Lemma parse_reader_balanced : balanced parse_reader_steps = true.
Proof. reflexivity. Qed.

Theorem limiter_safe :
  forall (cap : nat), (1 <= cap)%nat -> forall outs : list fout,
    run_seq cap parse_file_steps outs 0 0 = SeqDone 0 /\ run_seq cap parse_reader_steps outs 0 0 = SeqDone 0.
Proof.
  intros cap Hcap outs. split; apply balanced_never_blocks; auto using parse_file_balanced, parse_reader_balanced.
Qed.

(* the criterion is not vacuous: the arrangement that releases explicitly after interpretAll (and so not on the
   early return of a file that does not parse) fails it, and for EVERY capacity cap the call number cap (the
   cap+1-th malformed file) never returns *)
Definition leaky_steps : list lstep := [LAcquire; LParse; LReturnIfErr; LInterpret; LRelease; LAnnotateIfErr; LReturn].

Lemma leaky_not_balanced : balanced leaky_steps = false.
Proof. reflexivity. Qed.

Lemma leaky_fills :
  forall (cap m i k : nat), (i + m = cap)%nat ->
    run_seq cap leaky_steps (repeat FoParseErr (S m)) i k = SeqBlocked (k + m).
Proof.
  intros cap m. induction m as [ | m IH ]; intros i k H.
  - cbn [repeat run_seq leaky_steps exec_call]. replace (cap <=? i)%nat with true by lia. f_equal. lia.
  - change (repeat FoParseErr (S (S m))) with (FoParseErr :: repeat FoParseErr (S m)).
    cbn [run_seq leaky_steps exec_call]. replace (cap <=? i)%nat with false by lia.
    cbn [release_n]. rewrite (IH (S i) (S k)) by lia. f_equal. lia.
Qed.

Theorem leaky_blocks :
  forall cap : nat, run_seq cap leaky_steps (repeat FoParseErr (S cap)) 0 0 = SeqBlocked cap.
Proof. intros cap. apply (leaky_fills cap cap 0 0). reflexivity. Qed.

(* ================================================================================================ *)
(* 3. errorStack.files                                                                                *)

Lemma files_owner_fresh : files_owner = FilesFresh.
Proof. reflexivity. Qed.

Lemma fresh_no_conflict : forall a b, conflict FilesFresh a b = false.
Proof.
  intros a b. unfold conflict, files_map_id, opt_nat_eqb.
  destruct (Nat.eqb (acc_g a) (acc_g b)); reflexivity.
Qed.

(* every schedule of any number of goroutines, each reading and writing the files map of its own error value *)
Theorem fresh_never_racy : forall l : list faccess, racy FilesFresh l = false.
Proof.
  induction l as [ | a r IH ]; [ reflexivity | ]. cbn [racy]. rewrite IH.
  assert (H : existsb (conflict FilesFresh a) r = false).
  { clear IH. induction r as [ | b r IHr ]; [ reflexivity | ]. cbn [existsb]. rewrite fresh_no_conflict, IHr. reflexivity. }
  rewrite H. reflexivity.
Qed.

Theorem error_files_never_racy : forall l : list faccess, racy files_owner l = false.
Proof. rewrite files_owner_fresh. exact fresh_never_racy. Qed.

(* one shared map: two goroutines that each add a line table race, whatever else happens around them *)
Theorem shared_racy :
  forall (pre mid post : list faccess) (g h : nat), g <> h ->
    racy FilesShared (pre ++ mkAcc g true :: mid ++ mkAcc h true :: post) = true.
Proof.
  induction pre as [ | p pre IH ]; intros mid post g h Hgh.
  - cbn [app racy]. apply Bool.orb_true_iff. left.
    apply existsb_exists. exists (mkAcc h true). split.
    + apply in_or_app. right. left. reflexivity.
    + unfold conflict, files_map_id, opt_nat_eqb. cbn [acc_g acc_write].
      apply Nat.eqb_neq in Hgh. rewrite Hgh. reflexivity.
  - cbn [app racy]. rewrite (IH mid post g h Hgh). apply Bool.orb_true_r.
Qed.
