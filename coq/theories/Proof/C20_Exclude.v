(* C20 - SetIncludeAndExclude and the caller's exclude slice over the life of one process (follow-up, seeded r2-m1).
   Model/C20.v gives the caller's slice a backing array and state.Exclude either an array of its own or a view of the
   caller's; which one is decided by the initialisation gotrans translated from the source (Gen.sie_exclude_init).
   Proved here, for every slice, every ExcludeTargets already on the state and every history of appends and builds:
     - with the initialisation the source has (nil) the function does not modify its argument, and what it leaves on the
       state is a function of the argument alone (sie_nil_spec, sie_args_unchanged);
     - every build of a process sees the option slice = the initial one plus what was appended, excludes exactly what the
       label-shaped entries of that slice select, and so never loses a pattern of the initial slice (session_exact,
       session_pattern_persists) - the result of a build is independent of the builds before it (run_session_spec);
     - with the in-place initialisation (exclude[:0]) the view never outgrows the loop index, the state being set up is
       still right, and the caller's slice is rewritten to plains ++ tail (alias_loop_spec, sie_alias_spec); the second
       build of `--exclude //p/...` + "manual" then excludes nothing (alias_second_build_loses_pattern). *)
From Coq Require Import String.
From PlzV Require Import Base.Harness Base.StrFacts Gen.LabelTables Model.C20 Proof.C20_Select.
From Coq Require Import Lia List.
Local Open Scope list_scope.

(* ---- what the loop computes, as a function of the list alone ------------------------------------------------- *)

(* (plain label expressions, parsed label-shaped ones), in order; None = some label-shaped entry does not parse / needs the
   repository root *)
Fixpoint split_excludes (xs : list str) : option (list str * list label) :=
  match xs with
  | [] => Some ([], [])
  | e :: r =>
      if looks_like_label e then
        match parse_exclude e with
        | Some l => match split_excludes r with Some (ps, ls) => Some (ps, l :: ls) | None => None end
        | None => None
        end
      else match split_excludes r with Some (ps, ls) => Some (e :: ps, ls) | None => None end
  end.

Lemma skipn_nth_cons (i : nat) (arr : list str) :
  i < length arr -> skipn i arr = nth i arr [] :: skipn (S i) arr.
Proof.
  revert i; induction arr as [|a arr IH]; intros i Hi; cbn [length] in Hi.
  - lia.
  - destruct i as [|i]; [reflexivity|]. cbn [skipn nth]. apply IH. lia.
Qed.

Lemma split_excludes_labels xs ps ls :
  split_excludes xs = Some (ps, ls) ->
  forall l, In l ls <-> exists e, In e xs /\ looks_like_label e = true /\ parse_exclude e = Some l.
Proof.
  revert ps ls; induction xs as [|e r IH]; intros ps ls H l; cbn [split_excludes] in H.
  - injection H as <- <-. split; [intros [] | intros [e [[] _]]].
  - destruct (looks_like_label e) eqn:Hl.
    + destruct (parse_exclude e) as [l0|] eqn:Hp; [|discriminate].
      destruct (split_excludes r) as [[ps' ls']|] eqn:Hr; [|discriminate].
      injection H as <- <-. specialize (IH _ _ eq_refl l). cbn [In]. split.
      * intros [<- | Hin]; [exists e; auto|]. apply IH in Hin as [e' [Hin' Hrest]]. exists e'; auto.
      * intros [e' [[<- | Hin] [Hl' Hp']]].
        -- left. congruence.
        -- right. apply IH. exists e'; auto.
    + destruct (split_excludes r) as [[ps' ls']|] eqn:Hr; [|discriminate].
      injection H as <- <-. specialize (IH _ _ eq_refl l). rewrite IH. cbn [In]. split.
      * intros [e' [Hin Hrest]]. exists e'; auto.
      * intros [e' [[<- | Hin] [Hl' Hp']]]; [congruence | exists e'; auto].
Qed.

Lemma split_excludes_plains xs ps ls :
  split_excludes xs = Some (ps, ls) -> forall e, In e ps <-> In e xs /\ looks_like_label e = false.
Proof.
  revert ps ls; induction xs as [|e r IH]; intros ps ls H x; cbn [split_excludes] in H.
  - injection H as <- <-. cbn [In]. tauto.
  - destruct (looks_like_label e) eqn:Hl.
    + destruct (parse_exclude e) as [l0|]; [|discriminate].
      destruct (split_excludes r) as [[ps' ls']|] eqn:Hr; [|discriminate].
      injection H as <- <-. rewrite (IH _ _ eq_refl x). cbn [In]. split; [tauto|].
      intros [[<- | Hin] Hx]; [congruence | tauto].
    + destruct (split_excludes r) as [[ps' ls']|] eqn:Hr; [|discriminate].
      injection H as <- <-. cbn [In]. rewrite (IH _ _ eq_refl x). split.
      * intros [<- | [Hin Hx]]; auto.
      * intros [[<- | Hin] Hx]; auto.
Qed.

(* appending to the list: the earlier entries keep their place in both results *)
Lemma split_excludes_app xs ys :
  split_excludes (xs ++ ys) =
  match split_excludes xs, split_excludes ys with
  | Some (ps, ls), Some (ps', ls') => Some (ps ++ ps', ls ++ ls')
  | _, _ => None
  end.
Proof.
  induction xs as [|e r IH]; cbn [app split_excludes].
  - destruct (split_excludes ys) as [[ps' ls']|]; reflexivity.
  - destruct (looks_like_label e).
    + destruct (parse_exclude e) as [l0|]; [|reflexivity]. rewrite IH.
      destruct (split_excludes r) as [[ps ls]|]; [|reflexivity].
      destruct (split_excludes ys) as [[ps' ls']|]; reflexivity.
    + rewrite IH. destruct (split_excludes r) as [[ps ls]|]; [|reflexivity].
      destruct (split_excludes ys) as [[ps' ls']|]; reflexivity.
Qed.

(* ---- state.Exclude = nil: the argument is only read ----------------------------------------------------------- *)

Lemma sie_loop_fresh k : forall i arr l et, i + k = length arr ->
  sie_loop k i arr (Fresh l) et =
  match split_excludes (skipn i arr) with
  | Some (ps, ls) => Some (arr, Fresh (l ++ ps), et ++ ls)
  | None => None
  end.
Proof.
  induction k as [|k IH]; intros i arr l et Hlen; cbn [sie_loop].
  - replace i with (length arr) by lia. rewrite skipn_all. cbn [split_excludes]. rewrite !app_nil_r. reflexivity.
  - rewrite (skipn_nth_cons i arr) by lia. cbn [split_excludes].
    destruct (looks_like_label (nth i arr [])).
    + destruct (parse_exclude (nth i arr [])) as [l0|]; [|reflexivity].
      rewrite IH by lia. destruct (split_excludes (skipn (S i) arr)) as [[ps ls]|]; [|reflexivity].
      rewrite <- app_assoc. reflexivity.
    + cbn [slice_append]. rewrite IH by lia.
      destruct (split_excludes (skipn (S i) arr)) as [[ps ls]|]; [|reflexivity].
      rewrite <- app_assoc. reflexivity.
Qed.

Theorem sie_nil_spec et0 arr :
  sie_with InitNil et0 arr =
  match split_excludes arr with
  | Some (ps, ls) => Some (arr, ps, et0 ++ ls)
  | None => None
  end.
Proof.
  unfold sie_with. cbn [init_slice]. rewrite sie_loop_fresh by lia. cbn [skipn].
  destruct (split_excludes arr) as [[ps ls]|]; reflexivity.
Qed.

(* THE obligation the source has to meet: the translated initialisation is the one that leaves the argument alone. *)
Lemma gen_init_is_nil : sie_exclude_init = InitNil.
Proof. reflexivity. Qed.

Theorem sie_spec et0 arr :
  set_include_exclude et0 arr =
  match split_excludes arr with
  | Some (ps, ls) => Some (arr, ps, et0 ++ ls)
  | None => None
  end.
Proof. unfold set_include_exclude. rewrite gen_init_is_nil. apply sie_nil_spec. Qed.

(* SetIncludeAndExclude does not modify its argument *)
Theorem sie_args_unchanged et0 arr arr' ex et :
  set_include_exclude et0 arr = Some (arr', ex, et) -> arr' = arr.
Proof.
  rewrite sie_spec. destruct (split_excludes arr) as [[ps ls]|]; [|discriminate]. intros H; injection H as <- _ _. reflexivity.
Qed.

(* calling it again with the same slice - on a fresh state, as src/please.go does - gives the same state *)
Theorem sie_repeatable et0 arr arr' ex et :
  set_include_exclude et0 arr = Some (arr', ex, et) -> set_include_exclude et0 arr' = Some (arr', ex, et).
Proof. intros H. pose proof (sie_args_unchanged _ _ _ _ _ H) as ->. exact H. Qed.

(* ---- one process: appends and builds ------------------------------------------------------------------------- *)

(* what the builds of a process observe, written without any slice: the option slice is a value *)
Fixpoint session_spec (probes : list label) (ops : list op) (arr : list str) : option (list build_obs) :=
  match ops with
  | [] => Some []
  | OAppend xs :: r => session_spec probes r (arr ++ xs)
  | OBuild :: r =>
      match split_excludes arr with
      | None => None
      | Some (ps, ls) =>
          match session_spec probes r arr with
          | Some os => Some ((arr, ps, ls, map (excluded ls) probes) :: os)
          | None => None
          end
      end
  end.

(* the result of every build is independent of the builds before it *)
Theorem run_session_spec probes ops : forall arr, run_session probes ops arr = session_spec probes ops arr.
Proof.
  unfold run_session. induction ops as [|o r IH]; intros arr; cbn [run_session_with session_spec].
  - reflexivity.
  - destruct o as [xs|].
    + apply IH.
    + fold (set_include_exclude [] arr). rewrite sie_spec.
      destruct (split_excludes arr) as [[ps ls]|]; [|reflexivity]. cbn [app]. rewrite IH. reflexivity.
Qed.

Definition obs_arr (o : build_obs) : list str := match o with (a, _, _, _) => a end.
Definition obs_excl (o : build_obs) : list str := match o with (_, e, _, _) => e end.
Definition obs_et (o : build_obs) : list label := match o with (_, _, t, _) => t end.
Definition obs_row (o : build_obs) : list bool := match o with (_, _, _, r) => r end.

(* what one build must observe given the option slice it was started with *)
Definition build_exact (probes : list label) (arr0 : list str) (o : build_obs) : Prop :=
  (exists xs, obs_arr o = arr0 ++ xs)
  /\ (forall e, In e (obs_excl o) <-> In e (obs_arr o) /\ looks_like_label e = false)
  /\ (forall l, In l (obs_et o) <-> exists e, In e (obs_arr o) /\ looks_like_label e = true /\ parse_exclude e = Some l)
  /\ (forall x, excluded (obs_et o) x = true <->
        exists e l, In e (obs_arr o) /\ looks_like_label e = true /\ parse_exclude e = Some l
                    /\ selects (l_pkg l) (l_name l) (l_pkg x) (l_name x))
  /\ obs_row o = map (excluded (obs_et o)) probes.

Lemma session_spec_exact probes ops : forall arr0 ys obs,
  session_spec probes ops (arr0 ++ ys) = Some obs -> Forall (build_exact probes arr0) obs.
Proof.
  induction ops as [|o r IH]; intros arr0 ys obs H; cbn [session_spec] in H.
  - injection H as <-. constructor.
  - destruct o as [xs|].
    + rewrite <- app_assoc in H. exact (IH _ _ _ H).
    + destruct (split_excludes (arr0 ++ ys)) as [[ps ls]|] eqn:Hs; [|discriminate].
      destruct (session_spec probes r (arr0 ++ ys)) as [os|] eqn:Hr; [|discriminate].
      injection H as <-. constructor; [|exact (IH _ _ _ Hr)].
      unfold build_exact. cbn [obs_arr obs_excl obs_et obs_row].
      split; [exists ys; reflexivity|].
      split; [exact (split_excludes_plains _ _ _ Hs)|].
      split; [exact (split_excludes_labels _ _ _ Hs)|].
      split; [|reflexivity].
      intros x. rewrite excluded_spec. split.
      * intros [l [Hin Hsel]]. apply (split_excludes_labels _ _ _ Hs) in Hin as [e [Hin [Hl Hp]]].
        exists e, l. auto.
      * intros [e [l [Hin [Hl [Hp Hsel]]]]]. exists l. split; [|exact Hsel].
        apply (split_excludes_labels _ _ _ Hs). exists e. auto.
Qed.

(* Every build of every history: the option slice has only grown, and the build excludes exactly what the label-shaped
   entries of the slice select (`selects`: //p/... = p and below, //p:all = p, //p:t = that target). *)
Theorem session_exact probes ops arr0 obs :
  run_session probes ops arr0 = Some obs -> Forall (build_exact probes arr0) obs.
Proof.
  rewrite run_session_spec. intros H. apply (session_spec_exact probes ops arr0 []). rewrite app_nil_r. exact H.
Qed.

(* so a pattern given at the start excludes what it selects in EVERY build of the process, the first like the last *)
Theorem session_pattern_persists probes ops arr0 obs e l :
  run_session probes ops arr0 = Some obs ->
  In e arr0 -> looks_like_label e = true -> parse_exclude e = Some l ->
  forall o, In o obs ->
    In e (obs_arr o) /\ In l (obs_et o)
    /\ forall x, selects (l_pkg l) (l_name l) (l_pkg x) (l_name x) -> excluded (obs_et o) x = true.
Proof.
  intros H Hin Hl Hp o Ho.
  pose proof (session_exact _ _ _ _ H) as Hall. rewrite Forall_forall in Hall.
  destruct (Hall o Ho) as [[xs Harr] [_ [Het [Hex _]]]].
  assert (Hin' : In e (obs_arr o)) by (rewrite Harr; apply in_or_app; left; exact Hin).
  split; [exact Hin'|]. split.
  - apply Het. exists e. auto.
  - intros x Hsel. apply Hex. exists e, l. auto.
Qed.

(* the instance of the statement: //p/... given at the start keeps package p and everything below it out of every build,
   and - with no other label-shaped exclude - nothing else, in particular never a sibling that shares the prefix *)
Corollary session_dots_persists probes ops arr0 obs e p sr :
  run_session probes ops arr0 = Some obs ->
  In e arr0 -> looks_like_label e = true -> parse_exclude e = Some (L p dots sr) ->
  forall o q m sr', In o obs -> under p q -> excluded (obs_et o) (L q m sr') = true.
Proof.
  intros H Hin Hl Hp o q m sr' Ho Hu.
  destruct (session_pattern_persists _ _ _ _ _ _ H Hin Hl Hp o Ho) as [_ [_ Hx]].
  apply Hx. left. cbn [l_pkg l_name]. auto.
Qed.

(* ---- state.Exclude = exclude[:0]: the in-place filter ----------------------------------------------------------- *)

Lemma set_nth_length n e (arr : list str) : length (set_nth n e arr) = length arr.
Proof. revert n; induction arr as [|a r IH]; intros [|n]; cbn [set_nth length]; auto. Qed.

Lemma set_nth_split n e : forall arr : list str, n < length arr -> set_nth n e arr = firstn n arr ++ e :: skipn (S n) arr.
Proof.
  induction n as [|n IH]; intros [|a r] Hn; cbn [length] in Hn; try lia; cbn [set_nth firstn skipn app].
  - reflexivity.
  - f_equal. apply IH. lia.
Qed.

Lemma firstn_S_set_nth n e : forall arr : list str, n < length arr -> firstn (S n) (set_nth n e arr) = firstn n arr ++ [e].
Proof.
  induction n as [|n IH]; intros [|a r] Hn; cbn [length] in Hn; try lia.
  - reflexivity.
  - cbn [set_nth]. change (firstn (S (S n)) (a :: set_nth n e r)) with (a :: firstn (S n) (set_nth n e r)).
    rewrite IH by lia. reflexivity.
Qed.

Lemma skipn_set_nth n e : forall (arr : list str) j, n < j -> skipn j (set_nth n e arr) = skipn j arr.
Proof.
  induction n as [|n IH]; intros [|a r] [|j] Hj; try lia; cbn [set_nth skipn]; try reflexivity.
  apply IH. lia.
Qed.

Lemma nth_skipn_eq (a b : list str) i : skipn i a = skipn i b -> length a = length b -> i < length a -> nth i a [] = nth i b [].
Proof.
  intros Hs Hlen Hi. pose proof (skipn_nth_cons i a Hi) as Ha.
  assert (Hib : i < length b) by lia. pose proof (skipn_nth_cons i b Hib) as Hb.
  rewrite Hs, Hb in Ha. injection Ha as Ha _. symmetry. exact Ha.
Qed.

(* The loop invariant.  `cur` is the array now, `arr` the array the caller passed; n <= i: the view never outgrows the
   index, so what is still to be read (skipn i) is what the caller passed, and the out-of-view branch of slice_append is
   never taken.  At the end the array is: what was written so far, the plain entries still to come, and the old tail. *)
Lemma alias_loop_spec k : forall i n cur et, n <= i -> i + k = length cur ->
  sie_loop k i cur (Alias n) et =
  match split_excludes (skipn i cur) with
  | Some (ps, ls) => Some (firstn n cur ++ ps ++ skipn (n + length ps) cur, Alias (n + length ps), et ++ ls)
  | None => None
  end.
Proof.
  induction k as [|k IH]; intros i n cur et Hn Hlen; cbn [sie_loop].
  - replace i with (length cur) by lia. rewrite skipn_all. cbn [split_excludes app length].
    rewrite Nat.add_0_r, firstn_skipn, app_nil_r. reflexivity.
  - rewrite (skipn_nth_cons i cur) by lia. cbn [split_excludes].
    destruct (looks_like_label (nth i cur [])) eqn:Hl.
    + destruct (parse_exclude (nth i cur [])) as [l0|]; [|reflexivity].
      rewrite IH by lia. destruct (split_excludes (skipn (S i) cur)) as [[ps ls]|]; [|reflexivity].
      rewrite <- app_assoc. reflexivity.
    + cbn [slice_append]. assert (Hlt : n < length cur) by lia.
      apply Nat.ltb_lt in Hlt as Hb. rewrite Hb.
      set (e := nth i cur []). set (cur' := set_nth n e cur).
      assert (Hlen' : length cur' = length cur) by apply set_nth_length.
      rewrite IH by (rewrite ?Hlen'; lia).
      assert (Hsk : skipn (S i) cur' = skipn (S i) cur) by (apply skipn_set_nth; lia).
      rewrite Hsk. destruct (split_excludes (skipn (S i) cur)) as [[ps ls]|]; [|reflexivity].
      rewrite (firstn_S_set_nth n e cur Hlt : firstn (S n) cur' = _).
      rewrite (skipn_set_nth n e cur (S n + length ps) ltac:(lia) : skipn _ cur' = _).
      cbn [length]. replace (n + S (length ps)) with (S n + length ps) by lia.
      rewrite <- app_assoc. reflexivity.
Qed.

(* the state being set up is the same as with nil; the caller's slice is rewritten: the plain entries, then the old tail *)
Theorem sie_alias_spec et0 arr :
  sie_with InitArgEmptyPrefix et0 arr =
  match split_excludes arr with
  | Some (ps, ls) => Some (ps ++ skipn (length ps) arr, ps, et0 ++ ls)
  | None => None
  end.
Proof.
  unfold sie_with. cbn [init_slice]. rewrite alias_loop_spec by lia. cbn [skipn firstn app plus].
  destruct (split_excludes arr) as [[ps ls]|]; [|reflexivity].
  cbn [slice_elems]. f_equal. f_equal. f_equal.
  rewrite firstn_app, firstn_all, Nat.sub_diag. cbn [firstn]. apply app_nil_r.
Qed.

(* so it modifies its argument exactly when a label-shaped entry stands before a plain one ... *)
Example alias_rewrites_argument :
  sie_with InitArgEmptyPrefix [] [lit "//p/..."; lit "manual"; lit "manual:linux_amd64"]
  = Some ([lit "manual"; lit "manual:linux_amd64"; lit "manual:linux_amd64"], [lit "manual"; lit "manual:linux_amd64"], [L (lit "p") dots []]).
Proof. vm_compute. reflexivity. Qed.

(* ... and the second build of `plz query changes --exclude //p/...` no longer excludes //p:a (seeded r2-m1) *)
Example alias_second_build_loses_pattern :
  let m := [lit "manual"; lit "manual:linux_amd64"] in
  let pa := L (lit "p") (lit "a") [] in
  option_map (map obs_row) (run_session_with InitArgEmptyPrefix [pa] [OAppend m; OAppend m; OBuild; OAppend m; OBuild] [lit "//p/..."])
  = Some [[true]; [false]]
  /\ option_map (map obs_row) (run_session_with InitNil [pa] [OAppend m; OAppend m; OBuild; OAppend m; OBuild] [lit "//p/..."])
  = Some [[true]; [true]].
Proof. vm_compute. split; reflexivity. Qed.
