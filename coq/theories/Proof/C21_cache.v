(* C21 - the Globber as a state machine: the walkedDirs cache is transparent.
   Part 0: the cache protocol of Globber.walkDir regenerated from the source (the walkdir definitions of Gen/GlobRegex.v) is the one
           the model was written from: the key is the whole parameter list of walkDir.
   Part 1: invariants of the state (every cached entry is what a walk of that root returns; keys are distinct;
           entries are never changed or dropped), preserved by every call - also by calls that panic.
   Part 2: cache transparency, by induction over the history: every call of every history returns what the same
           call returns on a fresh Globber, and that is the `glob` of the tree-level theorems.
   Part 3: witnesses (non-vacuity) and a seeded mutant of the protocol (hidden-dependent walk under the same
           root-only key) for which transparency fails. *)
From Coq Require Import String.
From PlzV Require Import Base.Harness Base.StrFacts Model.C21 Proof.C21 Proof.C21_paths Proof.C21_walk Proof.C21_tree.
From PlzV Require Gen.GlobRegex.

(* ------------------------------------------------------------------------------------------- part 0 *)
(* walkDir(rootPath): the lookup and the store use exactly [rootPath], which is every parameter of walkDir; the
   only Globber fields the function reads besides the cache are fixed at construction (NewGlobber). *)
Lemma cache_protocol_regenerated :
  Gen.GlobRegex.walkdir_params = ["rootPath"%string]
  /\ Gen.GlobRegex.walkdir_lookup_key = Gen.GlobRegex.walkdir_params
  /\ Gen.GlobRegex.walkdir_store_key = Gen.GlobRegex.walkdir_params
  /\ Gen.GlobRegex.walkdir_fields = ["buildFileNames"%string; "fs"%string; "walkedDirs"%string]
  /\ Gen.GlobRegex.globber_field_writers = ["walkedDirs:walkDir"%string].
Proof. repeat split; reflexivity. Qed.

(* ------------------------------------------------------------------------------------------- part 1 *)
Section Globber.
Variable bfn : list str.
Variable fsys : str -> option node.

(* what walkDir returns for a root, without any cache *)
Definition walk_pure (root : str) : option walked := option_map (walk_dir bfn root) (fsys root).

Definition cache_ok (g : cache) : Prop :=
  forall root w, cache_get root g = Some w -> walk_pure root = Some w.

Definition cache_extends (g g' : cache) : Prop :=
  forall root w, cache_get root g = Some w -> cache_get root g' = Some w.

Definition keys (g : cache) : list str := map fst g.

Lemma cache_ok_nil : cache_ok [].
Proof. intros root w H. discriminate H. Qed.

Lemma cache_extends_refl g : cache_extends g g.
Proof. intros root w H. exact H. Qed.

Lemma cache_extends_trans g1 g2 g3 : cache_extends g1 g2 -> cache_extends g2 g3 -> cache_extends g1 g3.
Proof. intros H12 H23 root w H. apply H23, H12, H. Qed.

Lemma cache_get_in root g w : cache_get root g = Some w -> In root (keys g).
Proof.
  induction g as [|[k v] g IH]; cbn [cache_get keys map fst]; [discriminate|].
  destruct (str_eqb k root) eqn:E.
  - intros _. left. now apply str_eqb_eq.
  - intros H. right. exact (IH H).
Qed.

Lemma cache_get_none root g : ~ In root (keys g) -> cache_get root g = None.
Proof.
  intros Hn. destruct (cache_get root g) eqn:E; [|reflexivity]. exfalso. exact (Hn (cache_get_in _ _ _ E)).
Qed.

Lemma cache_get_not_in root g : cache_get root g = None -> ~ In root (keys g).
Proof.
  induction g as [|[k v] g IH]; cbn [cache_get keys map fst]; [intros _ []|].
  destruct (str_eqb k root) eqn:E; [discriminate|].
  intros H [Hk|Hin]; [|exact (IH H Hin)].
  subst k. rewrite str_eqb_refl in E. discriminate E.
Qed.

(* one walkDir call *)
Lemma walk_dir_st_spec root g :
  cache_ok g ->
  fst (walk_dir_st bfn fsys root g) = walk_pure root
  /\ cache_ok (snd (walk_dir_st bfn fsys root g))
  /\ cache_extends g (snd (walk_dir_st bfn fsys root g))
  /\ (NoDup (keys g) -> NoDup (keys (snd (walk_dir_st bfn fsys root g))))
  /\ (forall k, In k (keys (snd (walk_dir_st bfn fsys root g))) -> In k (keys g) \/ k = root).
Proof.
  intros Hok. unfold walk_dir_st. destruct (cache_get root g) as [w|] eqn:Eg.
  - cbn [fst snd]. repeat split; auto using cache_extends_refl. symmetry. exact (Hok _ _ Eg).
  - unfold walk_pure. destruct (fsys root) as [t|] eqn:Ef; cbn [fst snd option_map].
    + repeat split.
      * intros r w. cbn [cache_get]. destruct (str_eqb root r) eqn:E.
        -- apply str_eqb_eq in E. subst r. intros [= <-]. unfold walk_pure. now rewrite Ef.
        -- apply Hok.
      * intros r w H. cbn [cache_get]. destruct (str_eqb root r) eqn:E; [|exact H].
        apply str_eqb_eq in E. subst r. rewrite Eg in H. discriminate H.
      * intros Hnd. cbn [keys map fst]. constructor; [|exact Hnd]. now apply cache_get_not_in.
      * cbn [keys map fst In]. intros k [<-|H]; [now right|now left].
    + repeat split; auto using cache_extends_refl.
Qed.

(* Globber.glob as a function of what walkDir returns *)
Definition glob1_pure (root pattern : str) (excludes : list str) (hidden syms : bool) : option (list str) :=
  match pattern_to_matcher root pattern with
  | None => None
  | Some p =>
      match walk_pure root with
      | None => None
      | Some w =>
          filter_matches root (w_subs w) excludes hidden (filter (tmatch p) (w_files w ++ (if syms then w_syms w else [])))
      end
  end.

Fixpoint glob_all_pure (root : str) (includes excludes : list str) (hidden syms : bool) : option (list str) :=
  match includes with
  | [] => Some []
  | inc :: rest =>
      match inc with
      | [] => None
      | _ =>
          match glob1_pure root inc excludes hidden syms with
          | None => None
          | Some ms =>
              option_map (app (map (trim_prefix (root ++ [SLASH])) ms)) (glob_all_pure root rest excludes hidden syms)
          end
      end
  end.

Definition step_ok (g g' : cache) (root : str) : Prop :=
  cache_ok g' /\ cache_extends g g' /\ (NoDup (keys g) -> NoDup (keys g'))
  /\ (forall k, In k (keys g') -> In k (keys g) \/ k = root).

Lemma step_ok_refl g root : cache_ok g -> step_ok g g root.
Proof. intros H. repeat split; auto using cache_extends_refl. Qed.

Lemma step_ok_trans g1 g2 g3 root : step_ok g1 g2 root -> step_ok g2 g3 root -> step_ok g1 g3 root.
Proof.
  intros (_ & He1 & Hn1 & Hk1) (Ho2 & He2 & Hn2 & Hk2). repeat split; auto.
  - eapply cache_extends_trans; eassumption.
  - intros k Hk. destruct (Hk2 k Hk) as [H|H]; [exact (Hk1 k H)|now right].
Qed.

Lemma glob1_st_spec root pattern excludes hidden syms g :
  cache_ok g ->
  fst (glob1_st bfn fsys root pattern excludes hidden syms g) = glob1_pure root pattern excludes hidden syms
  /\ step_ok g (snd (glob1_st bfn fsys root pattern excludes hidden syms g)) root.
Proof.
  intros Hok. unfold glob1_st, glob1_pure. destruct (pattern_to_matcher root pattern) as [p|].
  - destruct (walk_dir_st_spec root g Hok) as (Hw & Hrest).
    destruct (walk_dir_st bfn fsys root g) as [[w|] g1]; cbn [fst snd] in *; rewrite <- Hw; split; auto.
  - cbn [fst snd]. split; [reflexivity|now apply step_ok_refl].
Qed.

Lemma glob_all_st_spec root includes excludes hidden syms : forall g,
  cache_ok g ->
  fst (glob_all_st bfn fsys root includes excludes hidden syms g) = glob_all_pure root includes excludes hidden syms
  /\ step_ok g (snd (glob_all_st bfn fsys root includes excludes hidden syms g)) root.
Proof.
  induction includes as [|inc rest IH]; intros g Hok; cbn [glob_all_st glob_all_pure].
  - cbn [fst snd]. split; [reflexivity|now apply step_ok_refl].
  - destruct inc as [|c inc']; [cbn [fst snd]; split; [reflexivity|now apply step_ok_refl]|].
    destruct (glob1_st_spec root (c :: inc') excludes hidden syms g Hok) as (H1 & Hs1).
    destruct (glob1_st bfn fsys root (c :: inc') excludes hidden syms g) as [[ms|] g1]; cbn [fst snd] in *; rewrite <- H1.
    + destruct (IH g1 (proj1 Hs1)) as (H2 & Hs2).
      destruct (glob_all_st bfn fsys root rest excludes hidden syms g1) as [[out|] g2]; cbn [fst snd] in *;
        rewrite <- H2; cbn [option_map]; (split; [reflexivity|eapply step_ok_trans; eassumption]).
    + split; [reflexivity|exact Hs1].
Qed.

(* ------------------------------------------------------------------------------------------- part 2 *)
(* the result of one Glob call on a fresh Globber *)
Definition glob_fresh (c : call) : option (list str) := fst (glob_st bfn fsys [] c).

Lemma glob_st_spec g c :
  cache_ok g ->
  fst (glob_st bfn fsys g c) = glob_fresh c /\ step_ok g (snd (glob_st bfn fsys g c)) (root_of (c_pkg c)).
Proof.
  intros Hok. unfold glob_fresh, glob_st.
  destruct (glob_all_st_spec (root_of (c_pkg c)) (c_inc c) (c_exc c) (c_hidden c) (c_syms c) g Hok) as (H & Hs).
  destruct (glob_all_st_spec (root_of (c_pkg c)) (c_inc c) (c_exc c) (c_hidden c) (c_syms c) [] cache_ok_nil) as (H0 & _).
  split; [congruence|exact Hs].
Qed.

(* Cache transparency from every state that satisfies the invariant, with the invariants carried along: the
   entries are walks of their roots, nothing cached is ever changed or dropped, keys stay distinct and are
   roots some call of the history named. *)
Theorem run_calls_spec : forall cs g,
  cache_ok g ->
  fst (run_calls bfn fsys g cs) = map glob_fresh cs
  /\ cache_ok (snd (run_calls bfn fsys g cs))
  /\ cache_extends g (snd (run_calls bfn fsys g cs))
  /\ (NoDup (keys g) -> NoDup (keys (snd (run_calls bfn fsys g cs))))
  /\ (forall k, In k (keys (snd (run_calls bfn fsys g cs))) ->
        In k (keys g) \/ In k (map (fun c => root_of (c_pkg c)) cs)).
Proof.
  induction cs as [|c rest IH]; intros g Hok; cbn [run_calls map].
  - cbn [fst snd]. repeat split; auto using cache_extends_refl.
  - destruct (glob_st_spec g c Hok) as (Hr & Ho1 & He1 & Hn1 & Hk1).
    destruct (glob_st bfn fsys g c) as [r g1]; cbn [fst snd] in *.
    destruct (IH g1 Ho1) as (Hrs & Ho2 & He2 & Hn2 & Hk2).
    destruct (run_calls bfn fsys g1 rest) as [rs g2]; cbn [fst snd] in *.
    repeat split.
    + now rewrite Hr, Hrs.
    + exact Ho2.
    + eapply cache_extends_trans; eassumption.
    + auto.
    + intros k Hk. cbn [In]. destruct (Hk2 k Hk) as [H|H]; [|now right; right].
      destruct (Hk1 k H) as [H'|H']; [now left|right; left; now symmetry].
Qed.

(* every call of every history on one Globber returns what the same call returns on a fresh Globber *)
Theorem cache_transparent cs :
  fst (run_calls bfn fsys [] cs) = map glob_fresh cs.
Proof. exact (proj1 (run_calls_spec cs [] cache_ok_nil)). Qed.

(* the same, for a call made after an arbitrary history: the history cannot be observed *)
Theorem history_unobservable h c :
  fst (glob_st bfn fsys (snd (run_calls bfn fsys [] h)) c) = glob_fresh c.
Proof.
  destruct (run_calls_spec h [] cache_ok_nil) as (_ & Hok & _).
  exact (proj1 (glob_st_spec _ c Hok)).
Qed.

Lemma run_calls_app : forall h1 h2 g,
  run_calls bfn fsys g (h1 ++ h2)
  = (fst (run_calls bfn fsys g h1) ++ fst (run_calls bfn fsys (snd (run_calls bfn fsys g h1)) h2),
     snd (run_calls bfn fsys (snd (run_calls bfn fsys g h1)) h2)).
Proof.
  induction h1 as [|c h1 IH]; intros h2 g; cbn [run_calls app].
  - cbn [fst snd app]. now destruct (run_calls bfn fsys g h2).
  - destruct (glob_st bfn fsys g c) as [r g1]. rewrite IH.
    destruct (run_calls bfn fsys g1 h1) as [rs g2]. cbn [fst snd].
    now destruct (run_calls bfn fsys g2 h2).
Qed.

(* the reachable states: the cache after any history holds, for distinct roots that the history named, exactly what
   a walk of each root returns *)
Theorem reachable_cache_ok h :
  let g := snd (run_calls bfn fsys [] h) in
  cache_ok g /\ NoDup (keys g) /\ (forall k, In k (keys g) -> In k (map (fun c => root_of (c_pkg c)) h)).
Proof.
  cbv zeta. destruct (run_calls_spec h [] cache_ok_nil) as (_ & Hok & _ & Hn & Hk). repeat split.
  - exact Hok.
  - apply Hn. constructor.
  - intros k H. destruct (Hk k H) as [[]|H']. exact H'.
Qed.

Theorem reachable_invariant h :
  let g := snd (run_calls bfn fsys [] h) in
  (forall root w, cache_get root g = Some w -> option_map (walk_dir bfn root) (fsys root) = Some w)
  /\ NoDup (map fst g)
  /\ (forall k, In k (map fst g) -> In k (map (fun c => root_of (c_pkg c)) h))
  /\ forall cs,
       fst (run_calls bfn fsys g cs) = map (fun c => fst (glob_st bfn fsys [] c)) cs
       /\ (forall root w, cache_get root g = Some w -> cache_get root (snd (run_calls bfn fsys g cs)) = Some w).
Proof.
  cbv zeta. destruct (reachable_cache_ok h) as (Hok & Hn & Hk).
  repeat split; try assumption; destruct (run_calls_spec cs _ Hok) as (H1 & _ & H3 & _); assumption.
Qed.

(* a fresh Globber computes the `glob` of Model/C21.v (the function the tree-level theorems are about) *)
Lemma glob_all_pure_is_glob_all root t includes excludes hidden syms :
  fsys root = Some t ->
  glob_all_pure root includes excludes hidden syms = glob_all root includes excludes hidden syms (walk_dir bfn root t).
Proof.
  intros Hf. induction includes as [|inc rest IH]; cbn [glob_all_pure glob_all]; [reflexivity|].
  destruct inc as [|c inc']; [reflexivity|].
  unfold glob1_pure, glob1, walk_pure. rewrite Hf. cbn [option_map].
  destruct (pattern_to_matcher root (c :: inc')); [|reflexivity].
  destruct (filter_matches _ _ _ _ _); [|reflexivity]. now rewrite IH.
Qed.

Theorem fresh_is_glob pkg t incs excs hidden syms :
  fsys (root_of pkg) = Some t ->
  glob_fresh (Call pkg incs excs hidden syms) = glob bfn pkg t incs excs hidden syms.
Proof.
  intros Hf. unfold glob_fresh, glob_st. cbn [c_pkg c_inc c_exc c_hidden c_syms].
  rewrite (proj1 (glob_all_st_spec _ _ _ _ _ [] cache_ok_nil)).
  rewrite (glob_all_pure_is_glob_all _ t _ _ _ _ Hf). reflexivity.
Qed.

(* history + call = glob: what the tree-level theorems say about `glob` holds for every call of every history *)
Theorem history_call_is_glob h pkg t incs excs hidden syms :
  fsys (root_of pkg) = Some t ->
  fst (glob_st bfn fsys (snd (run_calls bfn fsys [] h)) (Call pkg incs excs hidden syms))
  = glob bfn pkg t incs excs hidden syms.
Proof. intros Hf. rewrite history_unobservable. now apply fresh_is_glob. Qed.

(* the tree-level theorem (Proof/C21_tree.v tree_correct) lifted to histories: whatever was globbed before on the
   same Globber, a call outside every defect class returns exactly the documented selection *)
Theorem history_correct h pkg tree incs excs hidden syms :
  fsys (root_of (pkg_name pkg)) = Some tree ->
  inputs_ok pkg tree incs excs = true -> tree_wf tree = true ->
  defect_class bfn pkg tree incs excs hidden = None ->
  exists out,
    fst (glob_st bfn fsys (snd (run_calls bfn fsys [] h))
           (Call (pkg_name pkg) (map render incs) (map render excs) hidden syms)) = Some out
    /\ forall x, In x out <-> exists f, x = intercalate f /\ In f (glob_spec bfn (pkg_name pkg) tree incs excs hidden syms).
Proof.
  intros Hf Hin Hwf Hd. rewrite (history_call_is_glob h _ tree _ _ _ _ Hf).
  exact (tree_correct bfn pkg tree incs excs hidden syms Hin Hwf Hd).
Qed.

End Globber.

(* ------------------------------------------------------------------------------------------- part 3 *)
(* a package with hidden files at two levels, a sub-directory that is a root of its own, and a sub-package *)
Definition h_tree : node :=
  Dir [ (s ".top.txt", File); (s "a.txt", File);
        (s "d", Dir [ (s "#c.txt#", File); (s ".b.txt", File); (s "e.txt", File) ]);
        (s "sub", Dir [ (s "BUILD", File); (s "s.txt", File) ]) ].
Definition h_bfn : list str := [s "BUILD"; s "BUILD.plz"].
Definition h_calls : list call :=
  [ Call [] [s "**/*.txt"; s "*.txt"] [] false false;        (* hidden=False first: fills the cache for "." *)
    Call [] [s "**/*.txt"; s "*.txt"] [] true false;         (* hidden=True on the cached walk *)
    Call (s "d") [s "*"] [s "e.*"] true false;               (* another root *)
    Call [] [s "**/*.txt"] [s "e.*"] true true;
    Call (s "nowhere") [s "*"] [] false false ].             (* a root that does not exist: panic, nothing cached *)

Lemma history_witness :
  fst (run_calls h_bfn (fs_of h_tree) [] h_calls)
  = [ Some [s "d/e.txt"; s "a.txt"];
      Some [s "d/.b.txt"; s "d/e.txt"; s ".top.txt"; s "a.txt"];
      Some [s "#c.txt#"; s ".b.txt"];
      Some [s "d/.b.txt"];
      None ]
  /\ map fst (snd (run_calls h_bfn (fs_of h_tree) [] h_calls)) = [s "d"; s "."]
  /\ map (glob_fresh h_bfn (fs_of h_tree)) h_calls = fst (run_calls h_bfn (fs_of h_tree) [] h_calls).
Proof. vm_compute. repeat split. Qed.

(* The seeded mutation m3 as a model: the walk drops hidden entries unless asked for them, the key stays the root.
   Transparency fails on the first two calls of h_calls - the theorem above is about the protocol as it is, and is
   not true of this one. *)
Definition drop_hidden (w : walked) : walked :=
  Walked (filter (fun p => negb (is_hidden p)) (w_files w)) (filter (fun p => negb (is_hidden p)) (w_syms w)) (w_subs w).

Definition m3_walk_st (bfn : list str) (fsys : str -> option node) (root : str) (hidden : bool) (g : cache)
  : option walked * cache :=
  match cache_get root g with
  | Some w => (Some w, g)
  | None =>
      match fsys root with
      | None => (None, g)
      | Some t => let w := walk_dir bfn root t in
                  let w := if hidden then w else drop_hidden w in (Some w, (root, w) :: g)
      end
  end.

Definition m3_glob1 bfn fsys root pattern (hidden : bool) (g : cache) : option (list str) * cache :=
  match pattern_to_matcher root pattern with
  | None => (None, g)
  | Some p =>
      match m3_walk_st bfn fsys root hidden g with
      | (None, g1) => (None, g1)
      | (Some w, g1) => (filter_matches root (w_subs w) [] hidden (filter (tmatch p) (w_files w)), g1)
      end
  end.

Lemma m3_not_transparent :
  let fsys := fs_of h_tree in
  let p := s "*.txt" in
  let g1 := snd (m3_glob1 h_bfn fsys (s ".") p false []) in
  fst (m3_glob1 h_bfn fsys (s ".") p true g1) = Some [s "a.txt"]
  /\ fst (m3_glob1 h_bfn fsys (s ".") p true []) = Some [s ".top.txt"; s "a.txt"].
Proof. vm_compute. split; reflexivity. Qed.

Lemma cache_witnesses :
  fst (run_calls h_bfn (fs_of h_tree) [] h_calls)
  = [ Some [s "d/e.txt"; s "a.txt"];
      Some [s "d/.b.txt"; s "d/e.txt"; s ".top.txt"; s "a.txt"];
      Some [s "#c.txt#"; s ".b.txt"];
      Some [s "d/.b.txt"];
      None ]
  /\ map fst (snd (run_calls h_bfn (fs_of h_tree) [] h_calls)) = [s "d"; s "."]
  /\ Gen.GlobRegex.walkdir_lookup_key = Gen.GlobRegex.walkdir_params
  /\ Gen.GlobRegex.walkdir_store_key = Gen.GlobRegex.walkdir_params
  /\ fst (m3_glob1 h_bfn (fs_of h_tree) (s ".") (s "*.txt") true
             (snd (m3_glob1 h_bfn (fs_of h_tree) (s ".") (s "*.txt") false [])))
     <> fst (m3_glob1 h_bfn (fs_of h_tree) (s ".") (s "*.txt") true []).
Proof.
  destruct history_witness as (H1 & H2 & _). destruct cache_protocol_regenerated as (_ & H3 & H4 & _).
  destruct m3_not_transparent as (H5 & H6).
  repeat split; try assumption. rewrite H5, H6. discriminate.
Qed.
