(* C18 - attribute access on dicts and plugin configuration (Model/C18_Attr.v). *)
From Coq Require Import String.
From PlzV Require Import Base.Harness Base.StrFacts Model.C16_Syntax Model.C16_Ops Model.C16_Prim Model.C16_Eval Model.C16.
From PlzV Require Import Gen.C18Pins Model.C18_Config Model.C18_Attr Model.C18.
From PlzV Require Import Proof.C18_Config.

(* ================================================================ attribute access *)
(* what the two TRANSLATED Property bodies compute (by conversion: these break when the source changes its order) *)
Lemma frozen_prog_shape : forall methods inner kvs name,
  prop_eval frozen_dict_property_prog methods inner kvs name
  = if str_eqb name (s "setdefault") then PPanicked else inner.
Proof. reflexivity. Qed.

Lemma dict_prog_shape : forall methods inner kvs name,
  prop_eval dict_property_prog methods inner kvs name
  = match env_get name kvs with
    | Some v => PVal v
    | None => if existsb (str_eqb name) methods then PMethodOf name else PPanicked
    end.
Proof. reflexivity. Qed.

(* the keys of dictMethods, as generated *)
Lemma method_table_ok : method_table = [s "get"; s "setdefault"; s "keys"; s "items"; s "values"; s "copy"].
Proof. reflexivity. Qed.

(* the wrapper is invisible to `.name` for every name but setdefault, on every heap and dict *)
Theorem frozen_dict_property_transparent : forall st i name,
  name <> s "setdefault" -> dict_property st (VFrozenDict i) name = dict_property st (VDict i) name.
Proof.
  intros st i name Hn. unfold dict_property. rewrite frozen_prog_shape.
  apply str_eqb_neq in Hn. rewrite Hn. reflexivity.
Qed.

(* a KEY shadows the method of the same name - on the ordinary dict and on the wrapper alike *)
Theorem key_shadows_method : forall st i name v,
  env_get name (dict_of st i) = Some v ->
  dict_property st (VDict i) name = PVal v
  /\ (name <> s "setdefault" -> dict_property st (VFrozenDict i) name = PVal v).
Proof.
  intros st i name v Hk.
  assert (H1 : dict_property st (VDict i) name = PVal v).
  { unfold dict_property. rewrite dict_prog_shape, Hk. reflexivity. }
  split; [exact H1|]. intros Hn. rewrite frozen_dict_property_transparent by exact Hn. exact H1.
Qed.

(* ... except for a key named setdefault: the wrapper refuses the name before looking (the code as it is) *)
Lemma setdefault_key_refused : forall st i v,
  env_get (s "setdefault") (dict_of st i) = Some v ->
  dict_property st (VFrozenDict i) (s "setdefault") = PPanicked /\ dict_property st (VDict i) (s "setdefault") = PVal v.
Proof.
  intros st i v Hk. split.
  - unfold dict_property. rewrite frozen_prog_shape. reflexivity.
  - unfold dict_property. rewrite dict_prog_shape, Hk. reflexivity.
Qed.

(* ---- the frozen twin of a value: what an import makes of it.  Scalars and the ELEMENTS of lists stay as they are,
   a list gets the wrapper around the same slice, a dict becomes a wrapped dict with the same keys whose values are
   the twins of the original's values (pyDict.Freeze) *)
Inductive twin (st : state) : value -> value -> Prop :=
| TwRefl v : twin st v v
| TwList sl : twin st (VList sl) (VFrozenList sl)
| TwDict i j :
    (forall k a, env_get k (dict_of st i) = Some a -> exists b, env_get k (dict_of st j) = Some b /\ twin st a b) ->
    (forall k, env_get k (dict_of st i) = None -> env_get k (dict_of st j) = None) ->
    twin st (VDict i) (VFrozenDict j).

Definition no_setdefault (path : list access) : Prop := forall n, List.In (AProp n) path -> n <> s "setdefault".

Definition same_read (st : state) (a b : res value) : Prop :=
  match a, b with
  | Ok x, Ok y => twin st x y
  | Err e1, Err e2 => e1 = e2
  | OutOfFuel, OutOfFuel => True
  | _, _ => False
  end.

Lemma same_read_refl : forall st r, same_read st r r.
Proof. intros st [x|e|]; cbn; [apply TwRefl|reflexivity|exact I]. Qed.

(* ACCESS PATHS OF ANY LENGTH (induction over the path): reading D.a["b"].c... from the imported twin of a value gives
   the twin of what the same path gives on the original - or the same error.  In particular a member whose key is
   named like a dict method is found under that name in both. *)
Theorem attr_path_twin : forall path st v fv,
  no_setdefault path -> twin st v fv -> same_read st (resolve st v path) (resolve st fv path).
Proof.
  induction path as [|a r IH]; intros st v fv Hns Htw; [exact Htw|].
  assert (Hr : no_setdefault r) by (intros n Hin; apply Hns; right; exact Hin).
  cbn [resolve].
  inversion Htw as [v0|sl|i j Hsome Hnone]; subst.
  - apply same_read_refl.
  - assert (E : access1 st (VFrozenList sl) a = access1 st (VList sl) a) by (destruct a; reflexivity).
    rewrite E. apply same_read_refl.
  - destruct a as [n|n].
    + assert (Hn : n <> s "setdefault") by (apply Hns; left; reflexivity).
      unfold access1. rewrite (frozen_dict_property_transparent st j n Hn).
      unfold dict_property. rewrite !dict_prog_shape.
      destruct (env_get n (dict_of st i)) as [x|] eqn:Ei.
      * destruct (Hsome n x Ei) as (y & Ej & Hxy). rewrite Ej. apply IH; assumption.
      * rewrite (Hnone n Ei). destruct (existsb (str_eqb n) method_table); reflexivity.
    + unfold access1, vindex.
      destruct (env_get n (dict_of st i)) as [x|] eqn:Ei.
      * destruct (Hsome n x Ei) as (y & Ej & Hxy). rewrite Ej. apply IH; assumption.
      * rewrite (Hnone n Ei). reflexivity.
Qed.

(* ================================================================ plugin configuration *)
Definition plain_value (v : value) : bool := match v with VFrozenList _ | VFrozenDict _ => false | _ => true end.
Definition all_plain (kvs : list (str * value)) : Prop := forall k x, env_get k kvs = Some x -> plain_value x = true.

Lemma to_py_plain : forall o x, plain_value (to_py o x) = true.
Proof. intros o x. unfold to_py. destruct (o && _); reflexivity. Qed.

Lemma field_value_plain : forall f st v st', field_value f st = Ok (v, st') -> plain_value v = true.
Proof.
  intros f st v st'. unfold field_value.
  destruct (match match pf_host f with Some h => h | None => pf_default f end with [] => negb (pf_optional f) | _ => false end); [discriminate|].
  destruct (negb (pf_repeatable f) && _); [discriminate|].
  destruct (pf_repeatable f).
  - destruct (alloc_list _ _ st) as [sl st1]. intros H. inversion H. reflexivity.
  - intros H. inversion H. apply to_py_plain.
Qed.

Lemma env_set_all_plain : forall key v acc, all_plain acc -> plain_value v = true -> all_plain (env_set key v acc).
Proof.
  intros key v acc Ha Hv k x. rewrite env_get_set. destruct (str_eqb k key).
  - intros H. inversion H. subst. exact Hv.
  - apply Ha.
Qed.

(* INVARIANT of pluginConfig's loop, for ANY number of [PluginConfig] sections: every entry stored so far is an
   ordinary value (str / None / an ordinary list) *)
Lemma plugin_entries_plain : forall fs acc st kvs st',
  all_plain acc -> plugin_entries fs acc st = Ok (kvs, st') -> all_plain kvs.
Proof.
  induction fs as [|f r IH]; intros acc st kvs st' Ha; cbn [plugin_entries].
  - intros H. inversion H. subst. exact Ha.
  - destruct (field_value f st) as [[v st1]|e|] eqn:Ef; cbn; try discriminate.
    intros H. eapply IH; [|exact H]. apply env_set_all_plain; [exact Ha|]. eapply field_value_plain. exact Ef.
Qed.

Lemma nth_len_app : forall (A : Type) (l : list A) (x d : A), nth (length l) (l ++ [x]) d = x.
Proof. intros A l x d. induction l as [|y l IH]; [reflexivity|exact IH]. Qed.

(* loadPluginConfig, with the store as TRANSLATED from the source: for every plugin name, every list of field
   definitions, every scope config and heap, CONFIG.<PLUGIN> afterwards is an ORDINARY dict all of whose entries
   are ordinary values - a repeatable field is an ordinary list *)
Theorem plugin_config_is_ordinary : forall name fs c st c' st',
  env_get (str_upper name) (match c_overlay c with Some o => o | None => [] end) = None ->
  load_plugin_config plugin_store name fs c st = Ok (c', st') ->
  exists i, cfg_get (str_upper name) c' = Some (VDict i) /\ all_plain (dict_of st' i).
Proof.
  intros name fs c st c' st' Hnew. unfold load_plugin_config. rewrite Hnew.
  destruct (plugin_entries fs [] st) as [[kvs st1]|e|] eqn:Ep; cbn; try discriminate.
  unfold alloc_dict. unfold plugin_store. cbn. intros H. inversion H. subst. clear H.
  exists (length (dicts st1)). split.
  - unfold cfg_get. cbn [c_overlay]. rewrite env_get_set, str_eqb_refl. reflexivity.
  - unfold dict_of. cbn [dicts set_dicts]. rewrite nth_len_app.
    eapply plugin_entries_plain; [|exact Ep]. intros k x H. discriminate.
Qed.

(* a second load of the same plugin changes nothing (the `if _, ok := overlay[key]; ok { return }`) *)
Lemma plugin_config_loaded_once : forall mode name fs c st v,
  env_get (str_upper name) (match c_overlay c with Some o => o | None => [] end) = Some v ->
  exists c', load_plugin_config mode name fs c st = Ok (c', st) /\ forall k, cfg_get k c' = cfg_get k c.
Proof.
  intros mode name fs c st v H. unfold load_plugin_config. rewrite H. eexists. split; [reflexivity|].
  intros k. unfold cfg_get. cbn [c_overlay c_base]. destruct (c_overlay c); reflexivity.
Qed.

(* ================================================================ witnesses *)
(* one heap: array 0 = [3, 1]; dict 0 = TOOLS = {"keys": [3, 1], "go": 1}; dict 1 = its frozen copy (pyDict.Freeze);
   dict 2 = {"setdefault": 5} *)
Definition attr_demo : state * value :=
  let '(sl, st1) := alloc_list [VInt 3; VInt 1] 2 empty_state in
  let '(i, st2) := alloc_dict [(s "keys", VList sl); (s "go", VInt 1)] st1 in
  match freeze 8 (VDict i) st2 with
  | Ok (fv, st3) => (snd (alloc_dict [(s "setdefault", VInt 5)] st3), fv)
  | _ => (st2, VNone)
  end.

(* the order a wrapper must NOT use: the method table before the keys *)
Definition method_first_prog : prop_prog := PIfMethod ["setdefault"%string] PDelegate.

Lemma attr_demo_twin : twin (fst attr_demo) (VDict 0) (snd attr_demo).
Proof.
  change (snd attr_demo) with (VFrozenDict 1).
  assert (D0 : dict_of (fst attr_demo) 0 = [(s "keys", VList (Slice 0 0 2 2)); (s "go", VInt 1)]) by reflexivity.
  assert (D1 : dict_of (fst attr_demo) 1 = [(s "keys", VFrozenList (Slice 0 0 2 2)); (s "go", VInt 1)]) by reflexivity.
  apply TwDict; rewrite D0, D1; cbn [env_get].
  - intros k a. destruct (str_eqb k (s "keys")).
    + intros H. inversion H. subst. eexists. split; [reflexivity|apply TwList].
    + destruct (str_eqb k (s "go")); [|discriminate].
      intros H. inversion H. subst. eexists. split; [reflexivity|apply TwRefl].
  - intros k. destruct (str_eqb k (s "keys")); [discriminate|]. destruct (str_eqb k (s "go")); [discriminate|reflexivity].
Qed.

Lemma attr_demo_ok :
  twin (fst attr_demo) (VDict 0) (snd attr_demo)
  /\ resolve (fst attr_demo) (VDict 0) [AProp (s "keys")] = Ok (VList (Slice 0 0 2 2))
  /\ resolve (fst attr_demo) (snd attr_demo) [AProp (s "keys")] = Ok (VFrozenList (Slice 0 0 2 2))
  /\ prop_eval method_first_prog method_table (PVal (VInt 0)) [(s "keys", VInt 0)] (s "keys") = PMethodOf (s "keys")
  /\ dict_property (fst attr_demo) (VFrozenDict 2) (s "setdefault") = PPanicked
  /\ dict_property (fst attr_demo) (VDict 2) (s "setdefault") = PVal (VInt 5).
Proof. split; [exact attr_demo_twin|]. vm_compute. repeat split. Qed.

(* plugin foo: flags (repeatable) = ["-b", "-a"], tool = "footool"; X = CONFIG.FOO.FLAGS *)
Definition plugin_demo (mode : plugin_store_mode) : res value :=
  let fs := [PField (s "flags") [s "-b"; s "-a"] None true false; PField (s "tool") [s "footool"] None false false] in
  match load_plugin_config mode (s "foo") fs (cfg_copy (Config case_base None false)) empty_state with
  | Ok (c, st) => match cfg_read RProp (s "FOO") c with
                  | Ok d => resolve st d [AProp (s "FLAGS")]
                  | Err e => Err e
                  | OutOfFuel => OutOfFuel
                  end
  | Err e => Err e
  | OutOfFuel => OutOfFuel
  end.

Lemma plugin_demo_ok :
  plugin_demo plugin_store = Ok (VList (Slice 0 0 2 2)) /\ plugin_demo PStoreFrozen = Ok (VFrozenList (Slice 0 0 2 2)).
Proof. vm_compute. split; reflexivity. Qed.
