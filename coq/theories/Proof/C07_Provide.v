(* C07 - require / provide does not depend on the order in which Go enumerates target.Provides, PROVIDED the loop of
   provideFor ranges over the Requires slice and only looks the map up (PRangeRequires, which is what gotrans finds in
   the source: gen_provide_range).  A loop that ranges over the map (PRangeProvides) is order dependent: the last
   lemma. *)
From Coq Require Import Permutation.
From PlzV Require Import Base.Harness Base.StrFacts Model.C08 Model.C07_Provide Proof.C07.
From PlzV Require Gen.C07Provide.

(* ------------------------------------------------------------------------------------------ the loop *)

Lemma provide_loop_perm provides provides' requires :
  nodup_keys provides = true -> Permutation provides provides' ->
  provide_loop PRangeRequires provides requires = provide_loop PRangeRequires provides' requires.
Proof.
  intros Hn Hp. unfold provide_loop.
  assert (E : flat_map (fun r => match lookup r provides with Some ls => [ls] | None => [] end) requires
              = flat_map (fun r => match lookup r provides' with Some ls => [ls] | None => [] end) requires).
  { apply flat_map_ext. intros r. now rewrite (lookup_perm r _ _ Hn Hp). }
  now rewrite E.
Qed.

Lemma is_nil_perm {A} (l l' : list A) : Permutation l l' -> is_nil l = is_nil l'.
Proof.
  intros Hp. destruct l as [|x l].
  - apply Permutation_nil in Hp. now subst.
  - destruct l' as [|y l']; [|reflexivity]. apply Permutation_sym, Permutation_nil in Hp. discriminate.
Qed.

(* two stored states of one target as far as require / provide reads it: the Provides map enumerated in another order *)
Definition pnode_same (n n' : pnode) : Prop :=
  Permutation (pn_provides n) (pn_provides n') /\ pn_requires n = pn_requires n'
  /\ pn_data n = pn_data n' /\ pn_tools n = pn_tools n'.

Definition pnode_wfb (n : pnode) : bool := nodup_keys (pn_provides n).

Lemma pnode_same_refl n : pnode_same n n.
Proof. repeat split; reflexivity. Qed.

Lemma provide_for_perm self t t' o o' :
  pnode_wfb t = true -> pnode_same t t' -> pnode_same o o' ->
  provide_for PRangeRequires self t o = provide_for PRangeRequires self t' o'.
Proof.
  intros Hwf (Hp & _ & _ & _) (_ & Hr & Hd & Ht). unfold provide_for.
  rewrite <- Hr, <- Hd, <- Ht, <- (is_nil_perm _ _ Hp), <- (provide_loop_perm _ _ (pn_requires o) Hwf Hp). reflexivity.
Qed.

(* ------------------------------------------------------------------------------------------ the recursion *)

Definition pgraph_same (g g' : pgraph) : Prop :=
  Forall2 (fun kv kv' => fst kv = fst kv' /\ pnode_same (snd kv) (snd kv')) g g'.

Definition pgraph_wf (g : pgraph) : Prop := forallb (fun kv => pnode_wfb (snd kv)) g = true.

Lemma find_pnode_same g : forall g' l, pgraph_wf g -> pgraph_same g g' ->
  pnode_same (find_pnode g l) (find_pnode g' l) /\ pnode_wfb (find_pnode g l) = true.
Proof.
  unfold find_pnode, pgraph_wf.
  induction g as [|kv g IH]; intros g' l Hwf Hs.
  - inversion Hs; subst. cbn. split; [apply pnode_same_refl | reflexivity].
  - inversion Hs as [|? kv' ? g0' [Hk Hn] Hs']; subst. cbn [forallb] in Hwf. apply andb_true_iff in Hwf.
    destruct Hwf as [Hw Hwf]. cbn [find]. rewrite <- Hk. destruct (label_eqb l (fst kv)).
    + now split.
    + now apply IH.
Qed.

(* induction on the fuel: every call of provideFor the recursion makes gives the same labels in both presentations *)
Theorem rec_provide_perm g g' target dependency :
  pgraph_wf g -> pgraph_same g g' ->
  forall fuel d, rec_provide PRangeRequires g target dependency fuel d = rec_provide PRangeRequires g' target dependency fuel d.
Proof.
  intros Hwf Hs. induction fuel as [|f IH]; intros d; [reflexivity|]. cbn [rec_provide].
  destruct (find_pnode_same g g' d Hwf Hs) as [Hd Hdw].
  destruct (find_pnode_same g g' dependency Hwf Hs) as [Hdep _].
  destruct (find_pnode_same g g' target Hwf Hs) as [Ht _].
  rewrite <- (provide_for_perm d _ _ _ _ Hdw Hd Hdep), <- (provide_for_perm d _ _ _ _ Hdw Hd Ht).
  destruct (is_self _ d && is_self _ d); [reflexivity|].
  match goal with |- fold_right _ _ ?l = _ => generalize l end. intros l; induction l as [|r l IHl]; [reflexivity|].
  cbn [fold_right]. rewrite IHl, IH. reflexivity.
Qed.

(* computation on the regenerated definition: the loop of provideFor ranges over other.Requires.  Turning the loop
   round (`for lang, labels := range target.Provides`) makes gotrans emit PRangeProvides and this lemma fails. *)
Lemma gen_provide_range : C07Provide.provide_range = PRangeRequires.
Proof. reflexivity. Qed.

Lemma C07_provide_full_proof :
  forall (g g' : pgraph) (target dependency d : label) (fuel : nat),
    pgraph_wf g -> pgraph_same g g' ->
    rec_provide C07Provide.provide_range g target dependency fuel d = rec_provide C07Provide.provide_range g' target dependency fuel d.
Proof. intros. rewrite gen_provide_range. now apply rec_provide_perm. Qed.

Lemma C07_provide_for_proof :
  forall (self : label) (t t' o : pnode),
    pnode_wfb t = true -> pnode_same t t' ->
    provide_for C07Provide.provide_range self t o = provide_for C07Provide.provide_range self t' o.
Proof. intros. rewrite gen_provide_range. apply provide_for_perm; try assumption. apply pnode_same_refl. Qed.

(* ------------------------------------------------------------------------------------------ the other loop *)

Definition w_p := Label [] (s "") (s "p").
Definition w_q := Label [] (s "") (s "q").
Definition w_lib := Label [] (s "") (s "lib").

(* a loop over the map yields the labels in enumeration order: two enumerations of one map, two results *)
Lemma range_over_map_is_order_dependent :
  ~ (forall (self : label) (t t' o : pnode), pnode_wfb t = true -> pnode_same t t' ->
       provide_for PRangeProvides self t o = provide_for PRangeProvides self t' o).
Proof.
  intros H.
  specialize (H w_lib (PNode [(s "la", [w_p]); (s "lb", [w_q])] [] [] []) (PNode [(s "lb", [w_q]); (s "la", [w_p])] [] [] [])
                (PNode [] [s "la"; s "lb"] [] []) eq_refl).
  assert (Hs : pnode_same (PNode [(s "la", [w_p]); (s "lb", [w_q])] [] [] []) (PNode [(s "lb", [w_q]); (s "la", [w_p])] [] [] [])).
  { repeat split; try reflexivity. cbn. apply perm_swap. }
  specialize (H Hs). vm_compute in H. discriminate.
Qed.
