(* C17 - parametricity of the evaluator in the ids it allocates, part 2: the value-level operations (asp dialect)
   commute with the renaming: str(), ==, the comparisons, in, % formatting, indexing, slicing, index assignment,
   iteration, unpacking, validateType, the strict binary operators, the prefix operators. *)
From Coq Require Import String Lia.
From PlzV Require Import Base.Harness Base.StrFacts Gen.AspTables Model.C16_Syntax Model.C16_Ops Model.C16_Prim Model.C16_Eval.
From PlzV Require Import Proof.C17_Inv Proof.C17_Ops Proof.C17_Scopes Proof.C17_Sim1.
Local Open Scope list_scope.
Local Open Scope nat_scope.

(* head-position case analysis on both sides at once *)
Ltac rs_leaf :=
  match goal with
  | |- rsim _ _ _ (Err _) (Err _) => exact eq_refl
  | |- rsim _ _ _ OutOfFuel OutOfFuel => exact I
  | |- rsim _ _ _ (Ok (_, _)) (Ok (_, _)) => split; [exact eq_refl|assumption]
  end.

Ltac rs_step :=
  unfold rbind; cbv beta match;
  match goal with
  | |- rsim _ _ _ (match ?x with _ => _ end) (match ?x with _ => _ end) => destruct x
  end.

Lemma mapR_map : forall {A B} (g g' : A -> res B) (h : A -> A) l, (forall x, List.In x l -> g' (h x) = g x) -> mapR g' (map h l) = mapR g l.
Proof.
  intros A B g g' h. induction l as [|x r IH]; intros Hg; cbn [map mapR]; [reflexivity|].
  rewrite Hg by (left; reflexivity). rewrite IH by (intros; apply Hg; right; assumption). reflexivity.
Qed.

Lemma mapR_rmap : forall {A B} (g g' : A -> res B) (h : A -> A) (hb : B -> B) l,
  (forall x, List.In x l -> g' (h x) = rmap hb (g x)) -> mapR g' (map h l) = rmap (map hb) (mapR g l).
Proof.
  intros A B g g' h hb. induction l as [|x r IH]; intros Hg; cbn [map mapR]; [reflexivity|].
  rewrite Hg by (left; reflexivity). rewrite IH by (intros; apply Hg; right; assumption).
  destruct (g x); cbn; try reflexivity. destruct (mapR g r); reflexivity.
Qed.

Section Ops.
Variable W : shift.
Variable defs : list (str * prog).
Notation rn := (C17_Sim1.rn W).
Notation rn_slice := (C17_Sim1.rn_slice W).
Notation rn_env := (C17_Sim1.rn_env W).
Notation rn_kv := (C17_Sim1.rn_kv W).
Notation sim := (C17_Sim1.sim W defs).
Notation rsim := (C17_Sim1.rsim W defs).
Notation vR := (C17_Sim1.vR W).
Notation sha := (C17_Sim1.sha W).
Notation shd := (C17_Sim1.shd W).
Notation shf := (C17_Sim1.shf W).

Lemma nth_rn : forall i l, nth i (map rn l) VNone = rn (nth i l VNone).
Proof. intros. change VNone with (rn VNone) at 1. apply map_nth. Qed.

Lemma rn_scalar_list : forall l, Forall (fun v => match v with VInt _ | VStr _ | VBool _ | VNone => True | _ => False end) l -> map rn l = l.
Proof. induction 1 as [|v r Hv _ IH]; cbn [map]; [reflexivity|]. rewrite IH. destruct v; try contradiction; reflexivity. Qed.

Lemma range_up_rn : forall n a c, map rn (range_up n a c) = range_up n a c.
Proof. induction n; intros; cbn; [reflexivity|]. f_equal. auto. Qed.

Lemma range_items_rn : forall a b c, rmap (map rn) (range_items Asp a b c) = range_items Asp a b c.
Proof.
  intros a b c. unfold range_items.
  repeat match goal with |- context [if ?x then _ else _] => destruct x end; cbn [rmap map]; try reflexivity; rewrite range_up_rn; reflexivity.
Qed.

Lemma rsim_val : forall v st st', sim st st' -> rsim vR (Ok (v, st)) (Ok (rn v, st')).
Proof. intros. split; [reflexivity|assumption]. Qed.

Section Read.
Variables st st' : state.
Hypothesis HS : sim st st'.

(* ---------------------------------------------------------------- str() *)
Lemma vstr_sim : forall fuel top v, vstr Asp fuel st' top (rn v) = vstr Asp fuel st top v.
Proof.
  induction fuel as [|f IH]; intros top v; [reflexivity|].
  destruct v; cbn [C17_Sim1.rn vstr is_py andb]; try reflexivity.
  - rewrite (list_items_sim _ _ _ _ HS). rewrite (mapR_map (vstr Asp f st false) (vstr Asp f st' false) rn); [reflexivity|]. intros; apply IH.
  - rewrite (list_items_sim _ _ _ _ HS). rewrite (mapR_map (vstr Asp f st false) (vstr Asp f st' false) rn); [reflexivity|]. intros; apply IH.
  - rewrite (dict_of_sim _ _ _ _ HS). cbn [dict_enum]. rewrite rn_sort_kvs. unfold C17_Sim1.rn_env.
    match goal with |- rbind (mapR ?g' (map _ ?l)) _ = rbind (mapR ?g _) _ => rewrite (mapR_map g g' rn_kv l) end; [reflexivity|].
    intros kv _. cbn [C17_Sim1.rn_kv fst snd]. rewrite IH. reflexivity.
  - rewrite (dict_of_sim _ _ _ _ HS). cbn [dict_enum]. rewrite rn_sort_kvs. unfold C17_Sim1.rn_env.
    match goal with |- rbind (mapR ?g' (map _ ?l)) _ = rbind (mapR ?g _) _ => rewrite (mapR_map g g' rn_kv l) end; [reflexivity|].
    intros kv _. cbn [C17_Sim1.rn_kv fst snd]. rewrite IH. reflexivity.
  - change (Func [] [] [] 0) with dflt_func. rewrite (func_name_sim _ _ _ _ HS). reflexivity.
Qed.

(* ---------------------------------------------------------------- == *)
Lemma veq_sim : forall fuel a b, veq Asp fuel st' (rn a) (rn b) = veq Asp fuel st a b.
Proof.
  induction fuel as [|f IH]; intros a b; [reflexivity|].
  assert (Hl : forall s1 s2,
    (if negb (Nat.eqb (length (list_items Asp st' (rn_slice s1))) (length (list_items Asp st' (rn_slice s2)))) then Ok false
     else (fix go (l1 l2 : list value) : res bool :=
             match l1, l2 with
             | x :: r1, y :: r2 => rbind (veq Asp f st' x y) (fun e => if e then go r1 r2 else Ok false)
             | _, _ => Ok true
             end) (list_items Asp st' (rn_slice s1)) (list_items Asp st' (rn_slice s2))) =
    (if negb (Nat.eqb (length (list_items Asp st s1)) (length (list_items Asp st s2))) then Ok false
     else (fix go (l1 l2 : list value) : res bool :=
             match l1, l2 with
             | x :: r1, y :: r2 => rbind (veq Asp f st x y) (fun e => if e then go r1 r2 else Ok false)
             | _, _ => Ok true
             end) (list_items Asp st s1) (list_items Asp st s2))).
  { intros s1 s2. rewrite !(list_items_sim _ _ _ _ HS), !map_length.
    destruct (negb _); [reflexivity|].
    generalize (list_items Asp st s2). generalize (list_items Asp st s1). intros l.
    induction l as [|x r1 IHl]; intros [|y r2]; cbn [map]; try reflexivity.
    rewrite IH. destruct (veq Asp f st x y) as [[|]| |]; cbn [rbind]; try reflexivity. apply IHl. }
  assert (Hd : forall i j,
    (if negb (Nat.eqb (length (dict_of st' (shd i))) (length (dict_of st' (shd j)))) then Ok false
     else (fix go (l : list (str * value)) : res bool :=
             match l with
             | [] => Ok true
             | (k, x) :: r => match env_get k (dict_of st' (shd j)) with
                              | None => Ok false
                              | Some y => rbind (veq Asp f st' x y) (fun e => if e then go r else Ok false)
                              end
             end) (dict_of st' (shd i))) =
    (if negb (Nat.eqb (length (dict_of st i)) (length (dict_of st j))) then Ok false
     else (fix go (l : list (str * value)) : res bool :=
             match l with
             | [] => Ok true
             | (k, x) :: r => match env_get k (dict_of st j) with
                              | None => Ok false
                              | Some y => rbind (veq Asp f st x y) (fun e => if e then go r else Ok false)
                              end
             end) (dict_of st i))).
  { intros i j. rewrite !(dict_of_sim _ _ _ _ HS), !rn_env_length.
    destruct (negb _); [reflexivity|].
    generalize (dict_of st i). intros e0. induction e0 as [|[k x] r IHl]; cbn [C17_Sim1.rn_env map C17_Sim1.rn_kv fst snd]; [reflexivity|].
    fold (rn_env (dict_of st j)). rewrite rn_env_get. destruct (env_get k (dict_of st j)) as [y|]; cbn [option_map]; [|reflexivity].
    rewrite IH. destruct (veq Asp f st x y) as [[|]| |]; cbn [rbind]; try reflexivity. apply IHl. }
  destruct a, b; cbn [C17_Sim1.rn veq]; try reflexivity; try apply Hl; try apply Hd.
  unfold C17_Sim1.shf. rewrite sh_eqb. reflexivity.
Qed.

(* ---------------------------------------------------------------- < *)
Lemma vcmp_sim : forall fuel o a b, vcmp Asp fuel st' o (rn a) (rn b) = vcmp Asp fuel st o a b.
Proof.
  induction fuel as [|f IH]; intros o a b; [reflexivity|].
  assert (Hop : forall v, match rn v with VBool _ | VNone | VFunc _ | VBuiltin _ | VNilList => false | _ => true end =
                          match v with VBool _ | VNone | VFunc _ | VBuiltin _ | VNilList => false | _ => true end).
  { destruct v; reflexivity. }
  assert (Hl : forall s1 s2,
    (fix go (l1 l2 : list value) : res bool :=
       match l1 with
       | [] => Ok (match l2 with [] => false | _ => true end)
       | x :: r1 =>
           match l2 with
           | [] => Ok false
           | y :: r2 =>
               if negb (match x with VBool _ | VNone | VFunc _ | VBuiltin _ | VNilList => false | _ => true end &&
                        match y with VBool _ | VNone | VFunc _ | VBuiltin _ | VNilList => false | _ => true end) then Err EType else
               rbind (vcmp Asp f st' C16_Syntax.Lt y x) (fun gt => if gt then Ok false else
               rbind (vcmp Asp f st' C16_Syntax.Lt x y) (fun lt => if lt then Ok true else go r1 r2))
           end
       end) (list_items Asp st' (rn_slice s1)) (list_items Asp st' (rn_slice s2)) =
    (fix go (l1 l2 : list value) : res bool :=
       match l1 with
       | [] => Ok (match l2 with [] => false | _ => true end)
       | x :: r1 =>
           match l2 with
           | [] => Ok false
           | y :: r2 =>
               if negb (match x with VBool _ | VNone | VFunc _ | VBuiltin _ | VNilList => false | _ => true end &&
                        match y with VBool _ | VNone | VFunc _ | VBuiltin _ | VNilList => false | _ => true end) then Err EType else
               rbind (vcmp Asp f st C16_Syntax.Lt y x) (fun gt => if gt then Ok false else
               rbind (vcmp Asp f st C16_Syntax.Lt x y) (fun lt => if lt then Ok true else go r1 r2))
           end
       end) (list_items Asp st s1) (list_items Asp st s2)).
  { intros s1 s2. rewrite !(list_items_sim _ _ _ _ HS).
    generalize (list_items Asp st s2). generalize (list_items Asp st s1). intros l.
    induction l as [|x r1 IHl]; intros [|y r2]; cbn [map]; try reflexivity.
    rewrite !Hop, !IH. destruct (negb _); [reflexivity|].
    destruct (vcmp Asp f st C16_Syntax.Lt y x) as [[|]| |]; cbn [rbind]; try reflexivity.
    destruct (vcmp Asp f st C16_Syntax.Lt x y) as [[|]| |]; cbn [rbind]; try reflexivity. apply IHl. }
  destruct a, b; cbn [C17_Sim1.rn vcmp]; try reflexivity; destruct o; try reflexivity; apply Hl.
Qed.

Lemma iface_eq_rn : forall a b, iface_eq (rn a) (rn b) = iface_eq a b.
Proof. intros a b. destruct a, b; reflexivity. Qed.

(* ---------------------------------------------------------------- in *)
Lemma vin_sim : forall fuel x c, vin Asp fuel st' (rn x) (rn c) = vin Asp fuel st x c.
Proof.
  intros fuel x c.
  assert (Hl : forall sl,
    (fix go (l : list value) : res bool :=
       match l with
       | [] => Ok false
       | y :: r => rbind (iface_eq y (rn x)) (fun e => if e then Ok true else go r)
       end) (list_items Asp st' (rn_slice sl)) =
    (fix go (l : list value) : res bool :=
       match l with
       | [] => Ok false
       | y :: r => rbind (iface_eq y x) (fun e => if e then Ok true else go r)
       end) (list_items Asp st sl)).
  { intros sl. rewrite (list_items_sim _ _ _ _ HS). induction (list_items Asp st sl) as [|y r IHl]; cbn [map]; [reflexivity|].
    rewrite iface_eq_rn. destruct (iface_eq y x) as [[|]| |]; cbn [rbind]; try reflexivity. apply IHl. }
  destruct c; cbn [C17_Sim1.rn vin]; try reflexivity; try apply Hl.
  - destruct x; reflexivity.
  - destruct x; cbn [C17_Sim1.rn]; try reflexivity. rewrite (dict_of_sim _ _ _ _ HS), rn_env_get. destruct (env_get _ _); reflexivity.
  - destruct x; cbn [C17_Sim1.rn]; try reflexivity. rewrite (dict_of_sim _ _ _ _ HS), rn_env_get. destruct (env_get _ _); reflexivity.
Qed.

(* ---------------------------------------------------------------- % *)
Lemma fmt_go_sim : forall fuel n fmt args, length fmt <= n -> fmt_go Asp fuel st' fmt (map rn args) = fmt_go Asp fuel st fmt args.
Proof.
  intros fuel. induction n as [|n IH]; intros fmt args Hn.
  - destruct fmt; [|cbn in Hn; lia]. destruct args; reflexivity.
  - destruct fmt as [|c r]; [destruct args; reflexivity|].
    cbn [fmt_go].
    repeat match goal with |- (match ?x with _ => _ end) = (match ?x with _ => _ end) => destruct x end;
      try reflexivity;
      try (rewrite IH by (cbn [length] in Hn |- *; lia); reflexivity);
      (destruct args as [|a ar]; cbn [map]; [reflexivity|]);
      first [ rewrite vstr_sim, IH by (cbn [length] in Hn |- *; lia); reflexivity
            | destruct a; cbn [C17_Sim1.rn]; try reflexivity; rewrite IH by (cbn [length] in Hn |- *; lia); reflexivity ].
Qed.

(* ---------------------------------------------------------------- index *)
Lemma vindex_sim : forall obj idx, vindex Asp st' (rn obj) (rn idx) = rmap rn (vindex Asp st obj idx).
Proof.
  intros obj idx. unfold vindex.
  destruct obj; cbn [C17_Sim1.rn]; try reflexivity; destruct idx; cbn [C17_Sim1.rn]; try reflexivity.
  - destruct (py_index _ _ _); cbn [rbind rmap]; try reflexivity. destruct (_ && _); reflexivity.
  - rewrite (list_items_sim _ _ _ _ HS), map_length. destruct (py_index _ _ _); cbn [rbind rmap]; try reflexivity.
    destruct (_ && _); cbn [rmap]; [|reflexivity]. rewrite nth_rn. reflexivity.
  - rewrite (list_items_sim _ _ _ _ HS), map_length. destruct (py_index _ _ _); cbn [rbind rmap]; try reflexivity.
    destruct (_ && _); cbn [rmap]; [|reflexivity]. rewrite nth_rn. reflexivity.
  - rewrite (dict_of_sim _ _ _ _ HS), rn_env_get. destruct (env_get _ _); reflexivity.
  - rewrite (dict_of_sim _ _ _ _ HS), rn_env_get. destruct (env_get _ _); reflexivity.
Qed.

Lemma apply_un_sim : forall u v, apply_un Asp u st' (rn v) = rmap rn (apply_un Asp u st v).
Proof. intros u v. destruct u; cbn [apply_un]; [destruct v; reflexivity|]. rewrite (truthy_sim _ _ _ _ HS). reflexivity. Qed.

Lemma iter_items_sim : forall v, iter_items Asp st' (rn v) = rmap (map rn) (iter_items Asp st v).
Proof.
  destruct v; cbn [C17_Sim1.rn iter_items rmap]; try reflexivity.
  - rewrite (list_items_sim _ _ _ _ HS). reflexivity.
  - rewrite (list_items_sim _ _ _ _ HS). reflexivity.
  - symmetry. apply range_items_rn.
Qed.

Lemma strict_list_sim : forall v, strict_list Asp st' (rn v) = rmap (map rn) (strict_list Asp st v).
Proof.
  destruct v; cbn [C17_Sim1.rn strict_list rmap]; try reflexivity. rewrite (list_items_sim _ _ _ _ HS). reflexivity.
Qed.

End Read.

Lemma validate_rn : forall t def v, (forall dv, def = Some dv -> rn dv = dv) -> validate t def (rn v) = rmap rn (validate t def v).
Proof.
  intros t def v Hd. unfold validate. destruct (N.eqb t 0); [reflexivity|].
  destruct v; cbn [C17_Sim1.rn type_tag]; try (destruct (negb _); reflexivity).
  destruct def as [dv|]; [|reflexivity]. cbn [rmap]. rewrite Hd; reflexivity.
Qed.

(* ---------------------------------------------------------------- results that are states *)
Definition ssim (r r' : res state) : Prop :=
  match r, r' with
  | Ok s0, Ok s0' => sim s0 s0'
  | Err k, Err k' => k = k'
  | OutOfFuel, OutOfFuel => True
  | _, _ => False
  end.

Lemma rsim_bind_state : forall {B} (R : B -> B -> Prop) r r' (k k' : state -> res (B * state)),
  ssim r r' -> (forall s0 s0', sim s0 s0' -> rsim R (k s0) (k' s0')) -> rsim R (rbind r k) (rbind r' k').
Proof. intros B R r r' k k' H Hk. destruct r, r'; cbn in *; try contradiction; auto. Qed.

Lemma unpack_names_sim : forall names v st st', sim st st' -> ssim (unpack_names Asp names v st) (unpack_names Asp names (rn v) st').
Proof.
  intros names v st st' HS. unfold unpack_names. destruct names as [|n [|n2 r]].
  - destruct v; cbn [C17_Sim1.rn ssim]; try reflexivity.
    rewrite (list_items_sim _ _ _ _ HS), map_length. destruct (Nat.eqb _ _); cbn [ssim]; [|reflexivity]. cbn. exact HS.
  - cbn [ssim]. apply set_var_sim. exact HS.
  - destruct v; cbn [C17_Sim1.rn ssim]; try reflexivity.
    rewrite (list_items_sim _ _ _ _ HS), map_length. destruct (Nat.eqb _ _); cbn [ssim]; [|reflexivity].
    rewrite combine_rn. apply set_vars_sim. exact HS.
Qed.

Lemma vindex_assign_sim : forall obj idx v st st', sim st st' -> ssim (vindex_assign Asp st obj idx v) (vindex_assign Asp st' (rn obj) (rn idx) (rn v)).
Proof.
  intros obj idx v st st' HS. unfold vindex_assign.
  destruct obj; cbn [C17_Sim1.rn ssim]; try reflexivity; destruct idx; cbn [C17_Sim1.rn ssim]; try reflexivity.
  - cbn [list_len C17_Sim1.rn_slice s_len s_arr s_off]. destruct (_ && _); cbn [ssim]; [|reflexivity].
    apply (arr_write_sim W defs _ _ [v]). exact HS.
  - apply dict_store_sim. exact HS.
Qed.

Lemma vslice_sim : forall obj lo hi st st', sim st st' ->
  rsim vR (vslice Asp st obj lo hi) (vslice Asp st' (rn obj) (option_map rn lo) (option_map rn hi)).
Proof.
  intros obj lo hi st st' HS. unfold vslice. cbv beta iota zeta.
  assert (Hb : forall len o def,
    match option_map rn o with None => Ok def | Some (VInt i) => py_index len i true | Some _ => Err EType end =
    match o with None => Ok def | Some (VInt i) => py_index len i true | Some _ => Err EType end).
  { intros len o def. destruct o as [v|]; [destruct v|]; reflexivity. }
  destruct obj; cbn [C17_Sim1.rn]; try rs_leaf.
  - rewrite !Hb. repeat first [rs_leaf | rs_step].
  - cbn [C17_Sim1.rn_slice s_len s_arr s_off s_cap]. rewrite !Hb. repeat first [rs_leaf | rs_step].
Qed.

(* ---------------------------------------------------------------- the strict binary operators *)
Lemma alloc_list_rsim : forall items cap st st', sim st st' ->
  rsim vR (let '(r, st1) := alloc_list items cap st in Ok (VList r, st1)) (let '(r, st1) := alloc_list (map rn items) cap st' in Ok (VList r, st1)).
Proof.
  intros items cap st st' HS. destruct (alloc_list_sim W defs items cap st st' HS) as [H1 H2].
  destruct (alloc_list items cap st) as [r s1]. destruct (alloc_list (map rn items) cap st') as [r' s1'].
  cbn [fst snd] in *. subst r'. split; [reflexivity|exact H2].
Qed.

Lemma alloc_dict_rsim : forall kvs st st', sim st st' ->
  rsim vR (let '(n, st1) := alloc_dict kvs st in Ok (VDict n, st1)) (let '(n, st1) := alloc_dict (rn_env kvs) st' in Ok (VDict n, st1)).
Proof.
  intros kvs st st' HS. destruct (alloc_dict_sim W defs kvs st st' HS) as [H1 H2].
  destruct (alloc_dict kvs st) as [r s1]. destruct (alloc_dict (rn_env kvs) st') as [r' s1'].
  cbn [fst snd] in *. subst r'. split; [reflexivity|exact H2].
Qed.

Lemma repeat_items_rn : forall n l, repeat_items n (map rn l) = map rn (repeat_items n l).
Proof. intros n l. unfold repeat_items. induction n; cbn; [reflexivity|]. rewrite map_app. f_equal. exact IHn. Qed.

Lemma bool_of_sim : forall (r : res bool) neg st st', sim st st' ->
  rsim vR (rbind r (fun x => Ok (VBool (xorb neg x), st))) (rbind r (fun x => Ok (VBool (xorb neg x), st'))).
Proof. intros r neg st st' HS. destruct r; cbn; [split; [reflexivity|assumption]|reflexivity|exact I]. Qed.

Lemma apply_bin_sim : forall fuel o a b st st', sim st st' ->
  rsim vR (apply_bin Asp fuel o a b st) (apply_bin Asp fuel o (rn a) (rn b) st').
Proof.
  intros fuel o a b st st' HS.
  assert (Hrep : forall n sl,
    rsim vR (let '(r, st1) := alloc_list (repeat_items n (list_items Asp st sl)) (length (repeat_items n (list_items Asp st sl))) st in Ok (VList r, st1))
            (let '(r, st1) := alloc_list (repeat_items n (list_items Asp st' (rn_slice sl))) (length (repeat_items n (list_items Asp st' (rn_slice sl)))) st' in Ok (VList r, st1))).
  { intros n sl. rewrite (list_items_sim _ _ _ _ HS), repeat_items_rn, map_length. apply alloc_list_rsim. exact HS. }
  assert (Hla : forall sl s2,
    rsim vR (let '(r, st1) := list_add Asp sl (list_items Asp st s2) st in Ok (VList r, st1))
            (let '(r, st1) := list_add Asp (rn_slice sl) (list_items Asp st' (rn_slice s2)) st' in Ok (VList r, st1))).
  { intros sl s2. unfold list_add. rewrite !(list_items_sim _ _ _ _ HS), <- map_app, map_length. cbn [C17_Sim1.rn_slice s_len].
    apply alloc_list_rsim. exact HS. }
  assert (Hun : forall i j,
    rsim vR (let '(n, st1) := alloc_dict (fold_left (fun acc kv => env_set (fst kv) (snd kv) acc) (dict_of st j) (dict_of st i)) st in Ok (VDict n, st1))
            (let '(n, st1) := alloc_dict (fold_left (fun acc kv => env_set (fst kv) (snd kv) acc) (dict_of st' (shd j)) (dict_of st' (shd i))) st' in Ok (VDict n, st1))).
  { intros i j. rewrite !(dict_of_sim _ _ _ _ HS), rn_fold_env_set. apply alloc_dict_rsim. exact HS. }
  assert (Hfmt : forall x l, rsim vR (rbind (fmt_go Asp fuel st x l) (fun r => Ok (VStr r, st))) (rbind (fmt_go Asp fuel st' x (map rn l)) (fun r => Ok (VStr r, st')))).
  { intros x l. rewrite (fmt_go_sim _ _ HS fuel (length x) x l (Nat.le_refl _)). destruct (fmt_go Asp fuel st x l); cbn; [split; [reflexivity|assumption]|reflexivity|exact I]. }
  unfold apply_bin. cbv zeta. rewrite ?(veq_sim _ _ HS), ?(vin_sim _ _ HS), ?(vcmp_sim _ _ HS).
  destruct o; cbv beta iota;
    try (apply bool_of_sim; exact HS);
    try (rs_leaf);
    try (solve [destruct a, b; cbn [C17_Sim1.rn]; apply bool_of_sim; exact HS]).
  all: destruct a; cbn [C17_Sim1.rn is_py]; try rs_leaf.
  all: try (destruct b; cbn [C17_Sim1.rn is_py]; try rs_leaf).
  all: repeat first
         [ rs_leaf
         | apply bool_of_sim; exact HS
         | apply Hrep
         | apply Hla
         | apply Hun
         | exact (Hfmt _ [VInt _])
         | exact (Hfmt _ [VStr _])
         | rewrite (list_items_sim _ _ _ _ HS); apply Hfmt
         | progress cbn [rbind]
         | rs_step ].
Qed.

End Ops.
