(* C06 - the hand model of Model/C06.v IS the interpretation (Model/C06_Skel.v) of the control
   skeleton that gotrans regenerates from src/core/cycle_detector.go (Gen/CycleVisit.v).
   Any change of the source that alters the regenerated skeleton breaks one of the *_shape lemmas. *)
From PlzV Require Import Base.Harness Model.C06 Gen.CycleVisit Model.C06_Skel Proof.C06.
From Coq Require Import Permutation.

(* What the proofs below are about: the skeleton as regenerated from the unchanged source. *)
Lemma check_prologue_shape : check_prologue = [CStopped].
Proof. reflexivity. Qed.

Lemma visit_body_shape :
  visit_body =
  [SIf CStopped KNil false;
   SIf (CIn SComplete) KNil false;
   SIf (CIn SPartial) KSelf false;
   SAdd SPartial;
   SRange [IIf (COr CDone CTargetIsLast) KCycle true; IRet KPrepend false];
   SDel SPartial;
   SAdd SComplete;
   SRet KNil false].
Proof. reflexivity. Qed.

Lemma check_body_shape : check_body = [LIfRetNil CStopped; LIfVisit (CNot (CIn SComplete))].
Proof. reflexivity. Qed.

(* the dependency loop of visit *)
Lemma range_eq vis vis' t :
  (forall st d, vis st d = vis' st d) ->
  forall ds st,
    visit_deps vis' t ds st =
    match exec_range vis t [IIf (COr CDone CTargetIsLast) KCycle true; IRet KPrepend false] ds st with
    | FNext st' => NoCyc (St (del t (partial st')) (t :: complete st'))
    | FRet r => r
    | FBad => OutOfFuel
    end.
Proof.
  intros Hv. induction ds as [|a ds IH]; intros st; cbn [visit_deps exec_range]; [reflexivity |].
  rewrite <- Hv. destruct (vis st a) as [|st'|c d]; [reflexivity | apply IH |].
  cbn [exec_inner eval_cond option_map snd fst].
  destruct (d || Nat.eqb t (last c 0)); reflexivity.
Qed.

Lemma run_visit_eq body :
  body = [SIf CStopped KNil false;
          SIf (CIn SComplete) KNil false;
          SIf (CIn SPartial) KSelf false;
          SAdd SPartial;
          SRange [IIf (COr CDone CTargetIsLast) KCycle true; IRet KPrepend false];
          SDel SPartial;
          SAdd SComplete;
          SRet KNil false] ->
  forall fuel g st t, run_visit body fuel g st t = visit fuel g st t.
Proof.
  intros Hb. induction fuel as [|f IH]; intros g st t; [reflexivity |].
  cbn [run_visit visit]. pose proof (IH g) as Hv.
  generalize dependent (run_visit body f g). intros vis Hv. subst body.
  cbn [exec_body eval_cond option_map in_set do_ret].
  destruct (mem t (complete st)); [reflexivity |].
  destruct (mem t (partial st)); [reflexivity |].
  cbn [add_set]. rewrite (range_eq vis (visit f g) t Hv).
  destruct (exec_range vis t _ (deps g t) (St (t :: partial st) (complete st))); reflexivity.
Qed.

Lemma run_loop_eq vbody lbody :
  (forall fuel g st t, run_visit vbody fuel g st t = visit fuel g st t) ->
  lbody = [LIfRetNil CStopped; LIfVisit (CNot (CIn SComplete))] ->
  forall fuel g order st, run_loop vbody lbody fuel g order st = check_loop fuel g order st.
Proof.
  intros Hv Hl fuel g. subst lbody. induction order as [|t rest IH]; intros st; [reflexivity |].
  cbn [run_loop check_loop exec_loop_body eval_cond option_map in_set].
  destruct (mem t (complete st)); cbn [negb]; [apply IH |].
  rewrite Hv. destruct (visit fuel g st t); [reflexivity | apply IH | reflexivity].
Qed.

(* the regenerated Check and the hand model are the same function *)
Theorem src_detect_eq g order : src_detect g order = detect g order.
Proof.
  unfold src_detect, run_check, detect. rewrite check_prologue_shape. cbn [exec_prologue eval_cond].
  apply run_loop_eq; [apply run_visit_eq; exact visit_body_shape | exact check_body_shape].
Qed.

(* The statement of Props/C06.v, assembled: Proof/C06.v transported along src_detect_eq. *)
Theorem src_detect_correct :
  (forall g order, src_detect g order = detect g order)
  /\ (forall g order c, src_detect g order = Found c -> is_cycle g c)
  /\ (forall g order, wf g -> Permutation order (nodes g) ->
        src_detect g order <> Fuel
        /\ (has_cycle g -> exists c, src_detect g order = Found c /\ is_cycle g c)
        /\ (~ has_cycle g -> src_detect g order = Clean)).
Proof.
  destruct detect_correct as [Hs Hc]. split; [exact src_detect_eq |]. split.
  - intros g order c. rewrite src_detect_eq. apply Hs.
  - intros g order Hwf Hperm. rewrite src_detect_eq. exact (Hc g order Hwf Hperm).
Qed.
