(* C06 - the hand model of Model/C06.v IS the interpretation (Model/C06_Skel.v) of the control
   skeleton that gotrans regenerates from src/core/cycle_detector.go (Gen/CycleVisit.v).
   Any change of the source that alters the regenerated skeleton breaks one of the *_shape lemmas. *)
From PlzV Require Import Base.Harness Model.C06 Gen.CycleVisit Model.C06_Skel Proof.C06 Proof.C06_Seq.
From Coq Require Import Permutation.

(* What the proofs below are about: the skeleton as regenerated from the unchanged source. *)
Lemma check_prologue_shape : check_prologue = [CStopped].
Proof. reflexivity. Qed.

Lemma visit_body_shape :
  visit_body =
  [SIf CStopped KNil false;
   SIf (CIn SComplete) KNil false;
   SIf (CIn SPartial) KSelf false;
   SAdd SPartial;
   SRange DepsAll [IIf (COr CDone CTargetIsLast) KCycle true; IRet KPrepend false];
   SDel SPartial;
   SAdd SComplete;
   SRet KNil false].
Proof. reflexivity. Qed.

Lemma check_body_shape : check_body = [LIfRetNil CStopped; LIfVisit (CNot (CIn SComplete)) RCycle].
Proof. reflexivity. Qed.

(* BuildTarget.Dependencies() keeps every resolved entry of target.dependencies, whatever its flags;
   BuildTarget.BuildDependencies() leaves out the run-time, data, internal and source-only ones *)
Lemma dependencies_excl_shape : dependencies_excl = [].
Proof. reflexivity. Qed.

Lemma build_dependencies_excl_shape : build_dependencies_excl = [FRuntime; FData; FInternal; FSource].
Proof. reflexivity. Qed.

(* type BuildTargetState as regenerated: the hand-written tstate of Model/C06.v has the same constants in
   the same numeric order *)
Definition of_gstate (s : gstate) : tstate :=
  match s with
  | G_Inactive => Inactive | G_Semiactive => Semiactive | G_Active => Active | G_Pending => Pending
  | G_Building => Building | G_Stopped => Stopped | G_Built => Built | G_Cached => Cached
  | G_Unchanged => Unchanged | G_Reused => Reused | G_BuiltRemotely => BuiltRemotely
  | G_ReusedRemotely => ReusedRemotely | G_DependencyFailed => DependencyFailed | G_Failed => Failed
  end.

Lemma gstate_order_shape :
  map of_gstate gstates = [Inactive; Semiactive; Active; Pending; Building; Stopped; Built; Cached; Unchanged;
                           Reused; BuiltRemotely; ReusedRemotely; DependencyFailed; Failed]
  /\ forall s, rank (of_gstate s) = gstate_rank s.
Proof. split; [reflexivity | intros []; reflexivity]. Qed.

(* the dependency loop of visit *)
Lemma range_eq vis vis' env t :
  (forall st d, vis st d = vis' st d) ->
  forall ds st,
    visit_deps vis' t ds st =
    match exec_range vis env t [IIf (COr CDone CTargetIsLast) KCycle true; IRet KPrepend false] ds st with
    | FNext st' => NoCyc (St (del t (partial st')) (t :: complete st'))
    | FRet r => r
    | FBad => OutOfFuel
    end.
Proof.
  intros Hv. induction ds as [|a ds IH]; intros st; cbn [visit_deps exec_range]; [reflexivity |].
  rewrite <- Hv. destruct (vis st a) as [|st'|c d]; [reflexivity | apply IH |].
  cbn [exec_inner eval_cond option_map snd fst].
  destruct (d || Nat.eqb t (last c 0)); reflexivity.
Qed.

(* env: ANY targets - whatever BuildDependencies() returns for them and whatever state they are in -
   as long as Dependencies() of target t is row t of g *)
Lemma run_visit_eq body env g :
  body = [SIf CStopped KNil false;
          SIf (CIn SComplete) KNil false;
          SIf (CIn SPartial) KSelf false;
          SAdd SPartial;
          SRange DepsAll [IIf (COr CDone CTargetIsLast) KCycle true; IRet KPrepend false];
          SDel SPartial;
          SAdd SComplete;
          SRet KNil false] ->
  (forall t, te_deps env DepsAll t = deps g t) ->
  forall fuel st t, run_visit body fuel env st t = visit fuel g st t.
Proof.
  intros Hb Hd. induction fuel as [|f IH]; intros st t; [reflexivity |].
  cbn [run_visit visit]. pose proof IH as Hv.
  generalize dependent (run_visit body f env). intros vis _ Hv. subst body.
  cbn [exec_body eval_cond option_map in_set do_ret].
  destruct (mem t (complete st)); [reflexivity |].
  destruct (mem t (partial st)); [reflexivity |].
  cbn [add_set]. rewrite (range_eq vis (visit f g) env t Hv). rewrite Hd.
  destruct (exec_range vis env t _ (deps g t) (St (t :: partial st) (complete st))); reflexivity.
Qed.

Lemma run_loop_eq vbody lbody env g :
  (forall fuel st t, run_visit vbody fuel env st t = visit fuel g st t) ->
  lbody = [LIfRetNil CStopped; LIfVisit (CNot (CIn SComplete)) RCycle] ->
  forall fuel order st, run_loop vbody lbody fuel env order st = check_loop fuel g order st.
Proof.
  intros Hv Hl fuel. subst lbody. induction order as [|t rest IH]; intros st; [reflexivity |].
  cbn [run_loop check_loop exec_loop_body eval_cond option_map in_set].
  destruct (mem t (complete st)); cbn [negb]; [apply IH |].
  rewrite Hv. destruct (visit fuel g st t); [reflexivity | apply IH | reflexivity].
Qed.

(* The regenerated Check walks Dependencies() and nothing else: it asks neither for BuildDependencies()
   nor for the State() of any target, and it reports the slice that visit returned. *)
Theorem src_detect_env_eq g env order :
  (forall t, te_deps env DepsAll t = deps g t) -> src_detect_env (length g) env order = detect g order.
Proof.
  intros Hd. unfold src_detect_env, run_check, detect, fuel_for. rewrite check_prologue_shape. cbn [exec_prologue].
  apply run_loop_eq; [apply run_visit_eq; [exact visit_body_shape | exact Hd] | exact check_body_shape].
Qed.

(* the regenerated Check and the hand model are the same function *)
Theorem src_detect_eq g order : src_detect g order = detect g order.
Proof. unfold src_detect. apply src_detect_env_eq. intros t. reflexivity. Qed.

(* the regenerated accessors are the hand-written ones of Model/C06.v *)
Lemma src_row_all ranks l : src_row ranks DepsAll l = sort_by (rank_fn ranks) (row_all l).
Proof.
  unfold src_row, src_excl, row_all. rewrite dependencies_excl_shape. cbn [existsb]. reflexivity.
Qed.

Lemma src_row_build ranks l : src_row ranks DepsBuild l = sort_by (rank_fn ranks) (row_build l).
Proof.
  unfold src_row, src_excl, row_build. rewrite build_dependencies_excl_shape. f_equal.
  apply flat_map_ext. intros di. cbn [existsb has_flag]. unfold excluded_build.
  rewrite orb_false_r, !orb_assoc. reflexivity.
Qed.

Lemma kinded_env_deps ranks w rk t :
  te_deps (kinded_env ranks w rk) DepsAll t = deps (wait_graph ranks w) t.
Proof.
  cbn [kinded_env te_deps]. rewrite src_row_all. unfold deps, wait_graph.
  exact (eq_sym (map_nth (fun l => sort_by (rank_fn ranks) (row_all l)) w [] t)).
Qed.

(* On targets with dependencies of every kind, in any states, the regenerated Check is the hand model on
   the graph of Dependencies() - the edges queueTargetAsync waits for. *)
Theorem src_detect_kinded_eq ranks w rk order :
  src_detect_env (length w) (kinded_env ranks w rk) order = detect (wait_graph ranks w) order.
Proof.
  rewrite <- (map_length (fun l => sort_by (rank_fn ranks) (row_all l)) w).
  apply src_detect_env_eq. intros t. apply kinded_env_deps.
Qed.

(* The statement of Props/C06.v, assembled: Proof/C06.v transported along src_detect_eq. *)
Theorem src_detect_correct :
  (forall g order, src_detect g order = detect g order)
  /\ (forall g order c, src_detect g order = Found c -> is_cycle g c)
  /\ (forall g order, wf g -> Permutation order (nodes g) ->
        src_detect g order <> Fuel
        /\ (has_cycle g -> exists c, src_detect g order = Found c /\ is_cycle g c)
        /\ (~ has_cycle g -> src_detect g order = Clean)).
Proof.
  destruct detect_correct as [Hs Hc]. split; [exact src_detect_eq |]. split.
  - intros g order c. rewrite src_detect_eq. apply Hs.
  - intros g order Hwf Hperm. rewrite src_detect_eq. exact (Hc g order Hwf Hperm).
Qed.

(* ------------------------------------------------------------------------------------------- *)
(* One detector kept between runs (Proof/C06_Seq.v), for the regenerated Check                   *)

(* type cycleDetector as regenerated: a new field (state kept between runs) fails closed in gotrans
   and would break this lemma *)
Lemma detector_fields_shape : detector_fields = [DGraph; DStopped].
Proof. reflexivity. Qed.

Lemma stop_shape : stop_sets_stopped = true.
Proof. reflexivity. Qed.

(* the stopped flag is all that one detector carries from one Check to the next *)
Lemma src_persistent_stopped_only : src_persistent = [DStopped].
Proof. unfold src_persistent. rewrite detector_fields_shape. reflexivity. Qed.

Lemma src_session_eq es w : src_session w es = run_session detect w es.
Proof. apply run_session_ext. exact src_detect_eq. Qed.

Lemma src_check_world_eq w order : check_world src_detect w order = check_world detect w order.
Proof. unfold check_world. rewrite src_detect_eq. reflexivity. Qed.

(* The session part of the statement of Props/C06.v, assembled. *)
Theorem src_session_correct :
  src_persistent = [DStopped]
  /\ (forall w pre post,
        src_session w (pre ++ post) = src_session w pre ++ src_session w (erase_checks pre ++ post))
  /\ (forall w pre order post,
        wf (resolved w) -> valid_events w pre ->
        Permutation order (nodes (resolved (final_world w pre))) ->
        let wk := final_world w pre in
        let o := check_world src_detect wk order in
        nth_error (src_session w (pre ++ ECheck order :: post)) (checks pre) = Some (Ran wk order o)
        /\ final_world w (erase_checks pre) = wk
        /\ wf (resolved wk)
        /\ (stopped wk = false -> correct_for (resolved wk) o)
        /\ (stopped wk = true -> o = Clean)).
Proof.
  split; [exact src_persistent_stopped_only |]. split.
  - intros w pre post. unfold src_session. apply session_stateless.
  - intros w pre order post Hwf Hv Hperm. cbn zeta.
    destruct (session_check_correct w pre order post Hwf Hv Hperm) as (Hn & He & Hc & Hs).
    rewrite src_session_eq, src_check_world_eq.
    split; [exact Hn |]. split; [exact He |]. split; [apply final_world_wf; assumption |].
    split; [exact Hc | exact Hs].
Qed.
