(* C28 - the Command and the Action: which enumeration / call orders the action digest is independent of
   (every one the code sorts away: AddOutput call order, the named-output map, target.Env, the build
   environment map, the dirBuilder insertions) and which it is not (output directories, platform labels). *)
From PlzV Require Import Base.Harness Base.StrFacts Model.C28 Proof.C28 Proof.C28_Ops.
From Coq Require Import Lia Permutation Sorted.

Definition idk : str -> str := fun x => x.

(* ================================================================================================ *)
(* sorted arrangements are unique                                                                     *)

Lemma sle_antisym a b : sle a b -> sle b a -> a = b.
Proof.
  intros H1 H2. destruct (sle_slt_or_eq _ _ H1) as [L1|E]; [|exact E].
  destruct (sle_slt_or_eq _ _ H2) as [L2|E]; [|symmetry; exact E].
  destruct (slt_asym _ _ L1 L2).
Qed.

(* strings ARE their keys: sort.Strings has one possible result *)
Lemma le_sorted_id_unique l : forall l', Permutation l l' -> le_sorted idk l -> le_sorted idk l' -> l = l'.
Proof.
  induction l as [|x r IH]; intros l' Hp H1 H2.
  - apply Permutation_nil in Hp. symmetry. exact Hp.
  - destruct l' as [|y r']; [apply Permutation_sym, Permutation_nil in Hp; discriminate|].
    inversion H1 as [|? ? H1' Hx]; inversion H2 as [|? ? H2' Hy]; subst. rewrite Forall_forall in Hx, Hy.
    assert (Exy : x = y).
    { assert (Ix : In x (y :: r')) by (eapply Permutation_in; [exact Hp|left; reflexivity]).
      assert (Iy : In y (x :: r)) by (eapply Permutation_in; [apply Permutation_sym; exact Hp|left; reflexivity]).
      destruct Ix as [E|Ix]; [symmetry; exact E|]. destruct Iy as [E|Iy]; [exact E|].
      apply sle_antisym; [exact (Hx _ Iy)|exact (Hy _ Ix)]. }
    subst y. f_equal. apply IH; [exact (Permutation_cons_inv Hp)|assumption|assumption].
Qed.

Section Sorted.
  Variable srt : sorter.
  Hypothesis srt_ok : sorter_ok srt.

  Lemma srt_id_perm l l' : Permutation l l' -> srt _ idk l = srt _ idk l'.
  Proof.
    intros Hp. destruct (srt_ok _ idk l) as [P1 S1]. destruct (srt_ok _ idk l') as [P2 S2].
    apply le_sorted_id_unique; try assumption. rewrite <- P1, <- P2. exact Hp.
  Qed.

  (* records with distinct keys: the sorted list depends on the SET of records only *)
  Lemma srt_same_unique {A} (key : A -> str) l l' :
    NoDup (map key l) -> NoDup (map key l') -> same l l' -> srt _ key l = srt _ key l'.
  Proof.
    intros N1 N2 Hs. destruct (srt_ok _ key l) as [P1 S1]. destruct (srt_ok _ key l') as [P2 S2].
    apply (lt_sorted_ext key).
    - apply le_nodup_lt; [exact S1|]. eapply Permutation_NoDup; [apply Permutation_map; exact P1|exact N1].
    - apply le_nodup_lt; [exact S2|]. eapply Permutation_NoDup; [apply Permutation_map; exact P2|exact N2].
    - intros y. rewrite <- (perm_same _ _ P1 y), <- (perm_same _ _ P2 y). apply Hs.
  Qed.

  Lemma srt_nodup_sorted {A} (key : A -> str) l : NoDup (map key l) -> lt_sorted key (srt _ key l).
  Proof.
    intros N1. destruct (srt_ok _ key l) as [P1 S1].
    apply le_nodup_lt; [exact S1|]. eapply Permutation_NoDup; [apply Permutation_map; exact P1|exact N1].
  Qed.
End Sorted.

(* ================================================================================================ *)
(* BuildTarget.insert keeps target.outputs strictly sorted: the slice is the SET of the names added  *)

Lemma out_insert_in l x : forall y, In y (out_insert l x) <-> y = x \/ In y l.
Proof.
  induction l as [|z r IH]; intros y; cbn [out_insert In].
  - split; [intros [E|[]]; left; symmetry; exact E|intros [E|[]]; left; symmetry; exact E].
  - destruct (str_eqb_spec x z) as [E|E].
    + subst z. cbn [In]. split; [tauto|]. intros [->|Hin]; [left; reflexivity|exact Hin].
    + destruct (str_ltb x z); cbn [In]; [split; [intros [E1|E1]; [left; symmetry; exact E1|right; exact E1]|intros [E1|E1]; [left; symmetry; exact E1|right; exact E1]]|].
      rewrite IH. tauto.
Qed.

Lemma out_insert_sorted l x : lt_sorted idk l -> lt_sorted idk (out_insert l x).
Proof.
  induction 1 as [|z r Hs IH Hz]; cbn [out_insert].
  - constructor; constructor.
  - destruct (str_eqb_spec x z) as [E|E]; [constructor; assumption|].
    destruct (str_ltb x z) eqn:L.
    + constructor; [constructor; assumption|]. constructor; [exact L|].
      rewrite Forall_forall in *. intros y Hy. exact (slt_trans _ _ _ L (Hz y Hy)).
    + assert (Lzx : slt z x).
      { destruct (sle_slt_or_eq z x L) as [L'|E']; [exact L'|congruence]. }
      constructor; [exact IH|]. rewrite Forall_forall in *. intros y Hy.
      apply out_insert_in in Hy. destruct Hy as [->|Hy]; [exact Lzx|exact (Hz y Hy)].
Qed.

Lemma declared_outputs_gen calls : forall acc, lt_sorted idk acc ->
  lt_sorted idk (fold_left add_output calls acc)
  /\ forall y, In y (fold_left add_output calls acc) <-> In y acc \/ In y (map trim_dot_slash calls).
Proof.
  induction calls as [|x r IH]; intros acc Hs; cbn [fold_left map In].
  - split; [exact Hs|tauto].
  - destruct (IH (add_output acc x) (out_insert_sorted _ _ Hs)) as [S M]. split; [exact S|].
    intros y. rewrite M. unfold add_output. rewrite out_insert_in. intuition.
Qed.

(* target.outputs is strictly sorted (sorted, no duplicates) after any sequence of AddOutput calls ... *)
Theorem declared_outputs_sorted calls : lt_sorted idk (declared_outputs calls).
Proof. apply declared_outputs_gen. constructor. Qed.

(* ... and does not depend on the order of the calls *)
Theorem declared_outputs_perm calls calls' : Permutation calls calls' -> declared_outputs calls = declared_outputs calls'.
Proof.
  intros Hp. apply (lt_sorted_ext idk); try apply declared_outputs_sorted.
  intros y. unfold declared_outputs.
  rewrite (proj2 (declared_outputs_gen calls [] (SSorted_nil _)) y), (proj2 (declared_outputs_gen calls' [] (SSorted_nil _)) y).
  cbn [In]. split; (intros [[]|Hin]; right; eapply Permutation_in; [apply Permutation_map|exact Hin]);
    [exact Hp|apply Permutation_sym; exact Hp].
Qed.

Lemma concat_perm {A} (l l' : list (list A)) : Permutation l l' -> Permutation (concat l) (concat l').
Proof.
  induction 1 as [|x l l' _ IH|x y l|l l' l'' _ IH1 _ IH2]; cbn [concat].
  - constructor.
  - apply Permutation_app_head. exact IH.
  - rewrite !app_assoc. apply Permutation_app_tail. apply Permutation_app_comm.
  - exact (Permutation_trans IH1 IH2).
Qed.

(* ================================================================================================ *)
(* buildEnv's two assignments into the map                                                           *)

Lemma set_env_in k v e : NoDup (map fst e) ->
  forall a b, In (a, b) (set_env k v e) <-> ((a, b) = (k, v) \/ (In (a, b) e /\ a <> k)).
Proof.
  induction e as [|[k' v'] r IH]; intros Hnd a b; cbn [set_env In].
  - split; [intros [E|[]]; left; symmetry; exact E|intros [E|[[] _]]; left; symmetry; exact E].
  - cbn [map fst] in Hnd. inversion Hnd as [|? ? Hnotin Hnd']; subst.
    destruct (str_eqb_spec k k') as [E|E]; cbn [In].
    + subst k'. split.
      * intros [E1|Hin]; [left; symmetry; exact E1|right]. split; [right; exact Hin|].
        intros ->. apply Hnotin. change k with (fst (k, b)). apply in_map. exact Hin.
      * intros [E1|[[E1|Hin] Hne]]; [left; symmetry; exact E1| |right; exact Hin].
        inversion E1; subst. contradiction.
    + rewrite (IH Hnd'). split.
      * intros [E1|[E1|[Hin Hne]]]; [|left; exact E1|right; split; [right; exact Hin|exact Hne]].
        right. split; [left; exact E1|]. inversion E1; subst. intros ->. contradiction.
      * intros [E1|[[E1|Hin] Hne]]; [right; left; exact E1|left; exact E1|right; right; split; assumption].
Qed.

Lemma set_env_keys k v e a : In a (map fst (set_env k v e)) -> a = k \/ In a (map fst e).
Proof.
  induction e as [|[k' v'] r IH]; cbn [set_env map fst In].
  - intros [E|[]]. left. symmetry. exact E.
  - destruct (str_eqb_spec k k') as [E|E]; cbn [map fst In].
    + intros [E1|Hin]; [left; symmetry; exact E1|right; right; exact Hin].
    + intros [E1|Hin]; [right; left; exact E1|]. destruct (IH Hin) as [E2|Hin2]; [left; exact E2|right; right; exact Hin2].
Qed.

Lemma set_env_nodup k v e : NoDup (map fst e) -> NoDup (map fst (set_env k v e)).
Proof.
  induction e as [|[k' v'] r IH]; intros Hnd; cbn [set_env map fst].
  - constructor; [intros []|constructor].
  - cbn [map fst] in Hnd. inversion Hnd as [|? ? Hnotin Hnd']; subst.
    destruct (str_eqb_spec k k') as [E|E]; cbn [map fst].
    + subst k'. constructor; assumption.
    + constructor; [|exact (IH Hnd')]. intros Hin. apply set_env_keys in Hin. destruct Hin as [E1|Hin]; [congruence|contradiction].
Qed.

Lemma set_env_same k v e e' : NoDup (map fst e) -> NoDup (map fst e') -> same e e' -> same (set_env k v e) (set_env k v e').
Proof.
  intros N1 N2 Hs [a b]. rewrite (set_env_in k v e N1), (set_env_in k v e' N2), (Hs (a, b)). tauto.
Qed.

Definition env_pre (have_target is_binary sandbox : bool) (e : env) : env :=
  let e1 := if sandbox then set_env (s "SANDBOX") (s "true") e else e in
  if have_target && is_binary then set_env (s "_BINARY") (s "true") e1 else e1.

Lemma env_pre_ok ht ib sb e e' : NoDup (map fst e) -> NoDup (map fst e') -> same e e' ->
  NoDup (map fst (env_pre ht ib sb e)) /\ NoDup (map fst (env_pre ht ib sb e')) /\ same (env_pre ht ib sb e) (env_pre ht ib sb e').
Proof.
  intros N1 N2 Hs. unfold env_pre.
  assert (A : forall k v a a', NoDup (map fst a) -> NoDup (map fst a') -> same a a' ->
              NoDup (map fst (set_env k v a)) /\ NoDup (map fst (set_env k v a')) /\ same (set_env k v a) (set_env k v a')).
  { intros k v a a' Na Na' Sa. split; [apply set_env_nodup; exact Na|split; [apply set_env_nodup; exact Na'|apply set_env_same; assumption]]. }
  destruct sb.
  - destruct (A (s "SANDBOX") (s "true") e e' N1 N2 Hs) as (M1 & M2 & Ms).
    destruct (ht && ib); [apply A; assumption|auto].
  - destruct (ht && ib); [apply A; assumption|auto].
Qed.

Lemma entry_keys loc home l : map fst (map (env_entry loc home) l) = map fst l.
Proof. rewrite map_map. apply map_ext. intros kv. unfold env_entry. destruct (str_eqb (fst kv) (s "PATH")); reflexivity. Qed.

Section ActionFacts.
  Variable H : dirmsg -> str.
  Variable HC : cmdmsg -> str.
  Variable HA : actmsg -> str.
  Variable srt : sorter.
  Hypothesis srt_ok : sorter_ok srt.
  Variable quote : str -> str.
  Variable c : conf.

  (* Client.buildEnv on two enumerations of one map *)
  Theorem build_env_same loc home ht ib sb e e' : NoDup (map fst e) -> NoDup (map fst e') -> same e e' ->
    build_env srt loc home ht ib sb e = build_env srt loc home ht ib sb e'
    /\ lt_sorted fst (build_env srt loc home ht ib sb e).
  Proof.
    intros N1 N2 Hs. destruct (env_pre_ok ht ib sb e e' N1 N2 Hs) as (M1 & M2 & Ms).
    change (build_env srt loc home ht ib sb e) with (env_vars srt loc home (env_pre ht ib sb e)).
    change (build_env srt loc home ht ib sb e') with (env_vars srt loc home (env_pre ht ib sb e')).
    unfold env_vars. split.
    - apply (srt_same_unique srt srt_ok); rewrite ?entry_keys; try assumption.
      intros y. rewrite !in_map_iff. split; intros (x & Ex & Hx); exists x; (split; [exact Ex|apply Ms; exact Hx]).
    - apply (srt_nodup_sorted srt srt_ok). rewrite entry_keys. exact M1.
  Qed.

  (* what may differ between two runs of buildAction on "the same" target: every call / enumeration
     order the code is supposed to be insensitive to *)
  Definition decl_equiv (d d' : decl) : Prop :=
    Permutation (d_ops d) (d_ops d') /\ Permutation (d_outs d) (d_outs d') /\ Permutation (d_named d) (d_named d')
    /\ Permutation (d_tenv d) (d_tenv d') /\ (forall m, Permutation (d_env d m) (d_env d' m))
    /\ d_outdirs d = d_outdirs d' /\ d_labels d = d_labels d'
    /\ d_pkg d = d_pkg d' /\ d_cmd d = d_cmd d' /\ d_binary d = d_binary d' /\ d_sandbox d = d_sandbox d' /\ d_timeout d = d_timeout d'.

  (* Go maps have distinct keys; the inputs are a set a file system can hold *)
  Definition decl_ok (d : decl) : Prop :=
    realizable (d_ops d) /\ NoDup (map fst (d_tenv d)) /\ forall m, NoDup (map fst (d_env d m)).

  Lemma outputs_equiv d d' : Permutation (d_outs d) (d_outs d') -> Permutation (d_named d) (d_named d') ->
    outputs_of srt (declared_outputs (d_outs d)) (d_named d) = outputs_of srt (declared_outputs (d_outs d')) (d_named d').
  Proof.
    intros Po Pn. unfold outputs_of. rewrite (declared_outputs_perm _ _ Po).
    apply (srt_id_perm srt srt_ok). apply Permutation_app_head. apply concat_perm. apply Permutation_map. exact Pn.
  Qed.

  Theorem command_equiv d d' root : decl_equiv d d' -> decl_ok d -> command_of srt quote c d root = command_of srt quote c d' root.
  Proof.
    intros (Pops & Po & Pn & Pt & Pe & Eod & El & Epkg & Ecmd & Ebin & Esb & Eto) (_ & Nt & Ne).
    unfold command_of. cbn zeta. rewrite (outputs_equiv d d' Po Pn), <- Eod, <- El, <- Epkg, <- Ecmd, <- Ebin, <- Esb.
    assert (Et : srt _ fst (d_tenv d) = srt _ fst (d_tenv d')).
    { apply (srt_same_unique srt srt_ok); [exact Nt| |apply perm_same; exact Pt].
      eapply Permutation_NoDup; [apply Permutation_map; exact Pt|exact Nt]. }
    assert (Ee : build_env srt (f_loc c) (f_home c) true (d_binary d) (d_sandbox d) (d_env d root)
               = build_env srt (f_loc c) (f_home c) true (d_binary d) (d_sandbox d) (d_env d' root)).
    { apply build_env_same; [apply Ne| |apply perm_same; apply Pe].
      eapply Permutation_NoDup; [apply Permutation_map; apply Pe|apply Ne]. }
    unfold cmd_prefix. rewrite Et, Ee. reflexivity.
  Qed.

  (* THE ACTION THEOREM: the Action message (hence the action digest) is the same for every order of the
     dirBuilder insertions, of the AddOutput calls, and every enumeration order of the named-output map,
     of target.Env and of the build environment map; and buildAction does not fail. *)
  Theorem action_order_free d d' : decl_equiv d d' -> decl_ok d -> no_overlap (d_ops d) ->
    action_of H HC srt quote c d = action_of H HC srt quote c d' /\ action_of H HC srt quote c d <> None.
  Proof.
    intros Heq Hok Hno. pose proof Heq as (Pops & _ & _ & _ & _ & _ & El & _ & _ & _ & _ & Eto).
    pose proof (build_perm H srt srt_ok _ _ Pops (proj1 Hok) Hno) as E. pose proof (build_total H srt _ Hno) as T.
    unfold action_of.
    destruct (build H srt (d_ops d)) as [[em m]|], (build H srt (d_ops d')) as [[em' m']|]; cbn in E; try discriminate; try contradiction.
    inversion E; subst m'. rewrite (command_equiv d d' m Heq Hok), El, Eto. split; [reflexivity|discriminate].
  Qed.

  Corollary action_digest_order_free d d' : decl_equiv d d' -> decl_ok d -> no_overlap (d_ops d) ->
    action_digest H HC HA srt quote c d = action_digest H HC HA srt quote c d' /\ action_digest H HC HA srt quote c d <> None.
  Proof.
    intros Heq Hok Hno. destruct (action_order_free d d' Heq Hok Hno) as [E T]. unfold action_digest. rewrite <- E.
    split; [reflexivity|]. destruct (action_of H HC srt quote c d); [discriminate|contradiction].
  Qed.

  (* what IS canonical in every Command: the environment variables (strictly sorted by name) *)
  Theorem command_env_sorted d root : decl_ok d -> lt_sorted fst (c_env (command_of srt quote c d root)).
  Proof.
    intros (_ & _ & Ne). unfold command_of. cbn [c_env].
    apply (build_env_same (f_loc c) (f_home c) true (d_binary d) (d_sandbox d) (d_env d root) (d_env d root) (Ne root) (Ne root)).
    intros y; tauto.
  Qed.
End ActionFacts.

(* ================================================================================================ *)
(* what the code does NOT sort: two witnesses                                                        *)

Definition wit_conf : conf := CF (s "bash") true [s "OSFamily=linux"] [] (s "/home/u").
Definition wit_decl (outdirs labels : list str) : decl :=
  DC [AddFile [s "p"] (FN (s "f") (s "1") false)] [s "zz"] [] outdirs labels [] (fun _ => [(s "A", s "1")]) (s "p") (s "true") false false 60.
(* digests that read the fields concerned (any collision-free digest does) *)
Definition wit_HC (m : cmdmsg) : str := flat_map (fun o => o ++ s ",") (c_outs m) ++ flat_map (fun kv => fst kv ++ s ";") (c_plat m).
Definition wit_HA (a : actmsg) : str := a_cmd a ++ s "|" ++ flat_map (fun kv => fst kv ++ s ";") (a_plat a).

Definition wit_outdirs_1 := wit_decl [s "b_dir"; s "a_dir"] [].
Definition wit_outdirs_2 := wit_decl [s "a_dir"; s "b_dir"] [].
Definition wit_labels_1 := wit_decl [] [s "remote-platform-property:size=big"; s "remote-platform-property:arch=y"].
Definition wit_labels_2 := wit_decl [] [s "remote-platform-property:arch=y"; s "remote-platform-property:size=big"].

Lemma wit_outdirs_differ :
  action_digest wit_H wit_HC wit_HA isort idk wit_conf wit_outdirs_1 <> action_digest wit_H wit_HC wit_HA isort idk wit_conf wit_outdirs_2.
Proof. vm_compute. congruence. Qed.

Lemma wit_labels_differ :
  action_digest wit_H wit_HC wit_HA isort idk wit_conf wit_labels_1 <> action_digest wit_H wit_HC wit_HA isort idk wit_conf wit_labels_2.
Proof. vm_compute. congruence. Qed.

(* the OutputPaths of the first witness: sorted outputs, then the output directories as declared - not sorted *)
Lemma wit_outdirs_paths :
  option_map (fun _ => c_outs (command_of isort idk wit_conf wit_outdirs_1 empty_dir)) (Some tt) = Some [s "zz"; s "b_dir"; s "a_dir"].
Proof. vm_compute. reflexivity. Qed.

Lemma wit_labels_platform :
  target_platform (d_labels wit_labels_1) (f_plat wit_conf) = [(s "size", s "big"); (s "arch", s "y"); (s "OSFamily", s "linux")].
Proof. vm_compute. reflexivity. Qed.

Lemma wit_decl_realizable outdirs labels : realizable (d_ops (wit_decl outdirs labels)).
Proof.
  split; [|split].
  - intros o [<-|[]]; cbn; (split; [discriminate|]); intros sg; cbn; intuition (subst; discriminate).
  - intros o1 o2 [<-|[]] [<-|[]]; cbn; intros; reflexivity.
  - intros o1 o2 [<-|[]] [<-|[]]; cbn; intros; no_prefix.
Qed.

Lemma wit_decl_ok outdirs labels : decl_ok (wit_decl outdirs labels).
Proof.
  split; [apply wit_decl_realizable|split; [constructor|]]. intros m. cbn. constructor; [intros []|constructor].
Qed.
