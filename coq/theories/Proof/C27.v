(* C27 - proofs about the coverage aggregation model. *)
From Coq Require Import String.
From PlzV Require Import Base.Harness Base.StrFacts Model.C27 Gen.CoverageOrder.
From Coq Require Import Lia Permutation List.

(* ---- the tie to the enum declared in the source: the numeric order IS the quality order ---- *)
Lemma enum_order_is_quality_order :
  cov_order = ["NotExecutable"; "Unreachable"; "Uncovered"; "Covered"]%string.
Proof. reflexivity. Qed.

(* ---- best is N.max ---- *)
Lemma best_max e c : best e c = N.max e c.
Proof. unfold best. destruct (N.ltb_spec e c); lia. Qed.

(* ---- merge: a commutative idempotent monoid with unit [] ---- *)
Lemma merge_nil_r a : merge a [] = a.
Proof. destruct a; reflexivity. Qed.

Lemma merge_nil_l a : merge [] a = a.
Proof. reflexivity. Qed.

Lemma merge_comm a b : merge a b = merge b a.
Proof.
  revert b; induction a as [|x a IH]; intros [|y b]; cbn [merge]; try reflexivity.
  rewrite IH, !best_max. f_equal. lia.
Qed.

Lemma merge_assoc a b c : merge (merge a b) c = merge a (merge b c).
Proof.
  revert b c; induction a as [|x a IH]; intros [|y b] [|z c]; cbn [merge]; try reflexivity.
  rewrite IH, !best_max. f_equal. lia.
Qed.

Lemma merge_idem a : merge a a = a.
Proof. induction a as [|x a IH]; cbn [merge]; [reflexivity|]. rewrite IH, best_max. f_equal. lia. Qed.

Lemma merge_absorb a b : merge (merge a b) b = merge a b.
Proof. rewrite merge_assoc, merge_idem. reflexivity. Qed.

Lemma merge_length a b : length (merge a b) = Nat.max (length a) (length b).
Proof.
  revert b; induction a as [|x a IH]; intros [|y b]; cbn [merge length]; try lia.
  rewrite IH. lia.
Qed.

(* every line carries the best state either side observed; 0 = NotExecutable is the least state,
   so it is the right reading of "no information" past the end of a shorter vector *)
Lemma merge_nth a b i : nth i (merge a b) 0%N = N.max (nth i a 0%N) (nth i b 0%N).
Proof.
  revert b i; induction a as [|x a IH]; intros [|y b] [|i]; cbn [merge nth]; try lia.
  - apply best_max.
  - apply IH.
Qed.

(* ---- the file map ---- *)
Lemma lookup_set_same f v m : lookup f (set f v m) = v.
Proof.
  induction m as [|[k w] m IH]; cbn [set lookup fst snd].
  - rewrite str_eqb_refl. reflexivity.
  - destruct (str_eqb f k) eqn:E; cbn [lookup]; rewrite E; auto.
Qed.

Lemma lookup_set_other f g v m : f <> g -> lookup f (set g v m) = lookup f m.
Proof.
  intros Hne. induction m as [|[k w] m IH]; cbn [set lookup].
  - apply str_eqb_neq in Hne. rewrite Hne. reflexivity.
  - destruct (str_eqb g k) eqn:E; cbn [lookup].
    + apply str_eqb_eq in E; subst k. apply str_eqb_neq in Hne. rewrite Hne. reflexivity.
    + destruct (str_eqb f k); auto.
Qed.

(* all the vectors a run holds for file f, merged (a Go map has one, the model allows any list) *)
Fixpoint contrib (f : str) (run : files) : list cov :=
  match run with
  | [] => []
  | (k, v) :: r => if str_eqb f k then merge v (contrib f r) else contrib f r
  end.

Lemma lookup_aggregate f run : forall acc,
  lookup f (aggregate acc run) = merge (lookup f acc) (contrib f run).
Proof.
  unfold aggregate. induction run as [|[k v] run IH]; intros acc; cbn [fold_left contrib fst snd].
  - rewrite merge_nil_r. reflexivity.
  - rewrite IH. destruct (str_eqb_spec f k) as [->|Hne].
    + rewrite lookup_set_same, merge_assoc. reflexivity.
    + rewrite lookup_set_other by exact Hne. reflexivity.
Qed.

Lemma contrib_perm f r r' : Permutation r r' -> contrib f r = contrib f r'.
Proof.
  induction 1 as [|[k v] r r' _ IH|[k v] [k' v'] r|r r' r'' _ IH1 _ IH2]; cbn [contrib].
  - reflexivity.
  - rewrite IH. reflexivity.
  - destruct (str_eqb f k), (str_eqb f k'); try reflexivity.
    rewrite <- !merge_assoc, (merge_comm v' v). reflexivity.
  - congruence.
Qed.

(* With distinct keys (a Go map), the contribution is the value stored under the key. *)
Lemma contrib_lookup f r : NoDup (keys r) -> contrib f r = lookup f r.
Proof.
  induction r as [|[k v] r IH]; cbn [contrib lookup keys map fst]; [reflexivity|].
  intros Hnd; inversion Hnd as [|? ? Hnotin Hnd']; subst.
  destruct (str_eqb_spec f k) as [->|Hne]; [|auto].
  assert (Hc : contrib k r = []).
  { clear -Hnotin. induction r as [|[k' v'] r IH]; cbn [contrib]; [reflexivity|].
    destruct (str_eqb_spec k k') as [->|Hne]; [exfalso; apply Hnotin; left; reflexivity|].
    apply IH. intros Hin; apply Hnotin; right; exact Hin. }
  rewrite Hc, merge_nil_r. reflexivity.
Qed.

(* contribution of a list of runs *)
Fixpoint contribs (f : str) (runs : list files) : list cov :=
  match runs with
  | [] => []
  | r :: rs => merge (contrib f r) (contribs f rs)
  end.

Lemma lookup_fold_aggregate f runs : forall acc,
  lookup f (fold_left aggregate runs acc) = merge (lookup f acc) (contribs f runs).
Proof.
  induction runs as [|r runs IH]; intros acc; cbn [fold_left contribs].
  - rewrite merge_nil_r. reflexivity.
  - rewrite IH, lookup_aggregate, merge_assoc. reflexivity.
Qed.

Lemma contribs_perm f rs rs' : Permutation rs rs' -> contribs f rs = contribs f rs'.
Proof.
  induction 1 as [|r rs rs' _ IH|r r' rs|rs rs' rs'' _ IH1 _ IH2]; cbn [contribs].
  - reflexivity.
  - rewrite IH. reflexivity.
  - rewrite <- !merge_assoc, (merge_comm (contrib f r') (contrib f r)). reflexivity.
  - congruence.
Qed.

(* The order in which test runs finish does not matter, nor does the order in which Go
   enumerates each run's file map. *)
Theorem aggregate_order_free runs runs' :
  Forall2 (@Permutation _) runs runs' \/ Permutation runs runs' ->
  forall f, lookup f (aggregate_all runs) = lookup f (aggregate_all runs').
Proof.
  intros H f. unfold aggregate_all. rewrite !lookup_fold_aggregate. f_equal.
  destruct H as [H|H]; [|apply contribs_perm; exact H].
  induction H as [|r r' rs rs' Hr _ IH]; cbn [contribs]; [reflexivity|].
  rewrite IH, (contrib_perm f r r' Hr). reflexivity.
Qed.

Theorem aggregate_order_free_both runs runs1 runs' :
  Permutation runs runs1 -> Forall2 (@Permutation _) runs1 runs' ->
  forall f, lookup f (aggregate_all runs) = lookup f (aggregate_all runs').
Proof.
  intros H1 H2 f. rewrite (aggregate_order_free runs runs1 (or_intror H1)).
  apply aggregate_order_free. left; exact H2.
Qed.

(* merging the same run twice changes nothing *)
Theorem aggregate_idem acc r f :
  lookup f (aggregate (aggregate acc r) r) = lookup f (aggregate acc r).
Proof. rewrite !lookup_aggregate. apply merge_absorb. Qed.

Theorem aggregate_dup runs r f :
  In r runs -> lookup f (aggregate_all (runs ++ [r])) = lookup f (aggregate_all runs).
Proof.
  intros Hin. unfold aggregate_all. rewrite fold_left_app. cbn [fold_left].
  rewrite lookup_aggregate, !lookup_fold_aggregate. cbn [lookup merge].
  induction runs as [|r0 runs IH]; [destruct Hin|]. cbn [contribs].
  destruct Hin as [->|Hin].
  - rewrite (merge_comm (contrib f r) (contribs f runs)). apply merge_absorb.
  - rewrite merge_assoc, IH by exact Hin. reflexivity.
Qed.

(* best state: line i of file f after aggregation is the maximum over all runs *)
Fixpoint max_over (f : str) (i : nat) (runs : list files) : N :=
  match runs with
  | [] => 0%N
  | r :: rs => N.max (nth i (contrib f r) 0%N) (max_over f i rs)
  end.

Theorem aggregate_best runs f i :
  nth i (lookup f (aggregate_all runs)) 0%N = max_over f i runs.
Proof.
  unfold aggregate_all. rewrite lookup_fold_aggregate. cbn [lookup merge].
  induction runs as [|r rs IH]; cbn [contribs max_over].
  - destruct i; reflexivity.
  - rewrite merge_nth, IH. reflexivity.
Qed.

(* ---- the per-test map (TestCoverage.Tests) ---- *)
Lemma aggregate_t_files runs : forall acc,
  snd (fold_left aggregate_t runs acc) = fold_left aggregate (map snd runs) (snd acc).
Proof. induction runs as [|r runs IH]; intros acc; cbn [fold_left map]; [reflexivity|]. rewrite IH. reflexivity. Qed.

Lemma aggregate_t_tests runs : forall acc,
  fst (fold_left aggregate_t runs acc) = fold_left (fun m r => tset (fst r) (snd r) m) runs (fst acc).
Proof. induction runs as [|r runs IH]; intros acc; cbn [fold_left]; [reflexivity|]. rewrite IH. reflexivity. Qed.

(* the overall Files of the labelled aggregation are those of the plain one: labels do not matter *)
Theorem aggregate_all_t_files runs : snd (aggregate_all_t runs) = aggregate_all (map snd runs).
Proof. unfold aggregate_all_t, aggregate_all. rewrite aggregate_t_files. reflexivity. Qed.

Lemma tlookup_tset_same l v m : tlookup l (tset l v m) = Some v.
Proof.
  induction m as [|[k w] m IH]; cbn [tset tlookup].
  - rewrite str_eqb_refl. reflexivity.
  - destruct (str_eqb l k) eqn:E; cbn [tlookup]; rewrite E; auto.
Qed.

Lemma tlookup_tset_other l k v m : l <> k -> tlookup l (tset k v m) = tlookup l m.
Proof.
  intros Hne. induction m as [|[k' w] m IH]; cbn [tset tlookup].
  - apply str_eqb_neq in Hne. rewrite Hne. reflexivity.
  - destruct (str_eqb k k') eqn:E; cbn [tlookup].
    + apply str_eqb_eq in E; subst k'. apply str_eqb_neq in Hne. rewrite Hne. reflexivity.
    + destruct (str_eqb l k'); auto.
Qed.

Fixpoint assoc (l : str) (runs : list trun) : option files :=
  match runs with
  | [] => None
  | (k, v) :: r => if str_eqb l k then Some v else assoc l r
  end.

Lemma assoc_none l runs : ~ In l (map fst runs) -> assoc l runs = None.
Proof.
  induction runs as [|[k v] runs IH]; cbn [assoc map fst]; [reflexivity|]. intros Hn.
  destruct (str_eqb_spec l k) as [->|Hne]; [exfalso; apply Hn; left; reflexivity|].
  apply IH. intros Hin; apply Hn; right; exact Hin.
Qed.

Lemma assoc_in l v runs : NoDup (map fst runs) -> In (l, v) runs -> assoc l runs = Some v.
Proof.
  induction runs as [|[k w] runs IH]; cbn [assoc map fst]; [intros _ []|].
  intros Hnd Hin. inversion Hnd as [|? ? Hnotin Hnd']; subst.
  destruct Hin as [Heq|Hin].
  - inversion Heq; subst. rewrite str_eqb_refl. reflexivity.
  - destruct (str_eqb_spec l k) as [->|Hne]; [|auto].
    exfalso. apply Hnotin. change k with (fst (k, v)). apply in_map. exact Hin.
Qed.

Lemma assoc_some_in l v runs : assoc l runs = Some v -> In (l, v) runs.
Proof.
  induction runs as [|[k w] runs IH]; cbn [assoc]; [discriminate|].
  destruct (str_eqb_spec l k) as [->|Hne]; intros H.
  - inversion H; subst. left; reflexivity.
  - right; auto.
Qed.

Lemma fold_tset_lookup l runs : NoDup (map fst runs) -> forall m,
  tlookup l (fold_left (fun m r => tset (fst r) (snd r) m) runs m)
  = match assoc l runs with Some v => Some v | None => tlookup l m end.
Proof.
  induction runs as [|[k v] runs IH]; cbn [fold_left assoc map fst snd]; intros Hnd m; [reflexivity|].
  inversion Hnd as [|? ? Hnotin Hnd']; subst. rewrite IH by exact Hnd'.
  destruct (str_eqb_spec l k) as [->|Hne].
  - rewrite (assoc_none k runs Hnotin). apply tlookup_tset_same.
  - destruct (assoc l runs); [reflexivity|]. apply tlookup_tset_other. exact Hne.
Qed.

Lemma assoc_perm l runs runs' :
  NoDup (map fst runs) -> Permutation runs runs' -> assoc l runs = assoc l runs'.
Proof.
  intros Hnd Hp.
  assert (Hnd' : NoDup (map fst runs')).
  { eapply Permutation_NoDup; [apply Permutation_map; exact Hp | exact Hnd]. }
  destruct (assoc l runs) as [v|] eqn:E.
  - symmetry. apply assoc_in; [exact Hnd'|]. eapply Permutation_in; [exact Hp|]. apply assoc_some_in. exact E.
  - destruct (assoc l runs') as [v|] eqn:E'; [|reflexivity].
    apply assoc_some_in in E'. apply (Permutation_in _ (Permutation_sym Hp)) in E'.
    rewrite (assoc_in l v runs Hnd E') in E. discriminate.
Qed.

(* With one coverage object per test label (the code's "tests are independent" assumption) the per-test
   map does not depend on completion order either, and holds exactly what each test reported. *)
Theorem tests_order_free runs runs' l :
  NoDup (map fst runs) -> Permutation runs runs' ->
  tlookup l (fst (aggregate_all_t runs)) = tlookup l (fst (aggregate_all_t runs')).
Proof.
  intros Hnd Hp. unfold aggregate_all_t. rewrite !aggregate_t_tests. cbn [fst].
  rewrite !fold_tset_lookup; [|eapply Permutation_NoDup; [apply Permutation_map; exact Hp | exact Hnd]|exact Hnd].
  rewrite (assoc_perm l runs runs' Hnd Hp). reflexivity.
Qed.

Theorem tests_exact runs l v :
  NoDup (map fst runs) -> In (l, v) runs -> tlookup l (fst (aggregate_all_t runs)) = Some v.
Proof.
  intros Hnd Hin. unfold aggregate_all_t. rewrite aggregate_t_tests. cbn [fst].
  rewrite fold_tset_lookup by exact Hnd. rewrite (assoc_in l v runs Hnd Hin). reflexivity.
Qed.

(* Files: labelled runs in any order, repeated labels included (retries of one test) *)
Theorem files_order_free_t runs runs' f :
  Permutation runs runs' -> lookup f (snd (aggregate_all_t runs)) = lookup f (snd (aggregate_all_t runs')).
Proof.
  intros Hp. rewrite !aggregate_all_t_files. apply aggregate_order_free. right. apply Permutation_map. exact Hp.
Qed.
