(* C12 - proofs about the model of the directory cache (Model/C12.v). *)
From PlzV Require Import Base.Harness Base.StrFacts Model.C12.
From Coq Require Import Lia.

(* ------------------------------------------------------------------------------------------ *)
(* paths *)

Lemma path_eqb_spec a b : reflect (a = b) (path_eqb a b).
Proof. apply list_eqb_spec. apply str_eqb_spec. Qed.

Lemma path_eqb_eq a b : path_eqb a b = true <-> a = b.
Proof. destruct (path_eqb_spec a b); split; congruence. Qed.

Lemma path_eqb_refl a : path_eqb a a = true.
Proof. apply path_eqb_eq. reflexivity. Qed.

Lemma path_eqb_neq a b : path_eqb a b = false <-> a <> b.
Proof. destruct (path_eqb_spec a b); split; congruence. Qed.

Lemma is_prefix_refl p : is_prefix p p = true.
Proof. induction p as [|a p IH]; cbn [is_prefix]; [reflexivity|]. rewrite str_eqb_refl. exact IH. Qed.

Lemma is_prefix_app p x : is_prefix p (p ++ x) = true.
Proof. induction p as [|a p IH]; cbn [is_prefix app]; [reflexivity|]. rewrite str_eqb_refl. exact IH. Qed.

Lemma is_prefix_split p q : is_prefix p q = true -> exists x, q = p ++ x.
Proof.
  revert q; induction p as [|a p IH]; intros q H.
  - exists q. reflexivity.
  - destruct q as [|b q]; cbn [is_prefix] in H; [discriminate|].
    apply andb_true_iff in H as [Hab Hpq]. apply str_eqb_eq in Hab. subst b.
    destruct (IH q Hpq) as [x ->]. exists x. reflexivity.
Qed.

Lemma is_prefix_trans a b c : is_prefix a b = true -> is_prefix b c = true -> is_prefix a c = true.
Proof.
  intros Hab Hbc. destruct (is_prefix_split _ _ Hab) as [x ->]. destruct (is_prefix_split _ _ Hbc) as [y ->].
  rewrite <- app_assoc. apply is_prefix_app.
Qed.

Lemma prefix_KT_not_K q : is_prefix [kT] q = true -> is_prefix [kK] q = false.
Proof.
  destruct q as [|b q]; cbn [is_prefix]; [discriminate|]. intros H.
  apply andb_true_iff in H as [Hb _]. apply str_eqb_eq in Hb. subst b. reflexivity.
Qed.

Lemma prefix_two_one a o q : is_prefix [a; o] q = true -> is_prefix [a] q = true.
Proof. apply is_prefix_trans. cbn [is_prefix]. rewrite str_eqb_refl. reflexivity. Qed.

Lemma prefix_two_other a o o' q : o <> o' -> is_prefix [a; o] q = true -> is_prefix [a; o'] q = false.
Proof.
  intros Hne H. destruct q as [|b [|b' q]]; cbn [is_prefix] in *; try discriminate.
  - rewrite andb_false_r in H. discriminate.
  - apply andb_true_iff in H as [Hb H]. apply andb_true_iff in H as [Hb' _].
    apply str_eqb_eq in Hb'. subst b'. rewrite Hb. cbn [andb].
    replace (str_eqb o' o) with false; [reflexivity|]. symmetry. apply str_eqb_neq. congruence.
Qed.

Lemma prefix_one_other o o' q : o <> o' -> is_prefix [o] q = true -> is_prefix [o'] q = false.
Proof.
  intros Hne H. destruct q as [|b q]; cbn [is_prefix] in *; [discriminate|].
  apply andb_true_iff in H as [Hb _]. apply str_eqb_eq in Hb. subst b.
  replace (str_eqb o' o) with false; [reflexivity|]. symmetry. apply str_eqb_neq. congruence.
Qed.

(* ------------------------------------------------------------------------------------------ *)
(* filters *)

Lemma filter_absorb {A} (f g : A -> bool) l :
  (forall x, In x l -> f x = true -> g x = true) -> filter f (filter g l) = filter f l.
Proof.
  induction l as [|x l IH]; intros H; [reflexivity|]. cbn [filter].
  destruct (g x) eqn:Hg; cbn [filter].
  - destruct (f x); rewrite IH; auto; intros; apply H; auto; right; auto.
  - destruct (f x) eqn:Hf.
    + rewrite (H x (or_introl eq_refl) Hf) in Hg. discriminate.
    + apply IH. intros; apply H; auto; right; auto.
Qed.

Lemma filter_comm {A} (f g : A -> bool) l : filter f (filter g l) = filter g (filter f l).
Proof.
  induction l as [|x l IH]; [reflexivity|]. cbn [filter].
  destruct (g x) eqn:Hg, (f x) eqn:Hf; cbn [filter]; rewrite ?Hg, ?Hf, IH; reflexivity.
Qed.

Lemma filter_all {A} (f : A -> bool) l : (forall x, In x l -> f x = true) -> filter f l = l.
Proof.
  induction l as [|x l IH]; intros H; [reflexivity|]. cbn [filter].
  rewrite (H x (or_introl eq_refl)). f_equal. apply IH. intros; apply H; right; auto.
Qed.

Lemma filter_none {A} (f : A -> bool) l : (forall x, In x l -> f x = false) -> filter f l = [].
Proof.
  induction l as [|x l IH]; intros H; [reflexivity|]. cbn [filter].
  rewrite (H x (or_introl eq_refl)). apply IH. intros; apply H; right; auto.
Qed.

Lemma filter_nil_in {A} (f : A -> bool) l x : filter f l = [] -> In x l -> f x = false.
Proof.
  intros H Hin. destruct (f x) eqn:Hf; [|reflexivity].
  assert (In x (filter f l)) by (apply filter_In; auto). rewrite H in H0. destruct H0.
Qed.

Lemma Forall_firstn {A} (P : A -> Prop) n l : Forall P l -> Forall P (firstn n l).
Proof.
  revert l; induction n as [|n IH]; intros l H; [constructor|].
  destruct H; cbn [firstn]; constructor; auto.
Qed.

(* ------------------------------------------------------------------------------------------ *)
(* association lists *)

Lemma mem_lookup {A} p (l : list (path * A)) : mem p l = false <-> lookup p l = None.
Proof.
  induction l as [|[q v] l IH]; cbn [mem existsb lookup fst]; [tauto|].
  destruct (path_eqb q p); cbn [orb]; [split; discriminate|exact IH].
Qed.

Lemma mem_true_lookup {A} p (l : list (path * A)) : mem p l = true <-> lookup p l <> None.
Proof.
  destruct (mem p l) eqn:Hm.
  - split; [intros _ Hn; apply mem_lookup in Hn; congruence|reflexivity].
  - apply mem_lookup in Hm. split; [discriminate|congruence].
Qed.

Lemma mem_app {A} p (a b : list (path * A)) : mem p (a ++ b) = mem p a || mem p b.
Proof. apply existsb_app. Qed.

Lemma mem_in {A} p (l : list (path * A)) : mem p l = true <-> exists v, In (p, v) l.
Proof.
  unfold mem. rewrite existsb_exists. split.
  - intros [[q v] [Hin Hq]]. apply path_eqb_eq in Hq. cbn in Hq. subst q. eauto.
  - intros [v Hin]. exists (p, v). split; [exact Hin|apply path_eqb_refl].
Qed.

Lemma remove_absent {A} p (l : list (path * A)) : mem p l = false -> remove p l = l.
Proof.
  intros H. apply filter_all. intros [q v] Hin. cbn [fst]. apply negb_true_iff. apply path_eqb_neq.
  intros ->. assert (mem p l = true) by (apply mem_in; eauto). congruence.
Qed.

Lemma sub_app {A} p (a b : list (path * A)) : sub p (a ++ b) = sub p a ++ sub p b.
Proof. apply filter_app. Qed.

Lemma drop_sub_none {A} p (l : list (path * A)) : sub p l = [] -> drop_sub p l = l.
Proof.
  intros H. apply filter_all. intros x Hin. apply negb_true_iff.
  exact (filter_nil_in _ _ _ H Hin).
Qed.

Lemma sub_sub {A} p r (l : list (path * A)) : is_prefix p r = true -> sub r (sub p l) = sub r l.
Proof.
  intros H. apply filter_absorb. intros x _ Hx. eapply is_prefix_trans; eauto.
Qed.

Lemma lookup_sub {A} p r (l : list (path * A)) : is_prefix p r = true -> lookup r (sub p l) = lookup r l.
Proof.
  intros H. induction l as [|[q v] l IH]; [reflexivity|]. cbn [sub filter fst lookup].
  destruct (path_eqb q r) eqn:Hq.
  - apply path_eqb_eq in Hq. subst q. rewrite H. cbn [lookup]. rewrite path_eqb_refl. reflexivity.
  - destruct (is_prefix p q); cbn [lookup]; rewrite ?Hq; exact IH.
Qed.

Lemma lookup_nil_sub {A} p r (l : list (path * A)) : is_prefix p r = true -> sub p l = [] -> lookup r l = None.
Proof. intros H Hs. rewrite <- (lookup_sub p r l H), Hs. reflexivity. Qed.

Lemma mem_sub_nil {A} p r (l : list (path * A)) : is_prefix p r = true -> sub p l = [] -> mem r l = false.
Proof. intros H Hs. apply mem_lookup. eapply lookup_nil_sub; eauto. Qed.

(* ------------------------------------------------------------------------------------------ *)
(* steps that stay away from / stay below a path *)

Definition step_off (p : path) (s : step) : bool :=
  match s with
  | SMkdir q | SUnlink q | SAdd q _ => negb (is_prefix p q)
  | SRename _ _ => false
  end.

Definition step_under (p : path) (s : step) : bool :=
  match s with
  | SMkdir q | SUnlink q | SAdd q _ => is_prefix p q
  | SRename _ _ => false
  end.

Lemma sub_remove_off {A} p q (l : list (path * A)) : is_prefix p q = false -> sub p (remove q l) = sub p l.
Proof.
  intros H. unfold sub, remove. rewrite filter_absorb; [reflexivity|].
  intros [r v] _ Hr. cbn [fst] in *. apply negb_true_iff. apply path_eqb_neq. intros ->. congruence.
Qed.

Lemma sub_exec_off p s st : step_off p s = true -> sub p (exec st s) = sub p st.
Proof.
  destruct s as [q|q|q n|a b]; cbn [step_off exec]; intros H; try discriminate; apply negb_true_iff in H.
  - destruct (mem q st); [reflexivity|]. rewrite sub_app. cbn [sub filter fst]. rewrite H. apply app_nil_r.
  - apply sub_remove_off. exact H.
  - rewrite sub_app. cbn [sub filter fst]. rewrite H, app_nil_r. apply sub_remove_off. exact H.
Qed.

Lemma sub_run_off p l st : Forall (fun s => step_off p s = true) l -> sub p (run l st) = sub p st.
Proof.
  revert st; induction l as [|s l IH]; intros st H; [reflexivity|].
  inversion H as [|? ? Hs Hl]; subst. cbn [run fold_left]. change (fold_left exec l (exec st s)) with (run l (exec st s)).
  rewrite IH by assumption. apply sub_exec_off. exact Hs.
Qed.

Lemma run_app a b st : run (a ++ b) st = run b (run a st).
Proof. apply fold_left_app. Qed.

Lemma rm_steps_under order p st : Forall (fun s => step_under p s = true) (rm_steps order p st).
Proof.
  unfold rm_steps, rm_paths. rewrite map_app. apply Forall_app. split; apply Forall_forall; intros s Hin;
    apply in_map_iff in Hin as [q [<- Hq]]; cbn [step_under].
  - apply filter_In in Hq as [_ Hq]. apply andb_true_iff in Hq. tauto.
  - apply in_rev in Hq. apply filter_In in Hq as [Hq _]. apply in_map_iff in Hq as [[q' v] [<- Hq]].
    apply filter_In in Hq. tauto.
Qed.

Lemma add_steps_under pre X : Forall (fun s => step_under pre s = true) (map (add_step pre) X).
Proof.
  apply Forall_forall. intros s Hin. apply in_map_iff in Hin as [[q e] [<- _]].
  unfold add_step; cbn [fst snd]. destruct e; cbn [step_under]; apply is_prefix_app.
Qed.

Lemma add_steps_under2 a o src : Forall (fun s => step_under [a; o] s = true) (link_steps [a] src o).
Proof.
  unfold link_steps. destruct (lookup [o] src) as [e0|]; [|constructor].
  apply Forall_forall. intros s Hin. apply in_map_iff in Hin as [[q e] [<- Hq]].
  apply filter_In in Hq as [_ Hq]. cbn [fst] in Hq.
  assert (is_prefix [a; o] ([a] ++ q) = true) as Hp.
  { cbn [app is_prefix]. rewrite str_eqb_refl. exact Hq. }
  unfold add_step; cbn [fst snd]. destruct e; cbn [step_under]; exact Hp.
Qed.

Lemma under_off p p' s : (forall q, is_prefix p q = true -> is_prefix p' q = false) ->
  step_under p s = true -> step_off p' s = true.
Proof.
  intros H. destruct s; cbn [step_under step_off]; intros Hu; try discriminate; rewrite (H _ Hu); reflexivity.
Qed.

Lemma Forall_under_off p p' l : (forall q, is_prefix p q = true -> is_prefix p' q = false) ->
  Forall (fun s => step_under p s = true) l -> Forall (fun s => step_off p' s = true) l.
Proof. intros H. apply Forall_impl. intros s. apply under_off. exact H. Qed.

Lemma Forall_under_weaken p p' l : is_prefix p' p = true ->
  Forall (fun s => step_under p s = true) l -> Forall (fun s => step_under p' s = true) l.
Proof.
  intros H. apply Forall_impl. intros s. destruct s; cbn [step_under]; try discriminate; intros Hu;
    eapply is_prefix_trans; eauto.
Qed.

Lemma out_steps_under order src st o : Forall (fun s => step_under [kT] s = true) (out_steps order src st o).
Proof.
  unfold out_steps. repeat (apply Forall_app; split).
  - repeat constructor.
  - eapply Forall_under_weaken; [|apply rm_steps_under]. reflexivity.
  - eapply Forall_under_weaken; [|apply add_steps_under2]. reflexivity.
Qed.

Lemma outs_steps_under order src outs : forall st, Forall (fun s => step_under [kT] s = true) (outs_steps order src st outs).
Proof.
  induction outs as [|o r IH]; intros st; cbn [outs_steps]; [constructor|].
  apply Forall_app. split; [apply out_steps_under|apply IH].
Qed.

(* ------------------------------------------------------------------------------------------ *)
(* RemoveAll removes everything below its argument *)

Lemma run_unlinks ps st :
  run (map SUnlink ps) st = filter (fun e => negb (existsb (path_eqb (fst e)) ps)) st.
Proof.
  revert st; induction ps as [|p ps IH]; intros st; cbn [map run fold_left].
  - symmetry. apply filter_all. reflexivity.
  - change (fold_left exec (map SUnlink ps) (exec st (SUnlink p))) with (run (map SUnlink ps) (exec st (SUnlink p))).
    rewrite IH. cbn [exec]. unfold remove.
    induction st as [|e st IHst]; [reflexivity|]. cbn [filter existsb].
    destruct (path_eqb (fst e) p) eqn:Hp; cbn [negb orb filter].
    + exact IHst.
    + destruct (existsb (path_eqb (fst e)) ps); cbn [negb]; rewrite IHst; reflexivity.
Qed.

Lemma rm_paths_cover order p (st : fs) q v : In (q, v) st -> is_prefix p q = true -> In q (rm_paths order p st).
Proof.
  intros Hin Hp. unfold rm_paths. apply in_or_app.
  destruct (existsb (path_eqb q) order) eqn:Ho.
  - left. apply existsb_exists in Ho as [q' [Hq' He]]. apply path_eqb_eq in He. subst q'.
    apply filter_In. split; [exact Hq'|]. rewrite Hp. cbn [andb]. apply mem_in. eauto.
  - right. apply -> in_rev. apply filter_In. split; [|rewrite Ho; reflexivity].
    apply in_map_iff. exists (q, v). split; [reflexivity|]. apply filter_In. auto.
Qed.

Lemma rm_steps_clears order p st : sub p (run (rm_steps order p st) st) = [].
Proof.
  unfold rm_steps. rewrite run_unlinks. unfold sub. rewrite filter_comm. apply filter_none.
  intros [q v] Hin. apply filter_In in Hin as [Hin Hp]. cbn [fst] in *.
  apply negb_false_iff. apply existsb_exists. exists q. split; [|apply path_eqb_refl].
  eapply rm_paths_cover; eauto.
Qed.

Lemma rm_steps_absent order p st : sub p st = [] -> rm_steps order p st = [].
Proof.
  intros H. unfold rm_steps, rm_paths. rewrite H. cbn [map filter rev]. rewrite app_nil_r.
  replace (filter _ order) with (@nil path); [reflexivity|]. symmetry. apply filter_none.
  intros q _. destruct (is_prefix p q) eqn:Hp; [|reflexivity]. cbn [andb].
  eapply mem_sub_nil; eauto.
Qed.

(* ------------------------------------------------------------------------------------------ *)
(* Retrieve only looks below K *)

Lemma retr_plain_ext a b outs : sub [kK] a = sub [kK] b -> forall out, retr_plain a outs out = retr_plain b outs out.
Proof.
  intros H. induction outs as [|o r IH]; intros out; cbn [retr_plain]; [reflexivity|].
  assert (is_prefix [kK] [kK; o] = true) as Hp by (cbn [is_prefix]; rewrite str_eqb_refl; reflexivity).
  rewrite <- (lookup_sub [kK] [kK; o] a Hp), <- (lookup_sub [kK] [kK; o] b Hp), H.
  rewrite <- (sub_sub [kK] [kK; o] a Hp), <- (sub_sub [kK] [kK; o] b Hp), H.
  destruct (lookup [kK; o] (sub [kK] b)); [apply IH|reflexivity].
Qed.

Lemma retrieve2_ext c a1 a2 b1 b2 outs :
  sub [kK] a1 = sub [kK] b1 -> sub [kK] a2 = sub [kK] b2 -> retrieve2 c a1 a2 outs = retrieve2 c b1 b2 outs.
Proof.
  intros H1 H2. unfold retrieve2.
  rewrite <- (lookup_sub [kK] [kK] a1 (is_prefix_refl _)), <- (lookup_sub [kK] [kK] b1 (is_prefix_refl _)), H1.
  rewrite <- (lookup_sub [kK] [kK] a2 (is_prefix_refl _)), <- (lookup_sub [kK] [kK] b2 (is_prefix_refl _)), H2.
  rewrite (retr_plain_ext a2 b2 outs H2). reflexivity.
Qed.

Lemma retrieve2_absent c st1 st2 outs : sub [kK] st1 = [] -> retrieve2 c st1 st2 outs = Miss.
Proof.
  intros H. unfold retrieve2. rewrite (lookup_nil_sub [kK] [kK] st1 (is_prefix_refl _) H). reflexivity.
Qed.

(* never stored = miss *)
Lemma retrieve_miss c st outs : sub [kK] st = [] -> retrieve c st outs = Miss.
Proof. apply retrieve2_absent. Qed.

(* ------------------------------------------------------------------------------------------ *)
(* the shape of Store: everything before the final rename happens outside K once K is gone *)

Definition init_steps (c : bool) order st outs src : list step :=
  removelast (store_steps c order st outs src).

Lemma store_steps_split c order st outs src :
  store_steps c order st outs src = init_steps c order st outs src ++ [SRename [kT] [kK]].
Proof.
  unfold init_steps. destruct c; cbn [store_steps]; unfold store_comp, store_plain.
  - rewrite !app_assoc. rewrite removelast_last. reflexivity.
  - rewrite !app_assoc. rewrite removelast_last. reflexivity.
Qed.

(* the steps of Store after the removal of the old entry *)
Definition build_steps (c : bool) order st outs src : list step :=
  if c then rm_steps order [kT] st ++ [SAdd [kT] Junk]
              ++ (if all_present src outs then [SAdd [kT] (Tar (pack src outs))] else [SUnlink [kT]])
  else outs_steps order src st outs.

Lemma init_steps_eq c order st outs src :
  init_steps c order st outs src =
  rm_steps order [kK] st ++ build_steps c order (run (rm_steps order [kK] st) st) outs src.
Proof.
  unfold init_steps, build_steps. destruct c; cbn [store_steps]; unfold store_comp, store_plain.
  - rewrite !app_assoc. rewrite removelast_last. rewrite <- !app_assoc. reflexivity.
  - rewrite !app_assoc. rewrite removelast_last. reflexivity.
Qed.

Lemma build_steps_under c order st outs src : Forall (fun s => step_under [kT] s = true) (build_steps c order st outs src).
Proof.
  destruct c; cbn [build_steps].
  - repeat (apply Forall_app; split).
    + apply rm_steps_under.
    + repeat constructor.
    + destruct (all_present src outs); repeat constructor.
  - apply outs_steps_under.
Qed.

Lemma build_steps_off c order st outs src : Forall (fun s => step_off [kK] s = true) (build_steps c order st outs src).
Proof. eapply Forall_under_off; [|apply build_steps_under]. apply prefix_KT_not_K. Qed.

(* states during the build phase have the K-subtree the removal left *)
Lemma sub_K_build c order st outs src n :
  sub [kK] (run (firstn n (build_steps c order st outs src)) st) = sub [kK] st.
Proof. apply sub_run_off. apply Forall_firstn. apply build_steps_off. Qed.

Lemma key_absent_sub st : key_absent st = true <-> sub [kK] st = [].
Proof. unfold key_absent. destruct (sub [kK] st); split; congruence. Qed.

(* every crash prefix of a store is: a prefix of the removal, or the removal and a prefix of the
   build, or the complete store *)
Lemma prefix_cases c order st outs src n :
  let steps := store_steps c order st outs src in
  let a := rm_steps order [kK] st in
  let b := build_steps c order (run a st) outs src in
  (exists k, firstn n steps = firstn k a)
  \/ (exists k, firstn n steps = a ++ firstn k b)
  \/ firstn n steps = steps.
Proof.
  cbn zeta. rewrite store_steps_split, init_steps_eq.
  set (a := rm_steps order [kK] st). set (b := build_steps c order (run a st) outs src).
  destruct (Nat.le_gt_cases n (length a)) as [Hle|Hgt].
  - left. exists n. rewrite <- app_assoc. rewrite firstn_app.
    replace (n - length a) with 0 by lia. cbn [firstn]. apply app_nil_r.
  - destruct (Nat.le_gt_cases n (length (a ++ b))) as [Hle2|Hgt2].
    + right; left. exists (n - length a). rewrite firstn_app.
      replace (n - length (a ++ b)) with 0 by lia. cbn [firstn]. rewrite app_nil_r.
      rewrite firstn_app. rewrite (firstn_all2 a) by lia. reflexivity.
    + right; right. apply firstn_all2. rewrite app_length. cbn [length]. lia.
Qed.

(* ------------------------------------------------------------------------------------------ *)
(* well-formed trees *)

Lemma wfb_from_app acc X Y : wfb_from acc (X ++ Y) = wfb_from acc X && wfb_from (acc ++ X) Y.
Proof.
  revert acc; induction X as [|[p e] X IH]; intros acc; cbn [app wfb_from].
  - rewrite app_nil_r. reflexivity.
  - rewrite IH. rewrite <- app_assoc. cbn [app]. rewrite !andb_assoc. reflexivity.
Qed.

Lemma wfb_from_fresh acc X : wfb_from acc X = true ->
  forall e e', In e X -> In e' acc -> is_prefix (fst e) (fst e') = false.
Proof.
  revert acc; induction X as [|[p x] X IH]; intros acc H e e' He He'; [destruct He|].
  cbn [wfb_from] in H. apply andb_true_iff in H as [H H3]. apply andb_true_iff in H as [_ H2].
  destruct He as [<-|He].
  - cbn [fst]. apply negb_true_iff in H2.
    destruct (is_prefix p (fst e')) eqn:Hp; [|reflexivity].
    assert (existsb (fun e'0 => is_prefix p (fst e'0)) acc = true) by (apply existsb_exists; eauto). congruence.
  - apply (IH _ H3 e e' He). apply in_or_app. left. exact He'.
Qed.

Lemma wfb_from_nodup acc X : wfb_from acc X = true -> NoDup (map fst X).
Proof.
  revert acc; induction X as [|[p x] X IH]; intros acc H; cbn [map fst]; constructor.
  - intros Hin. apply in_map_iff in Hin as [[q y] [Hq Hin]]. cbn [fst] in Hq. subst q.
    cbn [wfb_from] in H. apply andb_true_iff in H as [_ H3].
    pose proof (wfb_from_fresh _ _ H3 (p, y) (p, x) Hin) as Hf. cbn [fst] in Hf.
    rewrite is_prefix_refl in Hf. discriminate Hf. apply in_or_app. right. left. reflexivity.
  - cbn [wfb_from] in H. apply andb_true_iff in H as [_ H3]. eapply IH; eauto.
Qed.

Lemma wfb_from_mem acc X e : wfb_from acc X = true -> In e X -> mem (fst e) acc = false.
Proof.
  intros H Hin. destruct (mem (fst e) acc) eqn:Hm; [|reflexivity].
  apply mem_in in Hm as [v Hv]. pose proof (wfb_from_fresh _ _ H e (fst e, v) Hin Hv) as Hf.
  cbn [fst] in Hf. rewrite is_prefix_refl in Hf. discriminate.
Qed.

Lemma wfb_from_sub_nil acc X e : wfb_from acc X = true -> In e X -> sub (fst e) acc = [].
Proof.
  intros H Hin. apply filter_none. intros e' He'. eapply wfb_from_fresh; eauto.
Qed.

(* linking / unpacking a well-formed list of entries into a directory appends them *)
Lemma put_all X : forall acc, wfb_from acc X = true -> fold_left put X acc = acc ++ X.
Proof.
  induction X as [|[p e] X IH]; intros acc H; cbn [fold_left]; [symmetry; apply app_nil_r|].
  pose proof (wfb_from_mem acc _ (p, e) H (or_introl eq_refl)) as Hm. cbn [fst] in Hm.
  cbn [wfb_from] in H. apply andb_true_iff in H as [_ H3].
  assert (put acc (p, e) = acc ++ [(p, e)]) as ->.
  { unfold put; cbn [fst snd]. destruct e; rewrite ?Hm, ?(remove_absent _ _ Hm); reflexivity. }
  rewrite IH by exact H3. rewrite <- app_assoc. reflexivity.
Qed.

Lemma mkparents_noop ps : forall (acc : tree), forallb (fun q => mem q acc) ps = true ->
  fold_left (fun o q => if mem q o then o else o ++ [(q, D)]) ps acc = acc.
Proof.
  induction ps as [|q ps IH]; intros acc H; cbn [fold_left]; [reflexivity|].
  cbn [forallb] in H. apply andb_true_iff in H as [Hq H]. rewrite Hq. apply IH. exact H.
Qed.

Lemma unpack_all X : forall acc, wfb_from acc X = true -> fold_left unpack1 X acc = acc ++ X.
Proof.
  induction X as [|[p e] X IH]; intros acc H; cbn [fold_left]; [symmetry; apply app_nil_r|].
  pose proof (wfb_from_sub_nil acc _ (p, e) H (or_introl eq_refl)) as Hs. cbn [fst] in Hs.
  cbn [wfb_from] in H. apply andb_true_iff in H as [H H3]. apply andb_true_iff in H as [H1 _].
  assert (unpack1 acc (p, e) = acc ++ [(p, e)]) as ->.
  { unfold unpack1; cbn [fst]. rewrite (mkparents_noop _ _ H1). rewrite (drop_sub_none _ _ Hs). reflexivity. }
  rewrite IH by exact H3. rewrite <- app_assoc. reflexivity.
Qed.

(* ------------------------------------------------------------------------------------------ *)
(* storing the files of one output *)

Definition inj (pre : path) (e : path * ent) : path * node := (pre ++ fst e, E (snd e)).

Lemma run_adds pre X : forall st, (forall e, In e X -> mem (pre ++ fst e) st = false) -> NoDup (map fst X) ->
  run (map (add_step pre) X) st = st ++ map (inj pre) X.
Proof.
  induction X as [|x X IH]; intros st Hm Hnd; cbn [map run fold_left]; [symmetry; apply app_nil_r|].
  change (fold_left exec (map (add_step pre) X) (exec st (add_step pre x))) with (run (map (add_step pre) X) (exec st (add_step pre x))).
  assert (exec st (add_step pre x) = st ++ [inj pre x]) as ->.
  { pose proof (Hm x (or_introl eq_refl)) as Hx. destruct x as [p e]. unfold add_step, inj; cbn [fst snd] in *.
    destruct e; cbn [exec]; rewrite ?Hx, ?(remove_absent _ _ Hx); reflexivity. }
  inversion Hnd as [|? ? Hnotin Hnd']; subst. rewrite IH.
  - rewrite <- app_assoc. reflexivity.
  - intros e He. rewrite mem_app. rewrite (Hm e (or_intror He)). cbn [orb mem existsb inj fst].
    rewrite orb_false_r. apply path_eqb_neq. intros Heq. apply app_inv_head in Heq.
    apply Hnotin. pose proof (in_map fst _ _ He) as Hin.
    destruct x as [px ex], e as [pe ee]; cbn [fst] in *. subst px. exact Hin.
  - exact Hnd'.
Qed.

Lemma sub_inj_all a o X : (forall e, In e X -> is_prefix [o] (fst e) = true) ->
  sub [a; o] (map (inj [a]) X) = map (inj [a]) X.
Proof.
  intros H. apply filter_all. intros e He. apply in_map_iff in He as [x [<- Hx]].
  unfold inj; cbn [fst app is_prefix]. rewrite str_eqb_refl. exact (H x Hx).
Qed.

Lemma sub_tree_under o (src : tree) e : In e (sub [o] src) -> is_prefix [o] (fst e) = true.
Proof. intros H. apply filter_In in H. tauto. Qed.

Lemma present_in o (src : tree) : mem [o] src = true -> exists v, In ([o], v) (sub [o] src).
Proof.
  intros H. apply mem_in in H as [v Hv]. exists v. apply filter_In. split; [exact Hv|]. apply is_prefix_refl.
Qed.

Definition step_keeps (p : path) (s : step) : bool :=
  match s with
  | SUnlink q => negb (path_eqb q p)
  | SRename _ _ => false
  | _ => true
  end.

Lemma mem_remove_other {A} p q (l : list (path * A)) : q <> p -> mem p (remove q l) = mem p l.
Proof.
  intros Hne. induction l as [|[r v] l IH]; [reflexivity|]. cbn [remove filter fst].
  destruct (path_eqb r q) eqn:Hr; cbn [negb].
  - apply path_eqb_eq in Hr. subst r. cbn [mem existsb fst].
    replace (path_eqb q p) with false by (symmetry; apply path_eqb_neq; exact Hne). exact IH.
  - cbn [mem existsb fst]. f_equal. exact IH.
Qed.

Lemma mem_exec_keeps p s st : step_keeps p s = true -> mem p st = true -> mem p (exec st s) = true.
Proof.
  destruct s as [q|q|q n|a b]; cbn [step_keeps exec]; intros Hk Hm; try discriminate.
  - destruct (mem q st); [exact Hm|]. rewrite mem_app, Hm. reflexivity.
  - apply negb_true_iff, path_eqb_neq in Hk. rewrite mem_remove_other; assumption.
  - rewrite mem_app. destruct (path_eqb_spec q p) as [->|Hne].
    + cbn [mem existsb fst]. rewrite path_eqb_refl. apply orb_true_r.
    + rewrite mem_remove_other by exact Hne. rewrite Hm. reflexivity.
Qed.

Lemma mem_run_keeps p l : forall st, Forall (fun s => step_keeps p s = true) l -> mem p st = true -> mem p (run l st) = true.
Proof.
  induction l as [|s l IH]; intros st H Hm; [exact Hm|]. inversion H; subst.
  cbn [run fold_left]. apply IH; [assumption|]. apply mem_exec_keeps; assumption.
Qed.

Lemma under2_keeps a o s : step_under [a; o] s = true -> step_keeps [a] s = true.
Proof.
  destruct s as [q|q|q n|x y]; cbn [step_under step_keeps]; intros H; try reflexivity; try discriminate.
  apply negb_true_iff, path_eqb_neq. intros ->. cbn [is_prefix] in H. rewrite andb_false_r in H. discriminate.
Qed.

Lemma out_steps_keeps order src st o : Forall (fun s => step_keeps [kT] s = true) (out_steps order src st o).
Proof.
  unfold out_steps. repeat (apply Forall_app; split).
  - repeat constructor.
  - eapply Forall_impl; [|apply rm_steps_under]. intros s. apply under2_keeps.
  - eapply Forall_impl; [|apply add_steps_under2]. intros s. apply under2_keeps.
Qed.

Lemma outs_steps_keeps order src outs : forall st, Forall (fun s => step_keeps [kT] s = true) (outs_steps order src st outs).
Proof.
  induction outs as [|o r IH]; intros st; cbn [outs_steps]; [constructor|].
  apply Forall_app. split; [apply out_steps_keeps|apply IH].
Qed.

Lemma not_prefix_two a o : is_prefix [a; o] [a] = false.
Proof. cbn [is_prefix]. apply andb_false_r. Qed.

Lemma out_steps_off order src st o o' : o <> o' -> Forall (fun s => step_off [kT; o'] s = true) (out_steps order src st o).
Proof.
  intros Hne. unfold out_steps. repeat (apply Forall_app; split).
  - constructor; [|constructor]. cbn [step_off]. rewrite not_prefix_two. reflexivity.
  - eapply Forall_under_off; [|apply rm_steps_under]. intros q. apply prefix_two_other. exact Hne.
  - eapply Forall_under_off; [|apply add_steps_under2]. intros q. apply prefix_two_other. exact Hne.
Qed.

Lemma outs_steps_off order src outs o' : ~ In o' outs -> forall st, Forall (fun s => step_off [kT; o'] s = true) (outs_steps order src st outs).
Proof.
  induction outs as [|o r IH]; intros Hn st; cbn [outs_steps]; [constructor|].
  apply Forall_app. split.
  - apply out_steps_off. intros ->. apply Hn. left. reflexivity.
  - apply IH. intros Hin. apply Hn. right. exact Hin.
Qed.

(* the state after storeFile(o): the temp entry holds exactly the walk of o *)
Lemma out_steps_spec order src st o done rest :
  mem [o] src = true -> wfb_from done (sub [o] src ++ rest) = true ->
  let st' := run (out_steps order src st o) st in
  sub [kT; o] st' = map (inj [kT]) (sub [o] src) /\ mem [kT] st' = true.
Proof.
  intros Hp Hwf. cbn zeta. unfold out_steps. rewrite !run_app.
  set (s0 := run [SMkdir [kT]] st).
  assert (mem [kT] s0 = true) as Hm0.
  { unfold s0. cbn [run fold_left exec]. destruct (mem [kT] st) eqn:Hm; [exact Hm|].
    rewrite mem_app. cbn [mem existsb fst]. rewrite path_eqb_refl. apply orb_true_r. }
  change (exec st (SMkdir [kT])) with s0.
  set (s1 := run (rm_steps order [kT; o] s0) s0).
  assert (sub [kT; o] s1 = []) as Hs1 by apply rm_steps_clears.
  assert (mem [kT] s1 = true) as Hm1.
  { apply mem_run_keeps; [|exact Hm0]. eapply Forall_impl; [|apply rm_steps_under]. intros s. apply under2_keeps. }
  unfold link_steps. apply mem_true_lookup in Hp. destruct (lookup [o] src) as [v|]; [|congruence].
  rewrite wfb_from_app in Hwf. apply andb_true_iff in Hwf as [Hwf _].
  rewrite run_adds.
  - split.
    + rewrite sub_app, Hs1. cbn [app]. apply sub_inj_all. intros e He. eapply sub_tree_under; eauto.
    + rewrite mem_app, Hm1. reflexivity.
  - intros e He. apply (mem_sub_nil [kT; o]); [|exact Hs1].
    cbn [app is_prefix]. rewrite str_eqb_refl. cbn [andb]. eapply sub_tree_under; eauto.
  - eapply wfb_from_nodup; eauto.
Qed.

Lemma outs_steps_spec order src outs : forall st done,
  all_present src outs = true -> NoDup outs -> wfb_from done (pack src outs) = true ->
  let st' := run (outs_steps order src st outs) st in
  (forall o, In o outs -> sub [kT; o] st' = map (inj [kT]) (sub [o] src))
  /\ (outs <> [] -> mem [kT] st' = true).
Proof.
  induction outs as [|o r IH]; intros st done Hp Hnd Hwf; cbn zeta.
  - split; [intros o []|congruence].
  - cbn [outs_steps]. rewrite run_app. cbn [all_present forallb] in Hp. apply andb_true_iff in Hp as [Hpo Hpr].
    inversion Hnd as [|? ? Hnotin Hnd']; subst. cbn [pack flat_map] in Hwf.
    destruct (out_steps_spec order src st o done _ Hpo Hwf) as [Hsub Hmem].
    set (st1 := run (out_steps order src st o) st) in *.
    rewrite wfb_from_app in Hwf. apply andb_true_iff in Hwf as [_ Hwf'].
    destruct (IH st1 _ Hpr Hnd' Hwf') as [IH1 IH2]. split.
    + intros o' [<-|Hin]; [|apply IH1; exact Hin].
      rewrite sub_run_off; [exact Hsub|]. apply outs_steps_off. exact Hnotin.
    + intros _. apply mem_run_keeps; [apply outs_steps_keeps|exact Hmem].
Qed.

(* ------------------------------------------------------------------------------------------ *)
(* the final rename *)

Notation rp := (reprefix [kT] [kK]).

Lemma sub_reprefix x : forall st : fs, sub [kK] st = [] ->
  sub (kK :: x) (map rp st) = map rp (sub (kT :: x) st).
Proof.
  induction st as [|[q v] st IH]; intros H; [reflexivity|].
  cbn [sub filter fst] in H. destruct (is_prefix [kK] q) eqn:HK; [discriminate|].
  specialize (IH H). cbn [map]. cbn [sub filter]. fold (sub (kK :: x) (map rp st)). fold (sub (kT :: x) st).
  unfold reprefix at 1; cbn [fst snd]. destruct (is_prefix [kT] q) eqn:HT.
  - destruct q as [|b q]; [discriminate|]. cbn [is_prefix] in HT. apply andb_true_iff in HT as [Hb _].
    apply str_eqb_eq in Hb. subst b. cbn [length skipn app fst is_prefix].
    change (str_eqb kK kK) with true. change (str_eqb kT kT) with true. cbn [andb].
    destruct (is_prefix x q); cbn [map]; rewrite IH; reflexivity.
  - cbn [fst].
    assert (is_prefix (kK :: x) q = false) as ->.
    { destruct (is_prefix (kK :: x) q) eqn:Hq; [|reflexivity].
      rewrite <- HK. symmetry. eapply is_prefix_trans; [|exact Hq]. cbn [is_prefix]. rewrite str_eqb_refl. reflexivity. }
    assert (is_prefix (kT :: x) q = false) as ->.
    { destruct (is_prefix (kT :: x) q) eqn:Hq; [|reflexivity].
      rewrite <- HT. symmetry. eapply is_prefix_trans; [|exact Hq]. cbn [is_prefix]. rewrite str_eqb_refl. reflexivity. }
    exact IH.
Qed.

Lemma rename_final st : sub [kK] st = [] -> mem [kT] st = true ->
  exec st (SRename [kT] [kK]) = map rp st.
Proof.
  intros HK HT. cbn [exec]. unfold rename_ok. apply mem_true_lookup in HT.
  destruct (lookup [kT] st); [|congruence]. rewrite HK. rewrite drop_sub_none by exact HK. reflexivity.
Qed.

Lemma rp_inj e : rp (inj [kT] e) = inj [kK] e.
Proof. unfold reprefix, inj; cbn [fst snd app is_prefix]. rewrite str_eqb_refl. reflexivity. Qed.

Lemma strip_ents_inj X : strip 1 (ents (map (inj [kK]) X)) = X.
Proof.
  induction X as [|[p e] X IH]; [reflexivity|]. cbn [map inj ents flat_map fst snd app strip skipn].
  f_equal. exact IH.
Qed.

(* ------------------------------------------------------------------------------------------ *)
(* round trip *)

Lemma retr_plain_hit st src outs : forall done,
  (forall o, In o outs -> sub [kK; o] st = map (inj [kK]) (sub [o] src)) ->
  all_present src outs = true -> wfb_from done (pack src outs) = true ->
  retr_plain st outs done = Hit (done ++ pack src outs).
Proof.
  induction outs as [|o r IH]; intros done Hsub Hp Hwf; cbn [retr_plain pack flat_map].
  - rewrite app_nil_r. reflexivity.
  - cbn [all_present forallb] in Hp. apply andb_true_iff in Hp as [Hpo Hpr].
    cbn [pack flat_map] in Hwf. rewrite wfb_from_app in Hwf. apply andb_true_iff in Hwf as [HwX Hwr].
    destruct (present_in o src Hpo) as [v Hv].
    pose proof (wfb_from_sub_nil _ _ _ HwX Hv) as Hd. cbn [fst] in Hd. rewrite (drop_sub_none _ _ Hd).
    rewrite <- (lookup_sub [kK; o] [kK; o] st (is_prefix_refl _)).
    rewrite (Hsub o (or_introl eq_refl)).
    assert (lookup [kK; o] (map (inj [kK]) (sub [o] src)) <> None) as Hl.
    { apply mem_true_lookup. apply mem_in. exists (E v). change ([kK; o], E v) with (inj [kK] ([o], v)). apply in_map. exact Hv. }
    destruct (lookup [kK; o] (map (inj [kK]) (sub [o] src))); [|congruence].
    rewrite strip_ents_inj. rewrite (put_all _ _ HwX).
    rewrite IH; [rewrite <- app_assoc; reflexivity| |exact Hpr|exact Hwr].
    intros o' Hin. apply Hsub. right. exact Hin.
Qed.

Lemma roundtrip_plain order st outs src :
  wfb (pack src outs) = true -> NoDup outs -> outs <> [] -> all_present src outs = true ->
  retrieve false (run (store_steps false order st outs src) st) outs = Hit (pack src outs).
Proof.
  intros Hwf Hnd Hne Hp. cbn [store_steps]. unfold store_plain. rewrite !run_app.
  set (st1 := run (rm_steps order [kK] st) st).
  assert (sub [kK] st1 = []) as HK1 by apply rm_steps_clears.
  destruct (outs_steps_spec order src outs st1 [] Hp Hnd Hwf) as [Hsub Hmem].
  set (st2 := run (outs_steps order src st1 outs) st1) in *.
  assert (sub [kK] st2 = []) as HK2.
  { unfold st2. rewrite sub_run_off; [exact HK1|]. eapply Forall_under_off; [|apply outs_steps_under]. apply prefix_KT_not_K. }
  specialize (Hmem Hne). cbn [run fold_left]. rewrite (rename_final st2 HK2 Hmem).
  unfold retrieve, retrieve2.
  assert (lookup [kK] (map rp st2) <> None) as Hl.
  { apply mem_true_lookup. apply mem_in in Hmem as [v Hv]. apply mem_in. exists v.
    change ([kK], v) with (rp ([kT], v)). apply in_map. exact Hv. }
  destruct (lookup [kK] (map rp st2)); [|congruence].
  destruct outs as [|o r]; [congruence|].
  change (Hit (pack src (o :: r))) with (Hit ([] ++ pack src (o :: r))).
  apply retr_plain_hit; [|exact Hp|exact Hwf].
  intros o' Hin. rewrite (sub_reprefix [o'] st2 HK2). rewrite (Hsub o' Hin).
  rewrite map_map. apply map_ext. intros e. apply rp_inj.
Qed.

Lemma remove_app {A} p (a b : list (path * A)) : remove p (a ++ b) = remove p a ++ remove p b.
Proof. apply filter_app. Qed.

Lemma roundtrip_comp order st outs src :
  wfb (pack src outs) = true -> outs <> [] -> all_present src outs = true ->
  retrieve true (run (store_steps true order st outs src) st) outs = Hit (pack src outs).
Proof.
  intros Hwf Hne Hp. cbn [store_steps]. unfold store_comp. rewrite Hp. rewrite !run_app.
  set (st1 := run (rm_steps order [kK] st) st).
  assert (sub [kK] st1 = []) as HK1 by apply rm_steps_clears.
  set (s2 := run (rm_steps order [kT] st1) st1).
  assert (sub [kT] s2 = []) as HT2 by apply rm_steps_clears.
  assert (sub [kK] s2 = []) as HK2.
  { unfold s2. rewrite sub_run_off; [exact HK1|]. eapply Forall_under_off; [|apply rm_steps_under]. apply prefix_KT_not_K. }
  pose proof (mem_sub_nil [kT] [kT] s2 (is_prefix_refl _) HT2) as HmT.
  assert (run [SAdd [kT] (Tar (pack src outs))] (run [SAdd [kT] Junk] s2) = s2 ++ [([kT], Tar (pack src outs))]) as ->.
  { cbn [run fold_left exec]. rewrite (remove_absent _ _ HmT). rewrite remove_app, (remove_absent _ _ HmT).
    cbn [remove filter fst]. rewrite path_eqb_refl. cbn [negb app]. rewrite app_nil_r. reflexivity. }
  set (st2 := s2 ++ [([kT], Tar (pack src outs))]).
  assert (sub [kK] st2 = []) as HK3. { unfold st2. rewrite sub_app, HK2. reflexivity. }
  assert (sub [kT] st2 = [([kT], Tar (pack src outs))]) as HT3.
  { unfold st2. rewrite sub_app, HT2. cbn [sub filter fst app]. rewrite is_prefix_refl. reflexivity. }
  assert (mem [kT] st2 = true) as HmT2.
  { unfold st2. rewrite mem_app. cbn [mem existsb fst]. rewrite path_eqb_refl. apply orb_true_r. }
  change (run [SRename [kT] [kK]] st2) with (exec st2 (SRename [kT] [kK])).
  rewrite (rename_final st2 HK3 HmT2).
  unfold retrieve, retrieve2.
  rewrite <- (lookup_sub [kK] [kK] (map rp st2) (is_prefix_refl _)).
  rewrite (sub_reprefix [] st2 HK3), HT3. cbn [map]. unfold reprefix; cbn [fst snd is_prefix].
  rewrite str_eqb_refl. cbn [andb app length skipn lookup]. rewrite path_eqb_refl.
  destruct outs as [|o r]; [congruence|].
  unfold unpack. rewrite (unpack_all _ [] Hwf). reflexivity.
Qed.

Lemma roundtrip c order st outs src :
  wfb (pack src outs) = true -> NoDup outs -> outs <> [] -> all_present src outs = true ->
  retrieve c (run (store_steps c order st outs src) st) outs = Hit (pack src outs).
Proof. destruct c; intros; [apply roundtrip_comp|apply roundtrip_plain]; assumption. Qed.

(* ------------------------------------------------------------------------------------------ *)
(* crash points *)

Lemma filter_le1 {A} (g : A -> bool) l : length l <= 1 -> filter g l = l \/ filter g l = [].
Proof.
  destruct l as [|x [|y l]]; cbn [length filter]; intros H; [left; reflexivity| |lia].
  destruct (g x); [left|right]; reflexivity.
Qed.

Lemma sub_filter {A} p (g : path * A -> bool) l : sub p (filter g l) = filter g (sub p l).
Proof. apply filter_comm. Qed.

Lemma mem_filter {A} p (g : path * A -> bool) l : mem p (filter g l) = true -> mem p l = true.
Proof.
  intros H. apply mem_in in H as [v Hv]. apply filter_In in Hv as [Hv _]. apply mem_in. eauto.
Qed.

(* a partly removed old entry whose outputs are single objects is a miss or still the old entry *)
Lemma retr_plain_removed g st outs : forall out,
  old_single st outs = true ->
  retr_plain (filter g st) outs out = Miss \/ retr_plain (filter g st) outs out = retr_plain st outs out.
Proof.
  induction outs as [|o r IH]; intros out H; cbn [retr_plain]; [right; reflexivity|].
  cbn [old_single forallb] in H. apply andb_true_iff in H as [Ho Hr]. apply Nat.leb_le in Ho.
  rewrite <- (lookup_sub [kK; o] [kK; o] (filter g st) (is_prefix_refl _)).
  rewrite <- (lookup_sub [kK; o] [kK; o] st (is_prefix_refl _)).
  rewrite (sub_filter [kK; o] g st).
  destruct (filter_le1 g _ Ho) as [-> | ->].
  - destruct (lookup [kK; o] (sub [kK; o] st)); [apply IH; exact Hr|left; reflexivity].
  - left. reflexivity.
Qed.

Lemma retrieve_removed c g st outs :
  crash_defect c st outs = None ->
  retrieve c (filter g st) outs = Miss \/ retrieve c (filter g st) outs = retrieve c st outs.
Proof.
  unfold crash_defect. destruct (key_absent st) eqn:Ha.
  - intros _. left. apply retrieve_miss. rewrite sub_filter. apply key_absent_sub in Ha. rewrite Ha. reflexivity.
  - destruct c.
    + destruct (Nat.leb (length (sub [kK] st)) 1) eqn:Hl; [|discriminate]. intros _. apply Nat.leb_le in Hl.
      destruct (filter_le1 g _ Hl) as [He | He].
      * right. apply retrieve2_ext; rewrite sub_filter; exact He.
      * left. apply retrieve_miss. rewrite sub_filter. exact He.
    + destruct (old_single st outs) eqn:Hs; [|discriminate]. intros _.
      unfold retrieve, retrieve2.
      destruct (lookup [kK] (filter g st)) eqn:Hl; [|left; reflexivity].
      assert (lookup [kK] st <> None) as Hl'.
      { apply mem_true_lookup. apply (mem_filter _ g). apply mem_true_lookup. congruence. }
      destruct (lookup [kK] st); [|congruence].
      destruct outs as [|o r]; [right; reflexivity|]. apply retr_plain_removed. exact Hs.
Qed.

Lemma firstn_map {A B} (f : A -> B) n l : firstn n (map f l) = map f (firstn n l).
Proof. revert l; induction n; intros [|x l]; cbn [firstn map]; [reflexivity..|]. f_equal. auto. Qed.

Definition inputs_ok (c : bool) (st : fs) (outs : list str) (src : tree) : Prop :=
  wfb (pack src outs) = true /\ NoDup outs /\ outs <> [] /\ all_present src outs = true
  /\ (c = false -> tmp_ok st = true).

(* the K-subtree of every crash state *)
Lemma crash_states c order st outs src n :
  let st' := run (firstn n (store_steps c order st outs src)) st in
  (exists g, sub [kK] st' = sub [kK] (filter g st) /\ (key_absent st = true -> sub [kK] st' = []))
  \/ sub [kK] st' = []
  \/ firstn n (store_steps c order st outs src) = store_steps c order st outs src.
Proof.
  cbn zeta. destruct (prefix_cases c order st outs src n) as [[k ->] | [[k ->] | ->]].
  - left. unfold rm_steps. rewrite firstn_map, run_unlinks. eexists. split; [reflexivity|].
    intros Ha. rewrite sub_filter. apply key_absent_sub in Ha. rewrite Ha. reflexivity.
  - right; left. rewrite run_app, sub_K_build. apply rm_steps_clears.
  - right; right. reflexivity.
Qed.

Lemma crash_atomic c order st outs src :
  inputs_ok c st outs src -> crash_defect c st outs = None ->
  forall n, let r := retrieve c (run (firstn n (store_steps c order st outs src)) st) outs in
    r = Miss \/ r = Hit (pack src outs) \/ r = retrieve c st outs.
Proof.
  intros (Hwf & Hnd & Hne & Hp & _) Hd n. cbn zeta.
  destruct (crash_states c order st outs src n) as [[g [Hg _]] | [H0 | ->]].
  - destruct (retrieve_removed c g st outs Hd) as [Hm | Ho].
    + left. rewrite <- Hm. apply retrieve2_ext; exact Hg.
    + right; right. rewrite <- Ho. apply retrieve2_ext; exact Hg.
  - left. apply retrieve_miss. exact H0.
  - right; left. apply roundtrip; assumption.
Qed.

(* stores to an absent key: every crash point is a miss or the complete new tree *)
Lemma crash_absent c order st outs src :
  inputs_ok c st outs src -> key_absent st = true ->
  forall n, let r := retrieve c (run (firstn n (store_steps c order st outs src)) st) outs in
    r = Miss \/ r = Hit (pack src outs).
Proof.
  intros (Hwf & Hnd & Hne & Hp & _) Ha n. cbn zeta.
  destruct (crash_states c order st outs src n) as [[g [_ Hg]] | [H0 | ->]].
  - left. apply retrieve_miss. apply Hg. exact Ha.
  - left. apply retrieve_miss. exact H0.
  - right. apply roundtrip; assumption.
Qed.

(* a retrieve that overlaps a store to an absent key (existence check after i steps, reads after
   j >= i steps) is a miss or the complete new tree *)
Lemma race_absent c order st outs src :
  inputs_ok c st outs src -> key_absent st = true ->
  forall i j, i <= j ->
    let steps := store_steps c order st outs src in
    let r := retrieve2 c (run (firstn i steps) st) (run (firstn j steps) st) outs in
    r = Miss \/ r = Hit (pack src outs).
Proof.
  intros (Hwf & Hnd & Hne & Hp & _) Ha i j Hij. cbn zeta.
  destruct (crash_states c order st outs src i) as [[g [_ Hg]] | [H0 | He]].
  - left. apply retrieve2_absent. apply Hg. exact Ha.
  - left. apply retrieve2_absent. exact H0.
  - right.
    assert (length (store_steps c order st outs src) <= i) as Hlen.
    { pose proof (firstn_length i (store_steps c order st outs src)) as Hl. rewrite He in Hl. lia. }
    rewrite !firstn_all2 by lia. apply roundtrip; assumption.
Qed.

(* ------------------------------------------------------------------------------------------ *)
(* the property, its refutation and the part that holds *)

Definition statement_for (c : bool) (order : list path) (st : fs) (outs : list str) (src : tree)
    (crash_ok race_ok : Prop) : Prop :=
  let steps := store_steps c order st outs src in
  let new := Hit (pack src outs) in
  retrieve c (run steps st) outs = new
  /\ (key_absent st = true -> retrieve c st outs = Miss)
  /\ (crash_ok -> forall n, let r := retrieve c (run (firstn n steps) st) outs in
        r = Miss \/ r = new \/ r = retrieve c st outs)
  /\ (race_ok -> forall i j, i <= j ->
        let r := retrieve2 c (run (firstn i steps) st) (run (firstn j steps) st) outs in
        r = Miss \/ r = new \/ r = retrieve c st outs).

Lemma partial_holds c order st outs src : inputs_ok c st outs src ->
  statement_for c order st outs src (crash_defect c st outs = None) (race_defect c st = None).
Proof.
  intros Hok. pose proof Hok as (Hwf & Hnd & Hne & Hp & _). unfold statement_for. cbn zeta. repeat split.
  - apply roundtrip; assumption.
  - intros Ha. apply retrieve_miss. apply key_absent_sub. exact Ha.
  - intros Hd n. apply crash_atomic; assumption.
  - unfold race_defect. destruct (key_absent st) eqn:Ha; [|discriminate]. intros _ i j Hij.
    destruct (race_absent c order st outs src Hok Ha i j Hij) as [H | H]; [left|right; left]; exact H.
Qed.

(* witness 1 (crash): the key holds a directory output d = {a, b}; the same tree is stored again
   and the process dies after the first unlink of Store's RemoveAll.  The prior state is what the
   model's own Store produces from an empty cache. *)
Definition w_src : tree := [([s "d"], D); ([s "d"; s "a"], F (s "1") false); ([s "d"; s "b"], F (s "2") false)].
Definition w_outs : list str := [s "d"].
Definition w_prior (c : bool) : fs := run (store_steps c [] [] w_outs w_src) [].

Lemma w_inputs_ok c : inputs_ok c (w_prior c) w_outs w_src.
Proof.
  unfold inputs_ok. repeat split.
  - repeat constructor. intros [].
  - discriminate.
  - destruct c; reflexivity.
Qed.

Lemma w_crash_partial_hit :
  retrieve false (run (firstn 1 (store_steps false [] (w_prior false) w_outs w_src)) (w_prior false)) w_outs
  = Hit [([s "d"], D); ([s "d"; s "a"], F (s "1") false)].
Proof. vm_compute. reflexivity. Qed.

(* witness 2 (schedule, compressed): the existence check sees the old tarball, the open happens
   after Store's RemoveAll: a hit that restores nothing *)
Lemma w_race_compressed :
  let steps := store_steps true [] (w_prior true) w_outs w_src in
  retrieve2 true (run (firstn 0 steps) (w_prior true)) (run (firstn 1 steps) (w_prior true)) w_outs = Hit [].
Proof. vm_compute. reflexivity. Qed.

(* witness 3 (schedule, uncompressed): the files are read while the old entry is being removed *)
Lemma w_race_plain :
  let steps := store_steps false [] (w_prior false) w_outs w_src in
  retrieve2 false (run (firstn 0 steps) (w_prior false)) (run (firstn 2 steps) (w_prior false)) w_outs
  = Hit [([s "d"], D)].
Proof. vm_compute. reflexivity. Qed.

Lemma full_refuted :
  ~ (forall c order st outs src, inputs_ok c st outs src -> statement_for c order st outs src True True).
Proof.
  intros H. destruct (H false [] (w_prior false) w_outs w_src (w_inputs_ok false)) as (_ & _ & Hc & _).
  specialize (Hc I 1). cbn zeta in Hc. rewrite w_crash_partial_hit in Hc.
  destruct Hc as [Hc | [Hc | Hc]]; [discriminate Hc| |]; vm_compute in Hc; discriminate Hc.
Qed.

Lemma full_refuted_plain :
  ~ (forall c order st outs src, inputs_ok c st outs src ->
       let steps := store_steps c order st outs src in
       let new := Hit (pack src outs) in
       retrieve c (run steps st) outs = new
       /\ (key_absent st = true -> retrieve c st outs = Miss)
       /\ (forall n, let r := retrieve c (run (firstn n steps) st) outs in
             r = Miss \/ r = new \/ r = retrieve c st outs)
       /\ (forall i j, i <= j ->
             let r := retrieve2 c (run (firstn i steps) st) (run (firstn j steps) st) outs in
             r = Miss \/ r = new \/ r = retrieve c st outs)).
Proof.
  intros H. apply full_refuted. intros c order st outs src Hok.
  destruct (H c order st outs src Hok) as (H1 & H2 & H3 & H4). unfold statement_for. cbn zeta.
  repeat split; auto.
Qed.
