(* C12 - proofs about the model of the directory cache (Model/C12.v). *)
From PlzV Require Import Base.Harness Base.StrFacts Model.C12.
From Coq Require Import Lia.

(* ------------------------------------------------------------------------------------------ *)
(* paths *)

Lemma path_eqb_spec a b : reflect (a = b) (path_eqb a b).
Proof. apply list_eqb_spec. apply str_eqb_spec. Qed.

Lemma path_eqb_eq a b : path_eqb a b = true <-> a = b.
Proof. destruct (path_eqb_spec a b); split; congruence. Qed.

Lemma path_eqb_refl a : path_eqb a a = true.
Proof. apply path_eqb_eq. reflexivity. Qed.

Lemma path_eqb_neq a b : path_eqb a b = false <-> a <> b.
Proof. destruct (path_eqb_spec a b); split; congruence. Qed.

Lemma is_prefix_refl p : is_prefix p p = true.
Proof. induction p as [|a p IH]; cbn [is_prefix]; [reflexivity|]. rewrite str_eqb_refl. exact IH. Qed.

Lemma is_prefix_app p x : is_prefix p (p ++ x) = true.
Proof. induction p as [|a p IH]; cbn [is_prefix app]; [reflexivity|]. rewrite str_eqb_refl. exact IH. Qed.

Lemma is_prefix_split p q : is_prefix p q = true -> exists x, q = p ++ x.
Proof.
  revert q; induction p as [|a p IH]; intros q H.
  - exists q. reflexivity.
  - destruct q as [|b q]; cbn [is_prefix] in H; [discriminate|].
    apply andb_true_iff in H as [Hab Hpq]. apply str_eqb_eq in Hab. subst b.
    destruct (IH q Hpq) as [x ->]. exists x. reflexivity.
Qed.

Lemma is_prefix_trans a b c : is_prefix a b = true -> is_prefix b c = true -> is_prefix a c = true.
Proof.
  intros Hab Hbc. destruct (is_prefix_split _ _ Hab) as [x ->]. destruct (is_prefix_split _ _ Hbc) as [y ->].
  rewrite <- app_assoc. apply is_prefix_app.
Qed.

Lemma prefix_KT_not_K q : is_prefix [kT] q = true -> is_prefix [kK] q = false.
Proof.
  destruct q as [|b q]; cbn [is_prefix]; [discriminate|]. intros H.
  apply andb_true_iff in H as [Hb _]. apply str_eqb_eq in Hb. subst b. reflexivity.
Qed.

Lemma prefix_two_one a o q : is_prefix [a; o] q = true -> is_prefix [a] q = true.
Proof. apply is_prefix_trans. cbn [is_prefix]. rewrite str_eqb_refl. reflexivity. Qed.

Lemma prefix_two_other a o o' q : o <> o' -> is_prefix [a; o] q = true -> is_prefix [a; o'] q = false.
Proof.
  intros Hne H. destruct q as [|b [|b' q]]; cbn [is_prefix] in *; try discriminate.
  - rewrite andb_false_r in H. discriminate.
  - apply andb_true_iff in H as [Hb H]. apply andb_true_iff in H as [Hb' _].
    apply str_eqb_eq in Hb'. subst b'. rewrite Hb. cbn [andb].
    replace (str_eqb o' o) with false; [reflexivity|]. symmetry. apply str_eqb_neq. congruence.
Qed.

Lemma prefix_one_other o o' q : o <> o' -> is_prefix [o] q = true -> is_prefix [o'] q = false.
Proof.
  intros Hne H. destruct q as [|b q]; cbn [is_prefix] in *; [discriminate|].
  apply andb_true_iff in H as [Hb _]. apply str_eqb_eq in Hb. subst b.
  replace (str_eqb o' o) with false; [reflexivity|]. symmetry. apply str_eqb_neq. congruence.
Qed.

(* ------------------------------------------------------------------------------------------ *)
(* filters *)

Lemma filter_absorb {A} (f g : A -> bool) l :
  (forall x, In x l -> f x = true -> g x = true) -> filter f (filter g l) = filter f l.
Proof.
  induction l as [|x l IH]; intros H; [reflexivity|]. cbn [filter].
  destruct (g x) eqn:Hg; cbn [filter].
  - destruct (f x); rewrite IH; auto; intros; apply H; auto; right; auto.
  - destruct (f x) eqn:Hf.
    + rewrite (H x (or_introl eq_refl) Hf) in Hg. discriminate.
    + apply IH. intros; apply H; auto; right; auto.
Qed.

Lemma filter_comm {A} (f g : A -> bool) l : filter f (filter g l) = filter g (filter f l).
Proof.
  induction l as [|x l IH]; [reflexivity|]. cbn [filter].
  destruct (g x) eqn:Hg, (f x) eqn:Hf; cbn [filter]; rewrite ?Hg, ?Hf, IH; reflexivity.
Qed.

Lemma filter_all {A} (f : A -> bool) l : (forall x, In x l -> f x = true) -> filter f l = l.
Proof.
  induction l as [|x l IH]; intros H; [reflexivity|]. cbn [filter].
  rewrite (H x (or_introl eq_refl)). f_equal. apply IH. intros; apply H; right; auto.
Qed.

Lemma filter_none {A} (f : A -> bool) l : (forall x, In x l -> f x = false) -> filter f l = [].
Proof.
  induction l as [|x l IH]; intros H; [reflexivity|]. cbn [filter].
  rewrite (H x (or_introl eq_refl)). apply IH. intros; apply H; right; auto.
Qed.

Lemma filter_nil_in {A} (f : A -> bool) l x : filter f l = [] -> In x l -> f x = false.
Proof.
  intros H Hin. destruct (f x) eqn:Hf; [|reflexivity].
  assert (In x (filter f l)) by (apply filter_In; auto). rewrite H in H0. destruct H0.
Qed.

Lemma Forall_firstn {A} (P : A -> Prop) n l : Forall P l -> Forall P (firstn n l).
Proof.
  revert l; induction n as [|n IH]; intros l H; [constructor|].
  destruct H; cbn [firstn]; constructor; auto.
Qed.

(* ------------------------------------------------------------------------------------------ *)
(* association lists *)

Lemma mem_lookup {A} p (l : list (path * A)) : mem p l = false <-> lookup p l = None.
Proof.
  induction l as [|[q v] l IH]; cbn [mem existsb lookup fst]; [tauto|].
  destruct (path_eqb q p); cbn [orb]; [split; discriminate|exact IH].
Qed.

Lemma mem_true_lookup {A} p (l : list (path * A)) : mem p l = true <-> lookup p l <> None.
Proof.
  destruct (mem p l) eqn:Hm.
  - split; [intros _ Hn; apply mem_lookup in Hn; congruence|reflexivity].
  - apply mem_lookup in Hm. split; [discriminate|congruence].
Qed.

Lemma mem_app {A} p (a b : list (path * A)) : mem p (a ++ b) = mem p a || mem p b.
Proof. apply existsb_app. Qed.

Lemma mem_in {A} p (l : list (path * A)) : mem p l = true <-> exists v, In (p, v) l.
Proof.
  unfold mem. rewrite existsb_exists. split.
  - intros [[q v] [Hin Hq]]. apply path_eqb_eq in Hq. cbn in Hq. subst q. eauto.
  - intros [v Hin]. exists (p, v). split; [exact Hin|apply path_eqb_refl].
Qed.

Lemma remove_absent {A} p (l : list (path * A)) : mem p l = false -> remove p l = l.
Proof.
  intros H. apply filter_all. intros [q v] Hin. cbn [fst]. apply negb_true_iff. apply path_eqb_neq.
  intros ->. assert (mem p l = true) by (apply mem_in; eauto). congruence.
Qed.

Lemma sub_app {A} p (a b : list (path * A)) : sub p (a ++ b) = sub p a ++ sub p b.
Proof. apply filter_app. Qed.

Lemma drop_sub_none {A} p (l : list (path * A)) : sub p l = [] -> drop_sub p l = l.
Proof.
  intros H. apply filter_all. intros x Hin. apply negb_true_iff.
  exact (filter_nil_in _ _ _ H Hin).
Qed.

Lemma sub_sub {A} p r (l : list (path * A)) : is_prefix p r = true -> sub r (sub p l) = sub r l.
Proof.
  intros H. apply filter_absorb. intros x _ Hx. eapply is_prefix_trans; eauto.
Qed.

Lemma lookup_sub {A} p r (l : list (path * A)) : is_prefix p r = true -> lookup r (sub p l) = lookup r l.
Proof.
  intros H. induction l as [|[q v] l IH]; [reflexivity|]. cbn [sub filter fst lookup].
  destruct (path_eqb q r) eqn:Hq.
  - apply path_eqb_eq in Hq. subst q. rewrite H. cbn [lookup]. rewrite path_eqb_refl. reflexivity.
  - destruct (is_prefix p q); cbn [lookup]; rewrite ?Hq; exact IH.
Qed.

Lemma lookup_nil_sub {A} p r (l : list (path * A)) : is_prefix p r = true -> sub p l = [] -> lookup r l = None.
Proof. intros H Hs. rewrite <- (lookup_sub p r l H), Hs. reflexivity. Qed.

Lemma mem_sub_nil {A} p r (l : list (path * A)) : is_prefix p r = true -> sub p l = [] -> mem r l = false.
Proof. intros H Hs. apply mem_lookup. eapply lookup_nil_sub; eauto. Qed.

(* ------------------------------------------------------------------------------------------ *)
(* steps that stay away from / stay below a path *)

Definition step_off (p : path) (s : step) : bool :=
  match s with
  | SMkdir q | SUnlink q | SAdd q _ => negb (is_prefix p q)
  | SRename _ _ => false
  end.

Definition step_under (p : path) (s : step) : bool :=
  match s with
  | SMkdir q | SUnlink q | SAdd q _ => is_prefix p q
  | SRename _ _ => false
  end.

Lemma sub_remove_off {A} p q (l : list (path * A)) : is_prefix p q = false -> sub p (remove q l) = sub p l.
Proof.
  intros H. unfold sub, remove. rewrite filter_absorb; [reflexivity|].
  intros [r v] _ Hr. cbn [fst] in *. apply negb_true_iff. apply path_eqb_neq. intros ->. congruence.
Qed.

Lemma sub_exec_off p s st : step_off p s = true -> sub p (exec st s) = sub p st.
Proof.
  destruct s as [q|q|q n|a b]; cbn [step_off exec]; intros H; try discriminate; apply negb_true_iff in H.
  - destruct (mem q st); [reflexivity|]. rewrite sub_app. cbn [sub filter fst]. rewrite H. apply app_nil_r.
  - apply sub_remove_off. exact H.
  - rewrite sub_app. cbn [sub filter fst]. rewrite H, app_nil_r. apply sub_remove_off. exact H.
Qed.

Lemma sub_run_off p l st : Forall (fun s => step_off p s = true) l -> sub p (run l st) = sub p st.
Proof.
  revert st; induction l as [|s l IH]; intros st H; [reflexivity|].
  inversion H as [|? ? Hs Hl]; subst. cbn [run fold_left]. change (fold_left exec l (exec st s)) with (run l (exec st s)).
  rewrite IH by assumption. apply sub_exec_off. exact Hs.
Qed.

Lemma run_app a b st : run (a ++ b) st = run b (run a st).
Proof. apply fold_left_app. Qed.

Lemma rm_steps_under order p st : Forall (fun s => step_under p s = true) (rm_steps order p st).
Proof.
  unfold rm_steps, rm_paths. rewrite map_app. apply Forall_app. split; apply Forall_forall; intros s Hin;
    apply in_map_iff in Hin as [q [<- Hq]]; cbn [step_under].
  - apply filter_In in Hq as [_ Hq]. apply andb_true_iff in Hq. tauto.
  - apply in_rev in Hq. apply filter_In in Hq as [Hq _]. apply in_map_iff in Hq as [[q' v] [<- Hq]].
    apply filter_In in Hq. tauto.
Qed.

Lemma add_steps_under pre X : Forall (fun s => step_under pre s = true) (map (add_step pre) X).
Proof.
  apply Forall_forall. intros s Hin. apply in_map_iff in Hin as [[q e] [<- _]].
  unfold add_step; cbn [fst snd]. destruct e; cbn [step_under]; apply is_prefix_app.
Qed.

Lemma add_steps_under2 a o src : Forall (fun s => step_under [a; o] s = true) (link_steps [a] src o).
Proof.
  unfold link_steps. destruct (lookup [o] src) as [e0|]; [|constructor].
  apply Forall_forall. intros s Hin. apply in_map_iff in Hin as [[q e] [<- Hq]].
  apply filter_In in Hq as [_ Hq]. cbn [fst] in Hq.
  assert (is_prefix [a; o] ([a] ++ q) = true) as Hp.
  { cbn [app is_prefix]. rewrite str_eqb_refl. exact Hq. }
  unfold add_step; cbn [fst snd]. destruct e; cbn [step_under]; exact Hp.
Qed.

Lemma under_off p p' s : (forall q, is_prefix p q = true -> is_prefix p' q = false) ->
  step_under p s = true -> step_off p' s = true.
Proof.
  intros H. destruct s; cbn [step_under step_off]; intros Hu; try discriminate; rewrite (H _ Hu); reflexivity.
Qed.

Lemma Forall_under_off p p' l : (forall q, is_prefix p q = true -> is_prefix p' q = false) ->
  Forall (fun s => step_under p s = true) l -> Forall (fun s => step_off p' s = true) l.
Proof. intros H. apply Forall_impl. intros s. apply under_off. exact H. Qed.

Lemma Forall_under_weaken p p' l : is_prefix p' p = true ->
  Forall (fun s => step_under p s = true) l -> Forall (fun s => step_under p' s = true) l.
Proof.
  intros H. apply Forall_impl. intros s. destruct s; cbn [step_under]; try discriminate; intros Hu;
    eapply is_prefix_trans; eauto.
Qed.

Lemma out_steps_under order src st o : Forall (fun s => step_under [kT] s = true) (out_steps order src st o).
Proof.
  unfold out_steps. repeat (apply Forall_app; split).
  - repeat constructor.
  - eapply Forall_under_weaken; [|apply rm_steps_under]. reflexivity.
  - eapply Forall_under_weaken; [|apply add_steps_under2]. reflexivity.
Qed.

Lemma outs_steps_under order src outs : forall st, Forall (fun s => step_under [kT] s = true) (outs_steps order src st outs).
Proof.
  induction outs as [|o r IH]; intros st; cbn [outs_steps]; [constructor|].
  apply Forall_app. split; [apply out_steps_under|apply IH].
Qed.

(* ------------------------------------------------------------------------------------------ *)
(* RemoveAll removes everything below its argument *)

Lemma run_unlinks ps st :
  run (map SUnlink ps) st = filter (fun e => negb (existsb (path_eqb (fst e)) ps)) st.
Proof.
  revert st; induction ps as [|p ps IH]; intros st; cbn [map run fold_left].
  - symmetry. apply filter_all. reflexivity.
  - change (fold_left exec (map SUnlink ps) (exec st (SUnlink p))) with (run (map SUnlink ps) (exec st (SUnlink p))).
    rewrite IH. cbn [exec]. unfold remove.
    induction st as [|e st IHst]; [reflexivity|]. cbn [filter existsb].
    destruct (path_eqb (fst e) p) eqn:Hp; cbn [negb orb filter].
    + exact IHst.
    + destruct (existsb (path_eqb (fst e)) ps); cbn [negb]; rewrite IHst; reflexivity.
Qed.

Lemma rm_paths_cover order p (st : fs) q v : In (q, v) st -> is_prefix p q = true -> In q (rm_paths order p st).
Proof.
  intros Hin Hp. unfold rm_paths. apply in_or_app.
  destruct (existsb (path_eqb q) order) eqn:Ho.
  - left. apply existsb_exists in Ho as [q' [Hq' He]]. apply path_eqb_eq in He. subst q'.
    apply filter_In. split; [exact Hq'|]. rewrite Hp. cbn [andb]. apply mem_in. eauto.
  - right. apply -> in_rev. apply filter_In. split; [|rewrite Ho; reflexivity].
    apply in_map_iff. exists (q, v). split; [reflexivity|]. apply filter_In. auto.
Qed.

Lemma rm_steps_clears order p st : sub p (run (rm_steps order p st) st) = [].
Proof.
  unfold rm_steps. rewrite run_unlinks. unfold sub. rewrite filter_comm. apply filter_none.
  intros [q v] Hin. apply filter_In in Hin as [Hin Hp]. cbn [fst] in *.
  apply negb_false_iff. apply existsb_exists. exists q. split; [|apply path_eqb_refl].
  eapply rm_paths_cover; eauto.
Qed.

Lemma rm_steps_absent order p st : sub p st = [] -> rm_steps order p st = [].
Proof.
  intros H. unfold rm_steps, rm_paths. rewrite H. cbn [map filter rev]. rewrite app_nil_r.
  replace (filter _ order) with (@nil path); [reflexivity|]. symmetry. apply filter_none.
  intros q _. destruct (is_prefix p q) eqn:Hp; [|reflexivity]. cbn [andb].
  eapply mem_sub_nil; eauto.
Qed.

(* ------------------------------------------------------------------------------------------ *)
(* Retrieve only looks below K *)

Lemma retr_plain_ext a b outs : sub [kK] a = sub [kK] b -> forall out, retr_plain a outs out = retr_plain b outs out.
Proof.
  intros H. induction outs as [|o r IH]; intros out; cbn [retr_plain]; [reflexivity|].
  assert (is_prefix [kK] [kK; o] = true) as Hp by (cbn [is_prefix]; rewrite str_eqb_refl; reflexivity).
  rewrite <- (lookup_sub [kK] [kK; o] a Hp), <- (lookup_sub [kK] [kK; o] b Hp), H.
  rewrite <- (sub_sub [kK] [kK; o] a Hp), <- (sub_sub [kK] [kK; o] b Hp), H.
  destruct (lookup [kK; o] (sub [kK] b)); [apply IH|reflexivity].
Qed.

Lemma retrieve2_ext c a1 a2 b1 b2 outs :
  sub [kK] a1 = sub [kK] b1 -> sub [kK] a2 = sub [kK] b2 -> retrieve2 c a1 a2 outs = retrieve2 c b1 b2 outs.
Proof.
  intros H1 H2. unfold retrieve2.
  rewrite <- (lookup_sub [kK] [kK] a1 (is_prefix_refl _)), <- (lookup_sub [kK] [kK] b1 (is_prefix_refl _)), H1.
  rewrite <- (lookup_sub [kK] [kK] a2 (is_prefix_refl _)), <- (lookup_sub [kK] [kK] b2 (is_prefix_refl _)), H2.
  rewrite (retr_plain_ext a2 b2 outs H2). reflexivity.
Qed.

Lemma retrieve2_absent c st1 st2 outs : sub [kK] st1 = [] -> retrieve2 c st1 st2 outs = Miss.
Proof.
  intros H. unfold retrieve2. rewrite (lookup_nil_sub [kK] [kK] st1 (is_prefix_refl _) H). reflexivity.
Qed.

(* never stored = miss *)
Lemma retrieve_miss c st outs : sub [kK] st = [] -> retrieve c st outs = Miss.
Proof. apply retrieve2_absent. Qed.

(* ------------------------------------------------------------------------------------------ *)
(* the shape of Store: everything before the final rename happens outside K once K is gone *)

Definition init_steps (c : bool) order st outs src : list step :=
  removelast (store_steps c order st outs src).

Lemma store_steps_split c order st outs src :
  store_steps c order st outs src = init_steps c order st outs src ++ [SRename [kT] [kK]].
Proof.
  unfold init_steps. destruct c; cbn [store_steps]; unfold store_comp, store_plain.
  - rewrite !app_assoc. rewrite removelast_last. reflexivity.
  - rewrite !app_assoc. rewrite removelast_last. reflexivity.
Qed.

(* the steps of Store after the removal of the old entry *)
Definition build_steps (c : bool) order st outs src : list step :=
  if c then rm_steps order [kT] st ++ [SAdd [kT] Junk]
              ++ (if all_present src outs then [SAdd [kT] (Tar (pack src outs))] else [SUnlink [kT]])
  else outs_steps order src st outs.

Lemma init_steps_eq c order st outs src :
  init_steps c order st outs src =
  rm_steps order [kK] st ++ build_steps c order (run (rm_steps order [kK] st) st) outs src.
Proof.
  unfold init_steps, build_steps. destruct c; cbn [store_steps]; unfold store_comp, store_plain.
  - rewrite !app_assoc. rewrite removelast_last. rewrite <- !app_assoc. reflexivity.
  - rewrite !app_assoc. rewrite removelast_last. reflexivity.
Qed.

Lemma build_steps_under c order st outs src : Forall (fun s => step_under [kT] s = true) (build_steps c order st outs src).
Proof.
  destruct c; cbn [build_steps].
  - repeat (apply Forall_app; split).
    + apply rm_steps_under.
    + repeat constructor.
    + destruct (all_present src outs); repeat constructor.
  - apply outs_steps_under.
Qed.

Lemma build_steps_off c order st outs src : Forall (fun s => step_off [kK] s = true) (build_steps c order st outs src).
Proof. eapply Forall_under_off; [|apply build_steps_under]. apply prefix_KT_not_K. Qed.

(* states during the build phase have the K-subtree the removal left *)
Lemma sub_K_build c order st outs src n :
  sub [kK] (run (firstn n (build_steps c order st outs src)) st) = sub [kK] st.
Proof. apply sub_run_off. apply Forall_firstn. apply build_steps_off. Qed.

Lemma key_absent_sub st : key_absent st = true <-> sub [kK] st = [].
Proof. unfold key_absent. destruct (sub [kK] st); split; congruence. Qed.

(* every crash prefix of a store is: a prefix of the removal, or the removal and a prefix of the
   build, or the complete store *)
Lemma prefix_cases c order st outs src n :
  let steps := store_steps c order st outs src in
  let a := rm_steps order [kK] st in
  let b := build_steps c order (run a st) outs src in
  (exists k, firstn n steps = firstn k a)
  \/ (exists k, firstn n steps = a ++ firstn k b)
  \/ firstn n steps = steps.
Proof.
  cbn zeta. rewrite store_steps_split, init_steps_eq.
  set (a := rm_steps order [kK] st). set (b := build_steps c order (run a st) outs src).
  destruct (Nat.le_gt_cases n (length a)) as [Hle|Hgt].
  - left. exists n. rewrite <- app_assoc. rewrite firstn_app.
    replace (n - length a) with 0 by lia. cbn [firstn]. apply app_nil_r.
  - destruct (Nat.le_gt_cases n (length (a ++ b))) as [Hle2|Hgt2].
    + right; left. exists (n - length a). rewrite firstn_app.
      replace (n - length (a ++ b)) with 0 by lia. cbn [firstn]. rewrite app_nil_r.
      rewrite firstn_app. rewrite (firstn_all2 a) by lia. reflexivity.
    + right; right. apply firstn_all2. rewrite app_length. cbn [length]. lia.
Qed.
