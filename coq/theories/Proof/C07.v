(* C07 - the rule-hash stream does not depend on the order in which Go enumerates maps or in which the declared
   dependencies were inserted: every unordered attribute the regenerated ruleHash reads is sorted first. *)
From Coq Require Import Lia Permutation Sorted.
From PlzV Require Import Base.Harness Base.StrFacts Model.C08 Model.C08_Set Model.C08_Spec Gen.RuleHashProg.

(* ------------------------------------------------------------------------------------------ insertion sort *)

Section Sort.
  Variable A : Type.
  Variable leb : A -> A -> bool.
  Hypothesis leb_total : forall x y, leb x y = true \/ leb y x = true.
  Hypothesis leb_trans : forall x y z, leb x y = true -> leb y z = true -> leb x z = true.

  Let le (x y : A) : Prop := leb x y = true.

  Lemma insert_perm x l : Permutation (x :: l) (insert_by leb x l).
  Proof.
    induction l as [|y l IH]; cbn; [reflexivity|]. destruct (leb x y); [reflexivity|].
    rewrite perm_swap. now apply perm_skip.
  Qed.

  Lemma isort_perm l : Permutation l (isort leb l).
  Proof.
    induction l as [|x l IH]; cbn; [reflexivity|]. rewrite <- insert_perm. now apply perm_skip.
  Qed.

  Lemma insert_sorted x l : StronglySorted le l -> StronglySorted le (insert_by leb x l).
  Proof.
    induction l as [|y l IH]; intros Hs; cbn.
    - repeat constructor.
    - inversion Hs as [|? ? Hs' Hall]; subst. destruct (leb x y) eqn:Hxy.
      + constructor; [assumption|]. constructor; [exact Hxy|].
        eapply Forall_impl; [|exact Hall]. intros z Hz. unfold le in *. eauto.
      + constructor; [now apply IH|].
        assert (Hyx : le y x) by (destruct (leb_total x y); [congruence | assumption]).
        rewrite <- insert_perm. constructor; assumption.
  Qed.

  Lemma isort_sorted l : StronglySorted le (isort leb l).
  Proof. induction l as [|x l IH]; cbn; [constructor | now apply insert_sorted]. Qed.

  Lemma leb_refl x : leb x x = true.
  Proof. destruct (leb_total x x); assumption. Qed.

  (* a sorted list is determined by its elements, when the order is antisymmetric on them *)
  Lemma sorted_perm_unique l1 : forall l2,
    StronglySorted le l1 -> StronglySorted le l2 -> Permutation l1 l2 ->
    (forall x y, In x l1 -> In y l1 -> leb x y = true -> leb y x = true -> x = y) -> l1 = l2.
  Proof.
    induction l1 as [|a l1 IH]; intros l2 H1 H2 Hp Hanti.
    - apply Permutation_nil in Hp. now subst.
    - destruct l2 as [|b l2]; [apply Permutation_sym, Permutation_nil in Hp; discriminate|].
      inversion H1 as [|? ? H1' Hall1]; subst. inversion H2 as [|? ? H2' Hall2]; subst.
      assert (Hab : leb a b = true).
      { assert (Hin : In b (a :: l1)) by (eapply Permutation_in; [apply Permutation_sym; exact Hp | now left]).
        destruct Hin as [->|Hin]; [apply leb_refl|]. rewrite Forall_forall in Hall1. now apply Hall1. }
      assert (Hba : leb b a = true).
      { assert (Hin : In a (b :: l2)) by (eapply Permutation_in; [exact Hp | now left]).
        destruct Hin as [->|Hin]; [apply leb_refl|]. rewrite Forall_forall in Hall2. now apply Hall2. }
      assert (Heq : a = b).
      { apply Hanti; try assumption; [now left|]. eapply Permutation_in; [apply Permutation_sym; exact Hp | now left]. }
      subst b. f_equal. apply IH; try assumption.
      + now apply Permutation_cons_inv in Hp.
      + intros x y Hx Hy. apply Hanti; now right.
  Qed.

  Lemma isort_perm_eq l l' :
    Permutation l l' ->
    (forall x y, In x l -> In y l -> leb x y = true -> leb y x = true -> x = y) -> isort leb l = isort leb l'.
  Proof.
    intros Hp Hanti. apply sorted_perm_unique; try apply isort_sorted.
    - rewrite <- !isort_perm. exact Hp.
    - intros x y Hx Hy. apply Hanti; eapply Permutation_in; try (apply Permutation_sym, isort_perm); assumption.
  Qed.
End Sort.

(* ------------------------------------------------------------------------------------------ the string order *)

Lemma str_leb_total a b : str_leb a b = true \/ str_leb b a = true.
Proof.
  unfold str_leb. rewrite (str_cmp_antisym a b). destruct (str_cmp a b); cbn; tauto.
Qed.

Lemma str_cmp_gt_lt a b : str_cmp a b = Gt -> str_cmp b a = Lt.
Proof. intros H. rewrite (str_cmp_antisym a b), H. reflexivity. Qed.

Lemma str_leb_trans a b c : str_leb a b = true -> str_leb b c = true -> str_leb a c = true.
Proof.
  unfold str_leb. destruct (str_cmp a b) eqn:E1; try discriminate; intros _;
    destruct (str_cmp b c) eqn:E2; try discriminate; intros _.
  - apply str_cmp_eq in E1. subst. now rewrite E2.
  - apply str_cmp_eq in E1. subst. now rewrite E2.
  - apply str_cmp_eq in E2. subst. now rewrite E1.
  - now rewrite (str_cmp_lt_trans _ _ _ E1 E2).
Qed.

Lemma str_leb_antisym a b : str_leb a b = true -> str_leb b a = true -> a = b.
Proof.
  unfold str_leb. rewrite (str_cmp_antisym a b). destruct (str_cmp a b) eqn:E; cbn; try discriminate.
  intros _ _. now apply str_cmp_eq.
Qed.

(* ------------------------------------------------------------------------------------------ maps sorted by key *)

Lemma nodup_keys_inj {V} (m : list (str * V)) :
  nodup_keys m = true -> forall x y, In x m -> In y m -> fst x = fst y -> x = y.
Proof.
  induction m as [|kv m IH]; intros Hn x y Hx Hy Hk; [destruct Hx|].
  cbn in Hn. apply andb_true_iff in Hn. destruct Hn as [Hne Hn]. apply negb_true_iff in Hne.
  assert (Hno : forall z, In z m -> fst z <> fst kv).
  { intros z Hz Heq. assert (existsb (fun kv' => str_eqb (fst kv) (fst kv')) m = true); [|congruence].
    apply existsb_exists. exists z. split; [assumption|]. apply str_eqb_eq. now symmetry. }
  destruct Hx as [<-|Hx], Hy as [<-|Hy]; try reflexivity.
  - exfalso. apply (Hno y Hy). now symmetry.
  - exfalso. now apply (Hno x Hx).
  - now apply IH.
Qed.

Lemma sort_keys_perm {V} (m m' : list (str * V)) :
  nodup_keys m = true -> Permutation m m' -> sort_keys m = sort_keys m'.
Proof.
  intros Hn Hp. unfold sort_keys. apply isort_perm_eq; try assumption.
  - intros x y. apply str_leb_total.
  - intros x y z. apply str_leb_trans.
  - intros x y Hx Hy H1 H2. apply (nodup_keys_inj m Hn); try assumption. now apply str_leb_antisym.
Qed.

(* ------------------------------------------------------------------------------------------ the label order *)

Lemma label_leb_total a b : label_leb a b = true \/ label_leb b a = true.
Proof.
  unfold label_leb, label_cmp.
  rewrite (str_cmp_antisym (l_sub a) (l_sub b)), (str_cmp_antisym (l_pkg a) (l_pkg b)),
    (str_cmp_antisym (l_name a) (l_name b)).
  destruct (str_cmp (l_sub a) (l_sub b)), (str_cmp (l_pkg a) (l_pkg b)), (str_cmp (l_name a) (l_name b)); cbn; tauto.
Qed.

Lemma label_leb_antisym a b : label_leb a b = true -> label_leb b a = true -> a = b.
Proof.
  destruct a as [a1 a2 a3], b as [b1 b2 b3]. unfold label_leb, label_cmp. cbn [l_sub l_pkg l_name].
  rewrite (str_cmp_antisym a1 b1), (str_cmp_antisym a2 b2), (str_cmp_antisym a3 b3).
  destruct (str_cmp a1 b1) eqn:E1, (str_cmp a2 b2) eqn:E2, (str_cmp a3 b3) eqn:E3; cbn; try discriminate.
  intros _ _. apply str_cmp_eq in E1, E2, E3. now subst.
Qed.

Definition lex (c d : comparison) : comparison := match c with Eq => d | Lt => Lt | Gt => Gt end.

Lemma lex_lt_trans x y z p q r :
  (p = Lt -> q = Lt -> r = Lt) ->
  lex (str_cmp x y) p = Lt -> lex (str_cmp y z) q = Lt -> lex (str_cmp x z) r = Lt.
Proof.
  intros Hrest. destruct (str_cmp x y) eqn:E1, (str_cmp y z) eqn:E2; cbn; try discriminate; intros H1 H2.
  - apply str_cmp_eq in E1, E2. subst. rewrite str_cmp_refl. cbn. now apply Hrest.
  - apply str_cmp_eq in E1. subst. now rewrite E2.
  - apply str_cmp_eq in E2. subst. now rewrite E1.
  - now rewrite (str_cmp_lt_trans _ _ _ E1 E2).
Qed.

Lemma label_cmp_lt_trans a b c : label_cmp a b = Lt -> label_cmp b c = Lt -> label_cmp a c = Lt.
Proof.
  destruct a as [a1 a2 a3], b as [b1 b2 b3], c as [c1 c2 c3]. intros H1 H2.
  exact (lex_lt_trans a1 b1 c1 _ _ _ (lex_lt_trans a2 b2 c2 _ _ _ (str_cmp_lt_trans a3 b3 c3)) H1 H2).
Qed.

Lemma label_cmp_eq a b : label_cmp a b = Eq -> a = b.
Proof.
  destruct a as [a1 a2 a3], b as [b1 b2 b3]. unfold label_cmp. cbn [l_sub l_pkg l_name].
  destruct (str_cmp a1 b1) eqn:E1; try discriminate. destruct (str_cmp a2 b2) eqn:E2; try discriminate.
  intros E3. apply str_cmp_eq in E1, E2, E3. now subst.
Qed.

Lemma label_leb_trans a b c : label_leb a b = true -> label_leb b c = true -> label_leb a c = true.
Proof.
  unfold label_leb. destruct (label_cmp a b) eqn:E1; try discriminate; intros _;
    destruct (label_cmp b c) eqn:E2; try discriminate; intros _.
  - apply label_cmp_eq in E1. subst. now rewrite E2.
  - apply label_cmp_eq in E1. subst. now rewrite E2.
  - apply label_cmp_eq in E2. subst. now rewrite E1.
  - now rewrite (label_cmp_lt_trans _ _ _ E1 E2).
Qed.

Lemma sort_labels_perm l l' : Permutation l l' -> sort_labels l = sort_labels l'.
Proof.
  intros Hp. unfold sort_labels. apply isort_perm_eq; try assumption.
  - apply label_leb_total.
  - apply label_leb_trans.
  - intros x y _ _. apply label_leb_antisym.
Qed.

(* ------------------------------------------------------------------------------------------ getCommand *)

Lemma lookup_in {V} k (m : list (str * V)) v : lookup k m = Some v -> In (k, v) m.
Proof.
  induction m as [|[k' v'] m IH]; cbn; [discriminate|]. destruct (str_eqb_spec k k') as [->|Hne].
  - intros [= ->]. now left.
  - intros H. right. now apply IH.
Qed.

Lemma in_lookup {V} k (m : list (str * V)) v : nodup_keys m = true -> In (k, v) m -> lookup k m = Some v.
Proof.
  induction m as [|[k' v'] m IH]; intros Hn Hin; [destruct Hin|].
  cbn. destruct (str_eqb_spec k k') as [->|Hne].
  - f_equal. symmetry.
    exact (f_equal snd (nodup_keys_inj _ Hn (k', v) (k', v') Hin (or_introl eq_refl) eq_refl)).
  - destruct Hin as [[= -> ->]|Hin]; [congruence|]. apply IH; [|assumption].
    cbn in Hn. apply andb_true_iff in Hn. tauto.
Qed.

Lemma nodup_keys_perm {V} (m m' : list (str * V)) : Permutation m m' -> nodup_keys m = true -> nodup_keys m' = true.
Proof.
  (* via the characterisation by injectivity is awkward; use NoDup of the key list *)
  assert (Hchar : forall l : list (str * V), nodup_keys l = true <-> NoDup (map fst l)).
  { induction l as [|kv l IH]; cbn; [split; [constructor | reflexivity]|].
    rewrite andb_true_iff, negb_true_iff, IH. split.
    - intros [Hne Hnd]. constructor; [|assumption]. intros Hin. apply in_map_iff in Hin. destruct Hin as [z [Hz Hin]].
      assert (existsb (fun kv' => str_eqb (fst kv) (fst kv')) l = true); [|congruence].
      apply existsb_exists. exists z. split; [assumption|]. apply str_eqb_eq. now symmetry.
    - intros Hnd. inversion Hnd as [|? ? Hnot Hnd']; subst. split; [|assumption].
      destruct (existsb _ l) eqn:He; [|reflexivity]. exfalso. apply existsb_exists in He. destruct He as [z [Hz He]].
      apply str_eqb_eq in He. apply Hnot. rewrite He. now apply in_map. }
  intros Hp Hn. apply Hchar. apply Hchar in Hn. eapply Permutation_NoDup; [|exact Hn]. now apply Permutation_map.
Qed.

Lemma lookup_perm {V} k (m m' : list (str * V)) : nodup_keys m = true -> Permutation m m' -> lookup k m = lookup k m'.
Proof.
  intros Hn Hp. pose proof (nodup_keys_perm _ _ Hp Hn) as Hn'.
  destruct (lookup k m) as [v|] eqn:E.
  - symmetry. apply in_lookup; [assumption|]. eapply Permutation_in; [exact Hp|]. now apply lookup_in.
  - destruct (lookup k m') as [v|] eqn:E'; [|reflexivity].
    apply lookup_in in E'. apply (Permutation_in _ (Permutation_sym Hp)) in E'. apply (in_lookup _ _ _ Hn) in E'. congruence.
Qed.

Definition pick (acc kv : str * str) : str * str := if str_ltb (fst acc) (fst kv) then kv else acc.

Lemma str_ltb_leb a b : str_ltb a b = true -> str_leb a b = true.
Proof. unfold str_ltb, str_leb. destruct (str_cmp a b); congruence. Qed.

Lemma str_ltb_false_leb a b : str_ltb a b = false -> str_leb b a = true.
Proof.
  unfold str_ltb, str_leb. rewrite (str_cmp_antisym a b). destruct (str_cmp a b); cbn; congruence.
Qed.

Lemma str_ltb_leb_trans a b c : str_ltb a b = true -> str_leb b c = true -> str_ltb a c = true.
Proof.
  unfold str_ltb, str_leb. destruct (str_cmp a b) eqn:E1; try discriminate. intros _.
  destruct (str_cmp b c) eqn:E2; try discriminate; intros _.
  - apply str_cmp_eq in E2. subst. now rewrite E1.
  - now rewrite (str_cmp_lt_trans _ _ _ E1 E2).
Qed.

Lemma str_ltb_irrefl_leb a b : str_ltb a b = true -> str_leb b a = true -> False.
Proof.
  unfold str_ltb, str_leb. rewrite (str_cmp_antisym a b). destruct (str_cmp a b); cbn; congruence.
Qed.

(* what the `highest config` loop computes, whatever the order: the accumulator, or an entry with a strictly greater
   key; and a key that is at least every key *)
Lemma fold_pick_spec (m : smap) : forall acc,
  let r := fold_left pick m acc in
  (r = acc \/ (In r m /\ str_ltb (fst acc) (fst r) = true))
  /\ str_leb (fst acc) (fst r) = true
  /\ (forall kv, In kv m -> str_leb (fst kv) (fst r) = true).
Proof.
  induction m as [|kv m IH]; intros acc; cbn [fold_left].
  - cbv zeta. repeat split; [now left | destruct (str_leb_total (fst acc) (fst acc)); assumption | intros ? []].
  - cbv zeta. destruct (IH (pick acc kv)) as (Hr & Hle & Hall). unfold pick in *.
    destruct (str_ltb (fst acc) (fst kv)) eqn:Hlt.
    + repeat split.
      * right. destruct Hr as [->|[Hin Hlt']]; [split; [now left | assumption]|].
        split; [now right|]. eapply str_ltb_leb_trans; [exact Hlt|]. now apply str_ltb_leb.
      * eapply str_leb_trans; [apply str_ltb_leb; exact Hlt | exact Hle].
      * intros x [<-|Hx]; [assumption | now apply Hall].
    + repeat split.
      * destruct Hr as [->|[Hin Hlt']]; [now left | right; split; [now right | assumption]].
      * assumption.
      * intros x [<-|Hx]; [|now apply Hall].
        eapply str_leb_trans; [apply str_ltb_false_leb; exact Hlt | exact Hle].
Qed.

Lemma highest_fold m : highest m = fold_left pick m ([], []).
Proof. reflexivity. Qed.

Lemma highest_perm (m m' : smap) : nodup_keys m = true -> Permutation m m' -> highest m = highest m'.
Proof.
  intros Hn Hp. rewrite !highest_fold.
  destruct (fold_pick_spec m ([], [])) as (H1 & _ & A1). destruct (fold_pick_spec m' ([], [])) as (H2 & _ & A2).
  cbv zeta in *. set (r1 := fold_left pick m ([], [])) in *. set (r2 := fold_left pick m' ([], [])) in *.
  assert (A2' : forall kv, In kv m -> str_leb (fst kv) (fst r2) = true)
    by (intros kv Hk; apply A2; eapply Permutation_in; eassumption).
  destruct H1 as [E1|[I1 L1]], H2 as [E2|[I2 L2]].
  - congruence.
  - exfalso. apply (Permutation_in _ (Permutation_sym Hp)) in I2. specialize (A1 _ I2). rewrite E1 in A1.
    eapply str_ltb_irrefl_leb; eassumption.
  - exfalso. specialize (A2' _ I1). rewrite E2 in A2'. eapply str_ltb_irrefl_leb; eassumption.
  - apply (Permutation_in _ (Permutation_sym Hp)) in I2.
    apply (nodup_keys_inj m Hn); try assumption. apply str_leb_antisym; [now apply A2' | now apply A1].
Qed.

Lemma get_command_perm cfg fb (m m' : smap) single :
  nodup_keys m = true -> Permutation m m' ->
  get_command cfg fb (Some m) single = get_command cfg fb (Some m') single.
Proof.
  intros Hn Hp. unfold get_command. rewrite (lookup_perm cfg m m' Hn Hp), (lookup_perm fb m m' Hn Hp),
    (highest_perm m m' Hn Hp). reflexivity.
Qed.

(* ------------------------------------------------------------------------------------------ presentations *)

Lemma same_ordered f t t' : same_target t t' -> unordered f = false -> get f t = get f t'.
Proof. intros Hs Hu. specialize (Hs f). unfold field_same in Hs. now rewrite Hu in Hs. Qed.

Lemma same_val_perm f t t' : same_target t t' -> val_perm (get f t) (get f t') \/ get f t = get f t'.
Proof. intros Hs. specialize (Hs f). unfold field_same in Hs. destruct (unordered f); [now left | now right]. Qed.

Ltac val_cases H :=
  match goal with v : value, v' : value |- _ => destruct v, v' end;
  repeat match goal with o : option smap |- _ => destruct o end;
  cbn in *; try exact H; try discriminate H; try reflexivity; try exact I.

Lemma perm_labels v v' : val_perm v v' \/ v = v' -> Permutation (as_labels v) (as_labels v').
Proof. intros [H| ->]; [|reflexivity]. val_cases H. Qed.

Lemma perm_groups v v' : val_perm v v' \/ v = v' -> Permutation (as_groups v) (as_groups v').
Proof. intros [H| ->]; [|reflexivity]. val_cases H. Qed.

Lemma perm_lgroups v v' : val_perm v v' \/ v = v' -> Permutation (as_lgroups v) (as_lgroups v').
Proof. intros [H| ->]; [|reflexivity]. val_cases H. Qed.

Lemma perm_map v v' : val_perm v v' \/ v = v' -> Permutation (as_map v) (as_map v').
Proof. intros [H| ->]; [|reflexivity]. val_cases H. Qed.

Lemma perm_optmap v v' : val_perm v v' \/ v = v' ->
  match as_optmap v, as_optmap v' with
  | Some a, Some b => Permutation a b
  | None, None => True
  | _, _ => False
  end.
Proof.
  intros [H| ->]; [|destruct (as_optmap v'); [reflexivity | exact I]]. val_cases H.
Qed.

Lemma wf_keys t f : wf t -> keys_ok (get f t) = true.
Proof.
  unfold wf, wfb. intros H. do 4 (apply andb_true_iff in H; destruct H as [H _]).
  rewrite forallb_forall in H. apply H. destruct f; cbn; tauto.
Qed.

Lemma keys_groups v : keys_ok v = true -> nodup_keys (as_groups v) = true.
Proof. destruct v; cbn; auto. Qed.
Lemma keys_lgroups v : keys_ok v = true -> nodup_keys (as_lgroups v) = true.
Proof. destruct v; cbn; auto. Qed.
Lemma keys_map v : keys_ok v = true -> nodup_keys (as_map v) = true.
Proof. destruct v; cbn; auto. Qed.
Lemma keys_optmap v m : keys_ok v = true -> as_optmap v = Some m -> nodup_keys m = true.
Proof. destruct v; cbn; try discriminate. intros H [= ->]. exact H. Qed.

Lemma order_of_same {V} (sorted : bool) (m m' : list (str * V)) (u : bool) :
  sorted || negb u = true -> nodup_keys m = true -> Permutation m m' -> (u = false -> m = m') ->
  order_of sorted m = order_of sorted m'.
Proof.
  intros Hs Hn Hp He. unfold order_of. destruct sorted; [now apply sort_keys_perm|].
  destruct u; [discriminate | now apply He].
Qed.

Lemma command_same cfg fb o o' single :
  (forall m, o = Some m -> nodup_keys m = true) ->
  match o, o' with Some a, Some b => Permutation a b | None, None => True | _, _ => False end ->
  get_command cfg fb o single = get_command cfg fb o' single.
Proof.
  intros Hn Hp. destruct o as [a|], o' as [b|]; try contradiction; [|reflexivity].
  apply get_command_perm; [now apply Hn | assumption].
Qed.

(* an order-safe emit writes the same strings for every presentation of a target *)
Lemma toks_order_free e t t' : order_safe e = true -> wf t -> same_target t t' -> toks t e = toks t' e.
Proof.
  intros Hsafe Hwf Hs.
  destruct e as [f|f|test|f|f|f|sorted f g|sorted f|sorted f|sorted sep f|f tv fv|f tv|sep|b]; cbn [toks order_safe] in *.
  - rewrite (same_ordered f t t' Hs); [reflexivity | now apply negb_true_iff].
  - rewrite (same_ordered f t t' Hs); [reflexivity | now apply negb_true_iff].
  - rewrite (same_ordered FConfig t t' Hs eq_refl), (same_ordered FFallbackConfig t t' Hs eq_refl).
    destruct test.
    + rewrite (same_ordered FTestCommand t t' Hs eq_refl). f_equal. apply command_same.
      * intros m. apply keys_optmap. now apply wf_keys.
      * apply perm_optmap. apply same_val_perm. assumption.
    + rewrite (same_ordered FCommand t t' Hs eq_refl). f_equal. apply command_same.
      * intros m. apply keys_optmap. now apply wf_keys.
      * apply perm_optmap. apply same_val_perm. assumption.
  - rewrite (same_ordered f t t' Hs); [reflexivity | now apply negb_true_iff].
  - rewrite (same_ordered f t t' Hs); [reflexivity | now apply negb_true_iff].
  - f_equal. apply sort_labels_perm. apply perm_labels. now apply same_val_perm.
  - apply andb_true_iff in Hsafe. destruct Hsafe as [Hf Hg].
    rewrite (same_ordered f t t' Hs) by (now apply negb_true_iff). f_equal. f_equal.
    apply (order_of_same sorted _ _ (unordered g)); try assumption.
    + apply keys_groups. now apply wf_keys.
    + apply perm_groups. now apply same_val_perm.
    + intros Hu. now rewrite (same_ordered g t t' Hs Hu).
  - f_equal. apply (order_of_same sorted _ _ (unordered f)); try assumption.
    + apply keys_groups. now apply wf_keys.
    + apply perm_groups. now apply same_val_perm.
    + intros Hu. now rewrite (same_ordered f t t' Hs Hu).
  - f_equal. apply (order_of_same sorted _ _ (unordered f)); try assumption.
    + apply keys_lgroups. now apply wf_keys.
    + apply perm_lgroups. now apply same_val_perm.
    + intros Hu. now rewrite (same_ordered f t t' Hs Hu).
  - f_equal. apply (order_of_same sorted _ _ (unordered f)); try assumption.
    + apply keys_map. now apply wf_keys.
    + apply perm_map. now apply same_val_perm.
    + intros Hu. now rewrite (same_ordered f t t' Hs Hu).
  - rewrite (same_ordered f t t' Hs); [reflexivity | now apply negb_true_iff].
  - rewrite (same_ordered f t t' Hs); [reflexivity | now apply negb_true_iff].
  - rewrite (same_ordered FPassEnv t t' Hs eq_refl), (same_ordered FEnviron t t' Hs eq_refl). reflexivity.
  - reflexivity.
Qed.

Lemma conds_order_free cs rt t t' : same_target t t' -> forallb (cond_holds rt t) cs = forallb (cond_holds rt t') cs.
Proof.
  intros Hs. induction cs as [|c cs IH]; [reflexivity|]. cbn [forallb]. rewrite IH. f_equal.
  destruct c; cbn [cond_holds]; [reflexivity|]. now rewrite (same_ordered FIsTest t t' Hs eq_refl).
Qed.

(* the general theorem: a program made of order-safe emits only gives one stream per target *)
Theorem sorted_program_order_free p rt t t' :
  sorted_emits_only p = true -> wf t -> same_target t t' -> ser p rt t = ser p rt t'.
Proof.
  intros Hp Hwf Hs. unfold ser, sorted_emits_only in *. induction p as [|it p IH]; [reflexivity|].
  cbn [forallb] in Hp. apply andb_true_iff in Hp. destruct Hp as [Hit Hp].
  cbn [flat_map]. rewrite (IH Hp). f_equal. unfold item_enc, item_toks.
  rewrite (conds_order_free (fst it) rt t t' Hs), (toks_order_free (snd it) t t' Hit Hwf Hs). reflexivity.
Qed.

(* computation on the regenerated program: every map and the dependency list are sorted before they are written.
   An unsorted `range` over a map in ruleHash / hashMap / allBuildInputs / DeclaredOutputNames, or a missing sort in
   DeclaredDependencies, makes gotrans emit `sorted = false` / ELabels and this lemma fails. *)
Lemma gen_sorted_emits_only : sorted_emits_only prog = true.
Proof. vm_compute. reflexivity. Qed.

Lemma C07_full_proof :
  forall (D : Type) (H : str -> D) rt t t', wf t -> same_target t t' -> H (ser prog rt t) = H (ser prog rt t').
Proof.
  intros D H rt t t' Hwf Hs. f_equal. now apply sorted_program_order_free; [apply gen_sorted_emits_only| |].
Qed.

(* the converse direction, for the record: an unsorted map emit does depend on the order *)
Lemma unsorted_map_depends_on_order :
  let p := [([], EMap false (s "=") FEnv)] in
  exists t t', wf t /\ same_target t t' /\ ser p false t <> ser p false t'.
Proof.
  cbv zeta.
  exists (Model.C08_Set.set_env [(s "a", s "1"); (s "b", s "2")] Model.C08_Set.empty_target),
         (Model.C08_Set.set_env [(s "b", s "2"); (s "a", s "1")] Model.C08_Set.empty_target).
  split; [vm_compute; reflexivity|]. split; [|vm_compute; discriminate].
  intros f. unfold field_same. destruct f; cbn; try reflexivity. apply perm_swap.
Qed.
