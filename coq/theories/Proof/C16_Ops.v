(* C16 - operator chains: interpretOps' flat evaluation is the evaluation of asp_tree (all chains),
   and on the ops_safe chains asp_tree is the tree CPython's grammar builds (all chains), hence the two
   evaluations agree for every operand semantics.  Everything is stated over the REGENERATED
   precedence / lazy tables (Gen/AspTables.v): a changed precedence breaks prec_order_agrees. *)
From Coq Require Import String Lia.
From PlzV Require Import Base.Harness Gen.AspTables Model.C16_Syntax Model.C16_Ops.
Local Open Scope Z_scope.
Local Open Scope list_scope.

(* ---- facts about the regenerated tables ---- *)
Lemma alazy_spec : forall k, alazy k = match k with KB And | KB Or => true | _ => false end.
Proof. intros [[]|[]]; reflexivity. Qed.

(* interpretOps compares Precedence() values with >=; CPython's levels are ordered the same way *)
Lemma prec_order_agrees : forall a b, (aprec a >=? aprec b) = (pyprec a >=? pyprec b).
Proof. intros [[]|[]] [[]|[]]; reflexivity. Qed.

Lemma prec_lt_agrees : forall a b, (aprec a <? aprec b) = (pyprec a <? pyprec b).
Proof.
  intros a b. pose proof (prec_order_agrees a b) as H.
  rewrite !Z.geb_leb in H. rewrite !Z.ltb_antisym. now rewrite H.
Qed.

(* the precedence table as it stands (documentation; also fails to compile when a value changes) *)
Lemma asp_prec_values :
  map aprec all_keys = [2; 2; 3; 3; 3; 3; 0; 0; 0; 0; 0; 0; 0; 0; -2; -3; 1; 0; 0; 4; -1].
Proof. reflexivity. Qed.

Lemma interpret_ops_pinned : asp_interpret_ops_pinned = true.
Proof. reflexivity. Qed.

(* ---- rbind ---- *)
Lemma rbind_assoc : forall {A B C} (r : res A) (f : A -> res B) (g : B -> res C),
  rbind (rbind r f) g = rbind r (fun a => rbind (f a) g).
Proof. intros A B C [a| |] f g; reflexivity. Qed.

Lemma rbind_ext : forall {A B} (r : res A) (f g : A -> res B), (forall a, f a = g a) -> rbind r f = rbind r g.
Proof. intros A B [a| |] f g H; simpl; auto. Qed.

Lemma rbind_ret_pair : forall {A B} (r : res (A * B)), rbind r (fun '(a, b) => Ok (a, b)) = r.
Proof. intros A B [[a b]| |]; reflexivity. Qed.

Lemma asp_tree_cons2 : forall {X V} (acc : tree X V) (i0 i1 : item X) rest,
  asp_tree acc (i0 :: i1 :: rest) =
    if aprec (ikey i0) >=? aprec (ikey i1) then asp_tree (node i0 acc) (i1 :: rest)
    else match i0 with
         | IBin o x => TBin o acc (asp_tree (TLeaf x) (i1 :: rest))
         | IUn u => TUn u (asp_tree acc (i1 :: rest))
         end.
Proof. reflexivity. Qed.

Section FlatIsTree.
  Context {X V S : Type}.
  Variable evalx : X -> S -> res (V * S).
  Variable apply_bin : binop -> V -> V -> S -> res (V * S).
  Variable apply_un : unop -> V -> S -> res V.
  Variable truthy : V -> S -> bool.
  Notation flat := (flat_ops evalx apply_bin apply_un truthy).
  Notation tev := (teval evalx apply_bin apply_un truthy).
  Notation iop := (interp_op_x evalx apply_bin apply_un truthy).

  Lemma flat_cons2 : forall (obj : V) (i0 i1 : item X) rest st,
    flat obj (i0 :: i1 :: rest) st =
      if aprec (ikey i0) >=? aprec (ikey i1) then
        rbind (iop obj i0 st) (fun '(r, st1) => flat r (i1 :: rest) st1)
      else if alazy (ikey i0) && negb (Bool.eqb (truthy obj st) (key_is_and (ikey i0))) then Ok (obj, st)
      else match i0 with
           | IUn u => rbind (flat obj (i1 :: rest) st) (fun '(r, st1) => lift_un apply_un u r st1)
           | IBin o x =>
               rbind (evalx x st) (fun '(r0, st1) =>
               rbind (flat r0 (i1 :: rest) st1) (fun '(n, st2) => interp_op_v apply_bin truthy obj o n st st2))
           end.
  Proof. reflexivity. Qed.

  Lemma node_eval : forall (i : item X) (acc : tree X V) st,
    tev (node i acc) st = rbind (tev acc st) (fun '(v, st1) => iop v i st1).
  Proof.
    intros [o x|u] acc st; simpl.
    - apply rbind_ext. intros [a st1]. destruct o; reflexivity.
    - reflexivity.
  Qed.

  (* interpretOps evaluates exactly the tree asp_tree: for EVERY chain, safe or not *)
  Lemma flat_is_tree_acc : forall (ops : list (item X)) (acc : tree X V) st,
    rbind (tev acc st) (fun '(v, st1) => flat v ops st1) = tev (asp_tree acc ops) st.
  Proof.
    induction ops as [|i0 rest IH]; intros acc st.
    - simpl. apply rbind_ret_pair.
    - destruct rest as [|i1 rest'].
      + cbn [asp_tree flat_ops]. now rewrite node_eval.
      + rewrite asp_tree_cons2. destruct (aprec (ikey i0) >=? aprec (ikey i1)) eqn:Hp.
        * rewrite <- IH, node_eval, rbind_assoc. apply rbind_ext. intros [v st1].
          rewrite flat_cons2, Hp. reflexivity.
        * destruct i0 as [o x|u].
          -- cbn [teval]. apply rbind_ext. intros [a st1].
             rewrite flat_cons2, Hp. rewrite <- IH. cbn [teval ikey]. rewrite alazy_spec.
             destruct o; cbn [key_is_and binop_eqb andb negb];
               try (rewrite rbind_assoc; apply rbind_ext; intros [r0 st2]; reflexivity).
             ++ (* And *) destruct (truthy a st1) eqn:Ht; cbn [Bool.eqb negb]; [|reflexivity].
                rewrite rbind_assoc. apply rbind_ext. intros [r0 st2].
                apply rbind_ext. intros [n st3].
                unfold interp_op_v, recheck. destruct (Bool.eqb (truthy a st3) (truthy a st1)) eqn:E; [|reflexivity].
                apply eqb_prop in E. rewrite E, Ht. reflexivity.
             ++ (* Or *) destruct (truthy a st1) eqn:Ht; cbn [Bool.eqb negb]; [reflexivity|].
                rewrite rbind_assoc. apply rbind_ext. intros [r0 st2].
                apply rbind_ext. intros [n st3].
                unfold interp_op_v, recheck. destruct (Bool.eqb (truthy a st3) (truthy a st1)) eqn:E; [|reflexivity].
                apply eqb_prop in E. rewrite E, Ht. reflexivity.
          -- cbn [teval]. rewrite <- IH, rbind_assoc. apply rbind_ext. intros [v st1].
             rewrite flat_cons2, Hp. cbn [ikey]. rewrite alazy_spec. reflexivity.
  Qed.

  Theorem flat_is_tree : forall (ops : list (item X)) (obj : V) st,
    flat obj ops st = tev (asp_tree (TVal obj) ops) st.
  Proof. intros. rewrite <- flat_is_tree_acc. reflexivity. Qed.
End FlatIsTree.

(* ---- the two groupings coincide on the safe chains ---- *)
Section Grouping.
  Context {X V : Type}.
  Notation tree := (tree X V).
  Notation sentry := (@sentry X V).

  Definition prec_above (e : sentry) (ops : list (item X)) : Prop :=
    forall i, List.In i ops -> eprec e < pyprec (ikey i).

  Lemma reduce_while_frame : forall p o (S0 : list sentry) e cur,
    eprec e < p ->
    reduce_while p o (S0 ++ [e]) cur =
      let '(S1, c1, ch) := reduce_while p o S0 cur in (S1 ++ [e], c1, ch).
  Proof.
    intros p o S0 e. induction S0 as [|e0 r IH]; intros cur Hlt.
    - cbn [app reduce_while].
      destruct (eprec e >? p) eqn:H1; [apply Z.gtb_lt in H1; lia|].
      destruct (eprec e =? p) eqn:H2; [apply Z.eqb_eq in H2; lia|]. reflexivity.
    - cbn [app reduce_while].
      destruct (eprec e0 >? p); [now apply IH|].
      destruct (eprec e0 =? p); [|reflexivity].
      destruct e0 as [l o1 c|u]; [|now apply IH].
      destruct (is_cmp o1 && is_cmp o); [reflexivity|now apply IH].
  Qed.

  Lemma finish_frame : forall (S0 : list sentry) e cur, finish (S0 ++ [e]) cur = reduce1 e (finish S0 cur).
  Proof. intros. unfold finish. now rewrite fold_left_app. Qed.

  (* a pending operator that every later operator binds tighter than stays pending to the very end *)
  Lemma py_sy_frame : forall (ops : list (item X)) (S0 : list sentry) e cur,
    prec_above e ops -> py_sy (S0 ++ [e]) cur ops = reduce1 e (py_sy S0 cur ops).
  Proof.
    induction ops as [|i rest IH]; intros S0 e cur Habove.
    - apply finish_frame.
    - assert (Hrest : prec_above e rest) by (intros j Hj; apply Habove; now right).
      destruct i as [o x|u].
      + cbn [py_sy]. rewrite reduce_while_frame by (apply (Habove (IBin o x)); now left).
        destruct (reduce_while (pyprec (KB o)) o S0 cur) as [[S1 c1] ch].
        change (SBin c1 o ch :: S1 ++ [e]) with ((SBin c1 o ch :: S1) ++ [e]). now apply IH.
      + cbn [py_sy]. change (SUn u :: S0 ++ [e]) with ((SUn u :: S0) ++ [e]). now apply IH.
  Qed.

  Lemma forallb_above : forall (i0 : item X) rest,
    forallb (fun j : item X => aprec (ikey i0) <? aprec (ikey j)) rest = true ->
    forall j, List.In j rest -> pyprec (ikey i0) < pyprec (ikey j).
  Proof.
    intros i0 rest H j Hj. rewrite forallb_forall in H. specialize (H j Hj).
    rewrite prec_lt_agrees in H. now apply Z.ltb_lt.
  Qed.

  (* one incoming binary operator against a stack holding exactly one pending operator that is not looser *)
  Lemma reduce_single : forall (e : sentry) (o1 : binop) cur,
    eprec e >= pyprec (KB o1) ->
    (match e with SBin _ o0 _ => negb (is_cmp o0 && is_cmp o1) = true | SUn _ => True end) ->
    reduce_while (pyprec (KB o1)) o1 [e] cur = ([], reduce1 e cur, None).
  Proof.
    intros e o1 cur Hge Hcmp. cbn [reduce_while].
    destruct (eprec e >? pyprec (KB o1)) eqn:H1; [reflexivity|].
    destruct (eprec e =? pyprec (KB o1)) eqn:H2.
    - destruct e as [l o0 c|u]; [|reflexivity].
      apply negb_true_iff in Hcmp. now rewrite Hcmp.
    - rewrite Z.gtb_ltb in H1. apply Z.ltb_ge in H1. apply Z.eqb_neq in H2. lia.
  Qed.

  Lemma py_sy_bin : forall (stk : list sentry) cur o x (rest : list (item X)),
    py_sy stk cur (IBin o x :: rest) =
      let '(stk1, cur1, ch) := reduce_while (pyprec (KB o)) o stk cur in py_sy (SBin cur1 o ch :: stk1) (TLeaf x) rest.
  Proof. reflexivity. Qed.
  Lemma py_sy_un : forall (stk : list sentry) cur u (rest : list (item X)),
    py_sy stk cur (IUn u :: rest) = py_sy (SUn u :: stk) cur rest.
  Proof. reflexivity. Qed.
  Lemma reduce_nil : forall p o (cur : tree), reduce_while p o [] cur = ([], cur, None).
  Proof. reflexivity. Qed.
  Lemma ops_safe_cons2 : forall (i0 i1 : item X) rest,
    ops_safe (i0 :: i1 :: rest) =
      (if aprec (ikey i0) >=? aprec (ikey i1)
       then negb (item_is_cmp i0 && item_is_cmp i1) && negb (item_is_un i1)
       else forallb (fun j => aprec (ikey i0) <? aprec (ikey j)) (i1 :: rest))
      && ops_safe (i1 :: rest).
  Proof. reflexivity. Qed.

  Theorem groupings_agree : forall (ops : list (item X)) (acc : tree),
    ops_safe ops = true -> py_tree acc ops = asp_tree acc ops.
  Proof.
    unfold py_tree.
    induction ops as [|i0 rest IH]; intros acc Hsafe.
    - reflexivity.
    - destruct rest as [|i1 rest'].
      + destruct i0; reflexivity.
      + rewrite ops_safe_cons2 in Hsafe. apply andb_true_iff in Hsafe. destruct Hsafe as [Hhead Hrest].
        rewrite asp_tree_cons2. destruct (aprec (ikey i0) >=? aprec (ikey i1)) eqn:Hp.
        * (* both reduce i0 first *)
          apply andb_true_iff in Hhead. destruct Hhead as [Hcmp Hun].
          destruct i1 as [o1 x1|u1]; [|discriminate].
          rewrite <- (IH (node i0 acc) Hrest).
          rewrite prec_order_agrees in Hp. apply Z.geb_le in Hp.
          destruct i0 as [o x|u].
          -- rewrite py_sy_bin, reduce_nil. rewrite py_sy_bin.
             rewrite (reduce_single (SBin acc o None) o1 (TLeaf x));
               [| cbn [eprec ikey] in *; lia | exact Hcmp].
             rewrite (py_sy_bin [] (node (IBin o x) acc)), reduce_nil. reflexivity.
          -- rewrite py_sy_un, py_sy_bin.
             rewrite (reduce_single (SUn u) o1 acc); [| cbn [eprec ikey] in *; lia | exact I].
             rewrite (py_sy_bin [] (node (IUn u) acc)), reduce_nil. reflexivity.
        * (* i0 takes everything that follows: allowed only when everything that follows binds tighter *)
          pose proof (forallb_above i0 (i1 :: rest') Hhead) as Habove.
          destruct i0 as [o x|u].
          -- rewrite py_sy_bin, reduce_nil.
             change [SBin acc o None] with ([] ++ [SBin acc o None]).
             rewrite py_sy_frame by (intros j Hj; cbn [eprec]; now apply Habove).
             cbn [reduce1]. now rewrite IH.
          -- rewrite py_sy_un.
             change [SUn u] with ([] ++ [@SUn X V u]).
             rewrite py_sy_frame by (intros j Hj; cbn [eprec]; now apply Habove).
             cbn [reduce1]. now rewrite IH.
  Qed.

  (* the classifier is complete: a chain it does not flag is safe *)
  Lemma chain_class_none_safe : forall (ops : list (item X)), chain_class ops = None -> ops_safe ops = true.
  Proof.
    induction ops as [|i0 rest IH]; intros H; [reflexivity|].
    destruct rest as [|i1 rest']; [reflexivity|].
    rewrite ops_safe_cons2.
    change (chain_class (i0 :: i1 :: rest')) with
      (if aprec (ikey i0) >=? aprec (ikey i1) then
          if item_is_cmp i0 && item_is_cmp i1 then Some DCmpNotChained
          else if item_is_un i1 then Some DPrefixAfterTighter
          else chain_class (i1 :: rest')
        else if forallb (fun j => aprec (ikey i0) <? aprec (ikey j)) (i1 :: rest') then chain_class (i1 :: rest')
        else match i0, i1 with
             | IUn _, _ => Some DPrefixTakesRest
             | IBin o _, IUn Neg => Some DNegTakesRest
             | IBin o _, _ => if alazy (KB o) then Some DLazyDropsTail else Some DRestAsRightOperand
             end) in H.
    destruct (aprec (ikey i0) >=? aprec (ikey i1)).
    - destruct (item_is_cmp i0 && item_is_cmp i1); [discriminate|].
      destruct (item_is_un i1); [discriminate|]. now rewrite IH.
    - destruct (forallb (fun j => aprec (ikey i0) <? aprec (ikey j)) (i1 :: rest')).
      + now rewrite IH.
      + destruct i0 as [o x|u]; [|discriminate].
        destruct i1 as [o1 x1|[]]; try discriminate; destruct (alazy (KB o)); discriminate.
  Qed.
End Grouping.

(* ---- ops_agree: for every safe chain, every operand semantics, every state ---- *)
Section Agree.
  Context {X V S : Type}.
  Variable evalx : X -> S -> res (V * S).
  Variable apply_bin : binop -> V -> V -> S -> res (V * S).
  Variable apply_un : unop -> V -> S -> res V.
  Variable truthy : V -> S -> bool.

  Theorem ops_agree : forall (ops : list (item X)) (obj : V) (st : S),
    ops_safe ops = true ->
    flat_ops evalx apply_bin apply_un truthy obj ops st = py_ops evalx apply_bin apply_un truthy obj ops st.
  Proof.
    intros ops obj st Hsafe. unfold py_ops. rewrite flat_is_tree. now rewrite groupings_agree.
  Qed.

  Corollary ops_agree_class : forall (ops : list (item X)) (obj : V) (st : S),
    chain_class ops = None ->
    flat_ops evalx apply_bin apply_un truthy obj ops st = py_ops evalx apply_bin apply_un truthy obj ops st.
  Proof. intros. apply ops_agree. now apply chain_class_none_safe. Qed.
End Agree.
