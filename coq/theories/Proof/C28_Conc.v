(* C28 follow-up (round 2) - Client.digestMessage under concurrency.
   For a digestMessage whose buffer belongs to the calling goroutine, EVERY schedule of EVERY number of goroutines
   gives each goroutine exactly the state it reaches with the Client to itself (projection theorem, induction over
   the schedule); hence every action digest computed concurrently is the sequential action digest.  With the
   buffer on the shared Client the statement is false (two goroutines, five steps). *)
From PlzV Require Import Base.Harness Model.C28.
From Coq Require Import Lia.

Section Conc.
  Variable HM : amsg -> str.
  Variable prog : list dstep.
  Hypothesis prog_local : all_local prog = true.

  Definition thread_local (t : thread) : Prop := all_local (t_pc t) = true.

  Lemma advance_local t pc loc res : all_local pc = true -> thread_local (advance t pc loc res).
  Proof. intros Hpc. unfold thread_local, advance. destruct pc; [reflexivity|exact Hpc]. Qed.

  (* a step of a goroutine that uses only its own buffer neither reads nor writes the Client's buffer *)
  Lemma tstep_frame sh sh' t : thread_local t ->
    tstep HM prog sh t = (sh, snd (tstep HM prog sh' t)) /\ thread_local (snd (tstep HM prog sh t)).
  Proof.
    unfold thread_local, tstep. intros Hl. destruct (t_pc t) as [|st r] eqn:Epc.
    - destruct (t_job t (t_done t)); cbn; [split; [reflexivity|exact prog_local]|split; [reflexivity|rewrite Epc; reflexivity]].
    - cbn [all_local forallb] in Hl. apply andb_prop in Hl as [Hst Hr].
      destruct st as [[|]|[|]]; try discriminate; cbn [fst snd]; (split; [reflexivity|apply advance_local; exact Hr]).
  Qed.

  Lemma tstep_sh sh t : thread_local t -> fst (tstep HM prog sh t) = sh.
  Proof. intros Hl. rewrite (proj1 (tstep_frame sh sh t Hl)). reflexivity. Qed.

  Lemma step_nth_spec j : forall sh ts, Forall thread_local ts ->
    fst (step_nth HM prog j sh ts) = sh
    /\ Forall thread_local (snd (step_nth HM prog j sh ts))
    /\ forall i, nth_error (snd (step_nth HM prog j sh ts)) i
                 = if Nat.eqb i j then option_map (fun t => snd (tstep HM prog None t)) (nth_error ts i) else nth_error ts i.
  Proof.
    induction j as [|j IH]; intros sh ts Hall.
    - destruct ts as [|t r]; cbn [step_nth].
      + split; [reflexivity|]. split; [constructor|]. intros i. cbn [snd]. destruct (Nat.eqb i 0); destruct i; reflexivity.
      + inversion Hall as [|? ? Ht Hr]; subst.
        destruct (tstep HM prog sh t) as [sh' t'] eqn:E.
        pose proof (tstep_frame sh None t Ht) as [F1 F2]. rewrite E in F1, F2. cbn [snd] in F2.
        injection F1 as -> ->. cbn [fst snd].
        split; [reflexivity|]. split; [constructor; assumption|]. intros [|i]; reflexivity.
    - destruct ts as [|t r]; cbn [step_nth].
      + split; [reflexivity|]. split; [constructor|]. intros i. cbn [snd]. destruct (Nat.eqb i (S j)); destruct i; reflexivity.
      + inversion Hall as [|? ? Ht Hr]; subst.
        destruct (IH sh r Hr) as [I1 [I2 I3]].
        destruct (step_nth HM prog j sh r) as [sh' r'] eqn:E. cbn [fst snd] in *.
        split; [exact I1|]. split; [constructor; assumption|]. intros [|i]; [reflexivity|]. cbn [nth_error]. apply I3.
  Qed.

  Lemma alone_local n : forall t, thread_local t -> thread_local (alone HM prog n t).
  Proof.
    induction n as [|n IH]; intros t Ht; [exact Ht|]. cbn [alone]. apply IH. apply (tstep_frame None None t Ht).
  Qed.

  (* PROJECTION: after any schedule, goroutine i is where it would be after running alone for as many steps
     as the schedule gave it; the Client's buffer is untouched *)
  Theorem conc_projection : forall sched g, Forall thread_local (snd g) ->
    fst (run_sched HM prog sched g) = fst g
    /\ forall i, nth_error (snd (run_sched HM prog sched g)) i
                 = option_map (alone HM prog (count_occ Nat.eq_dec sched i)) (nth_error (snd g) i).
  Proof.
    induction sched as [|j r IH]; intros g Hall.
    - split; [reflexivity|]. intros i. cbn. destruct (nth_error (snd g) i); reflexivity.
    - unfold run_sched. cbn [fold_left]. fold (run_sched HM prog r (gstep HM prog g j)).
      destruct (step_nth_spec j (fst g) (snd g) Hall) as [S1 [S2 S3]].
      destruct (IH (gstep HM prog g j) S2) as [I1 I2]. unfold gstep in *.
      split; [rewrite I1; exact S1|].
      intros i. rewrite I2, S3. cbn [count_occ].
      destruct (Nat.eq_dec j i) as [->|Hne].
      + rewrite Nat.eqb_refl. destruct (nth_error (snd g) i); reflexivity.
      + assert (E : Nat.eqb i j = false) by (apply Nat.eqb_neq; intros ->; apply Hne; reflexivity).
        rewrite E. reflexivity.
  Qed.

  Lemma spawn_local j : thread_local (spawn j).
  Proof. reflexivity. Qed.

  Corollary conc_run_projection jobs sched i :
    nth_error (snd (conc_run HM prog jobs sched)) i
    = option_map (fun j => alone HM prog (count_occ Nat.eq_dec sched i) (spawn j)) (nth_error jobs i).
  Proof.
    unfold conc_run.
    assert (Hall : Forall thread_local (snd (@None amsg, map spawn jobs))).
    { cbn [snd]. apply Forall_forall. intros t Hin. apply in_map_iff in Hin as [j [<- _]]. apply spawn_local. }
    rewrite (proj2 (conc_projection sched _ Hall) i). cbn [snd]. rewrite nth_error_map.
    destruct (nth_error jobs i); reflexivity.
  Qed.
End Conc.

(* ---- buildAction with the program the unchanged source has ---- *)
Section ActionJob.
  Variable HM : amsg -> str.

  Definition action_digests (root : dirmsg) (cmd : cmdmsg) (timeout : N) (plat : list (str * str)) : list str :=
    [HM (MDir root); HM (MCmd cmd); HM (MAct (AM (HM (MCmd cmd)) (HM (MDir root)) timeout plat))].

  Lemma alone_stable prog t : t_pc t = [] -> t_job t (t_done t) = None -> forall n, alone HM prog n t = t.
  Proof.
    intros Hpc Hjob n. induction n as [|n IH]; [reflexivity|]. cbn [alone]. unfold tstep. rewrite Hpc, Hjob. exact IH.
  Qed.

  (* nine steps (call, marshal, hash - three times) and the goroutine holds the three digests; it then stays there *)
  Lemma alone_action root cmd timeout plat n : (9 <= n)%nat ->
    t_done (alone HM local_prog n (spawn (action_job root cmd timeout plat))) = action_digests root cmd timeout plat.
  Proof.
    intros Hn. replace n with (9 + (n - 9))%nat by lia. generalize (n - 9)%nat as k. intros k.
    change (alone HM local_prog (9 + k) (spawn (action_job root cmd timeout plat)))
      with (alone HM local_prog k (alone HM local_prog 9 (spawn (action_job root cmd timeout plat)))).
    rewrite alone_stable; reflexivity.
  Qed.

  (* before that, it holds a prefix of them: a goroutine never exhibits a digest of anything else *)
  Lemma alone_action_prefix root cmd timeout plat n :
    exists k, t_done (alone HM local_prog n (spawn (action_job root cmd timeout plat))) = firstn k (action_digests root cmd timeout plat).
  Proof.
    destruct (Nat.le_gt_cases 9 n) as [Hge|Hlt].
    - exists 3%nat. rewrite alone_action by exact Hge. reflexivity.
    - do 9 (destruct n as [|n]; [first [exists 0%nat; reflexivity | exists 1%nat; reflexivity | exists 2%nat; reflexivity | exists 3%nat; reflexivity]|]).
      lia.
  Qed.
End ActionJob.

(* ---- the action digest of the model (Section Action of Model.C28) computed by N goroutines at once ---- *)
Section ConcAction.
  Variable H : dirmsg -> str.
  Variable HC : cmdmsg -> str.
  Variable HA : actmsg -> str.
  Variable srt : sorter.
  Variable quote : str -> str.
  Variable c : conf.

  (* what the goroutine preparing d does with the Client: nothing when Build fails *)
  Definition decl_job (d : decl) : job :=
    match build H srt (d_ops d) with
    | Some (_, root) => action_job root (command_of srt quote c d root) (d_timeout d) (target_platform (d_labels d) (f_plat c))
    | None => fun _ => None
    end.

  Theorem conc_action_digest prog : all_local prog = true -> prog = local_prog ->
    forall (ds : list decl) (sched : list nat) (i : nat) (d : decl) (t : thread),
      nth_error ds i = Some d ->
      nth_error (snd (conc_run (hm H HC HA) prog (map decl_job ds) sched)) i = Some t ->
      (* whatever the other goroutines do, this one has only digests of ITS messages ... *)
      (forall root, option_map snd (build H srt (d_ops d)) = Some root ->
         exists k, t_done t = firstn k (action_digests (hm H HC HA) root (command_of srt quote c d root) (d_timeout d)
                                                       (target_platform (d_labels d) (f_plat c))))
      (* ... and once it has been scheduled nine times, the last one is the sequential action digest *)
      /\ ((9 <= count_occ Nat.eq_dec sched i)%nat -> forall dg, action_digest H HC HA srt quote c d = Some dg -> last (t_done t) [] = dg).
  Proof.
    intros Hloc -> ds sched i d t Hd Ht.
    rewrite (conc_run_projection (hm H HC HA) local_prog Hloc) in Ht. rewrite nth_error_map, Hd in Ht. cbn [option_map] in Ht.
    injection Ht as <-. unfold decl_job, action_digest, action_of.
    destruct (build H srt (d_ops d)) as [[em root]|] eqn:Eb; cbn [option_map snd].
    - split.
      + intros root' E. injection E as <-. apply alone_action_prefix.
      + intros Hn dg E. injection E as <-. rewrite alone_action by exact Hn. reflexivity.
    - split; [intros root' E; discriminate|intros _ dg E; discriminate].
  Qed.
End ConcAction.

(* ---- the buffer on the shared Client: the statement is false ---- *)
Definition shared_prog : list dstep := [DMarshal BShared; DHash BShared].

Definition race_HM (m : amsg) : str :=
  match m with
  | MDir d => s "D" ++ flat_map fname (files d)
  | MCmd c => s "C" ++ concat (c_outs c)
  | MAct a => s "A(" ++ a_cmd a ++ s "," ++ a_root a ++ s ")"
  end.
Definition race_root1 : dirmsg := DM [FN (s "one") (s "1") false] [] [].
Definition race_root2 : dirmsg := DM [FN (s "two") (s "2") false] [] [].
Definition race_jobs : list job :=
  [action_job race_root1 (CM [] [] [s "o1"] []) 0 []; action_job race_root2 (CM [] [] [s "o2"] []) 0 []].
(* goroutine 0 enters digestMessage(root1) and serialises; goroutine 1 enters digestMessage(root2) and serialises
   into the same buffer; goroutine 0 hashes what is there *)
Definition race_sched : list nat := [0; 0; 1; 1; 0]%nat.

Lemma shared_buffer_races :
  all_local shared_prog = false
  /\ option_map (@t_done) (nth_error (snd (conc_run race_HM shared_prog race_jobs race_sched)) 0) = Some [s "Dtwo"]
  /\ option_map (@t_done) (nth_error (snd (conc_run race_HM local_prog race_jobs race_sched)) 0) = Some [s "Done"]
  (* the same goroutine, same program, not interrupted *)
  /\ option_map (@t_done) (nth_error (snd (conc_run race_HM shared_prog race_jobs [0; 0; 0; 1; 1]%nat)) 0) = Some [s "Done"].
Proof. vm_compute. repeat split. Qed.

(* and the final action digest of goroutine 0 is then not the sequential one *)
Definition race_sched_full : list nat := race_sched ++ [1; 0; 0; 0; 0; 0; 0; 1; 1; 1; 1; 1]%nat.
Lemma shared_buffer_wrong_action_digest :
  option_map (fun t => last (t_done t) []) (nth_error (snd (conc_run race_HM shared_prog race_jobs race_sched_full)) 0)
  <> option_map (fun t => last (t_done t) []) (nth_error (snd (conc_run race_HM local_prog race_jobs race_sched_full)) 0)
  /\ option_map (fun t => length (t_done t)) (nth_error (snd (conc_run race_HM shared_prog race_jobs race_sched_full)) 0) = Some 3%nat.
Proof. vm_compute. split; [discriminate|reflexivity]. Qed.
