(* C25 - proofs.  The keep set computed by targetsToRemove is closed under dependencies and contains
   the roots, the subincludes, the named targets and the tests found in one round; whatever is removed
   has a gc sibling outside that set. *)
From PlzV Require Import Base.Harness Base.StrFacts Gen.GcConds Model.C25 Proof.C25_Spec.
From Coq Require Import Lia.

(* ---- labels, membership ------------------------------------------------------------------------ *)
Lemma label_eqb_spec a b : reflect (a = b) (label_eqb a b).
Proof.
  destruct a as [a1 a2 a3], b as [b1 b2 b3]. unfold label_eqb. cbn [l_sub l_pkg l_name].
  destruct (str_eqb_spec a1 b1) as [->|N1]; [|right; congruence].
  destruct (str_eqb_spec a2 b2) as [->|N2]; [|right; congruence].
  destruct (str_eqb_spec a3 b3) as [->|N3]; [left; reflexivity|right; congruence].
Qed.

Lemma label_eqb_refl a : label_eqb a a = true.
Proof. destruct (label_eqb_spec a a); congruence. Qed.

Lemma kmem_In l m : kmem l m = true <-> In l m.
Proof.
  unfold kmem. rewrite existsb_exists. split.
  - intros [x [Hin Heq]]. destruct (label_eqb_spec l x); [subst; assumption|discriminate].
  - intros Hin. exists l. split; [assumption|apply label_eqb_refl].
Qed.

Lemma kmem_false l m : kmem l m = false <-> ~ In l m.
Proof. rewrite <- kmem_In. destruct (kmem l m); split; congruence. Qed.

Lemma str_mem_In x l : str_mem x l = true <-> In x l.
Proof.
  unfold str_mem. rewrite existsb_exists. split.
  - intros [y [Hin Heq]]. destruct (str_eqb_spec x y); [subst; assumption|discriminate].
  - intros Hin. exists x. split; [assumption|apply str_eqb_refl].
Qed.

Lemma find_target_some g l t : find_target g l = Some t -> In t (g_targets g) /\ t_label t = l.
Proof.
  unfold find_target. intros H. apply find_some in H. destruct H as [Hin Heq].
  split; [assumption|]. destruct (label_eqb_spec (t_label t) l); [assumption|discriminate].
Qed.

Lemma In_exists_in g t : In t (g_targets g) -> exists_in g (t_label t).
Proof.
  unfold exists_in, find_target. intros Hin Hnone.
  eapply find_none in Hnone; [|exact Hin]. cbv beta in Hnone. rewrite label_eqb_refl in Hnone. discriminate.
Qed.

(* ---- sorting keeps the elements ---------------------------------------------------------------- *)
Lemma In_insert_by {X} (ltb : X -> X -> bool) x y l : In y (insert_by ltb x l) <-> y = x \/ In y l.
Proof.
  induction l as [|z r IH]; cbn [insert_by].
  - cbn. intuition.
  - destruct (ltb z x); cbn [In]; [rewrite IH|]; intuition.
Qed.

Lemma In_sort_by {X} (ltb : X -> X -> bool) y l : In y (sort_by ltb l) <-> In y l.
Proof.
  unfold sort_by. induction l as [|z r IH]; cbn [fold_right In]; [tauto|].
  rewrite In_insert_by, IH. intuition.
Qed.

(* ---- generic fold over option-valued steps ------------------------------------------------------ *)
Lemma fold_none {X} (F : option kset -> X -> option kset) :
  (forall x, F None x = None) -> forall xs, fold_left F xs None = None.
Proof. intros HN xs. induction xs as [|x r IH]; cbn [fold_left]; [reflexivity|]. rewrite HN. exact IH. Qed.

Lemma fold_phase {X} (F : option kset -> X -> option kset) (Inv : kset -> Prop) (Goal : X -> kset -> Prop) :
  (forall x, F None x = None) ->
  (forall x m m', Inv m -> F (Some m) x = Some m' -> Inv m' /\ incl m m' /\ Goal x m') ->
  (forall x m m', Goal x m -> incl m m' -> Goal x m') ->
  forall xs m m', Inv m -> fold_left F xs (Some m) = Some m' ->
    Inv m' /\ incl m m' /\ forall x, In x xs -> Goal x m'.
Proof.
  intros HN Hstep Hmono xs. induction xs as [|x r IH]; intros m m' Hinv Hfold; cbn [fold_left] in Hfold.
  - injection Hfold as <-. split; [assumption|]. split; [apply incl_refl|]. intros x [].
  - destruct (F (Some m) x) as [m1|] eqn:E1.
    + destruct (Hstep _ _ _ Hinv E1) as [Hinv1 [Hincl1 Hgoal1]].
      destruct (IH _ _ Hinv1 Hfold) as [Hinv' [Hincl' Hgoals]].
      split; [assumption|]. split; [eapply incl_tran; eassumption|].
      intros y [<-|Hy]; [eapply Hmono; eassumption|apply Hgoals; assumption].
    + rewrite (fold_none F HN) in Hfold. discriminate.
Qed.

(* ---- addTarget ---------------------------------------------------------------------------------- *)
Definition closed (g : graph) (m : kset) : Prop :=
  forall x t d, In x m -> find_target g x = Some t -> In d (dep_labels t) -> exists_in g d -> In d m.

(* the deps of x are in m *)
Definition deps_in (g : graph) (m : kset) (x : label) : Prop :=
  forall t d, find_target g x = Some t -> In d (dep_labels t) -> exists_in g d -> In d m.

Lemma add_target_none f g l : add_target f g None l = None.
Proof. destruct f; reflexivity. Qed.

Definition add_spec (g : graph) (m : kset) (l : label) (m' : kset) : Prop :=
  incl m m' /\ (exists_in g l -> In l m') /\ (forall x, In x m' -> ~ In x m -> deps_in g m' x).

Lemma deps_in_mono g m m' x : deps_in g m x -> incl m m' -> deps_in g m' x.
Proof. unfold deps_in. intros H Hi t d H1 H2 H3. apply Hi. eapply H; eassumption. Qed.

Lemma fold_add_spec f g :
  (forall m l m', add_target f g (Some m) l = Some m' -> add_spec g m l m') ->
  forall ds m0 m', fold_left (add_target f g) ds (Some m0) = Some m' ->
    incl m0 m' /\ (forall d, In d ds -> exists_in g d -> In d m') /\ (forall x, In x m' -> ~ In x m0 -> deps_in g m' x).
Proof.
  intros IHf ds. induction ds as [|d r IH]; intros m0 m' Hfold; cbn [fold_left] in Hfold.
  - injection Hfold as <-. split; [apply incl_refl|]. split; [intros d []|]. intros x Hx Hnx. contradiction.
  - destruct (add_target f g (Some m0) d) as [m1|] eqn:E1.
    + destruct (IHf _ _ _ E1) as [Hi1 [Hd1 Hnew1]].
      destruct (IH _ _ Hfold) as [Hi' [Hds' Hnew']].
      split; [eapply incl_tran; eassumption|]. split.
      * intros y [<-|Hy] Hex; [apply Hi', Hd1, Hex|apply Hds'; assumption].
      * intros x Hx Hnx. destruct (kmem x m1) eqn:Ek.
        -- apply kmem_In in Ek. eapply deps_in_mono; [apply Hnew1; assumption|assumption].
        -- apply kmem_false in Ek. apply Hnew'; assumption.
    + rewrite (fold_none (add_target f g) (add_target_none f g)) in Hfold. discriminate.
Qed.

Lemma add_target_spec f g : forall m l m', add_target f g (Some m) l = Some m' -> add_spec g m l m'.
Proof.
  induction f as [|f IHf]; intros m l m' H; cbn [add_target] in H.
  - destruct (find_target g l) as [t|] eqn:Ef.
    + destruct (kmem l m) eqn:Ek; [|discriminate]. injection H as <-.
      split; [apply incl_refl|]. split; [intros _; apply kmem_In; assumption|]. intros x Hx Hnx. contradiction.
    + injection H as <-. split; [apply incl_refl|]. split; [intros Hex; contradiction|]. intros x Hx Hnx. contradiction.
  - destruct (find_target g l) as [t|] eqn:Ef.
    + destruct (kmem l m) eqn:Ek.
      * injection H as <-. split; [apply incl_refl|]. split; [intros _; apply kmem_In; assumption|].
        intros x Hx Hnx. contradiction.
      * destruct (fold_add_spec f g IHf _ _ _ H) as [Hi [Hds Hnew]].
        split; [intros y Hy; apply Hi; right; assumption|].
        split; [intros _; apply Hi; left; reflexivity|].
        intros x Hx Hnx. destruct (label_eqb_spec x l) as [->|Hne].
        -- intros t' d Ht' Hd Hex. rewrite Ef in Ht'. injection Ht' as <-. apply Hds; assumption.
        -- apply Hnew; [assumption|]. intros [Heq|Hin]; [congruence|contradiction].
    + injection H as <-. split; [apply incl_refl|]. split; [intros Hex; contradiction|]. intros x Hx Hnx. contradiction.
Qed.

Lemma add_target_step f g m l m' :
  closed g m -> add_target f g (Some m) l = Some m' ->
  closed g m' /\ incl m m' /\ (exists_in g l -> In l m').
Proof.
  intros Hc H. destruct (add_target_spec f g _ _ _ H) as [Hi [Hl Hnew]].
  split; [|split; assumption].
  intros x t d Hx Ht Hd Hex. destruct (kmem x m) eqn:Ek.
  - apply kmem_In in Ek. apply Hi. eapply Hc; eassumption.
  - apply kmem_false in Ek. eapply Hnew; eassumption.
Qed.

(* ---- publicDependencies finds every target the test is a test of -------------------------------- *)
Lemma pd_step_none g t rec d : pd_step g t rec None d = None.
Proof. reflexivity. Qed.

Lemma pd_fold_none g t rec ds : fold_left (pd_step g t rec) ds None = None.
Proof. induction ds as [|d r IH]; [reflexivity|exact IH]. Qed.

(* the regenerated condition of gc.go:204 says: same parent label.  (This is the lemma that no longer
   checks when the comparison in publicDependencies is changed.) *)
Lemma same_rule_spec a b : same_rule a b = true <-> parent a = parent b.
Proof.
  unfold same_rule, GcConds.same_rule_cond.
  destruct (label_eqb_spec (parent a) (parent b)) as [E|N]; split; intros H; congruence.
Qed.

Lemma same_rule_false a b : same_rule a b = false <-> parent a <> parent b.
Proof. rewrite <- same_rule_spec. destruct (same_rule a b); split; congruence. Qed.

Lemma pd_fold g t rec : forall ds acc r,
  fold_left (pd_step g t rec) ds (Some acc) = Some r ->
  incl acc r /\
  forall d dt, In d ds -> find_target g d = Some dt ->
    (parent (t_label dt) <> parent (t_label t) -> In dt r) /\
    (parent (t_label dt) = parent (t_label t) -> exists rr, rec dt = Some rr /\ incl rr r).
Proof.
  induction ds as [|d0 ds IH]; intros acc r H; cbn [fold_left] in H.
  - injection H as <-. split; [apply incl_refl|]. intros d dt [].
  - destruct (pd_step g t rec (Some acc) d0) as [acc1|] eqn:E1; [|rewrite pd_fold_none in H; discriminate].
    destruct (IH _ _ H) as [Hi1 Hrest].
    assert (Hacc : incl acc acc1).
    { unfold pd_step in E1. destruct (find_target g d0) as [dt0|]; [|injection E1 as <-; apply incl_refl].
      destruct (same_rule (t_label dt0) (t_label t)).
      - destruct (rec dt0); [|discriminate]. injection E1 as <-. apply incl_appl, incl_refl.
      - injection E1 as <-. apply incl_appl, incl_refl. }
    split; [eapply incl_tran; eassumption|].
    intros d dt [<-|Hin] Hf; [|eapply Hrest; eassumption].
    unfold pd_step in E1. rewrite Hf in E1.
    destruct (same_rule (t_label dt) (t_label t)) eqn:Esr;
      [apply same_rule_spec in Esr; rename Esr into Heq|apply same_rule_false in Esr; rename Esr into Hne].
    + split; [intros Hc; contradiction|]. intros _.
      destruct (rec dt) as [rr|]; [|discriminate]. injection E1 as <-.
      exists rr. split; [reflexivity|]. eapply incl_tran; [|exact Hi1]. apply incl_appr, incl_refl.
    + split; [|intros Hc; contradiction]. intros _. injection E1 as <-.
      apply Hi1, in_or_app. right. left. reflexivity.
Qed.

Lemma public_deps_complete g t x :
  test_of g t x -> forall f ds, public_deps f g t = Some ds -> In x ds.
Proof.
  induction 1 as [t d x Hd Hf Hp | t d h x Hd Hf Hp Hto IH | t l x Hs Hf]; intros f ds Hpd;
    (destruct f as [|f]; [discriminate|]); cbn [public_deps] in Hpd;
    destruct (fold_left (pd_step g t (public_deps f g)) (t_declared t) (Some [])) as [r|] eqn:Er; try discriminate;
    injection Hpd as <-.
  - destruct (pd_fold _ _ _ _ _ _ Er) as [_ Hall]. destruct (Hall _ _ Hd Hf) as [H1 _].
    apply in_or_app. left. apply H1, Hp.
  - destruct (pd_fold _ _ _ _ _ _ Er) as [_ Hall]. destruct (Hall _ _ Hd Hf) as [_ H2].
    destruct (H2 Hp) as [rr [Hrr Hincl]]. apply in_or_app. left. apply Hincl. eapply IH. exact Hrr.
  - apply in_or_app. right. unfold subrepo_dep. rewrite Hs, Hf. left. reflexivity.
Qed.

(* ... and nothing else: whatever publicDependencies returns, the test is a test of (at any fuel, any
   depth of nesting).  With public_deps_complete: publicDependencies = test_of, exactly. *)
Lemma pd_fold_sound g t rec : forall ds acc r,
  fold_left (pd_step g t rec) ds (Some acc) = Some r ->
  forall x, In x r ->
    In x acc \/
    exists d dt, In d ds /\ find_target g d = Some dt /\
      ((parent (t_label dt) <> parent (t_label t) /\ x = dt) \/
       (parent (t_label dt) = parent (t_label t) /\ exists rr, rec dt = Some rr /\ In x rr)).
Proof.
  induction ds as [|d0 ds IH]; intros acc r H x Hx; cbn [fold_left] in H.
  - injection H as <-. left. exact Hx.
  - destruct (pd_step g t rec (Some acc) d0) as [acc1|] eqn:E1; [|rewrite pd_fold_none in H; discriminate].
    destruct (IH _ _ H x Hx) as [Hacc1|[d [dt [Hd [Hf Hcase]]]]].
    + unfold pd_step in E1. destruct (find_target g d0) as [dt0|] eqn:Ef0; [|injection E1 as <-; left; exact Hacc1].
      destruct (same_rule (t_label dt0) (t_label t)) eqn:Esr.
      * apply same_rule_spec in Esr. destruct (rec dt0) as [rr|] eqn:Er; [|discriminate]. injection E1 as <-.
        apply in_app_or in Hacc1. destruct Hacc1 as [Ha|Hr]; [left; exact Ha|].
        right. exists d0, dt0. split; [left; reflexivity|]. split; [exact Ef0|]. right. split; [exact Esr|].
        exists rr. split; [exact Er|exact Hr].
      * apply same_rule_false in Esr. injection E1 as <-.
        apply in_app_or in Hacc1. destruct Hacc1 as [Ha|[Hr|[]]]; [left; exact Ha|].
        right. exists d0, dt0. split; [left; reflexivity|]. split; [exact Ef0|]. left. split; [exact Esr|]. symmetry. exact Hr.
    + right. exists d, dt. split; [right; exact Hd|]. split; [exact Hf|exact Hcase].
Qed.

Lemma public_deps_sound g : forall f t ds x, public_deps f g t = Some ds -> In x ds -> test_of g t x.
Proof.
  induction f as [|f IHf]; intros t ds x Hpd Hx; [discriminate|]. cbn [public_deps] in Hpd.
  destruct (fold_left (pd_step g t (public_deps f g)) (t_declared t) (Some [])) as [r|] eqn:Er; [|discriminate].
  injection Hpd as <-. apply in_app_or in Hx. destruct Hx as [Hr|Hs].
  - destruct (pd_fold_sound _ _ _ _ _ _ Er x Hr) as [[]|[d [dt [Hd [Hf [[Hne ->]|[Heq [rr [Hrr Hin]]]]]]]]].
    + eapply TO_direct; eassumption.
    + eapply TO_hidden; [exact Hd|exact Hf|exact Heq|]. eapply IHf; eassumption.
  - unfold subrepo_dep in Hs. destruct (t_subrepo_target t) as [l|] eqn:El; [|destruct Hs].
    destruct (find_target g l) as [y|] eqn:Ey; [|destruct Hs]. destruct Hs as [<-|[]].
    eapply TO_subrepo; eassumption.
Qed.

Theorem public_deps_exact g f t ds : public_deps f g t = Some ds -> forall x, In x ds <-> test_of g t x.
Proof.
  intros Hpd x. split; [apply (public_deps_sound g f t ds x Hpd)|].
  intros Hto. eapply public_deps_complete; eassumption.
Qed.

(* a chain of hidden sub-targets of the test's own rule, of ANY length, is looked through *)
Lemma hidden_chain_test_of g : forall hs t x, hidden_chain g t hs x -> test_of g t x.
Proof.
  induction hs as [|h r IH]; intros t x H; cbn [hidden_chain] in H.
  - destruct H as [d [Hd [Hf Hne]]]. eapply TO_direct; eassumption.
  - destruct H as [[d [Hd Hf]] [Heq Hrest]]. eapply TO_hidden; [exact Hd|exact Hf|exact Heq|]. apply IH. exact Hrest.
Qed.

(* publicDependencies finds the far end of such a chain, whatever its length *)
Lemma hidden_chain_found g f t hs x ds : hidden_chain g t hs x -> public_deps f g t = Some ds -> In x ds.
Proof. intros Hc. apply public_deps_complete, hidden_chain_test_of with (1 := Hc). Qed.

(* a link that is a hidden sub-target of ANOTHER rule is not looked through: it is returned itself, and
   what lies behind it only counts when it is reached some other way (public_deps_sound) *)
Lemma foreign_hidden_is_subject g f t d h ds :
  In d (t_declared t) -> find_target g d = Some h -> parent (t_label h) <> parent (t_label t) ->
  public_deps f g t = Some ds -> In h ds.
Proof. intros Hd Hf Hne. apply public_deps_complete. eapply TO_direct; eassumption. Qed.

(* ---- the phases of targetsToRemove --------------------------------------------------------------- *)
Section Phases.
Variables (g : graph) (a : args).
Let F := fuel_of g.

Definition at_step (m : option kset) (l : label) := add_target F g m l.

Lemma at_phase : forall (Inv0 : kset -> Prop),
  (forall m m', Inv0 m -> incl m m' -> Inv0 m') ->
  forall ls m m', (closed g m /\ Inv0 m) -> fold_left (add_target F g) ls (Some m) = Some m' ->
    (closed g m' /\ Inv0 m') /\ incl m m' /\ forall l, In l ls -> exists_in g l -> In l m'.
Proof.
  intros Inv0 Hmono ls m m' Hinv Hfold.
  eapply (fold_phase (add_target F g) (fun m => closed g m /\ Inv0 m) (fun l m => exists_in g l -> In l m)); try eassumption.
  - intros x. apply add_target_none.
  - intros x k k' [Hc Hi] Hs. destruct (add_target_step _ _ _ _ _ Hc Hs) as [Hc' [Hincl Hl]].
    split; [split; [assumption|eapply Hmono; eassumption]|]. split; assumption.
  - intros x k k' Hg Hincl Hex. apply Hincl, Hg, Hex.
Qed.

Definition True_inv (m : kset) : Prop := True.

(* phase 1: every root of the code is added *)
Lemma phase_roots_spec m m' :
  closed g m -> phase_roots g a (Some m) = Some m' ->
  closed g m' /\ incl m m' /\ forall t, In t (g_targets g) -> is_root a t = true -> In (t_label t) m'.
Proof.
  intros Hc H. unfold phase_roots in H.
  destruct (fold_phase (fun m t => if is_root a t then add_target (fuel_of g) g m (t_label t) else m)
              (closed g) (fun t m => is_root a t = true -> exists_in g (t_label t) -> In (t_label t) m)) with (4 := Hc) (5 := H)
    as [Hc' [Hi Hg]].
  - intros t. destruct (is_root a t); [apply add_target_none|reflexivity].
  - intros t k k' Hck Hs. destruct (is_root a t).
    + destruct (add_target_step _ _ _ _ _ Hck Hs) as [Hc' [Hincl Hl]]. split; [assumption|]. split; [assumption|]. intros _. exact Hl.
    + injection Hs as <-. split; [assumption|]. split; [apply incl_refl|]. intros Hd; discriminate.
  - intros t k k' Hgk Hincl Hr Hex. apply Hincl, Hgk; assumption.
  - split; [assumption|]. split; [assumption|]. intros t Hin Hr. apply Hg; [assumption|assumption|apply In_exists_in; assumption].
Qed.

(* phase 2: every subinclude is added (a missing one is fatal: no result) *)
Lemma phase_subincludes_spec m m' :
  closed g m -> phase_subincludes g (Some m) = Some m' ->
  closed g m' /\ incl m m' /\ forall p l, In p (g_pkgs g) -> In l (p_subincludes p) -> In l m'.
Proof.
  intros Hc H. unfold phase_subincludes in H.
  set (inner := fun (m : option kset) (sub : label) =>
                  match find_target g sub with None => None | Some _ => add_target (fuel_of g) g m sub end) in *.
  assert (Hin_none : forall x, inner None x = None).
  { intros x. unfold inner. destruct (find_target g x); [apply add_target_none|reflexivity]. }
  destruct (fold_phase (fun m p => fold_left inner (p_subincludes p) m) (closed g)
              (fun p m => forall l, In l (p_subincludes p) -> In l m)) with (4 := Hc) (5 := H) as [Hc' [Hi Hg]].
  - intros p. apply fold_none. exact Hin_none.
  - intros p k k' Hck Hs.
    eapply (fold_phase inner (closed g) (fun l m => In l m)); try eassumption.
    + intros l k1 k1' Hc1 Hs1. unfold inner in Hs1. destruct (find_target g l) as [tt|] eqn:Ef; [|discriminate].
      destruct (add_target_step _ _ _ _ _ Hc1 Hs1) as [Hc1' [Hincl Hl]]. split; [assumption|]. split; [assumption|].
      apply Hl. unfold exists_in. rewrite Ef. discriminate.
    + intros l k1 k1' Hl Hincl. apply Hincl, Hl.
  - intros p k k' Hgk Hincl l Hl. apply Hincl, Hgk, Hl.
  - split; [assumption|]. split; [assumption|]. intros p l Hp Hl. eapply Hg; eassumption.
Qed.

(* phase 3: the named targets *)
Definition named_goal (l : label) (m : kset) : Prop :=
  (is_all_subpackages l = false -> exists_in g l -> In l m) /\
  (is_all_subpackages l = true -> forall p x, In p (g_pkgs g) -> pkg_included_in p l = true ->
     In x (p_targets p) -> exists_in g x -> In x m).

Lemma phase_named_spec m m' :
  closed g m -> phase_named g a (Some m) = Some m' ->
  closed g m' /\ incl m m' /\ forall l, In l (a_targets a) -> named_goal l m'.
Proof.
  intros Hc H. unfold phase_named in H.
  eapply (fold_phase _ (closed g) named_goal); try eassumption.
  - intros l. cbv beta. destruct (is_all_subpackages l); [|apply add_target_none].
    apply fold_none. intros p. cbv beta. destruct (pkg_included_in p l); [|reflexivity].
    apply fold_none. intros x. apply add_target_none.
  - intros l k k' Hck Hs. cbv beta in Hs. unfold named_goal. destruct (is_all_subpackages l); cbv iota in Hs.
    + destruct (fold_phase (fun m p => if pkg_included_in p l then fold_left (add_target (fuel_of g) g) (p_targets p) m else m)
                  (closed g) (fun p m => pkg_included_in p l = true -> forall x, In x (p_targets p) -> exists_in g x -> In x m))
        with (4 := Hck) (5 := Hs) as [Hc' [Hi Hg]].
      * intros p. cbv beta. destruct (pkg_included_in p l); [|reflexivity]. apply fold_none. intros x. apply add_target_none.
      * intros p k1 k1' Hc1 Hs1. destruct (pkg_included_in p l).
        -- destruct (at_phase True_inv (fun _ _ _ _ => I) _ _ _ (conj Hc1 I) Hs1) as [[Hc1' _] [Hincl Hall]].
           split; [assumption|]. split; [assumption|]. intros _. exact Hall.
        -- injection Hs1 as <-. split; [assumption|]. split; [apply incl_refl|]. intros Hd; discriminate.
      * intros p k1 k1' Hg1 Hincl Hp x Hx Hex. apply Hincl, Hg1; assumption.
      * split; [assumption|]. split; [assumption|]. split; [intros Hd; discriminate|].
        intros _ p x Hp Hinc Hx Hex. eapply Hg; eassumption.
    + destruct (add_target_step _ _ _ _ _ Hck Hs) as [Hc' [Hincl Hl]].
      split; [assumption|]. split; [assumption|]. split; [intros _; exact Hl|intros Hd; discriminate].
  - intros l k k' [G1 G2] Hincl. split.
    + intros H1 H2. apply Hincl, G1; assumption.
    + intros H1 p x H2 H3 H4 H5. apply Hincl. eapply G2; eassumption.
Qed.

(* phase 4: one pass over the tests.  What was kept BEFORE the pass (m0) decides at least. *)
Definition test_goal (m0 : kset) (t : target) (m : kset) : Prop :=
  t_test t = true -> exists ds, public_deps (fuel_of g) g t = Some ds /\ forall x, In x ds ->
  In (t_label x) m0 -> t_test_only x = false -> exists_in g (t_label t) -> In (t_label t) m.

Lemma test_step_none t x : test_step g t None x = None.
Proof. reflexivity. Qed.

Lemma phase_tests_spec m0 m' :
  closed g m0 -> phase_tests g a (Some m0) = Some m' ->
  closed g m' /\ incl m0 m' /\
  (a_include_tests a = false -> forall t, In t (g_targets g) -> test_goal m0 t m').
Proof.
  intros Hc H. unfold phase_tests in H.
  destruct (a_include_tests a) eqn:Einc; unfold GcConds.tests_pass_cond in H; cbn [negb] in H.
  { injection H as <-. split; [assumption|]. split; [apply incl_refl|]. intros Hd; discriminate. }
  destruct (fold_phase (fun m t => if t_test t then match public_deps (fuel_of g) g t with
                                                    | None => None
                                                    | Some ds => fold_left (test_step g t) ds m
                                                    end else m)
              (fun m => closed g m /\ incl m0 m) (test_goal m0)) with (5 := H) as [[Hc' _] [Hi Hg]].
  - intros t. destruct (t_test t); [|reflexivity]. destruct (public_deps (fuel_of g) g t); [|reflexivity].
    apply fold_none. intros x. reflexivity.
  - intros t k k' [Hck Hik] Hs. unfold test_goal. destruct (t_test t).
    + destruct (public_deps (fuel_of g) g t) as [ds|] eqn:Epd; [|discriminate].
      destruct (fold_phase (test_step g t) (fun m => closed g m /\ incl m0 m)
                  (fun x m => In (t_label x) m0 -> t_test_only x = false -> exists_in g (t_label t) -> In (t_label t) m))
        with (4 := conj Hck Hik) (5 := Hs) as [Hinv' [Hincl Hgoal]].
      * intros x. reflexivity.
      * intros x k1 k1' [Hc1 Hi1] Hs1. unfold test_step in Hs1.
        destruct (kmem (t_label x) k1) eqn:Ek; destruct (t_test_only x) eqn:Eo;
          unfold GcConds.keep_test_cond, GcConds.keep_testonly_cond in Hs1; cbn [andb negb] in Hs1.
        -- destruct (add_target_step _ _ _ _ _ Hc1 Hs1) as [Hc1' [Hincl1 _]].
           split; [split; [assumption|eapply incl_tran; eassumption]|]. split; [assumption|]. intros _ Hd; discriminate.
        -- destruct (add_target_step _ _ _ _ _ Hc1 Hs1) as [Hc1' [Hincl1 Hl]].
           split; [split; [assumption|eapply incl_tran; eassumption]|]. split; [assumption|]. intros _ _ Hex. apply Hl, Hex.
        -- destruct (add_target_step _ _ _ _ _ Hc1 Hs1) as [Hc1' [Hincl1 _]].
           split; [split; [assumption|eapply incl_tran; eassumption]|]. split; [assumption|]. intros _ Hd; discriminate.
        -- injection Hs1 as <-. split; [split; assumption|]. split; [apply incl_refl|].
           intros Hin0. apply Hi1 in Hin0. apply kmem_In in Hin0. congruence.
      * intros x k1 k1' Hg1 Hincl H1 H2 H3. apply Hincl, Hg1; assumption.
      * split; [assumption|]. split; [assumption|]. intros _. exists ds. split; [reflexivity|]. exact Hgoal.
    + injection Hs as <-. split; [split; assumption|]. split; [apply incl_refl|]. intros Hd; discriminate.
  - intros t k k' Hgk Hincl Ht. destruct (Hgk Ht) as [ds [Hds Hall]]. exists ds. split; [assumption|].
    intros x H2 H3 H4 H5. apply Hincl. eapply Hall; eassumption.
  - split; [assumption|apply incl_refl].
  - split; [assumption|]. split; [assumption|]. intros _ t Ht. apply Hg, Ht.
Qed.

(* ---- all phases together ------------------------------------------------------------------------ *)
Lemma is_root_binary t :
  t_binary t = true -> (t_test t = false \/ a_include_tests a = true) -> is_root a t = true.
Proof.
  unfold is_root, GcConds.root_cond. intros -> [-> | ->]; cbn; [reflexivity|]. destruct (t_test t); reflexivity.
Qed.

Lemma is_root_label t : has_any_label t (a_keep_labels a) = true -> is_root a t = true.
Proof.
  unfold is_root, GcConds.root_cond. intros ->. destruct (t_binary t), (t_test t), (a_include_tests a); reflexivity.
Qed.

Lemma named_keep_is_root t : any_include (a_keep a) (t_label t) = true -> is_root a t = true.
Proof.
  unfold is_root, GcConds.root_cond. intros ->.
  destruct (t_binary t), (t_test t), (a_include_tests a), (has_any_label t (a_keep_labels a)); reflexivity.
Qed.

Record keep_facts (m0 m : kset) : Prop := {
  kf_closed0 : closed g m0;
  kf_closed : closed g m;
  kf_incl : incl m0 m;
  kf_roots : forall t, In t (g_targets g) -> root g a t -> In (t_label t) m0;
  kf_subs : forall l, subincluded g l -> exists_in g l -> In l m0;
  kf_tests : a_include_tests a = false -> forall t, In t (g_targets g) -> test_goal m0 t m
}.

Lemma gc_keep_facts m : gc_keep g a = Some m -> exists m0, keep_facts m0 m.
Proof.
  unfold gc_keep. intros H.
  destruct (phase_roots g a (Some [])) as [m1|] eqn:E1;
    [|unfold phase_subincludes in H; rewrite fold_none in H;
      [unfold phase_named in H; rewrite fold_none in H;
        [unfold phase_tests in H; destruct (GcConds.tests_pass_cond (a_include_tests a)); [rewrite fold_none in H|]; try discriminate;
         intros t; destruct (t_test t); [|reflexivity]; destruct (public_deps (fuel_of g) g t); [|reflexivity];
         apply fold_none; intros x; reflexivity|]
      |]].
  2:{ intros l. cbv beta. destruct (is_all_subpackages l); [|apply add_target_none].
      apply fold_none. intros p. cbv beta. destruct (pkg_included_in p l); [|reflexivity]. apply fold_none. intros x. apply add_target_none. }
  2:{ intros p. apply fold_none. intros x. destruct (find_target g x); [apply add_target_none|reflexivity]. }
  destruct (phase_subincludes g (Some m1)) as [m2|] eqn:E2;
    [|unfold phase_named in H; rewrite fold_none in H;
      [unfold phase_tests in H; destruct (GcConds.tests_pass_cond (a_include_tests a)); [rewrite fold_none in H|]; try discriminate;
       intros t; destruct (t_test t); [|reflexivity]; destruct (public_deps (fuel_of g) g t); [|reflexivity];
       apply fold_none; intros x; reflexivity|]].
  2:{ intros l. cbv beta. destruct (is_all_subpackages l); [|apply add_target_none].
      apply fold_none. intros p. cbv beta. destruct (pkg_included_in p l); [|reflexivity]. apply fold_none. intros x. apply add_target_none. }
  destruct (phase_named g a (Some m2)) as [m3|] eqn:E3;
    [|unfold phase_tests in H; destruct (GcConds.tests_pass_cond (a_include_tests a)); [rewrite fold_none in H|]; try discriminate;
      intros t; destruct (t_test t); [|reflexivity]; destruct (public_deps (fuel_of g) g t); [|reflexivity];
      apply fold_none; intros x; reflexivity].
  assert (Hc0 : closed g []) by (intros x t d []).
  destruct (phase_roots_spec _ _ Hc0 E1) as [Hc1 [_ Hr1]].
  destruct (phase_subincludes_spec _ _ Hc1 E2) as [Hc2 [Hi2 Hs2]].
  destruct (phase_named_spec _ _ Hc2 E3) as [Hc3 [Hi3 Hn3]].
  destruct (phase_tests_spec _ _ Hc3 H) as [Hc4 [Hi4 Ht4]].
  exists m3. constructor; try assumption.
  - intros t Hin [[Hb Ht]|[Hl|[Hk|[[Hl Hns]|[l [p [Hl [Has [Hp [Hinc Hx]]]]]]]]]].
    + apply Hi3, Hi2, Hr1; [assumption|apply is_root_binary; assumption].
    + apply Hi3, Hi2, Hr1; [assumption|apply is_root_label; assumption].
    + apply Hi3, Hi2, Hr1; [assumption|apply named_keep_is_root; assumption].
    + destruct (Hn3 _ Hl) as [G1 _]. apply G1; [assumption|apply In_exists_in; assumption].
    + destruct (Hn3 _ Hl) as [_ G2]. eapply G2; try eassumption. apply In_exists_in; assumption.
  - intros l [p [Hp Hl]] Hex. apply Hi3. eapply Hs2; eassumption.
Qed.

Lemma kept0_in m0 m : keep_facts m0 m -> forall l, Kept0 g a l -> In l m0.
Proof.
  intros KF l HK. induction HK as [t Hin Hr|l Hs Hex|l t d HK IH Hf Hd Hex].
  - eapply kf_roots; eassumption.
  - eapply kf_subs; eassumption.
  - eapply (kf_closed0 _ _ KF); eassumption.
Qed.

(* whatever one round of tests keeps, the code keeps *)
Lemma kept1_in m0 m : keep_facts m0 m -> forall l, Kept1 g a l -> In l m.
Proof.
  intros KF l HK. induction HK as [l H0|t x Hin Ht Hinc Hto H0 Ho|l t d HK IH Hf Hd Hex].
  - eapply kf_incl; [eassumption|]. eapply kept0_in; eassumption.
  - destruct (kf_tests _ _ KF Hinc t Hin Ht) as [ds [Hds Hall]].
    apply (Hall x); [eapply public_deps_complete; eassumption|eapply kept0_in; eassumption|assumption|apply In_exists_in; assumption].
  - eapply (kf_closed _ _ KF); eassumption.
Qed.

Lemma existsb_false {X} (f : X -> bool) l : existsb f l = false -> forall x, In x l -> f x = false.
Proof.
  intros H x Hin. destruct (f x) eqn:E; [|reflexivity].
  assert (existsb f l = true) by (apply existsb_exists; exists x; split; assumption). congruence.
Qed.

(* when no test is left unstable, everything the property calls kept is kept by the code *)
Lemma kept_in m0 m : keep_facts m0 m -> (forall t, In t (g_targets g) -> test_unstable g m t = false) ->
  forall l, Kept g a l -> In l m.
Proof.
  intros KF Hst l HK. induction HK as [t Hin Hr|l Hs Hex|l t d HK IH Hf Hd Hex|t x Hin Ht Hto HK IH Ho].
  - eapply kf_incl; [eassumption|]. eapply kf_roots; eassumption.
  - eapply kf_incl; [eassumption|]. eapply kf_subs; eassumption.
  - eapply (kf_closed _ _ KF); eassumption.
  - specialize (Hst t Hin). unfold test_unstable in Hst. rewrite Ht in Hst.
    destruct (kmem (t_label t) m) eqn:Ek; [apply kmem_In; assumption|]. cbn [andb negb] in Hst.
    destruct (public_deps (fuel_of g) g t) as [ds|] eqn:Epd; [|discriminate].
    pose proof (existsb_false _ _ Hst x (public_deps_complete _ _ _ Hto _ _ Epd)) as Hx. cbv beta in Hx.
    apply kmem_In in IH. rewrite IH, Ho in Hx. discriminate.
Qed.

End Phases.

(* ---- what is removed ------------------------------------------------------------------------------ *)
Lemma removable_not_kept g a m t : removable g a m t = true -> ~ In (t_label (gc_sibling g t)) m.
Proof.
  unfold removable, GcConds.remove_cond. intros H Hin. apply kmem_In in Hin. rewrite Hin in H.
  destruct (has_parent (t_label (gc_sibling g t))); discriminate.
Qed.

Lemma keep_srcs_In g m k t f : In k m -> find_target g k = Some t -> In f (t_srcs t) -> In f (keep_srcs g m).
Proof.
  intros Hk Hf Hs. unfold keep_srcs. apply in_flat_map. exists k. split; [assumption|]. unfold srcs_of. rewrite Hf. assumption.
Qed.

Lemma gc_inv g a rem srcs : gc g a = Some (rem, srcs) ->
  exists m, gc_keep g a = Some m /\
    (forall r, In r rem -> exists t, In t (g_targets g) /\ t_label t = r /\ ~ In (t_label (gc_sibling g t)) m) /\
    (forall f, In f srcs -> In f (removed_srcs g a m) /\ ~ In f (keep_srcs g m)).
Proof.
  unfold gc. destruct (gc_keep g a) as [m|]; [|discriminate]. intros H. injection H as <- <-.
  exists m. split; [reflexivity|]. split.
  - intros r Hr. apply In_sort_by in Hr. unfold removed_targets in Hr. apply in_map_iff in Hr.
    destruct Hr as [t [Hl Hin]]. apply filter_In in Hin. destruct Hin as [Hin Hrm].
    exists t. split; [assumption|]. split; [assumption|]. eapply removable_not_kept; eassumption.
  - intros f Hf. apply In_sort_by in Hf. split; [assumption|].
    unfold removed_srcs in Hf. apply in_flat_map in Hf. destruct Hf as [t [_ Hf]].
    apply filter_In in Hf. destruct Hf as [_ Hc]. unfold GcConds.remove_src_cond in Hc.
    intros Hin. apply str_mem_In in Hin. rewrite Hin in Hc. discriminate.
Qed.

(* ---- the theorems ---------------------------------------------------------------------------------- *)
(* unconditional: whatever is removed has its gc sibling outside the one-round kept set, and no removed
   source is a source of a target in that set *)
Theorem gc_safe_one_round g a rem srcs : gc g a = Some (rem, srcs) ->
  (forall r, In r rem -> exists t, In t (g_targets g) /\ t_label t = r /\ ~ Kept1 g a (t_label (gc_sibling g t))) /\
  (forall f, In f srcs -> forall k t, Kept1 g a k -> find_target g k = Some t -> ~ In f (t_srcs t)).
Proof.
  intros H. destruct (gc_inv _ _ _ _ H) as [m [Hk [Hrem Hsrcs]]].
  destruct (gc_keep_facts _ _ _ Hk) as [m0 KF]. split.
  - intros r Hr. destruct (Hrem r Hr) as [t [Hin [Hl Hns]]]. exists t. split; [assumption|]. split; [assumption|].
    intros HK. apply Hns. eapply kept1_in; eassumption.
  - intros f Hf k t HK Hft Hs. destruct (Hsrcs f Hf) as [_ Hnk]. apply Hnk.
    eapply keep_srcs_In; [eapply kept1_in; eassumption|eassumption|assumption].
Qed.

(* a test behind a chain (of any length) of hidden sub-targets of its own rule, of a non-test_only target
   the roots keep, stays - and so do its sources - provided it is its own gc sibling *)
Theorem chain_test_kept1 g a t hs x :
  In t (g_targets g) -> t_test t = true -> a_include_tests a = false ->
  hidden_chain g t hs x -> Kept0 g a (t_label x) -> t_test_only x = false -> Kept1 g a (t_label t).
Proof.
  intros Hin Ht Hinc Hc H0 Ho. eapply K1_test; try eassumption. eapply hidden_chain_test_of; eassumption.
Qed.

Theorem chain_test_not_removed g a rem srcs t hs x :
  gc g a = Some (rem, srcs) ->
  In t (g_targets g) -> t_test t = true -> a_include_tests a = false ->
  hidden_chain g t hs x -> Kept0 g a (t_label x) -> t_test_only x = false ->
  (forall t', In t' (g_targets g) -> t_label t' = t_label t -> t_label (gc_sibling g t') = t_label t) ->
  ~ In (t_label t) rem /\
  (forall t' f, find_target g (t_label t) = Some t' -> In f (t_srcs t') -> ~ In f srcs).
Proof.
  intros Hgc Hin Ht Hinc Hc H0 Ho Hsib.
  pose proof (chain_test_kept1 _ _ _ _ _ Hin Ht Hinc Hc H0 Ho) as HK.
  destruct (gc_safe_one_round _ _ _ _ Hgc) as [Hrem Hsrcs]. split.
  - intros Hr. destruct (Hrem _ Hr) as [t' [Hin' [Hl' Hns]]]. apply Hns. rewrite (Hsib t' Hin' Hl'). exact HK.
  - intros t' f Hf Hs Hfs. exact (Hsrcs f Hfs _ _ HK Hf Hs).
Qed.

Lemma uses_b_spec t f : uses t f -> uses_b t f = true.
Proof.
  intros [x [Hin Hx]]. unfold uses_b. apply existsb_exists. exists x. split; [assumption|].
  destruct Hx as [->|Hp]; [rewrite str_eqb_refl; reflexivity|rewrite Hp; apply orb_true_r].
Qed.

(* outside the listed defect classes the property holds at full strength *)
Theorem gc_safe_unless_defect g a rem srcs : gc g a = Some (rem, srcs) -> defect_class g a = None ->
  safe_targets g a rem /\ safe_sources g a srcs.
Proof.
  intros H Hd. destruct (gc_inv _ _ _ _ H) as [m [Hk [Hrem Hsrcs]]].
  destruct (gc_keep_facts _ _ _ Hk) as [m0 KF].
  unfold defect_class in Hd. rewrite Hk in Hd.
  destruct (existsb (fun t => kmem (t_label t) m && negb (kmem (t_label (gc_sibling g t)) m)) (g_targets g)) eqn:E1; [discriminate|].
  destruct (existsb (test_unstable g m) (g_targets g)) eqn:E2; [discriminate|].
  destruct (existsb (fun f => existsb (fun k => match find_target g k with Some t => uses_b t f | None => false end) m)
                    (removed_srcs g a m)) eqn:E3; [discriminate|].
  pose proof (kept_in _ _ _ _ KF (existsb_false _ _ E2)) as Hall.
  split.
  - intros r Hr HK. destruct (Hrem r Hr) as [t [Hin [Hl Hns]]]. subst r.
    pose proof (existsb_false _ _ E1 t Hin) as Ht. cbv beta in Ht.
    apply Hall, kmem_In in HK. rewrite HK in Ht. cbn [andb] in Ht.
    apply negb_false_iff, kmem_In in Ht. contradiction.
  - intros f Hf k t HK Hft Hu. destruct (Hsrcs f Hf) as [Hrf _].
    pose proof (existsb_false _ _ E3 f Hrf) as H3. cbv beta in H3.
    pose proof (existsb_false _ _ H3 k (Hall k HK)) as H4. cbv beta in H4. rewrite Hft in H4.
    rewrite (uses_b_spec _ _ Hu) in H4. discriminate.
Qed.

(* ---- witnesses --------------------------------------------------------------------------------------- *)
Definition lp (n : String.string) : label := L [] (s "p") (s n).
Arguments lp n%string_scope.
Definition mk (n : String.string) (binary test test_only : bool) (labels : list str) (deps : list label)
              (srcs data : list str) : target :=
  T (lp n) binary test test_only labels deps deps None srcs data.
Arguments mk n%string_scope.
Definition no_args : args := A [] [] [] [] false.

(* 1. the single pass over the tests.  //p:a_test is visited first, when //p:helper is not kept yet;
      //p:z_test (a test of the kept //p:lib) then pulls //p:helper in; //p:a_test is never looked at again *)
Definition w_order : graph :=
  G [ mk "a_test" true true true [] [lp "helper"] [s "p/a_test.go"] [];
      mk "bin" true false false [] [lp "lib"] [] [];
      mk "helper" false false false [] [] [s "p/helper.go"] [];
      mk "lib" false false false [] [] [s "p/lib.go"] [];
      mk "z_test" true true true [] [lp "helper"; lp "lib"] [s "p/z_test.go"] [] ]
    [ P [] (s "p") [] [lp "a_test"; lp "bin"; lp "helper"; lp "lib"; lp "z_test"] ].

Lemma w_order_gc : gc w_order no_args = Some ([lp "a_test"], [s "p/a_test.go"]).
Proof. vm_compute. reflexivity. Qed.

Lemma w_order_kept : Kept w_order no_args (lp "a_test").
Proof.
  assert (Hbin : Kept w_order no_args (lp "bin")).
  { apply (K_root w_order no_args (mk "bin" true false false [] [lp "lib"] [] [])).
    - right. left. reflexivity.
    - left. split; [reflexivity|left; reflexivity]. }
  assert (Hlib : Kept w_order no_args (lp "lib")).
  { eapply (K_dep w_order no_args (lp "bin")); [exact Hbin|reflexivity|left; reflexivity|discriminate]. }
  assert (Hz : Kept w_order no_args (lp "z_test")).
  { apply (K_test w_order no_args (mk "z_test" true true true [] [lp "helper"; lp "lib"] [s "p/z_test.go"] [])
                  (mk "lib" false false false [] [] [s "p/lib.go"] [])).
    - do 4 right. left. reflexivity.
    - reflexivity.
    - eapply (TO_direct w_order _ (lp "lib")); [right; left; reflexivity|reflexivity|discriminate].
    - exact Hlib.
    - reflexivity. }
  assert (Hh : Kept w_order no_args (lp "helper")).
  { eapply (K_dep w_order no_args (lp "z_test")); [exact Hz|reflexivity|left; reflexivity|discriminate]. }
  apply (K_test w_order no_args (mk "a_test" true true true [] [lp "helper"] [s "p/a_test.go"] [])
                (mk "helper" false false false [] [] [s "p/helper.go"] [])).
  - left. reflexivity.
  - reflexivity.
  - eapply (TO_direct w_order _ (lp "helper")); [left; reflexivity|reflexivity|discriminate].
  - exact Hh.
  - reflexivity.
Qed.

(* 2. gc_sibling: //p:gen_go is needed by the binary; its sibling //p:gen is not, so both go *)
Definition w_sibling : graph :=
  G [ mk "bin" true false false [] [lp "gen_go"] [] [];
      mk "gen" false false false [] [] [s "p/x.proto"] [];
      mk "gen_go" false false false [s "gc_sibling:gen"] [] [s "p/x.proto"] [] ]
    [ P [] (s "p") [] [lp "bin"; lp "gen"; lp "gen_go"] ].

Lemma w_sibling_gc : gc w_sibling no_args = Some ([lp "gen"; lp "gen_go"], []).
Proof. vm_compute. reflexivity. Qed.

Lemma w_sibling_kept : Kept w_sibling no_args (lp "gen_go").
Proof.
  eapply (K_dep w_sibling no_args (lp "bin")); [|reflexivity|left; reflexivity|discriminate].
  apply (K_root w_sibling no_args (mk "bin" true false false [] [lp "gen_go"] [] [])).
  - left. reflexivity.
  - left. split; [reflexivity|left; reflexivity].
Qed.

(* 3. a removed source that is data of a kept target *)
Definition w_data : graph :=
  G [ mk "bin" true false false [] [] [] [s "p/golden.txt"];
      mk "old" false false false [] [] [s "p/golden.txt"] [] ]
    [ P [] (s "p") [] [lp "bin"; lp "old"] ].

Lemma w_data_gc : gc w_data no_args = Some ([lp "old"], [s "p/golden.txt"]).
Proof. vm_compute. reflexivity. Qed.

Lemma w_data_used : Kept w_data no_args (lp "bin") /\
  find_target w_data (lp "bin") = Some (mk "bin" true false false [] [] [] [s "p/golden.txt"]) /\
  uses (mk "bin" true false false [] [] [] [s "p/golden.txt"]) (s "p/golden.txt").
Proof.
  split; [|split; [reflexivity|]].
  - apply (K_root w_data no_args (mk "bin" true false false [] [] [] [s "p/golden.txt"])).
    + left. reflexivity.
    + left. split; [reflexivity|left; reflexivity].
  - exists (s "p/golden.txt"). split; [left; reflexivity|left; reflexivity].
Qed.

(* 4. the fixed graph of gc_test.go: nothing wrong with it *)
Definition lq (p n : String.string) : label := L [] (s p) (s n).
Arguments lq (p n)%string_scope.
Definition mq (l : label) (binary test test_only : bool) (deps : list label) : target :=
  T l binary test test_only [] deps [] None [] [].
Definition w_unit : graph :=
  G [ mq (lq "src" "please") true false false [lq "src/core" "core"; lq "src/gc" "gc"];
      mq (lq "src/cli" "cli") false false false [];
      mq (lq "src/core" "core") false false false [];
      mq (lq "src/core" "core_test") true true false [lq "src/core" "core"];
      mq (lq "src/gc" "gc") false false false [lq "src/core" "core"];
      mq (lq "src/gc" "gc_test") true true false [lq "src/gc" "gc"; lq "src/gc" "test_lib"];
      mq (lq "src/gc" "test_lib") false false true [lq "src/core" "core"];
      mq (lq "src/parse" "parse") false false false [lq "src/core" "core"] ]
    [].

Lemma w_unit_ok : gc w_unit no_args = Some ([lq "src/cli" "cli"; lq "src/parse" "parse"], [])
                  /\ defect_class w_unit no_args = None.
Proof. vm_compute. split; reflexivity. Qed.

(* 5. a test behind TWO hidden sub-targets of its own rule (multi-stage test rules):
      //lib:k_test -> //lib:_k_test#main -> //lib:_k_test#lib -> //lib:k (kept by //app:bin).  Only junk goes. *)
Definition mt (l : label) (binary test test_only : bool) (deps : list label) (srcs : list str) : target :=
  T l binary test test_only [] deps deps None srcs [].
Definition c_bin := mt (lq "app" "bin") true false false [lq "lib" "k"] [].
Definition c_junk := mt (lq "junk" "junk") false false false [] [s "junk/junk.go"].
Definition c_hlib := mt (lq "lib" "_k_test#lib") false false true [lq "lib" "k"; lq "testing" "helper"] [].
Definition c_hmain := mt (lq "lib" "_k_test#main") false false true [lq "lib" "_k_test#lib"] [].
Definition c_k := mt (lq "lib" "k") false false false [] [s "lib/k.go"].
Definition c_ktest := mt (lq "lib" "k_test") true true true [lq "lib" "_k_test#main"] [s "lib/k_test.go"].
Definition c_helper := mt (lq "testing" "helper") false false false [] [s "testing/helper.go"].
Definition w_chain : graph := G [c_bin; c_junk; c_hlib; c_hmain; c_k; c_ktest; c_helper] [].

Lemma w_chain_gc : gc w_chain no_args = Some ([lq "junk" "junk"], [s "junk/junk.go"]).
Proof. vm_compute. reflexivity. Qed.

Lemma w_chain_chain : hidden_chain w_chain c_ktest [c_hmain; c_hlib] c_k.
Proof.
  cbn [hidden_chain]. split; [exists (lq "lib" "_k_test#main"); split; [left; reflexivity|reflexivity]|].
  split; [reflexivity|]. split; [exists (lq "lib" "_k_test#lib"); split; [left; reflexivity|reflexivity]|].
  split; [reflexivity|]. exists (lq "lib" "k"). split; [left; reflexivity|]. split; [reflexivity|].
  vm_compute. discriminate.
Qed.

Lemma w_chain_kept0 : Kept0 w_chain no_args (t_label c_k).
Proof.
  eapply (K0_dep w_chain no_args (t_label c_bin) c_bin); [|reflexivity|left; reflexivity|discriminate].
  apply (K0_root w_chain no_args c_bin); [left; reflexivity|]. left. split; [reflexivity|left; reflexivity].
Qed.

Lemma w_chain_own_sibling t' :
  In t' (g_targets w_chain) -> t_label t' = t_label c_ktest -> t_label (gc_sibling w_chain t') = t_label c_ktest.
Proof.
  intros Hin Hl. rewrite <- Hl. cbn [w_chain g_targets In] in Hin.
  repeat (destruct Hin as [<-|Hin]; [vm_compute; reflexivity|]). destruct Hin.
Qed.

(* the hypotheses of chain_test_not_removed are satisfiable, and its conclusion is what the code does *)
Lemma w_chain_ok :
  gc w_chain no_args = Some ([lq "junk" "junk"], [s "junk/junk.go"]) /\
  In c_ktest (g_targets w_chain) /\ t_test c_ktest = true /\ a_include_tests no_args = false /\
  hidden_chain w_chain c_ktest [c_hmain; c_hlib] c_k /\ Kept0 w_chain no_args (t_label c_k) /\ t_test_only c_k = false /\
  (forall t', In t' (g_targets w_chain) -> t_label t' = t_label c_ktest -> t_label (gc_sibling w_chain t') = t_label c_ktest).
Proof.
  split; [exact w_chain_gc|]. split; [do 5 right; left; reflexivity|]. split; [reflexivity|]. split; [reflexivity|].
  split; [exact w_chain_chain|]. split; [exact w_chain_kept0|]. split; [reflexivity|exact w_chain_own_sibling].
Qed.

(* 6. the link that only looks like one: //lib:_other#lib is a hidden sub-target of ANOTHER rule, so
      //lib:k_test is a test of //lib:_other#lib (which nothing keeps), not of //lib:k: it goes, and - the
      graph being outside every defect class - the partial theorem says that nothing kept needs it *)
Definition f_hmain := mt (lq "lib" "_k_test#main") false false true [lq "lib" "_other#lib"] [].
Definition f_olib := mt (lq "lib" "_other#lib") false false false [lq "lib" "k"] [].
Definition f_other := mt (lq "lib" "other") false false false [] [s "lib/other.go"].
Definition w_foreign : graph := G [c_bin; f_hmain; f_olib; c_k; c_ktest; f_other] [].

Lemma w_foreign_gc :
  gc w_foreign no_args = Some ([lq "lib" "k_test"; lq "lib" "other"], [s "lib/k_test.go"; s "lib/other.go"])
  /\ defect_class w_foreign no_args = None
  /\ option_map (map t_label) (public_deps (fuel_of w_foreign) w_foreign c_ktest) = Some [lq "lib" "_other#lib"].
Proof. vm_compute. repeat split. Qed.

Lemma w_foreign_not_kept : ~ Kept w_foreign no_args (lq "lib" "k_test").
Proof.
  destruct w_foreign_gc as [Hgc [Hd _]].
  destruct (gc_safe_unless_defect _ _ _ _ Hgc Hd) as [Hsafe _]. apply Hsafe. left. reflexivity.
Qed.

Lemma w_classes :
  defect_class w_order no_args = Some TestNotRevisited /\
  defect_class w_sibling no_args = Some SiblingNotKept /\
  defect_class w_data no_args = Some DataOrDirectory.
Proof. vm_compute. repeat split. Qed.
